/-
C17, parametric codec lemmas: signed / unsigned displacement fields with **arbitrary** (bits, shift, discard).

How "for every triple" is obtained without a case split over the triple:
 1. `encS32 / encU32 / encS64 / encU64`, `decS* / decU*`, `mask32 / mask64` are the model's encoder
    (Model/Offset.lean), the spec's decoder and field mask (Spec/Offset.lean) with the three format
    parameters passed as **bit-vector variables** `b s d : BitVec 64` instead of `Nat`s.
 2. The bridge lemmas `enc_*_bv`, `dec_*_bv`, `fieldMask*_bv` prove BY HAND (BitVec/Nat lemmas, omega; the closed
    constants `2^n - 1`, `2^64 - 2^n`, `32 - n`, ... are checked for every `n : Fin 33` / `Fin 65` by `decide`)
    that the `Nat`-parameter model/spec equal the bit-vector-parameter twins whenever the parameters are in range.
 3. The core lemmas `*_core_exact / *_core_refused` are stated for symbolic `b s d` (constrained by `≤`) and ALL
    64-bit displacements and are discharged by `bv_decide`: the SAT certificate covers every (bits, shift, discard)
    at once - the widths 32/64 are the C++ types' widths, nothing else is concrete.
-/
import AsmjitVerif.Spec.Offset
import Std.Tactic.BVDecide
namespace AsmjitVerif.Offset

/-! ### shifts by a `Nat` amount = shifts by the bit-vector amount -/
theorem shl_bv {w : Nat} (x : BitVec w) (n : Nat) (h : n < 2 ^ 64) : x <<< n = x <<< BitVec.ofNat 64 n := by
  rw [BitVec.shiftLeft_eq']; simp [Nat.mod_eq_of_lt h]
theorem shr_bv {w : Nat} (x : BitVec w) (n : Nat) (h : n < 2 ^ 64) : x >>> n = x >>> BitVec.ofNat 64 n := by
  rw [BitVec.ushiftRight_eq']; simp [Nat.mod_eq_of_lt h]
theorem sshr_bv {w : Nat} (x : BitVec w) (n : Nat) (h : n < 2 ^ 64) :
    x.sshiftRight n = x.sshiftRight' (BitVec.ofNat 64 n) := by
  rw [BitVec.sshiftRight_eq']; simp [Nat.mod_eq_of_lt h]

/-! ### closed constants, for every admissible parameter value (kernel-checked enumeration of `Fin 33` / `Fin 65`) -/
theorem lsbMask32_bv : ∀ n : Fin 33, lsbMask32 n.val = (1#32 <<< BitVec.ofNat 64 n.val) - 1#32 := by decide
theorem lsbMask64_bv : ∀ n : Fin 65, lsbMask64 n.val = (1#64 <<< BitVec.ofNat 64 n.val) - 1#64 := by decide
theorem sub32_bv : ∀ n : Fin 33, BitVec.ofNat 64 (32 - n.val) = 32#64 - BitVec.ofNat 64 n.val := by decide
theorem sub64_bv : ∀ n : Fin 65, BitVec.ofNat 64 (64 - n.val) = 64#64 - BitVec.ofNat 64 n.val := by decide
theorem ones64_bv : ∀ n : Fin 65, BitVec.ofNat 64 (2 ^ n.val - 1) = (1#64 <<< BitVec.ofNat 64 n.val) - 1#64 := by decide
theorem high64_bv : ∀ n : Fin 65, BitVec.ofNat 64 (2 ^ 64 - 2 ^ n.val) = 0#64 - (1#64 <<< BitVec.ofNat 64 n.val) := by decide
theorem pred64_bv : ∀ n : Fin 65, 1 ≤ n.val → BitVec.ofNat 64 (n.val - 1) = BitVec.ofNat 64 n.val - 1#64 := by decide
theorem fmask32_bv : ∀ b s : Fin 33, BitVec.ofNat 32 ((2 ^ b.val - 1) * 2 ^ s.val) =
    ((1#32 <<< BitVec.ofNat 64 b.val) - 1#32) <<< BitVec.ofNat 64 s.val := by decide
set_option maxRecDepth 100000 in
theorem fmask64_bv : ∀ b s : Fin 65, BitVec.ofNat 64 ((2 ^ b.val - 1) * 2 ^ s.val) =
    ((1#64 <<< BitVec.ofNat 64 b.val) - 1#64) <<< BitVec.ofNat 64 s.val := by decide

/-! ### the model / spec with bit-vector parameters -/

/-- `encode_offset32`, signed logic, `kSignedOffset` -/
def encS32 (b s d : BitVec 64) (off : BitVec 64) : Option (BitVec 32) :=
  if (off &&& (((1#32 <<< d) - 1#32).zeroExtend 64)) != 0#64 then none else
  let off2 := off.sshiftRight' d
  if !((off2.truncate 32).signExtend 64 == off2) then none else
  let value := off2.truncate 32
  if !(((value <<< (32#64 - b)).sshiftRight' (32#64 - b)) == value) then none else
  some ((value &&& ((1#32 <<< b) - 1#32)) <<< s)

/-- `encode_offset32`, unsigned logic, `kUnsignedOffset` -/
def encU32 (b s d : BitVec 64) (off : BitVec 64) : Option (BitVec 32) :=
  if (off &&& (((1#32 <<< d) - 1#32).zeroExtend 64)) != 0#64 then none else
  let off2 := off >>> d
  let value : BitVec 32 := (off2 &&& ((1#32 <<< b) - 1#32).zeroExtend 64).truncate 32
  if value.zeroExtend 64 != off2 then none else
  some ((value &&& ((1#32 <<< b) - 1#32)) <<< s)

/-- `encode_offset64`, `kSignedOffset` -/
def encS64 (b s d : BitVec 64) (off : BitVec 64) : Option (BitVec 64) :=
  if (off &&& (((1#32 <<< d) - 1#32).zeroExtend 64)) != 0#64 then none else
  let off2 := off.sshiftRight' d
  if !(((off2 <<< (64#64 - b)).sshiftRight' (64#64 - b)) == off2) then none else
  some ((off2 &&& ((1#64 <<< b) - 1#64)) <<< s)

/-- `encode_offset64`, `kUnsignedOffset` -/
def encU64 (b s d : BitVec 64) (off : BitVec 64) : Option (BitVec 64) :=
  if (off &&& (((1#32 <<< d) - 1#32).zeroExtend 64)) != 0#64 then none else
  let off2 := off >>> d
  let value := off2 &&& ((1#64 <<< b) - 1#64)
  if value != off2 then none else
  some ((value &&& ((1#64 <<< b) - 1#64)) <<< s)

/-- `sext64` of Spec/Offset.lean -/
def sextb (b : BitVec 64) (x : BitVec 64) : BitVec 64 :=
  let lo := x &&& ((1#64 <<< b) - 1#64)
  if (x >>> (b - 1#64)).getLsbD 0 then lo ||| (0#64 - (1#64 <<< b)) else lo

def decS32 (b s d : BitVec 64) (w : BitVec 32) : BitVec 64 := (sextb b ((w >>> s).zeroExtend 64)) <<< d
def decU32 (b s d : BitVec 64) (w : BitVec 32) : BitVec 64 :=
  (((w >>> s).zeroExtend 64) &&& ((1#64 <<< b) - 1#64)) <<< d
def decS64 (b s d : BitVec 64) (w : BitVec 64) : BitVec 64 := (sextb b (w >>> s)) <<< d
def decU64 (b s d : BitVec 64) (w : BitVec 64) : BitVec 64 := ((w >>> s) &&& ((1#64 <<< b) - 1#64)) <<< d
def mask32 (b s : BitVec 64) : BitVec 32 := ((1#32 <<< b) - 1#32) <<< s
def mask64 (b s : BitVec 64) : BitVec 64 := ((1#64 <<< b) - 1#64) <<< s

/-! ### bridge: `Nat` parameters in range ⇒ model / spec = the twins (by hand) -/

theorem enc_signed32_bv (size shift bits discard : Nat) (off : BitVec 64)
    (hb : 1 ≤ bits) (hbsz : bits ≤ size * 8) (hb32 : bits ≤ 32) (hs : shift ≤ 32) (hd : discard ≤ 32) :
    encodeOffset32 (immValue .signed size shift bits discard) off =
      encS32 (BitVec.ofNat 64 bits) (BitVec.ofNat 64 shift) (BitVec.ofNat 64 discard) off := by
  have e1 := lsbMask32_bv ⟨discard, by omega⟩
  have e2 := lsbMask32_bv ⟨bits, by omega⟩
  have e3 := sub32_bv ⟨bits, by omega⟩
  simp only [] at e1 e2 e3
  have e4 : ∀ x : BitVec 32, x <<< shift = x <<< BitVec.ofNat 64 shift := fun x => shl_bv x shift (by omega)
  have e5 : ∀ x : BitVec 32, x <<< (32 - bits) = x <<< BitVec.ofNat 64 (32 - bits) := fun x => shl_bv x _ (by omega)
  have e6 : ∀ x : BitVec 32, x.sshiftRight (32 - bits) = x.sshiftRight' (BitVec.ofNat 64 (32 - bits)) :=
    fun x => sshr_bv x _ (by omega)
  have e7 : ∀ x : BitVec 64, x.sshiftRight discard = x.sshiftRight' (BitVec.ofNat 64 discard) :=
    fun x => sshr_bv x _ (by omega)
  have hbne : ¬ (bits = 0 ∨ bits > size * 8) := by omega
  unfold encodeOffset32 encode32Value encS32
  simp only [immValue, OffsetFormat.hasSignBit, hbne, if_false, isInt32, isEncodableOffset32, e1, e2, e4, e5, e6, e7, e3]
  by_cases hd0 : discard = 0
  · subst hd0
    simp
    all_goals ((repeat' split) <;> simp_all)
  · simp [hd0]
    all_goals ((repeat' split) <;> simp_all)

theorem enc_unsigned32_bv (size shift bits discard : Nat) (off : BitVec 64)
    (hb : 1 ≤ bits) (hbsz : bits ≤ size * 8) (hb32 : bits ≤ 32) (hs : shift ≤ 32) (hd : discard ≤ 32) :
    encodeOffset32 (immValue .unsigned size shift bits discard) off =
      encU32 (BitVec.ofNat 64 bits) (BitVec.ofNat 64 shift) (BitVec.ofNat 64 discard) off := by
  have e1 := lsbMask32_bv ⟨discard, by omega⟩
  have e2 := lsbMask32_bv ⟨bits, by omega⟩
  simp only [] at e1 e2
  have e4 : ∀ x : BitVec 32, x <<< shift = x <<< BitVec.ofNat 64 shift := fun x => shl_bv x shift (by omega)
  have e7 : ∀ x : BitVec 64, x >>> discard = x >>> BitVec.ofNat 64 discard := fun x => shr_bv x _ (by omega)
  have hbne : ¬ (bits = 0 ∨ bits > size * 8) := by omega
  unfold encodeOffset32 encode32Value encU32
  simp only [immValue, OffsetFormat.hasSignBit, hbne, if_false, e1, e2, e4, e7]
  by_cases hd0 : discard = 0
  · subst hd0
    simp
    all_goals ((repeat' split) <;> simp_all)
  · simp [hd0]
    all_goals ((repeat' split) <;> simp_all)

theorem enc_signed64_bv (shift bits discard : Nat) (off : BitVec 64)
    (hb : 1 ≤ bits) (hb64 : bits ≤ 64) (hs : shift ≤ 64) (hd : discard ≤ 32) :
    encodeOffset64 (immValue .signed 8 shift bits discard) off =
      encS64 (BitVec.ofNat 64 bits) (BitVec.ofNat 64 shift) (BitVec.ofNat 64 discard) off := by
  have e1 := lsbMask32_bv ⟨discard, by omega⟩
  have e2 := lsbMask64_bv ⟨bits, by omega⟩
  have e3 := sub64_bv ⟨bits, by omega⟩
  simp only [] at e1 e2 e3
  have e4 : ∀ x : BitVec 64, x <<< shift = x <<< BitVec.ofNat 64 shift := fun x => shl_bv x shift (by omega)
  have e5 : ∀ x : BitVec 64, x <<< (64 - bits) = x <<< BitVec.ofNat 64 (64 - bits) := fun x => shl_bv x _ (by omega)
  have e6 : ∀ x : BitVec 64, x.sshiftRight (64 - bits) = x.sshiftRight' (BitVec.ofNat 64 (64 - bits)) :=
    fun x => sshr_bv x _ (by omega)
  have e7 : ∀ x : BitVec 64, x.sshiftRight discard = x.sshiftRight' (BitVec.ofNat 64 discard) :=
    fun x => sshr_bv x _ (by omega)
  have hbne : ¬ (bits = 0 ∨ bits > 8 * 8) := by omega
  unfold encodeOffset64 encS64
  simp only [immValue, hbne, if_false, isEncodableOffset64, e1, e2, e4, e5, e6, e7, e3]
  by_cases hd0 : discard = 0
  · subst hd0
    simp
    all_goals ((repeat' split) <;> simp_all)
  · simp [hd0]
    all_goals ((repeat' split) <;> simp_all)

theorem enc_unsigned64_bv (shift bits discard : Nat) (off : BitVec 64)
    (hb : 1 ≤ bits) (hb64 : bits ≤ 64) (hs : shift ≤ 64) (hd : discard ≤ 32) :
    encodeOffset64 (immValue .unsigned 8 shift bits discard) off =
      encU64 (BitVec.ofNat 64 bits) (BitVec.ofNat 64 shift) (BitVec.ofNat 64 discard) off := by
  have e1 := lsbMask32_bv ⟨discard, by omega⟩
  have e2 := lsbMask64_bv ⟨bits, by omega⟩
  simp only [] at e1 e2
  have e4 : ∀ x : BitVec 64, x <<< shift = x <<< BitVec.ofNat 64 shift := fun x => shl_bv x shift (by omega)
  have e7 : ∀ x : BitVec 64, x >>> discard = x >>> BitVec.ofNat 64 discard := fun x => shr_bv x _ (by omega)
  have hbne : ¬ (bits = 0 ∨ bits > 8 * 8) := by omega
  unfold encodeOffset64 encU64
  simp only [immValue, hbne, if_false, e1, e2, e4, e7]
  by_cases hd0 : discard = 0
  · subst hd0
    simp
    all_goals ((repeat' split) <;> simp_all)
  · simp [hd0]
    all_goals ((repeat' split) <;> simp_all)

theorem sext64_bv (bits : Nat) (x : BitVec 64) (hb : 1 ≤ bits) (hb64 : bits ≤ 64) :
    sext64 bits x = sextb (BitVec.ofNat 64 bits) x := by
  have e1 := ones64_bv ⟨bits, by omega⟩
  have e2 := high64_bv ⟨bits, by omega⟩
  have e3 := pred64_bv ⟨bits, by omega⟩ hb
  simp only [] at e1 e2 e3
  have e4 : x.getLsbD (bits - 1) = (x >>> (BitVec.ofNat 64 bits - 1#64)).getLsbD 0 := by
    rw [← e3, ← shr_bv x (bits - 1) (by omega), BitVec.getLsbD_ushiftRight]; simp
  unfold sext64 sextb
  simp only [e1, e2, e4]

theorem dec_signed32_bv (size shift bits discard : Nat) (w : BitVec 32)
    (hb : 1 ≤ bits) (hb32 : bits ≤ 32) (hs : shift ≤ 32) (hd : discard ≤ 32) :
    decode32 (immValue .signed size shift bits discard) w =
      decS32 (BitVec.ofNat 64 bits) (BitVec.ofNat 64 shift) (BitVec.ofNat 64 discard) w := by
  unfold decode32 decS32
  simp only [immValue]
  rw [sext64_bv bits _ hb (by omega), shr_bv w shift (by omega), shl_bv _ discard (by omega)]

theorem dec_unsigned32_bv (size shift bits discard : Nat) (w : BitVec 32)
    (hb32 : bits ≤ 32) (hs : shift ≤ 32) (hd : discard ≤ 32) :
    decode32 (immValue .unsigned size shift bits discard) w =
      decU32 (BitVec.ofNat 64 bits) (BitVec.ofNat 64 shift) (BitVec.ofNat 64 discard) w := by
  have e1 := ones64_bv ⟨bits, by omega⟩
  simp only [] at e1
  unfold decode32 decU32
  simp only [immValue]
  rw [e1, shr_bv w shift (by omega), shl_bv _ discard (by omega)]

theorem dec_signed64_bv (size shift bits discard : Nat) (w : BitVec 64)
    (hb : 1 ≤ bits) (hb64 : bits ≤ 64) (hs : shift ≤ 64) (hd : discard ≤ 32) :
    decode64 (immValue .signed size shift bits discard) w =
      decS64 (BitVec.ofNat 64 bits) (BitVec.ofNat 64 shift) (BitVec.ofNat 64 discard) w := by
  unfold decode64 decS64
  simp only [immValue]
  rw [sext64_bv bits _ hb hb64, shr_bv w shift (by omega), shl_bv _ discard (by omega)]

theorem dec_unsigned64_bv (size shift bits discard : Nat) (w : BitVec 64)
    (hb64 : bits ≤ 64) (hs : shift ≤ 64) (hd : discard ≤ 32) :
    decode64 (immValue .unsigned size shift bits discard) w =
      decU64 (BitVec.ofNat 64 bits) (BitVec.ofNat 64 shift) (BitVec.ofNat 64 discard) w := by
  have e1 := ones64_bv ⟨bits, by omega⟩
  simp only [] at e1
  unfold decode64 decU64
  simp only [immValue]
  rw [e1, shr_bv w shift (by omega), shl_bv _ discard (by omega)]

theorem fieldMask32_bv (t : OffsetType) (ht : t = .signed ∨ t = .unsigned) (size shift bits discard : Nat)
    (hb32 : bits ≤ 32) (hs : shift ≤ 32) :
    fieldMask32 (immValue t size shift bits discard) = mask32 (BitVec.ofNat 64 bits) (BitVec.ofNat 64 shift) := by
  have e := fmask32_bv ⟨bits, by omega⟩ ⟨shift, by omega⟩
  simp only [] at e
  rcases ht with h | h <;> subst h <;> simp only [fieldMask32, immValue, mask32, e]

theorem fieldMask64_bv (t : OffsetType) (size shift bits discard : Nat) (hb64 : bits ≤ 64) (hs : shift ≤ 64) :
    fieldMask64 (immValue t size shift bits discard) = mask64 (BitVec.ofNat 64 bits) (BitVec.ofNat 64 shift) := by
  have e := fmask64_bv ⟨bits, by omega⟩ ⟨shift, by omega⟩
  simp only [] at e
  simp only [fieldMask64, immValue, mask64, e]

/-! ### the core: symbolic (bits, shift, discard), every displacement — `bv_decide` -/

theorem s32_core_exact (b s d off : BitVec 64) (m old : BitVec 32)
    (hb1 : 1#64 ≤ b) (hb : b ≤ 32#64) (hs : s ≤ 32#64) (hbs : b + s ≤ 32#64) (hd : d ≤ 32#64)
    (h : encS32 b s d off = some m) (hold : old &&& mask32 b s = 0#32) :
    decS32 b s d (old ||| m) = off ∧ (old ||| m) &&& ~~~ mask32 b s = old := by
  simp only [encS32, decS32, mask32, sextb] at *
  split at h
  · simp at h
  split at h
  · simp at h
  split at h
  · simp at h
  simp at h
  subst h
  bv_decide (config := { timeout := 300 })

theorem s32_core_refused (b s d off : BitVec 64) (w : BitVec 32)
    (hb1 : 1#64 ≤ b) (hb : b ≤ 32#64) (hs : s ≤ 32#64) (hbs : b + s ≤ 32#64) (hd : d ≤ 32#64)
    (h : encS32 b s d off = none) : decS32 b s d w ≠ off := by
  simp only [encS32, decS32, sextb] at *
  split at h
  · bv_decide (config := { timeout := 300 })
  split at h
  · bv_decide (config := { timeout := 300 })
  split at h
  · bv_decide (config := { timeout := 300 })
  simp at h

theorem u32_core_exact (b s d off : BitVec 64) (m old : BitVec 32)
    (hb1 : 1#64 ≤ b) (hb : b ≤ 32#64) (hs : s ≤ 32#64) (hbs : b + s ≤ 32#64) (hd : d ≤ 32#64)
    (h : encU32 b s d off = some m) (hold : old &&& mask32 b s = 0#32) :
    decU32 b s d (old ||| m) = off ∧ (old ||| m) &&& ~~~ mask32 b s = old := by
  simp only [encU32, decU32, mask32] at *
  split at h
  · simp at h
  split at h
  · simp at h
  simp at h
  subst h
  bv_decide (config := { timeout := 300 })

theorem u32_core_refused (b s d off : BitVec 64) (w : BitVec 32)
    (hb1 : 1#64 ≤ b) (hb : b ≤ 32#64) (hs : s ≤ 32#64) (hbs : b + s ≤ 32#64) (hd : d ≤ 32#64)
    (h : encU32 b s d off = none) : decU32 b s d w ≠ off := by
  simp only [encU32, decU32] at *
  split at h
  · bv_decide (config := { timeout := 300 })
  split at h
  · bv_decide (config := { timeout := 300 })
  simp at h

end AsmjitVerif.Offset
