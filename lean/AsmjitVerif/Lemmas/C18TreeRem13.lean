/-
C18 — ArenaTree::remove, part 13: the strengthened loop invariant (found node `f`, stale grandparent `gf`,
directions) and the push-down loop under it.
-/
import AsmjitVerif.Lemmas.C18TreeRem12
namespace AsmjitVerif.Tree.Rem
open AsmjitVerif.Tree AsmjitVerif.Tree.Spec

/-- `node` owns a frame of the context; `n` (= `gf` or `head`) owns the hole of a suffix `upf` strictly above it, at
    most 3 frames away (the C++ comment "it must reach `f` in few iterations") -/
def Found (node n : Nat) (ctx : List Frame) : Prop :=
  ∃ below Ff mid upf, ctx = below ++ Ff :: (mid ++ upf) ∧ Ff.i = node ∧ n = pIdx upf ∧
    mid.length ≤ (if below = [] then 2 else 3)

theorem found_new {kn node : Nat} {ctx : List Frame} {S : T} (e : S.rootIdx = node) :
    Found node (pIdx ctx.tail) (absStep kn ctx S).1 := by
  cases ctx with
  | nil =>
    obtain ⟨qF, A', h1, h2, h3⟩ := absStep_shape_nil kn S
    exact ⟨[], qF, A', [], by rw [h1]; simp, h2.trans e, rfl, by simp; omega⟩
  | cons P up =>
    obtain ⟨qF, A', P', ins, h1, h2, h3, h4⟩ := absStep_shape_cons kn P up S
    refine ⟨[], qF, A' ++ P' :: ins, up, by rw [h1]; simp, h2.trans e, rfl, ?_⟩
    simp; omega

theorem found_step {kn node n : Nat} {ctx : List Frame} {S : T} (hf : Found node n ctx) :
    Found node n (absStep kn ctx S).1 := by
  obtain ⟨below, Ff, mid, upf, rfl, h2, h3, h4⟩ := hf
  cases below with
  | nil =>
    obtain ⟨qF, A', P', ins, e1, e2, e3, e4⟩ := absStep_shape_cons kn Ff (mid ++ upf) S
    refine ⟨qF :: A', P', ins ++ mid, upf, ?_, e3.trans h2, h3, ?_⟩
    · simp only [List.nil_append]; rw [e1]; simp
    · simp at h4 ⊢; omega
  | cons B below' =>
    obtain ⟨qF, A', P', ins, e1, e2, e3, e4⟩ := absStep_shape_cons kn B (below' ++ Ff :: (mid ++ upf)) S
    refine ⟨qF :: (A' ++ P' :: (ins ++ below')), Ff, mid, upf, ?_, h2, h3, ?_⟩
    · simp only [List.cons_append]; rw [e1]; simp
    · simp at h4 ⊢; omega

theorem frame_mem_ctxIdxs {ctx : List Frame} {F : Frame} (h : F ∈ ctx) : F.i ∈ ctxIdxs ctx := by
  induction ctx with
  | nil => cases h
  | cons G up ih =>
    rcases List.mem_cons.mp h with rfl | h
    · simp [ctxIdxs]
    · simp [ctxIdxs, ih h]

structure Inv2 (kn node : Nat) (st : RmState) (ctx : List Frame) (S : T) : Prop where
  inv : Inv kn node st ctx S
  dir : DirOK kn ctx
  srt : KSorted (plug ctx S).io
  nk : ∀ p ∈ (plug ctx S).io, p.1 = node → p.2 = kn
  fok : (st.f = 0 ∧ node ∈ S.idxs) ∨ (st.f = node ∧ Found node (if st.gf ≠ 0 then st.gf else 1) ctx)

theorem step_sim2 {kn node : Nat} {st : RmState} {ctx : List Frame} {S : T} (i2 : Inv2 kn node st ctx S)
    (hS : S.isNil = false) :
    Inv2 kn node (stepState node st) (absStep kn ctx S).1 (absStep kn ctx S).2 := by
  obtain ⟨inv, dir, srt, nk, fok⟩ := i2
  obtain ⟨hq0, hq, hd, hri, _⟩ := inv.qfacts hS
  have eio := absStep_io kn ctx S hS
  refine ⟨step_sim inv hS, absStep_dirOK kn ctx S hS dir srt, by rw [eio]; exact srt, by rw [eio]; exact nk, ?_⟩
  rw [step_f, step_gf, hq, ← hri]
  rcases fok with ⟨f0, hm⟩ | ⟨fn, hf⟩
  · by_cases e : S.rootIdx = node
    · right
      rw [if_pos e, if_pos e]
      refine ⟨e, ?_⟩
      have : (if st.p ≠ 0 then st.p else 1) = pIdx ctx.tail := by
        rw [inv.hp]
        cases ctx with
        | nil => rfl
        | cons P up =>
          have := inv.gfacts.1
          show (if pIdx up ≠ 0 then pIdx up else 1) = pIdx up
          simp [this]
      rw [this]; exact found_new e
    · left
      rw [if_neg e]
      refine ⟨f0, ?_⟩
      rw [absStep_snd]
      exact search_descends hS (plug_sub_sorted ctx S srt) (fun p hp => nk p (plug_sub_mem ctx S p hp)) hm e
  · right
    have e : S.rootIdx ≠ node := by
      obtain ⟨below, Ff, mid, upf, rfl, h2, _⟩ := hf
      have h1 : node ∈ ctxIdxs (below ++ Ff :: (mid ++ upf)) := h2 ▸ frame_mem_ctxIdxs (by simp)
      have h3 : S.rootIdx ∈ S.idxs := T.rootIdx_mem S hS
      intro e'
      exact (List.nodup_append.mp inv.nodup).2.2 _ h3 _ h1 e'
    rw [if_neg e, if_neg e]
    exact ⟨fn, found_step hf⟩

theorem removeLoop_inv2 (kn node : Nat) : ∀ (fuel : Nat) (st : RmState) (ctx : List Frame) (S : T),
    Inv2 kn node st ctx S → S.height ≤ fuel →
    ∃ ctx', Inv2 kn node (removeLoop fuel node st) ctx' .nil ∧ (plug ctx' .nil).io = (plug ctx S).io := by
  intro fuel
  induction fuel with
  | zero =>
    intro st ctx S inv hh
    have : S = .nil := by
      cases S with
      | nil => rfl
      | node => simp [T.height] at hh
    subst this
    exact ⟨ctx, inv, rfl⟩
  | succ fuel ih =>
    intro st ctx S i2 hh
    rw [removeLoop_succ]
    by_cases hS : S.isNil = true
    · have h0 : child st.t st.q st.dir = 0 := by
        rw [i2.inv.hq, i2.inv.hdir]; exact i2.inv.reps.isNil_iff.mp hS
      rw [if_pos h0]
      have := T.isNil_eq hS; subst this
      exact ⟨ctx, i2, rfl⟩
    · have hS' : S.isNil = false := by revert hS; cases S.isNil <;> simp
      obtain ⟨hq0, hq, _⟩ := i2.inv.qfacts hS'
      rw [if_neg (by rw [hq]; exact hq0)]
      have hlt := T.child_height S hS' (decide (S.key < kn))
      obtain ⟨ctx', i', e'⟩ := ih _ _ _ (step_sim2 i2 hS') (by rw [absStep_snd]; omega)
      exact ⟨ctx', i', e'.trans (absStep_io kn ctx S hS')⟩

end AsmjitVerif.Tree.Rem
