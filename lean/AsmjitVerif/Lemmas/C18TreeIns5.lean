/-
C18 — ArenaTree insert, part 5: the loop invariant (heap part `CoreH`, freshness of the new node, key bounds of the
hole `Bnd`, colour part `Col`, and the three modes of the iterator variables `N`/`F`/`D1`), descent lemmas and the
specification of `fixup` on a zipper (`fixup_spec`).  Core-only.
-/
import AsmjitVerif.Lemmas.C18TreeIns4
namespace AsmjitVerif.Tree.Ins
open AsmjitVerif.Tree AsmjitVerif.Tree.Spec

/-! ### accessors on `T` -/

def childD : T → Bool → T
  | .nil, _ => .nil
  | .node _ _ _ l r, d => if d then r else l

def rkey : T → Nat
  | .nil => 0
  | .node _ k _ _ _ => k

theorem eq_nodeD {Q : T} (hQ : Q ≠ .nil) (d : Bool) :
    Q = nodeD d Q.rootIdx (rkey Q) Q.isRed (childD Q d) (childD Q (!d)) := by
  cases Q with
  | nil => exact absurd rfl hQ
  | node i k c l r => cases d <;> cases c <;> rfl

theorem childD_nodeD (d0 d : Bool) (i k : Nat) (c : Bool) (a b : T) :
    childD (nodeD d0 i k c a b) d = if d = d0 then a else b := by
  cases d <;> cases d0 <;> rfl

theorem rkey_nodeD (d : Bool) (i k : Nat) (c : Bool) (a b : T) : rkey (nodeD d i k c a b) = k := by
  cases d <;> rfl

theorem nodeD_ne_nil (d : Bool) (i k : Nat) (c : Bool) (a b : T) : nodeD d i k c a b ≠ .nil := by
  cases d <;> simp [nodeD]

theorem ne_nil_of_red {Q : T} (h : Q.isRed = true) : Q ≠ .nil := by
  intro e; rw [e] at h; cases h

def blackKids (Q : T) : Prop := (childD Q false).isRed = false ∧ (childD Q true).isRed = false

theorem blackKids_iff (Q : T) (d : Bool) :
    blackKids Q ↔ (childD Q d).isRed = false ∧ (childD Q (!d)).isRed = false := by
  cases d <;> simp [blackKids, and_comm]

/-- black node with black children (what lies right below a node that has just been colour-flipped) -/
def colF (Q : T) : Prop := Q ≠ .nil ∧ Q.isRed = false ∧ blackKids Q

/-! ### invariant pieces -/

structure Cfg where
  h0 : Tree
  node : Nat
  k : Nat
  K0 : List Nat
  I0 : List Nat

structure CoreH (C : Cfg) (K I : List Nat) (h : Tree) (W : T) : Prop where
  rep : Rep h (rootOf h) W
  nodup : W.idxs.Nodup
  keys : W.keys = K
  idxs : W.idxs.Perm I
  same : SameOut (1 :: C.node :: C.I0) C.h0 h
  one : 1 < h.nodes.size

structure Fresh (C : Cfg) (h : Tree) : Prop where
  notin : C.node ∉ C.I0
  ge : 2 ≤ C.node
  lt : C.node < h.nodes.size
  cell : nd h C.node = { key := C.k, red := true }

theorem CoreH.step {C : Cfg} {h h2 : Tree} {W W2 : T} (c : CoreH C C.K0 C.I0 h W)
    (so : SameOut (1 :: W.idxs) h h2) (r2 : Rep h2 (rootOf h2) W2) (hp : W2.idxs.Perm W.idxs)
    (hk : W2.keys = W.keys) : CoreH C C.K0 C.I0 h2 W2 where
  rep := r2
  nodup := hp.nodup_iff.2 c.nodup
  keys := hk.trans c.keys
  idxs := hp.trans c.idxs
  same := c.same.trans (so.mono (by
    intro i hi
    simp only [List.mem_cons] at hi ⊢
    rcases hi with hi | hi
    · exact Or.inl hi
    · exact Or.inr (Or.inr (c.idxs.mem_iff.1 hi))))
  one := by rw [so.size]; exact c.one

theorem Fresh.step {C : Cfg} {h h2 : Tree} {W : T} (f : Fresh C h) (c : CoreH C C.K0 C.I0 h W)
    (so : SameOut (1 :: W.idxs) h h2) : Fresh C h2 where
  notin := f.notin
  ge := f.ge
  lt := by rw [so.size]; exact f.lt
  cell := by
    rw [so.cells C.node ?_]; exact f.cell
    simp only [List.mem_cons, not_or]
    refine ⟨?_, fun e => f.notin (c.idxs.mem_iff.1 e)⟩
    have := f.ge; omega

def Col (W : T) : Prop := W.noRedRed ∧ ∃ n, W.blackH n

def Bnd (k : Nat) (ctx : List Frame) : Prop := (∀ a ∈ keysL ctx, a < k) ∧ (∀ b ∈ keysR ctx, k < b)

/-- the frame left behind when descending from `Q` in direction `d` -/
def descF (Q : T) (d : Bool) : Frame := ⟨Q.rootIdx, rkey Q, Q.isRed, d, childD Q (!d)⟩

theorem plug_desc (ctx : List Frame) {Q : T} (hQ : Q ≠ .nil) (d : Bool) :
    plug (descF Q d :: ctx) (childD Q d) = plug ctx Q := by
  simp only [plug, descF, Frame.fill]
  rw [← eq_nodeD hQ d]

theorem bnd_descend {k : Nat} {ctx : List Frame} {Q : T} (hQ : Q ≠ .nil) (hb : Bnd k ctx)
    (hs : Sorted (plug ctx Q).keys) (hk : k ∉ (plug ctx Q).keys) :
    Bnd k (descF Q (decide (rkey Q < k)) :: ctx) := by
  cases Q with
  | nil => exact absurd rfl hQ
  | node q kq c L R =>
    rw [keys_plug] at hs hk
    simp only [T.keys, List.mem_append, List.mem_cons, not_or] at hk
    have h1 := (sorted_append.1 (sorted_append.1 hs).1).2.1
    simp only [T.keys] at h1
    obtain ⟨_, _, hL, hR, _⟩ := sorted_mid.1 h1
    simp only [rkey, descF, childD]
    by_cases hlt : kq < k
    · simp only [hlt, decide_true, Bnd, keysL, keysR, if_true, Bool.not_true, Bool.false_eq_true, if_false,
        List.nil_append, List.mem_append, List.mem_singleton]
      refine ⟨?_, hb.2⟩
      rintro a (ha | ha | ha)
      · exact hb.1 a ha
      · exact Nat.lt_trans (hL a ha) hlt
      · rw [ha]; exact hlt
    · have hgt : k < kq := by
        have : k ≠ kq := hk.1.2.2.1
        omega
      simp only [hlt, decide_false, Bnd, keysL, keysR, Bool.false_eq_true, if_false, Bool.not_false, if_true,
        List.append_nil, List.mem_append, List.mem_cons]
      refine ⟨hb.1, ?_⟩
      rintro b ((hb' | hb') | hb')
      · rw [hb']; exact hgt
      · exact Nat.lt_trans hgt (hR b hb')
      · exact hb.2 b hb'

/-- the search direction at a frame is the frame's direction -/
theorem bnd_dir {k : Nat} {f : Frame} {fs : List Frame} (hb : Bnd k (f :: fs)) : decide (f.key < k) = f.dir := by
  cases hd : f.dir
  · have := hb.2 f.key (by simp [keysR, hd])
    simp only [decide_eq_false_iff_not]; omega
  · have := hb.1 f.key (by simp [keysL, hd])
    simp only [decide_eq_true_eq]; exact this

theorem bnd_tail {k : Nat} {f : Frame} {fs : List Frame} (hb : Bnd k (f :: fs)) : Bnd k fs := by
  refine ⟨fun a ha => hb.1 a ?_, fun b hb' => hb.2 b ?_⟩
  · simp only [keysL, List.mem_append]; exact Or.inl ha
  · simp only [keysR, List.mem_append]; exact Or.inr hb'

theorem bnd_single {k p kp g kg : Nat} {A U : T} {dl cp cg cp' cg' : Bool} {rest : List Frame}
    (hb : Bnd k (⟨p, kp, cp, dl, A⟩ :: ⟨g, kg, cg, dl, U⟩ :: rest)) :
    Bnd k (⟨p, kp, cp', dl, nodeD dl g kg cg' A U⟩ :: rest) := by
  have eL : keysL (⟨p, kp, cp', dl, nodeD dl g kg cg' A U⟩ :: rest) =
      keysL (⟨p, kp, cp, dl, A⟩ :: ⟨g, kg, cg, dl, U⟩ :: rest) := by
    cases dl <;> simp [keysL, nodeD, T.keys]
  have eR : keysR (⟨p, kp, cp', dl, nodeD dl g kg cg' A U⟩ :: rest) =
      keysR (⟨p, kp, cp, dl, A⟩ :: ⟨g, kg, cg, dl, U⟩ :: rest) := by
    cases dl <;> simp [keysR, nodeD, T.keys]
  unfold Bnd; rw [eL, eR]; exact hb

/-! ### modes of the iterator variables -/

inductive Mode where
  | N | F | D1

def VP (ctx : List Frame) (p : Nat) (dir : Bool) : Prop :=
  match ctx with
  | [] => p = 0
  | f :: _ => p = f.idx ∧ dir = f.dir

def VG (ctx : List Frame) (g : Nat) (last : Bool) : Prop :=
  match ctx with
  | _ :: f :: _ => g = f.idx ∧ last = f.dir
  | _ => g = 0

def VT (ctx : List Frame) (tt : Nat) : Prop :=
  match ctx with
  | _ :: _ :: rest => tt = ttOf rest
  | _ => tt = 1

def topBlack (ctx : List Frame) : Prop :=
  match ctx with
  | [] => True
  | f :: _ => f.red = false

def colN (ctx : List Frame) (Q : T) : Prop :=
  match ctx with
  | [] => Q ≠ .nil ∧ Q.isRed = false
  | f :: rest => (Q.isRed = true → f.sib.isRed = false) ∧
      (f.red = true → ∃ gf rest', rest = gf :: rest' ∧ gf.sib.isRed = false)

def colD1 (k : Nat) (ctx : List Frame) (Q : T) : Prop :=
  ctx ≠ [] ∧ topBlack ctx ∧ Q.isRed = true ∧ blackKids Q ∧ colF (childD Q (decide (rkey Q < k)))

def ModeOK (k : Nat) (mode : Mode) (ctx : List Frame) (Q : T) (g p tt : Nat) (dir last : Bool) : Prop :=
  match mode with
  | .N => VP ctx p dir ∧ VG ctx g last ∧ VT ctx tt ∧ colN ctx Q
  | .F => VP ctx p dir ∧ VG ctx g last ∧ (g = 0 → tt = 1) ∧ colF Q
  | .D1 => VP ctx p dir ∧ g ≠ 0 ∧ colD1 k ctx Q

/-- the potential that bounds the remaining number of iterations (3 per black level) -/
def FuelOK (mode : Mode) (fuel : Nat) (Q : T) : Prop :=
  match mode with
  | .N => ∃ n, Q.blackH n ∧ 3 * n + 1 + (if Q.isRed then 1 else 0) ≤ fuel
  | .F => ∃ m, Q.blackH (m + 1) ∧ 3 * m + 2 ≤ fuel
  | .D1 => ∃ m, Q.blackH (m + 1) ∧ 3 * m + 3 ≤ fuel

/-! ### `fixup` on a zipper -/

theorem ctx_idx_ge {h : Tree} {r : Nat} {ctx : List Frame} {Q : T} (hr : Rep h r (plug ctx Q)) :
    ∀ i ∈ ctxIdxs ctx, 2 ≤ i :=
  fun i hi => (Rep_idx_ge hr i (mem_idxs_plug.2 (Or.inr hi))).1

theorem isRed_top {h : Tree} {r : Nat} {f : Frame} {fs : List Frame} {Q : T}
    (hr : Rep h r (plug (f :: fs) Q)) : isRed h f.idx = f.red := by
  obtain ⟨n, rn⟩ := rep_plug_sub (ctx := fs) hr
  have e := isRed_rep rn
  simp only [Frame.fill, Rep_nodeD] at rn
  rw [← rn.1, e, Frame.fill, isRed_nodeD]

/-- what `fixup` does after `recolor` has produced a red `Q1` (leaf or colour-flipped node) in the hole -/
theorem fixup_spec {h1 : Tree} {ctx : List Frame} {Qold Q1 : T} {g p tt q1 : Nat} {dir last : Bool}
    (rep1 : Rep h1 (rootOf h1) (plug ctx Q1)) (nd1 : (plug ctx Q1).idxs.Nodup) (one : 1 < h1.nodes.size)
    (hq1 : Rep h1 q1 Q1) (red1 : Q1.isRed = true) (nrr1 : Q1.noRedRed)
    (colOld : Col (plug ctx Qold)) (bhrel : ∀ m, Qold.blackH m → Q1.blackH m)
    (cn : colN ctx Qold) (vp : VP ctx p dir) (vg : VG ctx g last) (vt : VT ctx tt) :
    ∃ ctx2 Q2,
      Rep (fixup h1 g p tt q1 last) (rootOf (fixup h1 g p tt q1 last)) (plug ctx2 Q2) ∧
      (plug ctx2 Q2).idxs.Perm (plug ctx Q1).idxs ∧ (plug ctx2 Q2).keys = (plug ctx Q1).keys ∧
      SameOut (1 :: (plug ctx Q1).idxs) h1 (fixup h1 g p tt q1 last) ∧ Col (plug ctx2 Q2) ∧
      ((fixup h1 g p tt q1 last = h1 ∧ ctx2 = ctx ∧ Q2 = Q1 ∧ topBlack ctx) ∨
       (∃ p kp A g kg U dl rest, ctx = ⟨p, kp, true, dl, A⟩ :: ⟨g, kg, false, dl, U⟩ :: rest ∧
          ctx2 = ⟨p, kp, false, dl, nodeD dl g kg true A U⟩ :: rest ∧ Q2 = Q1) ∨
       (∃ p kp A g kg U d rest, ctx = ⟨p, kp, true, d, A⟩ :: ⟨g, kg, false, !d, U⟩ :: rest ∧ ctx2 = rest ∧
          Q2 = nodeD d Q1.rootIdx (rkey Q1) false (nodeD (!d) g kg true (childD Q1 d) U)
                 (nodeD d p kp true (childD Q1 (!d)) A) ∧ A.isRed = false ∧ U.isRed = false)) := by
  have hQ1 : Q1 ≠ .nil := ne_nil_of_red red1
  have hq1r : isRed h1 q1 = true := by rw [isRed_rep hq1]; exact red1
  -- no violation: the top frame is black (or there is none)
  have noviol : topBlack ctx → isRed h1 p = false →
      ∃ ctx2 Q2,
      Rep (fixup h1 g p tt q1 last) (rootOf (fixup h1 g p tt q1 last)) (plug ctx2 Q2) ∧
      (plug ctx2 Q2).idxs.Perm (plug ctx Q1).idxs ∧ (plug ctx2 Q2).keys = (plug ctx Q1).keys ∧
      SameOut (1 :: (plug ctx Q1).idxs) h1 (fixup h1 g p tt q1 last) ∧ Col (plug ctx2 Q2) ∧
      ((fixup h1 g p tt q1 last = h1 ∧ ctx2 = ctx ∧ Q2 = Q1 ∧ topBlack ctx) ∨
       (∃ p kp A g kg U dl rest, ctx = ⟨p, kp, true, dl, A⟩ :: ⟨g, kg, false, dl, U⟩ :: rest ∧
          ctx2 = ⟨p, kp, false, dl, nodeD dl g kg true A U⟩ :: rest ∧ Q2 = Q1) ∨
       (∃ p kp A g kg U d rest, ctx = ⟨p, kp, true, d, A⟩ :: ⟨g, kg, false, !d, U⟩ :: rest ∧ ctx2 = rest ∧
          Q2 = nodeD d Q1.rootIdx (rkey Q1) false (nodeD (!d) g kg true (childD Q1 d) U)
                 (nodeD d p kp true (childD Q1 (!d)) A) ∧ A.isRed = false ∧ U.isRed = false)) := by
    intro tb hp
    have efix : fixup h1 g p tt q1 last = h1 := by simp only [fixup, hp, Bool.and_false, Bool.false_eq_true, if_false]
    rw [efix]
    refine ⟨ctx, Q1, rep1, List.Perm.refl _, rfl, SameOut.refl _ _, ⟨?_, ?_⟩, Or.inl ⟨rfl, rfl, rfl, tb⟩⟩
    · cases ctx with
      | nil => exact nrr1
      | cons f fs =>
        simp only [topBlack] at tb
        simp only [plug] at colOld ⊢
        refine nrr_plug_replace colOld.1 ?_ (by simp only [Frame.fill, isRed_nodeD]; exact id)
        have := nrr_plug_sub colOld.1
        simp only [Frame.fill, nrr_nodeD] at this ⊢
        exact ⟨fun e => (by rw [tb] at e; cases e), nrr1, this.2.2⟩
    · obtain ⟨n, hn⟩ := colOld.2
      exact ⟨n, bh_plug_replace hn bhrel⟩
  cases ctx with
  | nil =>
    simp only [VP] at vp
    subst vp
    exact noviol trivial (by simp [isRed])
  | cons pf rest0 =>
    simp only [VP] at vp
    obtain ⟨ep, edir⟩ := vp
    have hpred : isRed h1 p = pf.red := by rw [ep]; exact isRed_top rep1
    cases hpc : pf.red with
    | false => exact noviol hpc (by rw [hpred, hpc])
    | true =>
      simp only [colN] at cn
      obtain ⟨gf, rest, erest, hU⟩ := cn.2 hpc
      subst erest
      simp only [VG] at vg
      simp only [VT] at vt
      obtain ⟨eg, elast⟩ := vg
      -- colour facts of the old tree
      have nrrG := nrr_plug_sub (ctx := rest) colOld.1
      obtain ⟨nW, hbW⟩ := colOld.2
      obtain ⟨nG, hbG⟩ := bh_plug_sub (ctx := rest) hbW
      obtain ⟨p', kp, cp, dp, A⟩ := pf
      obtain ⟨g', kg, cg, dg, U⟩ := gf
      simp only at hpc hU ep edir eg elast
      subst hpc ep eg
      obtain rfl := elast.symm
      obtain rfl := edir.symm
      simp only [Frame.fill, nrr_nodeD, isRed_nodeD] at nrrG
      obtain ⟨hgc, ⟨hpk, nrrQold, nrrA⟩, nrrU⟩ := nrrG
      have hcg : cg = false := by
        cases cg
        · rfl
        · exact (hgc rfl).1
      subst hcg
      have hAblack : A.isRed = false := (hpk trivial).2
      simp only [Frame.fill] at hbG
      rw [blackH_nodeD_black] at hbG
      obtain ⟨m, _, hbP, hbU⟩ := hbG
      rw [blackH_nodeD_red] at hbP
      obtain ⟨hbQold, hbA⟩ := hbP
      have hbQ1 := bhrel m hbQold
      by_cases hdd : dp = dg
      · -- single rotation
        subst hdd
        obtain ⟨r2, so2⟩ := fixup_single rep1 nd1 hq1 red1 vt one
        refine ⟨_, Q1, r2, ?_, ?_, so2, ⟨?_, ?_⟩, Or.inr (Or.inl ⟨_, _, _, _, _, _, _, _, rfl, rfl, rfl⟩)⟩
        · simp only [plug, Frame.fill]
          refine idxs_plug_congr rest (List.Perm.of_eq ?_)
          cases dp <;> simp [nodeD, T.idxs]
        · simp only [plug, Frame.fill]
          refine keys_plug_congr rest ?_
          cases dp <;> simp [nodeD, T.keys]
        · simp only [plug] at colOld ⊢
          refine nrr_plug_replace colOld.1 ?_ ?_
          · simp only [Frame.fill, nrr_nodeD, isRed_nodeD]
            exact ⟨(fun e => nomatch e), nrr1, ⟨fun _ => ⟨hAblack, hU⟩, nrrA, nrrU⟩⟩
          · simp only [Frame.fill, isRed_nodeD]; exact fun e => nomatch e
        · refine ⟨nW, ?_⟩
          simp only [plug] at hbW ⊢
          refine bh_plug_replace hbW ?_
          intro m' hm'
          simp only [Frame.fill] at hm' ⊢
          rw [blackH_nodeD_black] at hm' ⊢
          obtain ⟨m2, e2, hP2, hU2⟩ := hm'
          rw [blackH_nodeD_red] at hP2
          refine ⟨m2, e2, bhrel _ hP2.1, ?_⟩
          rw [blackH_nodeD_red]
          exact ⟨hP2.2, hU2⟩
      · -- double rotation
        have edg : dg = !dp := by cases dp <;> cases dg <;> first | rfl | exact absurd rfl hdd
        subst edg
        have eQ1 := eq_nodeD hQ1 dp
        have eroot : Q1.rootIdx = q1 := Rep_rootIdx hq1
        rw [red1, eroot] at eQ1
        have nrrK := nrr1
        rw [eQ1, nrr_nodeD] at nrrK
        have rep1' := rep1; have nd1' := nd1; have hq1' := hq1
        rw [eQ1] at rep1' nd1' hq1'
        obtain ⟨r2, so2⟩ := fixup_double rep1' nd1' hq1' vt one
        rw [← eQ1] at so2
        refine ⟨rest, _, r2, ?_, ?_, so2, ⟨?_, ?_⟩,
          Or.inr (Or.inr ⟨_, _, _, _, _, _, _, _, rfl, rfl, by rw [eroot], hAblack, hU⟩)⟩
        · conv => rhs; rw [eQ1]
          simp only [plug, Frame.fill]
          refine idxs_plug_congr rest (List.Perm.of_eq ?_)
          cases dp <;> simp [nodeD, T.idxs]
        · conv => rhs; rw [eQ1]
          simp only [plug, Frame.fill]
          refine keys_plug_congr rest ?_
          cases dp <;> simp [nodeD, T.keys]
        · simp only [plug] at colOld
          refine nrr_plug_replace colOld.1 ?_ ?_
          · simp only [nrr_nodeD, isRed_nodeD]
            refine ⟨(fun e => nomatch e), ⟨fun _ => ⟨(nrrK.1 rfl).1, hU⟩, nrrK.2.1, nrrU⟩,
              ⟨fun _ => ⟨(nrrK.1 rfl).2, hAblack⟩, nrrK.2.2, nrrA⟩⟩
          · simp only [isRed_nodeD]; exact fun e => nomatch e
        · refine ⟨nW, ?_⟩
          simp only [plug] at hbW
          refine bh_plug_replace hbW ?_
          intro m' hm'
          simp only [Frame.fill] at hm'
          rw [blackH_nodeD_black] at hm' ⊢
          obtain ⟨m2, e2, hP2, hU2⟩ := hm'
          rw [blackH_nodeD_red] at hP2
          have hb1 := bhrel _ hP2.1
          rw [eQ1, blackH_nodeD_red] at hb1
          refine ⟨m2, e2, ?_, ?_⟩
          · rw [blackH_nodeD_red]; exact ⟨hb1.1, hU2⟩
          · rw [blackH_nodeD_red]; exact ⟨hb1.2, hP2.2⟩

end AsmjitVerif.Tree.Ins
