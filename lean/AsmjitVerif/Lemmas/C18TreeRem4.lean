/-
C18 — ArenaTree::remove, part 4: simulation of one push-down iteration — the sibling cases (colour flip,
single and double rotation at the parent).
-/
import AsmjitVerif.Lemmas.C18TreeRem3
namespace AsmjitVerif.Tree.Rem
open AsmjitVerif.Tree AsmjitVerif.Tree.Spec

theorem _root_.AsmjitVerif.Tree.Spec.T.idxs_eq (t : T) (hn : t.isNil = false) :
    t.idxs = (t.child false).idxs ++ t.rootIdx :: (t.child true).idxs := by
  cases t with
  | nil => simp [T.isNil] at hn
  | node i k c l r => simp [T.idxs, T.child, T.rootIdx]

theorem _root_.AsmjitVerif.Tree.Spec.T.setRed_idxs (t : T) (b : Bool) : (t.setRed b).idxs = t.idxs := by
  cases t <;> rfl

/-- recolouring the root of a represented subtree -/
theorem _root_.AsmjitVerif.Tree.Spec.Rep.setRed {h h' : Tree} {n : Nat} {t : T} (hr : Rep h n t) (b : Bool)
    (hs : h'.nodes.size = h.nodes.size) (hn : nd h' n = setR (nd h n) b)
    (hf : ∀ i ∈ t.idxs, i ≠ n → nd h' i = nd h i) (hnd : t.idxs.Nodup) : Rep h' n (t.setRed b) := by
  cases hr with
  | nil => exact Rep.nil
  | @node n k c L R h2 hlt hk hc hL hR =>
    simp only [T.idxs, List.nodup_append, List.nodup_cons] at hnd
    refine Rep.node h2 (hs ▸ hlt) (by rw [hn]; exact hk) (by rw [hn]; rfl) ?_ ?_
    · rw [hn]; exact hL.frame hs (fun i hi => hf i (by simp [T.idxs, hi]) (by grind))
    · rw [hn]; exact hR.frame hs (fun i hi => hf i (by simp [T.idxs, hi]) (by grind))

theorem makeRed_nd (h : Tree) (p : Nat) (hp0 : p ≠ 0) (hps : p < h.nodes.size) :
    ∀ n, nd (makeRed h p) n = if n = p then setR (nd h p) true else nd h n := by
  intro n; simp only [makeRed_eq, nd_upd]
  by_cases hn : n = p <;> simp [hn, hp0, hps]
theorem makeBlack_nd (h : Tree) (p : Nat) (hp0 : p ≠ 0) (hps : p < h.nodes.size) :
    ∀ n, nd (makeBlack h p) n = if n = p then setR (nd h p) false else nd h n := by
  intro n; simp only [makeBlack_eq, nd_upd]
  by_cases hn : n = p <;> simp [hn, hp0, hps]
theorem makeRed_size (h : Tree) (p : Nat) : (makeRed h p).nodes.size = h.nodes.size := by
  simp only [makeRed_eq, size_upd]
theorem makeBlack_size (h : Tree) (p : Nat) : (makeBlack h p).nodes.size = h.nodes.size := by
  simp only [makeBlack_eq, size_upd]

/-- facts about the parent frame and the sibling -/
theorem Inv.sfacts {kn node : Nat} {st : RmState} {P : Frame} {up : List Frame} {S : T}
    (inv : Inv kn node st (P :: up) S) (hsn : P.sib.isNil = false) :
    let h := st.t
    let s := getC (nd h P.i) (!P.d)
    st.q = P.i ∧ st.dir = P.d ∧ st.p = pIdx up ∧ 2 ≤ P.i ∧ P.i < h.nodes.size ∧ (nd h P.i).key = P.k ∧
    Rep h s P.sib ∧ holeptr h up = P.i ∧ RepC h up ∧
    s ≠ 0 ∧ child h st.q (!st.dir) = s ∧ P.sib.rootIdx = s ∧ P.sib.key = (nd h s).key ∧ 2 ≤ s ∧ s < h.nodes.size ∧
    (∀ e, Rep h (getC (nd h s) e) (P.sib.child e)) ∧ (∀ e, isRed h (child h s e) = (P.sib.child e).isRed) := by
  intro h s
  obtain ⟨a, b, c, d, e, f, g⟩ := inv.repc
  have hs0 : s ≠ 0 := by
    intro e'; have := e.isNil_iff.mpr e'; rw [hsn] at this; cases this
  obtain ⟨_, sri, skey, sred, hs2, hss, sch⟩ := e.acc hs0
  refine ⟨inv.hq, inv.hdir, inv.hp, a, b, c, e, f, g, hs0, ?_, sri, skey, hs2, hss, sch, fun e => (sch e).isRed_eq.symm⟩
  rw [inv.hq, inv.hdir]; rfl

theorem Inv.gfacts {kn node : Nat} {st : RmState} {P : Frame} {up : List Frame} {S : T}
    (inv : Inv kn node st (P :: up) S) :
    pIdx up ≠ 0 ∧ pIdx up < st.t.nodes.size ∧ (pIdx up = 1 → dirOf up = true) ∧ (pIdx up = 1 ∨ pIdx up ∈ ctxIdxs up) ∧
    (∀ i ∈ ctxIdxs up, 2 ≤ i) := by
  have := inv.size1
  obtain ⟨a, b, c, d, e, f, g⟩ := inv.repc
  refine ⟨?_, ?_, ?_, pIdx_mem up, fun i hi => (g.ge2 i hi).1⟩
  · rcases pIdx_mem up with e1 | e1
    · omega
    · have := (g.ge2 _ e1).1; omega
  · rcases pIdx_mem up with e1 | e1
    · omega
    · exact (g.ge2 _ e1).2
  · cases up with
    | nil => intro; rfl
    | cons G up' => intro e1; have := g.1; simp only [pIdx] at e1; omega

theorem flip_distinct (A B C1 C2 D : List Nat) (q p s : Nat)
    (hn : (A ++ q :: (B ++ p :: ((C1 ++ s :: C2) ++ D))).Nodup) :
    q ≠ s ∧ q ≠ p ∧ s ≠ p ∧ (∀ i ∈ A, i ≠ q ∧ i ≠ s ∧ i ≠ p) ∧ (∀ i ∈ B, i ≠ q ∧ i ≠ s ∧ i ≠ p) ∧
    (∀ i ∈ C1, i ≠ q ∧ i ≠ s ∧ i ≠ p) ∧ (∀ i ∈ C2, i ≠ q ∧ i ≠ s ∧ i ≠ p) ∧ (∀ i ∈ D, i ≠ q ∧ i ≠ s ∧ i ≠ p) ∧
    (C1 ++ s :: C2).Nodup := by
  simp only [List.nodup_append, List.nodup_cons, List.mem_append, List.mem_cons, not_or] at hn
  refine ⟨?_, ?_, ?_, ?_, ?_, ?_, ?_, ?_, ?_⟩
  all_goals grind

/-- colour flip -/
theorem inv_flip {kn node : Nat} {st : RmState} {P : Frame} {up : List Frame} {S : T}
    (inv : Inv kn node st (P :: up) S)
    (hS : S.isNil = false) (d : Bool) (hdd : decide (S.key < kn) = d)
    (c1 : S.isRed = false) (c2 : (S.child d).isRed = false) (c3 : (S.child (!d)).isRed = false)
    (hsn : P.sib.isNil = false) (c4 : (P.sib.child (!P.d)).isRed = false) (c5 : (P.sib.child P.d).isRed = false)
    (hn : ((S.child d).idxs ++
      ctxIdxs (⟨S.rootIdx, S.key, true, d, S.child (!d)⟩ :: ⟨P.i, P.k, false, P.d, P.sib.setRed true⟩ :: up)).Nodup) :
    Inv kn node (stepState node st)
      (⟨S.rootIdx, S.key, true, d, S.child (!d)⟩ :: ⟨P.i, P.k, false, P.d, P.sib.setRed true⟩ :: up)
      (S.child d) := by
  obtain ⟨hq0, hq, hd, hri, hkey, hred, hq2, hqs, hch, hrq, hrc⟩ := inv.qfacts hS
  obtain ⟨sq, sdir, sp, hp2, hps, hpk, hsr, hhole, hup, hs0, hsc, sri, skey, hs2, hss, sch, srd⟩ := inv.sfacts hsn
  obtain ⟨hg0, hgs, hg1, hgm, hu2⟩ := inv.gfacts
  rw [hdd] at hd
  have i1 := inv.size1; have i2 := inv.headl; have i3 := inv.hkn
  have hqp : holeptr st.t (P :: up) = getC (nd st.t P.i) P.d := rfl
  generalize hh : st.t = h at *
  generalize hqq : holeptr h (P :: up) = q at *
  generalize hsv : getC (nd h P.i) (!P.d) = s at *
  rw [hri] at hn ⊢
  simp only [ctxIdxs, T.setRed_idxs] at hn
  rw [T.idxs_eq P.sib hsn, sri] at hn
  obtain ⟨hqs', hqp', hsp', dA, dB, dC1, dC2, dD, nC⟩ := flip_distinct _ _ _ _ _ _ _ _ hn
  obtain ⟨t1, t2⟩ := step_flip node st q d s (hh ▸ hq) (hh ▸ hd) (by rw [hh, hrq, c1]) (by rw [hh, hrc, c2])
    (by rw [hh, hrc, c3]) (hh ▸ hsc) hs0 (by rw [hh, sdir, srd, c4]) (by rw [hh, sdir, srd, c5])
  rw [hh, sq] at t1
  have e' : ∀ n, nd (stepState node st).t n =
      if n = q then setR (nd h q) true else if n = s then setR (nd h s) true
      else if n = P.i then setR (nd h P.i) false else nd h n := by
    intro n
    rw [t1, makeRed_nd _ q hq0 (by simp only [makeRed_size, makeBlack_size]; exact hqs) n,
      makeRed_nd _ s hs0 (by simp only [makeBlack_size]; exact hss) n,
      makeRed_nd _ s hs0 (by simp only [makeBlack_size]; exact hss) q,
      makeBlack_nd _ P.i (by omega) hps n, makeBlack_nd _ P.i (by omega) hps s, makeBlack_nd _ P.i (by omega) hps q]
    simp [hqs', hqp', hsp']
  have es : (stepState node st).t.nodes.size = h.nodes.size := by
    rw [t1]; simp only [makeRed_size, makeBlack_size]
  generalize hh' : (stepState node st).t = h' at t1 e' es
  have ekey : ∀ n, (nd h' n).key = (nd h n).key := by
    intro n; rw [e' n]; split
    · rename_i e; rw [e]; simp
    · split
      · rename_i e; rw [e]; simp
      · split
        · rename_i e; rw [e]; simp
        · rfl
  have fr : ∀ i, (i ≠ q ∧ i ≠ s ∧ i ≠ P.i) → nd h' i = nd h i := by
    intro i ⟨a, b, c⟩; rw [e' i, if_neg a, if_neg b, if_neg c]
  have eq' : nd h' q = setR (nd h q) true := by rw [e' q, if_pos rfl]
  have es' : nd h' s = setR (nd h s) true := by rw [e' s, if_neg (Ne.symm hqs'), if_pos rfl]
  have ep' : nd h' P.i = setR (nd h P.i) false := by rw [e' P.i, if_neg (Ne.symm hqp'), if_neg (Ne.symm hsp'), if_pos rfl]
  have fr1 : nd h' 1 = nd h 1 := fr 1 ⟨by omega, by omega, by omega⟩
  refine ⟨?_, ?_, ?_, ?_, ?_, ?_, ?_, ?_, ?_⟩ <;> (try simp only [hh'])
  · rw [es]; exact i1
  · rw [fr1]; exact i2
  · show (nd h' node).key = kn
    rw [ekey]; exact i3
  · refine ⟨hq2, es ▸ hqs, ?_, ?_, ?_, ?_, ⟨hp2, es ▸ hps, ?_, ?_, ?_, ?_, ?_⟩⟩
    · rw [ekey, hkey]
    · rw [eq']; rfl
    · rw [eq']; simp; exact (hch (!d)).frame es (fun i hi => fr i (dB i hi))
    · simp only [holeptr, pIdx, dirOf]; rw [ep']; simp; exact hqp.symm
    · rw [ekey, hpk]
    · rw [ep']; rfl
    · rw [ep']; simp; rw [hsv]
      refine hsr.setRed true es es' (fun i hi hne => fr i ?_) ?_
      · rw [T.idxs_eq P.sib hsn, sri] at hi
        simp only [List.mem_append, List.mem_cons] at hi
        rcases hi with hi | hi | hi
        · exact dC1 i hi
        · exact absurd hi hne
        · exact dC2 i hi
      · rw [T.idxs_eq P.sib hsn, sri]; exact nC
    · have : nd h' (pIdx up) = nd h (pIdx up) := by
        rcases hgm with e1 | e1
        · rw [e1]; exact fr1
        · exact fr _ (dD _ e1)
      simp only [holeptr] at hhole ⊢; rw [this]; exact hhole
    · exact hup.frame es fr1 (fun i hi => fr i (dD i hi))
  · simp only [holeptr, pIdx, dirOf]; rw [eq']; simp
    exact (hch d).frame es (fun i hi => fr i (dA i hi))
  · simp only [ctxIdxs, T.setRed_idxs]; rw [T.idxs_eq P.sib hsn, sri]; exact hn
  · rw [step_q, hh, hq]; rfl
  · rw [step_dir, hh, hq, hd]; rfl
  · rw [t2, sq]; rfl

/-- the "ensure correct colouring" tail of the rotation branches -/
theorem recolor_tail (h2 : Tree) (q c : Nat) (e : Bool) (a b : Nat)
    (ha : getC (nd h2 c) e = a) (hb : getC (nd h2 c) (!e) = b)
    (hq0 : q ≠ 0) (hqs : q < h2.nodes.size) (hc0 : c ≠ 0) (hcs : c < h2.nodes.size)
    (ha0 : a ≠ 0) (has : a < h2.nodes.size) (hb0 : b ≠ 0) (hbs : b < h2.nodes.size)
    (hqc : q ≠ c) (hqa : q ≠ a) (hqb : q ≠ b) (hca : c ≠ a) (hcb : c ≠ b) (hab : a ≠ b) :
    let t3 := makeRed (makeRed h2 q) c
    let t4 := makeBlack t3 (child t3 c false)
    let h' := makeBlack t4 (child t4 c true)
    h'.nodes.size = h2.nodes.size ∧
    ∀ n, nd h' n = if n = q then setR (nd h2 q) true else if n = c then setR (nd h2 c) true
      else if n = a then setR (nd h2 a) false else if n = b then setR (nd h2 b) false else nd h2 n := by
  intro t3 t4 h'
  have s3 : t3.nodes.size = h2.nodes.size := by simp only [t3, makeRed_size]
  have n3 : ∀ n, nd t3 n = if n = c then setR (nd h2 c) true else if n = q then setR (nd h2 q) true else nd h2 n := by
    intro n
    simp only [t3]
    rw [makeRed_nd _ c hc0 (by simp only [makeRed_size]; exact hcs) n, makeRed_nd _ q hq0 hqs n,
      makeRed_nd _ q hq0 hqs c, if_neg (Ne.symm hqc)]
  have s4 : t4.nodes.size = h2.nodes.size := by simp only [t4, makeBlack_size, s3]
  have c3 : ∀ d, child t3 c d = getC (nd h2 c) d := by
    intro d; rw [child_eq, n3 c, if_pos rfl]; simp
  cases e
  · -- a = left child, b = right child
    simp only [Bool.not_false] at hb
    have ca : child t3 c false = a := by rw [c3, ha]
    have n4 : ∀ n, nd t4 n = if n = a then setR (nd t3 a) false else nd t3 n := by
      intro n; simp only [t4]; rw [ca]; exact makeBlack_nd _ a ha0 (s3 ▸ has) n
    have cb : child t4 c true = b := by
      rw [child_eq, n4 c, if_neg hca, n3 c, if_pos rfl]; simpa using hb
    refine ⟨by simp only [h', makeBlack_size, s4], ?_⟩
    intro n; simp only [h']; rw [cb, makeBlack_nd _ b hb0 (s4 ▸ hbs) n, n4 n, n4 b, n3 n, n3 a, n3 b]
    by_cases e1 : n = q
    · subst e1; simp [hqc, hqa, hqb]
    · by_cases e2 : n = c
      · subst e2; simp [hca, hcb, e1]
      · by_cases e3 : n = a
        · subst e3; simp [hab, e1, e2]
        · by_cases e4 : n = b
          · subst e4; simp [Ne.symm hab, Ne.symm hcb, Ne.symm hqb]
          · simp [e1, e2, e3, e4]
  · simp only [Bool.not_true] at hb
    have ca : child t3 c false = b := by rw [c3, hb]
    have n4 : ∀ n, nd t4 n = if n = b then setR (nd t3 b) false else nd t3 n := by
      intro n; simp only [t4]; rw [ca]; exact makeBlack_nd _ b hb0 (s3 ▸ hbs) n
    have cb : child t4 c true = a := by
      rw [child_eq, n4 c, if_neg hcb, n3 c, if_pos rfl]; simpa using ha
    refine ⟨by simp only [h', makeBlack_size, s4], ?_⟩
    intro n; simp only [h']; rw [cb, makeBlack_nd _ a ha0 (s4 ▸ has) n, n4 n, n4 a, n3 n, n3 a, n3 b]
    by_cases e1 : n = q
    · subst e1; simp [hqc, hqa, hqb]
    · by_cases e2 : n = c
      · subst e2; simp [hca, hcb, e1]
      · by_cases e3 : n = a
        · subst e3; simp [hab, e1, e2]
        · by_cases e4 : n = b
          · subst e4; simp [Ne.symm hab, Ne.symm hcb, Ne.symm hqb]
          · simp [e1, e2, e3, e4]

end AsmjitVerif.Tree.Rem
