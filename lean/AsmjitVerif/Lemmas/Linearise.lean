/- helper lemmas about one scheduling step of the thread model (Model/Linearise.lean) -/
import AsmjitVerif.Model.Linearise
namespace AsmjitVerif.Linearise
variable {σ Cfg Op A Out : Type}


theorem stepThread_wf (m : Machine σ Cfg Op A Out) (cfg : Cfg) (s : σ) (ths : List (Thread Op A)) (t : Nat)
    (wf : WellFormed m cfg ths) : WellFormed m cfg (stepThread m cfg s ths t).2.1 := by
  unfold stepThread
  split
  · exact wf
  · rename_i th hth
    split
    · exact wf
    · rename_i op rest hp htodo
      intro th' hmem a ha
      rcases List.mem_or_eq_of_mem_set hmem with h | h
      · exact wf th' h a ha
      · subst h
        simp at ha
        exact ⟨op, rest, htodo, ha.symm⟩
    · exact wf
    · rename_i a op rest hp htodo
      intro th' hmem a' ha'
      rcases List.mem_or_eq_of_mem_set hmem with h | h
      · exact wf th' h a' ha'
      · subst h
        simp at ha'

theorem stepThread_cases (m : Machine σ Cfg Op A Out) (cfg : Cfg) (s : σ) (ths : List (Thread Op A)) (t : Nat) :
    (∃ ths', stepThread m cfg s ths t = (s, ths', none)) ∨
    (∃ th a op rest, ths[t]? = some th ∧ th.pending = some a ∧ th.todo = op :: rest ∧
      stepThread m cfg s ths t =
        ((m.crit s a).1, ths.set t { todo := rest, pending := none }, some { tid := t, op := op, out := (m.crit s a).2 })) := by
  unfold stepThread
  split
  · exact Or.inl ⟨_, rfl⟩
  · rename_i th hth
    split
    · exact Or.inl ⟨_, rfl⟩
    · exact Or.inl ⟨_, rfl⟩
    · exact Or.inl ⟨_, rfl⟩
    · rename_i a op rest hp htodo
      exact Or.inr ⟨th, a, op, rest, hth, hp, htodo, rfl⟩

def todoOf (ths : List (Thread Op A)) (t : Nat) : List Op := (ths[t]?.map (·.todo)).getD []

theorem stepThread_todo_of_none (m : Machine σ Cfg Op A Out) (cfg : Cfg) (s : σ) (ths : List (Thread Op A)) (u t : Nat)
    (hn : (stepThread m cfg s ths u).2.2 = none) : todoOf (stepThread m cfg s ths u).2.1 t = todoOf ths t := by
  unfold stepThread at hn ⊢
  split
  · rfl
  · rename_i th hth
    split
    · rfl
    · rename_i op tail _ _
      by_cases hut : u = t
      · subst hut
        obtain ⟨hlt, heq⟩ := List.getElem?_eq_some_iff.mp hth
        simp [todoOf, List.getElem?_set, hlt, heq]
      · simp [todoOf, List.getElem?_set, hut]
    · rfl
    · rename_i hp htodo
      simp [hth, hp, htodo] at hn


end AsmjitVerif.Linearise
