/- Arithmetic of `alignUp` (the 64-bit `Support::align_up`) against `roundUp` (unbounded). -/
import AsmjitVerif.Spec.Sections
namespace AsmjitVerif.Sections

/-- alignments `new_section` can produce: powers of two below 2^64 (stated as: positive divisors of 2^64) -/
def GoodAlign (a : Nat) : Prop := 0 < a ∧ a ∣ U64 ∧ a < U64

theorem roundUp_ge (x a : Nat) : x ≤ roundUp x a := by
  unfold roundUp
  split
  · exact Nat.le_refl _
  · rename_i h
    have hm := Nat.div_add_mod (x + (a - 1)) a
    have hl := Nat.mod_lt (x + (a - 1)) (Nat.pos_of_ne_zero h)
    have : (x + (a - 1)) / a * a = a * ((x + (a - 1)) / a) := Nat.mul_comm _ _
    omega

theorem roundUp_lt (x a : Nat) (h : 0 < a) : roundUp x a < x + a := by
  unfold roundUp
  rw [if_neg (by omega)]
  have hm := Nat.div_add_mod (x + (a - 1)) a
  have : (x + (a - 1)) / a * a = a * ((x + (a - 1)) / a) := Nat.mul_comm _ _
  omega

theorem roundUp_dvd (x a : Nat) (h : a ≠ 0) : a ∣ roundUp x a := by
  unfold roundUp
  rw [if_neg h]
  exact Nat.dvd_mul_left _ _

theorem roundUp_of_dvd (x a : Nat) (h : a ∣ x) : roundUp x a = x := by
  unfold roundUp
  split
  · rfl
  · rename_i ha
    obtain ⟨k, rfl⟩ := h
    have hpos : 0 < a := Nat.pos_of_ne_zero ha
    have : (a * k + (a - 1)) / a = k := by
      rw [Nat.mul_add_div hpos, Nat.div_eq_of_lt (by omega)]; simp
    rw [this, Nat.mul_comm]

theorem roundUp_idem (x a : Nat) : roundUp (roundUp x a) a = roundUp x a := by
  by_cases h : a = 0
  · simp [roundUp, h]
  · exact roundUp_of_dvd _ _ (roundUp_dvd x a h)

/-- a multiple of `a` that is `≥ x` and `> U64 - a` … : if the addition wraps, the ideal offset does not fit -/
theorem roundUp_ge_U64 (x a : Nat) (ha : GoodAlign a) (h : U64 ≤ x + (a - 1)) : U64 ≤ roundUp x a := by
  obtain ⟨hpos, ⟨m, hm⟩, _⟩ := ha
  have hge := roundUp_ge x a
  obtain ⟨q, hq⟩ := roundUp_dvd x a (by omega)
  by_cases hlt : q < m
  · exfalso
    have h1 : a * (q + 1) ≤ a * m := Nat.mul_le_mul_left a hlt
    rw [Nat.mul_add, Nat.mul_one] at h1
    omega
  · have h2 : a * m ≤ a * q := Nat.mul_le_mul_left a (by omega)
    omega

theorem roundUp_lt_U64 (x a : Nat) (h : x + (a - 1) < U64) : roundUp x a < U64 := by
  by_cases ha : a = 0
  · simp [roundUp, ha]; omega
  · have := roundUp_lt x a (Nat.pos_of_ne_zero ha); omega

theorem alignUp_zero_zero : alignUp 0 0 = 0 := by simp [alignUp]

/-- no wrap: the 64-bit result is the ideal one -/
theorem alignUp_eq_roundUp (x a : Nat) (ha : a ≠ 0) (h : x + (a - 1) < U64) : alignUp x a = roundUp x a := by
  unfold alignUp roundUp
  rw [if_neg ha, if_neg ha, Nat.mod_eq_of_lt h]

/-- wrap: the 64-bit result is smaller than the input, which is what `flatten` tests -/
theorem alignUp_wrap_lt (x a : Nat) (ha : GoodAlign a) (hx : x < U64) (h : U64 ≤ x + (a - 1)) : alignUp x a < x := by
  obtain ⟨hpos, _, hlt⟩ := ha
  unfold alignUp
  rw [if_neg (by omega)]
  have h1 : (x + (a - 1)) % U64 = x + (a - 1) - U64 := by
    rw [Nat.mod_eq_sub_mod h, Nat.mod_eq_of_lt (by omega)]
  rw [h1]
  have := Nat.div_mul_le_self (x + (a - 1) - U64) a
  omega

/-- where the alignment is 0 (`.text`) or good, and the running offset is 0 in the first case -/
def AlignOK (off : Nat) (a : Nat) : Prop := GoodAlign a ∨ (a = 0 ∧ off = 0)

theorem alignUp_eq_of_fits (x a : Nat) (hok : AlignOK x a) (hx : x < U64) (h : roundUp x a < U64) : alignUp x a = roundUp x a := by
  rcases hok with hg | ⟨rfl, rfl⟩
  · by_cases hw : x + (a - 1) < U64
    · exact alignUp_eq_roundUp x a (by have := hg.1; omega) hw
    · have := roundUp_ge_U64 x a hg (by omega); omega
  · simp [alignUp, roundUp]

theorem alignUp_lt_of_not_fits (x a : Nat) (hok : AlignOK x a) (hx : x < U64) (h : U64 ≤ roundUp x a) : alignUp x a < x := by
  rcases hok with hg | ⟨rfl, rfl⟩
  · by_cases hw : x + (a - 1) < U64
    · have := roundUp_lt_U64 x a hw; omega
    · exact alignUp_wrap_lt x a hg hx (by omega)
  · simp [roundUp, U64] at h

theorem alignUp_ge_of_fits (x a : Nat) (hok : AlignOK x a) (hx : x < U64) (h : roundUp x a < U64) : ¬ alignUp x a < x := by
  rw [alignUp_eq_of_fits x a hok hx h]; have := roundUp_ge x a; omega

end AsmjitVerif.Sections
