/- C06 helper lemmas: finite facts about TypeIds (checked by `decide` over all ids) and alignUp arithmetic. -/
import AsmjitVerif.Model.CallConv
import AsmjitVerif.Spec.ABI
namespace AsmjitVerif.C06
open AsmjitVerif.CallConv AsmjitVerif.ABI

theorem alignUp_of_dvd {x a : Nat} (ha : 0 < a) (h : a ∣ x) : alignUp x a = x := by
  obtain ⟨k, rfl⟩ := h
  unfold alignUp
  have : (a * k + (a - 1)) / a = k := by
    rw [Nat.mul_add_div ha]
    have : (a - 1) / a = 0 := Nat.div_eq_of_lt (by omega)
    omega
  rw [this, Nat.mul_comm]

theorem dvd_alignUp (x a : Nat) : a ∣ alignUp x a := by
  unfold alignUp; exact Nat.dvd_mul_left _ _

theorem alignUp_one (x : Nat) : alignUp x 1 = x := by simp [alignUp]

/-- facts about non-abstract integer types -/
theorem int_facts : ∀ t ∈ List.range 42, isInt t = true → isAbstract t = false →
    ((if t ≤ tUInt32 then rtGp32 else rtGp64) = gpView t) ∧ max (tySize t) 8 = 8 ∧ slotSize t = 8 ∧ slotAlign t = 8
    ∧ (tySize t = 1 ∨ tySize t = 2 ∨ tySize t = 4 ∨ tySize t = 8) := by decide +kernel

/-- facts about float/double and vector types -/
theorem vec_facts : ∀ t ∈ List.range 101, (isF32F64 t || isVec t) = true →
    vecTypeIdToRegType t = xmmView t ∧ isInt t = false ∧ t ≠ tFloat80 ∧ isMmx t = false
    ∧ (isFloat t || isVec t) = true ∧ max (tySize t) 8 = slotSize t
    ∧ (slotSize t = 8 ∨ slotSize t = 16 ∨ slotSize t = 32 ∨ slotSize t = 64)
    ∧ (isFloat t = isF32F64 t) ∧ (isVec t = !isF32F64 t) := by decide +kernel

/-- facts about the types the psABI classes SSE: float, double, vectors and `__m64` -/
theorem sse_facts : ∀ t ∈ List.range 101, (isF32F64 t || isVec t || isMmx t) = true →
    vecTypeIdToRegType t = xmmView t ∧ isInt t = false ∧ t ≠ tFloat80
    ∧ (isFloat t || isVec t || isMmx t) = true ∧ max (tySize t) 8 = slotSize t
    ∧ (slotSize t = 8 ∨ slotSize t = 16 ∨ slotSize t = 32 ∨ slotSize t = 64)
    ∧ (isFloat t = isF32F64 t) := by decide +kernel

theorem mask_facts : ∀ t ∈ List.range 101, isMask t = true →
    isInt t = false ∧ isFloat t = false ∧ isVec t = false ∧ isMmx t = false ∧ isF32F64 t = false ∧ t ≠ tFloat80 := by decide +kernel

theorem unpack_x64 (t : Nat) : unpack .x64 t = [t] := by simp [unpack]

theorem packLoop_single (f : St → Nat → St × FuncValue) (s : St) (t : Nat) :
    packLoop f s [t] = ((f s t).1, [(f s t).2]) := rfl

end AsmjitVerif.C06
