/-
C01 helper lemmas, spec side: the "shape" lemmas of the monitor for VEX-family forms with a MEMORY operand in the other operand shapes
([reg, MEM], [reg, vvvv, MEM, imm8], [reg, MEM, imm8]); the shape [reg, vvvv, MEM] is `vex_rvm_mem_formOk` in `X86Parse`.
-/
import AsmjitVerif.Lemmas.X86Parse
set_option linter.constructorNameAsVariable false
set_option linter.unusedSimpArgs false
set_option linter.unusedVariables false
namespace AsmjitVerif.Lemmas.X86Parse
open Spec.X86

/-- shape [reg, MEM] with a 64-bit-addressed, non-VSIB memory operand without segment / broadcast: all conditions of the monitor hold -/
theorem vex_rm_mem_formOk (ctx : Spec.X86.Ctx) (rule : Rule) (p : Parsed) (mb : BitVec 8) (bytes pfx : List (BitVec 8))
    (k0 : RegKind) (f0 f2 : FormOp) (i0 : Nat) (m : MemOp) (k : Nat) (z bb : Bool)
    (hm64 : ctx.mode64 = true) (hmode : (rule.modes &&& 2 != 0) = true) (hk0 : PlainKind k0)
    (R : VexRuleM rule 0) (hf0 : f0.role = .reg) (hf2 : f2.role = .rm)
    (K : PfxCounts pfx m) (D : DecorAllowed rule k z false false) (hvs : vsibOf m = .none) (hbc : (m.bcst != 0) = bb) (hbr : bb = true → rule.bcst = true)
    (hal : alignOps rule.oszEff rule.ops [.reg k0 i0, .mem m] =
           some [(f0, some (.reg k0 i0)), (f2, some (.mem m))])
    (hparse : parse true rule bytes = .ok p) (P : VexParsedM rule p mb pfx k z bb)
    (hreg : regNum p.R' p.R (bits mb 3 3) = i0)
    (hvv : regNum p.V' false p.vvvv = 0)
    (hcm : checkMem ctx rule p m = .ok ()) :
    formOk ctx rule [.reg k0 i0, .mem m] (decorOf k z false false 0) bytes = true := by
  obtain ⟨hvk, hpfx, hrex, hmodrm, hmod, hop, hmap, hpp, hw, hl, hl1, hev, hnk⟩ := P
  obtain ⟨dk, dz, -, -⟩ := D
  obtain ⟨hs, hpp8, hri, hmk, hmr, hmrm, himm, hrel, hmoff, ha67, hrev, hosz⟩ := R
  obtain ⟨c66, cF3, cF2, cF0, c9B, cseg, c67, ccont⟩ := K
  have hleg : isLegacySpace rule = false := by rcases hs with h | h | h <;> simp [isLegacySpace, h]
  have hs4 : (rule.space == 4) = false := by rcases hs with h | h | h <;> simp [h]
  have hvk0 : (p.vexKind == 0) = false := by rcases hvk with h | h | h | h <;> simp [h]
  have hmod' : (bits mb 6 2 == 3) = false := by simpa using hmod
  simp only [formOk, conds, hm64, hal, hparse, ↓reduceIte, hmode]
  simp only [allOk_cons, allOk_append, decorConds, headConds, prefixConds, modrmConds, operandConds, opConds, tailConds, hf0, hf2,
    regConds_plain _ _ _ _ _ hk0, allOk_nil, memOperandOf, implMemOf, usesVvvv, memDestOf, hcm, Spec.X86.ofExcept,
    hasBcst, hleg, hri, hmodrm, hpfx, hrex, List.foldl, List.find?, c66, cF3, cF2, cF0, c9B, cseg, ccont, decorOf]
  obtain ⟨hv0, hV⟩ := regNum_zero _ _ hvv
  simp [hop, hmap, hpp, hreg, hv0, hV, hmod', hmr, hmrm, hs4, hvk0, hpp8, ha67, hbc, hvs, hm64, allOk]
  have hvk0' : ¬ p.vexKind = 0 := by rcases hvk with h | h | h | h <;> omega
  and_intros
  all_goals first
    | exact hw
    | exact hvk0'
    | exact c67
    | (refine Or.inr ?_; simpa using ccont)
    | (refine Or.inl ?_; rcases hs with h | h | h <;> omega)
    | (rcases hmk with h | h <;> omega)
    | (rcases hl with h | h
       · exact Or.inl (Or.inl h)
       · exact Or.inr h)
    | (by_cases h4 : p.vexKind = 4
       · left; omega
       · right; exact hl1 h4)
    | (by_cases h4 : p.vexKind = 4
       · obtain ⟨a, zz, b, mm⟩ := hev h4
         rw [hmap] at mm
         simp [h4, allOk, a, zz, b, mm]
       · obtain ⟨k0', z0', b0'⟩ := hnk h4
         simp [h4, allOk, k0', z0', b0'])
    | (cases bb
       · exact Or.inl rfl
       · exact Or.inr (hbr rfl))
    | (by_cases h : k = 0
       · exact Or.inl h
       · exact Or.inr (dk h))
    | (cases z
       · exact Or.inl rfl
       · exact Or.inr (dz rfl))
    | exact Or.inl (Or.inr (Or.inr (Or.inl ‹_›)))
    | rfl

/-- shape [reg, vvvv, MEM, imm8] with a 64-bit-addressed, non-VSIB memory operand without segment / broadcast: all conditions of the monitor hold -/
theorem vex_rvmi_mem_formOk (ctx : Spec.X86.Ctx) (rule : Rule) (p : Parsed) (mb : BitVec 8) (bytes pfx : List (BitVec 8))
    (k0 k1 : RegKind) (f0 f1 f2 : FormOp) (i0 i1 : Nat) (m : MemOp) (k : Nat) (z bb : Bool)
    (hm64 : ctx.mode64 = true) (hmode : (rule.modes &&& 2 != 0) = true) (hk0 : PlainKind k0) (hk1 : PlainKind k1)
    (R : VexRuleM rule 1) (f3 : FormOp) (v : BitVec 64) (hf3 : f3.role = .imm) (hib : immBitsOf f3 = 8)
    (himmp : p.imm = [BitVec.ofNat 8 v.toNat]) (hf0 : f0.role = .reg) (hf1 : f1.role = .vvvv) (hf2 : f2.role = .rm)
    (K : PfxCounts pfx m) (D : DecorAllowed rule k z false false) (hvs : vsibOf m = .none) (hbc : (m.bcst != 0) = bb) (hbr : bb = true → rule.bcst = true)
    (hal : alignOps rule.oszEff rule.ops [.reg k0 i0, .reg k1 i1, .mem m, .imm v] =
           some [(f0, some (.reg k0 i0)), (f1, some (.reg k1 i1)), (f2, some (.mem m)), (f3, some (.imm v))])
    (hparse : parse true rule bytes = .ok p) (P : VexParsedM rule p mb pfx k z bb)
    (hreg : regNum p.R' p.R (bits mb 3 3) = i0)
    (hvv : regNum p.V' false p.vvvv = i1)
    (hcm : checkMem ctx rule p m = .ok ()) :
    formOk ctx rule [.reg k0 i0, .reg k1 i1, .mem m, .imm v] (decorOf k z false false 0) bytes = true := by
  obtain ⟨hvk, hpfx, hrex, hmodrm, hmod, hop, hmap, hpp, hw, hl, hl1, hev, hnk⟩ := P
  obtain ⟨dk, dz, -, -⟩ := D
  obtain ⟨hs, hpp8, hri, hmk, hmr, hmrm, himm, hrel, hmoff, ha67, hrev, hosz⟩ := R
  obtain ⟨c66, cF3, cF2, cF0, c9B, cseg, c67, ccont⟩ := K
  have hleg : isLegacySpace rule = false := by rcases hs with h | h | h <;> simp [isLegacySpace, h]
  have hs4 : (rule.space == 4) = false := by rcases hs with h | h | h <;> simp [h]
  have hvk0 : (p.vexKind == 0) = false := by rcases hvk with h | h | h | h <;> simp [h]
  have hmod' : (bits mb 6 2 == 3) = false := by simpa using hmod
  simp only [formOk, conds, hm64, hal, hparse, ↓reduceIte, hmode]
  simp only [allOk_cons, allOk_append, decorConds, headConds, prefixConds, modrmConds, operandConds, opConds, tailConds, hf3, hib, himmp, immBytesOf, oszEff_zero rule hosz hs, hrev, hf0, hf1, hf2,
    regConds_plain _ _ _ _ _ hk0, regConds_plain _ _ _ _ _ hk1, allOk_nil, memOperandOf, implMemOf, usesVvvv, memDestOf, hcm, Spec.X86.ofExcept,
    hasBcst, hleg, hri, hmodrm, hpfx, hrex, List.foldl, List.find?, c66, cF3, cF2, cF0, c9B, cseg, ccont, decorOf]
  simp [hop, hmap, hpp, hreg, hvv, hmod', hmr, hmrm, hs4, hvk0, hpp8, ha67, hbc, hvs, hm64, allOk]
  have hvk0' : ¬ p.vexKind = 0 := by rcases hvk with h | h | h | h <;> omega
  and_intros
  all_goals first
    | exact hw
    | exact hvk0'
    | exact c67
    | (refine Or.inr ?_; simpa using ccont)
    | (refine Or.inl ?_; rcases hs with h | h | h <;> omega)
    | (rcases hmk with h | h <;> omega)
    | (rcases hl with h | h
       · exact Or.inl (Or.inl h)
       · exact Or.inr h)
    | (by_cases h4 : p.vexKind = 4
       · left; omega
       · right; exact hl1 h4)
    | (by_cases h4 : p.vexKind = 4
       · obtain ⟨a, zz, b, mm⟩ := hev h4
         rw [hmap] at mm
         simp [h4, allOk, a, zz, b, mm]
       · obtain ⟨k0', z0', b0'⟩ := hnk h4
         simp [h4, allOk, k0', z0', b0'])
    | (cases bb
       · exact Or.inl rfl
       · exact Or.inr (hbr rfl))
    | (by_cases h : k = 0
       · exact Or.inl h
       · exact Or.inr (dk h))
    | (cases z
       · exact Or.inl rfl
       · exact Or.inr (dz rfl))
    | exact Or.inl (Or.inr (Or.inr (Or.inl ‹_›)))
    | exact Or.inl (Or.inr (Or.inr hf1))
    | rfl
    | simp [leBytes, allOk]

/-- shape [reg, MEM, imm8] with a 64-bit-addressed, non-VSIB memory operand without segment / broadcast: all conditions of the monitor hold -/
theorem vex_rmi_mem_formOk (ctx : Spec.X86.Ctx) (rule : Rule) (p : Parsed) (mb : BitVec 8) (bytes pfx : List (BitVec 8))
    (k0 : RegKind) (f0 f2 : FormOp) (i0 : Nat) (m : MemOp) (k : Nat) (z bb : Bool)
    (hm64 : ctx.mode64 = true) (hmode : (rule.modes &&& 2 != 0) = true) (hk0 : PlainKind k0)
    (R : VexRuleM rule 1) (f3 : FormOp) (v : BitVec 64) (hf3 : f3.role = .imm) (hib : immBitsOf f3 = 8)
    (himmp : p.imm = [BitVec.ofNat 8 v.toNat]) (hf0 : f0.role = .reg) (hf2 : f2.role = .rm)
    (K : PfxCounts pfx m) (D : DecorAllowed rule k z false false) (hvs : vsibOf m = .none) (hbc : (m.bcst != 0) = bb) (hbr : bb = true → rule.bcst = true)
    (hal : alignOps rule.oszEff rule.ops [.reg k0 i0, .mem m, .imm v] =
           some [(f0, some (.reg k0 i0)), (f2, some (.mem m)), (f3, some (.imm v))])
    (hparse : parse true rule bytes = .ok p) (P : VexParsedM rule p mb pfx k z bb)
    (hreg : regNum p.R' p.R (bits mb 3 3) = i0)
    (hvv : regNum p.V' false p.vvvv = 0)
    (hcm : checkMem ctx rule p m = .ok ()) :
    formOk ctx rule [.reg k0 i0, .mem m, .imm v] (decorOf k z false false 0) bytes = true := by
  obtain ⟨hvk, hpfx, hrex, hmodrm, hmod, hop, hmap, hpp, hw, hl, hl1, hev, hnk⟩ := P
  obtain ⟨dk, dz, -, -⟩ := D
  obtain ⟨hs, hpp8, hri, hmk, hmr, hmrm, himm, hrel, hmoff, ha67, hrev, hosz⟩ := R
  obtain ⟨c66, cF3, cF2, cF0, c9B, cseg, c67, ccont⟩ := K
  have hleg : isLegacySpace rule = false := by rcases hs with h | h | h <;> simp [isLegacySpace, h]
  have hs4 : (rule.space == 4) = false := by rcases hs with h | h | h <;> simp [h]
  have hvk0 : (p.vexKind == 0) = false := by rcases hvk with h | h | h | h <;> simp [h]
  have hmod' : (bits mb 6 2 == 3) = false := by simpa using hmod
  simp only [formOk, conds, hm64, hal, hparse, ↓reduceIte, hmode]
  simp only [allOk_cons, allOk_append, decorConds, headConds, prefixConds, modrmConds, operandConds, opConds, tailConds, hf3, hib, himmp, immBytesOf, oszEff_zero rule hosz hs, hrev, hf0, hf2,
    regConds_plain _ _ _ _ _ hk0, allOk_nil, memOperandOf, implMemOf, usesVvvv, memDestOf, hcm, Spec.X86.ofExcept,
    hasBcst, hleg, hri, hmodrm, hpfx, hrex, List.foldl, List.find?, c66, cF3, cF2, cF0, c9B, cseg, ccont, decorOf]
  obtain ⟨hv0, hV⟩ := regNum_zero _ _ hvv
  simp [hop, hmap, hpp, hreg, hv0, hV, hmod', hmr, hmrm, hs4, hvk0, hpp8, ha67, hbc, hvs, hm64, allOk]
  have hvk0' : ¬ p.vexKind = 0 := by rcases hvk with h | h | h | h <;> omega
  and_intros
  all_goals first
    | exact hw
    | exact hvk0'
    | exact c67
    | (refine Or.inr ?_; simpa using ccont)
    | (refine Or.inl ?_; rcases hs with h | h | h <;> omega)
    | (rcases hmk with h | h <;> omega)
    | (rcases hl with h | h
       · exact Or.inl (Or.inl h)
       · exact Or.inr h)
    | (by_cases h4 : p.vexKind = 4
       · left; omega
       · right; exact hl1 h4)
    | (by_cases h4 : p.vexKind = 4
       · obtain ⟨a, zz, b, mm⟩ := hev h4
         rw [hmap] at mm
         simp [h4, allOk, a, zz, b, mm]
       · obtain ⟨k0', z0', b0'⟩ := hnk h4
         simp [h4, allOk, k0', z0', b0'])
    | (cases bb
       · exact Or.inl rfl
       · exact Or.inr (hbr rfl))
    | (by_cases h : k = 0
       · exact Or.inl h
       · exact Or.inr (dk h))
    | (cases z
       · exact Or.inl rfl
       · exact Or.inr (dz rfl))
    | exact Or.inl (Or.inr (Or.inr (Or.inl ‹_›)))
    | rfl
    | simp [leBytes, allOk]

/-- `[base + index * scale + disp]` with 64-bit base and index registers in 64-bit mode: the memory check of the monitor succeeds when the decoded
SIB fields and the decoded displacement are the operand's -/
theorem checkMem_index64 (c : Spec.X86.Ctx) (r : Rule) (p : Parsed) (m : MemOp) (mb s : BitVec 8) (a32 : Bool)
    (hm64 : c.mode64 = true) (hno67 : p.prefixes.contains 0x67#8 = a32) (ha16 : p.addr16 = false)
    (hmodrm : p.modrm = some mb) (hmod : bits mb 6 2 ≠ 3)
    (hbk : m.baseKind = (if a32 then .gpd else .gpq)) (hik : m.indexKind = (if a32 then .gpd else .gpq))
    (hs : p.sib = some s) (hn5 : ¬ (bits mb 6 2 = 0 ∧ bits s 0 3 = 5)) (hb : regNum false p.B (bits s 0 3) = m.baseId)
    (hx : regNum false p.X (bits s 3 3) = m.indexId) (hx4 : m.indexId ≠ 4) (hsc : bits s 6 2 = m.shift)
    (hd : decodedDisp r p = sextNat (m.disp.toNat % 2 ^ 32) 32) :
    checkMem c r p m = .ok () := by
  have hmod' : (bits mb 6 2 == 3) = false := by simpa using hmod
  have hvs : vsibOf m = .none := by cases a32 <;> simp_all [vsibOf]
  unfold decodedDisp at hd
  have hn5' : (bits mb 6 2 == 0 && bits s 0 3 == 5) = false := by
    simp only [Bool.and_eq_false_iff, beq_eq_false_iff_ne]; by_cases h : bits mb 6 2 = 0 <;> simp_all
  cases a32
  · have hno67' : ¬ (0x67#8 ∈ p.prefixes) := by simpa using hno67
    simp only [Bool.false_eq_true, ↓reduceIte] at hbk hik
    simp [checkMem, hmodrm, hmod', hm64, hno67, hno67', ha16, hvs, hbk, hik, hs, hn5', hb, hx, hx4, hsc, wantedAddrSize, bind, Except.bind, pure, Except.pure]
    simpa using hd
  · have hno67' : 0x67#8 ∈ p.prefixes := by simpa using hno67
    simp only [↓reduceIte] at hbk hik
    simp [checkMem, hmodrm, hmod', hm64, hno67, hno67', ha16, hvs, hbk, hik, hs, hn5', hb, hx, hx4, hsc, wantedAddrSize, bind, Except.bind, pure, Except.pure]
    simpa using hd

/-- `[rip + disp32]` in 64-bit mode: mod = 00, rm = 101, no SIB, no 67 prefix, the disp32 is the operand's displacement -/
theorem checkMem_rip (c : Spec.X86.Ctx) (r : Rule) (p : Parsed) (m : MemOp) (mb : BitVec 8)
    (hm64 : c.mode64 = true) (hno67 : p.prefixes.contains 0x67#8 = false) (ha16 : p.addr16 = false)
    (hmodrm : p.modrm = some mb) (hmod : bits mb 6 2 = 0) (hrm : bits mb 0 3 = 5)
    (hbk : m.baseKind = .rip) (hik : m.indexKind = .none) (hs : p.sib = Option.none) (hds : p.dispSize = 4)
    (hd : sextNat p.disp 32 = sextNat (m.disp.toNat % 2 ^ 32) 32) :
    checkMem c r p m = .ok () := by
  have hvs : vsibOf m = .none := by simp [vsibOf, hik]
  have hno67' : ¬ (0x67#8 ∈ p.prefixes) := by simpa using hno67
  simp [checkMem, hmodrm, hmod, hrm, hm64, hno67, hno67', ha16, hvs, hbk, hik, hs, hds, wantedAddrSize, bind, Except.bind, pure, Except.pure]
  simpa using hd

/-- absolute address `[disp32]` in 64-bit mode: mod = 00, rm = 100, SIB = 00 100 101 (no base, no index), disp32 sign-extended to 64 bits
(no 67 prefix) or zero-extended (67 prefix: address size 32) is the operand's address -/
theorem checkMem_abs (c : Spec.X86.Ctx) (r : Rule) (p : Parsed) (m : MemOp) (mb s : BitVec 8) (a32 : Bool)
    (hm64 : c.mode64 = true) (hno67 : p.prefixes.contains 0x67#8 = a32) (ha16 : p.addr16 = false)
    (hmodrm : p.modrm = some mb) (hmod : bits mb 6 2 = 0) (hrm : bits mb 0 3 = 4)
    (hbk : m.baseKind = .none) (hik : m.indexKind = .none) (hat : m.addrType ≠ 2)
    (hs : p.sib = some s) (hsb : bits s 0 3 = 5) (hsi : bits s 3 3 = 4) (hss : bits s 6 2 = 0) (hX : p.X = false) (hds : p.dispSize = 4)
    (hd : sextNat p.disp 32 % ((2 ^ (if a32 then 32 else 64) : Nat) : Int) = (m.disp.toNat : Int)) :
    checkMem c r p m = .ok () := by
  have hvs : vsibOf m = .none := by simp [vsibOf, hik]
  have hat' : (m.addrType == 2) = false := by simpa using hat
  cases a32
  · have hno67' : ¬ (0x67#8 ∈ p.prefixes) := by simpa using hno67
    simp [checkMem, hmodrm, hmod, hrm, hm64, hno67, hno67', ha16, hvs, hbk, hik, hs, hsb, hsi, hss, hX, hds, hat', regNum, wantedAddrSize, bind, Except.bind, pure, Except.pure]
    simpa using hd
  · have hno67' : 0x67#8 ∈ p.prefixes := by simpa using hno67
    simp [checkMem, hmodrm, hmod, hrm, hm64, hno67, hno67', ha16, hvs, hbk, hik, hs, hsb, hsi, hss, hX, hds, hat', regNum, wantedAddrSize, bind, Except.bind, pure, Except.pure]
    simpa using hd

end AsmjitVerif.Lemmas.X86Parse
