/- C08: embed_const_pool is align + bind + embed (when accepted) or nothing (when refused) - on both sides. -/
import AsmjitVerif.Lemmas.C08Groups
import AsmjitVerif.Lemmas.C08Replay2

namespace AsmjitVerif.Builder
open Spec

/-- the three calls embed_const_pool stands for -/
def cpoolSeq (l isz : Nat) (bytes : String) : List Op :=
  [.align 1 (if hexLen bytes = 0 then 0 else isz), .bind l, .embed bytes]

theorem has_after_add (d : Doc) (m n : Nat) (hg : d.gap ≤ d.items.length) (hne : n ≠ m) (hn : n ∉ d.items) :
    (d.apply (.add m)).has n = false := by
  simp only [Doc.apply]
  by_cases hm : d.has m = true
  · rw [if_pos hm]; simp [Doc.has, hn]
  · rw [if_neg hm]
    have : n ∉ d.items.insertIdx d.gap m := by
      intro h
      rcases (List.mem_insertIdx hg).mp h with h | h
      · exact hne h
      · exact hn h
    simp [Doc.has, this]

theorem cpool_accept (t : Spec.St) (a : ASt) (l isz : Nat) (bytes : String) (fr : FRel t a) (hg : t.d.gap ≤ t.d.items.length)
    (hp : cpoolPre isz bytes = true) (hl : l < a.nLabels) (hb : l ∉ a.bound) :
    (Spec.step t (.cpool l isz bytes)).1 = Spec.run t (cpoolSeq l isz bytes) ∧
    astep a (.cpool l isz bytes) = arun a (cpoolSeq l isz bytes) := by
  obtain ⟨n, h1, h2, h3⟩ := fr.lab l hl
  have h1' : t.f.labelNodes[l]?.getD none = some n := by simpa [List.getD_eq_getElem?_getD] using h1
  have hv : t.f.labelValid l = true := by simp [Front.labelValid, fr.nLabels, hl]
  have hnot : n ∉ t.d.items := fun h => hb ((fr.bound l n hl h1).mp h)
  have hact : t.d.has n = false := by simp [Doc.has, hnot]
  have hact2 : (t.d.apply (.add t.f.nodes.length)).has n = false := has_after_add _ _ _ hg (by omega) hnot
  have hbc : a.bound.contains l = false := by simpa using hb
  have hlt : l < t.f.labelNodes.length := by rw [fr.nLabels]; exact hl
  have h1'' : t.f.labelNodes[l] = some n := by
    simpa [List.getD_eq_getElem?_getD, List.getElem?_eq_getElem hlt] using h1
  have hnc : ∀ X : Node, (((t.f.nodes ++ [X])[n]?).getD (Node.comment "?")).isCpool = false := by
    intro X
    have h3' := h3
    simp only [nodeAt, List.getD_eq_getElem?_getD] at h3'
    rw [List.getElem?_append_left h2, h3']; rfl
  constructor
  · simp only [Spec.run, cpoolSeq, List.foldl_cons, List.foldl_nil, spec_step_state]
    simp [front, Front.newNode, hp, hv, h1, h1', h1'', hact, hact2, Front.labelValid, fr.nLabels, hl, hnc]
  · simp [arun, cpoolSeq, astep, ASt.emit, hp, hl, hbc, hb]

theorem cpool_reject (t : Spec.St) (a : ASt) (l isz : Nat) (bytes : String) (fr : FRel t a)
    (h : ¬ (cpoolPre isz bytes = true ∧ l < a.nLabels ∧ l ∉ a.bound)) :
    (Spec.step t (.cpool l isz bytes)).1 = t ∧ astep a (.cpool l isz bytes) = a := by
  by_cases hp : cpoolPre isz bytes = true
  · by_cases hl : l < a.nLabels
    · have hb : l ∈ a.bound := by
        by_cases hb : l ∈ a.bound
        · exact hb
        · exact absurd ⟨hp, hl, hb⟩ h
      obtain ⟨n, h1, h2, h3⟩ := fr.lab l hl
      have h1' : t.f.labelNodes[l]?.getD none = some n := by simpa [List.getD_eq_getElem?_getD] using h1
      have hv : t.f.labelValid l = true := by simp [Front.labelValid, fr.nLabels, hl]
      have hact : t.d.has n = true := by
        simp only [Doc.has, List.contains_iff_mem]; exact (fr.bound l n hl h1).mpr hb
      constructor
      · rw [spec_step_state]; simp [front, hp, hv, h1, h1', hact]
      · simp [astep, hp, hl, hb]
    · have hv : t.f.labelValid l = false := by simp [Front.labelValid, fr.nLabels, hl]
      constructor
      · rw [spec_step_state]; simp [front, hp, hv]
      · simp [astep, hp, hl]
  · have hp' : cpoolPre isz bytes = false := by simpa using hp
    constructor
    · rw [spec_step_state]; simp [front, hp']
    · simp [astep, hp']

/-! ### serialize_replays with embed_const_pool -/

/-- operations admitted by `serialize_replays`: emitter calls only (embed_const_pool included), and a `section` call never goes back to a
    section entered before -/
def Adm (a : ASt) : Op → Prop
  | .cpool _ _ _ => True
  | op => Adm0 a op

theorem J_steps3 (t : Spec.St) (a : ASt) (o1 o2 o3 : Op) (hJ : J t a)
    (h1 : ∀ a', Adm0 a' o1) (h2 : ∀ a', Adm0 a' o2) (h3 : ∀ a', Adm0 a' o3) :
    J (Spec.run t [o1, o2, o3]) (arun a [o1, o2, o3]) := by
  have j1 := J_step0 t a o1 hJ (h1 _)
  have j2 := J_step0 _ _ o2 j1 (h2 _)
  have j3 := J_step0 _ _ o3 j2 (h3 _)
  simpa [Spec.run, arun] using j3

theorem J_step (t : Spec.St) (a : ASt) (op : Op) (hJ : J t a) (hA : Adm a op) : J (Spec.step t op).1 (astep a op) := by
  cases op with
  | cpool l isz bytes =>
    by_cases hacc : cpoolPre isz bytes = true ∧ l < a.nLabels ∧ l ∉ a.bound
    · obtain ⟨e1, e2⟩ := cpool_accept t a l isz bytes hJ.fr (Nat.le_of_eq hJ.gap) hacc.1 hacc.2.1 hacc.2.2
      rw [e1, e2]
      exact J_steps3 t a _ _ _ hJ (fun _ => by simp [Adm0, isEdit]) (fun _ => by simp [Adm0, isEdit]) (fun _ => by simp [Adm0, isEdit])
    · obtain ⟨e1, e2⟩ := cpool_reject t a l isz bytes hJ.fr hacc
      rw [e1, e2]; exact hJ
  | newlabel => exact J_step0 t a _ hJ hA
  | newsection => exact J_step0 t a _ hJ hA
  | opts v => exact J_step0 t a _ hJ hA
  | extra x => exact J_step0 t a _ hJ hA
  | icomment x => exact J_step0 t a _ hJ hA
  | inst id l => exact J_step0 t a _ hJ hA
  | bind l => exact J_step0 t a _ hJ hA
  | align m n => exact J_step0 t a _ hJ hA
  | embed b => exact J_step0 t a _ hJ hA
  | data ty i r b => exact J_step0 t a _ hJ hA
  | elabel l s => exact J_step0 t a _ hJ hA
  | edelta l b s => exact J_step0 t a _ hJ hA
  | comment c => exact J_step0 t a _ hJ hA
  | «section» s => exact J_step0 t a _ hJ hA
  | gconst z b => exact J_step0 t a _ hJ hA
  | cursor n => exact J_step0 t a _ hJ hA
  | remove n => exact J_step0 t a _ hJ hA
  | removerange x y => exact J_step0 t a _ hJ hA
  | addnode n => exact J_step0 t a _ hJ hA
  | addafter n r => exact J_step0 t a _ hJ hA
  | addbefore n r => exact J_step0 t a _ hJ hA

/-- every operation of the sequence is admissible in the state it is issued in -/
def AdmAll : ASt → List Op → Prop
  | _, [] => True
  | a, op :: rest => Adm a op ∧ AdmAll (astep a op) rest

theorem J_run : ∀ (ops : List Op) (t : Spec.St) (a : ASt), J t a → AdmAll a ops → J (Spec.run t ops) (arun a ops) := by
  intro ops
  induction ops with
  | nil => intro t a h _; exact h
  | cons op rest ih =>
    intro t a h hadm
    have := ih _ _ (J_step t a op h hadm.1) hadm.2
    simpa [Spec.run, arun, List.foldl_cons] using this

/-! ### serialize_groups with embed_const_pool -/

theorem zip_gap_le (z : Zip) : z.gap ≤ z.items.length := by
  simp [Zip.gap, Zip.items, Region.flat]; omega

theorem G_step_all (t : Spec.St) (a : ASt) (z : Zip) (op : Op) (g : G t a z) (hed : isEdit op = false) :
    ∃ z', G (Spec.step t op).1 (astep a op) z' := by
  by_cases hcp : ∃ l y b, op = .cpool l y b
  · obtain ⟨l, isz, bytes, rfl⟩ := hcp
    by_cases hacc : cpoolPre isz bytes = true ∧ l < a.nLabels ∧ l ∉ a.bound
    · have hg : t.d.gap ≤ t.d.items.length := by rw [g.gap, g.items]; exact zip_gap_le z
      obtain ⟨e1, e2⟩ := cpool_accept t a l isz bytes g.fr hg hacc.1 hacc.2.1 hacc.2.2
      rw [e1, e2]
      obtain ⟨z1, g1⟩ := G_step t a z (.align 1 (if hexLen bytes = 0 then 0 else isz)) g (by simp [isEdit]) (by intro _ _ _ h; cases h)
      obtain ⟨z2, g2⟩ := G_step _ _ z1 (.bind l) g1 (by simp [isEdit]) (by intro _ _ _ h; cases h)
      obtain ⟨z3, g3⟩ := G_step _ _ z2 (.embed bytes) g2 (by simp [isEdit]) (by intro _ _ _ h; cases h)
      exact ⟨z3, by simpa [Spec.run, arun, cpoolSeq] using g3⟩
    · obtain ⟨e1, e2⟩ := cpool_reject t a l isz bytes g.fr hacc
      rw [e1, e2]; exact ⟨z, g⟩
  · exact G_step t a z op g hed (fun l y b e => hcp ⟨l, y, b, e⟩)

/-- emitter calls only (no node-list editing) -/
def CallsOnly (ops : List Op) : Prop := ∀ op ∈ ops, isEdit op = false

theorem G_run : ∀ (ops : List Op) (t : Spec.St) (a : ASt) (z : Zip), G t a z → CallsOnly ops →
    ∃ z', G (Spec.run t ops) (arun a ops) z' := by
  intro ops
  induction ops with
  | nil => intro t a z g _; exact ⟨z, g⟩
  | cons op rest ih =>
    intro t a z g h
    obtain ⟨z1, g1⟩ := G_step_all t a z op g (h op (by simp))
    obtain ⟨z2, g2⟩ := ih _ _ z1 g1 (fun o ho => h o (by simp [ho]))
    exact ⟨z2, by simpa [Spec.run, arun, List.foldl_cons] using g2⟩

end AsmjitVerif.Builder
