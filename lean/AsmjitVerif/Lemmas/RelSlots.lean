/-
The address table during `relocate_to_base`: slots are assigned once, never change, never collide; the slot of every
assigned entry holds the entry's address from the moment it is written to the end of the fold (C04, address-table form).
64-bit mode (`register_size = 8`: the only mode in which the assembler creates X64AddressEntry relocations).
-/
import AsmjitVerif.Lemmas.RelLoop
namespace AsmjitVerif.CodeHolder
open AsmjitVerif.Offset

theorem padTo_prefix (b : Bytes) (n q m : Nat) (h : q + m ≤ b.length) : loadLE (padTo b n) q m = loadLE b q m := by
  unfold padTo; exact loadLE_append_left _ _ _ _ h

theorem slotStore_spec (a v : Nat) (t : Section) :
    loadLE (slotStore a v t).buf a 8 = some (v % 256 ^ 8) ∧ (slotStore a v t).offset = t.offset ∧
    ∀ q, (q + 8 ≤ a ∨ a + 8 ≤ q) → q + 8 ≤ t.buf.length → loadLE (slotStore a v t).buf q 8 = loadLE t.buf q 8 := by
  have hpad : a + 8 ≤ (padTo t.buf (a + 8)).length := by unfold padTo; simp [zeros]; omega
  obtain ⟨b, hb⟩ := storeLE_isSome 8 (padTo t.buf (a + 8)) a v hpad
  unfold slotStore
  rw [hb]
  refine ⟨loadLE_storeLE _ _ _ _ _ hb, rfl, ?_⟩
  intro q hq hl
  show loadLE b q 8 = _
  rw [loadLE_storeLE_disjoint 8 _ a v 8 b q hb hq, padTo_prefix _ _ _ _ hl]

/-- the bookkeeping invariant of the address table while the entries are processed -/
structure SlotInv (ats : Nat) (acc : RelocAcc) : Prop where
  lt   : ∀ e ∈ acc.addrTab, ∀ k, e.slot = some k → k < acc.nSlots
  inj  : ∀ (i j : Nat) (ei ej : AddrEntry) (k : Nat), acc.addrTab[i]? = some ei → acc.addrTab[j]? = some ej →
           ei.slot = some k → ej.slot = some k → i = j
  cont : ∀ e ∈ acc.addrTab, ∀ k, e.slot = some k →
           ∃ t, acc.secs[ats]? = some t ∧ loadLE t.buf (k * 8) 8 = some e.addr.toNat

/-- assigned slots are never reassigned -/
def TabStable (a b : List AddrEntry) : Prop :=
  ∀ (i : Nat) (e : AddrEntry) (k : Nat), a[i]? = some e → e.slot = some k → b[i]? = some e

theorem TabStable.refl (a : List AddrEntry) : TabStable a a := fun _ _ _ h _ => h
theorem TabStable.trans {a b c : List AddrEntry} (h1 : TabStable a b) (h2 : TabStable b c) : TabStable a c :=
  fun i e k h hk => h2 i e k (h1 i e k h hk) hk

theorem addr_lt (a : BitVec 64) : a.toNat % 256 ^ 8 = a.toNat := by
  have : (256 : Nat) ^ 8 = 2 ^ 64 := by decide
  rw [this]; exact Nat.mod_eq_of_lt a.isLt

/-- one `assignSlot` + slot store keeps the invariant and leaves entry `ei` assigned, its slot holding its address -/
theorem slotInv_assign (ats : Nat) (acc : RelocAcc) (secs1 : List Section) (ei : Nat) (e : AddrEntry) (t0 : Section)
    (h : SlotInv ats acc) (he : acc.addrTab[ei]? = some e) (ht0 : acc.secs[ats]? = some t0)
    (hs1 : secs1[ats]? = some t0) :
    let trip := assignSlot acc ei
    SlotInv ats { secs := modifySec secs1 ats (slotStore (trip.2.2 * 8) e.addr.toNat), addrTab := trip.1, nSlots := trip.2.1 } ∧
    TabStable acc.addrTab trip.1 ∧
    trip.1[ei]? = some { addr := e.addr, slot := some trip.2.2 } := by
  intro trip
  have hget : (modifySec secs1 ats (slotStore (trip.2.2 * 8) e.addr.toNat))[ats]? = some (slotStore (trip.2.2 * 8) e.addr.toNat t0) :=
    modifySec_get_same _ _ _ _ hs1
  obtain ⟨hown, _, hother⟩ := slotStore_spec (trip.2.2 * 8) e.addr.toNat t0
  rw [addr_lt] at hown
  have heilt : ei < acc.addrTab.length := getElem?_lt he
  -- old assigned slots keep their content when a different slot is written
  have keep : ∀ (e' : AddrEntry) (k : Nat), e' ∈ acc.addrTab → e'.slot = some k → k ≠ trip.2.2 →
      ∃ t, (modifySec secs1 ats (slotStore (trip.2.2 * 8) e.addr.toNat))[ats]? = some t ∧ loadLE t.buf (k * 8) 8 = some e'.addr.toNat := by
    intro e' k hm hk hne
    obtain ⟨t, ht, hl⟩ := h.cont e' hm k hk
    rw [ht0] at ht; cases ht
    refine ⟨_, hget, ?_⟩
    rw [hother (k * 8) (by omega) (loadLE_some_le 8 _ _ _ (by decide) hl)]
    exact hl
  cases hsl : e.slot with
  | none =>
    have hee : e = { addr := e.addr, slot := none } := by cases e; simp_all
    have htrip : trip = (acc.addrTab.set ei { addr := e.addr, slot := some acc.nSlots }, acc.nSlots + 1, acc.nSlots) := by
      show assignSlot acc ei = _
      unfold assignSlot
      rw [he, hee]
    rw [htrip] at hget hown hother keep ⊢
    dsimp only at hget hown hother keep ⊢
    have hset : ∀ (j : Nat) (x : AddrEntry), (acc.addrTab.set ei { addr := e.addr, slot := some acc.nSlots })[j]? = some x →
        (j = ei ∧ x = { addr := e.addr, slot := some acc.nSlots }) ∨ (j ≠ ei ∧ acc.addrTab[j]? = some x) := by
      intro j x hx
      by_cases hj : ei = j
      · subst hj; rw [List.getElem?_set_self heilt] at hx; cases hx; exact .inl ⟨rfl, rfl⟩
      · rw [List.getElem?_set_ne hj] at hx; exact .inr ⟨Ne.symm hj, hx⟩
    refine ⟨⟨?_, ?_, ?_⟩, ?_, by rw [List.getElem?_set_self heilt]⟩
    · intro x hx k hk
      obtain ⟨j, hj⟩ := List.getElem?_of_mem hx
      rcases hset j x hj with ⟨_, rfl⟩ | ⟨_, hold⟩
      · simp only [Option.some.injEq] at hk
        show k < acc.nSlots + 1; omega
      · have := h.lt x (List.mem_of_getElem? hold) k hk
        show k < acc.nSlots + 1; omega
    · intro i j xi xj k hi hj hki hkj
      rcases hset i xi hi with ⟨rfl, rfl⟩ | ⟨hin, hio⟩ <;> rcases hset j xj hj with ⟨rfl, rfl⟩ | ⟨hjn, hjo⟩
      · rfl
      · simp only [Option.some.injEq] at hki; subst hki
        have := h.lt xj (List.mem_of_getElem? hjo) _ hkj; omega
      · simp only [Option.some.injEq] at hkj; subst hkj
        have := h.lt xi (List.mem_of_getElem? hio) _ hki; omega
      · exact h.inj i j xi xj k hio hjo hki hkj
    · intro x hx k hk
      obtain ⟨j, hj⟩ := List.getElem?_of_mem hx
      rcases hset j x hj with ⟨_, rfl⟩ | ⟨_, hold⟩
      · simp only [Option.some.injEq] at hk; subst hk
        exact ⟨_, hget, hown⟩
      · have hlt := h.lt x (List.mem_of_getElem? hold) k hk
        exact keep x k (List.mem_of_getElem? hold) hk (by omega)
    · intro i x k hi hk
      by_cases hie : ei = i
      · subst hie; rw [he] at hi; cases hi; rw [hsl] at hk; cases hk
      · rw [List.getElem?_set_ne hie]; exact hi
  | some k0 =>
    have hee : e = { addr := e.addr, slot := some k0 } := by cases e; simp_all
    have htrip : trip = (acc.addrTab, acc.nSlots, k0) := by
      show assignSlot acc ei = _
      unfold assignSlot
      rw [he, hee]
    rw [htrip] at hget hown hother keep ⊢
    dsimp only at hget hown hother keep ⊢
    refine ⟨⟨h.lt, h.inj, ?_⟩, TabStable.refl _, by rw [he]; exact congrArg some hee⟩
    intro x hx k hk
    by_cases hkk : k = k0
    · subst hkk
      obtain ⟨j, hj⟩ := List.getElem?_of_mem hx
      have : j = ei := h.inj j ei x e k hj he hk hsl
      subst this
      rw [he] at hj; cases hj
      exact ⟨_, hget, hown⟩
    · exact keep x k hx hk hkk

theorem relocFinish_secs (acc acc' : RelocAcc) (re : Reloc) (v : BitVec 64) (src : Section)
    (hsrc : acc.secs[re.srcSec]? = some src) (hok : relocFinish acc re v = .ok acc') :
    ∃ buf', acc' = { acc with secs := setBuf acc.secs re.srcSec buf' } ∧
      ∀ j, (j < re.srcOff + re.fmt.valueOffset ∨ re.srcOff + re.fmt.valueOffset + re.fmt.valueSize ≤ j) → buf'[j]? = src.buf[j]? := by
  unfold relocFinish at hok
  rw [hsrc] at hok
  simp only [Option.bind_some] at hok
  cases hw : writeOffset src.buf re.srcOff v re.fmt with
  | none => rw [hw] at hok; cases hok
  | some buf' =>
    rw [hw] at hok
    cases hok
    exact ⟨buf', rfl, (Offset.writeOffset_frame src.buf buf' re.srcOff v re.fmt hw).2.1⟩

/-- an entry routed through the address table, as the fold leaves it (offsets read in `secs0`): its address has a slot `k`,
the instruction is `FF /2` or `FF /4`, and the rel32 reaches the slot -/
def TableOwn (ats : Nat) (secs0 : List Section) (acc : RelocAcc) (re : Reloc) : Prop :=
  ∃ (i k : Nat) (nb : BitVec 8) (sec1 : Section),
    acc.addrTab[i]? = some { addr := re.payload, slot := some k } ∧
    (nb = 0x15#8 ∨ nb = 0x25#8) ∧
    acc.secs[re.srcSec]? = some sec1 ∧ sec1.buf[re.srcOff + re.fmt.valueOffset - 2]? = some 0xFF#8 ∧
    sec1.buf[re.srcOff + re.fmt.valueOffset - 1]? = some nb ∧
    isInt32 (secOffset secs0 ats + BitVec.ofNat 64 (k * 8) -
      (secOffset secs0 re.srcSec + BitVec.ofNat 64 re.srcOff + BitVec.ofNat 64 re.regionSize)) = true ∧
    RDecodes acc.secs re.rgn (secOffset secs0 ats + BitVec.ofNat 64 (k * 8) -
      (secOffset secs0 re.srcSec + BitVec.ofNat 64 re.srcOff + BitVec.ofNat 64 re.regionSize))

theorem slotInv_same {ats : Nat} {a b : RelocAcc} (h : SlotInv ats a) (ht : b.addrTab = a.addrTab) (hn : b.nSlots = a.nSlots)
    (hs : b.secs[ats]? = a.secs[ats]?) : SlotInv ats b := by
  refine ⟨?_, ?_, ?_⟩
  · rw [ht, hn]; exact h.lt
  · rw [ht]; exact h.inj
  · rw [ht, hs]; exact h.cont

theorem relocStep_slots (s : State) (B : BitVec 64) (ats : Nat) (acc acc' : RelocAcc) (re : Reloc)
    (hin : RInB acc.secs re.rgn) (hz : RZero acc.secs re.rgn) (hat : s.addrTabSec ≠ some re.srcSec)
    (h8 : s.arch.regSize = 8) (hats : s.addrTabSec = some ats) (ht0 : ∃ t0, acc.secs[ats]? = some t0)
    (hS : SlotInv ats acc) (hok : relocStep s B acc re = .ok acc') :
    SlotInv ats acc' ∧ TabStable acc.addrTab acc'.addrTab ∧ (∃ t, acc'.secs[ats]? = some t) ∧
    (re.type = .x64AddressEntry → relocValue s B acc.secs re = none → TableOwn ats acc.secs acc' re) := by
  have hne : ats ≠ re.srcSec := fun e => hat (by rw [hats, e])
  obtain ⟨t0, ht0⟩ := ht0
  unfold relocStep at hok
  by_cases hn : re.type = .none
  · simp only [hn, if_true] at hok
    cases hok
    exact ⟨hS, TabStable.refl _, ⟨t0, ht0⟩, fun h => by rw [hn] at h; cases h⟩
  · simp only [hn, if_false] at hok
    obtain ⟨src, hsrc, hb1, hb2, hpos, hfmt, htab⟩ := hin
    replace hsrc : acc.secs[re.srcSec]? = some src := hsrc
    rw [hsrc] at hok
    dsimp only at hok
    split at hok
    · cases hok
    · cases hp : relocPrep s B acc re src with
      | error e => rw [hp] at hok; cases hok
      | ok pr =>
        obtain ⟨acc1, v⟩ := pr
        rw [hp] at hok
        dsimp only at hok
        have hin0 : RInB acc.secs re.rgn := ⟨src, hsrc, hb1, hb2, hpos, hfmt, htab⟩
        obtain ⟨T1, hfld, hcase⟩ := relocPrep_spec s B acc acc1 re src v hsrc hin0 hat hp
        have hso := relocValue_src s B acc.secs re src hsrc
        rcases hcase with ⟨he, hv⟩ | ⟨hty, hvn, ats', slot, nb, hats', hi, hveq, hnb, ⟨sec1, hs1, hb_2, hb_1⟩, _, ei, buf1, hfi, hslot, htab1, hns1, hsecs1⟩
        · -- simple entry: the table is not involved
          subst he
          obtain ⟨buf', hacc', _⟩ := relocFinish_secs acc1 acc' re v src hsrc hok
          have hsame : acc'.secs[ats]? = acc1.secs[ats]? := by
            rw [hacc']; unfold setBuf; exact modifySec_get_ne _ _ _ _ (Ne.symm hne)
          refine ⟨slotInv_same hS (by rw [hacc']) (by rw [hacc']) hsame, by rw [hacc']; exact TabStable.refl _,
            ⟨t0, by rw [hsame]; exact ht0⟩, fun _ hvn => by rw [hv] at hvn; cases hvn⟩
        · -- address-table form
          have : ats' = ats := by rw [hats] at hats'; exact (Option.some.inj hats').symm
          subst this
          rw [h8] at hveq hsecs1
          obtain ⟨heilt, hpe, _⟩ := List.findIdx?_eq_some_iff_getElem.mp hfi
          have hee : acc.addrTab[ei]? = some (acc.addrTab[ei]) := by simp [heilt]
          have haddr : (acc.addrTab[ei]).addr = re.payload := by simpa using hpe
          have hs1' : (setBuf acc.secs re.srcSec buf1)[ats']? = some t0 := by
            unfold setBuf; rw [modifySec_get_ne _ _ _ _ (Ne.symm hne)]; exact ht0
          obtain ⟨hS1, hstab, hent⟩ := slotInv_assign ats' acc (setBuf acc.secs re.srcSec buf1) ei (acc.addrTab[ei]) t0 hS hee ht0 hs1'
          rw [haddr, ← hslot] at hS1 hent
          -- acc1 is exactly that record
          have hacc1 : acc1 = RelocAcc.mk (modifySec (setBuf acc.secs re.srcSec buf1) ats' (slotStore (slot * 8) re.payload.toNat))
              (assignSlot acc ei).1 (assignSlot acc ei).2.1 := by
            cases acc1; simp only [RelocAcc.mk.injEq]; exact ⟨hsecs1, htab1, hns1⟩
          rw [← hacc1] at hS1
          obtain ⟨buf', hacc', hbytes⟩ := relocFinish_secs acc1 acc' re v sec1 hs1 hok
          have hsame : acc'.secs[ats']? = acc1.secs[ats']? := by
            rw [hacc']; unfold setBuf; exact modifySec_get_ne _ _ _ _ (Ne.symm hne)
          have ht1 : ∃ t, acc1.secs[ats']? = some t := by
            rw [hsecs1]; exact ⟨_, modifySec_get_same _ _ _ _ hs1'⟩
          -- the value word after the final write
          have hin1 : RInB acc1.secs re.rgn := by
            obtain ⟨s1, e1, _, k1⟩ := T1.2 _ src hsrc
            obtain ⟨hl, _⟩ := k1 hat
            exact ⟨s1, e1, by rw [hl]; exact hb1, hb2, hpos, hfmt, htab⟩
          have hz1 : RZero acc1.secs re.rgn := by
            obtain ⟨old, ho, hc⟩ := hz
            exact ⟨old, by rw [hfld]; exact ho, hc⟩
          obtain ⟨_, _, _, hown⟩ := relocFinish_spec acc1 acc' re v s.addrTabSec hin1 hok
          refine ⟨slotInv_same hS1 (by rw [hacc']) (by rw [hacc']) hsame,
            by rw [hacc']; show TabStable acc.addrTab acc1.addrTab; rw [htab1]; exact hstab,
            by obtain ⟨t, ht⟩ := ht1; exact ⟨t, by rw [hsame]; exact ht⟩, fun _ _ => ?_⟩
          have hvo2 : 2 ≤ re.fmt.valueOffset := htab hty
          have hget' : acc'.secs[re.srcSec]? = some { sec1 with buf := buf' } := by
            rw [hacc']; unfold setBuf; exact modifySec_get_same _ _ _ _ hs1
          refine ⟨ei, slot, nb, { sec1 with buf := buf' }, ?_, hnb, hget', ?_, ?_, ?_, ?_⟩
          · rw [hacc']; show acc1.addrTab[ei]? = _; rw [htab1]; exact hent
          · show buf'[_]? = _; rw [hbytes _ (by omega)]; exact hb_2
          · show buf'[_]? = _; rw [hbytes _ (by omega)]; exact hb_1
          · rw [hso, ← hveq]; exact hi
          · rw [hso, ← hveq]; exact hown hz1

/-- a single byte as a reference-like region (to reuse the fold's frame property) -/
def byteRef (sec j : Nat) : GRef :=
  { sec := sec, offset := j, rel := 0#64, fmt := { simpleValue .unsigned 1 with valueOffset := 0 }, label := 0 }

theorem byte_of_field {a b : List Section} {sec j : Nat} {sa sb : Section} {x : BitVec 8}
    (ha : a[sec]? = some sa) (hb : b[sec]? = some sb) (hx : sa.buf[j]? = some x)
    (h : field b (byteRef sec j) = field a (byteRef sec j)) : sb.buf[j]? = some x := by
  unfold field byteRef at h
  simp only [ha, hb, Option.bind_some, simpleValue, loadLE, hx] at h
  cases hy : sb.buf[j]? with
  | none => rw [hy] at h; simp at h
  | some y =>
    rw [hy] at h
    simp only [Nat.mul_zero, Nat.add_zero, Option.some.injEq] at h
    exact congrArg some (BitVec.eq_of_toNat_eq h)

theorem tableOwn_offs {ats : Nat} {a b : List Section} {acc : RelocAcc} {re : Reloc} (h : ∀ j, secOffset b j = secOffset a j)
    (ht : TableOwn ats b acc re) : TableOwn ats a acc re := by
  obtain ⟨i, k, nb, sec1, h1, h2, h3, h4, h5, h6, h7⟩ := ht
  exact ⟨i, k, nb, sec1, h1, h2, h3, h4, h5, by rw [← h ats, ← h re.srcSec]; exact h6, by rw [← h ats, ← h re.srcSec]; exact h7⟩

theorem relocLoop_slots (s : State) (B : BitVec 64) (ats : Nat) (h8 : s.arch.regSize = 8) (hats : s.addrTabSec = some ats) :
    ∀ (rs : List Reloc) (acc accF : RelocAcc),
    (rs.map Reloc.rgn).Pairwise DRR →
    (∀ re ∈ rs, RInB acc.secs re.rgn ∧ RZero acc.secs re.rgn ∧ s.addrTabSec ≠ some re.srcSec) →
    (∃ t0, acc.secs[ats]? = some t0) → SlotInv ats acc →
    relocLoop s B rs acc = (accF, .ok) →
    SlotInv ats accF ∧ TabStable acc.addrTab accF.addrTab ∧
    (∀ re ∈ rs, re.type = .x64AddressEntry → relocValue s B acc.secs re = none → TableOwn ats acc.secs accF re) := by
  intro rs
  induction rs with
  | nil =>
    intro acc accF _ _ _ hS hok
    simp only [relocLoop, Prod.mk.injEq] at hok
    obtain ⟨e, _⟩ := hok; subst e
    exact ⟨hS, TabStable.refl _, fun _ h => by cases h⟩
  | cons re rest ih =>
    intro acc accF hpw hall ht0 hS hok
    simp only [List.map_cons, List.pairwise_cons] at hpw
    obtain ⟨h0in, h0z, h0at⟩ := hall re List.mem_cons_self
    simp only [relocLoop] at hok
    cases hst : relocStep s B acc re with
    | error e =>
      rw [hst] at hok
      dsimp only at hok
      have := (Prod.mk.inj hok).2
      subst this
      exact absurd hst (relocStep_ne _ _ _ _)
    | ok acc1 =>
      rw [hst] at hok
      dsimp only at hok
      obtain ⟨T, _⟩ := relocStep_spec s B acc acc1 re h0in h0z h0at hst
      obtain ⟨hS1, hstab1, ht1, hown1⟩ := relocStep_slots s B ats acc acc1 re h0in h0z h0at h8 hats ht0 hS hst
      have hoffs1 : ∀ j : Nat, (acc1.secs[j]?).map Section.offset = (acc.secs[j]?).map Section.offset := getOffset_touch T
      have hso := secOffset_of_map hoffs1
      have hall1 : ∀ r ∈ rest, RInB acc1.secs r.rgn ∧ RZero acc1.secs r.rgn ∧ s.addrTabSec ≠ some r.srcSec := by
        intro r hr
        obtain ⟨ri, rz, rat⟩ := hall r (List.mem_cons_of_mem _ hr)
        have hd : DRR re.rgn r.rgn := hpw.1 r.rgn (List.mem_map_of_mem hr)
        have hfl := field_touch T r.rgn.val rat (DRG_val_of_DRR ri hd) ri.val
        obtain ⟨old, ho, hc⟩ := rz
        exact ⟨rinb_touch T rat ri, ⟨old, by rw [hfl.1]; exact ho, hc⟩, rat⟩
      obtain ⟨hSF, hstabF, hownF⟩ := ih acc1 accF hpw.2 hall1 ht1 hS1 hok
      obtain ⟨_, hframeF, _⟩ := relocLoop_spec s B rest acc1 accF hpw.2 hall1 hok
      refine ⟨hSF, hstab1.trans hstabF, ?_⟩
      intro r hr hty hvn
      simp only [List.mem_cons] at hr
      rcases hr with rfl | hr
      · -- the first entry: everything it owns is outside the later regions
        obtain ⟨i, k, nb, sec1, e1, e2, e3, e4, e5, e6, e7⟩ := hown1 hty hvn
        obtain ⟨src, hsrc, hb1, hb2, hpos, hfmt, htab⟩ := h0in
        have hvo2 : 2 ≤ r.fmt.valueOffset := htab hty
        have hlen1 : sec1.buf.length = src.buf.length := by
          obtain ⟨s1, x1, _, k1⟩ := T.2 _ src hsrc
          have : acc1.secs[r.rgn.sec]? = some sec1 := e3
          rw [this] at x1; cases x1
          exact (k1 h0at).1
        have hdisj : ∀ r' ∈ rest, DRR r.rgn r'.rgn := fun r' hr' => hpw.1 r'.rgn (List.mem_map_of_mem hr')
        have hbyte : ∀ j, r.srcOff ≤ j → j < r.srcOff + r.regionSize → ∀ x, sec1.buf[j]? = some x →
            ∃ sF, accF.secs[r.srcSec]? = some sF ∧ sF.buf[j]? = some x := by
          intro j hj1 hj2 x hx
          have hinb : InB acc1.secs (byteRef r.srcSec j) := ⟨sec1, e3, by
            show j + 1 ≤ sec1.buf.length
            have : r.srcOff + r.regionSize ≤ src.buf.length := hb1
            omega⟩
          obtain ⟨hf, ⟨sF, hsF, _⟩⟩ := hframeF (byteRef r.srcSec j) h0at hinb (fun r' hr' => by
            have := hdisj r' hr'
            unfold DRR at this; unfold DRG
            show r'.srcSec ≠ r.srcSec ∨ r'.srcOff + r'.regionSize ≤ j ∨ j + 1 ≤ r'.srcOff
            have a1 : r.rgn.sec = r.srcSec := rfl
            have a2 : r.rgn.off = r.srcOff := rfl
            have a3 : r.rgn.size = r.regionSize := rfl
            have b1 : r'.rgn.sec = r'.srcSec := rfl
            have b2 : r'.rgn.off = r'.srcOff := rfl
            have b3 : r'.rgn.size = r'.regionSize := rfl
            omega)
          exact ⟨sF, hsF, byte_of_field e3 hsF hx hf⟩
        have hval := hframeF r.rgn.val h0at (rinb_touch T h0at ⟨src, hsrc, hb1, hb2, hpos, hfmt, htab⟩).val
          (fun r' hr' => DRG_val_of_DRR ⟨src, hsrc, hb1, hb2, hpos, hfmt, htab⟩ (by
            have := hdisj r' hr'; unfold DRR at *; omega))
        have hvs : r.fmt.valueOffset + r.fmt.valueSize ≤ r.regionSize := hb2
        have hp : 0 < r.fmt.valueSize := hpos
        obtain ⟨sF, hsF, hbF2⟩ := hbyte (r.srcOff + r.fmt.valueOffset - 2) (by omega) (by omega) _ e4
        obtain ⟨sF', hsF', hbF1⟩ := hbyte (r.srcOff + r.fmt.valueOffset - 1) (by omega) (by omega) _ e5
        rw [hsF] at hsF'; cases hsF'
        obtain ⟨new, hn, hd⟩ := e7
        exact ⟨i, k, nb, sF, hstabF i _ k e1 rfl, e2, hsF, hbF2, hbF1, e6, ⟨new, by rw [hval.1]; exact hn, hd⟩⟩
      · exact tableOwn_offs hso (hownF r hr hty (by rw [relocValue_offs s B r hoffs1]; exact hvn))

theorem loadLE_take_pad (b : Bytes) (n q m : Nat) (h1 : q + m ≤ n) (h2 : q + m ≤ b.length) :
    loadLE ((padTo b n).take n) q m = loadLE b q m := by
  apply loadLE_congr
  intro j _ hj
  unfold padTo
  rw [List.getElem?_take_of_lt (by omega), List.getElem?_append_left (by omega)]

/-- **address-table form, whole call.** 64-bit mode, address table section present, no slot assigned before the call
(the state every assembled program is in: `add_address_to_address_table` creates entries without a slot).  After a
successful `relocate_to_base(B)`, every X64AddressEntry whose target is out of rel32 reach: the instruction is `FF /2` or
`FF /4`, its rel32 reaches slot `k` of the address table, and slot `k` - inside the table's final buffer - holds the target. -/
theorem relocate_table_spec (s : State) (hr : RInv s) (B : BitVec 64) (s' : State) (n : Nat) (ats : Nat)
    (h8 : s.arch.regSize = 8) (hats : s.addrTabSec = some ats) (hin : ∃ t0, s.secs[ats]? = some t0)
    (hnone : ∀ e ∈ s.addrTab, e.slot = none)
    (h : relocate s B = (s', .ok, n)) :
    ∀ re ∈ s.relocs, re.type = .x64AddressEntry → relocValue { s with base := B } B s.secs re = none →
      ∃ (k : Nat) (nb : BitVec 8) (secF tF : Section),
        (nb = 0x15#8 ∨ nb = 0x25#8) ∧
        s'.secs[re.srcSec]? = some secF ∧ secF.buf[re.srcOff + re.fmt.valueOffset - 2]? = some 0xFF#8 ∧
        secF.buf[re.srcOff + re.fmt.valueOffset - 1]? = some nb ∧
        isInt32 (secOffset s.secs ats + BitVec.ofNat 64 (k * 8) -
          (secOffset s.secs re.srcSec + BitVec.ofNat 64 re.srcOff + BitVec.ofNat 64 re.regionSize)) = true ∧
        RDecodes s'.secs re.rgn (secOffset s.secs ats + BitVec.ofNat 64 (k * 8) -
          (secOffset s.secs re.srcSec + BitVec.ofNat 64 re.srcOff + BitVec.ofNat 64 re.regionSize)) ∧
        s'.secs[ats]? = some tF ∧ k * 8 + 8 ≤ tF.buf.length ∧ loadLE tF.buf (k * 8) 8 = some re.payload.toNat := by
  unfold relocate at h
  by_cases hB : B = noBase
  · simp only [hB, if_true] at h; cases h
  · simp only [hB, if_false] at h
    try dsimp only at h
    cases hl : relocLoop { s with base := B } B s.relocs { secs := s.secs, addrTab := s.addrTab, nSlots := 0 } with
    | mk acc e =>
      rw [hl] at h
      cases e
      case ok =>
        dsimp only at h
        rw [hats] at h
        dsimp only at h
        cases h
        have hpre : ∀ re ∈ s.relocs, RInB s.secs re.rgn ∧ RZero s.secs re.rgn ∧ s.addrTabSec ≠ some re.srcSec := by
          intro re hre
          have hm : re.rgn ∈ s.relocs.map Reloc.rgn := List.mem_map_of_mem hre
          exact ⟨hr.inb _ hm, hr.zero _ hm, hr.notab.1 _ hm⟩
        have hS0 : SlotInv ats ({ secs := s.secs, addrTab := s.addrTab, nSlots := 0 } : RelocAcc) :=
          ⟨(fun e he k hk => by rw [hnone e he] at hk; cases hk),
           (fun i j ei ej k hi _ hki _ => by rw [hnone ei (List.mem_of_getElem? hi)] at hki; cases hki),
           (fun e he k hk => by rw [hnone e he] at hk; cases hk)⟩
        obtain ⟨hSF, _, hown⟩ := relocLoop_slots { s with base := B } B ats h8 hats s.relocs
          { secs := s.secs, addrTab := s.addrTab, nSlots := 0 } acc hr.disj hpre hin hS0 hl
        intro re hre hty hvn
        obtain ⟨i, k, nb, sec1, e1, e2, e3, e4, e5, e6, e7⟩ := hown re hre hty hvn
        have hne : ats ≠ re.srcSec := fun e => (hpre re hre).2.2 (by rw [hats, e])
        obtain ⟨t, ht, hl8⟩ := hSF.cont _ (List.mem_of_getElem? e1) k rfl
        have hk : k < acc.nSlots := hSF.lt _ (List.mem_of_getElem? e1) k rfl
        have hlen := loadLE_some_le 8 _ _ _ (by decide) hl8
        refine ⟨k, nb, sec1, _, e2, ?_, e4, e5, e6, ?_, modifySec_get_same _ _ _ _ ht, ?_, ?_⟩
        · show (modifySec acc.secs ats _)[re.srcSec]? = _
          rw [modifySec_get_ne _ _ _ _ hne]; exact e3
        · obtain ⟨new, hn, hd⟩ := e7
          refine ⟨new, ?_, hd⟩
          unfold field
          show ((modifySec acc.secs ats _)[re.srcSec]?).bind _ = _
          rw [modifySec_get_ne _ _ _ _ hne]
          exact hn
        · show k * 8 + 8 ≤ ((padTo t.buf (acc.nSlots * s.arch.regSize)).take (acc.nSlots * s.arch.regSize)).length
          rw [h8, List.length_take]
          unfold padTo
          simp only [List.length_append, zeros, List.length_replicate]
          omega
        · show loadLE ((padTo t.buf (acc.nSlots * s.arch.regSize)).take (acc.nSlots * s.arch.regSize)) (k * 8) 8 = _
          rw [h8, loadLE_take_pad _ _ _ _ (by omega) hlen]
          exact hl8
      all_goals (try dsimp only at h; cases h)

end AsmjitVerif.CodeHolder
