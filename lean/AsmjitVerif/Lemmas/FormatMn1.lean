/- C20 helper lemma (table slice 1 of 8, kept apart so that each file compiles in well under a minute):
   no mnemonic can be mistaken for a head word, and mnemonics contain no blank. -/
import AsmjitVerif.Spec.FormatText

namespace AsmjitVerif.Lemmas.FormatMn
open AsmjitVerif.Format AsmjitVerif.FormatText AsmjitVerif.Gen.FormatTabs

set_option maxRecDepth 1000000

theorem mn_ok_1 : ∀ n ∈ ((x86InstNames.toList.drop 0).take 412), isHeadWord n.toList = false ∧ ∀ c ∈ n.toList, notSpace c = true := by
  decide +kernel

end AsmjitVerif.Lemmas.FormatMn
