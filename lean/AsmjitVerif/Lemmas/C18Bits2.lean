/-
C18 — `ArenaBitSet`, rounds 2/3: the reallocating branches of `_resize`, `_append`, `copy_from`, then `release`
and a whole-sequence refinement theorem (`bitset_refines_bools`), for EVERY call and EVERY arena state.

The arena is treated as an oracle: the only facts used about `Arena.allocReusable` are its result shape
(`allocReusable_shape`: a slot size, or exactly the request) and `Vector.allocReusable_spec`
(`request ≤ allocated`).  The model follows the repaired code (fixes/C18-8.patch): the capacity is clamped to
`0xFFFFFFC0` and sizes above it are refused, so no hypothesis on the allocator or on the requested size is needed.
-/
import AsmjitVerif.Lemmas.C18Bits
import AsmjitVerif.Lemmas.C18Vector
import AsmjitVerif.Lemmas.C18Arena
namespace AsmjitVerif.Bits
open AsmjitVerif.Bits.Spec
open AsmjitVerif.Arena

/-! ### the allocator as an oracle -/

/-- shape of a successful `_alloc_reusable`: a size class, or exactly the request (dynamic block) -/
theorem allocReusable_shape {a a' : Arena.State} {size allocated : Nat} {p : Loc}
    (h : allocReusable a size = (a', some p, allocated)) :
    (slotIndex size < 8 ∧ allocated = slotSize (slotIndex size)) ∨
    (allocated = size ∧ size + 24 ≤ a.mallocMax) := by
  simp only [allocReusable] at h
  split at h
  · rename_i hi
    refine Or.inl ⟨hi, ?_⟩
    split at h
    · injection h with _ h; injection h with _ h; exact h.symm
    · split at h
      · injection h with _ h; injection h with _ h; exact h.symm
      · split at h
        · injection h with _ h; injection h with _ h; exact h.symm
        · injection h with _ h; injection h with h _; cases h
  · refine Or.inr ?_
    split at h
    · injection h with _ h; injection h with h _; cases h
    · split at h
      · injection h with _ h; injection h with h _; cases h
      · rename_i h1 h2
        injection h with _ h; injection h with _ h
        exact ⟨h.symm, by omega⟩

/-- what `_resize` / `copy_from` need from a successful allocation of `minCap / 8` bytes -/
theorem allocReusable_bits {a a' : Arena.State} {minCap allocated : Nat} {p : Loc}
    (h : allocReusable a (minCap / 8) = (a', some p, allocated))
    (h64 : minCap % 64 = 0) (hpos : 0 < minCap) (hle : minCap ≤ u64) :
    allocated % 8 = 0 ∧ minCap ≤ allocated * 8 := by
  have hs := Vector.allocReusable_spec h (by omega) (by unfold u64 at *; omega)
  rcases allocReusable_shape h with ⟨hi, he⟩ | ⟨he, _⟩
  · obtain ⟨_, h16, _, _⟩ := slot_facts _ hi
    rw [← he] at h16
    exact ⟨by omega, by omega⟩
  · exact ⟨by omega, by omega⟩

/-! ### `realloc`

`Model/Bits.lean` defines `realloc a b m k := reallocWith (allocReusable a (m / 8)) b k` precisely so that proofs can
unfold it without making the kernel evaluate the allocator (a `match allocReusable …` in the body of `realloc` made
the kernel normalise `slotIndex`'s `(size + 2^64 - 1) % 2^64` on an open term: "deep recursion"). -/

theorem realloc_unfolds (a : Arena.State) (b : BitSet) (m k : Nat) :
    realloc a b m k = reallocWith (allocReusable a (m / 8)) b k := rfl

/-- `realloc`: failure leaves only a new arena state; success gives a zero-extended copy of the first `keep` words
in a block of `nWords` words, with capacity `cap` (clamped to `0xFFFFFFC0`): `min minCap 0xFFFFFFC0 ≤ cap ≤ 64 * nWords`,
`cap` a multiple of 64 -/
theorem realloc_spec (a : Arena.State) (b : BitSet) (minCap keep : Nat)
    (h64 : minCap % 64 = 0) (hpos : 0 < minCap) (hle : minCap ≤ u64) :
    (∃ a1, realloc a b minCap keep = (a1, none)) ∨
    (∃ a2 p nWords cap, realloc a b minCap keep =
        (a2, some (p, b.words.take keep ++ List.replicate (nWords - keep) 0#64, cap)) ∧
      min minCap 0xFFFFFFC0 ≤ cap ∧ cap % 64 = 0 ∧ cap ≤ 0xFFFFFFC0 ∧ cap ≤ nWords * 64) := by
  rw [realloc_unfolds]
  generalize hr : allocReusable a (minCap / 8) = r
  obtain ⟨a1, o, allocated⟩ := r
  cases o with
  | none => exact Or.inl ⟨a1, by simp only [reallocWith]⟩
  | some p =>
    obtain ⟨h8, hge⟩ := allocReusable_bits hr h64 hpos hle
    cases hd : b.data with
    | none =>
      refine Or.inr ⟨a1, p, allocated / 8, min (allocated * 8) 0xFFFFFFC0, ?_, by omega, by omega, by omega, by omega⟩
      simp only [reallocWith, hd]
    | some old =>
      refine Or.inr ⟨freeReusable a1 old (b.cap / 8), p, allocated / 8, min (allocated * 8) 0xFFFFFFC0, ?_,
        by omega, by omega, by omega, by omega⟩
      simp only [reallocWith, hd]

example : (realloc (Arena.init 1024 0) { words := [0x5#64], size := 3, cap := 64 } 128 1).2
    = some (.managed 0 0, [0x5#64, 0#64], 128) := by decide

/-! ### `_resize`: the reallocating branch -/

theorem alignUp64_mod (x : Nat) : (alignUp x 64 % u64) % 64 = 0 := by
  unfold alignUp u64; omega

/-- a size that is not representable (`> 0xFFFFFFC0`): `kOutOfMemory`, nothing changes -/
theorem resizeI_oom_big (a : Arena.State) (b : BitSet) (n ideal : Nat) (v : Bool)
    (h1 : ¬ n ≤ b.size) (hbig : n > 0xFFFFFFC0) :
    resizeI a b n ideal v = some (a, b, Err.oom) := by
  unfold resizeI
  simp only [h1, hbig, if_true, if_false]

/-- wrapped ideal capacity: `kOutOfMemory`, nothing changes -/
theorem resizeI_oom_wrap (a : Arena.State) (b : BitSet) (n ideal : Nat) (v : Bool)
    (h1 : ¬ n ≤ b.size) (hbig : ¬ n > 0xFFFFFFC0) (h2 : n > b.cap) (h3 : alignUp ideal 64 % u64 < n) :
    resizeI a b n ideal v = some (a, b, Err.oom) := by
  unfold resizeI
  simp only [h1, hbig, h2, h3, if_true, if_false]

/-- allocator failure: `kOutOfMemory`, the bit set is unchanged, the arena is the allocator's -/
theorem resizeI_oom_alloc (a a1 : Arena.State) (b : BitSet) (n ideal : Nat) (v : Bool)
    (h1 : ¬ n ≤ b.size) (hbig : ¬ n > 0xFFFFFFC0) (h2 : n > b.cap) (h3 : ¬ alignUp ideal 64 % u64 < n)
    (hre : realloc a b (alignUp ideal 64 % u64) (wordsPerBits b.size) = (a1, none)) :
    resizeI a b n ideal v = some (a1, b, Err.oom) := by
  unfold resizeI
  simp only [h1, hbig, h2, h3, hre, if_true, if_false]

/-- successful reallocation: `_resize` continues exactly like a `_resize` of the moved bit set -/
theorem resizeI_moved (a a2 : Arena.State) (b : BitSet) (n ideal : Nat) (v : Bool) (p : Loc) (nw : Words) (cap : Nat)
    (h1 : ¬ n ≤ b.size) (hbig : ¬ n > 0xFFFFFFC0) (h2 : n > b.cap) (h3 : ¬ alignUp ideal 64 % u64 < n)
    (hre : realloc a b (alignUp ideal 64 % u64) (wordsPerBits b.size) = (a2, some (p, nw, cap)))
    (h4 : ¬ n > cap) :
    resizeI a b n ideal v = resizeI a2 { b with data := some p, words := nw, cap := cap } n ideal v := by
  unfold resizeI
  simp only [h1, hbig, h2, h3, h4, hre, if_true, if_false]

/-- the invariant carried through operation sequences: `WF`, the capacity is a multiple of 64 that fits the
`uint32_t` field (`≤ 0xFFFFFFC0`), and "no block ⇒ no capacity" -/
structure Inv (b : BitSet) : Prop where
  wf : WF b
  cap32 : b.cap ≤ 0xFFFFFFC0
  cap64 : b.cap % 64 = 0
  nodata : b.data = none → b.cap = 0

theorem inv_empty : Inv {} :=
  ⟨⟨Nat.le_refl _, Nat.le_refl _, fun j _ h => by simp [wordsPerBits] at h⟩, by decide, by decide, fun _ => rfl⟩

/-- same capacity and block, still `WF` ⇒ still `Inv` -/
theorem Inv.of_same {b b' : BitSet} (hI : Inv b) (hwf : WF b') (hc : b'.cap = b.cap) (hd : b'.data = b.data) :
    Inv b' :=
  ⟨hwf, by rw [hc]; exact hI.cap32, by rw [hc]; exact hI.cap64, by rw [hc, hd]; exact hI.nodata⟩

/-- the bit set after a successful `realloc` that kept the used words: same bits, still well formed -/
theorem moved_wf (b : BitSet) (hwf : WF b) (p : Loc) (nWords cap : Nat) (hcw : cap ≤ nWords * 64)
    (hsz : b.size ≤ cap) :
    WF { b with data := some p,
                words := b.words.take (wordsPerBits b.size) ++
                  List.replicate (nWords - wordsPerBits b.size) 0#64, cap := cap } ∧
    bits { b with data := some p,
                  words := b.words.take (wordsPerBits b.size) ++
                    List.replicate (nWords - wordsPerBits b.size) 0#64, cap := cap } = bits b := by
  have hwp := wordsPerBits_bounds b.size
  have hl := hwf.words_len
  have hpt : ∀ j, j < 64 * wordsPerBits b.size →
      bitAt (b.words.take (wordsPerBits b.size) ++ List.replicate (nWords - wordsPerBits b.size) 0#64) j
        = bitAt b.words j := by
    intro j hj
    rw [bitAt_append, List.length_take, Nat.min_eq_left hl, if_pos hj, bitAt_take, if_pos hj]
  refine ⟨⟨?_, hsz, ?_⟩, ?_⟩
  · simp only [List.length_append, List.length_take, List.length_replicate]; omega
  · intro j hj1 hj2
    simp only at hj1 hj2 ⊢
    rw [hpt j hj2]; exact hwf.tail_zero j hj1 hj2
  · unfold bits
    apply bitsList_eq
    · simp [bitsList_length]
    · intro j hj
      simp only [bitsList_length] at hj
      rw [bitsList_getElem]
      exact (hpt j (by omega)).symm

/-- **`_resize`, every call, every arena.**  Never `none`.  Either `kOk`: invariant kept, `size = n`,
bits = `take n` then `n - size` copies of `v` (and inside the capacity neither the arena nor the capacity change);
or `kOutOfMemory` (only when `n` exceeds the capacity; always when `n > 0xFFFFFFC0` and `n > size`): the bit set is
returned unchanged. -/
theorem resizeI_full (a : Arena.State) (b : BitSet) (n ideal : Nat) (v : Bool) (hI : Inv b) :
    ∃ a' b' e, resizeI a b n ideal v = some (a', b', e) ∧
      ((e = Err.ok ∧ Inv b' ∧ b'.size = n ∧
          bits b' = (bits b).take n ++ List.replicate (n - b.size) v ∧ (n ≤ b.cap → a' = a ∧ b'.cap = b.cap)) ∨
       (e = Err.oom ∧ b' = b ∧ b.cap < n)) := by
  have hwf := hI.wf
  have hc32 := hI.cap32
  by_cases hc : n ≤ b.cap
  · obtain ⟨b', h1, h2, h3, h4, h5, h6⟩ := resizeI_spec_partial a b n ideal v hwf hc (by omega)
    exact ⟨a, b', Err.ok, h1, Or.inl ⟨rfl, hI.of_same h2 h4 h5, h3, h6, fun _ => ⟨rfl, h4⟩⟩⟩
  · have hsz := hwf.size_le
    have h1 : ¬ n ≤ b.size := by omega
    have h2 : n > b.cap := by omega
    by_cases hbig : n > 0xFFFFFFC0
    · exact ⟨a, b, Err.oom, resizeI_oom_big a b n ideal v h1 hbig, Or.inr ⟨rfl, rfl, by omega⟩⟩
    by_cases h3 : alignUp ideal 64 % u64 < n
    · exact ⟨a, b, Err.oom, resizeI_oom_wrap a b n ideal v h1 hbig h2 h3, Or.inr ⟨rfl, rfl, by omega⟩⟩
    · have hM64 := alignUp64_mod ideal
      have hMlt : alignUp ideal 64 % u64 ≤ u64 := Nat.le_of_lt (Nat.mod_lt _ (by decide))
      rcases realloc_spec a b (alignUp ideal 64 % u64) (wordsPerBits b.size) hM64 (by omega) hMlt with
        ⟨a1, hre⟩ | ⟨a2, p, nWords, cap, hre, hge, hc64, hcmax, hcw⟩
      · exact ⟨a1, b, Err.oom, resizeI_oom_alloc a a1 b n ideal v h1 hbig h2 h3 hre, Or.inr ⟨rfl, rfl, by omega⟩⟩
      · have hncap : n ≤ cap := by omega
        obtain ⟨hwf1, hbits1⟩ := moved_wf b hwf p nWords cap hcw (by omega)
        obtain ⟨b', g1, g2, g3, g4, g5, g6⟩ :=
          resizeI_spec_partial a2 _ n ideal v hwf1 (by simp only; omega) (by omega)
        refine ⟨a2, b', Err.ok, ?_, Or.inl ⟨rfl, ⟨g2, ?_, ?_, ?_⟩, g3, ?_, fun h => absurd h hc⟩⟩
        · rw [resizeI_moved a a2 b n ideal v p _ cap h1 hbig h2 h3 hre (by omega)]; exact g1
        · rw [g4]; exact hcmax
        · rw [g4]; exact hc64
        · rw [g5]; intro h; cases h
        · rw [g6, hbits1]

/-- non-vacuity: growth through a reallocation, and the refusal of an unrepresentable size -/
example : (resizeI (Arena.init 1024 0) { words := [0x5#64], size := 3, cap := 64, data := some (.dyn 0) } 67 67 true).map
      (fun r => (r.2.1.words, r.2.1.size, r.2.1.cap, r.2.2))
    = some ([0xFFFFFFFFFFFFFFFD#64, 0x7#64], 67, 128, Err.ok) := by decide
example : (resizeI (Arena.init 1024 0) {} (2 ^ 32 + 5) (2 ^ 32 + 5) true).map (·.2) = some ({}, Err.oom) := by decide

/-! ### `append` (with `_append`), `copy_from`, `release` -/

theorem bits_length (b : BitSet) : (bits b).length = b.size := bitsList_length _ _

theorem Inv.size_succ_lt {b : BitSet} (hI : Inv b) : b.size + 1 < u32 := by
  have := hI.wf.size_le; have := hI.cap32
  unfold u32; omega

theorem appendSlow_eq (a : Arena.State) (b : BitSet) (v : Bool) (h : b.size + 1 < u32) :
    ∃ ideal, appendSlow a b v = resizeI a b (b.size + 1) ideal v := by
  have hmod : (b.size + 1) % u32 = b.size + 1 := Nat.mod_eq_of_lt h
  have hne : ¬ b.size = u32 - 1 := by omega
  unfold appendSlow
  simp only [hmod, hne, if_false]
  repeat' split
  all_goals exact ⟨_, rfl⟩

/-- **`append`, every call, every arena** (fast path and `_append`): never `none`; `kOk` = `snoc`,
`kOutOfMemory` = nothing changed. -/
theorem append_full (a : Arena.State) (b : BitSet) (v : Bool) (hI : Inv b) :
    ∃ a' b' e, append a b v = some (a', b', e) ∧
      ((e = Err.ok ∧ Inv b' ∧ b'.size = b.size + 1 ∧ bits b' = bits b ++ [v]) ∨ (e = Err.oom ∧ b' = b)) := by
  by_cases hlt : b.size < b.cap
  · obtain ⟨b', h1, h2, h3, h4, h5, h6⟩ := append_spec_partial a b v hI.wf hlt
    exact ⟨a, b', Err.ok, h1, Or.inl ⟨rfl, hI.of_same h2 h4 h5, h3, h6⟩⟩
  · have hge : b.size ≥ b.cap := by omega
    obtain ⟨ideal, hs⟩ := appendSlow_eq a b v hI.size_succ_lt
    have he : append a b v = resizeI a b (b.size + 1) ideal v := by
      unfold append; simp only [hge, if_true]; exact hs
    obtain ⟨a', b', e, g1, g3⟩ := resizeI_full a b (b.size + 1) ideal v hI
    refine ⟨a', b', e, by rw [he]; exact g1, ?_⟩
    rcases g3 with ⟨e1, e2, e3, e4, _⟩ | ⟨e1, e2, _⟩
    · refine Or.inl ⟨e1, e2, e3, ?_⟩
      have hl : (bits b).length ≤ b.size + 1 := by rw [bits_length]; omega
      rw [e4, List.take_of_length_le hl]
      have : b.size + 1 - b.size = 1 := by omega
      rw [this]; rfl
    · exact Or.inr ⟨e1, e2⟩

/-- non-vacuity: `append` on a full 64-bit set reallocates to 128 bits -/
example : (append (Arena.init 1024 0) { words := [ones], size := 64, cap := 64, data := some (.dyn 0) } true).map
      (fun r => (r.2.1.words, r.2.1.size, r.2.1.cap, r.2.2))
    = some ([ones, 0x1#64], 65, 128, Err.ok) := by decide

theorem copyFrom_oom_alloc (a a1 : Arena.State) (b other : BitSet) (h0 : ¬ other.size = 0) (h2 : other.size > b.cap)
    (hre : realloc a b (alignUp other.size 64) 0 = (a1, none)) :
    copyFrom a b other = some (a1, b, Err.oom) := by
  unfold copyFrom
  simp only [h0, h2, hre, if_true, if_false]

theorem copyFrom_incap (a : Arena.State) (b other : BitSet) (h0 : ¬ other.size = 0) (h4 : ¬ other.size > b.cap) :
    copyFrom a b other =
      if wordsPerBits other.size ≤ b.words.length ∧ wordsPerBits other.size ≤ other.words.length then
        some (a, { b with words := other.words.take (wordsPerBits other.size) ++
                            b.words.drop (wordsPerBits other.size), size := other.size }, Err.ok)
      else none := by
  unfold copyFrom
  simp only [h0, h4, if_false]

theorem copyFrom_moved (a a2 : Arena.State) (b other : BitSet) (p : Loc) (nw : Words) (cap : Nat)
    (h0 : ¬ other.size = 0) (h2 : other.size > b.cap)
    (hre : realloc a b (alignUp other.size 64) 0 = (a2, some (p, nw, cap))) (h4 : ¬ other.size > cap) :
    copyFrom a b other =
      if wordsPerBits other.size ≤ nw.length ∧ wordsPerBits other.size ≤ other.words.length then
        some (a2, { data := some p, words := other.words.take (wordsPerBits other.size) ++
                      nw.drop (wordsPerBits other.size), size := other.size, cap := cap }, Err.ok)
      else none := by
  unfold copyFrom
  simp only [h0, h2, h4, hre, if_true, if_false]

theorem moved0_wf (b : BitSet) (p : Loc) (nWords cap : Nat) (hcw : cap ≤ nWords * 64) (hsz : b.size ≤ cap) :
    WF { b with data := some p, words := b.words.take 0 ++ List.replicate (nWords - 0) 0#64, cap := cap } := by
  refine ⟨?_, hsz, ?_⟩
  · simp only [List.take_zero, List.nil_append, List.length_replicate]; omega
  · intro j _ _
    simp only [List.take_zero, List.nil_append]
    rw [bitAt_replicate]; split <;> simp

/-- **`copy_from`, every call, every arena** -/
theorem copyFrom_full (a : Arena.State) (b other : BitSet) (hI : Inv b) (hO : Inv other) :
    ∃ a' b' e, copyFrom a b other = some (a', b', e) ∧
      ((e = Err.ok ∧ Inv b' ∧ b'.size = other.size ∧ bits b' = bits other) ∨ (e = Err.oom ∧ b' = b)) := by
  by_cases hc : other.size ≤ b.cap
  · obtain ⟨b', h1, h2, h3, h4, h5, h6⟩ := copyFrom_spec_partial a b other hI.wf hO.wf hc
    exact ⟨a, b', Err.ok, h1, Or.inl ⟨rfl, hI.of_same h2 h4 h5, h3, h6⟩⟩
  · have hsz := hI.wf.size_le
    have h0 : ¬ other.size = 0 := by omega
    have h2 : other.size > b.cap := by omega
    have ho32 : other.size ≤ 0xFFFFFFC0 := Nat.le_trans hO.wf.size_le hO.cap32
    have hA : alignUp other.size 64 % 64 = 0 ∧ other.size ≤ alignUp other.size 64 ∧
        alignUp other.size 64 ≤ u64 := by unfold alignUp u64; omega
    rcases realloc_spec a b (alignUp other.size 64) 0 hA.1 (by omega) hA.2.2 with
      ⟨a1, hre⟩ | ⟨a2, p, nWords, cap, hre, hge, hc64, hcmax, hcw⟩
    · exact ⟨a1, b, Err.oom, copyFrom_oom_alloc a a1 b other h0 h2 hre, Or.inr ⟨rfl, rfl⟩⟩
    · have hocap : other.size ≤ cap := by omega
      have hwf1 := moved0_wf b p nWords cap hcw (by omega)
      obtain ⟨b', g1, g2, g3, g4, g5, g6⟩ := copyFrom_spec_partial a2 _ other hwf1 hO.wf (by simp only; omega)
      refine ⟨a2, b', Err.ok, ?_, Or.inl ⟨rfl, ⟨g2, ?_, ?_, ?_⟩, g3, g6⟩⟩
      · rw [copyFrom_moved a a2 b other p _ cap h0 h2 hre (by omega)]
        rw [copyFrom_incap a2 _ other h0 (by simp only; omega)] at g1
        exact g1
      · rw [g4]; exact hcmax
      · rw [g4]; exact hc64
      · rw [g5]; intro h; cases h

/-- non-vacuity: `copy_from` into an empty set allocates -/
example : (copyFrom (Arena.init 1024 0) {} { words := [0x15#64], size := 5, cap := 64 }).map
      (fun r => (r.2.1.words, r.2.1.size, r.2.1.cap, r.2.2))
    = some ([0x15#64, 0#64], 5, 128, Err.ok) := by decide

/-- **`release`**: the block goes back to the arena; afterwards the bit set is empty, without block or capacity
(it is literally `{}` whenever there was a block) -/
theorem release_spec (a : Arena.State) (b : BitSet) (hI : Inv b) :
    ∃ a' b', release a b = (a', b') ∧ Inv b' ∧ b'.size = 0 ∧ b'.cap = 0 ∧ b'.data = none ∧
      (b.data ≠ none → b' = {}) := by
  unfold release
  cases hd : b.data with
  | some p => exact ⟨_, {}, rfl, inv_empty, rfl, rfl, rfl, fun _ => rfl⟩
  | none =>
    have hc := hI.nodata hd
    have h2 := hI.wf.size_le
    exact ⟨a, b, rfl, hI, by omega, hc, hd, fun h => absurd rfl h⟩

example : (release (Arena.init 1024 0) { data := some (.dyn 0), words := [0x5#64], size := 3, cap := 64 }).2 = {} := by
  decide

/-! ### whole sequences: `ArenaBitSet` refines `List Bool` -/

/-- operations on ONE bit set; `env s` lets the environment replace the arena by ANY state (this is how allocation
failures, exhausted arenas, other users of the arena … at arbitrary moments are modelled) -/
inductive BOp where
  | resize (n : Nat) (v : Bool) | append (v : Bool) | set (i : Nat) (v : Bool)
  | fill (s c : Nat) | clearBits (s c : Nat) | truncate (n : Nat) | clear | fillAll | clearAll | release
  | env (s : Arena.State)

/-- the C++ preconditions (assertions) of an operation, on the abstract value -/
def BOp.pre (l : List Bool) : BOp → Prop
  | .set i _ => i < l.length
  | .fill s c => s + c ≤ l.length
  | .clearBits s c => s + c ≤ l.length
  | _ => True

/-- the implementation -/
def modelStep (a : Arena.State) (b : BitSet) : BOp → Option (Arena.State × BitSet × Err)
  | .resize n v => Bits.resize a b n v
  | .append v => Bits.append a b v
  | .set i v => (setBit b.words i v).map fun ws => (a, { b with words := ws }, Err.ok)
  | .fill s c => (bitVectorFill b.words s c).map fun ws => (a, { b with words := ws }, Err.ok)
  | .clearBits s c => (bitVectorClear b.words s c).map fun ws => (a, { b with words := ws }, Err.ok)
  | .truncate n => (Bits.truncate b n).map fun b' => (a, b', Err.ok)
  | .clear => some (a, Bits.clear b, Err.ok)
  | .fillAll => (Bits.fillAll b).map fun b' => (a, b', Err.ok)
  | .clearAll => (Bits.clearAll b).map fun b' => (a, b', Err.ok)
  | .release => match Bits.release a b with
    | (a', b') => some (a', b', Err.ok)
  | .env s => some (s, b, Err.ok)

/-- the textbook meaning on `List Bool` -/
def specStep (l : List Bool) : BOp → List Bool
  | .resize n v => l.take n ++ List.replicate (n - l.length) v
  | .append v => l ++ [v]
  | .set i v => l.set i v
  | .fill s c => (List.range l.length).map fun j => if s ≤ j ∧ j < s + c then true else l.getD j false
  | .clearBits s c => (List.range l.length).map fun j => if s ≤ j ∧ j < s + c then false else l.getD j false
  | .truncate n => l.take n
  | .clear => []
  | .fillAll => List.replicate l.length true
  | .clearAll => List.replicate l.length false
  | .release => []
  | .env _ => l

/-- writes to the words that keep the length and only touch positions `< size` keep the invariant -/
theorem inv_of_words (b : BitSet) (ws : Words) (hI : Inv b) (hl : ws.length = b.words.length)
    (hout : ∀ j, b.size ≤ j → bitAt ws j = bitAt b.words j) : Inv { b with words := ws } :=
  ⟨⟨by simp only [hl]; exact hI.wf.cap_le, hI.wf.size_le,
    fun j h1 h2 => by simp only at h1 h2 ⊢; rw [hout j h1]; exact hI.wf.tail_zero j h1 h2⟩,
   hI.cap32, hI.cap64, hI.nodata⟩

theorem bits_getD (b : BitSet) (j : Nat) (h : j < b.size) : (bits b).getD j false = bitAt b.words j := by
  have hl : j < (bits b).length := by rw [bits_length]; exact h
  rw [List.getD_eq_getElem?_getD, List.getElem?_eq_getElem hl]
  exact bitsList_getElem _ _ _ _

theorem rangeOp_step (fill : Bool) (b : BitSet) (s c : Nat) (hI : Inv b)
    (hp : s + c ≤ (bits b).length) :
    ∃ ws, bitVectorOp fill b.words s c = some ws ∧ Inv { b with words := ws } ∧
      bits { b with words := ws } =
        (List.range (bits b).length).map fun j => if s ≤ j ∧ j < s + c then fill else (bits b).getD j false := by
  rw [bits_length] at hp
  have hcap := hI.wf.cap_le; have hsz := hI.wf.size_le
  obtain ⟨ws, h1, h2, h3⟩ := bitVectorOp_spec fill b.words s c (by omega)
  refine ⟨ws, h1, inv_of_words b ws hI h2 (fun j hj => by rw [h3, if_neg (by omega)]), ?_⟩
  unfold bits
  apply bitsList_eq
  · simp [bitsList_length]
  · intro j hj
    simp only [List.length_map, List.length_range, bitsList_length] at hj
    simp only [List.getElem_map, List.getElem_range, bitsList_length]
    rw [h3]
    split
    · rfl
    · exact bits_getD b j hj

/-- one step, from any arena: never `none`; the invariant is kept; `kOk` = the textbook step,
`kOutOfMemory` = nothing changed -/
theorem step_refines (a : Arena.State) (b : BitSet) (op : BOp) (hI : Inv b) (hp : op.pre (bits b)) :
    ∃ a' b' e, modelStep a b op = some (a', b', e) ∧ Inv b' ∧
      ((e = Err.ok ∧ bits b' = specStep (bits b) op) ∨ (e = Err.oom ∧ b' = b)) := by
  cases op with
  | resize n v =>
    obtain ⟨a', b', e, h1, h3⟩ := resizeI_full a b n n v hI
    refine ⟨a', b', e, h1, ?_⟩
    rcases h3 with ⟨e1, e2, _, e4, _⟩ | ⟨e1, e2, _⟩
    · exact ⟨e2, Or.inl ⟨e1, by rw [e4]; simp only [specStep, bits_length]⟩⟩
    · exact ⟨by rw [e2]; exact hI, Or.inr ⟨e1, e2⟩⟩
  | append v =>
    obtain ⟨a', b', e, h1, h3⟩ := append_full a b v hI
    refine ⟨a', b', e, h1, ?_⟩
    rcases h3 with ⟨e1, e2, _, e4⟩ | ⟨e1, e2⟩
    · exact ⟨e2, Or.inl ⟨e1, e4⟩⟩
    · exact ⟨by rw [e2]; exact hI, Or.inr ⟨e1, e2⟩⟩
  | set i v =>
    have hi : i < b.size := by simpa [BOp.pre, bits_length] using hp
    have hcap := hI.wf.cap_le; have hsz := hI.wf.size_le
    obtain ⟨ws, g1, g2, g3, g4⟩ := setBit_spec b.words i v (by omega)
    refine ⟨a, { b with words := ws }, Err.ok, by simp only [modelStep, g1, Option.map_some],
      inv_of_words b ws hI g2 (fun j hj => g4 j (by omega)), Or.inl ⟨rfl, ?_⟩⟩
    unfold bits
    apply bitsList_eq
    · simp [specStep, bitsList_length]
    · intro j hj
      simp only [specStep, List.length_set, bitsList_length] at hj
      simp only [specStep, List.getElem_set, bitsList_getElem]
      split
      · next h => subst h; exact g3.symm
      · next h => exact (g4 j (fun e => h e.symm)).symm
  | fill s c =>
    obtain ⟨ws, g1, g2, g3⟩ := rangeOp_step true b s c hI hp
    exact ⟨a, { b with words := ws }, Err.ok, by simp only [modelStep, bitVectorFill, g1, Option.map_some], g2,
      Or.inl ⟨rfl, g3⟩⟩
  | clearBits s c =>
    obtain ⟨ws, g1, g2, g3⟩ := rangeOp_step false b s c hI hp
    exact ⟨a, { b with words := ws }, Err.ok, by simp only [modelStep, bitVectorClear, g1, Option.map_some], g2,
      Or.inl ⟨rfl, g3⟩⟩
  | truncate n =>
    obtain ⟨b', h1, h2, _, h4, h5, h6⟩ := truncate_spec b n hI.wf
    exact ⟨a, b', Err.ok, by simp only [modelStep, h1, Option.map_some], hI.of_same h2 h4 h5, Or.inl ⟨rfl, h6⟩⟩
  | clear =>
    refine ⟨a, Bits.clear b, Err.ok, rfl,
      ⟨⟨hI.wf.cap_le, Nat.zero_le _, ?_⟩, hI.cap32, hI.cap64, hI.nodata⟩,
      Or.inl ⟨rfl, by simp [bits, bitsList, Bits.clear, specStep]⟩⟩
    intro j _ h; simp [Bits.clear, wordsPerBits] at h
  | fillAll =>
    obtain ⟨b', h1, h2, _, h4, h5, h6⟩ := fillAll_spec b hI.wf
    exact ⟨a, b', Err.ok, by simp only [modelStep, h1, Option.map_some], hI.of_same h2 h4 h5,
      Or.inl ⟨rfl, by rw [h6]; simp only [specStep, bits_length]⟩⟩
  | clearAll =>
    obtain ⟨b', h1, h2, _, h4, h5, h6⟩ := clearAll_spec b hI.wf
    exact ⟨a, b', Err.ok, by simp only [modelStep, h1, Option.map_some], hI.of_same h2 h4 h5,
      Or.inl ⟨rfl, by rw [h6]; simp only [specStep, bits_length]⟩⟩
  | release =>
    obtain ⟨a', b', h1, h2, h3, _⟩ := release_spec a b hI
    exact ⟨a', b', Err.ok, by simp only [modelStep, h1], h2,
      Or.inl ⟨rfl, by simp [bits, bitsList, specStep, h3]⟩⟩
  | env s => exact ⟨s, b, Err.ok, rfl, hI, Or.inl ⟨rfl, rfl⟩⟩

/-- outcome of running a sequence: the model and the textbook list side by side -/
inductive Outcome where
  | done (a : Arena.State) (b : BitSet) (l : List Bool)
  /-- the model returned `none`: the C++ would touch memory outside its block -/
  | stuck
  /-- the client violated a precondition (assertion) of the operation -/
  | badCall

open Classical in
/-- run `ops`; the abstract list follows the model's `kOk` steps and ignores `kOutOfMemory` steps -/
noncomputable def run (a : Arena.State) (b : BitSet) (l : List Bool) : List BOp → Outcome
  | [] => .done a b l
  | op :: ops =>
    if op.pre l then
      match modelStep a b op with
      | none => .stuck
      | some (a', b', e) => run a' b' (if e = Err.ok then specStep l op else l) ops
    else .badCall

/-- from any state satisfying the invariant, any arena: never `stuck`; on completion invariant + textbook bits -/
theorem run_refines (ops : List BOp) :
    ∀ (a : Arena.State) (b : BitSet), Inv b →
      run a b (bits b) ops ≠ .stuck ∧
      ∀ a' b' l', run a b (bits b) ops = .done a' b' l' → Inv b' ∧ bits b' = l' := by
  induction ops with
  | nil =>
    intro a b hI
    refine ⟨by simp [run], ?_⟩
    intro a' b' l' h
    simp only [run, Outcome.done.injEq] at h
    obtain ⟨h1, h2, h3⟩ := h
    subst h1 h2 h3
    exact ⟨hI, rfl⟩
  | cons op ops ih =>
    intro a b hI
    by_cases hp : op.pre (bits b)
    · obtain ⟨a1, b1, e, h1, h3, h4⟩ := step_refines a b op hI hp
      have hl : (if e = Err.ok then specStep (bits b) op else bits b) = bits b1 := by
        rcases h4 with ⟨e1, e2⟩ | ⟨e1, e2⟩
        · rw [if_pos e1, e2]
        · rw [e1, e2]; simp
      have hrun : run a b (bits b) (op :: ops) = run a1 b1 (bits b1) ops := by
        simp only [run, hp, if_true, h1, hl]
      rw [hrun]
      exact ih a1 b1 h3
    · have hrun : run a b (bits b) (op :: ops) = .badCall := by simp only [run, hp, if_false]
      rw [hrun]
      exact ⟨by simp, by intro a' b' l' h; cases h⟩

/-- **bitset_refines_bools**: from the empty bit set, for ANY arena, ANY operation sequence and ANY interference of
the environment with the arena (`env`): the model is never `stuck` (no access outside its block), and whenever the
run completes the invariant holds and the bits are exactly the textbook list.  As this holds for every `ops`, it
holds after every prefix, i.e. after every step; `step_refines` adds that a `kOutOfMemory` step returns the bit set
unchanged. -/
theorem bitset_refines_bools (a : Arena.State) (ops : List BOp) :
    run a {} [] ops ≠ .stuck ∧
    ∀ a' b' l', run a {} [] ops = .done a' b' l' → Inv b' ∧ bits b' = l' :=
  run_refines ops a {} inv_empty

/-- non-vacuity: a concrete sequence on the model (two reallocations, a refused size, a `release`) -/
example :
    (do
      let (a1, b1, _) ← modelStep (Arena.init 1024 0) {} (.resize 3 true)
      let (a2, b2, _) ← modelStep a1 b1 (.append false)
      let (a3, b3, _) ← modelStep a2 b2 (.set 1 false)
      let (a4, b4, _) ← modelStep a3 b3 (.resize 130 false)
      let (a5, b5, e5) ← modelStep a4 b4 (.resize (2 ^ 32) true)
      let (a6, b6, _) ← modelStep a5 b5 (.fill 126 3)
      let (_, b7, _) ← modelStep a6 b6 .release
      pure (bitsOf b6.words 5, b6.size, getBit b6.words 127, e5, b7)) =
      some ([true, false, true, false, false], 130, some true, Err.oom, {}) := by
  decide

end AsmjitVerif.Bits
