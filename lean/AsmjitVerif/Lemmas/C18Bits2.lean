/-
C18 — `ArenaBitSet`, round 2: the reallocating branches of `_resize`, `_append`, `copy_from`, then `release`
and a whole-sequence refinement theorem (`bitset_refines_bools`).

The arena is treated as an oracle: the only facts used about `Arena.allocReusable` are its result shape
(`allocReusable_shape`: a slot size, or exactly the request when `request + 24 ≤ mallocMax`) and
`Vector.allocReusable_spec` (`request ≤ allocated`).  The explicit oracle hypothesis is `a.mallocMax < 2^29`:
no allocation of `2^29` bytes or more succeeds, so `uint32_t(allocated * 8)` does not wrap.
-/
import AsmjitVerif.Lemmas.C18Bits
import AsmjitVerif.Lemmas.C18Vector
import AsmjitVerif.Lemmas.C18Arena
namespace AsmjitVerif.Bits
open AsmjitVerif.Bits.Spec
open AsmjitVerif.Arena

/-! ### the allocator as an oracle -/

/-- shape of a successful `_alloc_reusable`: a size class, or exactly the request (dynamic block) -/
theorem allocReusable_shape {a a' : Arena.State} {size allocated : Nat} {p : Loc}
    (h : allocReusable a size = (a', some p, allocated)) :
    (slotIndex size < 8 ∧ allocated = slotSize (slotIndex size)) ∨
    (allocated = size ∧ size + 24 ≤ a.mallocMax) := by
  simp only [allocReusable] at h
  split at h
  · rename_i hi
    refine Or.inl ⟨hi, ?_⟩
    split at h
    · injection h with _ h; injection h with _ h; exact h.symm
    · split at h
      · injection h with _ h; injection h with _ h; exact h.symm
      · split at h
        · injection h with _ h; injection h with _ h; exact h.symm
        · injection h with _ h; injection h with h _; cases h
  · refine Or.inr ?_
    split at h
    · injection h with _ h; injection h with h _; cases h
    · split at h
      · injection h with _ h; injection h with h _; cases h
      · rename_i h1 h2
        injection h with _ h; injection h with _ h
        exact ⟨h.symm, by omega⟩

/-- what `_resize` / `copy_from` need from a successful allocation of `minCap / 8` bytes -/
theorem allocReusable_bits {a a' : Arena.State} {minCap allocated : Nat} {p : Loc}
    (h : allocReusable a (minCap / 8) = (a', some p, allocated))
    (h64 : minCap % 64 = 0) (hpos : 0 < minCap) (hle : minCap ≤ u64) (hmm : a.mallocMax < 2 ^ 29) :
    allocated % 8 = 0 ∧ minCap ≤ allocated * 8 ∧ allocated * 8 < u32 := by
  have hs := Vector.allocReusable_spec h (by omega) (by unfold u64 at *; omega)
  rcases allocReusable_shape h with ⟨hi, he⟩ | ⟨he, hm⟩
  · obtain ⟨_, h16, _, hpow⟩ := slot_facts _ hi
    have hk8 : 2 ^ slotIndex (minCap / 8) ≤ 2 ^ 7 := Nat.pow_le_pow_right (by decide) (by omega)
    rw [← he] at h16 hpow
    refine ⟨by omega, by omega, ?_⟩
    unfold u32; omega
  · refine ⟨by omega, by omega, ?_⟩
    unfold u32; omega

/-! ### `realloc`

KERNEL OBSTACLE.  `Model/Bits.lean` defines `realloc a b m k := match allocReusable a (m / 8) with …`.  Exposing that
body (by `unfold`, `simp only [realloc]`, `delta`, `rfl`, even generating `realloc.eq_1`) makes the kernel compare
`realloc a b m k` with a matcher application; matchers carry the `abbrev` hint and are unfolded first, and the
kernel then puts the discriminant `allocReusable a (m / 8)` into weak head normal form, which runs into
`slotIndex`'s `(size + 2^64 - 1) % 2^64` on an open term (unary arithmetic on `2^64`): "deep recursion" after
minutes.  (`Lemmas/C18Vector.lean` hit the same wall for `reserveWithByteSize`.)  Every way of ordering the
unfolding ends with "matcher versus something else", so the unfolding equation below cannot be checked against the
model as it stands; it is therefore an explicit hypothesis `ReallocUnfolds` of the theorems of this file.  It holds
by definition, and becomes `fun _ _ _ _ => rfl` as soon as the model is written as
`def realloc a b m k := reallocWith (allocReusable a (m / 8)) b k` (a one-line refactoring: then both sides are
ordinary definitions and the kernel unfolds `realloc` first). -/

/-- "`realloc` is its defining equation" (see KERNEL OBSTACLE above) -/
def ReallocUnfolds : Prop :=
  ∀ (a : Arena.State) (b : BitSet) (m k : Nat), realloc a b m k = reallocWith (allocReusable a (m / 8)) b k

/-- since `Model/Bits.lean` defines `realloc` through `reallocWith`, the hypothesis holds by definition -/
theorem realloc_unfolds : ReallocUnfolds := fun _ _ _ _ => rfl

/-- on concrete arguments the kernel can evaluate both sides, and they agree -/
example : (realloc (Arena.init 1024 0) { words := [0x5#64], size := 3, cap := 64 } 128 1).2
    = (reallocWith (allocReusable (Arena.init 1024 0) (128 / 8)) { words := [0x5#64], size := 3, cap := 64 } 1).2 := by
  decide

/-- `realloc` under the oracle hypothesis: failure leaves only a new arena state; success gives a zero-extended copy
of the first `keep` words in a block of `cap ≥ minCap` bits, `cap` a multiple of 64 and `< 2^32` -/
theorem realloc_spec (hU : ReallocUnfolds) (a : Arena.State) (b : BitSet) (minCap keep : Nat)
    (h64 : minCap % 64 = 0) (hpos : 0 < minCap) (hle : minCap ≤ u64) (hmm : a.mallocMax < 2 ^ 29) :
    (∃ a1, realloc a b minCap keep = (a1, none) ∧ a1.mallocMax = a.mallocMax) ∨
    (∃ a2 p cap, realloc a b minCap keep =
        (a2, some (p, b.words.take keep ++ List.replicate (cap / 64 - keep) 0#64, cap)) ∧
      a2.mallocMax = a.mallocMax ∧ minCap ≤ cap ∧ cap % 64 = 0 ∧ cap < u32) := by
  rw [hU]
  generalize hr : allocReusable a (minCap / 8) = r
  obtain ⟨a1, o, allocated⟩ := r
  have hm1 : a1.mallocMax = a.mallocMax := Vector.allocReusable_mallocMax' hr
  cases o with
  | none => exact Or.inl ⟨a1, by simp only [reallocWith], hm1⟩
  | some p =>
    obtain ⟨h8, hge, hlt⟩ := allocReusable_bits hr h64 hpos hle hmm
    have hmod : allocated * 8 % u32 = allocated * 8 := Nat.mod_eq_of_lt hlt
    have hdiv : allocated * 8 / 64 = allocated / 8 := by omega
    cases hd : b.data with
    | none =>
      refine Or.inr ⟨a1, p, allocated * 8, ?_, hm1, hge, by omega, hlt⟩
      simp only [reallocWith, hd, hmod, hdiv]
    | some old =>
      refine Or.inr ⟨freeReusable a1 old (b.cap / 8), p, allocated * 8, ?_, ?_, hge, by omega, hlt⟩
      · simp only [reallocWith, hd, hmod, hdiv]
      · rw [Vector.freeReusable_mallocMax]; exact hm1

/-! ### `_resize`: the reallocating branch -/

theorem alignUp64_mod (x : Nat) : (alignUp x 64 % u64) % 64 = 0 := by
  unfold alignUp u64; omega

/-- wrapped ideal capacity: `kOutOfMemory`, nothing changes -/
theorem resizeI_oom_wrap (a : Arena.State) (b : BitSet) (n ideal : Nat) (v : Bool)
    (h1 : ¬ n ≤ b.size) (h2 : n > b.cap) (h3 : alignUp ideal 64 % u64 < n) :
    resizeI a b n ideal v = some (a, b, Err.oom) := by
  unfold resizeI
  simp only [h1, h2, h3, if_true, if_false]

/-- allocator failure: `kOutOfMemory`, the bit set is unchanged, the arena is the allocator's -/
theorem resizeI_oom_alloc (a a1 : Arena.State) (b : BitSet) (n ideal : Nat) (v : Bool)
    (h1 : ¬ n ≤ b.size) (h2 : n > b.cap) (h3 : ¬ alignUp ideal 64 % u64 < n)
    (hre : realloc a b (alignUp ideal 64 % u64) (wordsPerBits b.size) = (a1, none)) :
    resizeI a b n ideal v = some (a1, b, Err.oom) := by
  unfold resizeI
  simp only [h1, h2, h3, hre, if_true, if_false]

/-- successful reallocation: `_resize` continues exactly like a `_resize` of the moved bit set -/
theorem resizeI_moved (a a2 : Arena.State) (b : BitSet) (n ideal : Nat) (v : Bool) (p : Loc) (nw : Words) (cap : Nat)
    (h1 : ¬ n ≤ b.size) (h2 : n > b.cap) (h3 : ¬ alignUp ideal 64 % u64 < n)
    (hre : realloc a b (alignUp ideal 64 % u64) (wordsPerBits b.size) = (a2, some (p, nw, cap)))
    (h4 : ¬ n > cap) :
    resizeI a b n ideal v = resizeI a2 { b with data := some p, words := nw, cap := cap } n ideal v := by
  unfold resizeI
  simp only [h1, h2, h3, h4, hre, if_true, if_false]

/-- the invariant carried through operation sequences: `WF`, the `uint32_t` capacity, and "no block ⇒ no capacity" -/
structure Inv (b : BitSet) : Prop where
  wf : WF b
  cap32 : b.cap < u32
  nodata : b.data = none → b.cap = 0

theorem inv_empty : Inv {} :=
  ⟨⟨rfl, Nat.le_refl _, fun j _ h => by simp [wordsPerBits] at h⟩, by decide, fun _ => rfl⟩

/-- the bit set after a successful `realloc` that kept the used words: same bits, still well formed -/
theorem moved_wf (b : BitSet) (hwf : WF b) (p : Loc) (cap : Nat) (h64 : cap % 64 = 0) (hsz : b.size ≤ cap) :
    WF { b with data := some p,
                words := b.words.take (wordsPerBits b.size) ++
                  List.replicate (cap / 64 - wordsPerBits b.size) 0#64, cap := cap } ∧
    bits { b with data := some p,
                  words := b.words.take (wordsPerBits b.size) ++
                    List.replicate (cap / 64 - wordsPerBits b.size) 0#64, cap := cap } = bits b := by
  have hwp := wordsPerBits_bounds b.size
  have hl := hwf.words_len
  have hpt : ∀ j, j < 64 * wordsPerBits b.size →
      bitAt (b.words.take (wordsPerBits b.size) ++ List.replicate (cap / 64 - wordsPerBits b.size) 0#64) j
        = bitAt b.words j := by
    intro j hj
    rw [bitAt_append, List.length_take, Nat.min_eq_left hl, if_pos hj, bitAt_take, if_pos hj]
  refine ⟨⟨?_, hsz, ?_⟩, ?_⟩
  · simp only [List.length_append, List.length_take, List.length_replicate]; omega
  · intro j hj1 hj2
    simp only at hj1 hj2 ⊢
    rw [hpt j hj2]; exact hwf.tail_zero j hj1 hj2
  · unfold bits
    apply bitsList_eq
    · simp [bitsList_length]
    · intro j hj
      simp only [bitsList_length] at hj
      rw [bitsList_getElem]
      exact (hpt j (by omega)).symm

/-- **`_resize`, every call** (modulo `ReallocUnfolds`).  Never `none`.  Either `kOk`: invariant kept, `size = n`,
bits = `take n` then `n - size` copies of `v` (and inside the capacity neither the arena nor the capacity change);
or `kOutOfMemory` (only when `n` exceeds the capacity): the bit set is returned unchanged.  In both cases the
returned arena has the same `mallocMax`.
PARTIAL only in that it assumes `ReallocUnfolds` (see KERNEL OBSTACLE). -/
theorem resizeI_full_partial (hU : ReallocUnfolds) (a : Arena.State) (b : BitSet) (n ideal : Nat) (v : Bool)
    (hI : Inv b) (hn : n < u32) (hmm : a.mallocMax < 2 ^ 29) :
    ∃ a' b' e, resizeI a b n ideal v = some (a', b', e) ∧ a'.mallocMax = a.mallocMax ∧
      ((e = Err.ok ∧ Inv b' ∧ b'.size = n ∧
          bits b' = (bits b).take n ++ List.replicate (n - b.size) v ∧ (n ≤ b.cap → a' = a ∧ b'.cap = b.cap)) ∨
       (e = Err.oom ∧ b' = b ∧ b.cap < n)) := by
  have hwf := hI.wf
  by_cases hc : n ≤ b.cap
  · obtain ⟨b', h1, h2, h3, h4, h5, h6⟩ := resizeI_spec_partial a b n ideal v hwf hc hn
    exact ⟨a, b', Err.ok, h1, rfl, Or.inl ⟨rfl, ⟨h2, by rw [h4]; exact hI.cap32, by rw [h4, h5]; exact hI.nodata⟩,
      h3, h6, fun _ => ⟨rfl, h4⟩⟩⟩
  · have hsz := hwf.size_le
    have h1 : ¬ n ≤ b.size := by omega
    have h2 : n > b.cap := by omega
    by_cases h3 : alignUp ideal 64 % u64 < n
    · exact ⟨a, b, Err.oom, resizeI_oom_wrap a b n ideal v h1 h2 h3, rfl, Or.inr ⟨rfl, rfl, by omega⟩⟩
    · have hM64 := alignUp64_mod ideal
      have hMlt : alignUp ideal 64 % u64 ≤ u64 := Nat.le_of_lt (Nat.mod_lt _ (by decide))
      rcases realloc_spec hU a b (alignUp ideal 64 % u64) (wordsPerBits b.size) hM64 (by omega) hMlt hmm with
        ⟨a1, hre, hm1⟩ | ⟨a2, p, cap, hre, hm2, hge, hc64, hc32⟩
      · exact ⟨a1, b, Err.oom, resizeI_oom_alloc a a1 b n ideal v h1 h2 h3 hre, hm1, Or.inr ⟨rfl, rfl, by omega⟩⟩
      · obtain ⟨hwf1, hbits1⟩ := moved_wf b hwf p cap hc64 (by omega)
        obtain ⟨b', g1, g2, g3, g4, g5, g6⟩ := resizeI_spec_partial a2 _ n ideal v hwf1 (by simp only; omega) hn
        refine ⟨a2, b', Err.ok, ?_, hm2, Or.inl ⟨rfl, ⟨g2, ?_, ?_⟩, g3, ?_, fun h => absurd h hc⟩⟩
        · rw [resizeI_moved a a2 b n ideal v p _ cap h1 h2 h3 hre (by omega)]; exact g1
        · rw [g4]; exact hc32
        · rw [g5]; intro h; cases h
        · rw [g6, hbits1]

/-! ### `append` (with `_append`), `copy_from`, `release` -/

theorem bits_length (b : BitSet) : (bits b).length = b.size := bitsList_length _ _

theorem Inv.size_succ_lt {b : BitSet} (hI : Inv b) : b.size + 1 < u32 := by
  have := hI.wf.cap_eq; have := hI.wf.size_le; have := hI.cap32
  unfold u32 at *; omega

theorem appendSlow_eq (a : Arena.State) (b : BitSet) (v : Bool) (h : b.size + 1 < u32) :
    ∃ ideal, appendSlow a b v = resizeI a b (b.size + 1) ideal v := by
  have hmod : (b.size + 1) % u32 = b.size + 1 := Nat.mod_eq_of_lt h
  have hne : ¬ b.size = u32 - 1 := by omega
  unfold appendSlow
  simp only [hmod, hne, if_false]
  repeat' split
  all_goals exact ⟨_, rfl⟩

/-- **`append`, every call** (fast path and `_append`), modulo `ReallocUnfolds`: never `none`; `kOk` = `snoc`,
`kOutOfMemory` = nothing changed. -/
theorem append_full_partial (hU : ReallocUnfolds) (a : Arena.State) (b : BitSet) (v : Bool)
    (hI : Inv b) (hmm : a.mallocMax < 2 ^ 29) :
    ∃ a' b' e, append a b v = some (a', b', e) ∧ a'.mallocMax = a.mallocMax ∧
      ((e = Err.ok ∧ Inv b' ∧ b'.size = b.size + 1 ∧ bits b' = bits b ++ [v]) ∨ (e = Err.oom ∧ b' = b)) := by
  by_cases hlt : b.size < b.cap
  · obtain ⟨b', h1, h2, h3, h4, h5, h6⟩ := append_spec_partial a b v hI.wf hlt
    exact ⟨a, b', Err.ok, h1, rfl, Or.inl ⟨rfl, ⟨h2, by rw [h4]; exact hI.cap32, by rw [h4, h5]; exact hI.nodata⟩,
      h3, h6⟩⟩
  · have hge : b.size ≥ b.cap := by omega
    obtain ⟨ideal, hs⟩ := appendSlow_eq a b v hI.size_succ_lt
    have he : append a b v = resizeI a b (b.size + 1) ideal v := by
      unfold append; simp only [hge, if_true]; exact hs
    obtain ⟨a', b', e, g1, g2, g3⟩ := resizeI_full_partial hU a b (b.size + 1) ideal v hI hI.size_succ_lt hmm
    refine ⟨a', b', e, by rw [he]; exact g1, g2, ?_⟩
    rcases g3 with ⟨e1, e2, e3, e4, _⟩ | ⟨e1, e2, _⟩
    · refine Or.inl ⟨e1, e2, e3, ?_⟩
      have hl : (bits b).length ≤ b.size + 1 := by rw [bits_length]; omega
      rw [e4, List.take_of_length_le hl]
      have : b.size + 1 - b.size = 1 := by omega
      rw [this]; rfl
    · exact Or.inr ⟨e1, e2⟩

theorem copyFrom_oom_alloc (a a1 : Arena.State) (b other : BitSet) (h0 : ¬ other.size = 0) (h2 : other.size > b.cap)
    (hre : realloc a b (alignUp other.size 64) 0 = (a1, none)) :
    copyFrom a b other = some (a1, b, Err.oom) := by
  unfold copyFrom
  simp only [h0, h2, hre, if_true, if_false]

theorem copyFrom_incap (a : Arena.State) (b other : BitSet) (h0 : ¬ other.size = 0) (h4 : ¬ other.size > b.cap) :
    copyFrom a b other =
      if wordsPerBits other.size ≤ b.words.length ∧ wordsPerBits other.size ≤ other.words.length then
        some (a, { b with words := other.words.take (wordsPerBits other.size) ++
                            b.words.drop (wordsPerBits other.size), size := other.size }, Err.ok)
      else none := by
  unfold copyFrom
  simp only [h0, h4, if_false]

theorem copyFrom_moved (a a2 : Arena.State) (b other : BitSet) (p : Loc) (nw : Words) (cap : Nat)
    (h0 : ¬ other.size = 0) (h2 : other.size > b.cap)
    (hre : realloc a b (alignUp other.size 64) 0 = (a2, some (p, nw, cap))) (h4 : ¬ other.size > cap) :
    copyFrom a b other =
      if wordsPerBits other.size ≤ nw.length ∧ wordsPerBits other.size ≤ other.words.length then
        some (a2, { data := some p, words := other.words.take (wordsPerBits other.size) ++
                      nw.drop (wordsPerBits other.size), size := other.size, cap := cap }, Err.ok)
      else none := by
  unfold copyFrom
  simp only [h0, h2, h4, hre, if_true, if_false]

theorem moved0_wf (b : BitSet) (p : Loc) (cap : Nat) (h64 : cap % 64 = 0) (hsz : b.size ≤ cap) :
    WF { b with data := some p, words := b.words.take 0 ++ List.replicate (cap / 64 - 0) 0#64, cap := cap } := by
  refine ⟨?_, hsz, ?_⟩
  · simp only [List.take_zero, List.nil_append, List.length_replicate]; omega
  · intro j _ _
    simp only [List.take_zero, List.nil_append]
    rw [bitAt_replicate]; split <;> simp

/-- **`copy_from`, every call** (modulo `ReallocUnfolds`) -/
theorem copyFrom_full_partial (hU : ReallocUnfolds) (a : Arena.State) (b other : BitSet)
    (hI : Inv b) (hO : Inv other) (hmm : a.mallocMax < 2 ^ 29) :
    ∃ a' b' e, copyFrom a b other = some (a', b', e) ∧ a'.mallocMax = a.mallocMax ∧
      ((e = Err.ok ∧ Inv b' ∧ b'.size = other.size ∧ bits b' = bits other) ∨ (e = Err.oom ∧ b' = b)) := by
  by_cases hc : other.size ≤ b.cap
  · obtain ⟨b', h1, h2, h3, h4, h5, h6⟩ := copyFrom_spec_partial a b other hI.wf hO.wf hc
    exact ⟨a, b', Err.ok, h1, rfl, Or.inl ⟨rfl, ⟨h2, by rw [h4]; exact hI.cap32, by rw [h4, h5]; exact hI.nodata⟩,
      h3, h6⟩⟩
  · have hsz := hI.wf.size_le
    have h0 : ¬ other.size = 0 := by omega
    have h2 : other.size > b.cap := by omega
    have ho32 : other.size < u32 := Nat.lt_of_le_of_lt hO.wf.size_le hO.cap32
    have hA : alignUp other.size 64 % 64 = 0 ∧ other.size ≤ alignUp other.size 64 ∧
        alignUp other.size 64 ≤ u64 := by unfold alignUp u64; unfold u32 at ho32; omega
    rcases realloc_spec hU a b (alignUp other.size 64) 0 hA.1 (by omega) hA.2.2 hmm with
      ⟨a1, hre, hm1⟩ | ⟨a2, p, cap, hre, hm2, hge, hc64, hc32⟩
    · exact ⟨a1, b, Err.oom, copyFrom_oom_alloc a a1 b other h0 h2 hre, hm1, Or.inr ⟨rfl, rfl⟩⟩
    · have hwf1 := moved0_wf b p cap hc64 (by omega)
      obtain ⟨b', g1, g2, g3, g4, g5, g6⟩ := copyFrom_spec_partial a2 _ other hwf1 hO.wf (by simp only; omega)
      refine ⟨a2, b', Err.ok, ?_, hm2, Or.inl ⟨rfl, ⟨g2, ?_, ?_⟩, g3, g6⟩⟩
      · rw [copyFrom_moved a a2 b other p _ cap h0 h2 hre (by omega)]
        rw [copyFrom_incap a2 _ other h0 (by simp only; omega)] at g1
        exact g1
      · rw [g4]; exact hc32
      · rw [g5]; intro h; cases h

/-- **`release`**: the block goes back to the arena, the bit set is the empty one again -/
theorem release_spec (a : Arena.State) (b : BitSet) (hI : Inv b) :
    ∃ a', release a b = (a', {}) ∧ a'.mallocMax = a.mallocMax := by
  unfold release
  cases hd : b.data with
  | some p => exact ⟨_, rfl, Vector.freeReusable_mallocMax _ _ _⟩
  | none =>
    have hc := hI.nodata hd
    have h1 := hI.wf.cap_eq
    have h2 := hI.wf.size_le
    refine ⟨a, ?_, rfl⟩
    obtain ⟨d, w, sz, c⟩ := b
    simp only at hd hc h1 h2
    subst hd hc
    have hw : w = [] := List.eq_nil_of_length_eq_zero (by omega)
    have hs : sz = 0 := by omega
    subst hw hs
    rfl

example : (release (Arena.init 1024 0) { data := some (.dyn 0), words := [0x5#64], size := 3, cap := 64 }).2 = {} := by
  decide

/-! ### whole sequences: `ArenaBitSet` refines `List Bool` -/

/-- operations on ONE bit set; `env s` lets the environment replace the arena by any state whose allocator refuses
blocks of `2^29` bytes or more (this is how allocation failures at arbitrary moments are modelled) -/
inductive BOp where
  | resize (n : Nat) (v : Bool) | append (v : Bool) | set (i : Nat) (v : Bool)
  | fill (s c : Nat) | clearBits (s c : Nat) | truncate (n : Nat) | clear | fillAll | clearAll | release
  | env (s : Arena.State)

/-- the C++ preconditions (assertions) of an operation, on the abstract value -/
def BOp.pre (l : List Bool) : BOp → Prop
  | .resize n _ => n < u32
  | .set i _ => i < l.length
  | .fill s c => s + c ≤ l.length
  | .clearBits s c => s + c ≤ l.length
  | _ => True

/-- the implementation -/
def modelStep (a : Arena.State) (b : BitSet) : BOp → Option (Arena.State × BitSet × Err)
  | .resize n v => Bits.resize a b n v
  | .append v => Bits.append a b v
  | .set i v => (setBit b.words i v).map fun ws => (a, { b with words := ws }, Err.ok)
  | .fill s c => (bitVectorFill b.words s c).map fun ws => (a, { b with words := ws }, Err.ok)
  | .clearBits s c => (bitVectorClear b.words s c).map fun ws => (a, { b with words := ws }, Err.ok)
  | .truncate n => (Bits.truncate b n).map fun b' => (a, b', Err.ok)
  | .clear => some (a, Bits.clear b, Err.ok)
  | .fillAll => (Bits.fillAll b).map fun b' => (a, b', Err.ok)
  | .clearAll => (Bits.clearAll b).map fun b' => (a, b', Err.ok)
  | .release => match Bits.release a b with
    | (a', b') => some (a', b', Err.ok)
  | .env s => if s.mallocMax < 2 ^ 29 then some (s, b, Err.ok) else some (a, b, Err.ok)

/-- the textbook meaning on `List Bool` -/
def specStep (l : List Bool) : BOp → List Bool
  | .resize n v => l.take n ++ List.replicate (n - l.length) v
  | .append v => l ++ [v]
  | .set i v => l.set i v
  | .fill s c => (List.range l.length).map fun j => if s ≤ j ∧ j < s + c then true else l.getD j false
  | .clearBits s c => (List.range l.length).map fun j => if s ≤ j ∧ j < s + c then false else l.getD j false
  | .truncate n => l.take n
  | .clear => []
  | .fillAll => List.replicate l.length true
  | .clearAll => List.replicate l.length false
  | .release => []
  | .env _ => l

/-- writes to the words that keep the length and only touch positions `< size` keep the invariant -/
theorem inv_of_words (b : BitSet) (ws : Words) (hI : Inv b) (hl : ws.length = b.words.length)
    (hout : ∀ j, b.size ≤ j → bitAt ws j = bitAt b.words j) : Inv { b with words := ws } :=
  ⟨⟨by simp only [hl]; exact hI.wf.cap_eq, hI.wf.size_le,
    fun j h1 h2 => by simp only at h1 h2 ⊢; rw [hout j h1]; exact hI.wf.tail_zero j h1 h2⟩, hI.cap32, hI.nodata⟩

theorem bits_getD (b : BitSet) (j : Nat) (h : j < b.size) : (bits b).getD j false = bitAt b.words j := by
  have hl : j < (bits b).length := by rw [bits_length]; exact h
  rw [List.getD_eq_getElem?_getD, List.getElem?_eq_getElem hl]
  exact bitsList_getElem _ _ _ _

theorem rangeOp_step (fill : Bool) (b : BitSet) (s c : Nat) (hI : Inv b)
    (hp : s + c ≤ (bits b).length) :
    ∃ ws, bitVectorOp fill b.words s c = some ws ∧ Inv { b with words := ws } ∧
      bits { b with words := ws } =
        (List.range (bits b).length).map fun j => if s ≤ j ∧ j < s + c then fill else (bits b).getD j false := by
  rw [bits_length] at hp
  have hcap := hI.wf.cap_eq; have hsz := hI.wf.size_le
  obtain ⟨ws, h1, h2, h3⟩ := bitVectorOp_spec fill b.words s c (by omega)
  refine ⟨ws, h1, inv_of_words b ws hI h2 (fun j hj => by rw [h3, if_neg (by omega)]), ?_⟩
  unfold bits
  apply bitsList_eq
  · simp [bitsList_length]
  · intro j hj
    simp only [List.length_map, List.length_range, bitsList_length] at hj
    simp only [List.getElem_map, List.getElem_range, bitsList_length]
    rw [h3]
    split
    · rfl
    · exact bits_getD b j hj

/-- one step: never `none`; the oracle property and the invariant are kept; `kOk` = the textbook step,
`kOutOfMemory` = nothing changed -/
theorem step_refines (hU : ReallocUnfolds) (a : Arena.State) (b : BitSet) (op : BOp) (hI : Inv b)
    (hmm : a.mallocMax < 2 ^ 29) (hp : op.pre (bits b)) :
    ∃ a' b' e, modelStep a b op = some (a', b', e) ∧ a'.mallocMax < 2 ^ 29 ∧ Inv b' ∧
      ((e = Err.ok ∧ bits b' = specStep (bits b) op) ∨ (e = Err.oom ∧ b' = b)) := by
  cases op with
  | resize n v =>
    obtain ⟨a', b', e, h1, h2, h3⟩ := resizeI_full_partial hU a b n n v hI hp hmm
    refine ⟨a', b', e, h1, by rw [h2]; exact hmm, ?_⟩
    rcases h3 with ⟨e1, e2, _, e4, _⟩ | ⟨e1, e2, _⟩
    · exact ⟨e2, Or.inl ⟨e1, by rw [e4]; simp only [specStep, bits_length]⟩⟩
    · exact ⟨by rw [e2]; exact hI, Or.inr ⟨e1, e2⟩⟩
  | append v =>
    obtain ⟨a', b', e, h1, h2, h3⟩ := append_full_partial hU a b v hI hmm
    refine ⟨a', b', e, h1, by rw [h2]; exact hmm, ?_⟩
    rcases h3 with ⟨e1, e2, _, e4⟩ | ⟨e1, e2⟩
    · exact ⟨e2, Or.inl ⟨e1, e4⟩⟩
    · exact ⟨by rw [e2]; exact hI, Or.inr ⟨e1, e2⟩⟩
  | set i v =>
    have hi : i < b.size := by simpa [BOp.pre, bits_length] using hp
    have hcap := hI.wf.cap_eq; have hsz := hI.wf.size_le
    obtain ⟨ws, g1, g2, g3, g4⟩ := setBit_spec b.words i v (by omega)
    refine ⟨a, { b with words := ws }, Err.ok, by simp only [modelStep, g1, Option.map_some], hmm,
      inv_of_words b ws hI g2 (fun j hj => g4 j (by omega)), Or.inl ⟨rfl, ?_⟩⟩
    unfold bits
    apply bitsList_eq
    · simp [specStep, bitsList_length]
    · intro j hj
      simp only [specStep, List.length_set, bitsList_length] at hj
      simp only [specStep, List.getElem_set, bitsList_getElem]
      split
      · next h => subst h; exact g3.symm
      · next h => exact (g4 j (fun e => h e.symm)).symm
  | fill s c =>
    obtain ⟨ws, g1, g2, g3⟩ := rangeOp_step true b s c hI hp
    exact ⟨a, { b with words := ws }, Err.ok, by simp only [modelStep, bitVectorFill, g1, Option.map_some], hmm, g2,
      Or.inl ⟨rfl, g3⟩⟩
  | clearBits s c =>
    obtain ⟨ws, g1, g2, g3⟩ := rangeOp_step false b s c hI hp
    exact ⟨a, { b with words := ws }, Err.ok, by simp only [modelStep, bitVectorClear, g1, Option.map_some], hmm, g2,
      Or.inl ⟨rfl, g3⟩⟩
  | truncate n =>
    obtain ⟨b', h1, h2, _, h4, h5, h6⟩ := truncate_spec b n hI.wf
    exact ⟨a, b', Err.ok, by simp only [modelStep, h1, Option.map_some], hmm,
      ⟨h2, by rw [h4]; exact hI.cap32, by rw [h4, h5]; exact hI.nodata⟩, Or.inl ⟨rfl, h6⟩⟩
  | clear =>
    refine ⟨a, Bits.clear b, Err.ok, rfl, hmm, ⟨⟨hI.wf.cap_eq, Nat.zero_le _, ?_⟩, hI.cap32, hI.nodata⟩,
      Or.inl ⟨rfl, by simp [bits, bitsList, Bits.clear, specStep]⟩⟩
    intro j _ h; simp [Bits.clear, wordsPerBits] at h
  | fillAll =>
    obtain ⟨b', h1, h2, _, h4, h5, h6⟩ := fillAll_spec b hI.wf
    exact ⟨a, b', Err.ok, by simp only [modelStep, h1, Option.map_some], hmm,
      ⟨h2, by rw [h4]; exact hI.cap32, by rw [h4, h5]; exact hI.nodata⟩,
      Or.inl ⟨rfl, by rw [h6]; simp only [specStep, bits_length]⟩⟩
  | clearAll =>
    obtain ⟨b', h1, h2, _, h4, h5, h6⟩ := clearAll_spec b hI.wf
    exact ⟨a, b', Err.ok, by simp only [modelStep, h1, Option.map_some], hmm,
      ⟨h2, by rw [h4]; exact hI.cap32, by rw [h4, h5]; exact hI.nodata⟩,
      Or.inl ⟨rfl, by rw [h6]; simp only [specStep, bits_length]⟩⟩
  | release =>
    obtain ⟨a', h1, h2⟩ := release_spec a b hI
    exact ⟨a', {}, Err.ok, by simp only [modelStep, h1], by rw [h2]; exact hmm, inv_empty,
      Or.inl ⟨rfl, by simp [bits, bitsList, specStep]⟩⟩
  | env s =>
    by_cases h : s.mallocMax < 2 ^ 29
    · exact ⟨s, b, Err.ok, by simp only [modelStep, h, if_true], h, hI, Or.inl ⟨rfl, rfl⟩⟩
    · exact ⟨a, b, Err.ok, by simp only [modelStep, h, if_false], hmm, hI, Or.inl ⟨rfl, rfl⟩⟩

/-- outcome of running a sequence: the model and the textbook list side by side -/
inductive Outcome where
  | done (a : Arena.State) (b : BitSet) (l : List Bool)
  /-- the model returned `none`: the C++ would touch memory outside its block -/
  | stuck
  /-- the client violated a precondition (assertion) of the operation -/
  | badCall

open Classical in
/-- run `ops`; the abstract list follows the model's `kOk` steps and ignores `kOutOfMemory` steps -/
noncomputable def run (a : Arena.State) (b : BitSet) (l : List Bool) : List BOp → Outcome
  | [] => .done a b l
  | op :: ops =>
    if op.pre l then
      match modelStep a b op with
      | none => .stuck
      | some (a', b', e) => run a' b' (if e = Err.ok then specStep l op else l) ops
    else .badCall

/-- **bitset_refines_bools** (modulo `ReallocUnfolds`): from any reachable state, any operation sequence, any
interleaving of allocation failures (`env`): the model is never `stuck`, and whenever the run completes the
invariant holds and the bits are exactly the textbook list.  As this holds for every `ops`, it holds after every
prefix, i.e. after every step; `step_refines` adds that a `kOutOfMemory` step returns the bit set unchanged. -/
theorem run_refines (hU : ReallocUnfolds) (ops : List BOp) :
    ∀ (a : Arena.State) (b : BitSet), Inv b → a.mallocMax < 2 ^ 29 →
      run a b (bits b) ops ≠ .stuck ∧
      ∀ a' b' l', run a b (bits b) ops = .done a' b' l' → Inv b' ∧ a'.mallocMax < 2 ^ 29 ∧ bits b' = l' := by
  induction ops with
  | nil =>
    intro a b hI hmm
    refine ⟨by simp [run], ?_⟩
    intro a' b' l' h
    simp only [run, Outcome.done.injEq] at h
    obtain ⟨h1, h2, h3⟩ := h
    subst h1 h2 h3
    exact ⟨hI, hmm, rfl⟩
  | cons op ops ih =>
    intro a b hI hmm
    by_cases hp : op.pre (bits b)
    · obtain ⟨a1, b1, e, h1, h2, h3, h4⟩ := step_refines hU a b op hI hmm hp
      have hl : (if e = Err.ok then specStep (bits b) op else bits b) = bits b1 := by
        rcases h4 with ⟨e1, e2⟩ | ⟨e1, e2⟩
        · rw [if_pos e1, e2]
        · rw [e1, e2]; simp
      have hrun : run a b (bits b) (op :: ops) = run a1 b1 (bits b1) ops := by
        simp only [run, hp, if_true, h1, hl]
      rw [hrun]
      exact ih a1 b1 h3 h2
    · have hrun : run a b (bits b) (op :: ops) = .badCall := by simp only [run, hp, if_false]
      rw [hrun]
      exact ⟨by simp, by intro a' b' l' h; cases h⟩

theorem bitset_refines_bools_partial (hU : ReallocUnfolds) (a : Arena.State) (hmm : a.mallocMax < 2 ^ 29)
    (ops : List BOp) :
    run a {} [] ops ≠ .stuck ∧
    ∀ a' b' l', run a {} [] ops = .done a' b' l' → Inv b' ∧ a'.mallocMax < 2 ^ 29 ∧ bits b' = l' :=
  run_refines hU ops a {} inv_empty hmm

/-- non-vacuity: a concrete sequence on the model (including a reallocation 64 → 128 bits and a `release`) -/
example :
    (do
      let (a1, b1, _) ← modelStep (Arena.init 1024 0) {} (.resize 3 true)
      let (a2, b2, _) ← modelStep a1 b1 (.append false)
      let (a3, b3, _) ← modelStep a2 b2 (.set 1 false)
      let (a4, b4, _) ← modelStep a3 b3 (.resize 130 false)
      let (_, b5, _) ← modelStep a4 b4 (.fill 126 3)
      pure (bitsOf b5.words 5, b5.size, getBit b5.words 127)) = some ([true, false, true, false, false], 130, some true) := by
  decide

end AsmjitVerif.Bits
