/- C09 refinement (model run ⊑ monitor): `JudgeOk` for alloc. -/
import AsmjitVerif.Lemmas.JitAllocSimAlloc2
namespace AsmjitVerif.JitAlloc
open Spec

theorem judge_alloc {g : Ghost} {s : St} (hS : Sim g s) (hG : Good s) (req : Nat) : JudgeOk g s (.alloc req) := by
  have hI := hG.inv
  have hG' := hG.step (.alloc req)
  unfold JudgeOk
  cases hr : s.a.alloc req with
  | mk a' r =>
  cases r with
  | error e =>
    have he : (s.a.alloc req).2 = .error e := by rw [hr]
    have ha : a' = s.a := by have := (alloc_spec req hI.toAInv hI.spans_fresh).1 e he; rw [hr] at this; exact this
    have hnr := alloc_err_req hI.wf hG.gran he
    have hstep : step s (.alloc req) = ({ a := a', tab := s.tab ++ [{ live := false, blk := 0, off := 0, size := 0 }] }, .err e) := by
      simp only [step, hr]
    rw [hstep]
    refine ⟨{ g with tab := g.tab ++ [deadGH] }, ?_, ?_⟩
    · have : (decide (1 ≤ req) && decide (req ≤ 1073741824)) = false := by
        cases hd : (decide (1 ≤ req) && decide (req ≤ 1073741824))
        · rfl
        · simp at hd; exact absurd hd hnr
      simp [judge, this]
    · have t := Trans.allocErr (s := s) req e he
      rw [hr] at t
      exact sim_append hS hI hG.mem deadGH t g.blocks (by rw [ha]; exact hS.blocks) (by intro hh; simp [deadGH] at hh)
  | ok sp =>
    have hok : (s.a.alloc req).2 = .ok sp := by rw [hr]
    have hstep : step s (.alloc req) = ({ a := a', tab := s.tab ++ [{ live := true, blk := sp.blk, off := sp.off, size := sp.size }] }, .span sp) := by
      simp only [step, hr]
    rw [hstep] at hG' ⊢
    have post := (alloc_spec req hI.toAInv hI.spans_fresh).2 sp hok
    rw [hr] at post
    obtain ⟨idx, k, hk, hoff, hsize, hreq, hal, hcfg, hnext, hA, ⟨bw, hbw, w1, w2, w3, w4, w5⟩, hpres, hdis⟩ := post
    have hcfg' : a'.cfg = s.a.cfg := hcfg
    obtain ⟨af1, af2, af3, af4, af5⟩ := alloc_fields hok
    have hgp := poolGran_pos hI.wf sp.pool
    have hDw := hG'.div bw hbw
    have eff := alloc_effect req sp hI.toAInv hok
    rw [hr] at eff
    have t := Trans.allocOk (s := s) req sp hok
    rw [hr] at t
    -- facts the monitor checks on the span itself
    have c1 : ¬ sp.size < req := by omega
    have hgmul : ∀ q, (q * s.a.cfg.poolGran sp.pool) % s.a.cfg.gran = 0 := by
      intro q; unfold Config.poolGran; rw [← Nat.mul_assoc, Nat.mul_right_comm]; exact Nat.mul_mod_left _ _
    have c2 : ¬ sp.off % g.cfg.gran ≠ 0 := by rw [hS.cfg, hoff]; simp [hgmul idx]
    have c3 : ¬ sp.size % g.cfg.gran ≠ 0 := by rw [hS.cfg]; simp [hal]
    have c6 : ¬ sp.pool ≥ g.cfg.poolCount := by
      have hp : bw.pool < a'.cfg.poolCount := hDw.pool
      rw [w2] at hp; rw [hS.cfg, ← hcfg']; omega
    have c7 : ¬ sp.off + sp.size > sp.blockSize := by
      have ha : bw.areaSize * a'.cfg.poolGran bw.pool = bw.blockSize := hDw.area
      rw [w2, w3, hcfg'] at ha
      rw [hoff, hsize, ← Nat.add_mul, ← ha]
      exact Nat.not_lt.mpr (Nat.mul_le_mul_right _ w5)
    have hpadw : bw.pad = g.pad := by
      have hpc : bw.pad = !a'.cfg.noPad := hDw.padc
      rw [hpc, hcfg']; simp [Ghost.pad, hS.cfg]
    have c8 : (g.pad && decide (sp.off < g.cfg.poolGran sp.pool)) = false := by
      cases hp : g.pad
      · rfl
      · rw [hp] at hpadw
        have := padN_pos bw hpadw
        have : 1 * s.a.cfg.poolGran sp.pool ≤ idx * s.a.cfg.poolGran sp.pool := Nat.mul_le_mul_right _ (by omega)
        simp [hS.cfg, hoff]; omega
    -- live spans of the block do not overlap the new span
    have c9 : (g.liveIn sp.blk).any (fun x => overlaps sp.off sp.size x.off x.size) = false := by
      rw [List.any_eq_false]
      intro x hx
      have hx' := hx
      simp only [Ghost.liveIn, List.mem_filter] at hx'
      obtain ⟨i, hi⟩ := List.getElem?_of_mem hx'.1
      have hlive : x.live = true ∧ x.blk = sp.blk := by simpa using hx'.2
      have hm : s.tab[i]? = some (toH x) := by rw [hS.getH, hi]; rfl
      obtain ⟨b2, hb2, e2, st, n, o1, o2⟩ := hI.owned i (toH x) hm hlive.1
      obtain ⟨b3, hb3, g1, g2⟩ := hpres b2 hb2
      have : b3 = bw := eq_of_id_eq hA.ids hb3 hbw (by rw [g1, e2, w1]; exact hlive.2)
      subst this
      have hp2 : b2.pool = sp.pool := by rw [← g2, w2]
      rw [hp2] at o1 o2
      have hd := hdis st n ⟨i, toH x, hm, hlive.1, hlive.2, o1, o2⟩
      have o1' : x.off = st * s.a.cfg.poolGran sp.pool := o1
      have o2' : x.size = n * s.a.cfg.poolGran sp.pool := o2
      simp only [overlaps, Bool.not_eq_true, Bool.and_eq_false_iff, decide_eq_false_iff_not]
      rw [hoff, hsize, o1', o2', ← Nat.add_mul, ← Nat.add_mul]
      rcases hd with d | d
      · left; exact Nat.not_lt.mpr (Nat.mul_le_mul_right _ d)
      · right; exact Nat.not_lt.mpr (Nat.mul_le_mul_right _ d)
    have hreq0 : req ≠ 0 := by
      intro h0; subst h0
      have hg0 := hI.wf.1
      have : alignUp 0 s.a.cfg.gran = 0 := by
        unfold alignUp
        rw [Nat.zero_add, Nat.div_eq_of_lt (by omega), Nat.zero_mul]
      exact af3 this
    have hin : ∀ (b' : Block), b' ∈ a'.blocks → b'.id = sp.blk → ∀ q, inSpan (a'.cfg.poolGran b'.pool) (toH ⟨true, sp.blk, sp.off, sp.size, none⟩) q →
        b' = bw ∧ idx ≤ q ∧ q < idx + k := by
      intro b' hb' e' q hq
      have : b' = bw := eq_of_id_eq hA.ids hb' hbw (by rw [e', w1])
      subst this
      refine ⟨rfl, ?_⟩
      unfold inSpan toH at hq
      simp only at hq
      rw [hcfg', w2, hoff, hsize, ← Nat.add_mul, Nat.mul_div_cancel _ hgp, Nat.mul_div_cancel _ hgp] at hq
      exact hq
    have hceil : (sp.size + g.cfg.poolGran sp.pool - 1) / g.cfg.poolGran sp.pool * g.cfg.poolGran sp.pool = sp.size := by
      rw [hS.cfg]
      exact ceil_mul_of_dvd _ _ hgp (by rw [hsize]; exact Nat.mul_mod_left _ _)
    cases hbq : g.block? sp.blk with
    | some gb =>
      -- the block is known: same pool and size
      have hgbm := List.mem_of_find?_eq_some hbq
      have hgbid : gb.id = sp.blk := by have := List.find?_some hbq; simpa using this
      rw [hS.blocks] at hgbm
      obtain ⟨b, hb, rfl⟩ := List.mem_map.mp hgbm
      have hbid : b.id = sp.blk := hgbid
      rcases eff with ⟨e1, _, _⟩ | ⟨fb, _, _, e3, _⟩
      · obtain ⟨b2, hb2, e2⟩ := exists_of_map_eq e1 b hb
        simp only [Prod.mk.injEq] at e2
        have : b2 = bw := eq_of_id_eq hA.ids hb2 hbw (by rw [e2.1, hbid, w1])
        subst this
        have hpool : (toGB b).pool = sp.pool := by show b.pool = sp.pool; rw [← e2.2.1, w2]
        have hsz : (toGB b).size = sp.blockSize := by show b.blockSize = sp.blockSize; rw [← e2.2.2, w3]
        refine ⟨{ g with tab := g.tab ++ [⟨true, sp.blk, sp.off, sp.size, none⟩] }, ?_, ?_⟩
        · simp only [judge, hreq0, if_false, Ghost.checkNewSpan, rwOf, c1, c2, c3, c6, c7, c8, c9, hbq, hpool, hsz]
          simp
        · refine sim_append hS hI hG.mem ⟨true, sp.blk, sp.off, sp.size, none⟩ t g.blocks
            (by rw [hS.blocks]; exact (map_toGB_of_triple e1).symm) ?_
          intro _
          refine ⟨rfl, ?_⟩
          intro b' hb' e' q hq hfill
          obtain ⟨hbe, q1, q2⟩ := hin b' hb' e' q hq
          rw [hbe]
          -- the granule was free before and `alloc` does not write
          have hmem := alloc_mem_frame req hI.toAInv hb
          rw [hr] at hmem
          have hm2 := hmem b2 hb2 e2.1
          unfold memAt
          rw [hm2, hcfg']
          obtain ⟨hB, _⟩ := hI.blk b hb
          have hq3 : q < b.areaSize := by
            have h1 : b2.areaSize * s.a.cfg.poolGran sp.pool = sp.blockSize := by
              have ha : b2.areaSize * a'.cfg.poolGran b2.pool = b2.blockSize := hDw.area
              rw [w2, w3, hcfg'] at ha; exact ha
            have h2 : b.areaSize * s.a.cfg.poolGran sp.pool = sp.blockSize := by
              have ha := (hG.div b hb).area
              have hp' : b.pool = sp.pool := hpool
              have hsz' : b.blockSize = sp.blockSize := hsz
              rw [hp', hsz'] at ha; exact ha
            have : b.areaSize = b2.areaSize := Nat.eq_of_mul_eq_mul_right hgp (by rw [h1, h2])
            omega
          apply (hG.mem b hb).fill (by rw [← hcfg']; exact hfill) q hq3
          cases hu : bit b.used q
          · exact Or.inl rfl
          · right
            rcases (hB.used q hq3).mp hu with hp | ⟨st, n, hSp, a1, a2⟩
            · exact hp
            · exfalso
              have hp' : b.pool = sp.pool := hpool
              rw [hbid, hp'] at hSp
              have := hdis st n hSp
              omega
      · exfalso
        have := hI.fresh b hb
        omega
    | none =>
      rcases eff with ⟨e1, _, _⟩ | ⟨fb, e1, e2, e3, e4, e5, _, _⟩
      · exfalso
        obtain ⟨b2, hb2, e2⟩ := exists_of_map_eq e1.symm bw hbw
        simp only [Prod.mk.injEq] at e2
        have := hS.block? hI hb2
        rw [e2.1, w1, hbq] at this
        simp at this
      · -- a new block: no block of the pool had room
        have hnogap : g.blocks.any (fun b => b.pool == sp.pool && g.hasGap b ((sp.size + g.cfg.poolGran sp.pool - 1) / g.cfg.poolGran sp.pool * g.cfg.poolGran sp.pool)) = false := by
          rw [List.any_eq_false]
          intro gb hgb
          rw [hS.blocks] at hgb
          obtain ⟨b, hb, rfl⟩ := List.mem_map.mp hgb
          cases hc : ((toGB b).pool == sp.pool && g.hasGap (toGB b) ((sp.size + g.cfg.poolGran sp.pool - 1) / g.cfg.poolGran sp.pool * g.cfg.poolGran sp.pool))
          · simp
          · exfalso
            simp only [Bool.and_eq_true, beq_iff_eq] at hc
            have hp' : b.pool = sp.pool := hc.1
            have hgap := hc.2
            rw [hceil, hsize, ← hp'] at hgap
            have hrun := hasGap_hasRun hS hG hb k hk hgap
            have hw := (allocIn_win hI.toAInv hG.win af3 (by rw [← af1]; exact hal)).2
            rw [← af1] at hw
            have hkk : (sp.size + s.a.cfg.poolGran (sizeToPoolId s.a.cfg sp.size) - 1) / s.a.cfg.poolGran (sizeToPoolId s.a.cfg sp.size) = k := by
              rw [← af2]
              have := ceil_mul_of_dvd sp.size _ hgp (by rw [hsize]; exact Nat.mul_mod_left _ _)
              rw [hsize] at this ⊢
              exact Nat.eq_of_mul_eq_mul_right hgp this
            have hids := hw ⟨b, hb, by rw [hp', af2], by rw [hkk]; exact hrun⟩
            have h5 : s.a.allocIn sp.size = (a', .ok sp) := by rw [af1, ← af5, hr]
            rw [h5] at hids
            have hl1 := congrArg List.length hids
            have hl2 := congrArg List.length e1
            simp at hl1 hl2
            omega
        refine ⟨{ g with tab := g.tab ++ [⟨true, sp.blk, sp.off, sp.size, none⟩],
                         blocks := g.blocks ++ [{ id := sp.blk, pool := sp.pool, size := sp.blockSize }] }, ?_, ?_⟩
        · simp only [judge, hreq0, if_false, Ghost.checkNewSpan, rwOf, c1, c2, c3, c6, c7, c8, c9, hbq, hnogap]
          simp
        · refine sim_append hS hI hG.mem ⟨true, sp.blk, sp.off, sp.size, none⟩ t _ ?_ ?_
          · have : a'.blocks.map toGB = (s.a.blocks ++ [fb]).map toGB := map_toGB_of_triple (by rw [e1]; simp)
            rw [this, List.map_append, hS.blocks]
            simp [toGB, e2, e3, e4, e5]
          · intro _
            refine ⟨rfl, ?_⟩
            intro b' hb' e' q hq hfill
            obtain ⟨hbe, q1, q2⟩ := hin b' hb' e' q hq
            have := alloc_new_mem req hI.toAInv
            rw [hr] at this
            rw [hcfg'] at hfill ⊢
            exact this b' hb' (by rw [e', e3]) hfill q (by rw [hbe]; omega)

end AsmjitVerif.JitAlloc
