/- C16 helper lemmas: every code-generation function of Model/Reuse.lean respects the observation
   (`(F h …).obs = (F h.obs …).obs`, same answers), so that the unwinding lemma covers generation too. -/
import AsmjitVerif.Lemmas.Reuse
namespace AsmjitVerif.Reuse

/-! ### holder level -/

theorem secBytes_obs (h : Holder) (s : Nat) : h.obs.secBytes s = h.secBytes s := rfl
theorem labels_obs (h : Holder) : h.obs.labels = h.labels := rfl
theorem secs_obs (h : Holder) : h.obs.secs = h.secs := rfl
theorem relocs_obs (h : Holder) : h.obs.relocs = h.relocs := rfl
theorem arch_obs (h : Holder) : h.obs.arch = h.arch := rfl

theorem write_resp (h : Holder) (s o : Nat) (d : List Nat) : (h.write s o d).obs = (h.obs.write s o d).obs := by
  simp [Holder.write, Holder.obs]

theorem patch_resp (h : Holder) (s o : Nat) (d : List Nat) : (h.patch s o d).obs = (h.obs.patch s o d).obs := by
  simp [Holder.patch, Holder.obs]

theorem addFixup_resp (h : Holder) (id : Nat) (f : Fixup) : (h.addFixup id f).obs = (h.obs.addFixup id f).obs := by
  simp [Holder.addFixup, Holder.alloc, Holder.obs]

/-- a holder function with extra results respects the observation -/
def Resp {α : Type} (F : Holder → Holder × α) : Prop := ∀ h, (F h).1.obs = (F h.obs).1.obs ∧ (F h).2 = (F h.obs).2

theorem Resp.congr {α : Type} {F : Holder → Holder × α} (hF : Resp F) {h1 h2 : Holder} (h : h1.obs = h2.obs) :
    (F h1).1.obs = (F h2).1.obs ∧ (F h1).2 = (F h2).2 := by
  have a := hF h1
  have b := hF h2
  rw [h] at a
  exact ⟨a.1.trans b.1.symm, a.2.trans b.2.symm⟩

theorem asmRaw_resp (c : Cur) (d : List Nat) : Resp (fun h => asmRaw h c d) := by
  intro h
  simp only [asmRaw]
  split
  · exact ⟨by simp [Holder.obs], rfl⟩
  · exact ⟨write_resp h _ _ _, rfl⟩

theorem asmSwitch_resp (c : Cur) (s : Nat) : Resp (fun h => asmSwitch h c s) := by
  intro h
  by_cases hc : s ≥ h.secs.length
  · have hc' : s ≥ h.obs.secs.length := hc
    simp only [asmSwitch, hc, hc', if_true]
    constructor <;> first | rfl | trivial
  · have hc' : ¬ s ≥ h.obs.secs.length := hc
    simp only [asmSwitch, hc, hc', if_false]
    constructor <;> first | rfl | trivial

theorem resolveFixups_resp (toSec toOff : Nat) (fs : List Fixup) : Resp (fun h => resolveFixups h toSec toOff fs) := by
  induction fs with
  | nil => intro h; exact ⟨by simp [resolveFixups, Holder.obs], rfl⟩
  | cons f r ih =>
    intro h
    simp only [resolveFixups]
    cases hr : f.reloc with
    | some rid =>
      simp only []
      have key : ({ h with relocs := updAt h.relocs rid fun re => { re with payload := re.payload + toOff, tgtSec := some toSec } } : Holder).obs =
          ({ h.obs with relocs := updAt h.obs.relocs rid fun re => { re with payload := re.payload + toOff, tgtSec := some toSec } } : Holder).obs := by
        simp [Holder.obs]
      have := Resp.congr ih key
      exact ⟨this.1, congrArg (fun t : Nat × List Fixup × String => (t.1 + 1, t.2.1, t.2.2)) this.2⟩
    | none =>
      simp only []
      split
      · have := ih h
        exact ⟨this.1, congrArg (fun t : Nat × List Fixup × String => (t.1, f :: t.2.1, t.2.2)) this.2⟩
      · split
        · rename_i bs _
          have := Resp.congr ih (patch_resp h toSec f.off bs)
          exact ⟨this.1, congrArg (fun t : Nat × List Fixup × String => (t.1 + 1, t.2.1, t.2.2)) this.2⟩
        · have := ih h
          exact ⟨this.1, congrArg (fun t : Nat × List Fixup × String => (t.1, f :: t.2.1, "InvalidDisplacement")) this.2⟩

theorem obs_eq_iff (a b : Holder) : a.obs = b.obs ↔
    a.arch = b.arch ∧ a.secs = b.secs ∧ a.labels = b.labels ∧ a.relocs = b.relocs ∧ a.unres = b.unres ∧ a.attached = b.attached ∧
      a.base = b.base ∧ a.initBase = b.initBase := by
  cases a; cases b; simp [Holder.obs]

theorem setUnres_congr (H1 H2 : Holder) (n1 n2 : Nat) (h : H1.obs = H2.obs) (hn : n1 = n2) :
    ({ H1 with unres := H1.unres - n1 } : Holder).obs = ({ H2 with unres := H2.unres - n2 } : Holder).obs := by
  subst hn
  rw [obs_eq_iff] at h ⊢
  obtain ⟨a1, a2, a3, a4, a5, a6, a7, a8⟩ := h
  exact ⟨a1, a2, a3, a4, by show H1.unres - n1 = H2.unres - n1; rw [a5], a6, a7, a8⟩

theorem bindLabel_resp (id toSec toOff : Nat) : Resp (fun h => h.bindLabel id toSec toOff) := by
  intro h
  simp only [Holder.bindLabel, labels_obs, secs_obs]
  cases hl : h.labels[id]? with
  | none => exact ⟨rfl, rfl⟩
  | some le =>
    simp only []
    by_cases h1 : toSec ≥ h.secs.length
    · simp only [h1, if_true]; constructor <;> first | rfl | trivial
    · simp only [h1, if_false]
      by_cases h2 : le.bound.isSome = true
      · simp only [h2, if_true]; constructor <;> first | rfl | trivial
      · simp only [h2, Bool.false_eq_true, ↓reduceIte]
        by_cases h3 : (le.fixups.any (fun f => f.reloc.isNone && f.sec == toSec &&
            (encodeFixup f.a64b ((toOff : Int) - (f.off : Int) + f.rel) f.size).isNone)) = true
        · simp only [h3, if_true]; constructor <;> first | rfl | trivial
        simp only [h3, Bool.false_eq_true, ↓reduceIte]
        have key : ({ h with labels := updAt h.labels id fun l => { l with bound := some (toSec, toOff), fixups := [] } } : Holder).obs =
            ({ h.obs with labels := updAt h.obs.labels id fun l => { l with bound := some (toSec, toOff), fixups := [] } } : Holder).obs := by
          simp [Holder.obs]
        have := Resp.congr (resolveFixups_resp toSec toOff le.fixups) key
        have e1 := this.1
        have e2 := this.2
        have en := congrArg (fun t : Nat × List Fixup × String => t.1) e2
        exact ⟨setUnres_congr _ _ _ _ e1 en, congrArg (fun t : Nat × List Fixup × String => t.2.2) e2⟩

theorem asmBind_resp (c : Cur) (id : Nat) : Resp (fun h => asmBind h c id) := by
  intro h
  have := bindLabel_resp id c.sec c.off h
  simp only [asmBind]
  exact ⟨this.1, congrArg (fun e : String => (({ c with cmt := false } : Cur), e)) this.2⟩

theorem asmJmpCore_resp (c : Cur) (id : Nat) : Resp (fun h => asmJmpCore h c id) := by
  intro h
  cases h with | mk a s l r u att lg tc ar bs ib =>
  simp only [asmJmpCore, Holder.obs]
  cases hl : l[id]? with
  | none => simp
  | some le =>
    simp only []
    by_cases ha : (a == some Arch.a64) = true
    · simp only [ha, if_true]
      cases hb : le.bound with
      | none => simp [Holder.write, Holder.addFixup, Holder.alloc]
      | some so =>
        obtain ⟨s0, tgt⟩ := so
        simp only []
        by_cases hs : (s0 == c.sec) = true
        · simp only [hs, if_true]
          cases encodeA64B ((tgt : Int) - (c.off : Int)) <;> simp [Holder.write]
        · simp only [hs]; simp
    · simp only [ha]
      cases hb : le.bound with
      | none => simp only [Bool.false_eq_true, if_false]; split <;> simp [Holder.write, Holder.addFixup, Holder.alloc]
      | some so =>
        obtain ⟨s0, tgt⟩ := so
        simp only [Bool.false_eq_true, if_false]
        split
        · split
          · simp [Holder.write]
          · split <;> simp [Holder.write]
        · simp

theorem jmpScratch_resp (h : Holder) (c : Cur) : (jmpScratch h c).obs = (jmpScratch h.obs c).obs := by
  cases h with | mk a s l r u att lg tc ar bs ib =>
  simp only [jmpScratch, Holder.obs]
  by_cases ha : (a == some Arch.a64) = true
  · simp only [ha, if_true]
  · simp only [ha]; simp [Holder.poke]

theorem asmJmp_resp (c : Cur) (id : Nat) : Resp (fun h => asmJmp h c id) := by
  intro h
  exact Resp.congr (asmJmpCore_resp c id) (jmpScratch_resp h c)

theorem asmElabelSz_resp (c : Cur) (id sz : Nat) : Resp (fun h => asmElabelSz h c id sz) := by
  intro h
  cases h with | mk a s l r u att lg tc ar bs ib =>
  simp only [asmElabelSz, Holder.obs]
  cases hl : l[id]? with
  | none => simp
  | some le =>
    simp only []
    by_cases hsz : (!(sz == 1 || sz == 2 || sz == 4 || sz == 8)) = true
    · simp only [hsz, if_true]; simp
    · simp only [hsz]
      cases hb : le.bound with
      | none => simp [Holder.write, Holder.addFixup, Holder.alloc]
      | some so => simp [Holder.write, Holder.alloc]

theorem asmElabel_resp (c : Cur) (id size : Nat) : Resp (fun h => asmElabel h c id size) := by
  intro h
  simp only [asmElabel, arch_obs]
  exact asmElabelSz_resp c id _ h

theorem newLabel_resp (name : List Nat) : Resp (fun h => h.newLabel name) := by
  intro h
  cases h with | mk a s l r u att lg tc ar bs ib =>
  simp only [Holder.newLabel, Holder.obs]
  by_cases h1 : name.isEmpty = true
  · simp [h1, Holder.alloc]
  · by_cases h2 : name.length > 2048
    · simp [h1, h2]
    · by_cases h3 : (l.any fun x => x.name == name) = true
      · simp only [h1, h2, h3]; simp
      · simp only [h1, h2, h3]; simp [Holder.alloc]

theorem newSection_resp (name : List Nat) : Resp (fun h => h.newSection name) := by
  intro h
  cases h with | mk a s l r u att lg tc ar bs ib =>
  simp only [Holder.newSection, Holder.obs]
  split <;> simp [Holder.alloc]

theorem nodeGen_resp (n : Node) (c : Cur) : Resp (fun h => nodeGen n h c) := by
  cases n
  case «section» s => exact asmSwitch_resp c s
  case label id => exact asmBind_resp c id
  case data bs => exact asmRaw_resp c bs
  case jmp id o => exact asmJmp_resp _ id
  case elabel id sz => exact asmElabel_resp c id sz

theorem serialize_resp (ns : List Node) : ∀ c, Resp (fun h => serialize h c ns) := by
  induction ns with
  | nil => intro c h; exact ⟨rfl, rfl⟩
  | cons n r ih =>
    intro c h
    simp only [serialize]
    have hn := nodeGen_resp n { c with cmt := false } h
    simp only [] at hn
    rw [hn.2]
    split
    · exact Resp.congr (ih (nodeGen n h.obs { c with cmt := false }).2.1) hn.1
    · refine ⟨hn.1, ?_⟩
      have := hn.2
      exact this

/-! ### emitter level -/

theorem cur_obs (e : Emitter) (hk : e.kind = .asm) : e.obs.cur = e.cur := by
  cases e with | mk k _ _ _ _ _ _ _ _ _ _ _ _ _ _ _ _ _ _ _ _ _ _ =>
  simp only at hk; subst hk; rfl

theorem setCur_resp (e : Emitter) (c : Cur) : (e.setCur c).obs = (e.obs.setCur c).obs := by
  cases e with | mk k _ _ _ _ _ _ _ _ _ _ _ _ _ _ _ _ _ _ _ _ _ _ =>
  cases k <;> simp [Emitter.setCur, Emitter.obs]

theorem addNode_resp (e : Emitter) (n : Node) (hk : e.kind ≠ .asm) : (e.addNode n).obs = (e.obs.addNode n).obs := by
  cases e with | mk k _ _ _ _ _ _ _ _ _ cur _ _ _ _ _ _ _ _ _ _ _ _ =>
  cases k <;> cases cur <;> simp_all [Emitter.addNode, Emitter.obs]

theorem bldSwitch_resp (e : Emitter) (s : Nat) (hk : e.kind ≠ .asm) : (e.bldSwitch s).obs = (e.obs.bldSwitch s).obs := by
  cases e with | mk k _ _ _ _ _ _ _ _ nodes _ _ _ _ _ _ _ _ _ _ _ _ _ =>
  cases k
  · simp at hk
  all_goals
    simp only [Emitter.bldSwitch, Emitter.obs]
    cases nodes.findIdx? (· == .section s) <;> simp

/-- field updates used by the step function -/
theorem upd_labelNodes_resp (e : Emitter) (x : Nat) (hk : e.kind ≠ .asm) :
    ({ e with labelNodes := x } : Emitter).obs = ({ e.obs with labelNodes := x } : Emitter).obs := by
  cases e with | mk k _ _ _ _ _ _ _ _ _ _ _ _ _ _ _ _ _ _ _ _ _ _ => cases k <;> simp_all [Emitter.obs]

theorem clearOneShot_resp (e : Emitter) :
    ({ e with instOpts := 0, comment := false } : Emitter).obs = ({ e.obs with instOpts := 0, comment := false } : Emitter).obs := by
  cases e with | mk k _ _ _ _ _ _ _ _ _ _ _ _ _ _ _ _ _ _ _ _ _ _ => cases k <;> simp [Emitter.obs]

theorem instOpts_obs (e : Emitter) : e.obs.instOpts = e.instOpts := by
  cases e with | mk k _ _ _ _ _ _ _ _ _ _ _ _ _ _ _ _ _ _ _ _ _ _ => cases k <;> rfl
theorem labelNodes_obs (e : Emitter) (hk : e.kind ≠ .asm) : e.obs.labelNodes = e.labelNodes := by
  cases e with | mk k _ _ _ _ _ _ _ _ _ _ _ _ _ _ _ _ _ _ _ _ _ _ => cases k <;> simp_all [Emitter.obs]
theorem nodes_obs (e : Emitter) (hk : e.kind ≠ .asm) : e.obs.nodes = e.nodes := by
  cases e with | mk k _ _ _ _ _ _ _ _ _ _ _ _ _ _ _ _ _ _ _ _ _ _ => cases k <;> simp_all [Emitter.obs]
theorem vregs_obs (e : Emitter) (hk : e.kind = .cmp) : e.obs.vregs = e.vregs := by
  cases e with | mk k _ _ _ _ _ _ _ _ _ _ _ _ _ _ _ _ _ _ _ _ _ _ => simp only at hk; subst hk; rfl
theorem janns_obs (e : Emitter) (hk : e.kind = .cmp) : e.obs.janns = e.janns := by
  cases e with | mk k _ _ _ _ _ _ _ _ _ _ _ _ _ _ _ _ _ _ _ _ _ _ => simp only at hk; subst hk; rfl

theorem upd_opts_resp (e : Emitter) (x : Nat) :
    ({ e with instOpts := x } : Emitter).obs = ({ e.obs with instOpts := x } : Emitter).obs := by
  cases e with | mk k _ _ _ _ _ _ _ _ _ _ _ _ _ _ _ _ _ _ _ _ _ _ => cases k <;> simp [Emitter.obs]
theorem upd_cmt_resp (e : Emitter) (x : Bool) :
    ({ e with comment := x } : Emitter).obs = ({ e.obs with comment := x } : Emitter).obs := by
  cases e with | mk k _ _ _ _ _ _ _ _ _ _ _ _ _ _ _ _ _ _ _ _ _ _ => cases k <;> simp [Emitter.obs]
theorem upd_vregs_resp (e : Emitter) (x : Nat) (hk : e.kind = .cmp) :
    ({ e with vregs := x } : Emitter).obs = ({ e.obs with vregs := x } : Emitter).obs := by
  cases e with | mk k _ _ _ _ _ _ _ _ _ _ _ _ _ _ _ _ _ _ _ _ _ _ => simp only at hk; subst hk; simp [Emitter.obs]
theorem upd_janns_resp (e : Emitter) (x : Nat) (hk : e.kind = .cmp) :
    ({ e with janns := x } : Emitter).obs = ({ e.obs with janns := x } : Emitter).obs := by
  cases e with | mk k _ _ _ _ _ _ _ _ _ _ _ _ _ _ _ _ _ _ _ _ _ _ => simp only at hk; subst hk; simp [Emitter.obs]

/-! ### world level -/

theorem obs_es_getElem? (w : World) (i : Nat) : w.obs.es[i]? = (w.es[i]?).map Emitter.obs := by
  simp [World.obs]

/-- replacing the holder and one emitter by observationally equal ones -/
theorem mk_setE_obs (es : List Emitter) (h1 h2 : Holder) (i : Nat) (e1 e2 : Emitter) (hh : h1.obs = h2.obs) (he : e1.obs = e2.obs) :
    (World.setE ⟨h1, es⟩ i e1).obs = (World.setE ⟨h2, es.map Emitter.obs⟩ i e2).obs := by
  simp only [World.setE, World.obs, hh]
  congr 1
  rw [updAt_map Emitter.obs (fun _ => e1) (fun _ => e1.obs) (fun _ => rfl),
      updAt_map Emitter.obs (fun _ => e2) (fun _ => e2.obs) (fun _ => rfl), he]
  simp [List.map_map, Function.comp_def, Emitter.obs_obs]

theorem mk_obs (es : List Emitter) (h1 h2 : Holder) (hh : h1.obs = h2.obs) :
    (World.mk h1 es).obs = (World.mk h2 (es.map Emitter.obs)).obs := by
  simp [World.obs, hh, List.map_map, Function.comp_def, Emitter.obs_obs]

end AsmjitVerif.Reuse
