/- Helper lemmas for Props/C15.lean: the oracle, `reserveAdd`, per-operation case analyses. -/
import AsmjitVerif.Spec.Fault
import AsmjitVerif.Lemmas.C18Vector
import AsmjitVerif.Lemmas.C18Arena
namespace AsmjitVerif.Fault
open AsmjitVerif

theorem req_nil : req [] = (false, []) := rfl

theorem req_faults (o o' : Oracle) (b : Bool) (h : req o = (b, o')) :
    faults o = faults o' + (if b then 1 else 0) := by
  cases o with
  | nil => simp [req] at h; obtain ⟨rfl, rfl⟩ := h; simp [faults]
  | cons x r =>
    simp [req] at h; obtain ⟨rfl, rfl⟩ := h
    cases x <;> simp [faults]

theorem req_faults_le (o o' : Oracle) (b : Bool) (h : req o = (b, o')) : faults o' ≤ faults o := by
  have := req_faults o o' b h; omega

theorem req_length_le (o o' : Oracle) (b : Bool) (h : req o = (b, o')) : o'.length ≤ o.length := by
  cases o with
  | nil => simp [req] at h; obtain ⟨_, rfl⟩ := h; simp
  | cons x r => simp [req] at h; obtain ⟨_, rfl⟩ := h; simp

/-- a failing request consumes one pending failure -/
theorem req_true_faults (o o' : Oracle) (h : req o = (true, o')) : faults o' < faults o := by
  have := req_faults o o' true h; simp at this; omega

/-- `reserveAdd` either leaves everything alone, or made one request -/
theorem reserveAdd_cases (o : Oracle) (size cap n item : Nat) :
    (reserveAdd o size cap n item = (o, cap, true) ∧ ¬ cap - size < n) ∨
    (∃ o1, req o = (true, o1) ∧ reserveAdd o size cap n item = (o1, cap, false) ∧ cap - size < n) ∨
    (∃ o1, req o = (false, o1) ∧ reserveAdd o size cap n item = (o1, growCap size n item, true) ∧ cap - size < n) := by
  unfold reserveAdd
  by_cases h : cap - size < n
  · simp only [h, if_true]
    rcases hr : req o with ⟨b, o1⟩
    cases b
    · right; right; exact ⟨o1, rfl, rfl, trivial⟩
    · right; left; exact ⟨o1, rfl, rfl, trivial⟩
  · left; simp [h]

theorem reserveAdd_faults (o o1 : Oracle) (size cap n item c : Nat) (b : Bool)
    (h : reserveAdd o size cap n item = (o1, c, b)) : faults o1 ≤ faults o ∧ (b = false → faults o1 < faults o) := by
  rcases reserveAdd_cases o size cap n item with ⟨h1, _⟩ | ⟨o2, hr, h1, _⟩ | ⟨o2, hr, h1, _⟩
  · rw [h1] at h; cases h; simp
  · rw [h1] at h; cases h; exact ⟨Nat.le_of_lt (req_true_faults _ _ hr), fun _ => req_true_faults _ _ hr⟩
  · rw [h1] at h; cases h; exact ⟨req_faults_le _ _ _ hr, by simp⟩

/-- the capacity `ArenaVector_grow` obtains really holds the requested items (the reserve-then-append discipline rests on it) -/
theorem growCap_ge (size n item : Nat) (hi : 0 < item) (hn : 0 < n) (hb : (size + n) * item + Vector.kGrowThreshold < Arena.u64) :
    size + n ≤ growCap size n item := by
  unfold growCap
  have hpos : 0 < (size + n) * item := Nat.mul_pos (by omega) hi
  have h1 : (size + n) * item ≤ Vector.expandByteSize ((size + n) * item) := Vector.expand_ge' _
  have h2 : Vector.expandByteSize ((size + n) * item) ≤ allocSize (Vector.expandByteSize ((size + n) * item)) := by
    unfold allocSize
    split
    · rename_i hs
      have hle := Vector.expand_le ((size + n) * item)
      exact (Vector.le_slotSize (by omega) (by omega) hs).1
    · exact Nat.le_refl _
  exact (Nat.le_div_iff_mul_le hi).mpr (Nat.le_trans h1 h2)


/-! ## an out-of-memory answer leaves the observable state alone: one lemma per operation -/

macro "oom_tac" h:ident : tactic =>
  `(tactic| (repeat' split at $h:ident) <;> (first | (cases $h:ident; done) | (cases $h:ident; rfl) | skip))

theorem newSection_oom (o o' : Oracle) (s s' : St) (nm : List Nat) (al : Nat) (ord : Int)
    (h : newSection o s nm al ord = (o', s', .oom)) : s'.v = s.v := by
  unfold newSection at h; oom_tac h

theorem newLabel_oom (o o' : Oracle) (s s' : St) (h : newLabel o s = (o', s', .oom)) : s'.v = s.v := by
  unfold newLabel at h; oom_tac h

theorem newNamed_oom (o o' : Oracle) (s s' : St) (nm : List Nat) (t p : Nat)
    (h : newNamed o s nm t p = (o', s', .oom)) : s'.v = s.v := by
  unfold newNamed at h; oom_tac h

theorem newReloc_oom (o o' : Oracle) (s s' : St) (t : Nat)
    (h : newReloc o s t = (o', s', .oom)) : s'.v = s.v := by
  unfold newReloc at h; oom_tac h

theorem exprTail_oom (s : St) (sc : Section) (cap1 : Nat) (r : Oracle × St × Err) (o' : Oracle) (s' : St)
    (hr : r.2.2 = .oom → r.2.1.v = s.v)
    (h : exprTail s sc cap1 r = (o', s', .oom)) : s'.v = s.v := by
  obtain ⟨o2, s2, e⟩ := r
  unfold exprTail at h
  simp only at h hr
  split at h
  · cases h; exact hr rfl
  · oom_tac h

theorem exprReloc_oom (o o' : Oracle) (s s' : St)
    (h : exprReloc o s = (o', s', .oom)) : s'.v = s.v := by
  unfold exprReloc at h
  repeat' split at h
  all_goals (first | (cases h; done) | (cases h; rfl) | skip)
  refine exprTail_oom _ _ _ _ _ _ ?_ h
  intro he
  generalize hnr : newReloc _ _ _ = r at he ⊢
  obtain ⟨o2, s2, e⟩ := r
  simp only at he; subst he
  have := newReloc_oom _ _ _ _ _ hnr
  simpa using this

theorem newFixup_oom (o o' : Oracle) (s s' : St) (h : newFixup o s = (o', s', .oom)) : s'.v = s.v := by
  unfold newFixup at h; oom_tac h

theorem freeFixup_oom (o o' : Oracle) (s s' : St) (h : freeFixup o s = (o', s', .oom)) : s'.v = s.v := by
  unfold freeFixup at h; oom_tac h

theorem emit_oom (o o' : Oracle) (s s' : St) (a b : Nat)
    (h : emit o s a b = (o', s', .oom)) : s'.v = s.v := by
  unfold emit at h; oom_tac h

theorem inst_oom (o o' : Oracle) (s s' : St) (a b : Nat)
    (h : inst o s a b = (o', s', .oom)) : s'.v = s.v := by
  unfold inst at h; oom_tac h

theorem jmpf_oom (o o' : Oracle) (s s' : St) (a : Nat)
    (h : jmpf o s a = (o', s', .oom)) : s'.v = s.v := by
  unfold jmpf at h; oom_tac h

theorem vappend_oom (o o' : Oracle) (s s' : St) (a : Nat)
    (h : vappend o s a = (o', s', .oom)) : s'.v = s.v := by
  unfold vappend at h; oom_tac h

theorem vreserve_oom (o o' : Oracle) (s s' : St) (a : Nat)
    (h : vreserve o s a = (o', s', .oom)) : s'.v = s.v := by
  unfold vreserve at h; oom_tac h

theorem sappend_oom (o o' : Oracle) (s s' : St) (a b : Nat)
    (h : sappend o s a b = (o', s', .oom)) : s'.v = s.v := by
  unfold sappend at h; oom_tac h

end AsmjitVerif.Fault
