/- C06 part 2 – from `emitArgsAssignment` to `judge`: initial machine state, destinations, the initial context is well formed. -/
import AsmjitVerif.Lemmas.C06ShufflePhase3
namespace AsmjitVerif.C06S
open AsmjitVerif.CallConv AsmjitVerif.Shuffle AsmjitVerif.Machine

theorem get_cons (x : Loc × Tok) (s : State) (l : Loc) :
    State.get (x :: s) l = if x.1 = l then some x.2 else State.get s l := by
  unfold State.get
  by_cases h : x.1 = l
  · simp [List.find?_cons, h]
  · have : (x.1 == l) = false := by simp [h]
    simp [List.find?_cons, this, h]

theorem getD_cons_succ {α} (x : α) (l : List α) (j : Nat) (d : α) : (x :: l).getD (j + 1) d = l.getD j d := by
  simp [List.getD_eq_getElem?_getD]
theorem getD_cons_zero {α} (x : α) (l : List α) (d : α) : (x :: l).getD 0 d = x := by
  simp [List.getD_eq_getElem?_getD]

theorem initFrom_get (vis : List VarInfo) : ∀ (rest : Vals) (k : Nat),
    (∀ j, j < rest.length → ∃ d, (rest.getD j dfltVal).2 = some d ∧ (rest.getD j dfltVal).1.isReg = true) →
    (∀ i j, i < rest.length → j < rest.length → i ≠ j →
      ¬ (groupOf (rest.getD i dfltVal).1.regType = groupOf (rest.getD j dfltVal).1.regType ∧
         (rest.getD i dfltVal).1.regId = (rest.getD j dfltVal).1.regId)) →
    ∀ j, j < rest.length →
      (initFrom vis k rest).get (.reg (groupOf (rest.getD j dfltVal).1.regType) (rest.getD j dfltVal).1.regId) =
        some (initTok vis (k + j)) := by
  intro rest
  induction rest with
  | nil => intro k _ _ j hj; simp at hj
  | cons x rest ih =>
    intro k hreg hdist j hj
    obtain ⟨src, dd⟩ := x
    obtain ⟨d, hd, hsr⟩ := hreg 0 (by simp)
    rw [getD_cons_zero] at hd hsr
    simp only at hd hsr
    subst hd
    have hloc : srcLoc src = some (.reg (groupOf src.regType) src.regId) := by simp [srcLoc, hsr]
    have hunf : initFrom vis k ((src, some d) :: rest) =
        (Loc.reg (groupOf src.regType) src.regId, initTok vis k) :: initFrom vis (k + 1) rest := by
      simp [initFrom, hloc]
    rw [hunf, get_cons]
    cases j with
    | zero => simp [getD_cons_zero]
    | succ j' =>
      rw [getD_cons_succ]
      have hne := hdist 0 (j' + 1) (by simp) hj (by omega)
      rw [getD_cons_zero, getD_cons_succ] at hne
      have : ¬ (Loc.reg (groupOf src.regType) src.regId =
          Loc.reg (groupOf (rest.getD j' dfltVal).1.regType) (rest.getD j' dfltVal).1.regId) := by
        intro h; simp only [Loc.reg.injEq] at h; exact hne h
      simp only [this, if_false]
      have := ih (k + 1)
        (fun i hi => by have := hreg (i + 1) (by simp; omega); rw [getD_cons_succ] at this; exact this)
        (fun a b ha hb hab => by
          have := hdist (a + 1) (b + 1) (by simp; omega) (by simp; omega) (by omega)
          rw [getD_cons_succ, getD_cons_succ] at this; exact this)
        j' (by simpa using hj)
      rw [this]; congr 2; omega

theorem destsFrom_all (M : State) : ∀ (rest : Vals) (k : Nat),
    (∀ j, j < rest.length → ∃ d, (rest.getD j dfltVal).2 = some d ∧ d.isReg = true ∧
        destOk M (k + j) (.reg (groupOf d.regType) d.regId) = true) →
    shuffleOk (destsFrom k rest) M = true := by
  intro rest
  induction rest with
  | nil => intro k _; simp [destsFrom, shuffleOk]
  | cons x rest ih =>
    intro k h
    obtain ⟨src, dd⟩ := x
    obtain ⟨d, hd, hdr, hok⟩ := h 0 (by simp)
    rw [getD_cons_zero] at hd
    simp only at hd
    subst hd
    have htail := ih (k + 1) (fun j hj => by
      obtain ⟨d', h1, h2, h3⟩ := h (j + 1) (by simp; omega)
      rw [getD_cons_succ] at h1
      exact ⟨d', h1, h2, by rw [show k + 1 + j = k + (j + 1) by omega]; exact h3⟩)
    unfold shuffleOk at htail ⊢
    simp only [destsFrom, List.all_cons, Bool.and_eq_true]
    refine ⟨?_, htail⟩
    simpa [dstLoc, hdr] using hok

def paramsOf (cfg : Cfg) (f : FrameIn) (vals : Vals) : Params :=
  { cfg := cfg, f := f, n := vals.length, src0 := vals.map (·.1),
    out0 := vals.map (fun pr => patchRegDst (pr.2.getD (.ofType 0))),
    vis := vals.map varInfoOf, M0 := initFrom (vals.map varInfoOf) 0 vals }

theorem getD_map_lt {α β} (l : List α) (f : α → β) (i : Nat) (d : α) (d' : β) (h : i < l.length) :
    (l.map f).getD i d' = f (l.getD i d) := by
  simp [List.getD_eq_getElem?_getD, List.getElem?_map, h]

theorem params_src (cfg : Cfg) (f : FrameIn) (vals : Vals) (i : Nat) (h : i < vals.length) :
    (paramsOf cfg f vals).src i = srcAt vals i := by
  unfold Params.src paramsOf srcAt; exact getD_map_lt _ _ _ dfltVal _ h
theorem params_out (cfg : Cfg) (f : FrameIn) (vals : Vals) (i : Nat) (h : i < vals.length) :
    (paramsOf cfg f vals).out i = patchRegDst (dstAt vals i) := by
  unfold Params.out paramsOf dstAt; exact getD_map_lt _ _ _ dfltVal _ h

/-- a variable that `init_work_data` marks done in place (same register) needs no conversion -/
def DoneInitOk (vals : Vals) : Prop :=
  ∀ i, i < vals.length →
    doneAtInit (srcAt vals i) (patchRegDst (dstAt vals i)) (groupOf (dstAt vals i).regType) (dstAt vals i).regId = true →
    (initTok (vals.map varInfoOf) i).dv = true

theorem w_map_range (c : Ctx) (F : Nat → WorkData) (g : Nat) (hwd : c.wd = (List.range 4).map F) :
    c.w g = if g < 4 then F g else {} := by
  unfold Ctx.w
  rw [hwd]
  by_cases h : g < 4
  · have : g = 0 ∨ g = 1 ∨ g = 2 ∨ g = 3 := by omega
    rcases this with rfl | rfl | rfl | rfl <;> simp [List.range, List.range.loop]
  · simp only [h, if_false]
    rw [List.getD_eq_getElem?_getD, List.getElem?_eq_none (by simp; omega)]; rfl

theorem w_default (c : Ctx) (g : Nat) (hwl : c.wd.length = 4) (h : ¬ g < 4) : c.w g = {} := by
  unfold Ctx.w
  rw [List.getD_eq_getElem?_getD, List.getElem?_eq_none (by omega)]; rfl

theorem replicate_getD (n r : Nat) : (List.replicate n (none : Option Nat)).getD r none = none := by
  rw [List.getD_eq_getElem?_getD, List.getElem?_replicate]; split <;> rfl
theorem replicate_getD_none (r : Nat) : (List.replicate 32 (none : Option Nat)).getD r none = none := replicate_getD 32 r

theorem wf_of_pinv (cfg : Cfg) (f : FrameIn) (vals : Vals) (hr : RegOnly vals) (hd0 : DoneInitOk vals) (c c2 : Ctx)
    (hP : PInv vals c vals.length) (F : Nat → WorkData) (hv : c2.vars = c.vars) (hwd : c2.wd = (List.range 4).map F)
    (hF : ∀ g, g < 4 → (F g).phys = (c.w g).phys) (hs : c2.hasStackSrc = c.hasStackSrc) :
    WF (paramsOf cfg f vals) { ctx := c2 } (paramsOf cfg f vals).M0 := by
  have hphys : ∀ g r, g < 4 → physAt c2 g r = physAt c g r := by
    intro g r hg; unfold physAt; rw [w_map_range c2 F g hwd]; simp only [hg, if_true]; rw [hF g hg]
  have hvar : ∀ i, c2.var i = c.var i := by intro i; unfold Ctx.var; rw [hv]
  refine ⟨by show c2.vars.length = vals.length; rw [hv]; exact hP.len, by show c2.wd.length = 4; rw [hwd]; simp, ?_, rfl, ?_, ?_, ?_⟩
  · intro g hg
    show (c2.w g).phys.length = 32
    rw [w_map_range c2 F g hwd]; simp only [hg, if_true]; rw [hF g hg]; exact hP.physlen g hg
  · intro i hi _
    have hi' : i < vals.length := hi
    show VarOK _ c2 _ i (c2.var i)
    obtain ⟨hdd, hpair⟩ := hr.pair i hi'
    obtain ⟨hgl, hdl⟩ := hP.lt i hi'
    rw [hvar, hP.var i hi']
    have hsrc := params_src cfg f vals i hi'
    have hout := params_out cfg f vals i hi'
    have hgrp : groupOf (srcAt vals i).regType = groupOf (patchRegDst (dstAt vals i)).regType := by
      rw [patch_regType]; exact hpair.grp
    refine ⟨hout.symm, hpair.srcReg, hpair.srcNotStk, by show (patchRegDst _).isReg = true; rw [patch_isReg]; exact hpair.dstReg, rfl, hgrp,
      by show groupOf (patchRegDst _).regType < 4; rw [patch_regType]; exact hgl, hpair.srcLt,
      by show (patchRegDst _).regId < 32; rw [patch_regId]; exact hdl, ?_, ?_, fun _ => by rw [hsrc]; exact hpair.srcReg⟩
    · show physAt c2 (groupOf (srcAt vals i).regType) (srcAt vals i).regId = some i
      rw [hphys _ _ (by rw [hpair.grp]; exact hgl)]; exact hP.phys i hi'
    · refine ⟨initTok (vals.map varInfoOf) i, ?_, rfl, fun _ => Or.inl ⟨by rw [hsrc]; rfl, by rw [hsrc]; rfl, rfl, fun h => h⟩, ?_⟩
      · have := initFrom_get (vals.map varInfoOf) vals 0
          (fun j hj => ⟨dstAt vals j, (hr.pair j hj).1, (hr.pair j hj).2.srcReg⟩)
          (fun a b ha hb hab => hr.dist a b ha hb hab) i hi'
        simpa [vloc, mkVar, srcAt, paramsOf] using this
      · intro hdone
        exact ⟨by
          have : (patchRegDst (dstAt vals i)).regId = (dstAt vals i).regId := patch_regId _
          simp only [mkVar, doneAtInit, Bool.and_eq_true, decide_eq_true_eq] at hdone
          show (srcAt vals i).regId = (patchRegDst (dstAt vals i)).regId
          rw [this]; exact hdone.1.symm, hd0 i hi' hdone⟩
  · -- no variable sits in a stack slot
    intro i hi hnr
    exfalso
    have hi' : i < vals.length := hi
    replace hnr : (c2.var i).cur.isReg = false := hnr
    rw [hvar, hP.var i hi'] at hnr
    have := (hr.pair i hi').2.srcReg
    simp only [mkVar] at hnr
    rw [this] at hnr; exact absurd hnr (by simp)
  · intro g r j hg hr' hj
    rw [hphys g r hg] at hj
    obtain ⟨a1, a2, a3⟩ := hP.inv g r j hj
    rw [hvar, hP.var j a1]
    exact ⟨a1, a2, a3, (hr.pair j a1).2.srcReg⟩

theorem initWorkData_wf (cfg : Cfg) (f : FrameIn) (vals : Vals) (hr : RegOnly vals) (hd0 : DoneInitOk vals) (ctx : Ctx)
    (h : initWorkData cfg.arch f 255 vals = .ok ctx) :
    WF (paramsOf cfg f vals) { ctx := ctx } (paramsOf cfg f vals).M0 ∧ ctx.stackDstMask = 0 := by
  unfold initWorkData at h
  simp only at h
  generalize hc0 : ({ wd := (List.range 4).map fun g =>
      { archRegs := if (g = 0 && f.fp) = true then (availableRegs cfg.arch).getD g 0 &&& not32 (1 <<< fpId cfg.arch)
                    else (availableRegs cfg.arch).getD g 0 } } : Ctx) = c0 at h
  have hwd0 : c0.wd = (List.range 4).map fun g =>
      ({ archRegs := if (g = 0 && f.fp) = true then (availableRegs cfg.arch).getD g 0 &&& not32 (1 <<< fpId cfg.arch)
                    else (availableRegs cfg.arch).getD g 0 } : WorkData) := by subst hc0; rfl
  have hP0 : PInv vals c0 0 := by
    have hw : ∀ g, (c0.w g).phys = List.replicate 32 none := by
      intro g; rw [w_map_range c0 _ g hwd0]; split <;> rfl
    refine ⟨by subst hc0; rfl, by rw [hwd0]; simp, fun g _ => by rw [hw]; simp, by subst hc0; rfl, by subst hc0; rfl, by subst hc0; rfl,
      fun i hi => absurd hi (by omega), fun i hi => absurd hi (by omega), fun i hi => absurd hi (by omega), ?_⟩
    intro g r j hj
    unfold physAt at hj; rw [hw, replicate_getD_none] at hj; exact absurd hj (by simp)
  cases hiv : initVars cfg.arch c0 0 vals with
  | error e => rw [hiv] at h; simp at h
  | ok r =>
    obtain ⟨c, re⟩ := r
    rw [hiv] at h
    simp only at h
    have hP := initVars_spec cfg.arch vals hr vals 0 c0 0 (by simp) (by omega) hP0 c re hiv
    have hss : c.hasStackSrc = false := hP.hss
    simp only [hss, Bool.false_and, Bool.false_or, bne_self_eq_false, Bool.and_false, Bool.false_eq_true, if_false,
      ne_eq, not_true_eq_false, decide_false, Bool.not_false] at h
    split at h
    · exact absurd h (by simp)
    · simp only [Bool.not_false, Bool.true_eq_false, if_false, if_true] at h
      cases h
      exact ⟨wf_of_pinv cfg f vals hr hd0 c _ hP
        (fun g => { archRegs := (c.w g).archRegs,
                    workRegs := (c.w g).archRegs &&& (f.dirty.getD g 0 ||| not32 (f.preserved.getD g 0)) ||| (c.w g).dstRegs |||
                      (c.w g).assignedMask,
                    dstRegs := (c.w g).dstRegs, phys := (c.w g).phys })
        rfl rfl (fun g _ => rfl) hss.symm, hP.sdm⟩

/-- **register-only assignments, end to end**: if `emit_args_assignment` returns `kOk`, the emitted list run on the machine from
    the state `setup` builds leaves every destination holding its argument in destination form -/
theorem shuffle_correct_regs (cfg : Cfg) (f : FrameIn) (vals : Vals) (hr : RegOnly vals) (hd0 : DoneInitOk vals)
    (hy : Hyp (paramsOf cfg f vals)) (hok : (emitArgsAssignment cfg f 255 vals).1 = none) :
    judge cfg.arch f vals (emitArgsAssignment cfg f 255 vals).2 = some true := by
  unfold emitArgsAssignment at hok ⊢
  simp only at hok ⊢
  cases hiw : initWorkData cfg.arch f 255 vals with
  | error e => rw [hiw] at hok; simp at hok
  | ok ctx =>
    rw [hiw] at hok
    obtain ⟨hwf, hsdm⟩ := initWorkData_wf cfg f vals hr hd0 ctx hiw
    have hn : ctx.vars.length = vals.length := hwf.len
    simp only [hsdm, ne_eq, not_true_eq_false, if_false, hn] at hok ⊢
    cases hl : shuffleLoop cfg vals.length (2 * vals.length + 2) { ctx := ctx } {} with
    | error x => (try rw [hl] at hok); simp at hok
    | ok e =>
      clear hok
      obtain ⟨M', hw', hdone⟩ := loop_ok (paramsOf cfg f vals) hy _ _ _ {} hwf rfl e hl
      -- every variable still is a register variable
      have hkind : ∀ j, j < vals.length → (e.ctx.var j).cur.isReg = true := by
        intro j hj
        cases hr' : (e.ctx.var j).cur.isReg with
        | true => rfl
        | false =>
          exfalso
          have hs := hw'.stk j hj hr'
          have h1 := hs.cur
          rw [params_src cfg f vals j hj] at h1
          rw [h1, (hr.pair j hj).2.srcReg] at hr'; exact absurd hr' (by simp)
      have hnoop := fun sa => phase3_noop (paramsOf cfg f vals) sa e M' hw' hkind (List.range vals.length) (fun j hj => List.mem_range.1 hj)
      have hnoop' : ∀ sa, List.foldlM (stackLoadVar cfg f sa) (e, 1) (List.range vals.length) = .ok (e, 1) := hnoop
      have hgoal : judge cfg.arch f vals e.out = some true := by
        unfold judge setup
        simp only
        have hrun : run (vals.map varInfoOf) f cfg.arch (initFrom (vals.map varInfoOf) 0 vals) e.out = some M' :=
          hw'.runs
        rw [hrun]
        simp only [Option.map_some, Option.some.injEq]
        apply destsFrom_all
        intro j hj
        have hv := hw'.var j hj (hkind j hj)
        obtain ⟨hdd, hpair⟩ := hr.pair j hj
        obtain ⟨tok, hget, htv, _, hd⟩ := hv.tok
        obtain ⟨hreg, hdv⟩ := hd (hdone j hj (hkind j hj))
        have hout : (e.ctx.var j).out = patchRegDst (dstAt vals j) := by rw [hv.out]; exact params_out cfg f vals j hj
        refine ⟨dstAt vals j, hdd, hpair.dstReg, ?_⟩
        unfold destOk
        have : M'.get (Loc.reg (groupOf (dstAt vals j).regType) (dstAt vals j).regId) = some tok := by
          rw [← patch_regType, ← patch_regId, ← hout, ← hv.grp, ← hreg]; exact hget
        simp [this, htv, hdv]
      cases hb : e.ctx.hasStackSrc
      · simp only [hb, Bool.not_false, if_true]; exact hgoal
      · simp only [hb, Bool.not_true, Bool.false_eq_true, if_false, hnoop', if_true]; exact hgoal

/-! ### executable mirror of `WF` / `RegOnly` for the runtime check of the driver (`wf0` op): every initial context the sweep
    reaches must satisfy the invariant the theorem starts from -/
def formB (p : Params) (i : Nat) (v : Var) (tok : Tok) : Bool :=
  (v.cur.typeId == (p.src i).typeId && v.cur.regType == (p.src i).regType && tok == initTok p.vis i) ||
  (v.cur.typeId == v.out.typeId && v.cur.regType == v.out.regType && tok.dv)

def varOkB (p : Params) (c : Ctx) (M : State) (i : Nat) (v : Var) : Bool :=
  v.out == p.out i && v.cur.isReg && !v.cur.isStack && v.out.isReg && v.outInit && groupOf v.cur.regType == groupOf v.out.regType &&
  decide (groupOf v.out.regType < 4) && decide (v.cur.regId < 32) && decide (v.out.regId < 32) &&
  physAt c (groupOf v.cur.regType) v.cur.regId == some i &&
  (match M.get (vloc v) with
   | some tok => tok.var == i && (v.done || formB p i v tok) && (!v.done || (v.cur.regId == v.out.regId && tok.dv)) &&
                 (v.done || !hasSwap p.cfg.arch (groupOf v.cur.regType) || tok == initTok p.vis i)
   | none => false) &&
  (v.done || !hasSwap p.cfg.arch (groupOf v.cur.regType) || v.cur == p.src i)

def wfB (p : Params) (e : Emit) (M : State) : Bool :=
  e.ctx.vars.length == p.n && e.ctx.wd.length == 4 && (List.range 4).all (fun g => (e.ctx.w g).phys.length == 32) &&
  run p.vis p.f p.cfg.arch p.M0 e.out == some M &&
  (List.range p.n).all (fun i => varOkB p e.ctx M i (e.ctx.var i)) &&
  (List.range 4).all (fun g => (List.range 32).all fun r =>
    match physAt e.ctx g r with
    | none => true
    | some j => decide (j < p.n) && groupOf (e.ctx.var j).cur.regType == g && (e.ctx.var j).cur.regId == r && (e.ctx.var j).cur.isReg)

def regOnlyB (vals : Vals) : Bool :=
  (List.range vals.length).all (fun i =>
    (vals.getD i dfltVal).2.isSome && (srcAt vals i).isReg && !(srcAt vals i).isStack && !(srcAt vals i).isIndirect && decide ((srcAt vals i).regId < 32) &&
    (dstAt vals i).isReg && groupOf (srcAt vals i).regType == groupOf (dstAt vals i).regType) &&
  (List.range vals.length).all (fun i => (List.range vals.length).all fun j =>
    i == j || !(groupOf (srcAt vals i).regType == groupOf (srcAt vals j).regType && (srcAt vals i).regId == (srcAt vals j).regId))

/-- `none`: not a register-only assignment, `DoneInitOk` fails (K7) or `init_work_data` refuses it; `some b`: does the initial context satisfy `WF`? -/
def doneInitOkB (vals : Vals) : Bool :=
  (List.range vals.length).all fun i =>
    !doneAtInit (srcAt vals i) (patchRegDst (dstAt vals i)) (groupOf (dstAt vals i).regType) (dstAt vals i).regId ||
    (initTok (vals.map varInfoOf) i).dv

def initialWfCheck (cfg : Cfg) (f : FrameIn) (vals : Vals) : Option Bool :=
  if !regOnlyB vals || !doneInitOkB vals then none else
  match initWorkData cfg.arch f 255 vals with
  | .error _ => none
  | .ok ctx => some (wfB (paramsOf cfg f vals) { ctx := ctx } (paramsOf cfg f vals).M0)

end AsmjitVerif.C06S
