/-
C18 — ArenaTree::remove, part 3: the loop invariant (heap state ↔ context/subtree) and the simulation of one
push-down iteration by `absStep` — cases without sibling rotation.
-/
import AsmjitVerif.Lemmas.C18TreeRem2
namespace AsmjitVerif.Tree.Rem
open AsmjitVerif.Tree AsmjitVerif.Tree.Spec

theorem _root_.AsmjitVerif.Tree.Spec.Rep.isRed_eq {h : Tree} {n : Nat} {t : T} (hr : Rep h n t) : t.isRed = isRed h n := by
  cases hr with
  | nil => simp [T.isRed, isRed]
  | @node n k c L R h2 hlt hk hc hL hR =>
    have : n ≠ 0 := by omega
    cases c <;> simp [T.isRed, isRed, this, hc]

theorem _root_.AsmjitVerif.Tree.Spec.Rep.isNil_iff {h : Tree} {n : Nat} {t : T} (hr : Rep h n t) : t.isNil = true ↔ n = 0 := by
  cases hr with
  | nil => simp [T.isNil]
  | node h2 => simp [T.isNil]; omega

theorem _root_.AsmjitVerif.Tree.Spec.Rep.acc {h : Tree} {n : Nat} {t : T} (hr : Rep h n t) (hn : n ≠ 0) :
    t.isNil = false ∧ t.rootIdx = n ∧ t.key = (nd h n).key ∧ t.isRed = (nd h n).red ∧ 2 ≤ n ∧ n < h.nodes.size ∧
    ∀ d, Rep h (getC (nd h n) d) (t.child d) := by
  cases hr with
  | nil => exact absurd rfl hn
  | @node n k c L R h2 hlt hk hc hL hR =>
    refine ⟨rfl, rfl, hk.symm, ?_, h2, hlt, ?_⟩
    · cases c <;> simp [T.isRed, hc]
    · intro d; cases d
      · simpa [getC, T.child] using hL
      · simpa [getC, T.child] using hR

def gIdx : List Frame → Nat
  | [] => 0
  | _ :: up => pIdx up

structure Inv (kn node : Nat) (st : RmState) (ctx : List Frame) (S : T) : Prop where
  size1 : 1 < st.t.nodes.size
  headl : (nd st.t 1).l = 0
  hkn : key st.t node = kn
  repc : RepC st.t ctx
  reps : Rep st.t (holeptr st.t ctx) S
  nodup : (S.idxs ++ ctxIdxs ctx).Nodup
  hq : st.q = pIdx ctx
  hdir : st.dir = dirOf ctx
  hp : st.p = gIdx ctx

theorem absStep_nodup (kn : Nat) (ctx : List Frame) (S : T) (hS : S.isNil = false)
    (hn : (S.idxs ++ ctxIdxs ctx).Nodup) :
    ((absStep kn ctx S).2.idxs ++ ctxIdxs (absStep kn ctx S).1).Nodup := by
  have e := congrArg (List.map Prod.fst) (absStep_io kn ctx S hS)
  rw [T.io_idxs, T.io_idxs] at e
  have p1 := plug_idxs_perm (absStep kn ctx S).1 (absStep kn ctx S).2
  have p2 := plug_idxs_perm ctx S
  rw [e] at p1
  exact (p1.symm.trans p2).nodup_iff.mpr hn

/-- common facts about the node `q` below the hole -/
theorem Inv.qfacts {kn node : Nat} {st : RmState} {ctx : List Frame} {S : T} (inv : Inv kn node st ctx S)
    (hS : S.isNil = false) :
    let q := holeptr st.t ctx
    q ≠ 0 ∧ child st.t st.q st.dir = q ∧ decide (key st.t q < key st.t node) = decide (S.key < kn) ∧
    S.rootIdx = q ∧ S.key = (nd st.t q).key ∧ S.isRed = (nd st.t q).red ∧ 2 ≤ q ∧ q < st.t.nodes.size ∧
    (∀ d, Rep st.t (getC (nd st.t q) d) (S.child d)) ∧ isRed st.t q = S.isRed ∧
    (∀ d, isRed st.t (child st.t q d) = (S.child d).isRed) := by
  intro q
  have hq0 : q ≠ 0 := by
    intro e; have := inv.reps.isNil_iff.mpr e; simp [hS] at this
  obtain ⟨_, hri, hkey, hred, hq2, hqs, hch⟩ := inv.reps.acc hq0
  refine ⟨hq0, ?_, ?_, hri, hkey, hred, hq2, hqs, hch, inv.reps.isRed_eq.symm, fun d => (hch d).isRed_eq.symm⟩
  · rw [inv.hq, inv.hdir]; rfl
  · rw [inv.hkn, hkey]; rfl

theorem inv_noop {kn node : Nat} {st : RmState} {ctx : List Frame} {S : T} (inv : Inv kn node st ctx S)
    (hS : S.isNil = false) (ht : (stepState node st).t = st.t) (hp : (stepState node st).p = st.q)
    (hn : ((S.child (decide (S.key < kn))).idxs ++
      ctxIdxs (⟨S.rootIdx, S.key, S.isRed, decide (S.key < kn), S.child (!decide (S.key < kn))⟩ :: ctx)).Nodup) :
    Inv kn node (stepState node st)
      (⟨S.rootIdx, S.key, S.isRed, decide (S.key < kn), S.child (!decide (S.key < kn))⟩ :: ctx)
      (S.child (decide (S.key < kn))) := by
  obtain ⟨hq0, hq, hd, hri, hkey, hred, hq2, hqs, hch, hrq, hrc⟩ := inv.qfacts hS
  refine ⟨ht ▸ inv.size1, ht ▸ inv.headl, ht ▸ inv.hkn, ?_, ?_, hn, ?_, ?_, ?_⟩
  · rw [ht]
    exact ⟨hri ▸ hq2, hri ▸ hqs, by rw [hri, hkey], by rw [hri, hred], by rw [hri]; exact hch _, hri.symm, inv.repc⟩
  · rw [ht]; simp only [holeptr, pIdx, dirOf]; rw [hri]; exact hch _
  · rw [step_q, hq, hri]; rfl
  · rw [step_dir, hq, hd]; rfl
  · rw [hp, inv.hq]; rfl

theorem pIdx_mem (ctx : List Frame) : pIdx ctx = 1 ∨ pIdx ctx ∈ ctxIdxs ctx := by
  cases ctx with
  | nil => left; rfl
  | cons F up => right; simp [pIdx, ctxIdxs]

theorem RepC.ge2 {h : Tree} {ctx : List Frame} (hr : RepC h ctx) : ∀ i ∈ ctxIdxs ctx, 2 ≤ i ∧ i < h.nodes.size := by
  induction ctx with
  | nil => intro i hi; simp [ctxIdxs] at hi
  | cons F up ih =>
    obtain ⟨a, b, c, d, e, f, g⟩ := hr
    intro i hi
    simp only [ctxIdxs, List.mem_cons, List.mem_append] at hi
    rcases hi with rfl | hi | hi
    · exact ⟨a, b⟩
    · exact e.ge2 i hi
    · exact ih g i hi

/-- frame lemma for a context whose hole link (and nothing else relevant) was overwritten -/
theorem RepC.frame_hole {h h' : Tree} {ctx : List Frame} (hr : RepC h ctx) (hs : h'.nodes.size = h.nodes.size)
    (hnd : (ctxIdxs ctx).Nodup)
    (hn : ∀ i, i ≠ pIdx ctx → (i = 1 ∨ i ∈ ctxIdxs ctx) → nd h' i = nd h i)
    (hk : (nd h' (pIdx ctx)).key = (nd h (pIdx ctx)).key) (hc : (nd h' (pIdx ctx)).red = (nd h (pIdx ctx)).red)
    (hl : getC (nd h' (pIdx ctx)) (!dirOf ctx) = getC (nd h (pIdx ctx)) (!dirOf ctx)) : RepC h' ctx := by
  cases ctx with
  | nil => trivial
  | cons G up =>
    have hge := hr.ge2
    obtain ⟨a, b, c, d, e, f, g⟩ := hr
    simp only [pIdx, dirOf] at hn hk hc hl
    simp only [ctxIdxs, List.nodup_cons, List.mem_append, not_or] at hnd
    obtain ⟨⟨hG1, hG2⟩, hnd'⟩ := hnd
    have h1 : nd h' 1 = nd h 1 := hn 1 (by omega) (Or.inl rfl)
    have hup : ∀ i ∈ ctxIdxs up, nd h' i = nd h i := fun i hi =>
      hn i (fun e => hG2 (e ▸ hi)) (Or.inr (by simp [ctxIdxs, hi]))
    refine ⟨a, hs ▸ b, hk ▸ c, hc ▸ d, ?_, ?_, g.frame hs h1 hup⟩
    · rw [hl]; exact e.frame hs (fun i hi => hn i (fun e => hG1 (e ▸ hi)) (Or.inr (by simp [ctxIdxs, hi])))
    · unfold holeptr at f ⊢
      rcases pIdx_mem up with e1 | e1
      · rw [e1] at f ⊢; rw [h1]; exact f
      · rw [hup _ e1]; exact f

theorem pIdx_ne {ctx : List Frame} {i : Nat} (h2 : 2 ≤ i) (hni : i ∉ ctxIdxs ctx) : i ≠ pIdx ctx := by
  rcases pIdx_mem ctx with e | e
  · omega
  · intro e'; exact hni (e' ▸ e)

theorem Inv.pfacts {kn node : Nat} {st : RmState} {ctx : List Frame} {S : T} (inv : Inv kn node st ctx S) :
    pIdx ctx ≠ 0 ∧ pIdx ctx < st.t.nodes.size ∧ (pIdx ctx = 1 → dirOf ctx = true) := by
  have := inv.size1
  cases ctx with
  | nil => simp [pIdx, dirOf]; omega
  | cons F up =>
    have := inv.repc.1; have := inv.repc.2.1
    simp only [pIdx]; refine ⟨by omega, by omega, by omega⟩

theorem setChild_nd (h : Tree) (p : Nat) (d : Bool) (c : Nat) (hp0 : p ≠ 0) (hps : p < h.nodes.size) :
    ∀ n, nd (setChild h p d c) n = if n = p then setC (nd h p) d c else nd h n := by
  intro n; simp only [setChild_eq, nd_upd]
  by_cases hn : n = p <;> simp [hn, hp0, hps]

theorem setChild_size (h : Tree) (p : Nat) (d : Bool) (c : Nat) : (setChild h p d c).nodes.size = h.nodes.size := by
  simp only [setChild_eq, size_upd]

/-- rotation at `q` (its far child is red) -/
theorem inv_rot {kn node : Nat} {st : RmState} {ctx : List Frame} {S : T} (inv : Inv kn node st ctx S)
    (hS : S.isNil = false) (d : Bool) (hdd : decide (S.key < kn) = d)
    (c1 : S.isRed = false) (c2 : (S.child d).isRed = false) (c3 : (S.child (!d)).isRed = true)
    (hn : ((S.child d).idxs ++
      ctxIdxs (⟨S.rootIdx, S.key, true, d, (S.child (!d)).child d⟩ ::
        ⟨(S.child (!d)).rootIdx, (S.child (!d)).key, false, d, (S.child (!d)).child (!d)⟩ :: ctx)).Nodup) :
    Inv kn node (stepState node st)
      (⟨S.rootIdx, S.key, true, d, (S.child (!d)).child d⟩ ::
        ⟨(S.child (!d)).rootIdx, (S.child (!d)).key, false, d, (S.child (!d)).child (!d)⟩ :: ctx)
      (S.child d) := by
  obtain ⟨hq0, hq, hd, hri, hkey, hred, hq2, hqs, hch, hrq, hrc⟩ := inv.qfacts hS
  obtain ⟨hp0, hps, hp1⟩ := inv.pfacts
  rw [hdd] at hd
  have i1 := inv.size1; have i2 := inv.headl; have i3 := inv.hkn; have i4 := inv.repc
  generalize hh : st.t = h at *
  generalize hqq : holeptr h ctx = q at *
  -- the red far child
  have hs0 : getC (nd h q) (!d) ≠ 0 := by
    intro e; have := (hch (!d)).isNil_iff.mpr e; rw [T.isRed_notNil c3] at this; cases this
  obtain ⟨_, sri, skey, sred, hs2, hss, sch⟩ := (hch (!d)).acc hs0
  generalize hsv : getC (nd h q) (!d) = s at *
  rw [hri, sri] at hn ⊢
  simp only [ctxIdxs, List.nodup_append, List.nodup_cons, List.mem_append, List.mem_cons, not_or] at hn
  obtain ⟨nA, ⟨⟨qB, qs, qC, qD⟩, nB, ⟨⟨sC, sD⟩, nC, nD, dCD⟩, dB⟩, dA⟩ := hn
  have hpq : q ≠ pIdx ctx := pIdx_ne hq2 qD
  have hpsn : s ≠ pIdx ctx := pIdx_ne hs2 sD
  obtain ⟨r1, r2, r3, r4⟩ := singleRotate_nd h q d s hsv hq0 hqs hs0 hss (Ne.symm qs)
  obtain ⟨t1, t2⟩ := step_rot node st q d (hh ▸ hq) (hh ▸ hd) (by rw [hh, hrq, c1]) (by rw [hh, hrc, c2])
    (by rw [hh, hrc, c3])
  rw [hh, r1, inv.hq, inv.hdir] at t1
  rw [hh, r1] at t2
  generalize (singleRotate h q d).1 = h1 at *
  have e' : ∀ n, nd (stepState node st).t n =
      if n = pIdx ctx then setC (nd h (pIdx ctx)) (dirOf ctx) s
      else if n = s then setR (setC (nd h s) d q) false
      else if n = q then setR (setC (nd h q) (!d) (getC (nd h s) d)) true
      else nd h n := by
    intro n
    rw [t1, setChild_nd h1 _ _ _ hp0 (r2 ▸ hps) n, r4 n, r4 (pIdx ctx)]
    simp [Ne.symm hpq, Ne.symm hpsn]
  have es : (stepState node st).t.nodes.size = h.nodes.size := by rw [t1, setChild_size, r2]
  generalize hh' : (stepState node st).t = h' at t1 e' es
  have ekey : ∀ n, (nd h' n).key = (nd h n).key := by
    intro n; rw [e' n]; split
    · rename_i e; rw [e]; simp
    · split
      · rename_i e; rw [e]; simp
      · split
        · rename_i e; rw [e]; simp
        · rfl
  have frameA : ∀ i ∈ (S.child d).idxs, nd h' i = nd h i := by
    intro i hi
    have h2 := ((hch d).ge2 i hi).1
    have := dA i hi i
    rw [e' i, if_neg (pIdx_ne h2 (fun hm => this (by simp [hm]) rfl)),
      if_neg (fun e => this (by simp [e]) rfl), if_neg (fun e => this (by simp [e]) rfl)]
  have frameB : ∀ i ∈ ((S.child (!d)).child d).idxs, nd h' i = nd h i := by
    intro i hi
    have h2 := ((sch d).ge2 i hi).1
    have := dB i hi i
    rw [e' i, if_neg (pIdx_ne h2 (fun hm => this (by simp [hm]) rfl)),
      if_neg (fun e => this (by simp [e]) rfl), if_neg (by intro e; subst e; exact qB hi)]
  have frameC : ∀ i ∈ ((S.child (!d)).child (!d)).idxs, nd h' i = nd h i := by
    intro i hi
    have h2 := ((sch (!d)).ge2 i hi).1
    rw [e' i, if_neg (pIdx_ne h2 (fun hm => dCD i hi i hm rfl)),
      if_neg (by intro e; subst e; exact sC hi), if_neg (by intro e; subst e; exact qC hi)]
  have eq' : nd h' q = setR (setC (nd h q) (!d) (getC (nd h s) d)) true := by
    rw [e' q, if_neg hpq, if_neg qs, if_pos rfl]
  have es' : nd h' s = setR (setC (nd h s) d q) false := by
    rw [e' s, if_neg hpsn, if_pos rfl]
  have ep' : nd h' (pIdx ctx) = setC (nd h (pIdx ctx)) (dirOf ctx) s := by
    rw [e' _, if_pos rfl]
  refine ⟨?_, ?_, ?_, ?_, ?_, ?_, ?_, ?_, ?_⟩ <;> (try simp only [hh'])
  · rw [es]; exact i1
  · -- head.l
    by_cases h1p : pIdx ctx = 1
    · rw [← h1p, ep', hp1 h1p]; simp only [setC, if_true]; rw [h1p]; exact i2
    · rw [e' 1, if_neg (Ne.symm h1p), if_neg (by omega), if_neg (by omega)]; exact i2
  · show (nd h' node).key = kn
    rw [ekey]; exact i3
  · refine ⟨hq2, es ▸ hqs, ?_, ?_, ?_, ?_, ⟨hs2, es ▸ hss, ?_, ?_, ?_, ?_, ?_⟩⟩
    · rw [ekey, hkey]
    · rw [eq']; rfl
    · rw [eq']; simp; exact (sch d).frame es frameB
    · simp only [holeptr, pIdx, dirOf]; rw [es']; simp
    · rw [ekey, skey]
    · rw [es']; rfl
    · rw [es']; simp; exact (sch (!d)).frame es frameC
    · simp only [holeptr]; rw [ep']; simp
    · apply i4.frame_hole es nD
      · intro i hi hm
        rw [e' i, if_neg hi]
        rcases hm with rfl | hm
        · rw [if_neg (by omega), if_neg (by omega)]
        · rw [if_neg (by intro e; subst e; exact sD hm), if_neg (by intro e; subst e; exact qD hm)]
      · rw [ekey]
      · rw [ep']; simp
      · rw [ep']; simp
  · simp only [holeptr, pIdx, dirOf]; rw [eq']; simp
    exact (hch d).frame es frameA
  · simp only [ctxIdxs, List.nodup_append, List.nodup_cons, List.mem_append, List.mem_cons, not_or]
    exact ⟨nA, ⟨⟨qB, qs, qC, qD⟩, nB, ⟨⟨sC, sD⟩, nC, nD, dCD⟩, dB⟩, dA⟩
  · rw [step_q, hh, hq]; rfl
  · rw [step_dir, hh, hq, hd]; rfl
  · rw [t2]; rfl

end AsmjitVerif.Tree.Rem
