/- C09 refinement (model run ⊑ monitor): `JudgeOk` (monitor accepts one model step and the simulation is kept) for the operations without state change. -/
import AsmjitVerif.Lemmas.JitAllocSimStats
namespace AsmjitVerif.JitAlloc
open Spec

/-- the rw offset the protocol reports for an answer (the model's views share offsets) -/
def rwOf : Ans → Nat
  | .span sp => sp.off
  | _ => 0

/-- what has to be shown per operation: the monitor's judgement of the model's answer succeeds and the ghost stays in step -/
def JudgeOk (g : Ghost) (s : St) (op : Op) : Prop :=
  ∃ g', judge g op (step s op).2 (rwOf (step s op).2) g.cfg.dual (step s op).1.a.stats = .ok g' ∧ Sim g' (step s op).1

theorem judge_isinit {g : Ghost} {s : St} (hS : Sim g s) (hG : Good s) : JudgeOk g s .isinit := by
  have := hG.inv.wf.2
  refine ⟨g, ?_, hS⟩
  simp only [step, judge]
  have : (s.a.cfg.blockSize != 0) = true := by simp; omega
  simp [this]

theorem judge_rforeign {g : Ghost} {s : St} (hS : Sim g s) (k : Nat) : JudgeOk g s (.rforeign k) := ⟨g, by simp [step, judge], hS⟩
theorem judge_qforeign {g : Ghost} {s : St} (hS : Sim g s) (k : Nat) : JudgeOk g s (.qforeign k) := ⟨g, by simp [step, judge], hS⟩
theorem judge_sforeign {g : Ghost} {s : St} (hS : Sim g s) : JudgeOk g s .sforeign := ⟨g, by simp [step, judge], hS⟩
theorem judge_dump {g : Ghost} {s : St} (hS : Sim g s) : JudgeOk g s .dump := ⟨g, by simp [step, judge], hS⟩

theorem judge_blocks {g : Ghost} {s : St} (hS : Sim g s) (hG : Good s) : JudgeOk g s .blocks := by
  refine ⟨g, ?_, hS⟩
  simp only [step, judge]
  have : blockListOf s.a = g.blocks.map (fun b => (b.id, b.pool, b.size, g.pad)) := by
    rw [hS.blocks, List.map_map]
    unfold blockListOf
    apply List.map_congr_left
    intro b hb
    simp only [Function.comp, toGB, Ghost.pad, hS.cfg, (hG.div b hb).padc]
  simp [this]

end AsmjitVerif.JitAlloc
