/- C06 part 2 – every register group: float / double / vector variables in vector registers, opmask variables in k registers and
   `__m64` variables in mm registers satisfy the selection hypotheses of `shuffle_correct_regs`, like integers in GP registers. -/
import AsmjitVerif.Lemmas.C06ShuffleTypedCore
namespace AsmjitVerif.C06S
open AsmjitVerif.CallConv AsmjitVerif.Shuffle AsmjitVerif.Machine

def vecRts (a : Arch) : List Nat := if a = .a64 then [7, 8, 9, 10, 11] else [11, 12, 13]

/-- the kinds of register variables covered: a concrete integer in a 32/64-bit GP register wide enough for it; a float, double or
    vector in a vector register (x86: xmm/ymm/zmm, AArch64: b/h/s/d/q views); on x86 an opmask type in a k register or an `__m64` in
    an mm register.  `st`/`rtS`: type and register type of the source, `dt`/`rtD`: of the destination. -/
def KindOk (a : Arch) (st rtS dt rtD : Nat) : Prop :=
  (st ∈ intTys ∧ rtS ∈ [5, 6] ∧ dt ∈ intTys ∧ rtD ∈ [5, 6] ∧ tySize st ≤ regBytes rtS ∧ tySize dt ≤ regBytes rtD) ∨
  (st ∈ fvTys ∧ dt ∈ fvTys ∧ rtS ∈ vecRts a ∧ rtD ∈ vecRts a) ∨
  (a ≠ .a64 ∧ st ∈ maskTys ∧ dt ∈ maskTys ∧ rtS = 16 ∧ rtD = 16) ∨
  (a ≠ .a64 ∧ st ∈ mmTys ∧ dt ∈ mmTys ∧ rtS = 28 ∧ rtD = 28)

def TypedRegs (a : Arch) (vals : Vals) : Prop :=
  ∀ i, i < vals.length →
    KindOk a (srcAt vals i).typeId (srcAt vals i).regType (patchRegDst (dstAt vals i)).typeId (dstAt vals i).regType

theorem vecRts_group {a : Arch} {rt : Nat} (h : rt ∈ vecRts a) : groupOf rt = 1 := by
  have hall : ∀ r ∈ [7, 8, 9, 10, 11, 12, 13], groupOf r = 1 := by decide
  apply hall
  unfold vecRts at h
  split at h <;> simp at h ⊢ <;> omega

theorem mem_bool (b : Bool) : b ∈ [false, true] := by cases b <;> simp

/-- `Hyp.first` / `Hyp.again` for every covered kind, every register id -/
theorem typed_moves_ok (cfg : Cfg) (hcfg : cfg ∈ x86Cfgs ∨ cfg.arch = .a64) (vis : List VarInfo) (i dt st rtD rtS : Nat)
    (hk : KindOk cfg.arch st rtS dt rtD) (hvi : vis[i]? = some ⟨st, dt⟩) (d s : Nat) :
    moveOkAt cfg vis rtD dt rtS st (initTok vis i) d s = true ∧
    ∀ b, moveOkAt cfg vis rtD dt rtD dt ⟨i, b, true⟩ d s = true := by
  have harch : cfg ∈ x86Cfgs → cfg.arch ≠ .a64 := by
    have hall : ∀ c ∈ x86Cfgs, c.arch ≠ .a64 := by decide
    exact hall cfg
  rcases hk with ⟨hst, hrs, hdt, hrd, _, _⟩ | ⟨hst, hdt, hrs, hrd⟩ | ⟨hx, hst, hdt, rfl, rfl⟩ | ⟨hx, hst, hdt, rfl, rfl⟩
  · rcases hcfg with hc | hc
    · exact x86_int_moves_ok cfg hc vis i dt st rtD rtS hdt hst hrd hrs hvi d s
    · exact a64_int_moves_ok cfg hc vis i dt st rtD rtS hdt hst hrd hrs hvi d s
  · obtain ⟨h0, h1, h2, h3⟩ := fv_facts dt hdt
    have hgd := vecRts_group hrd
    rcases hcfg with hc | hc
    · have hx := harch hc
      have hrs' : rtS ∈ [11, 12, 13] := by simpa [vecRts, hx] using hrs
      have hrd' : rtD ∈ [11, 12, 13] := by simpa [vecRts, hx] using hrd
      obtain ⟨c1, _, _⟩ := x86_vec_core cfg.avx (mem_bool _) dt hdt st hst rtS hrs'
      obtain ⟨_, c2, c3⟩ := x86_vec_core cfg.avx (mem_bool _) dt hdt st hst rtD hrd'
      refine ⟨?_, fun b => ?_⟩
      · rw [moveOkAt_x86 cfg hx, initTok_single vis i _ hvi, selOkTok_single cfg vis i _ hvi, selOkTok_cfg,
          selOkTok_vec_dst _ _ _ _ _ _ _ h0 h1 h2 h3 hgd]; exact c1
      · rw [moveOkAt_x86 cfg hx, selOkTok_single cfg vis i _ hvi, selOkTok_cfg, selOkTok_vec_dst _ _ _ _ _ _ _ h0 h1 h2 h3 hgd]
        cases b
        · exact c2
        · exact c3
    · have hrs' : rtS ∈ [7, 8, 9, 10, 11] := by simpa [vecRts, hc] using hrs
      have hrd' : rtD ∈ [7, 8, 9, 10, 11] := by simpa [vecRts, hc] using hrd
      obtain ⟨c1, _, _⟩ := a64_vec_core dt hdt st hst rtS hrs'
      obtain ⟨_, c2, c3⟩ := a64_vec_core dt hdt st hst rtD hrd'
      refine ⟨?_, fun b => ?_⟩
      · rw [moveOkAt_a64_sel cfg hc, initTok_single vis i _ hvi, selOkTokA_single vis i _ hvi, selOkTokA_dst _ _ _ _ _ _ h0 hgd]
        exact c1
      · rw [moveOkAt_a64_sel cfg hc, selOkTokA_single vis i _ hvi, selOkTokA_dst _ _ _ _ _ _ h0 hgd]
        cases b
        · exact c2
        · exact c3
  · obtain ⟨c1, c2, c3⟩ := (x86_mask_mm_core cfg.avx (mem_bool _)).1 dt hdt st hst
    refine ⟨?_, fun b => ?_⟩
    · rw [moveOkAt_x86 cfg hx, initTok_single vis i _ hvi, selOkTok_single cfg vis i _ hvi, selOkTok_cfg]; exact c1
    · rw [moveOkAt_x86 cfg hx, selOkTok_single cfg vis i _ hvi, selOkTok_cfg]
      cases b
      · exact c2
      · exact c3
  · obtain ⟨c1, c2, c3⟩ := (x86_mask_mm_core cfg.avx (mem_bool _)).2 dt hdt st hst
    refine ⟨?_, fun b => ?_⟩
    · rw [moveOkAt_x86 cfg hx, initTok_single vis i _ hvi, selOkTok_single cfg vis i _ hvi, selOkTok_cfg]; exact c1
    · rw [moveOkAt_x86 cfg hx, selOkTok_single cfg vis i _ hvi, selOkTok_cfg]
      cases b
      · exact c2
      · exact c3

/-- a variable of a non-GP group that needs no float <-> double conversion needs nothing at all -/
theorem nongp_done_none :
    (∀ dt ∈ fvTys, ∀ st ∈ fvTys, needsFloatConv dt st = false → ((⟨st, dt⟩ : VarInfo).required == .none) = true) ∧
    (∀ dt ∈ maskTys, ∀ st ∈ maskTys, ((⟨st, dt⟩ : VarInfo).required == .none) = true) ∧
    (∀ dt ∈ mmTys, ∀ st ∈ mmTys, ((⟨st, dt⟩ : VarInfo).required == .none) = true) := by decide +kernel

theorem doneInitOk_of_typed (a : Arch) (vals : Vals) (hr : RegOnly vals) (ht : TypedRegs a vals) : DoneInitOk vals := by
  intro i hi hdone
  have hvis := params_vis { arch := .x64 } ⟨false, false, 0, 0, 0, [], []⟩ vals hr i hi
  have hvis' : (vals.map varInfoOf)[i]? = some ⟨(srcAt vals i).typeId, (patchRegDst (dstAt vals i)).typeId⟩ := hvis
  rw [initTok_single _ i _ hvis']
  rcases ht i hi with ⟨hst, _, hdt, hrd, _, _⟩ | ⟨hst, hdt, _, hrd⟩ | ⟨_, hst, hdt, _, hrd⟩ | ⟨_, hst, hdt, _, hrd⟩
  · simp only [doneAtInit, group_gp hrd, ne_eq, not_true_eq_false, if_false, Bool.and_eq_true] at hdone
    exact int_done_none _ hdt _ hst hdone.2
  · have hg : groupOf (dstAt vals i).regType ≠ 0 := by rw [vecRts_group hrd]; decide
    simp only [doneAtInit, hg, ne_eq, not_false_eq_true, if_true, Bool.and_eq_true, Bool.not_eq_true'] at hdone
    exact nongp_done_none.1 _ hdt _ hst hdone.2
  · exact nongp_done_none.2.1 _ hdt _ hst
  · exact nongp_done_none.2.2 _ hdt _ hst

theorem hyp_of_typed (cfg : Cfg) (hcfg : cfg ∈ x86Cfgs ∨ cfg.arch = .a64) (f : FrameIn) (vals : Vals) (hr : RegOnly vals)
    (ht : TypedRegs cfg.arch vals) : Hyp (paramsOf cfg f vals) := by
  have hmoves : ∀ i, i < vals.length → ∀ d s,
      moveOkAt cfg (paramsOf cfg f vals).vis ((paramsOf cfg f vals).out i).regType ((paramsOf cfg f vals).out i).typeId
        ((paramsOf cfg f vals).src i).regType ((paramsOf cfg f vals).src i).typeId (initTok (paramsOf cfg f vals).vis i) d s = true ∧
      ∀ b, moveOkAt cfg (paramsOf cfg f vals).vis ((paramsOf cfg f vals).out i).regType ((paramsOf cfg f vals).out i).typeId
        ((paramsOf cfg f vals).out i).regType ((paramsOf cfg f vals).out i).typeId ⟨i, b, true⟩ d s = true := by
    intro i hi d s
    rw [params_src cfg f vals i hi, params_out cfg f vals i hi, patch_regType]
    exact typed_moves_ok cfg hcfg _ i _ _ _ _ (ht i hi) (params_vis cfg f vals hr i hi) d s
  refine ⟨fun i d s hi _ _ _ => (hmoves i hi d s).1, fun i d s b hi _ _ => (hmoves i hi d s).2 b, ?_, ?_⟩
  · intro i hi
    have hi' : i < vals.length := hi
    rw [params_src cfg f vals i hi', params_out cfg f vals i hi']
    exact params_vis cfg f vals hr i hi'
  · intro i hi _ hsw
    have hi' : i < vals.length := hi
    rw [params_src cfg f vals i hi', params_out cfg f vals i hi', patch_regType] at *
    have hg : groupOf (dstAt vals i).regType = 0 := by
      simp only [hasSwap, Bool.and_eq_true, decide_eq_true_eq] at hsw; exact hsw.2
    rcases ht i hi' with ⟨hst, hrs, hdt, hrd, hs1, hs2⟩ | ⟨_, _, _, hrd⟩ | ⟨_, _, _, _, hrd⟩ | ⟨_, _, _, _, hrd⟩
    · exact ⟨(int8_facts _ hst).1, (int8_facts _ hst).2, (int8_facts _ hdt).1, (int8_facts _ hdt).2, hs1, hs2⟩
    · rw [vecRts_group hrd] at hg; exact absurd hg (by decide)
    · rw [hrd] at hg; exact absurd hg (by decide)
    · rw [hrd] at hg; exact absurd hg (by decide)

/-- **register-only assignments over every register group, x86 and AArch64, every assignment, from the real entry point** -/
theorem shuffle_correct_typed_regs (cfg : Cfg) (hcfg : cfg ∈ x86Cfgs ∨ cfg.arch = .a64) (f : FrameIn) (vals : Vals)
    (hr : RegOnly vals) (ht : TypedRegs cfg.arch vals) (hok : (emitArgsAssignment cfg f 255 vals).1 = none) :
    judge cfg.arch f vals (emitArgsAssignment cfg f 255 vals).2 = some true :=
  shuffle_correct_regs cfg f vals hr (doneInitOk_of_typed cfg.arch vals hr ht) (hyp_of_typed cfg hcfg f vals hr ht) hok

end AsmjitVerif.C06S
