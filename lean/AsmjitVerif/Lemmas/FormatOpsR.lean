/- C20 helper lemmas: the operand list walk with hypotheses restricted to the operands present, with an optional rounding group. -/
import AsmjitVerif.Lemmas.FormatLineParts

namespace AsmjitVerif.Lemmas.FormatOpsR
open AsmjitVerif.Format AsmjitVerif.FormatText AsmjitVerif.Lemmas.FormatLex AsmjitVerif.Lemmas.FormatX86Mem
open AsmjitVerif.Lemmas.FormatOps AsmjitVerif.Lemmas.FormatLineParts

theorem tail_ok' (ch : Nat → Operand → Str) : ∀ (ops : List Operand) (i : Nat),
    (∀ k, ∀ o ∈ ops, ∀ c ∈ ch k o, c ≠ ',') → TailOK (fun c => c == ',') (tailPieces ch i ops)
  | [], _, _ => by simp [tailPieces, TailOK]
  | op :: rest, i, h => by
    simp only [tailPieces, TailOK]
    refine ⟨by decide, ?_, tail_ok' ch rest (i + 1) (fun k o ho => h k o (List.mem_cons_of_mem _ ho))⟩
    intro c hc
    simp only [List.mem_cons] at hc
    rcases hc with e | e
    · subst e; decide
    · simpa using h i op (List.mem_cons_self ..) c e

theorem tailCPs_mem' (ch : Nat → Operand → Str) (ex : Nat → Operand → POperand) : ∀ (ops : List Operand) (i : Nat),
    ∀ p ∈ tailCPs ch ex i ops, ∃ k, ∃ o ∈ ops, p = (ch k o, ex k o)
  | [], _, p, h => by simp [tailCPs] at h
  | op :: rest, i, p, h => by
    simp only [tailCPs, List.mem_cons] at h
    rcases h with e | e
    · exact ⟨i, op, List.mem_cons_self .., e⟩
    · obtain ⟨k, o, ho, hp⟩ := tailCPs_mem' ch ex rest (i + 1) p e
      exact ⟨k, o, List.mem_cons_of_mem _ ho, hp⟩

/-- the rounding group as the last comma piece -/
def roundPieces : Option String → List Piece
  | some w => [(some ',', ' ' :: '{' :: (w.toList ++ ['}']))]
  | none => []

theorem rounding_read : ∀ w ∈ roundingWords, readRounding ('{' :: (w.toList ++ ['}'])) = some w ∧ (∀ c ∈ w.toList, c ≠ ',') := by decide

/-- the operand list (at least one operand) followed by an optional rounding group -/
theorem ops_read_round (flags : Nat) (env : Env) (options : Nat) (extra : ExtraReg) (op : Operand) (rest : List Operand)
    (ex : Nat → Operand → POperand) (rw : Option String) (hrw : ∀ w, rw = some w → w ∈ roundingWords)
    (hne : ∀ o ∈ op :: rest, o ≠ Operand.none)
    (hch : ∀ k, ∀ o ∈ op :: rest, readChunk env (x86ChunkText flags env options extra k o) = some (ex k o) ∧
                  (x86ChunkText flags env options extra k o).head? ≠ some '{' ∧
                  x86ChunkText flags env options extra k o ≠ [] ∧
                  ∀ c ∈ x86ChunkText flags env options extra k o, c ≠ ',') :
    ∃ body, x86FormatOps flags env options extra 0 (op :: rest) ++ flattenPieces (roundPieces rw) = ' ' :: body ∧
      ((lexPieces (fun c => c == ',') body.length body).mapM chunkOfPiece).bind (readChunks env) =
        some (ex 0 op :: (tailCPs (x86ChunkText flags env options extra) ex 1 rest).map Prod.snd, rw) := by
  let ch := x86ChunkText flags env options extra
  have hfirst := hch 0 op (List.mem_cons_self ..)
  have hrest : ∀ k, ∀ o ∈ rest, _ := fun k o ho => hch k o (List.mem_cons_of_mem _ ho)
  have hok0 : TailOK (fun c => c == ',') (tailPieces ch 1 rest) := tail_ok' ch rest 1 (fun k o ho c hc => (hrest k o ho).2.2.2 c hc)
  have hcps : ∀ p ∈ (ch 0 op, ex 0 op) :: tailCPs ch ex 1 rest, readChunk env p.1 = some p.2 ∧ p.1.head? ≠ some '{' := by
    intro p hp
    simp only [List.mem_cons] at hp
    rcases hp with e | e
    · subst e; exact ⟨hfirst.1, hfirst.2.1⟩
    · obtain ⟨k, o, ho, rfl⟩ := tailCPs_mem' ch ex rest 1 p e
      exact ⟨(hrest k o ho).1, (hrest k o ho).2.1⟩
  cases rw with
  | none =>
    refine ⟨flattenPieces ((none, ch 0 op) :: tailPieces ch 1 rest), by rw [ops_first flags env options extra op rest hne]; simp only [roundPieces, flattenPieces, List.append_nil]; rfl, ?_⟩
    have hok : PiecesOK (fun c => c == ',') ((none, ch 0 op) :: tailPieces ch 1 rest) := by
      simp only [PiecesOK]
      exact ⟨hfirst.2.2.1, fun c hc => by simpa using hfirst.2.2.2 c hc, hok0⟩
    rw [lex_pieces _ _ hok]
    have hm : ((none, ch 0 op) :: tailPieces ch 1 rest).mapM chunkOfPiece = some (ch 0 op :: tailChunks ch 1 rest) := by
      simp [chunkOfPiece, tail_chunks ch rest 1]
    rw [hm]
    simp only [Option.bind_some]
    have := readChunks_plain env _ hcps
    simp only [List.map_cons, tailCPs_fst] at this
    exact this
  | some w =>
    obtain ⟨hrd, hwc⟩ := rounding_read w (hrw w rfl)
    have hflat : x86FormatOps flags env options extra 0 (op :: rest) ++ flattenPieces (roundPieces (some w)) =
        ' ' :: flattenPieces (((none, ch 0 op) :: tailPieces ch 1 rest) ++ roundPieces (some w)) := by
      rw [flatten_append, ops_first flags env options extra op rest hne]; rfl
    refine ⟨_, hflat, ?_⟩
    have hround : TailOK (fun c => c == ',') (roundPieces (some w)) := by
      simp only [roundPieces, TailOK]
      refine ⟨by decide, ?_, trivial⟩
      intro c hc
      simp only [List.mem_cons, List.mem_append, List.mem_singleton, List.not_mem_nil, or_false] at hc
      rcases hc with e | e | e | e
      · subst e; decide
      · subst e; decide
      · simpa using hwc c e
      · subst e; decide
    have hok : PiecesOK (fun c => c == ',') (((none, ch 0 op) :: tailPieces ch 1 rest) ++ roundPieces (some w)) := by
      simp only [List.cons_append, PiecesOK]
      exact ⟨hfirst.2.2.1, fun c hc => by simpa using hfirst.2.2.2 c hc, TailOK_append _ _ _ hok0 hround⟩
    rw [lex_pieces _ _ hok]
    have hm : (((none, ch 0 op) :: tailPieces ch 1 rest) ++ roundPieces (some w)).mapM chunkOfPiece =
        some ((ch 0 op :: tailChunks ch 1 rest) ++ ['{' :: (w.toList ++ ['}'])]) := by
      simp [List.mapM_append, chunkOfPiece, tail_chunks ch rest 1, roundPieces]
    rw [hm]
    simp only [Option.bind_some]
    have := readChunks_round env ('{' :: (w.toList ++ ['}'])) w hrd rfl _ hcps
    simp only [List.map_cons, tailCPs_fst] at this
    exact this

end AsmjitVerif.Lemmas.FormatOpsR
