/-
C18 — ArenaTree insert, part 11: corollaries and the sequence theorem (D).  `tree_refines_set` takes the `remove`
step lemma as the explicit hypothesis `RemoveStep` (to be discharged with the colleague's `removeNode` theorem);
`tree_refines_set_inserts` is unconditional for insert-only scripts.  Non-vacuity examples.  Core-only.
-/
import AsmjitVerif.Lemmas.C18TreeIns10
namespace AsmjitVerif.Tree.Ins
open AsmjitVerif.Tree AsmjitVerif.Tree.Spec

/-- B with the physically meaningful bound: fewer than 2^64 nodes (black height ≤ 64, 193 ≤ kFuel = 256). -/
theorem insert_refines_size {h : Tree} {t : T} {k : Nat} (hr : Represents h t) (hb : t.BST) (hrb : t.RB)
    (hk : k ∉ t.keys) (hsz : 2 ≤ h.nodes.size) (hsize : t.size < 2 ^ 64) :
    ∃ t', Represents (insertNode (newNode h k).1 (newNode h k).2) t' ∧ t'.keys = setInsert k t.keys ∧ t'.BST ∧
      t'.RB ∧ t'.idxs.Perm ((newNode h k).2 :: t.idxs) ∧
      (insertNode (newNode h k).1 (newNode h k).2).nodes.size = h.nodes.size + 1 ∧
      (∀ i, i ≠ 1 → i ∉ (newNode h k).2 :: t.idxs →
        nd (insertNode (newNode h k).1 (newNode h k).2) i = nd (newNode h k).1 i) := by
  obtain ⟨n, hn⟩ := hrb.2.2
  have := blackH_le_64 hn hsize
  exact insert_refines hr hb hrb hk hsz hn (by simp only [kFuel]; omega)

/-- the `remove` step lemma expected from `Lemmas/C18TreeRem*.lean` (removal by node, as in the C++ API) -/
def RemoveStep : Prop :=
  ∀ (h : Tree) (t : T) (n : Nat), Represents h t → t.BST → t.RB → 2 ≤ h.nodes.size → t.size < 2 ^ 64 →
    n ∈ t.idxs →
    ∃ t', Represents (removeNode h n) t' ∧ t'.keys = setErase (key h n) t.keys ∧ t'.BST ∧ t'.RB ∧
      2 ≤ (removeNode h n).nodes.size

def hasRemove (ops : List TOp) : Prop := ∃ k, TOp.remove k ∈ ops

/-- generic step: one protocol operation preserves the refinement -/
theorem step_refines {h : Tree} {t : T} (op : TOp) (hrem : (∃ k, op = .remove k) → RemoveStep)
    (hr : Represents h t) (hb : t.BST) (hrb : t.RB) (hsz : 2 ≤ h.nodes.size) (hsize : t.size < 2 ^ 64) :
    ∃ t', Represents (modelStep h op) t' ∧ t'.keys = specStep t.keys op ∧ t'.BST ∧ t'.RB ∧
      2 ≤ (modelStep h op).nodes.size ∧ t'.size ≤ t.size + 1 := by
  have hh : t.height < kFuel := by have := height_le_128 hrb hsize; simp only [kFuel]; omega
  cases op with
  | insert k =>
    obtain ⟨g1, _⟩ := get_spec k hr hb hh
    simp only [modelStep, specStep]
    by_cases hg : get h k ≠ 0
    · rw [if_pos hg]
      exact ⟨t, hr, (setInsert_mem hb (g1.1 hg)).symm, hb, hrb, hsz, by omega⟩
    · rw [if_neg hg]
      have hk : k ∉ t.keys := fun e => hg (g1.2 e)
      obtain ⟨t', r', k', b', rb', _, s', _⟩ := insert_refines_size hr hb hrb hk hsz hsize
      refine ⟨t', r', k', b', rb', by rw [s']; omega, ?_⟩
      rw [← keys_length, ← keys_length, k']
      exact setInsert_length k t.keys
  | remove k =>
    obtain ⟨g1, g2⟩ := get_spec k hr hb hh
    simp only [modelStep, specStep]
    by_cases hg : get h k = 0
    · rw [if_pos hg]
      have hk : k ∉ t.keys := fun e => (g1.2 e) hg
      exact ⟨t, hr, (setErase_not_mem hk).symm, hb, hrb, hsz, by omega⟩
    · rw [if_neg hg]
      obtain ⟨hkey, hmem⟩ := g2 hg
      obtain ⟨t', r', k', b', rb', s'⟩ := hrem ⟨k, rfl⟩ h t (get h k) hr hb hrb hsz hsize hmem
      rw [hkey] at k'
      refine ⟨t', r', k', b', rb', s', ?_⟩
      rw [← keys_length, ← keys_length, k']
      have := setErase_length k t.keys
      omega

theorem run_refines (ops : List TOp) (hrem : hasRemove ops → RemoveStep) :
    ∀ {h : Tree} {t : T}, Represents h t → t.BST → t.RB → 2 ≤ h.nodes.size → t.size + ops.length < 2 ^ 64 →
    ∃ t', Represents (runModel ops h) t' ∧ t'.keys = runSpec ops t.keys ∧ t'.BST ∧ t'.RB := by
  induction ops with
  | nil => intro h t hr hb hrb _ _; exact ⟨t, hr, rfl, hb, hrb⟩
  | cons op rest ih =>
    intro h t hr hb hrb hsz hlen
    simp only [List.length_cons] at hlen
    obtain ⟨t1, r1, k1, b1, rb1, s1, z1⟩ :=
      step_refines op (fun ⟨k, e⟩ => hrem ⟨k, by simp [e]⟩) hr hb hrb hsz (by omega)
    obtain ⟨t2, r2, k2, b2, rb2⟩ :=
      ih (fun ⟨k, e⟩ => hrem ⟨k, List.mem_cons_of_mem _ e⟩) r1 b1 rb1 s1 (by omega)
    refine ⟨t2, ?_, ?_, b2, rb2⟩
    · simpa [runModel, List.foldl] using r2
    · rw [k2, k1]; simp [runSpec, List.foldl]

theorem represents_empty : Represents ({} : Tree) .nil := ⟨.nil, List.nodup_nil⟩

/-- D. sequence theorem with the remove step as hypothesis: starting from the empty tree the model heap always
represents a red-black search tree whose key list is the textbook ordered set. -/
theorem tree_refines_set (hRemove : RemoveStep) (ops : List TOp) (hlen : ops.length < 2 ^ 64) :
    ∃ t, Represents (runModel ops {}) t ∧ t.keys = runSpec ops [] ∧ t.BST ∧ t.RB :=
  run_refines ops (fun _ => hRemove) represents_empty trivial ⟨rfl, trivial, 0, .nil⟩ (by decide)
    (by simpa [T.size] using hlen)

/-- D (insert/get half, unconditional): scripts without `remove`. -/
theorem tree_refines_set_inserts (ops : List TOp) (hins : ∀ op ∈ ops, ∃ k, op = .insert k)
    (hlen : ops.length < 2 ^ 64) :
    ∃ t, Represents (runModel ops {}) t ∧ t.keys = runSpec ops [] ∧ t.BST ∧ t.RB := by
  refine run_refines ops ?_ represents_empty trivial ⟨rfl, trivial, 0, .nil⟩ (by decide)
    (by simpa [T.size] using hlen)
  rintro ⟨k, hk⟩
  obtain ⟨k', e⟩ := hins _ hk
  cases e

/-! ### non-vacuity -/

/-- the heap after inserting 5 into the empty tree -/
def h5 : Tree := ins {} 5
def t5 : T := .node 2 5 false .nil .nil

theorem rep_h5 : Represents h5 t5 :=
  ⟨Rep.node (by decide) (by decide) rfl rfl Rep.nil Rep.nil, by decide⟩

/-- the hypotheses of `insert_refines` hold for a concrete heap built with `newNode`/`insertNode` -/
example : ∃ t', Represents (insertNode (newNode h5 3).1 (newNode h5 3).2) t' ∧ t'.keys = [3, 5] ∧ t'.BST ∧ t'.RB := by
  obtain ⟨t', r, k, b, rb, _⟩ := insert_refines (k := 3) (n := 1) rep_h5 (by simp [T.BST, t5, T.keys, Sorted]) ⟨rfl, ⟨(fun e => nomatch e), trivial, trivial⟩, 1, .black .nil .nil⟩
    (by decide) (by decide) (.black .nil .nil) (by decide)
  exact ⟨t', r, k, b, rb⟩

/-- a run with flips, single and double rotations (checked by evaluation) -/
example : inorder 20 (runModel ((List.range 12).map fun i => TOp.insert ((i * 7) % 12)) {})
    (runModel ((List.range 12).map fun i => TOp.insert ((i * 7) % 12)) {}).root = List.range 12 := by decide

example : runSpec ((List.range 12).map fun i => TOp.insert ((i * 7) % 12)) [] = List.range 12 := by decide

example : ∃ t, Represents (runModel [.insert 5, .insert 3, .insert 8, .insert 3] {}) t ∧ t.keys = [3, 5, 8] ∧ t.BST ∧ t.RB :=
  tree_refines_set_inserts [.insert 5, .insert 3, .insert 8, .insert 3]
    (by intro op hop; simp at hop; rcases hop with rfl | rfl | rfl | rfl <;> exact ⟨_, rfl⟩) (by decide)

end AsmjitVerif.Tree.Ins
