/- byte-level meaning of an accepted `writeOffset` (connects Model/Offset.writeOffset with the C17 word-level theorems) -/
import AsmjitVerif.Lemmas.Bytes
import AsmjitVerif.Props.C17
namespace AsmjitVerif.Offset

/-- If `write_offset` accepts a displacement for a 1/2/4-byte format whose codec is exact (C17) and the field was zero,
then the patched field decodes - by the independent reading of Spec/Offset.lean - to exactly that displacement, and
no byte outside the value is touched. -/
theorem writeOffset_designates (f : OffsetFormat) (hsz : f.valueSize = 1 ∨ f.valueSize = 2 ∨ f.valueSize = 4)
    (hex : Exact32 f) (hfit : FitsValueSize f)
    (buf buf' : Bytes) (pos : Nat) (off : BitVec 64) (old : Nat)
    (hw : writeOffset buf pos off f = some buf')
    (hold : loadLE buf (pos + f.valueOffset) f.valueSize = some old)
    (hzero : BitVec.ofNat 32 old &&& fieldMask32 f = 0#32) :
    ∃ new, loadLE buf' (pos + f.valueOffset) f.valueSize = some new ∧ decode32 f (BitVec.ofNat 32 new) = off ∧
      buf'.length = buf.length ∧
      (∀ i, (i < pos + f.valueOffset ∨ pos + f.valueOffset + f.valueSize ≤ i) → buf'[i]? = buf[i]?) := by
  have key : ∀ m, encodeOffset32 f off = some m →
      storeLE buf (pos + f.valueOffset) (old ||| (m.toNat % 2 ^ (8 * f.valueSize))) f.valueSize = some buf' →
      ∃ new, loadLE buf' (pos + f.valueOffset) f.valueSize = some new ∧ decode32 f (BitVec.ofNat 32 new) = off ∧
        buf'.length = buf.length ∧
        (∀ i, (i < pos + f.valueOffset ∨ pos + f.valueOffset + f.valueSize ≤ i) → buf'[i]? = buf[i]?) := by
    intro m hm hst
    have hmfit := hfit off m hm
    have holdlt := loadLE_lt _ _ _ _ hold
    have hpow : 256 ^ f.valueSize = 2 ^ (8 * f.valueSize) := by
      rw [show (256 : Nat) = 2 ^ 8 by decide, ← Nat.pow_mul]
    rw [Nat.mod_eq_of_lt hmfit] at hst
    have hlt : old ||| m.toNat < 256 ^ f.valueSize := by
      rw [hpow]; rw [hpow] at holdlt; exact Nat.or_lt_two_pow holdlt hmfit
    refine ⟨old ||| m.toNat, ?_, ?_, storeLE_length _ _ _ _ _ hst, storeLE_frame _ _ _ _ _ hst⟩
    · rw [loadLE_storeLE _ _ _ _ _ hst, Nat.mod_eq_of_lt hlt]
    · have h := (hex off m hm (BitVec.ofNat 32 old) hzero).1
      have e : BitVec.ofNat 32 (old ||| m.toNat) = BitVec.ofNat 32 old ||| m := by
        apply BitVec.eq_of_toNat_eq
        simp [BitVec.toNat_ofNat, BitVec.toNat_or]
      rw [e]; exact h
  unfold writeOffset at hw
  rcases hsz with h | h | h <;> (rw [h] at hw key hold; dsimp only at hw; rw [hold] at hw) <;>
    (cases hm : encodeOffset32 f off with
     | none => rw [hm] at hw; cases hw
     | some m => rw [hm] at hw; dsimp only at hw; rw [h]; exact key m hm hw)

end AsmjitVerif.Offset
