/- C09 refinement (model run ⊑ monitor): `JudgeOk` for shrink and write+truncate. -/
import AsmjitVerif.Lemmas.JitAllocSimShr
namespace AsmjitVerif.JitAlloc
open Spec

/-- the common tail of `shrink` and of a truncating `write` in the model -/
def shrinkTail (m : St) (h : Nat) (hd : Handle) (newSize : Nat) : St × Ans :=
  if newSize = 0 then
    match m.a.release hd.blk hd.off with
    | (a, .ok _) => ({ a, tab := killHandle m.tab h }, .size 0)
    | (a, .error e) => ({ m with a }, .err e)
  else
    match m.a.shrinkImpl hd.blk hd.off newSize with
    | (a, .ok (some sz)) => ({ a, tab := setHandleSize m.tab h sz }, .size sz)
    | (a, .ok none) => ({ m with a }, .size hd.size)
    | (a, .error e) => ({ m with a }, .err e)

theorem tail_ok {gw : Ghost} {m : St} (hS : Sim gw m) (hI : Inv m) (hM : AMem m.a) {h : Nat} {x : GH} (hx : gw.tab[h]? = some x)
    (hl : x.live = true) (isW : Bool) (newSize : Nat) (hnw : ¬(isW = true ∧ newSize ≥ x.size)) (st : Stats)
    (hst : newSize = 0 → st.blocks = (m.a.release x.blk x.off).1.blocks.length) :
    ∃ g', gw.judgeShrink h x isW newSize (shrinkTail m h (toH x) newSize).2 st = .ok g' ∧ Sim g' (shrinkTail m h (toH x) newSize).1 := by
  have hm : m.tab[h]? = some (toH x) := by rw [hS.getH, hx]; rfl
  have hlm : (toH x).live = true := hl
  have hc1 : (isW && decide (newSize ≥ x.size)) = false := by
    cases isW
    · rfl
    · simp at hnw ⊢; omega
  unfold Ghost.judgeShrink shrinkTail
  simp only [hc1, Bool.false_eq_true, if_false]
  by_cases h0 : newSize = 0
  · simp only [h0, if_true]
    obtain ⟨hok, _⟩ := hI.release_handle hm hlm
    have hsim := sim_release hS hI hM hx hl st (hst h0)
    rcases hr : m.a.release (toH x).blk (toH x).off with ⟨a', (e | u)⟩
    · rw [hr] at hok; simp at hok
    · have : (m.a.release x.blk x.off).1 = a' := by
        show (m.a.release (toH x).blk (toH x).off).1 = a'; rw [hr]
      rw [this] at hsim
      exact ⟨_, rfl, hsim⟩
  · simp only [h0, if_false]
    obtain ⟨hal, k1, k2⟩ := sim_shrink hS hI hM hx hl newSize h0
    by_cases hgt : newSize > x.size
    · obtain ⟨e, he⟩ := k1 hgt
      have he' : m.a.shrinkImpl (toH x).blk (toH x).off newSize = (m.a, .error e) := he
      simp only [hgt, if_true, he']
      exact ⟨gw, rfl, hS⟩
    · simp only [hgt, if_false]
      rcases k2 (by omega) with ⟨r2, hsim⟩ | ⟨sz, r2, b1, b2, b3, hsim⟩
      · rcases hr : m.a.shrinkImpl (toH x).blk (toH x).off newSize with ⟨a', (e | (_ | sz))⟩
        · have : (m.a.shrinkImpl x.blk x.off newSize).2 = .error e := by
            show (m.a.shrinkImpl (toH x).blk (toH x).off newSize).2 = _; rw [hr]
          rw [this] at r2; simp at r2
        · have ha : (m.a.shrinkImpl x.blk x.off newSize).1 = a' := by
            show (m.a.shrinkImpl (toH x).blk (toH x).off newSize).1 = _; rw [hr]
          rw [ha] at hsim
          simp only
          have hn1 : ¬ (toH x).size < newSize := by show ¬ x.size < newSize; omega
          have hn2 : ¬ (toH x).size > x.size := by show ¬ x.size > x.size; omega
          have hn3 : ¬ ((toH x).size % gw.cfg.gran ≠ 0) := by
            rw [hS.cfg]; show ¬ (x.size % m.a.cfg.gran ≠ 0); simp [hal]
          simp only [hn1, hn2, hn3, if_false]
          refine ⟨_, rfl, ?_⟩
          show Sim { gw with tab := setTab gw.tab h fun y => { y with size := x.size } } _
          rw [setTab_same gw.tab h x hx]
          exact hsim
        · have : (m.a.shrinkImpl x.blk x.off newSize).2 = .ok (some sz) := by
            show (m.a.shrinkImpl (toH x).blk (toH x).off newSize).2 = _; rw [hr]
          rw [this] at r2; simp at r2
      · rcases hr : m.a.shrinkImpl (toH x).blk (toH x).off newSize with ⟨a', (e | (_ | sz'))⟩
        · have : (m.a.shrinkImpl x.blk x.off newSize).2 = .error e := by
            show (m.a.shrinkImpl (toH x).blk (toH x).off newSize).2 = _; rw [hr]
          rw [this] at r2; simp at r2
        · have : (m.a.shrinkImpl x.blk x.off newSize).2 = .ok none := by
            show (m.a.shrinkImpl (toH x).blk (toH x).off newSize).2 = _; rw [hr]
          rw [this] at r2; simp at r2
        · have h2 : (m.a.shrinkImpl x.blk x.off newSize).2 = .ok (some sz') := by
            show (m.a.shrinkImpl (toH x).blk (toH x).off newSize).2 = _; rw [hr]
          rw [h2] at r2
          simp at r2
          subst r2
          have ha : (m.a.shrinkImpl x.blk x.off newSize).1 = a' := by
            show (m.a.shrinkImpl (toH x).blk (toH x).off newSize).1 = _; rw [hr]
          rw [ha] at hsim
          simp only
          have hn1 : ¬ sz' < newSize := by omega
          have hn2 : ¬ sz' > x.size := by omega
          have hn3 : ¬ (sz' % gw.cfg.gran ≠ 0) := by rw [hS.cfg]; simp [b3]
          simp only [hn1, hn2, hn3, if_false]
          exact ⟨_, rfl, hsim⟩

end AsmjitVerif.JitAlloc

namespace AsmjitVerif.JitAlloc
open Spec

theorem shrinkTail_zero_a {m : St} (hI : Inv m) {h : Nat} {hd : Handle} (hm : m.tab[h]? = some hd) (hl : hd.live = true) :
    (shrinkTail m h hd 0).1.a = (m.a.release hd.blk hd.off).1 := by
  obtain ⟨hok, _⟩ := hI.release_handle hm hl
  unfold shrinkTail
  simp only [if_true]
  rcases hr : m.a.release hd.blk hd.off with ⟨a', (e | u)⟩
  · exact absurd hok (by rw [hr]; simp)
  · rfl

theorem judge_shrink {g : Ghost} {s : St} (hS : Sim g s) (hG : Good s) (h newSize : Nat) : JudgeOk g s (.shrink h newSize) := by
  have hG' := hG.step (.shrink h newSize)
  have hget := hS.getH h
  cases hx : g.tab[h]? with
  | none =>
    rw [hx] at hget
    simp only [Option.map_none] at hget
    exact ⟨g, by simp [step, judge, hget, hx], by simp only [step, hget]; exact hS⟩
  | some x =>
    rw [hx] at hget
    simp only [Option.map_some] at hget
    cases hl : x.live with
    | false =>
      have hl' : (toH x).live = false := hl
      exact ⟨g, by simp [step, judge, hget, hx, hl, hl'], by simp only [step, hget, hl']; simpa using hS⟩
    | true =>
      have hl' : (toH x).live = true := hl
      have hstep : step s (.shrink h newSize) = shrinkTail s h (toH x) newSize := by
        simp only [step, hget, hl', Bool.not_true, Bool.false_eq_true, if_false]
        rfl
      rw [hstep] at hG'
      unfold JudgeOk
      rw [hstep]
      have hst : newSize = 0 → (shrinkTail s h (toH x) newSize).1.a.stats.blocks = (s.a.release x.blk x.off).1.blocks.length := by
        intro h0
        subst h0
        rw [(stats_of_pinv hG'.pool).1, shrinkTail_zero_a hG.inv hget hl']
        rfl
      obtain ⟨g', j1, j2⟩ := tail_ok hS hG.inv hG.mem hx hl false newSize (by simp) _ hst
      refine ⟨g', ?_, j2⟩
      have hl2 : (!x.live) = false := by rw [hl]; rfl
      simp only [judge, hx, hl2, Bool.false_eq_true, if_false]
      exact j1

theorem judge_wtrunc {g : Ghost} {s : St} (hS : Sim g s) (hG : Good s) (h byte newSize : Nat) : JudgeOk g s (.wtrunc h byte newSize) := by
  have hG' := hG.step (.wtrunc h byte newSize)
  have hget := hS.getH h
  cases hx : g.tab[h]? with
  | none =>
    rw [hx] at hget
    simp only [Option.map_none] at hget
    exact ⟨g, by simp [step, judge, hget, hx], by simp only [step, hget]; exact hS⟩
  | some x =>
    rw [hx] at hget
    simp only [Option.map_some] at hget
    cases hl : x.live with
    | false =>
      have hl' : (toH x).live = false := hl
      exact ⟨g, by simp [step, judge, hget, hx, hl, hl'], by simp only [step, hget, hl']; simpa using hS⟩
    | true =>
      have hl' : (toH x).live = true := hl
      -- the state and the ghost after the write
      let m : St := { s with a := s.a.writeMem (toH x).blk (toH x).off (toH x).size (byte % 256) }
      let gw : Ghost := { g with tab := setTab g.tab h fun _ => { x with tag := some (byte % 256) } }
      have hIm : Inv m := hG.inv.writeMem _ _ _ _
      have hMm : AMem m.a := write_amem hG.inv hG.mem hget hl' _
      have hxw : gw.tab[h]? = some { x with tag := some (byte % 256) } := by
        show (setTab g.tab h _)[h]? = _
        rw [getElem?_setTab, hx]; simp
      have hSw : Sim gw m := by
        have t := Trans.write (s := s) h (toH x) (byte % 256) hget hl'
        refine sim_update hS hG.inv hG.mem t rfl ?_ (by show g.blocks = _; rw [writeMem_toGB]; exact hS.blocks) ?_
        · show (setTab g.tab h _).map toH = s.tab
          rw [← hS.tab]
          apply List.ext_getElem?
          intro i
          rw [List.getElem?_map, getElem?_setTab, List.getElem?_map]
          cases hgi : g.tab[i]? with
          | none => rfl
          | some y =>
            simp only [Option.map_some]
            by_cases c : i = h
            · subst c; rw [hx] at hgi; cases hgi; simp [toH]
            · simp [c]
        · intro i x' hx' hlx'
          have hx'' : (setTab g.tab h fun _ => { x with tag := some (byte % 256) })[i]? = some x' := hx'
          rw [getElem?_setTab] at hx''
          cases hgi : g.tab[i]? with
          | none => rw [hgi] at hx''; simp at hx''
          | some y =>
            rw [hgi] at hx''
            simp only [Option.map_some, Option.some.injEq] at hx''
            by_cases c : i = h
            · subst c
              rw [hx] at hgi; cases hgi
              simp only [if_true] at hx''
              subst hx''
              exact ⟨x, rfl, hl, rfl, Or.inr ⟨byte % 256, rfl, rfl⟩⟩
            · simp only [c, if_false] at hx''
              subst hx''
              refine ⟨y, rfl, hlx', rfl, Or.inl ⟨?_, rfl⟩⟩
              intro b hb
              simp only [Option.some.injEq, Prod.mk.injEq] at hb
              exact c hb.1.symm
      by_cases hge : newSize ≥ x.size
      · -- nothing is truncated
        have hge' : newSize ≥ (toH x).size := hge
        refine ⟨gw, ?_, ?_⟩
        · simp only [step, hget, hl', Bool.not_true, Bool.false_eq_true, if_false, hge', if_true]
          simp only [judge, hx, hl, Bool.not_true, Bool.false_eq_true, if_false]
          unfold Ghost.judgeShrink
          have : (true && decide (newSize ≥ ({ x with tag := some (byte % 256) } : GH).size)) = true := by simp; exact hge
          simp only [this, if_true]
          simp [toH, gw, hl]
        · simp only [step, hget, hl', Bool.not_true, Bool.false_eq_true, if_false, hge', if_true]
          exact hSw
      · have hge' : ¬ newSize ≥ (toH x).size := hge
        have hstep : step s (.wtrunc h byte newSize) = shrinkTail m h (toH x) newSize := by
          simp only [step, hget, hl', Bool.not_true, Bool.false_eq_true, if_false, hge']
          rfl
        rw [hstep] at hG'
        unfold JudgeOk
        rw [hstep]
        have hmget : m.tab[h]? = some (toH x) := hget
        have hst : newSize = 0 → (shrinkTail m h (toH x) newSize).1.a.stats.blocks = (m.a.release x.blk x.off).1.blocks.length := by
          intro h0
          subst h0
          rw [(stats_of_pinv hG'.pool).1, shrinkTail_zero_a hIm hmget hl']
          rfl
        obtain ⟨g', j1, j2⟩ := tail_ok hSw hIm hMm hxw hl true newSize (by intro hh; exact hge hh.2) _ hst
        refine ⟨g', ?_, j2⟩
        have hl2 : (!x.live) = false := by rw [hl]; rfl
        simp only [judge, hx, hl2, Bool.false_eq_true, if_false]
        exact j1

end AsmjitVerif.JitAlloc
