/-
Payload ↔ label link of relocation entries that designate `label + addend` (embedded label addresses, 32-bit absolute
`[label + disp]` operands): ghost `Reloc.gl = some (label, addend)`.
`PInv`: while the label is unbound the payload is the addend, the target section is unset and exactly one fixup on the
label's list carries the entry's id; once the label is bound at `(sec, off)` the payload is `addend + off` and the target
section is `sec` (`bind_label` adjusts each such entry exactly once).
-/
import AsmjitVerif.Lemmas.TabInv
namespace AsmjitVerif.CodeHolder
open AsmjitVerif.Offset

/-- number of fixups on a list that carry relocation id `i` -/
def cnt (fx : List Fixup) (i : Nat) : Nat := (fx.filter (fun f => f.lr == some i)).length

theorem cnt_cons (f : Fixup) (fx : List Fixup) (i : Nat) : cnt (f :: fx) i = (if f.lr = some i then 1 else 0) + cnt fx i := by
  unfold cnt
  by_cases h : f.lr = some i
  · simp [h]; omega
  · have : (f.lr == some i) = false := by simpa using h
    simp [this, h]

theorem modifyReloc_get (rs : List Reloc) (j i : Nat) (f : Reloc → Reloc) :
    (modifyReloc rs j f)[i]? = if i = j then (rs[i]?).map f else rs[i]? := by
  unfold modifyReloc
  cases hj : rs[j]? with
  | none =>
    dsimp only
    split
    · rename_i e; subst e; rw [hj]; rfl
    · rfl
  | some r =>
    dsimp only
    split
    · rename_i e; subst e
      rw [List.getElem?_set_self (getElem?_lt hj), hj]; rfl
    · rename_i e
      rw [List.getElem?_set_ne (fun h => e h.symm)]

def adjust (toSec : Nat) (toOff : BitVec 64) (r : Reloc) : Reloc :=
  { r with payload := r.payload + toOff, tgtSec := some toSec }

theorem bindStep_reloc (l toSec : Nat) (toOff : BitVec 64) (acc : Acc) (f : Fixup) (i : Nat) :
    (bindStep l toSec toOff acc f).relocs[i]? =
      if f.lr = some i then (acc.relocs[i]?).map (adjust toSec toOff) else acc.relocs[i]? := by
  unfold bindStep
  cases hlr : f.lr with
  | some rid =>
    dsimp only
    rw [modifyReloc_get]
    by_cases h : i = rid
    · subst h; simp only [if_true]; rfl
    · have : ¬ (some rid = some i) := fun e => h (Option.some.inj e).symm
      simp [h, this]
  | none =>
    dsimp only
    simp only [if_false, reduceCtorEq]
    split
    · rfl
    · split <;> rfl

theorem bindLoop_reloc0 (l toSec : Nat) (toOff : BitVec 64) (i : Nat) : ∀ (fx : List Fixup) (acc : Acc), cnt fx i = 0 →
    (fx.foldl (bindStep l toSec toOff) acc).relocs[i]? = acc.relocs[i]? := by
  intro fx
  induction fx with
  | nil => intro acc _; rfl
  | cons f rest ih =>
    intro acc h
    rw [cnt_cons] at h
    have hf : ¬ f.lr = some i := by intro e; simp [e] at h
    have hr : cnt rest i = 0 := by simp [hf] at h; exact h
    simp only [List.foldl_cons]
    rw [ih _ hr, bindStep_reloc, if_neg hf]

theorem bindLoop_reloc1 (l toSec : Nat) (toOff : BitVec 64) (i : Nat) : ∀ (fx : List Fixup) (acc : Acc), cnt fx i = 1 →
    (fx.foldl (bindStep l toSec toOff) acc).relocs[i]? = (acc.relocs[i]?).map (adjust toSec toOff) := by
  intro fx
  induction fx with
  | nil => intro acc h; simp [cnt] at h
  | cons f rest ih =>
    intro acc h
    rw [cnt_cons] at h
    simp only [List.foldl_cons]
    by_cases hf : f.lr = some i
    · have hr : cnt rest i = 0 := by simp [hf] at h; omega
      rw [bindLoop_reloc0 _ _ _ _ _ _ hr, bindStep_reloc, if_pos hf]
    · have hr : cnt rest i = 1 := by simp [hf] at h; exact h
      rw [ih _ hr, bindStep_reloc, if_neg hf]

/-- the link invariant -/
structure PInv (s : State) : Prop where
  link : ∀ (i : Nat) (re : Reloc) (l : Nat) (a : BitVec 64), s.relocs[i]? = some re → re.gl = some (l, a) →
    (∃ fx, s.labels[l]? = some (.unbound fx) ∧ re.tgtSec = none ∧ re.payload = a ∧ cnt fx i = 1) ∨
    (∃ sec off, s.labels[l]? = some (.bound sec off) ∧ re.tgtSec = some sec ∧ re.payload = a + off)
  own  : ∀ (l : Nat) (fx : List Fixup) (f : Fixup) (i : Nat), s.labels[l]? = some (.unbound fx) → f ∈ fx → f.lr = some i →
    ∃ re a, s.relocs[i]? = some re ∧ re.gl = some (l, a)

theorem cnt_zero_of_own {s : State} (h : PInv s) {l : Nat} {fx : List Fixup} (hl : s.labels[l]? = some (.unbound fx)) :
    cnt fx s.relocs.length = 0 := by
  unfold cnt
  rw [List.length_eq_zero_iff, List.filter_eq_nil_iff]
  intro f hf hx
  have hlr : f.lr = some s.relocs.length := by simpa using hx
  obtain ⟨re, _, hre, _⟩ := h.own l fx f _ hl hf hlr
  have := getElem?_lt hre
  omega

/-- states with the same labels and relocation list -/
theorem pinv_of_eq {s s' : State} (hl : s'.labels = s.labels) (hr : s'.relocs = s.relocs) (h : PInv s) : PInv s' := by
  constructor
  · rw [hl, hr]; exact h.link
  · rw [hl, hr]; exact h.own

/-- a relocation without the ghost link is appended -/
theorem pinv_append_plain {s s' : State} (hl : s'.labels = s.labels) (re : Reloc) (hr : s'.relocs = s.relocs ++ [re])
    (hg : re.gl = none) (h : PInv s) : PInv s' := by
  constructor
  · intro i r l a hi hgl
    rw [hr] at hi
    by_cases hlt : i < s.relocs.length
    · rw [List.getElem?_append_left hlt] at hi
      rw [hl]; exact h.link i r l a hi hgl
    · rw [List.getElem?_append_right (by omega)] at hi
      cases hx : i - s.relocs.length with
      | zero => rw [hx] at hi; simp at hi; subst hi; rw [hg] at hgl; cases hgl
      | succ k => rw [hx] at hi; simp at hi
  · intro l fx f i hlab hf hlr
    rw [hl] at hlab
    obtain ⟨r, a, hr1, hr2⟩ := h.own l fx f i hlab hf hlr
    exact ⟨r, a, by rw [hr, List.getElem?_append_left (getElem?_lt hr1)]; exact hr1, hr2⟩

/-- a fixup that does not carry a relocation id is pushed on a label's list / the cross-section list -/
theorem pinv_newFixup_plain (s : State) (l : Nat) (f : Fixup) (hlr : f.lr = none) (h : PInv s) : PInv (newFixup s l f) := by
  unfold newFixup
  split
  · rename_i fx hl
    have hget : (s.labels.set l (LabelEntry.unbound (f :: fx)))[l]? = some (LabelEntry.unbound (f :: fx)) := by simp [getElem?_lt hl]
    constructor
    · intro i r l' a hi hgl
      rcases h.link i r l' a hi hgl with ⟨fx', h1, h2, h3, h4⟩ | ⟨sec, off, h1, h2, h3⟩
      · left
        by_cases hll : l = l'
        · subst hll; rw [hl] at h1; cases h1
          exact ⟨f :: fx, hget, h2, h3, by rw [cnt_cons, hlr]; simpa using h4⟩
        · exact ⟨fx', by show (s.labels.set l _)[l']? = _; rw [List.getElem?_set_ne hll]; exact h1, h2, h3, h4⟩
      · right
        exact ⟨sec, off, bound_after_set _ _ _ _ hl _ _ _ h1, h2, h3⟩
    · intro l' fx' f' i hlab hf hlr'
      replace hlab : (s.labels.set l (LabelEntry.unbound (f :: fx)))[l']? = some (LabelEntry.unbound fx') := hlab
      by_cases hll : l = l'
      · subst hll; rw [hget] at hlab; cases hlab
        simp only [List.mem_cons] at hf
        rcases hf with rfl | hf
        · rw [hlr] at hlr'; cases hlr'
        · exact h.own l fx f' i hl hf hlr'
      · rw [List.getElem?_set_ne hll] at hlab
        exact h.own l' fx' f' i hlab hf hlr'
  · exact ⟨h.link, h.own⟩
  · exact h

theorem pinv_newLabel (s : State) (h : PInv s) : PInv (newLabel s).1 := by
  unfold newLabel
  have hget : ∀ (i : Nat) (e : LabelEntry), s.labels[i]? = some e → (s.labels ++ [LabelEntry.unbound []])[i]? = some e := by
    intro i e he; rw [List.getElem?_append_left (getElem?_lt he)]; exact he
  constructor
  · intro i r l a hi hgl
    rcases h.link i r l a hi hgl with ⟨fx, h1, h2⟩ | ⟨sec, off, h1, h2⟩
    · exact .inl ⟨fx, hget _ _ h1, h2⟩
    · exact .inr ⟨sec, off, hget _ _ h1, h2⟩
  · intro l fx f i hlab hf hlr
    replace hlab : (s.labels ++ [LabelEntry.unbound []])[l]? = some (LabelEntry.unbound fx) := hlab
    by_cases hlt : l < s.labels.length
    · rw [List.getElem?_append_left hlt] at hlab; exact h.own l fx f i hlab hf hlr
    · rw [List.getElem?_append_right (by omega)] at hlab
      cases hx : l - s.labels.length with
      | zero => rw [hx] at hlab; simp at hlab; subst hlab; cases hf
      | succ k => rw [hx] at hlab; simp at hlab

/-- a linked entry for a label that is already bound -/
theorem pinv_reloc_bound {s s' : State} (hl : s'.labels = s.labels) (re : Reloc) (hr : s'.relocs = s.relocs ++ [re])
    (l lsec : Nat) (loff a : BitVec 64) (hlab : s.labels[l]? = some (.bound lsec loff))
    (hg : re.gl = some (l, a)) (ht : re.tgtSec = some lsec) (hp : re.payload = a + loff) (h : PInv s) : PInv s' := by
  constructor
  · intro i r l' a' hi hgl
    rw [hr] at hi
    by_cases hlt : i < s.relocs.length
    · rw [List.getElem?_append_left hlt] at hi
      rw [hl]; exact h.link i r l' a' hi hgl
    · rw [List.getElem?_append_right (by omega)] at hi
      cases hx : i - s.relocs.length with
      | zero =>
        rw [hx] at hi; simp at hi; subst hi
        rw [hg] at hgl; cases hgl
        exact .inr ⟨lsec, loff, by rw [hl]; exact hlab, ht, hp⟩
      | succ k => rw [hx] at hi; simp at hi
  · intro l' fx f i hlab' hf hlr
    rw [hl] at hlab'
    obtain ⟨r, a', hr1, hr2⟩ := h.own l' fx f i hlab' hf hlr
    exact ⟨r, a', by rw [hr, List.getElem?_append_left (getElem?_lt hr1)]; exact hr1, hr2⟩

/-- a linked entry for an unbound label, with the fixup that carries its id -/
theorem pinv_reloc_fixup (s s1 : State) (hl : s1.labels = s.labels) (re : Reloc) (hr : s1.relocs = s.relocs ++ [re])
    (l : Nat) (fx : List Fixup) (a : BitVec 64) (hlab : s.labels[l]? = some (.unbound fx))
    (hg : re.gl = some (l, a)) (ht : re.tgtSec = none) (hp : re.payload = a)
    (f : Fixup) (hf : f.lr = some s.relocs.length) (h : PInv s) : PInv (newFixup s1 l f) := by
  have hlab1 : s1.labels[l]? = some (LabelEntry.unbound fx) := by rw [hl]; exact hlab
  have hc0 := cnt_zero_of_own h hlab
  unfold newFixup
  rw [hlab1]
  dsimp only
  have hget : (s1.labels.set l (LabelEntry.unbound (f :: fx)))[l]? = some (LabelEntry.unbound (f :: fx)) := by simp [getElem?_lt hlab1]
  constructor
  · intro i r l' a' hi hgl
    replace hi : s1.relocs[i]? = some r := hi
    rw [hr] at hi
    by_cases hlt : i < s.relocs.length
    · rw [List.getElem?_append_left hlt] at hi
      rcases h.link i r l' a' hi hgl with ⟨fx', h1, h2, h3, h4⟩ | ⟨sec, off, h1, h2, h3⟩
      · left
        by_cases hll : l = l'
        · subst hll; rw [hlab] at h1; cases h1
          refine ⟨f :: fx, hget, h2, h3, ?_⟩
          rw [cnt_cons, hf]
          have : ¬ (some s.relocs.length = some i) := fun e => by have := Option.some.inj e; omega
          simp [this]; exact h4
        · exact ⟨fx', by show (s1.labels.set l _)[l']? = _; rw [List.getElem?_set_ne hll, hl]; exact h1, h2, h3, h4⟩
      · right
        exact ⟨sec, off, by show (s1.labels.set l _)[l']? = _; exact bound_after_set _ _ _ _ hlab1 _ _ _ (by rw [hl]; exact h1), h2, h3⟩
    · rw [List.getElem?_append_right (by omega)] at hi
      cases hx : i - s.relocs.length with
      | zero =>
        rw [hx] at hi; simp at hi; subst hi
        rw [hg] at hgl; cases hgl
        have hi0 : i = s.relocs.length := by omega
        left
        refine ⟨f :: fx, hget, ht, hp, ?_⟩
        rw [cnt_cons, hf, hi0]; simp; exact hc0
      | succ k => rw [hx] at hi; simp at hi
  · intro l' fx' f' i hlab' hf' hlr
    replace hlab' : (s1.labels.set l (LabelEntry.unbound (f :: fx)))[l']? = some (LabelEntry.unbound fx') := hlab'
    show ∃ r a', s1.relocs[i]? = some r ∧ r.gl = some (l', a')
    by_cases hll : l = l'
    · subst hll; rw [hget] at hlab'; cases hlab'
      simp only [List.mem_cons] at hf'
      rcases hf' with rfl | hf'
      · rw [hf] at hlr; cases hlr
        exact ⟨re, a, by rw [hr]; simp, hg⟩
      · obtain ⟨r, a', hr1, hr2⟩ := h.own l fx f' i hlab hf' hlr
        exact ⟨r, a', by rw [hr, List.getElem?_append_left (getElem?_lt hr1)]; exact hr1, hr2⟩
    · rw [List.getElem?_set_ne hll, hl] at hlab'
      obtain ⟨r, a', hr1, hr2⟩ := h.own l' fx' f' i hlab' hf' hlr
      exact ⟨r, a', by rw [hr, List.getElem?_append_left (getElem?_lt hr1)]; exact hr1, hr2⟩

theorem bindLoop_gl (l toSec : Nat) (toOff : BitVec 64) : ∀ (fx : List Fixup) (acc : Acc) (i : Nat) (r : Reloc),
    (fx.foldl (bindStep l toSec toOff) acc).relocs[i]? = some r → ∃ r0, acc.relocs[i]? = some r0 ∧ r.gl = r0.gl := by
  intro fx
  induction fx with
  | nil => intro acc i r h; exact ⟨r, h, rfl⟩
  | cons f rest ih =>
    intro acc i r h
    simp only [List.foldl_cons] at h
    obtain ⟨r1, h1, e1⟩ := ih _ i r h
    rw [bindStep_reloc] at h1
    split at h1
    · cases hx : acc.relocs[i]? with
      | none => rw [hx] at h1; cases h1
      | some r0 => rw [hx] at h1; simp only [Option.map_some, Option.some.injEq] at h1; exact ⟨r0, rfl, by rw [e1, ← h1]; rfl⟩
    · exact ⟨r1, h1, e1⟩

theorem pinv_bindLabel (s : State) (l sec : Nat) (off : BitVec 64) (h : PInv s) : PInv (bindLabel s l sec off).1 := by
  unfold bindLabel
  cases hle : s.labels[l]? with
  | none => exact h
  | some le =>
    dsimp only
    by_cases hs : sec ≥ s.secs.length
    · simp only [hs, if_true]; exact h
    · simp only [hs, if_false]
      cases le with
      | bound _ _ => exact h
      | unbound fx =>
        dsimp only
        split
        · exact h
        have hget : (s.labels.set l (LabelEntry.bound sec off))[l]? = some (LabelEntry.bound sec off) := by simp [getElem?_lt hle]
        constructor
        · intro i r l' a hi hgl
          replace hi : (fx.foldl (bindStep l sec off) { secs := s.secs, relocs := s.relocs, kept := [], resolved := 0, err := .ok }).relocs[i]? = some r := hi
          show (∃ fx', (s.labels.set l _)[l']? = _ ∧ _) ∨ (∃ sec' off', (s.labels.set l _)[l']? = _ ∧ _)
          obtain ⟨r0, hr0, hg0⟩ := bindLoop_gl l sec off fx _ i r hi
          replace hr0 : s.relocs[i]? = some r0 := hr0
          rw [hg0] at hgl
          rcases h.link i r0 l' a hr0 hgl with ⟨fx', h1, h2, h3, h4⟩ | ⟨sec', off', h1, h2, h3⟩
          · by_cases hll : l = l'
            · -- the label being bound: adjusted exactly once
              subst hll; rw [hle] at h1; cases h1
              have := bindLoop_reloc1 l sec off i fx { secs := s.secs, relocs := s.relocs, kept := [], resolved := 0, err := .ok } h4
              rw [this] at hi
              replace hr0 : ({ secs := s.secs, relocs := s.relocs, kept := [], resolved := 0, err := .ok } : Acc).relocs[i]? = some r0 := hr0
              rw [hr0] at hi
              simp only [Option.map_some, Option.some.injEq] at hi
              right
              exact ⟨sec, off, hget, by rw [← hi]; rfl, by rw [← hi]; show r0.payload + off = a + off; rw [h3]⟩
            · -- another (unbound) label: none of the fixups of `l` carries this id
              have hc : cnt fx i = 0 := by
                unfold cnt
                rw [List.length_eq_zero_iff, List.filter_eq_nil_iff]
                intro f hf hx
                have hlr : f.lr = some i := by simpa using hx
                obtain ⟨re, a', hre, hga⟩ := h.own l fx f i hle hf hlr
                rw [hr0] at hre; cases hre
                rw [hgl] at hga; cases hga
                exact hll rfl
              have := bindLoop_reloc0 l sec off i fx { secs := s.secs, relocs := s.relocs, kept := [], resolved := 0, err := .ok } hc
              rw [this] at hi
              replace hr0 : ({ secs := s.secs, relocs := s.relocs, kept := [], resolved := 0, err := .ok } : Acc).relocs[i]? = some r0 := hr0
              rw [hr0] at hi; cases hi
              left
              exact ⟨fx', by rw [List.getElem?_set_ne hll]; exact h1, h2, h3, h4⟩
          · -- a label that is already bound (so l' ≠ l)
            have hll : l ≠ l' := by intro e; subst e; rw [hle] at h1; cases h1
            have hc : cnt fx i = 0 := by
              unfold cnt
              rw [List.length_eq_zero_iff, List.filter_eq_nil_iff]
              intro f hf hx
              have hlr : f.lr = some i := by simpa using hx
              obtain ⟨re, a', hre, hga⟩ := h.own l fx f i hle hf hlr
              rw [hr0] at hre; cases hre
              rw [hgl] at hga; cases hga
              exact hll rfl
            have := bindLoop_reloc0 l sec off i fx { secs := s.secs, relocs := s.relocs, kept := [], resolved := 0, err := .ok } hc
            rw [this] at hi
            replace hr0 : ({ secs := s.secs, relocs := s.relocs, kept := [], resolved := 0, err := .ok } : Acc).relocs[i]? = some r0 := hr0
            rw [hr0] at hi; cases hi
            right
            exact ⟨sec', off', by rw [List.getElem?_set_ne hll]; exact h1, h2, h3⟩
        · intro l' fx' f i hlab hf hlr
          replace hlab : (s.labels.set l (LabelEntry.bound sec off))[l']? = some (LabelEntry.unbound fx') := hlab
          by_cases hll : l = l'
          · subst hll; rw [hget] at hlab; cases hlab
          · rw [List.getElem?_set_ne hll] at hlab
            obtain ⟨re, a, hre, hga⟩ := h.own l' fx' f i hlab hf hlr
            -- the entry is still there, with the same ghost link
            show ∃ r a', (fx.foldl (bindStep l sec off) _).relocs[i]? = some r ∧ r.gl = some (l', a')
            have hc : cnt fx i = 0 := by
              unfold cnt
              rw [List.length_eq_zero_iff, List.filter_eq_nil_iff]
              intro f2 hf2 hx
              have hlr2 : f2.lr = some i := by simpa using hx
              obtain ⟨re2, a2, hre2, hga2⟩ := h.own l fx f2 i hle hf2 hlr2
              rw [hre] at hre2; cases hre2
              rw [hga] at hga2; cases hga2
              exact hll rfl
            rw [bindLoop_reloc0 l sec off i fx _ hc]
            exact ⟨re, a, hre, hga⟩

theorem addAddress_relocs (s : State) (a : BitVec 64) : (addAddress s a).relocs = s.relocs := by
  unfold addAddress
  split
  · rfl
  · cases hx : s.addrTabSec <;> rfl

theorem pinv_site (s : State) (lead tail : Bytes) (l : Nat) (f : Fixup) (hlr : f.lr = none) (h : PInv s) :
    PInv ((newFixup (s.emit lead) l f).emit tail) :=
  pinv_of_eq (s := newFixup (s.emit lead) l f) rfl rfl (pinv_newFixup_plain (s.emit lead) l f hlr (pinv_of_eq (s := s) rfl rfl h))

theorem pinv_x86MemAbsM (s : State) (sh : AShape) (a : AddrT) (t : BitVec 64) (h : PInv s) : PInv (x86MemAbsM s sh a t).1 := by
  unfold x86MemAbsM
  dsimp only
  repeat' split
  all_goals first
    | exact h
    | exact pinv_of_eq (s := s) rfl rfl h
    | exact pinv_append_plain (s := s) rfl _ rfl rfl h

theorem step_pinv (s : State) (op : Op) (hrel : ∀ b, op ≠ .relocate b) (h : PInv s) : PInv (step s op).1 := by
  cases op with
  | newLabel => simp only [step]; exact pinv_newLabel s h
  | newSection a o => simp only [step]; unfold newSection; split <;> first | exact h | exact pinv_of_eq (s := s) rfl rfl h
  | «section» id => simp only [step]; unfold switchSection; split <;> first | exact h | exact pinv_of_eq (s := s) rfl rfl h
  | bind l => simp only [step]; unfold bind; exact pinv_bindLabel _ _ _ _ h
  | align n =>
    simp only [step]; unfold alignZero
    repeat' split
    all_goals first | exact h | exact pinv_of_eq (s := s) rfl rfl h
  | embed bs => simp only [step]; unfold embed; exact pinv_of_eq (s := s) rfl rfl h
  | jmp k opt l =>
    simp only [step]
    split
    · exact h
    · unfold x86JmpLabel emitJmpCallRel
      dsimp only
      repeat' split
      all_goals first
        | exact h
        | exact pinv_of_eq (s := s) rfl rfl h
        | exact pinv_site s _ _ l _ rfl h
  | mem k l d =>
    simp only [step]
    split
    · exact h
    · unfold x86MemLabel
      cases hl : s.labels[l]? with
      | none => exact h
      | some le =>
        dsimp only
        split
        · cases le with
          | bound lsec loff =>
            dsimp only
            exact pinv_reloc_bound (s := s) rfl _ rfl l lsec loff (d.signExtend 64) hl rfl rfl rfl h
          | unbound fx =>
            dsimp only
            refine pinv_of_eq (s := newFixup _ l _) rfl rfl (pinv_reloc_fixup s _ ?_ ?_ ?_ l fx (d.signExtend 64) hl ?_ ?_ ?_ _ ?_ h) <;> first | rfl | skip
        · cases le with
          | unbound fx =>
            dsimp only
            split
            · exact h
            · exact pinv_site s _ _ l _ rfl h
          | bound lsec loff =>
            dsimp only
            repeat' split
            all_goals first
              | exact h
              | exact pinv_of_eq (s := s) rfl rfl h
              | exact pinv_site s _ _ l _ rfl h
  | a64 k l a =>
    simp only [step]
    split
    · exact h
    · unfold a64RelLabel
      dsimp only
      repeat' split
      all_goals first
        | exact h
        | exact pinv_of_eq (s := s) rfl rfl h
        | exact pinv_of_eq (s := newFixup s l _) rfl rfl (pinv_newFixup_plain s l _ rfl h)
  | elabel l n =>
    simp only [step]; unfold embedLabel
    cases hl : s.labels[l]? with
    | none => exact h
    | some le =>
      cases le with
      | bound lsec loff =>
        dsimp only
        repeat' (first | split | dsimp only)
        all_goals first
          | exact h
          | exact pinv_reloc_bound (s := s) rfl _ rfl l lsec loff 0#64 hl rfl rfl (by simp) h
      | unbound fx =>
        dsimp only
        repeat' (first | split | dsimp only)
        all_goals first
          | exact h
          | (refine pinv_of_eq (s := newFixup _ l _) rfl rfl (pinv_reloc_fixup s _ ?_ ?_ ?_ l fx 0#64 hl ?_ ?_ ?_ _ ?_ h) <;> first | rfl | skip)
  | edelta l b n =>
    simp only [step]; unfold embedLabelDelta
    repeat' (first | split | dsimp only)
    all_goals first
      | exact h
      | exact pinv_of_eq (s := s) rfl rfl h
      | exact pinv_append_plain (s := s) rfl _ rfl rfl h
  | vsize i v => simp only [step]; unfold setVirtSize; split <;> first | exact h | exact pinv_of_eq (s := s) rfl rfl h
  | flatten => simp only [step]; unfold flatten; dsimp only; split <;> first | exact h | exact pinv_of_eq (s := s) rfl rfl h
  | resolve => simp only [step]; unfold resolve; split <;> first | exact h | exact pinv_of_eq (s := s) rfl rfl h
  | relocate b => exact absurd rfl (hrel b)
  | jmpAbs k opt t =>
    simp only [step]
    split
    · exact h
    · unfold x86JmpAbs emitJmpCallRel
      dsimp only
      have hA : PInv (addAddress s t) := pinv_of_eq (addAddress_core s t).1 (addAddress_relocs s t) h
      repeat' split
      all_goals first
        | exact h
        | exact pinv_of_eq (s := s) rfl rfl h
        | exact pinv_append_plain (s := s) rfl _ rfl rfl h
        | exact pinv_append_plain (s := addAddress s t) rfl _ rfl rfl hA
  | a64Abs k t =>
    simp only [step]
    split
    · exact h
    · unfold a64RelAbs
      dsimp only
      repeat' split
      all_goals first
        | exact h
        | exact pinv_of_eq (s := s) rfl rfl h
        | exact pinv_append_plain (s := s) rfl _ rfl rfl h
  | memAbs k a t =>
    simp only [step]
    split
    · exact h
    · unfold x86MemAbs
      cases (MKind.ashape s.arch k).moffs with
      | none => exact pinv_x86MemAbsM _ _ _ _ h
      | some mo =>
        dsimp only
        split
        · exact pinv_of_eq (s := s) rfl rfl h
        · exact pinv_x86MemAbsM _ _ _ _ h

theorem pinv_init (arch : Arch) (base : BitVec 64) : PInv (State.init arch base) := by
  constructor
  · intro i r l a hi; simp [State.init] at hi
  · intro l fx f i hl; simp [State.init] at hl

theorem run_pinv (s : State) (ops : List Op) (hops : ∀ op ∈ ops, ∀ b, op ≠ .relocate b) (h : PInv s) : PInv (run s ops) := by
  induction ops generalizing s with
  | nil => exact h
  | cons op rest ih =>
    exact ih _ (fun o ho => hops o (List.mem_cons_of_mem _ ho)) (step_pinv s op (hops op List.mem_cons_self) h)

end AsmjitVerif.CodeHolder
