/-
C01 helper lemmas, spec side: what the instruction-format parser `Spec.X86.parse` returns on byte strings of the register-form
shapes (EVEX / VEX3 / XOP / VEX2 prefix, opcode, ModRM with mod = 11, immediate bytes), bridges between the Nat-level fields
of the spec and bit-vector facts, and the "shape" lemmas: a parsed VEX-family instruction whose fields spell the operands
satisfies every condition of the monitor (`formOk`).
-/
import AsmjitVerif.Spec.X86Decode
import Std.Tactic.BVDecide
set_option linter.constructorNameAsVariable false
namespace AsmjitVerif.Lemmas.X86Parse
open Spec.X86

/-! ### parser on concrete shapes (64-bit mode) -/

theorem parse_evex_reg (m64 : Bool) (r : Rule) (p0 p1 p2 o mb : BitVec 8) (imm : List (BitVec 8))
    (h32 : m64 = false → bits p0 6 2 = 3)
    (hs : r.space = 2) (hfw : r.pp &&& 8 = 0) (hmk : r.modKind ≠ 0)
    (h3 : bit p0 3 = false) (h2 : bit p1 2 = true) (hmod : bits mb 6 2 = 3)
    (hlen : imm.length = r.immBytes + r.relBytes) (hmoff : r.moff = false) :
    parse m64 r (0x62#8 :: p0 :: p1 :: p2 :: o :: mb :: imm) =
      .ok { prefixes := [], vexKind := 4, R := !bit p0 7, X := !bit p0 6, B := !bit p0 5, R' := !bit p0 4, map := bits p0 0 3,
            W := bit p1 7, vvvv := 15 - bits p1 3 4, pp := bits p1 0 2, z := bit p2 7, L := bits p2 5 2, b := bit p2 4,
            V' := !bit p2 3, aaa := bits p2 0 3, opcode := o, modrm := some mb, addr16 := false, imm := imm,
            length := 6 + imm.length } := by
  cases m64 with
  | true =>
    simp [parse, takePrefixes, isLegacyPrefix, hs, hfw, hmk, h3, h2, parseModRM, hmod, hlen, hmoff, bind, Except.bind, pure, Except.pure]
    omega
  | false =>
    have h32' := h32 rfl
    simp [parse, h32', takePrefixes, isLegacyPrefix, hs, hfw, hmk, h3, h2, parseModRM, hmod, hlen, hmoff, bind, Except.bind, pure, Except.pure]
    omega

theorem parse_vex3_reg (m64 : Bool) (r : Rule) (b1 b2 o mb : BitVec 8) (imm : List (BitVec 8))
    (h32 : m64 = false → bits b1 6 2 = 3)
    (hs : r.space = 1) (hfw : r.pp &&& 8 = 0) (hmk : r.modKind ≠ 0) (hmod : bits mb 6 2 = 3)
    (hlen : imm.length = r.immBytes + r.relBytes) (hmoff : r.moff = false) :
    parse m64 r (0xC4#8 :: b1 :: b2 :: o :: mb :: imm) =
      .ok { prefixes := [], vexKind := 3, R := !bit b1 7, X := !bit b1 6, B := !bit b1 5, map := bits b1 0 5, W := bit b2 7,
            vvvv := 15 - bits b2 3 4, L := bits b2 2 1, pp := bits b2 0 2, opcode := o, modrm := some mb, addr16 := false, imm := imm,
            length := 5 + imm.length } := by
  cases m64 with
  | true =>
    simp [parse, takePrefixes, isLegacyPrefix, hs, hfw, hmk, parseModRM, hmod, hlen, hmoff, bind, Except.bind, pure, Except.pure]
    omega
  | false =>
    have h32' := h32 rfl
    simp [parse, h32', takePrefixes, isLegacyPrefix, hs, hfw, hmk, parseModRM, hmod, hlen, hmoff, bind, Except.bind, pure, Except.pure]
    omega

theorem parse_xop_reg (r : Rule) (b1 b2 o mb : BitVec 8) (imm : List (BitVec 8))
    (hs : r.space = 3) (hfw : r.pp &&& 8 = 0) (hmk : r.modKind ≠ 0) (hmod : bits mb 6 2 = 3) (hm8 : ¬ bits b1 0 5 < 8)
    (hlen : imm.length = r.immBytes + r.relBytes) (hmoff : r.moff = false) :
    parse true r (0x8F#8 :: b1 :: b2 :: o :: mb :: imm) =
      .ok { prefixes := [], vexKind := 5, R := !bit b1 7, X := !bit b1 6, B := !bit b1 5, map := bits b1 0 5, W := bit b2 7,
            vvvv := 15 - bits b2 3 4, L := bits b2 2 1, pp := bits b2 0 2, opcode := o, modrm := some mb, addr16 := false, imm := imm,
            length := 5 + imm.length } := by
  simp [parse, takePrefixes, isLegacyPrefix, hs, hfw, hmk, parseModRM, hmod, hlen, hmoff, hm8, bind, Except.bind, pure, Except.pure]
  omega

theorem parse_vex2_reg (m64 : Bool) (r : Rule) (b1 o mb : BitVec 8) (imm : List (BitVec 8))
    (h32 : m64 = false → bits b1 6 2 = 3)
    (hs : r.space = 1) (hfw : r.pp &&& 8 = 0) (hmk : r.modKind ≠ 0) (hmod : bits mb 6 2 = 3)
    (hlen : imm.length = r.immBytes + r.relBytes) (hmoff : r.moff = false) :
    parse m64 r (0xC5#8 :: b1 :: o :: mb :: imm) =
      .ok { prefixes := [], vexKind := 2, R := !bit b1 7, vvvv := 15 - bits b1 3 4, L := bits b1 2 1, pp := bits b1 0 2, map := 1,
            opcode := o, modrm := some mb, addr16 := false, imm := imm, length := 4 + imm.length } := by
  cases m64 with
  | true =>
    simp [parse, takePrefixes, isLegacyPrefix, hs, hfw, hmk, parseModRM, hmod, hlen, hmoff, bind, Except.bind, pure, Except.pure]
    omega
  | false =>
    have h32' := h32 rfl
    simp [parse, h32', takePrefixes, isLegacyPrefix, hs, hfw, hmk, parseModRM, hmod, hlen, hmoff, bind, Except.bind, pure, Except.pure]
    omega

/-! ### Nat-level fields vs bit-vectors -/

theorem toNat_eq_of_zext {n : Nat} (a : BitVec n) (b : BitVec 32) (hn : n ≤ 32) (h : a.zeroExtend 32 = b) : a.toNat = b.toNat := by
  subst h; simp [BitVec.toNat_setWidth]; exact (Nat.mod_eq_of_lt (Nat.lt_of_lt_of_le a.isLt (Nat.pow_le_pow_right (by omega) hn))).symm

/-- Nat-level register number = the 5-bit number the bytes spell -/
theorem regNum_eq (hi4 hi3 : Bool) (lo : BitVec 3) (r : BitVec 32)
    (h : lo.zeroExtend 32 + (if hi3 then 8#32 else 0#32) + (if hi4 then 16#32 else 0#32) = r) : regNum hi4 hi3 lo.toNat = r.toNat := by
  subst h
  have := lo.isLt
  cases hi4 <;> cases hi3 <;> simp [regNum, BitVec.toNat_add] <;> omega

/-- the same for the inverted 4-bit vvvv field extended by V' -/
theorem regNum_eq4 (hi4 : Bool) (lo : BitVec 4) (r : BitVec 32)
    (h : (~~~lo).zeroExtend 32 + (if hi4 then 16#32 else 0#32) = r) : regNum hi4 false (15 - lo.toNat) = r.toNat := by
  subst h
  have := lo.isLt
  have e : (~~~lo).toNat = 15 - lo.toNat := by simp [BitVec.toNat_not]
  cases hi4 <;> simp [regNum, BitVec.toNat_add, e] <;> try omega

theorem regNum_zero (hi4 : Bool) (lo : Nat) (h : regNum hi4 false lo = 0) : lo = 0 ∧ hi4 = false := by
  cases hi4 <;> simp [regNum] at h ⊢ <;> omega

/-! ### condition lists -/

theorem regConds_plain (what : String) (k : RegKind) (id n : Nat) (p : Parsed)
    (hk : k ≠ .gpbhi ∧ k ≠ .gpb ∧ k ≠ .sreg) : allOk (regConds what k id n p) = (n == id) := by
  obtain ⟨h1, h2, h3⟩ := hk
  cases k <;> simp_all [regConds, allOk]

theorem allOk_append (a b : List Chk) : allOk (a ++ b) = (allOk a && allOk b) := by simp [allOk]
theorem allOk_cons (a : Chk) (b : List Chk) : allOk (a :: b) = (a.ok && allOk b) := by simp [allOk]
theorem allOk_nil : allOk [] = true := rfl

/-- what the parser returned for a VEX-family register form, in terms of the rule -/
structure VexParsed (rule : Rule) (p : Parsed) (mb : BitVec 8) : Prop where
  hvk : p.vexKind = 2 ∨ p.vexKind = 3 ∨ p.vexKind = 4 ∨ p.vexKind = 5
  hpfx : p.prefixes = []
  hrex : p.rex = none
  hmodrm : p.modrm = some mb
  hmod : bits mb 6 2 = 3
  hop : p.opcode.toNat = rule.opcode
  hmap : p.map = rule.map
  hpp : p.pp = ppWant rule
  hw : wWant rule = 2 ∨ p.W = (wWant rule == 1)
  hl : rule.l = 3 ∨ p.L = rule.l
  hl1 : p.vexKind ≠ 4 → p.L ≤ 1
  hev : p.vexKind = 4 → (p.aaa = 0 ∧ p.z = false ∧ p.b = false ∧ p.map < 8)

/-- rule side: a VEX-family form with `/r`, no fixed ModRM digits, available in 64-bit mode, `nimm` immediate bytes -/
structure VexRule (rule : Rule) (nimm : Nat) : Prop where
  hmodes : rule.modes &&& 2 ≠ 0
  hs : rule.space = 1 ∨ rule.space = 2 ∨ rule.space = 3
  hpp8 : rule.pp &&& 8 = 0
  hri : rule.ri = false
  hmk : rule.modKind = 1 ∨ rule.modKind = 2
  hmr : rule.modr = 8
  hmrm : rule.modrm = 8
  himm : rule.immBytes = nimm
  hrel : rule.relBytes = 0
  hmoff : rule.moff = false
  ha67 : rule.a67 = false
  hrev : rule.immRev = false
  hosz : rule.osz = 0


theorem oszEff_zero (rule : Rule) (hosz : rule.osz = 0) (hs : rule.space = 1 ∨ rule.space = 2 ∨ rule.space = 3) : rule.oszEff = 0 := by
  rcases hs with h | h | h <;> simp [Rule.oszEff, hosz, h]

def PlainKind (k : RegKind) : Prop := k ≠ .gpbhi ∧ k ≠ .gpb ∧ k ≠ .sreg

/-- shape [reg, vvvv, rm] (+ optional imm8) : all conditions of the monitor hold -/
theorem vex_rvm_formOk (ctx : Spec.X86.Ctx) (rule : Rule) (p : Parsed) (mb : BitVec 8) (bytes : List (BitVec 8))
    (k0 k1 k2 : RegKind) (f0 f1 f2 : FormOp) (i0 i1 i2 : Nat)
    (hmode : ((if ctx.mode64 then rule.modes &&& 2 else rule.modes &&& 1) != 0) = true) (hk0 : PlainKind k0) (hk1 : PlainKind k1) (hk2 : PlainKind k2)
    (R : VexRule rule 0) (hf0 : f0.role = .reg) (hf1 : f1.role = .vvvv) (hf2 : f2.role = .rm)
    (hal : alignOps rule.oszEff rule.ops [.reg k0 i0, .reg k1 i1, .reg k2 i2] =
           some [(f0, some (.reg k0 i0)), (f1, some (.reg k1 i1)), (f2, some (.reg k2 i2))])
    (hparse : parse ctx.mode64 rule bytes = .ok p) (P : VexParsed rule p mb)
    (hreg : regNum p.R' p.R (bits mb 3 3) = i0)
    (hvv : regNum p.V' false p.vvvv = i1)
    (hrm : regNum (p.vexKind == 4 && p.X) p.B (bits mb 0 3) = i2) :
    formOk ctx rule [.reg k0 i0, .reg k1 i1, .reg k2 i2] {} bytes = true := by
  obtain ⟨hvk, hpfx, hrex, hmodrm, hmod, hop, hmap, hpp, hw, hl, hl1, hev⟩ := P
  obtain ⟨hmodes, hs, hpp8, hri, hmk, hmr, hmrm, himm, hrel, hmoff, ha67, hrev, hosz⟩ := R
  have hleg : isLegacySpace rule = false := by rcases hs with h | h | h <;> simp [isLegacySpace, h]
  have hs4 : (rule.space == 4) = false := by rcases hs with h | h | h <;> simp [h]
  have hvk0 : (p.vexKind == 0) = false := by rcases hvk with h | h | h | h <;> simp [h]
  simp only [formOk, conds, hal, hparse, hmode]
  simp only [allOk_cons, allOk_append, decorConds, headConds, prefixConds, modrmConds, operandConds, opConds, tailConds, hf0, hf1, hf2,
    regConds_plain _ _ _ _ _ hk0, regConds_plain _ _ _ _ _ hk1, regConds_plain _ _ _ _ _ hk2, allOk_nil, memOperandOf, implMemOf, usesVvvv,
    hasBcst, hleg, hri, hmodrm, hpfx, hrex]
  simp [hop, hmap, hpp, hreg, hvv, hrm, hmod, hmr, hmrm, hs4, hvk0, hpp8, ha67]
  have hvk0' : ¬ p.vexKind = 0 := by rcases hvk with h | h | h | h <;> omega
  and_intros
  all_goals first
    | exact hw
    | exact hvk0'
    | (refine Or.inl ?_; rcases hs with h | h | h <;> omega)
    | (rcases hmk with h | h <;> omega)
    | (rcases hl with h | h
       · exact Or.inl (Or.inl h)
       · exact Or.inr h)
    | (by_cases h4 : p.vexKind = 4
       · left; omega
       · right; exact hl1 h4)
    | (by_cases h4 : p.vexKind = 4
       · obtain ⟨a, z, b, m⟩ := hev h4
         rw [hmap] at m
         simp [h4, allOk, a, z, b, m]
       · simp [h4, allOk])
    | exact Or.inl (Or.inr (Or.inr (Or.inl ‹_›)))
    | simp [leBytes, allOk]

/-- shape [reg, rm]: vvvv must be unused (1111b, V' clear) -/
theorem vex_rm_formOk (ctx : Spec.X86.Ctx) (rule : Rule) (p : Parsed) (mb : BitVec 8) (bytes : List (BitVec 8))
    (k0 k2 : RegKind) (f0 f2 : FormOp) (i0 i2 : Nat)
    (hmode : ((if ctx.mode64 then rule.modes &&& 2 else rule.modes &&& 1) != 0) = true) (hk0 : PlainKind k0) (hk2 : PlainKind k2)
    (R : VexRule rule 0) (hf0 : f0.role = .reg) (hf2 : f2.role = .rm)
    (hal : alignOps rule.oszEff rule.ops [.reg k0 i0, .reg k2 i2] =
           some [(f0, some (.reg k0 i0)), (f2, some (.reg k2 i2))])
    (hparse : parse ctx.mode64 rule bytes = .ok p) (P : VexParsed rule p mb)
    (hreg : regNum p.R' p.R (bits mb 3 3) = i0)
    (hvv : regNum p.V' false p.vvvv = 0)
    (hrm : regNum (p.vexKind == 4 && p.X) p.B (bits mb 0 3) = i2) :
    formOk ctx rule [.reg k0 i0, .reg k2 i2] {} bytes = true := by
  obtain ⟨hvk, hpfx, hrex, hmodrm, hmod, hop, hmap, hpp, hw, hl, hl1, hev⟩ := P
  obtain ⟨hmodes, hs, hpp8, hri, hmk, hmr, hmrm, himm, hrel, hmoff, ha67, hrev, hosz⟩ := R
  have hleg : isLegacySpace rule = false := by rcases hs with h | h | h <;> simp [isLegacySpace, h]
  have hs4 : (rule.space == 4) = false := by rcases hs with h | h | h <;> simp [h]
  have hvk0 : (p.vexKind == 0) = false := by rcases hvk with h | h | h | h <;> simp [h]
  simp only [formOk, conds, hal, hparse, hmode]
  simp only [allOk_cons, allOk_append, decorConds, headConds, prefixConds, modrmConds, operandConds, opConds, tailConds, hf0, hf2,
    regConds_plain _ _ _ _ _ hk0, regConds_plain _ _ _ _ _ hk2, allOk_nil, memOperandOf, implMemOf, usesVvvv,
    hasBcst, hleg, hri, hmodrm, hpfx, hrex]
  obtain ⟨hv0, hV⟩ := regNum_zero _ _ hvv
  simp [hop, hmap, hpp, hreg, hrm, hmod, hmr, hmrm, hs4, hvk0, hpp8, ha67, hv0, hV]
  have hvk0' : ¬ p.vexKind = 0 := by rcases hvk with h | h | h | h <;> omega
  and_intros
  all_goals first
    | exact hw
    | exact hvk0'
    | (refine Or.inl ?_; rcases hs with h | h | h <;> omega)
    | (rcases hmk with h | h <;> omega)
    | (rcases hl with h | h
       · exact Or.inl (Or.inl h)
       · exact Or.inr h)
    | (by_cases h4 : p.vexKind = 4
       · left; omega
       · right; exact hl1 h4)
    | (by_cases h4 : p.vexKind = 4
       · obtain ⟨a, z, b, m⟩ := hev h4
         rw [hmap] at m
         simp [h4, allOk, a, z, b, m]
       · simp [h4, allOk])
    | exact Or.inl (Or.inr (Or.inr (Or.inl ‹_›)))
    | simp [leBytes, allOk]

/-- shape [reg, vvvv, rm, imm8] -/
theorem vex_rvmi_formOk (ctx : Spec.X86.Ctx) (rule : Rule) (p : Parsed) (mb : BitVec 8) (bytes : List (BitVec 8))
    (k0 k1 k2 : RegKind) (f0 f1 f2 : FormOp) (i0 i1 i2 : Nat)
    (hmode : ((if ctx.mode64 then rule.modes &&& 2 else rule.modes &&& 1) != 0) = true) (hk0 : PlainKind k0) (hk1 : PlainKind k1) (hk2 : PlainKind k2)
    (R : VexRule rule 1) (f3 : FormOp) (v : BitVec 64) (hf3 : f3.role = .imm) (hib : immBitsOf f3 = 8)
    (himmp : p.imm = [BitVec.ofNat 8 v.toNat]) (hf0 : f0.role = .reg) (hf1 : f1.role = .vvvv) (hf2 : f2.role = .rm)
    (hal : alignOps rule.oszEff rule.ops [.reg k0 i0, .reg k1 i1, .reg k2 i2, .imm v] =
           some [(f0, some (.reg k0 i0)), (f1, some (.reg k1 i1)), (f2, some (.reg k2 i2)), (f3, some (.imm v))])
    (hparse : parse ctx.mode64 rule bytes = .ok p) (P : VexParsed rule p mb)
    (hreg : regNum p.R' p.R (bits mb 3 3) = i0)
    (hvv : regNum p.V' false p.vvvv = i1)
    (hrm : regNum (p.vexKind == 4 && p.X) p.B (bits mb 0 3) = i2) :
    formOk ctx rule [.reg k0 i0, .reg k1 i1, .reg k2 i2, .imm v] {} bytes = true := by
  obtain ⟨hvk, hpfx, hrex, hmodrm, hmod, hop, hmap, hpp, hw, hl, hl1, hev⟩ := P
  obtain ⟨hmodes, hs, hpp8, hri, hmk, hmr, hmrm, himm, hrel, hmoff, ha67, hrev, hosz⟩ := R
  have hleg : isLegacySpace rule = false := by rcases hs with h | h | h <;> simp [isLegacySpace, h]
  have hs4 : (rule.space == 4) = false := by rcases hs with h | h | h <;> simp [h]
  have hvk0 : (p.vexKind == 0) = false := by rcases hvk with h | h | h | h <;> simp [h]
  simp only [formOk, conds, hal, hparse, hmode]
  simp only [allOk_cons, allOk_append, decorConds, headConds, prefixConds, modrmConds, operandConds, opConds, tailConds, hf0, hf1, hf2, hf3, hib, himmp, immBytesOf, oszEff_zero rule hosz hs, hrev,
    regConds_plain _ _ _ _ _ hk0, regConds_plain _ _ _ _ _ hk1, regConds_plain _ _ _ _ _ hk2, allOk_nil, memOperandOf, implMemOf, usesVvvv,
    hasBcst, hleg, hri, hmodrm, hpfx, hrex]
  simp [hop, hmap, hpp, hreg, hvv, hrm, hmod, hmr, hmrm, hs4, hvk0, hpp8, ha67]
  have hvk0' : ¬ p.vexKind = 0 := by rcases hvk with h | h | h | h <;> omega
  and_intros
  all_goals first
    | exact hw
    | exact hvk0'
    | (refine Or.inl ?_; rcases hs with h | h | h <;> omega)
    | (rcases hmk with h | h <;> omega)
    | (rcases hl with h | h
       · exact Or.inl (Or.inl h)
       · exact Or.inr h)
    | (by_cases h4 : p.vexKind = 4
       · left; omega
       · right; exact hl1 h4)
    | (by_cases h4 : p.vexKind = 4
       · obtain ⟨a, z, b, m⟩ := hev h4
         rw [hmap] at m
         simp [h4, allOk, a, z, b, m]
       · simp [h4, allOk])
    | exact Or.inl (Or.inr (Or.inr (Or.inl ‹_›)))
    | simp [leBytes, allOk]

/-- shape [reg, rm, imm8] -/
theorem vex_rmi_formOk (ctx : Spec.X86.Ctx) (rule : Rule) (p : Parsed) (mb : BitVec 8) (bytes : List (BitVec 8))
    (k0 k2 : RegKind) (f0 f2 : FormOp) (i0 i2 : Nat)
    (hmode : ((if ctx.mode64 then rule.modes &&& 2 else rule.modes &&& 1) != 0) = true) (hk0 : PlainKind k0) (hk2 : PlainKind k2)
    (R : VexRule rule 1) (f3 : FormOp) (v : BitVec 64) (hf3 : f3.role = .imm) (hib : immBitsOf f3 = 8)
    (himmp : p.imm = [BitVec.ofNat 8 v.toNat]) (hf0 : f0.role = .reg) (hf2 : f2.role = .rm)
    (hal : alignOps rule.oszEff rule.ops [.reg k0 i0, .reg k2 i2, .imm v] =
           some [(f0, some (.reg k0 i0)), (f2, some (.reg k2 i2)), (f3, some (.imm v))])
    (hparse : parse ctx.mode64 rule bytes = .ok p) (P : VexParsed rule p mb)
    (hreg : regNum p.R' p.R (bits mb 3 3) = i0)
    (hvv : regNum p.V' false p.vvvv = 0)
    (hrm : regNum (p.vexKind == 4 && p.X) p.B (bits mb 0 3) = i2) :
    formOk ctx rule [.reg k0 i0, .reg k2 i2, .imm v] {} bytes = true := by
  obtain ⟨hvk, hpfx, hrex, hmodrm, hmod, hop, hmap, hpp, hw, hl, hl1, hev⟩ := P
  obtain ⟨hmodes, hs, hpp8, hri, hmk, hmr, hmrm, himm, hrel, hmoff, ha67, hrev, hosz⟩ := R
  have hleg : isLegacySpace rule = false := by rcases hs with h | h | h <;> simp [isLegacySpace, h]
  have hs4 : (rule.space == 4) = false := by rcases hs with h | h | h <;> simp [h]
  have hvk0 : (p.vexKind == 0) = false := by rcases hvk with h | h | h | h <;> simp [h]
  simp only [formOk, conds, hal, hparse, hmode]
  simp only [allOk_cons, allOk_append, decorConds, headConds, prefixConds, modrmConds, operandConds, opConds, tailConds, hf0, hf2, hf3, hib, himmp, immBytesOf, oszEff_zero rule hosz hs, hrev,
    regConds_plain _ _ _ _ _ hk0, regConds_plain _ _ _ _ _ hk2, allOk_nil, memOperandOf, implMemOf, usesVvvv,
    hasBcst, hleg, hri, hmodrm, hpfx, hrex]
  obtain ⟨hv0, hV⟩ := regNum_zero _ _ hvv
  simp [hop, hmap, hpp, hreg, hrm, hmod, hmr, hmrm, hs4, hvk0, hpp8, ha67, hv0, hV]
  have hvk0' : ¬ p.vexKind = 0 := by rcases hvk with h | h | h | h <;> omega
  and_intros
  all_goals first
    | exact hw
    | exact hvk0'
    | (refine Or.inl ?_; rcases hs with h | h | h <;> omega)
    | (rcases hmk with h | h <;> omega)
    | (rcases hl with h | h
       · exact Or.inl (Or.inl h)
       · exact Or.inr h)
    | (by_cases h4 : p.vexKind = 4
       · left; omega
       · right; exact hl1 h4)
    | (by_cases h4 : p.vexKind = 4
       · obtain ⟨a, z, b, m⟩ := hev h4
         rw [hmap] at m
         simp [h4, allOk, a, z, b, m]
       · simp [h4, allOk])
    | exact Or.inl (Or.inr (Or.inr (Or.inl ‹_›)))
    | simp [leBytes, allOk]

/-! ### legacy encoding space -/


/-- the single mandatory / operand-size prefix the legacy emitters write (`emit_pp`) -/
def ppBytes (pp : Nat) : List (BitVec 8) := if pp == 1 then [0x66#8] else if pp == 2 then [0xF3#8] else if pp == 3 then [0xF2#8] else []

theorem isLP_66 : isLegacyPrefix 0x66#8 false = true := by decide
theorem isLP_F3 : isLegacyPrefix 0xF3#8 false = true := by decide
theorem isLP_F2 : isLegacyPrefix 0xF2#8 false = true := by decide
theorem isLP_0F : isLegacyPrefix 0x0F#8 false = false := by decide

/-- bit `i` of an optional REX byte -/
def rexBit (rex : Option (BitVec 8)) (i : Nat) : Bool := match rex with | some b => bit b i | none => false

/-- legacy register form: [66|F3|F2]? [REX]? escape opcode ModRM(mod=11) imm* (64-bit mode) -/
theorem parse_legacy_reg (m64 : Bool) (r : Rule) (pp : Nat) (rex : Option (BitVec 8)) (o mb : BitVec 8) (imm : List (BitVec 8))
    (h32 : m64 = false → rex = none)
    (hpp : pp < 4) (hs : r.space = 0) (hfw : r.pp &&& 8 = 0) (hmap : r.map < 4) (hmk : r.modKind ≠ 0)
    (hrex : ∀ b, rex = some b → b.toNat / 16 = 4 ∧ isLegacyPrefix b false = false)
    (ho : r.map = 0 → isLegacyPrefix o false = false ∧ (m64 = true → rex = none → o.toNat / 16 ≠ 4))
    (hmod : bits mb 6 2 = 3) (hlen : imm.length = r.immBytes + r.relBytes) (hmoff : r.moff = false) :
    parse m64 r (ppBytes pp ++ rex.toList ++ legacyEscape r.map ++ [o, mb] ++ imm) =
      .ok { prefixes := ppBytes pp, rex := rex,
            W := rexBit rex 3, R := rexBit rex 2, X := rexBit rex 1, B := rexBit rex 0,
            map := r.map, opcode := o, modrm := some mb, addr16 := false, imm := imm,
            length := (ppBytes pp).length + rex.toList.length + (legacyEscape r.map).length + 2 + imm.length } := by
  cases m64 with
  | true =>
    have hpp' : pp = 0 ∨ pp = 1 ∨ pp = 2 ∨ pp = 3 := by omega
    have hmap' : r.map = 0 ∨ r.map = 1 ∨ r.map = 2 ∨ r.map = 3 := by omega
    have hmk' : (r.modKind != 0) = true := by simpa using hmk
    cases rex with
    | none =>
      rcases hmap' with m | m | m | m
      · obtain ⟨ho1, ho2⟩ := ho m
        have ho2' := ho2 rfl rfl
        rcases hpp' with h | h | h | h <;> subst h <;>
          simp [parse, takePrefixes, isLP_66, isLP_F3, isLP_F2, isLP_0F, rexBit, ppBytes, legacyEscape, parseModRM, bind, Except.bind, pure, Except.pure, m, hs, hfw, hmk', hmod,
            hlen, hmoff, ho1, ho2'] <;> omega
      all_goals
        rcases hpp' with h | h | h | h <;> subst h <;>
          simp [parse, takePrefixes, isLP_66, isLP_F3, isLP_F2, isLP_0F, rexBit, ppBytes, legacyEscape, parseModRM, bind, Except.bind, pure, Except.pure, m, hs, hfw, hmk', hmod,
            hlen, hmoff] <;> omega
    | some b =>
      obtain ⟨hb1, hb2⟩ := hrex b rfl
      rcases hmap' with m | m | m | m
      all_goals
        rcases hpp' with h | h | h | h <;> subst h <;>
          simp [parse, takePrefixes, isLP_66, isLP_F3, isLP_F2, isLP_0F, rexBit, ppBytes, legacyEscape, parseModRM, bind, Except.bind, pure, Except.pure, m, hs, hfw, hmk', hmod,
            hlen, hmoff, hb1, hb2] <;> omega
  | false =>
    have hpp' : pp = 0 ∨ pp = 1 ∨ pp = 2 ∨ pp = 3 := by omega
    have hmap' : r.map = 0 ∨ r.map = 1 ∨ r.map = 2 ∨ r.map = 3 := by omega
    have hmk' : (r.modKind != 0) = true := by simpa using hmk
    cases rex with
    | none =>
      rcases hmap' with m | m | m | m
      · obtain ⟨ho1, ho2⟩ := ho m
        rcases hpp' with h | h | h | h <;> subst h <;>
          simp [parse, takePrefixes, isLP_66, isLP_F3, isLP_F2, isLP_0F, rexBit, ppBytes, legacyEscape, parseModRM, bind, Except.bind, pure, Except.pure, m, hs, hfw, hmk', hmod,
            hlen, hmoff, ho1] <;> omega
      all_goals
        rcases hpp' with h | h | h | h <;> subst h <;>
          simp [parse, takePrefixes, isLP_66, isLP_F3, isLP_F2, isLP_0F, rexBit, ppBytes, legacyEscape, parseModRM, bind, Except.bind, pure, Except.pure, m, hs, hfw, hmk', hmod,
            hlen, hmoff] <;> omega
    | some b => exact absurd (h32 rfl) (by simp)

/-- rule side: a legacy-space /r form, `nimm` immediate bytes, whose mandatory / operand-size prefix is `pp` (0 none, 1 66, 2 F3, 3 F2) -/
structure LegRuleD (rule : Rule) (nimm pp d : Nat) : Prop where
  hmodes : rule.modes &&& 2 ≠ 0
  hs : rule.space = 0
  hpp8 : rule.pp &&& 8 = 0
  h66 : (rule.pp &&& 1 != 0 || rule.osz == 16) = (pp == 1)
  hF3 : (rule.pp &&& 2 != 0) = (pp == 2)
  hF2 : (rule.pp &&& 4 != 0) = (pp == 3)
  hpplt : pp < 4
  hri : rule.ri = false
  hmk : rule.modKind = 1 ∨ rule.modKind = 2
  hmr : rule.modr = d
  hmrm : rule.modrm = 8
  himm : rule.immBytes = nimm
  hrel : rule.relBytes = 0
  hmoff : rule.moff = false
  ha67 : rule.a67 = false
  hrev : rule.immRev = false

/-- rule side of a legacy `/r` form (no ModRM.reg digit) -/
abbrev LegRule (rule : Rule) (nimm pp : Nat) : Prop := LegRuleD rule nimm pp 8

/-- what the parser returned for a legacy register form -/
structure LegParsed (rule : Rule) (p : Parsed) (mb : BitVec 8) (pp : Nat) : Prop where
  hvk : p.vexKind = 0
  hpfx : p.prefixes = ppBytes pp
  hmodrm : p.modrm = some mb
  hmod : bits mb 6 2 = 3
  hop : p.opcode.toNat = rule.opcode
  hw : wWant rule = 2 ∨ p.W = (wWant rule == 1)
  hR' : p.R' = false

theorem count_ppBytes (pp : Nat) (h : pp < 4) :
    (ppBytes pp).count 0x66#8 = (if pp == 1 then 1 else 0) ∧ (ppBytes pp).count 0xF3#8 = (if pp == 2 then 1 else 0) ∧
    (ppBytes pp).count 0xF2#8 = (if pp == 3 then 1 else 0) ∧ (ppBytes pp).count 0xF0#8 = 0 ∧ (ppBytes pp).count 0x9B#8 = 0 ∧
    (ppBytes pp).count 0x67#8 = 0 ∧ (ppBytes pp).filter isSegByte = [] ∧ (ppBytes pp).contains 0x67#8 = false := by
  have : pp = 0 ∨ pp = 1 ∨ pp = 2 ∨ pp = 3 := by omega
  rcases this with h | h | h | h <;> subst h <;> decide

/-- legacy shape [reg, rm] (either operand order is handled by the roles of the form) -/
theorem leg_2reg_formOk (ctx : Spec.X86.Ctx) (rule : Rule) (p : Parsed) (mb : BitVec 8) (bytes : List (BitVec 8)) (pp : Nat)
    (ka kb : RegKind) (fa fb : FormOp) (ia ib : Nat)
    (hmode : ((if ctx.mode64 then rule.modes &&& 2 else rule.modes &&& 1) != 0) = true) (hka : PlainKind ka) (hkb : PlainKind kb)
    (R : LegRule rule 0 pp)
    (hroles : (fa.role = .reg ∧ fb.role = .rm ∧ regNum false p.R (bits mb 3 3) = ia ∧ regNum false p.B (bits mb 0 3) = ib) ∨
              (fa.role = .rm ∧ fb.role = .reg ∧ regNum false p.B (bits mb 0 3) = ia ∧ regNum false p.R (bits mb 3 3) = ib))
    (hal : alignOps rule.oszEff rule.ops [.reg ka ia, .reg kb ib] = some [(fa, some (.reg ka ia)), (fb, some (.reg kb ib))])
    (hparse : parse ctx.mode64 rule bytes = .ok p) (P : LegParsed rule p mb pp) :
    formOk ctx rule [.reg ka ia, .reg kb ib] {} bytes = true := by
  obtain ⟨hvk, hpfx, hmodrm, hmod, hop, hw, hR'⟩ := P
  obtain ⟨hmodes, hs, hpp8, h66, hF3, hF2, hpplt, hri, hmk, hmr, hmrm, himm, hrel, hmoff, ha67, hrev⟩ := R
  obtain ⟨c66, cF3, cF2, cF0, c9B, c67, cseg, ccont⟩ := count_ppBytes pp hpplt
  have hleg : isLegacySpace rule = true := by simp [isLegacySpace, hs]
  simp only [formOk, conds, hal, hparse, hmode]
  rcases hroles with ⟨ra, rb, na, nb⟩ | ⟨ra, rb, na, nb⟩
  all_goals
    simp only [allOk_cons, allOk_append, decorConds, headConds, prefixConds, modrmConds, operandConds, opConds, tailConds, ra, rb,
      regConds_plain _ _ _ _ _ hka, regConds_plain _ _ _ _ _ hkb, allOk_nil, memOperandOf, implMemOf, usesVvvv, memDestOf,
      hasBcst, hleg, hri, hmodrm, hpfx, hvk, c66, cF3, cF2, cF0, c9B, c67, cseg, ccont, h66, hF3, hF2, hR']
    simp [hop, na, nb, hmod, hmr, hmrm, hs, hpp8, ha67, allOk]
    exact ⟨⟨hw, by simpa using c66, by simpa using cF3, by simpa using cF2, cF0, c9B, by omega, by simpa using ccont⟩,
      by rcases hmk with h | h <;> omega⟩

/-- legacy shape [reg, rm, imm8] -/
theorem leg_2reg_imm_formOk (ctx : Spec.X86.Ctx) (rule : Rule) (p : Parsed) (mb : BitVec 8) (bytes : List (BitVec 8)) (pp : Nat)
    (ka kb : RegKind) (fa fb : FormOp) (ia ib : Nat)
    (hmode : ((if ctx.mode64 then rule.modes &&& 2 else rule.modes &&& 1) != 0) = true) (hka : PlainKind ka) (hkb : PlainKind kb)
    (R : LegRule rule 1 pp) (f3 : FormOp) (v : BitVec 64) (hf3 : f3.role = .imm) (hib : immBitsOf f3 = 8) (hsg : (immSignOf f3 == 1) = false)
    (himmp : p.imm = [BitVec.ofNat 8 v.toNat])
    (hroles : (fa.role = .reg ∧ fb.role = .rm ∧ regNum false p.R (bits mb 3 3) = ia ∧ regNum false p.B (bits mb 0 3) = ib) ∨
              (fa.role = .rm ∧ fb.role = .reg ∧ regNum false p.B (bits mb 0 3) = ia ∧ regNum false p.R (bits mb 3 3) = ib))
    (hal : alignOps rule.oszEff rule.ops [.reg ka ia, .reg kb ib, .imm v] = some [(fa, some (.reg ka ia)), (fb, some (.reg kb ib)), (f3, some (.imm v))])
    (hparse : parse ctx.mode64 rule bytes = .ok p) (P : LegParsed rule p mb pp) :
    formOk ctx rule [.reg ka ia, .reg kb ib, .imm v] {} bytes = true := by
  obtain ⟨hvk, hpfx, hmodrm, hmod, hop, hw, hR'⟩ := P
  obtain ⟨hmodes, hs, hpp8, h66, hF3, hF2, hpplt, hri, hmk, hmr, hmrm, himm, hrel, hmoff, ha67, hrev⟩ := R
  obtain ⟨c66, cF3, cF2, cF0, c9B, c67, cseg, ccont⟩ := count_ppBytes pp hpplt
  have hleg : isLegacySpace rule = true := by simp [isLegacySpace, hs]
  simp only [formOk, conds, hal, hparse, hmode]
  rcases hroles with ⟨ra, rb, na, nb⟩ | ⟨ra, rb, na, nb⟩
  all_goals
    simp only [allOk_cons, allOk_append, decorConds, headConds, prefixConds, modrmConds, operandConds, opConds, tailConds, ra, rb, hf3, hib, hsg, himmp, immBytesOf, hrev, Bool.false_and, Bool.false_eq_true, ↓reduceIte,
      regConds_plain _ _ _ _ _ hka, regConds_plain _ _ _ _ _ hkb, allOk_nil, memOperandOf, implMemOf, usesVvvv, memDestOf,
      hasBcst, hleg, hri, hmodrm, hpfx, hvk, c66, cF3, cF2, cF0, c9B, c67, cseg, ccont, h66, hF3, hF2, hR']
    simp [hop, na, nb, hmod, hmr, hmrm, hs, hpp8, ha67, allOk, leBytes]
    exact ⟨⟨hw, by simpa using c66, by simpa using cF3, by simpa using cF2, cF0, c9B, by omega, by simpa using ccont⟩,
      by rcases hmk with h | h <;> omega⟩



/-- legacy form without ModRM: [66|F3|F2]? [REX]? escape opcode (64-bit mode) -/
theorem parse_legacy_op (r : Rule) (pp : Nat) (rex : Option (BitVec 8)) (o : BitVec 8)
    (hpp : pp < 4) (hs : r.space = 0) (hfw : r.pp &&& 8 = 0) (hmap : r.map < 4) (hmk : r.modKind = 0)
    (hrex : ∀ b, rex = some b → b.toNat / 16 = 4 ∧ isLegacyPrefix b false = false)
    (ho : r.map = 0 → isLegacyPrefix o false = false ∧ (rex = none → o.toNat / 16 ≠ 4))
    (himm : r.immBytes = 0) (hrel : r.relBytes = 0) (hmoff : r.moff = false) :
    parse true r (ppBytes pp ++ rex.toList ++ legacyEscape r.map ++ [o]) =
      .ok { prefixes := ppBytes pp, rex := rex, W := rexBit rex 3, R := rexBit rex 2, X := rexBit rex 1, B := rexBit rex 0,
            map := r.map, opcode := o, imm := [],
            length := (ppBytes pp).length + rex.toList.length + (legacyEscape r.map).length + 1 } := by
  have hpp' : pp = 0 ∨ pp = 1 ∨ pp = 2 ∨ pp = 3 := by omega
  have hmap' : r.map = 0 ∨ r.map = 1 ∨ r.map = 2 ∨ r.map = 3 := by omega
  cases rex with
  | none =>
    rcases hmap' with m | m | m | m
    · obtain ⟨ho1, ho2⟩ := ho m
      have ho2' := ho2 rfl
      rcases hpp' with h | h | h | h <;> subst h <;>
        simp [parse, takePrefixes, isLP_66, isLP_F3, isLP_F2, isLP_0F, rexBit, ppBytes, legacyEscape, bind, Except.bind, pure, Except.pure, m, hs, hfw, hmk,
          himm, hrel, hmoff, ho1, ho2']
    all_goals
      rcases hpp' with h | h | h | h <;> subst h <;>
        simp [parse, takePrefixes, isLP_66, isLP_F3, isLP_F2, isLP_0F, rexBit, ppBytes, legacyEscape, bind, Except.bind, pure, Except.pure, m, hs, hfw, hmk,
          himm, hrel, hmoff]
  | some b =>
    obtain ⟨hb1, hb2⟩ := hrex b rfl
    rcases hmap' with m | m | m | m
    all_goals
      rcases hpp' with h | h | h | h <;> subst h <;>
        simp [parse, takePrefixes, isLP_66, isLP_F3, isLP_F2, isLP_0F, rexBit, ppBytes, legacyEscape, bind, Except.bind, pure, Except.pure, m, hs, hfw, hmk,
          himm, hrel, hmoff, hb1, hb2]

theorem alignOps_nil (osz : Nat) (ops : List FormOp) (h : ops.all (·.implicit) = true) :
    alignOps osz ops [] = some (ops.map (fun f => (f, Option.none))) := by
  induction ops with
  | nil => rfl
  | cons f fs ih =>
    simp only [List.all_cons, Bool.and_eq_true] at h
    simp [alignOps, h.1, ih h.2]

theorem operandConds_none (c : Spec.X86.Ctx) (r : Rule) (p : Parsed) (n : Nat) (ops : List FormOp) :
    operandConds c r p n (ops.map (fun f => (f, Option.none))) = [] := by
  induction ops with
  | nil => rfl
  | cons f fs ih => simp [operandConds, ih]

theorem implMemOf_none (ops : List FormOp) : implMemOf (ops.map (fun f => (f, Option.none))) = Option.none := by
  unfold implMemOf
  generalize (Option.none : Option MemOp) = acc
  induction ops generalizing acc with
  | nil => rfl
  | cons f fs ih => simp only [List.map_cons, List.foldl_cons]; exact ih acc

theorem usesVvvv_none (ops : List FormOp) : usesVvvv (ops.map (fun f => (f, Option.none))) = false := by
  induction ops with
  | nil => rfl
  | cons f fs ih => simp_all [usesVvvv]

theorem memDestOf_none (ops : List FormOp) : memDestOf (ops.map (fun f => (f, Option.none))) = false := by
  unfold memDestOf
  have : (ops.map (fun f => (f, (Option.none : Option Operand)))).find? (fun fo => fo.2.isSome) = Option.none := by
    induction ops with
    | nil => rfl
    | cons f fs ih => simp [List.find?, ih]
  rw [this]


/-- legacy form without explicit operands (class X86Op): every condition of the monitor holds -/
theorem leg_nullary_formOk (ctx : Spec.X86.Ctx) (rule : Rule) (p : Parsed) (bytes : List (BitVec 8)) (pp : Nat)
    (hmode : ((if ctx.mode64 then rule.modes &&& 2 else rule.modes &&& 1) != 0) = true)
    (hs : rule.space = 0) (hpp8 : rule.pp &&& 8 = 0)
    (h66 : (rule.pp &&& 1 != 0 || rule.osz == 16) = (pp == 1)) (hF3 : (rule.pp &&& 2 != 0) = (pp == 2)) (hF2 : (rule.pp &&& 4 != 0) = (pp == 3))
    (hpplt : pp < 4) (hri : rule.ri = false) (ha67 : rule.a67 = false)
    (himpl : rule.ops.all (·.implicit) = true)
    (hparse : parse ctx.mode64 rule bytes = .ok p)
    (hvk : p.vexKind = 0) (hpfx : p.prefixes = ppBytes pp) (hmodrm : p.modrm = Option.none) (hop : p.opcode.toNat = rule.opcode)
    (hw : wWant rule = 2 ∨ p.W = (wWant rule == 1)) :
    formOk ctx rule [] {} bytes = true := by
  obtain ⟨c66, cF3, cF2, cF0, c9B, c67, cseg, ccont⟩ := count_ppBytes pp hpplt
  have hleg : isLegacySpace rule = true := by simp [isLegacySpace, hs]
  simp only [formOk, conds, alignOps_nil _ _ himpl, hparse, hmode]
  simp only [allOk_cons, allOk_append, decorConds, headConds, prefixConds, modrmConds, operandConds_none, tailConds,
    allOk_nil, memOperandOf, implMemOf_none, usesVvvv_none, memDestOf_none, hasBcst, hleg, hri, hmodrm, hpfx, hvk, c66, cF3, cF2, cF0, c9B, c67,
    cseg, ccont, h66, hF3, hF2, List.foldl]
  simp [hop, hs, hpp8, ha67, allOk]
  exact ⟨hw, by simpa using c66, by simpa using cF3, by simpa using cF2, cF0, c9B, by omega, by simpa using ccont⟩

/-! ### memory forms -/


/-- number of displacement bytes SDM tables 2-2 / 2-3 prescribe (32/64-bit addressing) -/
def dispLen (mb : BitVec 8) (sib : Option (BitVec 8)) : Nat :=
  let mod := bits mb 6 2
  let sel := match sib with | some s => bits s 0 3 | Option.none => bits mb 0 3
  if mod == 0 then (if sel == 5 then 4 else 0) else if mod == 1 then 1 else 4

/-- ModRM / SIB / displacement parser on a well-formed memory-form byte string (32/64-bit addressing) -/
theorem parseModRM_mem (p : Parsed) (mb : BitVec 8) (sib : Option (BitVec 8)) (disp rest : List (BitVec 8))
    (hmod : bits mb 6 2 ≠ 3) (hsib : (bits mb 0 3 == 4) = sib.isSome) (hlen : disp.length = dispLen mb sib) :
    parseModRM false p (mb :: (sib.toList ++ disp ++ rest)) =
      .ok ({ p with modrm := some mb, addr16 := false, sib := (match sib with | some s => some s | Option.none => p.sib),
                    dispSize := disp.length, disp := leNat disp }, rest) := by
  have hmod' : (bits mb 6 2 == 3) = false := by simpa using hmod
  cases sib with
  | none =>
    have hrm : (bits mb 0 3 == 4) = false := by simpa using hsib
    simp only [dispLen] at hlen
    simp only [parseModRM, hmod', hrm, Option.toList_none, List.nil_append, Bool.false_eq_true, ↓reduceIte, List.length_append]
    rw [← hlen]
    simp
  | some s =>
    have hrm : (bits mb 0 3 == 4) = true := by simpa using hsib
    simp only [dispLen] at hlen
    simp only [parseModRM, hmod', hrm, Option.toList_some, List.cons_append, List.nil_append, Bool.false_eq_true, ↓reduceIte, List.length_append]
    rw [← hlen]
    simp



/-- the displacement the decoder computes (SDM: disp8 sign-extended and, under EVEX, scaled by N; disp32 sign-extended) -/
def decodedDisp (r : Rule) (p : Parsed) : Int :=
  if p.dispSize == 0 then 0 else if p.dispSize == 1 then sextNat p.disp 8 * (if p.vexKind == 4 then disp8N r p else 1) else sextNat p.disp 32

/-- `[base + disp]` with a 64-bit (or, `a32`, 32-bit + 67 prefix) base register in 64-bit mode: the memory check of the monitor succeeds when the decoded base
register (ModRM.rm, or SIB.base with "no index" and scale 0) and the decoded displacement are the operand's -/
theorem checkMem_base64 (c : Spec.X86.Ctx) (r : Rule) (p : Parsed) (m : MemOp) (mb : BitVec 8) (a32 : Bool)
    (hm64 : c.mode64 = true) (hno67 : p.prefixes.contains 0x67#8 = a32) (ha16 : p.addr16 = false)
    (hmodrm : p.modrm = some mb) (hmod : bits mb 6 2 ≠ 3)
    (hbk : m.baseKind = (if a32 then .gpd else .gpq)) (hik : m.indexKind = .none)
    (hfields : (p.sib = Option.none ∧ ¬ (bits mb 6 2 = 0 ∧ bits mb 0 3 = 5) ∧ regNum false p.B (bits mb 0 3) = m.baseId) ∨
               (∃ s, p.sib = some s ∧ ¬ (bits mb 6 2 = 0 ∧ bits s 0 3 = 5) ∧ regNum false p.B (bits s 0 3) = m.baseId ∧
                     regNum false p.X (bits s 3 3) = 4 ∧ bits s 6 2 = 0))
    (hd : decodedDisp r p = sextNat (m.disp.toNat % 2 ^ 32) 32) :
    checkMem c r p m = .ok () := by
  have hmod' : (bits mb 6 2 == 3) = false := by simpa using hmod
  have hvs : vsibOf m = .none := by simp [vsibOf, hik]
  unfold decodedDisp at hd
  cases a32
  · have hno67' : ¬ (0x67#8 ∈ p.prefixes) := by simpa using hno67
    simp only [Bool.false_eq_true, ↓reduceIte] at hbk
    rcases hfields with ⟨hs, hn5, hb⟩ | ⟨s, hs, hn5, hb, hx, hsc⟩
    · have hn5' : (bits mb 6 2 == 0 && bits mb 0 3 == 5) = false := by
        simp only [Bool.and_eq_false_iff, beq_eq_false_iff_ne]; by_cases h : bits mb 6 2 = 0 <;> simp_all
      simp [checkMem, hmodrm, hmod', hm64, hno67, hno67', ha16, hvs, hbk, hik, hs, hn5', hb, wantedAddrSize, bind, Except.bind, pure, Except.pure]
      simpa using hd
    · have hn5' : (bits mb 6 2 == 0 && bits s 0 3 == 5) = false := by
        simp only [Bool.and_eq_false_iff, beq_eq_false_iff_ne]; by_cases h : bits mb 6 2 = 0 <;> simp_all
      simp [checkMem, hmodrm, hmod', hm64, hno67, hno67', ha16, hvs, hbk, hik, hs, hn5', hb, hx, hsc, wantedAddrSize, bind, Except.bind, pure, Except.pure]
      simpa using hd
  · have hno67' : 0x67#8 ∈ p.prefixes := by simpa using hno67
    simp only [↓reduceIte] at hbk
    rcases hfields with ⟨hs, hn5, hb⟩ | ⟨s, hs, hn5, hb, hx, hsc⟩
    · have hn5' : (bits mb 6 2 == 0 && bits mb 0 3 == 5) = false := by
        simp only [Bool.and_eq_false_iff, beq_eq_false_iff_ne]; by_cases h : bits mb 6 2 = 0 <;> simp_all
      simp [checkMem, hmodrm, hmod', hm64, hno67, hno67', ha16, hvs, hbk, hik, hs, hn5', hb, wantedAddrSize, bind, Except.bind, pure, Except.pure]
      simpa using hd
    · have hn5' : (bits mb 6 2 == 0 && bits s 0 3 == 5) = false := by
        simp only [Bool.and_eq_false_iff, beq_eq_false_iff_ne]; by_cases h : bits mb 6 2 = 0 <;> simp_all
      simp [checkMem, hmodrm, hmod', hm64, hno67, hno67', ha16, hvs, hbk, hik, hs, hn5', hb, hx, hsc, wantedAddrSize, bind, Except.bind, pure, Except.pure]
      simpa using hd

/-- at most two legacy prefix bytes (segment override and / or 67) -/
def PfxList (fw : Bool) (pfx : List (BitVec 8)) : Prop :=
  pfx = [] ∨ (∃ a, pfx = [a] ∧ isLegacyPrefix a fw = true) ∨ (∃ a b, pfx = [a, b] ∧ isLegacyPrefix a fw = true ∧ isLegacyPrefix b fw = true)

/-- the legacy prefixes in front of a VEX / EVEX prefix are exactly the ones memory operand `m` asks for: its segment override, and 67 iff it
uses 32-bit address registers (64-bit mode) -/
structure PfxCounts (pfx : List (BitVec 8)) (m : MemOp) : Prop where
  c66 : pfx.count 0x66#8 = 0
  cF3 : pfx.count 0xF3#8 = 0
  cF2 : pfx.count 0xF2#8 = 0
  cF0 : pfx.count 0xF0#8 = 0
  c9B : pfx.count 0x9B#8 = 0
  cseg : pfx.filter isSegByte = (match segPrefix m.seg with | some s => [s] | Option.none => [])
  c67 : pfx.count 0x67#8 ≤ 1
  ccont : pfx.contains 0x67#8 = (wantedAddrSize true m != 64)

/-- EVEX memory form (64-bit mode, optional segment / 67 prefixes) -/
theorem parse_evex_mem (r : Rule) (pfx : List (BitVec 8)) (p0 p1 p2 o mb : BitVec 8) (sib : Option (BitVec 8)) (disp imm : List (BitVec 8))
    (hpfx : PfxList (r.pp &&& 8 != 0) pfx)
    (hs : r.space = 2) (hfw : r.pp &&& 8 = 0) (hmk : r.modKind ≠ 0)
    (h3 : bit p0 3 = false) (h2 : bit p1 2 = true)
    (hmod : bits mb 6 2 ≠ 3) (hsib : (bits mb 0 3 == 4) = sib.isSome) (hdl : disp.length = dispLen mb sib)
    (hlen : imm.length = r.immBytes + r.relBytes) (hmoff : r.moff = false) :
    parse true r (pfx ++ 0x62#8 :: p0 :: p1 :: p2 :: o :: mb :: (sib.toList ++ disp ++ imm)) =
      .ok { prefixes := pfx, vexKind := 4, R := !bit p0 7, X := !bit p0 6, B := !bit p0 5, R' := !bit p0 4, map := bits p0 0 3,
            W := bit p1 7, vvvv := 15 - bits p1 3 4, pp := bits p1 0 2, z := bit p2 7, L := bits p2 5 2, b := bit p2 4,
            V' := !bit p2 3, aaa := bits p2 0 3, opcode := o, modrm := some mb, sib := sib, dispSize := disp.length, disp := leNat disp,
            addr16 := false, imm := imm, length := pfx.length + 6 + sib.toList.length + disp.length + imm.length } := by
  have hmk' : (r.modKind != 0) = true := by simpa using hmk
  have hnl := show isLegacyPrefix 0x62#8 (r.pp &&& 8 != 0) = false from by simp [isLegacyPrefix, hfw]
  rcases hpfx with h | ⟨a, h, ha⟩ | ⟨a, b, h, ha, hb⟩ <;> subst h
  · simp only [parse, takePrefixes, hnl, hs, List.nil_append]
    simp [-List.append_assoc, h3, h2, hmk', parseModRM_mem _ mb sib disp imm hmod hsib hdl, hlen, hmoff, bind, Except.bind, pure, Except.pure]
    cases sib <;> simp <;> omega
  · simp only [parse, takePrefixes, hnl, ha, hs, List.cons_append, List.nil_append]
    simp [-List.append_assoc, h3, h2, hmk', parseModRM_mem _ mb sib disp imm hmod hsib hdl, hlen, hmoff, bind, Except.bind, pure, Except.pure]
    cases sib <;> simp <;> omega
  · simp only [parse, takePrefixes, hnl, ha, hb, hs, List.cons_append, List.nil_append]
    simp [-List.append_assoc, h3, h2, hmk', parseModRM_mem _ mb sib disp imm hmod hsib hdl, hlen, hmoff, bind, Except.bind, pure, Except.pure]
    cases sib <;> simp <;> omega

/-- VEX3 memory form -/
theorem parse_vex3_mem (r : Rule) (pfx : List (BitVec 8)) (b1 b2 o mb : BitVec 8) (sib : Option (BitVec 8)) (disp imm : List (BitVec 8))
    (hpfx : PfxList (r.pp &&& 8 != 0) pfx)
    (hs : r.space = 1) (hfw : r.pp &&& 8 = 0) (hmk : r.modKind ≠ 0)
    (hmod : bits mb 6 2 ≠ 3) (hsib : (bits mb 0 3 == 4) = sib.isSome) (hdl : disp.length = dispLen mb sib)
    (hlen : imm.length = r.immBytes + r.relBytes) (hmoff : r.moff = false) :
    parse true r (pfx ++ 0xC4#8 :: b1 :: b2 :: o :: mb :: (sib.toList ++ disp ++ imm)) =
      .ok { prefixes := pfx, vexKind := 3, R := !bit b1 7, X := !bit b1 6, B := !bit b1 5, map := bits b1 0 5, W := bit b2 7,
            vvvv := 15 - bits b2 3 4, L := bits b2 2 1, pp := bits b2 0 2, opcode := o, modrm := some mb, sib := sib, dispSize := disp.length, disp := leNat disp,
            addr16 := false, imm := imm, length := pfx.length + 5 + sib.toList.length + disp.length + imm.length } := by
  have hmk' : (r.modKind != 0) = true := by simpa using hmk
  have hnl := show isLegacyPrefix 0xC4#8 (r.pp &&& 8 != 0) = false from by simp [isLegacyPrefix, hfw]
  rcases hpfx with h | ⟨a, h, ha⟩ | ⟨a, b, h, ha, hb⟩ <;> subst h
  · simp only [parse, takePrefixes, hnl, hs, List.nil_append]
    simp [-List.append_assoc, hmk', parseModRM_mem _ mb sib disp imm hmod hsib hdl, hlen, hmoff, bind, Except.bind, pure, Except.pure]
    cases sib <;> simp <;> omega
  · simp only [parse, takePrefixes, hnl, ha, hs, List.cons_append, List.nil_append]
    simp [-List.append_assoc, hmk', parseModRM_mem _ mb sib disp imm hmod hsib hdl, hlen, hmoff, bind, Except.bind, pure, Except.pure]
    cases sib <;> simp <;> omega
  · simp only [parse, takePrefixes, hnl, ha, hb, hs, List.cons_append, List.nil_append]
    simp [-List.append_assoc, hmk', parseModRM_mem _ mb sib disp imm hmod hsib hdl, hlen, hmoff, bind, Except.bind, pure, Except.pure]
    cases sib <;> simp <;> omega

/-- VEX2 memory form -/
theorem parse_vex2_mem (r : Rule) (pfx : List (BitVec 8)) (b1 o mb : BitVec 8) (sib : Option (BitVec 8)) (disp imm : List (BitVec 8))
    (hpfx : PfxList (r.pp &&& 8 != 0) pfx)
    (hs : r.space = 1) (hfw : r.pp &&& 8 = 0) (hmk : r.modKind ≠ 0)
    (hmod : bits mb 6 2 ≠ 3) (hsib : (bits mb 0 3 == 4) = sib.isSome) (hdl : disp.length = dispLen mb sib)
    (hlen : imm.length = r.immBytes + r.relBytes) (hmoff : r.moff = false) :
    parse true r (pfx ++ 0xC5#8 :: b1 :: o :: mb :: (sib.toList ++ disp ++ imm)) =
      .ok { prefixes := pfx, vexKind := 2, R := !bit b1 7, vvvv := 15 - bits b1 3 4, L := bits b1 2 1, pp := bits b1 0 2, map := 1, opcode := o, modrm := some mb, sib := sib, dispSize := disp.length, disp := leNat disp,
            addr16 := false, imm := imm, length := pfx.length + 4 + sib.toList.length + disp.length + imm.length } := by
  have hmk' : (r.modKind != 0) = true := by simpa using hmk
  have hnl := show isLegacyPrefix 0xC5#8 (r.pp &&& 8 != 0) = false from by simp [isLegacyPrefix, hfw]
  rcases hpfx with h | ⟨a, h, ha⟩ | ⟨a, b, h, ha, hb⟩ <;> subst h
  · simp only [parse, takePrefixes, hnl, hs, List.nil_append]
    simp [-List.append_assoc, hmk', parseModRM_mem _ mb sib disp imm hmod hsib hdl, hlen, hmoff, bind, Except.bind, pure, Except.pure]
    cases sib <;> simp <;> omega
  · simp only [parse, takePrefixes, hnl, ha, hs, List.cons_append, List.nil_append]
    simp [-List.append_assoc, hmk', parseModRM_mem _ mb sib disp imm hmod hsib hdl, hlen, hmoff, bind, Except.bind, pure, Except.pure]
    cases sib <;> simp <;> omega
  · simp only [parse, takePrefixes, hnl, ha, hb, hs, List.cons_append, List.nil_append]
    simp [-List.append_assoc, hmk', parseModRM_mem _ mb sib disp imm hmod hsib hdl, hlen, hmoff, bind, Except.bind, pure, Except.pure]
    cases sib <;> simp <;> omega


/-- the decorations of a call, as the monitor reads them -/
def decorOf (k : Nat) (z er sae : Bool) (rc : Nat) : Decor := { k := k, z := z, er := er, sae := sae, rc := rc }

/-- the form allows the decorations -/
structure DecorAllowed (rule : Rule) (k : Nat) (z er sae : Bool) : Prop where
  hk : k ≠ 0 → rule.kmask = true
  hz : z = true → rule.zmask = true
  her : er = true → rule.er = true
  hsae : sae = true → (rule.sae = true ∨ rule.er = true)

/-- what the parser returned for a VEX-family MEMORY form, in terms of the rule -/
structure VexParsedM (rule : Rule) (p : Parsed) (mb : BitVec 8) (pfx : List (BitVec 8)) (k : Nat) (z bb : Bool) : Prop where
  hvk : p.vexKind = 2 ∨ p.vexKind = 3 ∨ p.vexKind = 4 ∨ p.vexKind = 5
  hpfx : p.prefixes = pfx
  hrex : p.rex = none
  hmodrm : p.modrm = some mb
  hmod : bits mb 6 2 ≠ 3
  hop : p.opcode.toNat = rule.opcode
  hmap : p.map = rule.map
  hpp : p.pp = ppWant rule
  hw : wWant rule = 2 ∨ p.W = (wWant rule == 1)
  hl : rule.l = 3 ∨ p.L = rule.l
  hl1 : p.vexKind ≠ 4 → p.L ≤ 1
  hev : p.vexKind = 4 → (p.aaa = k ∧ p.z = z ∧ p.b = bb ∧ p.map < 8)
  hnk : p.vexKind ≠ 4 → k = 0 ∧ z = false ∧ bb = false

/-- rule side for memory forms: ModRM.mod may (or must) be a memory mode -/
structure VexRuleM (rule : Rule) (nimm : Nat) : Prop where
  hs : rule.space = 1 ∨ rule.space = 2 ∨ rule.space = 3
  hpp8 : rule.pp &&& 8 = 0
  hri : rule.ri = false
  hmk : rule.modKind = 1 ∨ rule.modKind = 3
  hmr : rule.modr = 8
  hmrm : rule.modrm = 8
  himm : rule.immBytes = nimm
  hrel : rule.relBytes = 0
  hmoff : rule.moff = false
  ha67 : rule.a67 = false
  hrev : rule.immRev = false
  hosz : rule.osz = 0

/-- shape [reg, vvvv, MEM] with a 64-bit-addressed, non-VSIB memory operand without segment / broadcast: all conditions of the monitor hold -/
theorem vex_rvm_mem_formOk (ctx : Spec.X86.Ctx) (rule : Rule) (p : Parsed) (mb : BitVec 8) (bytes pfx : List (BitVec 8))
    (k0 k1 : RegKind) (f0 f1 f2 : FormOp) (i0 i1 : Nat) (m : MemOp) (k : Nat) (z bb : Bool)
    (hm64 : ctx.mode64 = true) (hmode : (rule.modes &&& 2 != 0) = true) (hk0 : PlainKind k0) (hk1 : PlainKind k1)
    (R : VexRuleM rule 0) (hf0 : f0.role = .reg) (hf1 : f1.role = .vvvv) (hf2 : f2.role = .rm)
    (K : PfxCounts pfx m) (D : DecorAllowed rule k z false false) (hvs : vsibOf m = .none) (hbc : (m.bcst != 0) = bb) (hbr : bb = true → rule.bcst = true)
    (hal : alignOps rule.oszEff rule.ops [.reg k0 i0, .reg k1 i1, .mem m] =
           some [(f0, some (.reg k0 i0)), (f1, some (.reg k1 i1)), (f2, some (.mem m))])
    (hparse : parse true rule bytes = .ok p) (P : VexParsedM rule p mb pfx k z bb)
    (hreg : regNum p.R' p.R (bits mb 3 3) = i0)
    (hvv : regNum p.V' false p.vvvv = i1)
    (hcm : checkMem ctx rule p m = .ok ()) :
    formOk ctx rule [.reg k0 i0, .reg k1 i1, .mem m] (decorOf k z false false 0) bytes = true := by
  obtain ⟨hvk, hpfx, hrex, hmodrm, hmod, hop, hmap, hpp, hw, hl, hl1, hev, hnk⟩ := P
  obtain ⟨dk, dz, -, -⟩ := D
  obtain ⟨hs, hpp8, hri, hmk, hmr, hmrm, himm, hrel, hmoff, ha67, hrev, hosz⟩ := R
  obtain ⟨c66, cF3, cF2, cF0, c9B, cseg, c67, ccont⟩ := K
  have hleg : isLegacySpace rule = false := by rcases hs with h | h | h <;> simp [isLegacySpace, h]
  have hs4 : (rule.space == 4) = false := by rcases hs with h | h | h <;> simp [h]
  have hvk0 : (p.vexKind == 0) = false := by rcases hvk with h | h | h | h <;> simp [h]
  have hmod' : (bits mb 6 2 == 3) = false := by simpa using hmod
  simp only [formOk, conds, hm64, hal, hparse, ↓reduceIte, hmode]
  simp only [allOk_cons, allOk_append, decorConds, headConds, prefixConds, modrmConds, operandConds, opConds, tailConds, hf0, hf1, hf2,
    regConds_plain _ _ _ _ _ hk0, regConds_plain _ _ _ _ _ hk1, allOk_nil, memOperandOf, implMemOf, usesVvvv, memDestOf, hcm, Spec.X86.ofExcept,
    hasBcst, hleg, hri, hmodrm, hpfx, hrex, List.foldl, List.find?, c66, cF3, cF2, cF0, c9B, cseg, ccont, decorOf]
  simp [hop, hmap, hpp, hreg, hvv, hmod', hmr, hmrm, hs4, hvk0, hpp8, ha67, hbc, hvs, hm64, allOk]
  have hvk0' : ¬ p.vexKind = 0 := by rcases hvk with h | h | h | h <;> omega
  and_intros
  all_goals first
    | exact hw
    | exact hvk0'
    | exact c67
    | (refine Or.inr ?_; simpa using ccont)
    | (refine Or.inl ?_; rcases hs with h | h | h <;> omega)
    | (rcases hmk with h | h <;> omega)
    | (rcases hl with h | h
       · exact Or.inl (Or.inl h)
       · exact Or.inr h)
    | (by_cases h4 : p.vexKind = 4
       · left; omega
       · right; exact hl1 h4)
    | (by_cases h4 : p.vexKind = 4
       · obtain ⟨a, zz, b, mm⟩ := hev h4
         rw [hmap] at mm
         simp [h4, allOk, a, zz, b, mm]
       · obtain ⟨k0', z0', b0'⟩ := hnk h4
         simp [h4, allOk, k0', z0', b0'])
    | (cases bb
       · exact Or.inl rfl
       · exact Or.inr (hbr rfl))
    | (by_cases h : k = 0
       · exact Or.inl h
       · exact Or.inr (dk h))
    | (cases z
       · exact Or.inl rfl
       · exact Or.inr (dz rfl))
    | exact Or.inl (Or.inr (Or.inr (Or.inl ‹_›)))
    | exact Or.inl (Or.inr (Or.inr hf1))
    | rfl

end AsmjitVerif.Lemmas.X86Parse
