/- C08: section projection of call sequences - pure list lemmas. -/
import AsmjitVerif.Spec.BuilderCalls

namespace AsmjitVerif.Builder
open Spec

def Call.isSection : Call → Bool
  | .section _ => true
  | _ => false

theorem project_cons_nonsec (s cur : Nat) (c : Call) (cs : List Call) (h : c.isSection = false) :
    project s cur (c :: cs) = (if cur = s then [c] else []) ++ project s cur cs := by
  cases c <;> simp [Call.isSection] at h <;> (simp only [project]; split <;> simp)

theorem curAfter_cons_nonsec (cur : Nat) (c : Call) (cs : List Call) (h : c.isSection = false) :
    curAfter cur (c :: cs) = curAfter cur cs := by
  cases c <;> simp [Call.isSection] at h <;> simp [curAfter]

theorem project_append (s : Nat) : ∀ (xs ys : List Call) (cur : Nat),
    project s cur (xs ++ ys) = project s cur xs ++ project s (curAfter cur xs) ys := by
  intro xs
  induction xs with
  | nil => intro ys cur; simp [project, curAfter]
  | cons c cs ih =>
    intro ys cur
    cases hc : c.isSection with
    | false =>
      rw [List.cons_append, project_cons_nonsec _ _ _ _ hc, project_cons_nonsec _ _ _ _ hc, curAfter_cons_nonsec _ _ _ hc, ih]
      simp
    | true =>
      cases c <;> simp [Call.isSection] at hc
      simp [project, curAfter, ih]

theorem curAfter_append (xs ys : List Call) (cur : Nat) : curAfter cur (xs ++ ys) = curAfter (curAfter cur xs) ys := by
  induction xs generalizing cur with
  | nil => simp [curAfter]
  | cons c cs ih =>
    cases hc : c.isSection with
    | false => rw [List.cons_append, curAfter_cons_nonsec _ _ _ hc, curAfter_cons_nonsec _ _ _ hc, ih]
    | true =>
      cases c <;> simp [Call.isSection] at hc
      simp [curAfter, ih]

/-- a block without section calls belongs to the current section -/
theorem project_block (s cur : Nat) (blk tl : List Call) (h : ∀ c ∈ blk, c.isSection = false) :
    project s cur (blk ++ tl) = (if cur = s then blk else []) ++ project s cur tl := by
  induction blk with
  | nil => simp
  | cons c cs ih =>
    have hc := h c (by simp)
    rw [List.cons_append, project_cons_nonsec _ _ _ _ hc, ih (fun x hx => h x (by simp [hx]))]
    split <;> simp

theorem curAfter_block (cur : Nat) (blk : List Call) (h : ∀ c ∈ blk, c.isSection = false) : curAfter cur blk = cur := by
  induction blk with
  | nil => rfl
  | cons c cs ih =>
    rw [curAfter_cons_nonsec _ _ _ (h c (by simp)), ih (fun x hx => h x (by simp [hx]))]

/-- a region of a Builder's node list: the section node and the nodes linked behind it -/
structure Region where
  sec : Nat
  node : Nat
  body : List Nat
  deriving Repr

/-- calls of a list of (section id, body calls) groups as `serialize_to` issues them -/
def groupCalls : List (Nat × List Call) → List Call
  | [] => []
  | (s, b) :: rest => .section s :: b ++ groupCalls rest

/-- projection of grouped calls: the bodies of the groups of that section, in order -/
theorem project_groups (s : Nat) : ∀ (gs : List (Nat × List Call)) (cur : Nat),
    (∀ g ∈ gs, ∀ c ∈ g.2, c.isSection = false) →
    project s cur (groupCalls gs) = (gs.filter (fun g => g.1 == s)).flatMap (fun g => g.2) := by
  intro gs
  induction gs with
  | nil => intro cur _; simp [groupCalls, project]
  | cons g rest ih =>
    intro cur h
    obtain ⟨t, b⟩ := g
    have hb : ∀ c ∈ b, c.isSection = false := h (t, b) (by simp)
    simp only [groupCalls, List.cons_append, project]
    rw [project_block _ _ _ _ hb, ih t (fun g hg => h g (by simp [hg]))]
    by_cases hts : t = s
    · subst hts; simp [List.filter_cons]
    · have : (t == s) = false := by simpa using hts
      simp [List.filter_cons, hts, this]

/-- with distinct section ids at most one group is selected -/
theorem filter_unique {α : Type} (key : α → Nat) (s : Nat) : ∀ (l : List α), (l.map key).Nodup →
    l.filter (fun g => key g == s) = [] ∨ ∃ g, g ∈ l ∧ key g = s ∧ l.filter (fun g => key g == s) = [g] := by
  intro l
  induction l with
  | nil => intro _; exact Or.inl rfl
  | cons x xs ih =>
    intro hd
    simp only [List.map_cons, List.nodup_cons] at hd
    by_cases hx : key x = s
    · right
      refine ⟨x, by simp, hx, ?_⟩
      have hnone : xs.filter (fun g => key g == s) = [] := by
        rw [List.filter_eq_nil_iff]
        intro y hy hys
        apply hd.1
        have : key y = s := by simpa using hys
        rw [hx, ← this]; exact List.mem_map_of_mem hy
      simp [List.filter_cons, hx, hnone]
    · have hx' : (key x == s) = false := by simpa using hx
      rcases ih hd.2 with h | ⟨g, hg, hk, hf⟩
      · left; simp [List.filter_cons, hx', h]
      · right; exact ⟨g, by simp [hg], hk, by simp [List.filter_cons, hx', hf]⟩

end AsmjitVerif.Builder
