/- `JitRuntime::_add` walks the sections in id order, `copy_flattened_data` in by-order sequence: same image. -/
import AsmjitVerif.Lemmas.SectionsBuild
namespace AsmjitVerif.Sections

theorem pairwise_mem_cases {α : Type} {R : α → α → Prop} {l : List α} (hp : l.Pairwise R) {s t : α} (hs : s ∈ l) (ht : t ∈ l) :
    s = t ∨ R s t ∨ R t s := by
  induction l with
  | nil => simp at hs
  | cons a rest ih =>
    rw [List.pairwise_cons] at hp
    rcases List.mem_cons.mp hs with hs1 | hs1
    · rcases List.mem_cons.mp ht with ht1 | ht1
      · exact Or.inl (hs1.trans ht1.symm)
      · exact Or.inr (Or.inl (hs1 ▸ hp.1 t ht1))
    · rcases List.mem_cons.mp ht with ht1 | ht1
      · exact Or.inr (Or.inr (ht1 ▸ hp.1 s hs1))
      · exact ih hp.2 hs1 ht1

theorem findSec_some {secs : List Section} {i : Nat} {s : Section} (h : findSec secs i = some s) : s ∈ secs ∧ s.id = i := by
  unfold findSec at h
  exact ⟨List.mem_of_find?_eq_some h, by simpa using List.find?_some h⟩

/-- with distinct ids below the count, the by-id vector holds exactly the sections of the table -/
theorem mem_byId {secs : List Section} (hi : InvS secs) (s : Section) : s ∈ byId secs ↔ s ∈ secs := by
  unfold byId
  rw [List.mem_filterMap]
  constructor
  · rintro ⟨i, _, hf⟩
    exact (findSec_some hf).1
  · intro hs
    refine ⟨s.id, List.mem_range.mpr (hi.ids s hs), ?_⟩
    cases hf : findSec secs s.id with
    | none =>
      unfold findSec at hf
      rw [List.find?_eq_none] at hf
      exact absurd (by simp) (hf s hs)
    | some t =>
      obtain ⟨ht, hid⟩ := findSec_some hf
      rcases pairwise_mem_cases hi.nodup ht hs with h | h | h
      · rw [h]
      · exact absurd hid h
      · exact absurd hid.symm h

theorem disj_byId {n : Nat} {flags : CopyFlags} {secs : List Section} (hd : Disj n flags secs) : Disj n flags (byId secs) := by
  unfold Disj byId at *
  rw [List.pairwise_filterMap]
  refine List.Pairwise.imp ?_ (List.pairwise_lt_range (n := secs.length))
  intro i j hij a ha b hb k hak
  obtain ⟨ham, hai⟩ := findSec_some ha
  obtain ⟨hbm, hbj⟩ := findSec_some hb
  rcases pairwise_mem_cases hd ham hbm with h | h | h
  · rw [h] at hai; omega
  · exact h k hak
  · cases hbk : secByte n flags b k with
    | none => rfl
    | some v => exact absurd (h k (by rw [hbk]; simp)) hak

theorem findSome_eq_of_mem_iff {f : Section → Option Byte} {l l' : List Section} (hmem : ∀ s, s ∈ l' ↔ s ∈ l)
    (hcons : ∀ s ∈ l, ∀ t ∈ l, ∀ x y, f s = some x → f t = some y → x = y) : l'.findSome? f = l.findSome? f := by
  cases h : l.findSome? f with
  | none =>
    rw [List.findSome?_eq_none_iff] at h ⊢
    intro s hs; exact h s ((hmem s).mp hs)
  | some b =>
    obtain ⟨s, hs, hfs⟩ := List.exists_of_findSome?_eq_some h
    cases h' : l'.findSome? f with
    | none =>
      rw [List.findSome?_eq_none_iff] at h'
      have := h' s ((hmem s).mpr hs)
      rw [hfs] at this; cases this
    | some b' =>
      obtain ⟨t, ht, hft⟩ := List.exists_of_findSome?_eq_some h'
      rw [hcons t ((hmem t).mp ht) s hs b' b hft hfs]

theorem copyFlattenedSecs_padSection_only (l : List Section) (dst d : List Byte) (e e' : Nat)
    (h : copyLoop { padSection := true, padTarget := false } l dst e = some (.ok (d, e'))) (he : e = 0) :
    copyFlattenedSecs l dst { padSection := true, padTarget := false } = .ok d := by
  subst he
  unfold copyFlattenedSecs
  rw [h]
  simp

/-- the image `_add` installs (sections walked in id order) is the image `copy_flattened_data(kPadSectionBuffer)`
    produces (sections walked by order) -/
theorem jitCopy_byId_eq (secs : List Section) (hi : InvS secs) (dst : List Byte)
    (hfit : ∀ s ∈ secs, s.offset + s.realSize ≤ dst.length) (hno : NoOverlap secs) :
    ∃ d, jitCopy (byId secs) dst = some d ∧ copyFlattenedSecs secs dst { padSection := true, padTarget := false } = .ok d := by
  have hfit' : ∀ s ∈ byId secs, s.offset + s.realSize ≤ dst.length := fun s hs => hfit s ((mem_byId hi s).mp hs)
  obtain ⟨d', e1, h1, h2⟩ := jitCopy_eq_copyLoop (byId secs) dst 0 hfit'
  obtain ⟨d, e2, h3, _⟩ := jitCopy_eq_copyLoop secs dst 0 hfit
  have hfitsB : ∀ l : List Section, (∀ s ∈ l, s.offset + s.realSize ≤ dst.length) → fitsB dst.length l = true := by
    intro l hl
    unfold fitsB
    rw [List.all_eq_true]
    intro s hs
    have := hl s hs
    have : s.bufSize ≤ s.realSize := by unfold Section.realSize; omega
    simp; omega
  have hdisj := disj_of_noOverlap dst.length { padSection := true, padTarget := false } secs hno
  obtain ⟨da, ha, hla, hga⟩ := copyLoop_ok { padSection := true, padTarget := false } (byId secs) dst 0 (hfitsB _ hfit')
  obtain ⟨db, hb, hlb, hgb⟩ := copyLoop_ok { padSection := true, padTarget := false } secs dst 0 (hfitsB _ hfit)
  rw [h1] at ha
  rw [h3] at hb
  have hda : da = d' := by simp at ha; exact ha.1.symm
  have hdb : db = d := by simp at hb; exact hb.1.symm
  subst hda; subst hdb
  have hga := hga (disj_byId hdisj)
  have hgb := hgb hdisj
  have heq : da = db := by
    apply List.ext_getElem?
    intro k
    rw [hga k, hgb k]
    have : (byId secs).findSome? (fun s => secByte dst.length { padSection := true, padTarget := false } s k)
         = secs.findSome? (fun s => secByte dst.length { padSection := true, padTarget := false } s k) := by
      apply findSome_eq_of_mem_iff (mem_byId hi)
      intro s hs t ht x y hx hy
      rcases pairwise_mem_cases hdisj hs ht with h | h | h
      · rw [h] at hx; rw [hx] at hy; cases hy; rfl
      · have := h k (by rw [hx]; simp); rw [hy] at this; cases this
      · have := h k (by rw [hy]; simp); rw [hx] at this; cases this
    rw [this]
  refine ⟨da, h2, ?_⟩
  rw [heq]
  exact copyFlattenedSecs_padSection_only secs dst db 0 e2 h3 rfl

end AsmjitVerif.Sections
