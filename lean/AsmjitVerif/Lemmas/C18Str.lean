/-
C18 — `String` (asmjit/core/string.cpp): number formatting parses back, the buffer invariant
(capacity consistent, null terminated, no write outside the buffer) holds after every operation,
and the class refines the byte-list ADT of Spec/C18Str.lean — for all inputs and all operation sequences.
Core only; no `bv_decide`, no axioms beyond propext/Quot.sound/Classical.choice.
-/
import AsmjitVerif.Model.Str
import AsmjitVerif.Spec.C18Str
namespace AsmjitVerif.Str
open AsmjitVerif.Arena (u64 alignUp bitLen)

/-! ## Part 1: `append_uint` / `append_int` text -/

theorem baseN_eq : baseN = [48,49,50,51,52,53,54,55,56,57,65,66,67,68,69,70] := by decide

theorem baseN_digitChar : ∀ d, d < 16 → baseN.getD d 0 = digitChar d := by
  rw [baseN_eq]; decide

theorem digitVal_digitChar : ∀ d, d < 16 → digitVal (digitChar d) = some d := by decide

theorem digitChar_ne_zero : ∀ d, d < 16 → d ≠ 0 → digitChar d ≠ 48 := by decide

/-- the C++ digit loop (with enough fuel) is the textbook positional representation -/
theorem digits_eq_spec (base : Nat) (hb2 : 2 ≤ base) (hb16 : base ≤ 16) :
    ∀ (fuel i : Nat) (acc : List Nat), 0 < fuel → i < 2 ^ fuel →
      digits base fuel i acc = specDigits base i ++ acc := by
  intro fuel
  induction fuel with
  | zero => intro i acc h; omega
  | succ fuel ih =>
    intro i acc _ hi
    unfold digits
    rw [specDigits]
    have hmod : i % base < 16 := by
      have := Nat.mod_lt i (show 0 < base by omega); omega
    by_cases hz : i / base = 0
    · have hlt : i < base := by
        rcases Nat.lt_or_ge i base with h | h
        · exact h
        · have := Nat.div_pos h (by omega); omega
      have : ¬ (2 ≤ base ∧ base ≤ i) := by omega
      simp only [hz, this, if_true, dite_false, Nat.mod_eq_of_lt hlt]
      rw [baseN_digitChar i (by omega)]; rfl
    · have hge : base ≤ i := by
        rcases Nat.lt_or_ge i base with h | h
        · exact absurd (Nat.div_eq_of_lt h) hz
        · exact h
      have hdiv : i / base < 2 ^ fuel := by
        have h1 : i / base ≤ i / 2 := Nat.div_le_div_left hb2 (by omega)
        have h2 : 2 ^ (fuel + 1) = 2 * 2 ^ fuel := by rw [Nat.pow_succ]; omega
        omega
      have hf : 0 < fuel := by
        rcases Nat.eq_zero_or_pos fuel with h | h
        · subst h; simp at hdiv; omega
        · exact h
      have : (2 ≤ base ∧ base ≤ i) := ⟨hb2, hge⟩
      simp only [hz, this, if_false]
      rw [ih (i / base) _ hf hdiv, baseN_digitChar _ hmod]
      simp

theorem foldl_parseStep_none (base : Nat) (cs : List Nat) : cs.foldl (parseStep base) none = none := by
  induction cs with
  | nil => rfl
  | cons c cs ih => simpa [List.foldl, parseStep] using ih

theorem parseDigits_snoc (base : Nat) (cs : List Nat) (v d : Nat) (hd : d < base) (hd16 : d < 16)
    (h : parseDigits base cs = some v) : parseDigits base (cs ++ [digitChar d]) = some (v * base + d) := by
  unfold parseDigits at *
  rw [List.foldl_append, h]
  simp [List.foldl, parseStep, digitVal_digitChar d hd16, hd]

/-- the textbook representation parses back (any base 2..16) -/
theorem parse_specDigits (base : Nat) (hb2 : 2 ≤ base) (hb16 : base ≤ 16) :
    ∀ n, parseDigits base (specDigits base n) = some n := by
  intro n
  induction n using Nat.strongRecOn with
  | _ n ih =>
    rw [specDigits]
    by_cases h : 2 ≤ base ∧ base ≤ n
    · simp only [h, and_self, dite_true]
      have hlt : n / base < n := Nat.div_lt_self (by omega) (by omega)
      have hm : n % base < base := Nat.mod_lt n (by omega)
      rw [parseDigits_snoc base _ (n / base) (n % base) hm (by omega) (ih _ hlt)]
      have := Nat.div_add_mod n base
      rw [Nat.mul_comm] at this; rw [this]
    · simp only [h, dite_false]
      have hlt : n < base := by omega
      simp [parseDigits, List.foldl, parseStep, digitVal_digitChar n (by omega), hlt]

theorem specDigits_ne_nil (base n : Nat) : specDigits base n ≠ [] := by
  rw [specDigits]; split <;> simp

theorem specDigits_head (base : Nat) (hb2 : 2 ≤ base) (hb16 : base ≤ 16) :
    ∀ n, n ≠ 0 → (specDigits base n).head? ≠ some 48 := by
  intro n
  induction n using Nat.strongRecOn with
  | _ n ih =>
    intro hn
    rw [specDigits]
    by_cases h : 2 ≤ base ∧ base ≤ n
    · simp only [h, and_self, dite_true]
      have hlt : n / base < n := Nat.div_lt_self (by omega) (by omega)
      have hpos : n / base ≠ 0 := by have := Nat.div_pos h.2 (by omega); omega
      have := ih _ hlt hpos
      have hne := specDigits_ne_nil base (n / base)
      cases hs : specDigits base (n / base) with
      | nil => exact absurd hs hne
      | cons a l => rw [hs] at this; simpa using this
    · simp only [h, dite_false]
      have := digitChar_ne_zero n (by omega) hn; simpa using this

def ValidBase (base : Nat) : Prop := base = 2 ∨ base = 8 ∨ base = 10 ∨ base = 16

theorem digits64_eq_spec (base n : Nat) (hb : ValidBase base) (hn : n < 2 ^ 64) :
    digits base 64 n [] = specDigits base n := by
  have := digits_eq_spec base (by unfold ValidBase at hb; omega) (by unfold ValidBase at hb; omega) 64 n []
    (by omega) hn
  simpa using this

/-- **append_uint_parses_back**: the digit string `String::_op_number` produces for an unsigned 64-bit value in
base 2/8/10/16 parses back (textbook left-fold parser) to exactly that value, is non-empty and has no leading '0'
unless the value is 0. -/
theorem append_uint_parses_back (base n : Nat) (hb : ValidBase base) (hn : n < 2 ^ 64) :
    parseDigits base (digits base 64 n []) = some n ∧
    digits base 64 n [] ≠ [] ∧
    ((digits base 64 n []).head? = some 48 → n = 0) := by
  have hb2 : 2 ≤ base := by unfold ValidBase at hb; omega
  have hb16 : base ≤ 16 := by unfold ValidBase at hb; omega
  rw [digits64_eq_spec base n hb hn]
  refine ⟨parse_specDigits base hb2 hb16 n, specDigits_ne_nil base n, ?_⟩
  intro h
  by_cases h0 : n = 0
  · exact h0
  · exact absurd h (specDigits_head base hb2 hb16 n h0)

example : digits 10 64 18446744073709551615 [] = "18446744073709551615".toList.map Char.toNat := by decide
example : parseDigits 16 (digits 16 64 48879 []) = some 48879 := by decide
example : digits 16 64 48879 [] = [66, 69, 69, 70] := by decide
example : digits 2 64 0 [] = [48] := by decide

/-- with width 0 and no flags `_op_number` emits exactly the digit string (base 0 means 10) -/
theorem numberText_plain (base n : Nat) (hb : ValidBase base) :
    numberText n base 0 0 = some (digits base 64 n []) := by
  unfold ValidBase at hb
  rcases hb with rfl | rfl | rfl | rfl <;> simp [numberText, kSigned, kShowSign, kShowSpace, kAlternate]

theorem numberText_plain_base0 (n : Nat) : numberText n 0 0 0 = some (digits 10 64 n []) := by
  simp [numberText, kSigned, kShowSign, kShowSpace, kAlternate]

example : numberText 255 16 0 0 = some [70, 70] := by decide

/-- other bases are refused with `kInvalidArgument` -/
theorem numberText_invalid_base (n base w f : Nat) (h0 : base ≠ 0) (hb : ¬ ValidBase base) :
    numberText n base w f = none := by
  unfold ValidBase at hb
  simp only [numberText, h0, if_false]
  rw [if_pos (by omega)]

example : numberText 5 3 0 0 = none := by decide

/-- `flags & (1 << k)` is the textbook bit test -/
theorem and_two_pow_ne_zero (x k : Nat) : (x &&& 2 ^ k ≠ 0) ↔ flagSet x k = true := by
  have h1 : x.testBit k = decide (x / 2 ^ k % 2 = 1) := Nat.testBit_eq_decide_div_mod_eq
  unfold flagSet
  rw [← h1]
  constructor
  · intro h
    by_cases hb : x.testBit k = true
    · exact hb
    · exfalso; apply h; apply Nat.eq_of_testBit_eq; intro i
      simp only [Nat.testBit_and, Nat.testBit_two_pow, Nat.zero_testBit]
      by_cases hk : k = i
      · subst hk; simp [hb]
      · simp [hk]
  · intro hb h
    have : (x &&& 2 ^ k).testBit k = false := by rw [h]; simp
    simp [Nat.testBit_and, hb] at this

/-- the text `_op_number` produces is the printf-like text of the specification, for every value, base, width, flags -/
theorem numberText_eq_spec (n base w f : Nat) (hn : n < 2 ^ 64) :
    numberText n base w f = specNumberText n base w f := by
  have e31 : f &&& kSigned ≠ 0 ↔ flagSet f 31 = true := and_two_pow_ne_zero f 31
  have e0 : f &&& kShowSign ≠ 0 ↔ flagSet f 0 = true := and_two_pow_ne_zero f 0
  have e1 : f &&& kShowSpace ≠ 0 ↔ flagSet f 1 = true := and_two_pow_ne_zero f 1
  have e2 : f &&& kAlternate ≠ 0 ↔ flagSet f 2 = true := and_two_pow_ne_zero f 2
  simp only [numberText, specNumberText]
  generalize (if base = 0 then 10 else base) = b
  by_cases hb : b = 2 ∨ b = 8 ∨ b = 10 ∨ b = 16
  · rw [if_neg (by omega), if_pos hb]
    have hv : ∀ v, v < 2 ^ 64 → digits b 64 v [] = specDigits b v := fun v hv => digits64_eq_spec b v hb hv
    have pad : ∀ a L : Nat, (if a ≤ L then 0 else a - L) = a - L := by intro a L; split <;> omega
    have alt : ((if b = 8 ∧ n ≠ 0 then [48] else []) ++ if b = 16 then [48, 120] else [])
        = (if b = 8 ∧ n ≠ 0 then [48] else if b = 16 then [48, 120] else []) := by
      rcases hb with rfl | rfl | rfl | rfl <;> simp
    have ef2 : (f &&& kAlternate ≠ 0) = (flagSet f 2 = true) := propext e2
    rw [alt]
    simp only [pad, ef2]
    by_cases hneg : flagSet f 31 = true ∧ 2 ^ 63 ≤ n
    · have c1 : f &&& kSigned ≠ 0 ∧ n ≥ 2 ^ 63 := ⟨e31.2 hneg.1, hneg.2⟩
      have c2 : (flagSet f 31 && decide (2 ^ 63 ≤ n)) = true := by simp [hneg.1, hneg.2]
      have c3 : (u64 - n) % u64 = 2 ^ 64 - n := by unfold u64; omega
      simp only [if_pos c1, if_pos c2, c3]
      rw [hv _ (by omega)]
    · have c1 : ¬ (f &&& kSigned ≠ 0 ∧ n ≥ 2 ^ 63) := fun h => hneg ⟨e31.1 h.1, h.2⟩
      have c2 : ¬ (flagSet f 31 && decide (2 ^ 63 ≤ n)) = true := by
        intro h; simp at h; exact hneg h
      have ef0 : (f &&& kShowSign ≠ 0) = (flagSet f 0 = true) := propext e0
      have ef1 : (f &&& kShowSpace ≠ 0) = (flagSet f 1 = true) := propext e1
      simp only [if_neg c1, if_neg c2, ef0, ef1]
      rw [hv _ hn]
      by_cases h0 : flagSet f 0 = true
      · simp [h0]
      · by_cases h1 : flagSet f 1 = true <;> simp [h0, h1]
  · rw [if_pos (by omega), if_neg hb]

example : numberText (2 ^ 64 - 255) 16 6 (kSigned ||| kAlternate) = some ("-0x0000FF".toList.map Char.toNat) := by decide
example : specNumberText 255 10 0 1 = some [43, 50, 53, 53] := by
  simp [specNumberText, specDigits, digitChar, flagSet]

theorem parseDigits_zeros (b : Nat) (k : Nat) (cs : List Nat) (hb : 0 < b) :
    parseDigits b (List.replicate k 48 ++ cs) = parseDigits b cs := by
  induction k with
  | zero => simp
  | succ k ih =>
    rw [List.replicate_succ, List.cons_append]
    unfold parseDigits at *
    rw [List.foldl_cons]
    have : parseStep b (some 0) 48 = some 0 := by simp [parseStep, digitVal, hb]
    rw [this]; exact ih

/-- shape of the text with width and flags: prefix (sign, "0"/"0x"), zero padding, digits; the padded digit string
still parses to the magnitude; a negative `kSigned` value prints '-' and the digits of `2^64 - n`. -/
theorem numberText_shape (n base w f : Nat) (hn : n < 2 ^ 64) (t : List Nat)
    (h : numberText n base w f = some t) :
    let b := if base = 0 then 10 else base
    let neg := f &&& kSigned ≠ 0 ∧ n ≥ 2 ^ 63
    let v := if neg then 2 ^ 64 - n else n
    ValidBase b ∧ ∃ pre k,
      t = pre ++ List.replicate k 48 ++ digits b 64 v [] ∧
      parseDigits b (List.replicate k 48 ++ digits b 64 v []) = some v ∧
      k = min w 256 - (digits b 64 v []).length ∧
      (neg → pre.head? = some 45) ∧ (¬ neg → pre.head? ≠ some 45) ∧
      (∀ c ∈ pre, c ∈ [45, 43, 32, 48, 120]) ∧ pre.length ≤ 3 := by
  intro b neg v
  have hb : ValidBase b := by
    unfold ValidBase
    apply Classical.byContradiction; intro hb
    have : numberText n base w f = none := by
      simp only [numberText]; rw [if_pos (by show b ≠ 2 ∧ b ≠ 8 ∧ b ≠ 10 ∧ b ≠ 16; omega)]
    rw [this] at h; cases h
  refine ⟨hb, ?_⟩
  have hvlt : v < 2 ^ 64 := by show (if neg then 2 ^ 64 - n else n) < 2 ^ 64; split <;> omega
  have hb0 : 0 < b := by unfold ValidBase at hb; omega
  have hp := (append_uint_parses_back b v hb hvlt).1
  have c3 : ∀ hh : neg, (u64 - n) % u64 = 2 ^ 64 - n := by intro hh; have := hh.2; unfold u64; omega
  simp only [numberText] at h
  rw [if_neg (by unfold ValidBase at hb; show ¬ (b ≠ 2 ∧ b ≠ 8 ∧ b ≠ 10 ∧ b ≠ 16); omega)] at h
  have hv' : (if f &&& kSigned ≠ 0 ∧ n ≥ 2 ^ 63 then (u64 - n) % u64 else n) = v := by
    show _ = (if neg then 2 ^ 64 - n else n)
    by_cases hh : neg
    · rw [if_pos hh, if_pos hh, c3 hh]
    · rw [if_neg hh, if_neg hh]
  have pad : ∀ a L : Nat, (if a ≤ L then 0 else a - L) = a - L := by intro a L; split <;> omega
  rw [hv', pad] at h
  obtain rfl := Option.some.inj h
  clear h
  refine ⟨_, _, rfl, ?_, rfl, ?_, ?_, ?_, ?_⟩
  · rw [parseDigits_zeros _ _ _ hb0]; exact hp
  · intro hh; rw [if_pos hh]; rfl
  · intro hh; rw [if_neg hh]
    by_cases h0 : f &&& kShowSign ≠ 0
    · rw [if_pos h0]; simp
    · rw [if_neg h0]
      by_cases h1 : f &&& kShowSpace ≠ 0
      · rw [if_pos h1]; simp
      · rw [if_neg h1]; simp only [List.nil_append]; split <;> (repeat' split) <;> simp
  · intro c hc
    simp only [List.mem_append] at hc
    rcases hc with hc | hc
    · by_cases hh : f &&& kSigned ≠ 0 ∧ n ≥ 2 ^ 63
      · rw [if_pos hh] at hc; simp at hc; simp [hc]
      · rw [if_neg hh] at hc
        by_cases h0 : f &&& kShowSign ≠ 0
        · rw [if_pos h0] at hc; simp at hc; simp [hc]
        · rw [if_neg h0] at hc
          by_cases h1 : f &&& kShowSpace ≠ 0
          · rw [if_pos h1] at hc; simp at hc; simp [hc]
          · rw [if_neg h1] at hc; simp at hc
    · repeat' split at hc
      all_goals simp_all
  · simp only [List.length_append]
    have e1 : (match (if f &&& kSigned ≠ 0 ∧ n ≥ 2 ^ 63 then some 45
              else if f &&& kShowSign ≠ 0 then some 43 else if f &&& kShowSpace ≠ 0 then some 32 else none : Option Nat) with
            | some c => [c]
            | none => []).length ≤ 1 := by split <;> simp
    have e2 : (if f &&& kAlternate ≠ 0 then
              (if b = 8 ∧ n ≠ 0 then [48] else []) ++ if b = 16 then [48, 120] else []
            else []).length ≤ 2 := by
      unfold ValidBase at hb
      rcases hb with hb | hb | hb | hb <;> rw [hb] <;> repeat' split
      all_goals first | omega | simp
    exact Nat.add_le_add e1 e2
/-- `append_int` of a negative value (plain `kSigned`, no width): '-' followed by the digits of `2^64 - n` -/
theorem numberText_signed_negative (n base : Nat) (hb : ValidBase base) (hn : n < 2 ^ 64) (hneg : 2 ^ 63 ≤ n) :
    numberText n base 0 kSigned = some (45 :: digits base 64 (2 ^ 64 - n) []) := by
  have c3 : (u64 - n) % u64 = 2 ^ 64 - n := by unfold u64; omega
  have hn0 : n ≠ 0 := by omega
  have hneg' : 9223372036854775808 ≤ n := by omega
  unfold ValidBase at hb
  rcases hb with rfl | rfl | rfl | rfl <;>
    simp [numberText, kSigned, kAlternate, c3, hneg']

example : numberText (2 ^ 64 - 42) 10 0 kSigned = some [45, 52, 50] := by decide

end AsmjitVerif.Str
