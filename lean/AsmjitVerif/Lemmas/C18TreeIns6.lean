/-
C18 — ArenaTree insert, part 6: the quiet iteration (no flip, no rotation) and the induction-hypothesis interface
of the loop.  Core-only.
-/
import AsmjitVerif.Lemmas.C18TreeIns5
namespace AsmjitVerif.Tree.Ins
open AsmjitVerif.Tree AsmjitVerif.Tree.Spec

/-- result of the loop: the heap represents a coloured tree with the key inserted -/
def Post (C : Cfg) (h' : Tree) : Prop :=
  ∃ W', CoreH C (setInsert C.k C.K0) (C.node :: C.I0) h' W' ∧ Col W'

def LoopIH (C : Cfg) (fuel : Nat) : Prop :=
  ∀ (mode : Mode) (ctx : List Frame) (Q : T) (h : Tree) (g p tt q : Nat) (dir last : Bool),
    CoreH C C.K0 C.I0 h (plug ctx Q) → Fresh C h → Bnd C.k ctx → Col (plug ctx Q) → Rep h q Q →
    ModeOK C.k mode ctx Q g p tt dir last → FuelOK mode fuel Q →
    Post C (insertLoop fuel h C.node g p tt q dir last)

theorem rep_childD {h : Tree} {q : Nat} {Q : T} (hq : Rep h q Q) (hQ : Q ≠ .nil) (d : Bool) :
    Rep h (child h q d) (childD Q d) := by
  rw [eq_nodeD hQ d, Rep_nodeD] at hq
  exact hq.2.2.2.2.2.1

theorem isRed_child {h : Tree} {q : Nat} {Q : T} (hq : Rep h q Q) (hQ : Q ≠ .nil) (d : Bool) :
    isRed h (child h q d) = (childD Q d).isRed := isRed_rep (rep_childD hq hQ d)

theorem key_rkey {h : Tree} {q : Nat} {Q : T} (hq : Rep h q Q) (hQ : Q ≠ .nil) : key h q = rkey Q := by
  cases hq with
  | nil => exact absurd rfl hQ
  | node _ _ hk => exact hk

theorem rep_ne0 {h : Tree} {q : Nat} {Q : T} (hq : Rep h q Q) (hQ : Q ≠ .nil) : q ≠ 0 := by
  intro e; exact hQ ((Rep_nil_iff hq).1 e)

/-- an iteration without flip and without red violation only moves the iterator variables -/
theorem loop_quiet {fuel : Nat} {h : Tree} {node k g p tt q : Nat} {dir last : Bool} {Q : T}
    (hQ : Q ≠ .nil) (hq : Rep h q Q) (hnk : key h node = k)
    (hnf : ¬((childD Q false).isRed = true ∧ (childD Q true).isRed = true))
    (hnv : ¬(Q.isRed = true ∧ isRed h p = true)) (hne : q ≠ node) :
    insertLoop (fuel + 1) h node g p tt q dir last =
      insertLoop fuel h node p q (if g ≠ 0 then g else tt) (child h q (decide (rkey Q < k)))
        (decide (rkey Q < k)) dir := by
  have hq0 := rep_ne0 hq hQ
  have e1 : recolor h node p q dir = (h, q) := by
    simp only [recolor, if_neg hq0, isRed_child hq hQ]
    rw [if_neg]
    simpa using hnf
  have e2 : fixup h g p tt q last = h := by
    simp only [fixup, isRed_rep hq]
    rw [if_neg]
    simpa using hnv
  rw [insertLoop_succ]
  simp only [e1, e2, if_neg hne, hnk, key_rkey hq hQ]

theorem vg_desc {ctx : List Frame} {p : Nat} {dir : Bool} (f : Frame) (vp : VP ctx p dir) : VG (f :: ctx) p dir := by
  cases ctx with
  | nil => exact vp
  | cons f' fs => exact vp

theorem vp_desc (ctx : List Frame) (Q : T) (q : Nat) (d : Bool) (hq : Q.rootIdx = q) :
    VP (descF Q d :: ctx) q d := ⟨hq.symm, rfl⟩

theorem vt_desc {ctx : List Frame} {g tt : Nat} {last : Bool} (f : Frame) (vg : VG ctx g last)
    (hw : g = 0 → tt = 1) (hge : ∀ i ∈ ctxIdxs ctx, 2 ≤ i) : VT (f :: ctx) (if g ≠ 0 then g else tt) := by
  cases ctx with
  | nil =>
    simp only [VG] at vg
    simp only [VT, vg, ne_eq, not_true_eq_false, if_false]; exact hw vg
  | cons f1 r =>
    cases r with
    | nil =>
      simp only [VG] at vg
      simp only [VT, ttOf, vg, ne_eq, not_true_eq_false, if_false]; exact hw vg
    | cons f2 r' =>
      simp only [VG] at vg
      have : 2 ≤ f2.idx := hge f2.idx (by simp [ctxIdxs])
      have hg0 : g ≠ 0 := by rw [vg.1]; omega
      simp only [VT, ttOf, if_pos hg0]; exact vg.1

theorem vt_weak {ctx : List Frame} {g tt : Nat} {last : Bool} (vg : VG ctx g last) (vt : VT ctx tt)
    (hge : ∀ i ∈ ctxIdxs ctx, 2 ≤ i) : g = 0 → tt = 1 := by
  intro hg
  cases ctx with
  | nil => exact vt
  | cons f1 r =>
    cases r with
    | nil => exact vt
    | cons f2 r' =>
      simp only [VG] at vg
      have : 2 ≤ f2.idx := hge f2.idx (by simp [ctxIdxs])
      omega

theorem bh_childD {Q : T} {n : Nat} (hQ : Q ≠ .nil) (hb : Q.blackH n) (d : Bool) :
    (Q.isRed = true → (childD Q d).blackH n) ∧
    (Q.isRed = false → ∃ m, n = m + 1 ∧ (childD Q d).blackH m) := by
  cases hb with
  | nil => exact absurd rfl hQ
  | red h1 h2 =>
    refine ⟨fun _ => ?_, (fun e => nomatch e)⟩
    cases d
    · exact h1
    · exact h2
  | black h1 h2 =>
    refine ⟨(fun e => nomatch e), fun _ => ⟨_, rfl, ?_⟩⟩
    cases d
    · exact h1
    · exact h2

theorem mem_root_idxs {Q : T} (hQ : Q ≠ .nil) : Q.rootIdx ∈ Q.idxs := by
  cases Q with
  | nil => exact absurd rfl hQ
  | node => simp [T.idxs, T.rootIdx]

/-- shared tail of every quiet iteration: descend and appeal to the induction hypothesis in mode `mode'` -/
theorem quiet_continue {C : Cfg} {fuel : Nat} (ih : LoopIH C fuel) (mode' : Mode)
    {ctx : List Frame} {Q : T} {h : Tree} {g p tt q : Nat} {dir last : Bool}
    (hs : Sorted C.K0) (hk : C.k ∉ C.K0)
    (core : CoreH C C.K0 C.I0 h (plug ctx Q)) (fresh : Fresh C h) (bnd : Bnd C.k ctx) (col : Col (plug ctx Q))
    (hq : Rep h q Q) (hQ : Q ≠ .nil)
    (hnf : ¬((childD Q false).isRed = true ∧ (childD Q true).isRed = true))
    (hnv : ¬(Q.isRed = true ∧ isRed h p = true))
    (hm : ModeOK C.k mode' (descF Q (decide (rkey Q < C.k)) :: ctx) (childD Q (decide (rkey Q < C.k)))
            p q (if g ≠ 0 then g else tt) (decide (rkey Q < C.k)) dir)
    (hf : FuelOK mode' fuel (childD Q (decide (rkey Q < C.k)))) :
    Post C (insertLoop (fuel + 1) h C.node g p tt q dir last) := by
  have hne : q ≠ C.node := by
    intro e
    have h1 : q ∈ (plug ctx Q).idxs := by
      rw [mem_idxs_plug, ← Rep_rootIdx hq]; exact Or.inl (mem_root_idxs hQ)
    rw [e] at h1
    exact fresh.notin (core.idxs.mem_iff.1 h1)
  have hnk : key h C.node = C.k := by simp only [key, fresh.cell]
  rw [loop_quiet hQ hq hnk hnf hnv hne]
  have hpl := plug_desc ctx hQ (decide (rkey Q < C.k))
  refine ih mode' _ _ h _ _ _ _ _ _ ?_ fresh ?_ ?_ (rep_childD hq hQ _) hm hf
  · rw [hpl]; exact core
  · exact bnd_descend hQ bnd (core.keys ▸ hs) (core.keys ▸ hk)
  · rw [hpl]; exact col

end AsmjitVerif.Tree.Ins
