/-
C18 — ArenaTree::remove, part 17: `remove_refines_shape` — both paths (`f == q` and the replace loop), everything
except the red-black balance.
-/
import AsmjitVerif.Lemmas.C18TreeRem16
namespace AsmjitVerif.Tree.Rem
open AsmjitVerif.Tree AsmjitVerif.Tree.Spec

theorem ksorted_of_bst {t : T} (h : t.BST) : KSorted t.io := by
  have : Sorted (t.io.map Prod.snd) := by rw [T.io_keys]; exact h
  rw [sorted_iff_pairwise, List.pairwise_map] at this
  exact this

theorem init_inv2 {h : Tree} {t : T} {node : Nat} (hr : Represents h t) (hbst : t.BST) (hmem : node ∈ t.idxs) :
    Inv2 (key h node) node (initState h) [] t := by
  refine ⟨init_inv hr node hmem, (fun F hF => by cases hF), ksorted_of_bst hbst, ?_, Or.inl ⟨rfl, hmem⟩⟩
  intro p hp e
  have := hr.1.io_key p hp
  rw [e] at this; exact this.symm

/-- the `f ≠ q` path, from the strengthened invariant at loop exit -/
theorem replace_path {h : Tree} {t : T} {node : Nat} {s : RmState} {F : Frame} {up : List Frame}
    (hs : removeLoop kFuel node (initState h) = s)
    (hr : Represents h t) (hbst : t.BST) (i2 : Inv2 (key h node) node s (F :: up) .nil)
    (eio : (plug (F :: up) .nil).io = t.io) (hfq : ¬ s.f = s.q) :
    ∃ t', Represents (removeNode h node) t' ∧ t'.keys = setErase (key h node) t.keys ∧ t'.BST ∧
      t'.idxs.Perm (t.idxs.erase node) ∧ t'.isRed = false ∧
      (removeNode h node).nodes.size = s.t.nodes.size ∧
      ∃ below Ff mid upf, up = below ++ Ff :: (mid ++ upf) ∧
        t' = (plug (below ++ ⟨F.i, F.k, Ff.c, Ff.d, Ff.sib⟩ :: (mid ++ upf)) F.sib).setRed false := by
  obtain ⟨inv, dir, srt, nk, fok⟩ := i2
  have hqF : s.q = F.i := inv.hq
  rcases fok with ⟨_, hm⟩ | ⟨fn, below0, Ff, mid, upf, ectx, hFfi, hn, hlen⟩
  · simp [T.idxs] at hm
  cases below0 with
  | nil =>
    simp only [List.nil_append, List.cons.injEq] at ectx
    exact absurd (by rw [fn, hqF, ectx.1, hFfi]) hfq
  | cons B0 below =>
  simp only [List.cons_append, List.cons.injEq] at ectx
  obtain ⟨rfl, rfl⟩ := ectx
  subst hFfi
  have hmidlen : mid.length ≤ 3 := by split at hlen <;> omega
  -- unlink
  obtain ⟨ur, us, uk, und, uni, urc, urs⟩ := unlink_rep inv
  have eR : removeNode h Ff.i =
      (let h' := setChild s.t s.p (child s.t s.p true == s.q) (child s.t s.q (child s.t s.q false == 0))
       let t2 := replaceLoop kFuel h' Ff.i (if s.gf ≠ 0 then s.gf else 1) s.f s.q
         (if (if s.gf ≠ 0 then s.gf else 1) = 1 then true
          else decide (key h' (if s.gf ≠ 0 then s.gf else 1) < key h' Ff.i))
       makeBlack { t2 with root := child t2 1 true } (child t2 1 true)) := by
    rw [removeNode_eq, hs]
    simp only [ne_eq, hfq, not_false_eq_true, if_true]
  simp only [] at eR ur us uk urc urs
  generalize setChild s.t s.p (child s.t s.p true == s.q) (child s.t s.q (child s.t s.q false == 0)) = h' at *
  -- facts about keys and frames in h'
  have hkn' : key h' Ff.i = key h Ff.i := by
    show (nd h' Ff.i).key = _; rw [uk]; exact inv.hkn
  have hdirG : ∀ G ∈ F :: (below ++ Ff :: (mid ++ upf)), G ∈ below ++ Ff :: (mid ++ upf) →
      G.d = decide (key h' G.i < key h' Ff.i) := by
    intro G hG hG'
    rw [hkn', dir G hG]
    have := urc.key G hG'
    show _ = decide ((nd h' G.i).key < _); rw [this]
  rw [hn, fn, hqF] at eR
  have edir : (if pIdx upf = 1 then true else decide (key h' (pIdx upf) < key h' Ff.i)) = dirOf upf := by
    cases upf with
    | nil => rfl
    | cons G upf' =>
      have hG2 : 2 ≤ G.i := (RepC.suffix (below ++ Ff :: mid) (G :: upf') (by simpa using urc)).1
      have : pIdx (G :: upf') ≠ 1 := by simp only [pIdx]; omega
      rw [if_neg this]
      exact (hdirG G (by simp) (by simp)).symm
  rw [edir] at eR
  -- distinctness
  have eidx : ctxIdxs (below ++ Ff :: (mid ++ upf)) =
      ctxIdxs below ++ Ff.i :: (Ff.sib.idxs ++ ctxIdxs (mid ++ upf)) := by rw [ctxIdxs_append]; rfl
  have und' := und; rw [eidx] at und'
  obtain ⟨_, _, dF, _, _⟩ := rc_distinct _ _ _ _ _ und'
  -- the walk
  have hFfab : RepC h' (Ff :: (mid ++ upf)) := RepC.suffix below _ urc
  have hwalk : Walk h' Ff.i Ff.i mid.reverse upf := by
    apply walk_of_repc
    · rw [List.reverse_reverse]; exact hFfab.2.2.2.2.2.2
    · intro G hG
      have hG' : G ∈ mid := List.mem_reverse.mp hG
      refine ⟨?_, hdirG G (by simp [hG']) (by simp [hG'])⟩
      intro e
      exact dF (e ▸ frame_mem_ctxIdxs (List.mem_append_left upf hG'))
    · rw [List.reverse_reverse]; exact hFfab.2.2.2.2.2.1
  have ewalk := replaceLoop_walk h' Ff.i F.i Ff.i mid.reverse upf kFuel hwalk
    (by rw [List.length_reverse]; show mid.length < 256; omega)
  rw [List.reverse_reverse] at ewalk
  rw [ewalk] at eR
  -- the raw copy
  obtain ⟨a, b, c, _⟩ := inv.repc
  obtain ⟨rr, rs, rk⟩ := replace_rep (kq := F.k) (by rw [us]; exact inv.size1) urc urs und a (us ▸ b)
    (by rw [uk]; exact c) uni
  generalize rawCopy h' (pIdx (mid ++ upf)) (dirOf (mid ++ upf)) Ff.i F.i = h'' at *
  -- in-order sequences
  have hFfk : Ff.k = key h Ff.i := by
    have := urc.key Ff (by simp)
    rw [← this, ← hkn']; rfl
  have hFfd : Ff.d = false := by
    rw [dir Ff (by simp), hFfk]; simp
  obtain ⟨L, R, hLR⟩ := plug_io_split (mid ++ upf)
  have e0 : (plug (F :: (below ++ Ff :: (mid ++ upf))) .nil).io =
      L ++ ((plug (F :: below) .nil).io ++ (Ff.i, key h Ff.i) :: Ff.sib.io) ++ R := by
    have : F :: (below ++ Ff :: (mid ++ upf)) = (F :: below) ++ Ff :: (mid ++ upf) := rfl
    rw [this, plug_append]
    simp only [plug]
    rw [hLR, mkT_io, hFfd, hFfk]; simp
  have spine : ∀ B ∈ F :: below, B.d = true := by
    intro B hB
    rw [dir B (by simp only [List.mem_cons, List.mem_append] at hB ⊢; rcases hB with hB | hB <;> simp [hB])]
    have hm := frame_mem_plug_io (F :: below) .nil B hB
    unfold KSorted at srt
    rw [e0, List.pairwise_append, List.pairwise_append, List.pairwise_append] at srt
    have := srt.1.2.1.2.2 _ hm (Ff.i, key h Ff.i) (by simp)
    simpa using this
  obtain ⟨M, hM⟩ := right_spine_io below (fun B hB => spine B (by simp [hB]))
  have eFb : (plug (F :: below) .nil).io = M ++ (F.sib.io ++ [(F.i, F.k)]) := by
    simp only [plug]; rw [hM, mkT_io, spine F (by simp)]; simp [T.io]
  have e1 : t.io = (L ++ (M ++ (F.sib.io ++ [(F.i, F.k)]))) ++ (Ff.i, key h Ff.i) :: (Ff.sib.io ++ R) := by
    rw [← eio, e0, eFb]; simp
  have e2 : (plug (below ++ ⟨F.i, F.k, Ff.c, Ff.d, Ff.sib⟩ :: (mid ++ upf)) F.sib).io =
      (L ++ (M ++ (F.sib.io ++ [(F.i, F.k)]))) ++ (Ff.sib.io ++ R) := by
    rw [plug_append]; simp only [plug]
    rw [hLR, mkT_io, hFfd, hM]; simp
  generalize hT3 : plug (below ++ ⟨F.i, F.k, Ff.c, Ff.d, Ff.sib⟩ :: (mid ++ upf)) F.sib = T3 at *
  have hnd3 : T3.idxs.Nodup := by
    have h1 := hr.2
    rw [← T.io_idxs, e1] at h1
    rw [← T.io_idxs, e2]
    exact h1.sublist (List.Sublist.map _ (List.Sublist.append_left (List.sublist_cons_self _ _) _))
  obtain ⟨f1, f2⟩ := finish_root rr hnd3
  obtain ⟨g1, g2, g3, g4⟩ := erase_conclusion e1 e2 hbst hr.2
  refine ⟨T3.setRed false, ?_, g1, g2, g3, g4, ?_, ⟨below, Ff, mid, upf, rfl, by rw [hT3]⟩⟩
  · rw [eR]; exact f1
  · rw [eR, f2, rs, us]

end AsmjitVerif.Tree.Rem
