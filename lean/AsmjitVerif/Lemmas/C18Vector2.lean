/-
C18 – `ArenaVector<T>`, part 2: the allocating operations (`reserve_*`, `resize_*`, `insert`, `concat`, `release`),
`last_index_of`, and the sequence theorem `vec_refines_list`.
The arena is used only through `allocReusable_spec`, `allocReusable_mallocMax'`, `freeReusable_mallocMax`.

Kernel note.  `reserveWithByteSize` matches on `allocReusable a byteSize`; if the kernel (or `Meta.whnf`) ever
tries to evaluate that discriminant with an open `byteSize` it runs `Nat.ble (2^64) (byteSize + …)` by unary
recursion and never returns.  Therefore the function is first rewritten (at the level of the *unapplied*
constant, `rwbs_fun_eq`) into `rwbsG alloc free`, a copy that is generic in the two arena functions; all
reasoning is done for arbitrary `alloc`/`free`, and the arena enters only through three hypotheses.
-/
import AsmjitVerif.Lemmas.C18Vector
namespace AsmjitVerif.Vector
open AsmjitVerif.Arena

/-! ## 4. allocation: `reserve_with_byte_size` -/

/-- `reserveWithByteSize` with the two arena functions abstracted (same matchers, same body) -/
def rwbsG (alloc : State → Nat → State × Option Loc × Nat) (free : State → Loc → Nat → State)
    (a : State) (v : Vec) (byteSize itemSize : Nat) : State × Vec × Err :=
  reserveWithByteSize.match_3 (fun _ => State × Vec × Err) (alloc a byteSize) (fun a1 _ => (a1, v, Err.oom))
    fun a1 p allocated =>
    let newCap := min (allocated / itemSize) 0xFFFFFFFF
    let a2 := reserveWithByteSize.match_1 (fun _ => State) v.data (fun old => free a1 old (v.cap * itemSize)) fun _ => a1
    let nb := List.take v.size v.buf ++ List.replicate (newCap - v.size) 0
    (a2, { data := some p, buf := nb, size := v.size, cap := newCap }, Err.ok)

theorem rwbs_fun_eq : @reserveWithByteSize = rwbsG allocReusable freeReusable := rfl

/-- what a reserve call promises (`n` = requested capacity) -/
structure ReserveOk (a : State) (v : Vec) (n : Nat) (a' : State) (v' : Vec) (e : Err) : Prop where
  mm : a'.mallocMax = a.mallocMax
  oom : e = .oom → v' = v
  wf : WF v'
  size : v'.size = v.size
  items : items v' = items v
  cap : e = .ok → n ≤ v'.cap

theorem rwbsG_spec {alloc : State → Nat → State × Option Loc × Nat} {free : State → Loc → Nat → State}
    (hA : ∀ {s s' : State} {size n : Nat} {o : Option Loc}, alloc s size = (s', o, n) → s'.mallocMax = s.mallocMax)
    (hS : ∀ {s s' : State} {size allocated : Nat} {p : Loc}, alloc s size = (s', some p, allocated) →
      0 < size → size ≤ u64 → size ≤ allocated ∧ allocated ≤ max 2048 size ∧ (s.mallocMax < u32 → allocated < u32))
    (hF : ∀ (s : State) (p : Loc) (size : Nat), (free s p size).mallocMax = s.mallocMax)
    {a a' : State} {v v' : Vec} {e : Err} {byteSize itemSize n : Nat}
    (h : rwbsG alloc free a v byteSize itemSize = (a', v', e)) (hw : WF v) (hi : 0 < itemSize)
    (hb0 : 0 < byteSize) (hb : byteSize ≤ u64) (hn : n * itemSize ≤ byteSize) (hn32 : n ≤ 0xFFFFFFFF)
    (hsz : v.size ≤ n) : ReserveOk a v n a' v' e := by
  simp only [rwbsG] at h
  generalize hr : alloc a byteSize = r at h
  obtain ⟨a1, o, al⟩ := r
  have hmm := hA hr
  cases o with
  | none =>
    simp only [Prod.mk.injEq] at h
    obtain ⟨h1, h2, h3⟩ := h
    subst h1 h2 h3
    exact ⟨hmm, fun _ => rfl, hw, rfl, rfl, nofun⟩
  | some p =>
    have hs := hS hr hb0 hb
    have hge0 : n ≤ al / itemSize := (Nat.le_div_iff_mul_le hi).2 (by omega)
    have hlt : min (al / itemSize) 0xFFFFFFFF < u32 := by unfold u32; omega
    have hge : n ≤ min (al / itemSize) 0xFFFFFFFF := by omega
    simp only at h
    generalize min (al / itemSize) 0xFFFFFFFF = newCap at h hlt hge
    clear hs hr hge0
    have hl := hw.len; have hle := hw.le
    have key : ∀ a2 : State, a2.mallocMax = a.mallocMax →
        ReserveOk a v n a2 { v with data := some p, buf := v.buf.take v.size ++ List.replicate (newCap - v.size) 0,
                                    cap := newCap } .ok := by
      intro a2 h2
      refine ⟨h2, nofun, ⟨?_, ?_, ?_, hlt⟩, rfl, ?_, fun _ => hge⟩
      · simp only [List.length_append, List.length_take, List.length_replicate]; omega
      · simp only; omega
      · intro hd; cases hd
      · simp only [Vector.items]
        rw [List.take_left' (by simp only [List.length_take]; omega)]
    cases hd : v.data with
    | none =>
      simp only [hd, Prod.mk.injEq] at h
      obtain ⟨h1, h2, h3⟩ := h
      subst h1 h2 h3
      exact key _ hmm
    | some old =>
      have hf : (free a1 old (v.cap * itemSize)).mallocMax = a.mallocMax := (hF _ _ _).trans hmm
      simp only [hd, Prod.mk.injEq] at h
      generalize free a1 old (v.cap * itemSize) = a2 at h hf
      obtain ⟨h1, h2, h3⟩ := h
      subst h1 h2 h3
      exact key _ hf

/-- `reserve_with_byte_size`: `0 < itemSize`, `0 < byteSize ≤ 2^64` (the arena computes the slot from `byteSize - 1` modulo `2^64`),
`n * itemSize ≤ byteSize`, `size ≤ n`. -/
theorem reserveWithByteSize_spec {a a' : State} {v v' : Vec} {e : Err} {byteSize itemSize n : Nat}
    (h : reserveWithByteSize a v byteSize itemSize = (a', v', e)) (hw : WF v) (hi : 0 < itemSize)
    (hb0 : 0 < byteSize) (hb : byteSize ≤ u64) (hn : n * itemSize ≤ byteSize) (hn32 : n ≤ 0xFFFFFFFF)
    (hsz : v.size ≤ n) : ReserveOk a v n a' v' e := by
  rw [rwbs_fun_eq] at h
  exact rwbsG_spec allocReusable_mallocMax' allocReusable_spec freeReusable_mallocMax h hw hi hb0 hb hn hn32 hsz

example : (rwbsG (fun s _ => (s, some (.dyn 7), 40)) (fun s _ _ => s) {} {} 40 4).2.1.cap = 10 := by decide

/-! ## 5. `reserve_fit / reserve_grow / grow` and the inline wrappers

Standing hypotheses: `WF v`, `0 < itemSize < 2^32` (`ItemSize::n` is a `uint32_t`).  No bound on the arena: the
model follows the repaired code (capacity clamped to `0xFFFFFFFF`). -/

theorem ReserveOk.same {a : State} {v : Vec} {n : Nat} {e : Err} (hw : WF v) (hc : e = .ok → n ≤ v.cap) :
    ReserveOk a v n a v e := ⟨rfl, fun _ => rfl, hw, rfl, rfl, hc⟩

theorem ReserveOk.mono {a a' : State} {v v' : Vec} {n m : Nat} {e : Err} (h : ReserveOk a v n a' v' e) (hm : m ≤ n) :
    ReserveOk a v m a' v' e := ⟨h.mm, h.oom, h.wf, h.size, h.items, fun he => Nat.le_trans hm (h.cap he)⟩

theorem byteSize_bound {n i : Nat} (hn : n < 0xFFFFFFFF) (hi : i < u32) : n * i + kGrowThreshold ≤ u64 := by
  have h := Nat.mul_le_mul (Nat.le_of_lt hn) (Nat.le_of_lt hi)
  unfold u32 at h
  unfold u64 kGrowThreshold
  omega

theorem reserveFit_spec {a a' : State} {v v' : Vec} {e : Err} {n itemSize : Nat}
    (h : reserveFit a v n itemSize = (a', v', e)) (hw : WF v) (hi : 0 < itemSize) (hi32 : itemSize < u32) : ReserveOk a v n a' v' e := by
  simp only [reserveFit] at h
  split at h
  · simp only [Prod.mk.injEq] at h
    obtain ⟨h1, h2, h3⟩ := h
    subst h1 h2 h3
    refine ReserveOk.same hw ?_
    intro he; split at he
    · assumption
    · cases he
  · rename_i hc
    have h1 : v.cap < n ∧ n < 0xFFFFFFFF := by simp [isValidSize] at hc; omega
    have hb := byteSize_bound h1.2 hi32
    have hle := hw.le
    have hpos : 0 < n * itemSize := Nat.mul_pos (by omega) hi
    exact reserveWithByteSize_spec h hw hi hpos (by omega) (Nat.le_refl _) (by omega) (by omega)

theorem reserveGrow_spec {a a' : State} {v v' : Vec} {e : Err} {n itemSize : Nat}
    (h : reserveGrow a v n itemSize = (a', v', e)) (hw : WF v) (hi : 0 < itemSize) (hi32 : itemSize < u32) : ReserveOk a v n a' v' e := by
  simp only [reserveGrow] at h
  split at h
  · simp only [Prod.mk.injEq] at h
    obtain ⟨h1, h2, h3⟩ := h
    subst h1 h2 h3
    refine ReserveOk.same hw ?_
    intro he; split at he
    · assumption
    · cases he
  · rename_i hc
    have h1 : v.cap < n ∧ n < 0xFFFFFFFF := by simp [isValidSize] at hc; omega
    have hb := byteSize_bound h1.2 hi32
    have hle := hw.le
    have hpos : 0 < n * itemSize := Nat.mul_pos (by omega) hi
    have hge := expand_ge' (n * itemSize)
    have hub := expand_le (n * itemSize)
    exact reserveWithByteSize_spec h hw hi (by omega) (by omega) hge (by omega) (by omega)

theorem grow_spec {a a' : State} {v v' : Vec} {e : Err} {n itemSize : Nat}
    (h : grow a v n itemSize = (a', v', e)) (hw : WF v) (hi : 0 < itemSize) (hi32 : itemSize < u32) : ReserveOk a v (v.size + n) a' v' e := by
  simp only [grow] at h
  split at h
  · simp only [Prod.mk.injEq] at h
    obtain ⟨h1, h2, h3⟩ := h
    subst h1 h2 h3
    exact ReserveOk.same hw nofun
  · exact reserveGrow_spec h hw hi hi32

/-- inline `reserve_fit(n)`: `items` unchanged, on `.ok` `cap ≥ n`, on `.oom` nothing changed -/
theorem reserveFitP_spec {a a' : State} {v v' : Vec} {e : Err} {n itemSize : Nat}
    (h : reserveFitP a v n itemSize = (a', v', e)) (hw : WF v) (hi : 0 < itemSize) (hi32 : itemSize < u32) : ReserveOk a v n a' v' e := by
  simp only [reserveFitP] at h
  split at h
  · exact reserveFit_spec h hw hi hi32
  · simp only [Prod.mk.injEq] at h
    obtain ⟨h1, h2, h3⟩ := h
    subst h1 h2 h3
    exact ReserveOk.same hw (fun _ => by omega)

theorem reserveGrowP_spec {a a' : State} {v v' : Vec} {e : Err} {n itemSize : Nat}
    (h : reserveGrowP a v n itemSize = (a', v', e)) (hw : WF v) (hi : 0 < itemSize) (hi32 : itemSize < u32) : ReserveOk a v n a' v' e := by
  simp only [reserveGrowP] at h
  split at h
  · exact reserveGrow_spec h hw hi hi32
  · simp only [Prod.mk.injEq] at h
    obtain ⟨h1, h2, h3⟩ := h
    subst h1 h2 h3
    exact ReserveOk.same hw (fun _ => by omega)

/-- non-vacuity for the repaired clamp: the oracle grants a 4 GiB block (`mallocMax = 2^40`), the capacity is
`0xFFFFFFFF ≥ n` (the unrepaired code stored `uint32_t(2^32) = 0` and still answered `kOk`) -/
example : (reserveGrowP (init 8192 0) {} 4294967294 1).2.1.cap = 4294967295
    ∧ (reserveGrowP (init 8192 0) {} 4294967294 1).2.2 = .ok := by decide

theorem reserveAdd1_spec {a a' : State} {v v' : Vec} {e : Err} {itemSize : Nat}
    (h : reserveAdd1 a v itemSize = (a', v', e)) (hw : WF v) (hi : 0 < itemSize) (hi32 : itemSize < u32) : ReserveOk a v (v.size + 1) a' v' e := by
  simp only [reserveAdd1] at h
  split at h
  · exact grow_spec h hw hi hi32
  · rename_i hne
    simp only [Prod.mk.injEq] at h
    obtain ⟨h1, h2, h3⟩ := h
    subst h1 h2 h3
    have := hw.le
    exact ReserveOk.same hw (fun _ => by omega)

/-- `reserve_additional(n)`: on `.ok` `cap - size ≥ n` -/
theorem reserveAddN_spec {a a' : State} {v v' : Vec} {e : Err} {n itemSize : Nat}
    (h : reserveAddN a v n itemSize = (a', v', e)) (hw : WF v) (hi : 0 < itemSize) (hi32 : itemSize < u32) : ReserveOk a v (v.size + n) a' v' e := by
  simp only [reserveAddN] at h
  split at h
  · exact grow_spec h hw hi hi32
  · simp only [Prod.mk.injEq] at h
    obtain ⟨h1, h2, h3⟩ := h
    subst h1 h2 h3
    have := hw.le
    exact ReserveOk.same hw (fun _ => by omega)

/-! ## 6. operations that write memory: `resize_fit/grow`, `insert` (`append`, `prepend`), `concat`; `release` -/

theorem blit_some {buf src : List Nat} {dst : Nat} (h : dst + src.length ≤ buf.length) :
    blit buf dst src = some (buf.take dst ++ src ++ buf.drop (dst + src.length)) := by
  simp only [blit, if_pos h]

theorem blit_length {buf src : List Nat} {dst : Nat} (h : dst + src.length ≤ buf.length) :
    (buf.take dst ++ src ++ buf.drop (dst + src.length)).length = buf.length := by
  simp only [List.length_append, List.length_take, List.length_drop]; omega

example : blit [1, 2, 3, 4] 1 [8, 9] = some [1, 8, 9, 4] ∧ blit [1, 2, 3, 4] 3 [8, 9] = none := by decide

/-- what an operation that may allocate and then writes promises: it never leaves the buffer (`some`), keeps
`mallocMax` and `WF`, on `.oom` the vector is unchanged, on `.ok` the items are `l'` -/
def OpOk (a : State) (v : Vec) (l' : List Nat) (res : Res) : Prop :=
  ∃ a' v' e, res = some (a', v', e) ∧ a'.mallocMax = a.mallocMax ∧ WF v' ∧ (e = .oom → v' = v) ∧
    (e = .ok → items v' = l')

theorem resize_spec (growing : Bool) {a : State} {v : Vec} (n : Nat) {itemSize : Nat}
    (hw : WF v) (hi : 0 < itemSize) (hi32 : itemSize < u32) :
    OpOk a v ((items v).take n ++ List.replicate (n - v.size) 0) (resize growing a v n itemSize) := by
  have hres : ∀ a1 v1 e1, (if v.cap < n then (if growing = true then reserveGrow a v n itemSize
      else reserveFit a v n itemSize) else (a, v, Err.ok)) = (a1, v1, e1) → ReserveOk a v n a1 v1 e1 := by
    intro a1 v1 e1 h
    split at h
    · split at h
      · exact reserveGrow_spec h hw hi hi32
      · exact reserveFit_spec h hw hi hi32
    · simp only [Prod.mk.injEq] at h
      obtain ⟨h1, h2, h3⟩ := h
      subst h1 h2 h3
      exact ReserveOk.same hw (fun _ => by omega)
  simp only [resize]
  generalize (if v.cap < n then (if growing = true then reserveGrow a v n itemSize
      else reserveFit a v n itemSize) else (a, v, Err.ok)) = r at hres
  obtain ⟨a1, v1, e1⟩ := r
  have ok := hres a1 v1 e1 rfl
  clear hres
  cases e1 with
  | oom => exact ⟨a1, v1, .oom, rfl, ok.mm, ok.wf, ok.oom, nofun⟩
  | ok =>
    have hcap := ok.cap rfl
    have hl := ok.wf.len; have hle := ok.wf.le; have h32 := ok.wf.cap32
    have hsz := ok.size
    have hmod : n % u32 = n := Nat.mod_eq_of_lt (by omega)
    simp only [hmod]
    split
    · rename_i hlt
      have hb : v1.size + (List.replicate (n - v1.size) 0).length ≤ v1.buf.length := by
        simp only [List.length_replicate]; omega
      rw [blit_some hb]
      refine ⟨a1, _, .ok, rfl, ok.mm, ⟨?_, ?_, ok.wf.nodata, h32⟩, nofun, fun _ => ?_⟩
      · simp only [blit_length hb]; exact hl
      · simp only; omega
      · rw [← ok.items, ← hsz]
        simp only [Vector.items, List.take_take]
        rw [Nat.min_eq_right (by omega)]
        rw [List.take_left' (by simp only [List.length_append, List.length_take, List.length_replicate]; omega)]
    · rename_i hge
      refine ⟨a1, _, .ok, rfl, ok.mm, ⟨hl, ?_, ok.wf.nodata, h32⟩, nofun, fun _ => ?_⟩
      · simp only; omega
      · rw [← ok.items, ← hsz]
        simp only [Vector.items, List.take_take]
        rw [Nat.min_eq_left (by omega), Nat.sub_eq_zero_of_le (by omega)]
        simp only [List.replicate_zero, List.append_nil]

example : (resize true (init 8192 0 4096) { data := some (.dyn 0), buf := [1, 2, 3], size := 2, cap := 3 } 3 4).map
    (fun r => items r.2.1) = some [1, 2, 0] := by decide

/-- the `memmove` + `memcpy` of `insert` on a plain list -/
theorem insert_list (buf : List Nat) (index size item : Nat) (hi : index ≤ size) (hs : size < buf.length) :
    let S := (buf.drop index).take (size - index)
    let b1 := buf.take (index + 1) ++ S ++ buf.drop (index + 1 + S.length)
    (b1.take index ++ [item] ++ b1.drop (index + [item].length)).take (size + 1) =
      (buf.take size).take index ++ item :: (buf.take size).drop index := by
  intro S b1
  have hS : S.length = size - index := by
    simp only [S, List.length_take, List.length_drop]; omega
  have hA : (buf.take (index + 1)).length = index + 1 := by
    simp only [List.length_take]; omega
  have h1 : b1.take index = buf.take index := by
    simp only [b1, List.append_assoc]
    rw [List.take_append_of_le_length (by omega), List.take_take, Nat.min_eq_left (by omega)]
  have h2 : b1.drop (index + [item].length) = S ++ buf.drop (index + 1 + S.length) := by
    simp only [b1, List.append_assoc, List.length_singleton]
    rw [List.drop_left' hA]
  rw [h1, h2, List.take_take, Nat.min_eq_left hi, List.drop_take]
  have h3 : buf.take index ++ [item] ++ (S ++ buf.drop (index + 1 + S.length)) =
      (buf.take index ++ [item] ++ S) ++ buf.drop (index + 1 + S.length) := by
    simp only [List.append_assoc]
  rw [h3, List.take_left' (by simp only [List.length_append, List.length_take, List.length_singleton, hS]; omega)]
  simp only [S, List.append_assoc, List.singleton_append]

example : (insert (init 8192 0 4096) { data := some (.dyn 0), buf := [1, 2, 3, 0], size := 3, cap := 4 } 1 9 4).map
    (fun r => items r.2.1) = some [1, 9, 2, 3] := by decide
example : (insert (init 8192 0) {} 0 9 4).map (fun r => (items r.2.1, r.2.1.cap)) = some ([9], 4) := by decide
example : (insert (init 8192 0 4096) {} 0 9 4).map (fun r => (r.2.1, r.2.2)) = some ({}, .oom) := by decide

/-- `insert(arena, index, item)` for `index ≤ size` (`append`: `index = size`, `prepend`: `index = 0`) -/
theorem insert_spec {a : State} {v : Vec} {index : Nat} (item : Nat) {itemSize : Nat}
    (hw : WF v) (hidx : index ≤ v.size) (hi : 0 < itemSize) (hi32 : itemSize < u32) :
    OpOk a v ((items v).take index ++ item :: (items v).drop index) (insert a v index item itemSize) := by
  simp only [insert]
  generalize hr : reserveAdd1 a v itemSize = r
  obtain ⟨a1, v1, e1⟩ := r
  have ok := reserveAdd1_spec hr hw hi hi32
  cases e1 with
  | oom => exact ⟨a1, v1, .oom, rfl, ok.mm, ok.wf, ok.oom, nofun⟩
  | ok =>
    have hcap := ok.cap rfl
    have hl := ok.wf.len; have hle := ok.wf.le; have h32 := ok.wf.cap32
    have hsz := ok.size
    simp only
    have hS : ((v1.buf.drop index).take (v1.size - index)).length = v1.size - index := by
      simp only [List.length_take, List.length_drop]; omega
    have hb1 : index + 1 + ((v1.buf.drop index).take (v1.size - index)).length ≤ v1.buf.length := by
      rw [hS]; omega
    rw [blit_some hb1]
    simp only
    have hb2 : index + [item].length ≤ (v1.buf.take (index + 1) ++ (v1.buf.drop index).take (v1.size - index) ++
        v1.buf.drop (index + 1 + ((v1.buf.drop index).take (v1.size - index)).length)).length := by
      rw [blit_length hb1, List.length_singleton]; omega
    rw [blit_some hb2]
    simp only
    refine ⟨a1, _, .ok, rfl, ok.mm, ⟨?_, ?_, ok.wf.nodata, h32⟩, nofun, fun _ => ?_⟩
    · simp only [blit_length hb2, blit_length hb1]; exact hl
    · simp only; omega
    · rw [← ok.items]
      have := insert_list v1.buf index v1.size item (by omega) (by omega)
      simp only at this
      simp only [Vector.items]
      exact this

/-- `concat(arena, other)` -/
theorem concat_spec {a : State} {v other : Vec} {itemSize : Nat}
    (hw : WF v) (ho : WF other) (hi : 0 < itemSize) (hi32 : itemSize < u32) :
    OpOk a v (items v ++ items other) (concat a v other itemSize) := by
  have hres : ∀ a1 v1 e1, (if v.cap - v.size < other.size then reserveAddN a v other.size itemSize
      else (a, v, Err.ok)) = (a1, v1, e1) → ReserveOk a v (v.size + other.size) a1 v1 e1 := by
    intro a1 v1 e1 h
    split at h
    · exact reserveAddN_spec h hw hi hi32
    · simp only [Prod.mk.injEq] at h
      obtain ⟨h1, h2, h3⟩ := h
      subst h1 h2 h3
      have := hw.le
      exact ReserveOk.same hw (fun _ => by omega)
  simp only [concat]
  generalize (if v.cap - v.size < other.size then reserveAddN a v other.size itemSize
      else (a, v, Err.ok)) = r at hres
  obtain ⟨a1, v1, e1⟩ := r
  have ok := hres a1 v1 e1 rfl
  clear hres
  cases e1 with
  | oom => exact ⟨a1, v1, .oom, rfl, ok.mm, ok.wf, ok.oom, nofun⟩
  | ok =>
    have hcap := ok.cap rfl
    have hl := ok.wf.len; have hle := ok.wf.le; have h32 := ok.wf.cap32
    have hsz := ok.size
    have hol := ho.len; have hole := ho.le
    simp only
    split
    · rename_i h0
      refine ⟨a1, v1, .ok, rfl, ok.mm, ok.wf, nofun, fun _ => ?_⟩
      rw [ok.items]
      simp only [Vector.items, h0, List.take_zero, List.append_nil]
    · have hsrc : (other.buf.take other.size).length = other.size := by
        simp only [List.length_take]; omega
      have hb : v1.size + (other.buf.take other.size).length ≤ v1.buf.length := by
        rw [hsrc]; omega
      rw [blit_some hb]
      refine ⟨a1, _, .ok, rfl, ok.mm, ⟨?_, ?_, ok.wf.nodata, h32⟩, nofun, fun _ => ?_⟩
      · simp only [blit_length hb]; exact hl
      · simp only; omega
      · rw [← ok.items]
        simp only [Vector.items]
        rw [List.take_left' (by simp only [List.length_append, List.length_take]; omega)]

example : (concat (init 8192 0 4096) { data := some (.dyn 0), buf := [1, 2, 3, 0], size := 2, cap := 4 }
    { data := some (.dyn 1), buf := [7, 8, 9], size := 2, cap := 3 } 4).map (fun r => items r.2.1) = some [1, 2, 7, 8] := by
  decide

/-- `release(arena)`: the vector becomes the empty vector (or stays the null vector) -/
theorem release_spec {a a' : State} {v v' : Vec} {itemSize : Nat} (h : release a v itemSize = (a', v')) (hw : WF v) :
    a'.mallocMax = a.mallocMax ∧ WF v' ∧ items v' = [] := by
  cases hd : v.data with
  | none =>
    simp only [release, hd, Prod.mk.injEq] at h
    obtain ⟨h1, h2⟩ := h
    subst h1 h2
    refine ⟨rfl, hw, ?_⟩
    have h0 := hw.nodata hd
    have := hw.le
    have hs : v.size = 0 := by omega
    simp only [Vector.items, hs, List.take_zero]
  | some p =>
    simp only [release, hd, Prod.mk.injEq] at h
    obtain ⟨h1, h2⟩ := h
    subst h1 h2
    exact ⟨freeReusable_mallocMax _ _ _, wf_empty, rfl⟩

example : (release (init 8192 0) { data := some (.dyn 0), buf := [1, 2, 3, 0], size := 2, cap := 4 } 4).2 = {} := by
  decide

/-! ## 7. `index_of` / `last_index_of` against the recursive textbook definitions -/

theorem findIdx?_eq_firstIdx (x : Nat) (l : List Nat) : l.findIdx? (· == x) = firstIdx x l := by
  induction l with
  | nil => rfl
  | cons y ys ih =>
    simp only [List.findIdx?_cons, firstIdx, ih]
    by_cases hy : y = x
    · simp [hy]
    · simp [hy]

/-- `index_of` = index of the first occurrence -/
theorem indexOf_first {v : Vec} (hw : WF v) (x : Nat) : indexOf v x = firstIdx x (items v) := by
  rw [indexOf_spec hw, findIdx?_eq_firstIdx]

theorem lastIdx_reverse (x : Nat) (l : List Nat) :
    (if l.reverse.findIdx (· == x) < l.length then some (l.length - 1 - l.reverse.findIdx (· == x)) else none)
      = lastIdx x l := by
  induction l with
  | nil => rfl
  | cons y ys ih =>
    simp only [List.reverse_cons, List.findIdx_append, List.length_reverse, List.length_cons, lastIdx]
    have hle := @List.findIdx_le_length _ (· == x) ys.reverse
    rw [List.length_reverse] at hle
    by_cases hj : ys.reverse.findIdx (· == x) < ys.length
    · rw [if_pos hj] at ih ⊢
      rw [← ih, if_pos (by omega)]
      simp only [Option.some.injEq]
      omega
    · rw [if_neg hj] at ih ⊢
      rw [← ih]
      by_cases hy : y = x
      · subst hy
        simp [List.findIdx_cons]
      · have hb : (y == x) = false := by simp [hy]
        simp [List.findIdx_cons, hb, hy]
        omega

/-- `last_index_of` (repaired code) = index of the last occurrence -/
theorem lastIndexOf_spec {v : Vec} (hw : WF v) (x : Nat) : lastIndexOf v x = lastIdx x (items v) := by
  rw [← lastIdx_reverse]
  simp only [lastIndexOf, length_items hw]

example : lastIndexOf { data := some (.dyn 0), buf := [1, 2, 1, 1], size := 3, cap := 4 } 1 = some 2
    ∧ lastIdx 1 [1, 2, 1] = some 2 ∧ firstIdx 1 [2, 1, 1] = some 1 := by decide

end AsmjitVerif.Vector
