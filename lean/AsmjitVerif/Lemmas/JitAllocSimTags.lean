/- C09 refinement (model run ⊑ monitor): the tag (last written byte) of every live span survives elementary transitions; table update helpers. -/
import AsmjitVerif.Lemmas.JitAllocSimSweep
namespace AsmjitVerif.JitAlloc
open Spec

/-- contents of a span that stays live, in ghost terms: the tag is still right after a transition that is not the caller's write
over that span; after the caller's write every granule has the written byte -/
theorem tags_old {g : Ghost} {s s' : St} {l : TLabel} (hS : Sim g s) (hI : Inv s) (hMm : AMem s.a) (t : Trans s l s') {i : Nat} {x : GH}
    (hx : g.tab[i]? = some x) (hl : x.live = true) {hd' : Handle} (h' : s'.tab[i]? = some hd') (hl' : hd'.live = true) :
    hd'.blk = x.blk ∧ hd'.off = x.off ∧ hd'.size ≤ x.size ∧
    ∀ b' ∈ s'.a.blocks, b'.id = x.blk → ∀ k, inSpan (s'.a.cfg.poolGran b'.pool) hd' k →
      ((∀ byte, l ≠ some (i, byte)) →
        (match x.tag with
         | some t => memAt b' k = t
         | none => s'.a.cfg.fillUnused = true → memAt b' k = patColour s'.a.cfg)) ∧
      (∀ byte, l = some (i, byte) → memAt b' k = byte) := by
  have hm : s.tab[i]? = some (toH x) := by rw [hS.getH, hx]; rfl
  have hlm : (toH x).live = true := hl
  obtain ⟨b, hb, e, st, n, o1, o2⟩ := hI.owned i (toH x) hm hlm
  obtain ⟨f1, f2, f3, f4⟩ := contents_frame hI hMm t hm hlm h' hl' hb e
  refine ⟨f1, f2, f3, ?_⟩
  intro b' hb' e' k hk
  obtain ⟨p1, p2⟩ := f4 b' hb' e'
  rw [t.cfg, p1] at hk
  rw [t.cfg]
  have hk0 : inSpan (s.a.cfg.poolGran b.pool) (toH x) k := by
    unfold inSpan at hk ⊢
    rw [f2] at hk
    refine ⟨hk.1, Nat.lt_of_lt_of_le hk.2 (Nat.div_le_div_right (by have : hd'.size ≤ (toH x).size := f3; omega))⟩
  have hold := hS.tags i x hx hl b hb e k hk0
  constructor
  · intro hnw
    rcases p2 with p2 | ⟨byte, hb2, _⟩
    · rw [p2 k hk]
      exact hold
    · exact absurd hb2 (hnw byte)
  · intro byte hw
    subst hw
    cases t with
    | write j hdj byte hj2 hl2 =>
      rw [hj2] at h'
      cases h'
      have := write_self hI hMm hj2 hl2 byte b' hb' (by rw [e']; exact f1.symm)
      apply this
      rw [p1]; exact hk

end AsmjitVerif.JitAlloc

namespace AsmjitVerif.JitAlloc
open Spec

/-- the ghost stays in step when its table entries are updated in place -/
theorem sim_update {g g' : Ghost} {s s' : St} {l : TLabel} (hS : Sim g s) (hI : Inv s) (hMm : AMem s.a) (t : Trans s l s')
    (hcfg : g'.cfg = g.cfg) (htab : g'.tab.map toH = s'.tab) (hblocks : g'.blocks = s'.a.blocks.map toGB)
    (hent : ∀ (i : Nat) (x' : GH), g'.tab[i]? = some x' → x'.live = true →
      ∃ x, g.tab[i]? = some x ∧ x.live = true ∧ x'.blk = x.blk ∧
        (((∀ byte, l ≠ some (i, byte)) ∧ x'.tag = x.tag) ∨ ∃ byte, l = some (i, byte) ∧ x'.tag = some byte)) :
    Sim g' s' := by
  refine ⟨by rw [hcfg, hS.cfg, t.cfg], htab, hblocks, ?_⟩
  intro i x' hx' hl' b' hb' e' k hk
  obtain ⟨x, hx, hl, eb, htag⟩ := hent i x' hx' hl'
  have hm' : s'.tab[i]? = some (toH x') := by rw [← htab, List.getElem?_map, hx']; rfl
  obtain ⟨_, _, _, f4⟩ := tags_old hS hI hMm t hx hl hm' hl'
  obtain ⟨q1, q2⟩ := f4 b' hb' (by rw [e', eb]) k hk
  rcases htag with ⟨hnw, et⟩ | ⟨byte, hw, et⟩
  · rw [et]; exact q1 hnw
  · rw [et]; exact q2 byte hw

theorem getElem?_setTab (tab : List GH) (h i : Nat) (f : GH → GH) :
    (setTab tab h f)[i]? = (tab[i]?).map fun x => if i = h then f x else x := by
  simp [setTab, List.getElem?_mapIdx]

theorem setTab_map_kill (tab : List GH) (h : Nat) :
    (setTab tab h fun x => { x with live := false }).map toH = killHandle (tab.map toH) h := by
  apply List.ext_getElem?
  intro i
  rw [List.getElem?_map, getElem?_setTab, getElem?_killHandle, List.getElem?_map]
  cases tab[i]? with
  | none => rfl
  | some x => simp only [Option.map_some]; split <;> rfl

theorem setTab_map_size (tab : List GH) (h n : Nat) :
    (setTab tab h fun x => { x with size := n }).map toH = setHandleSize (tab.map toH) h n := by
  apply List.ext_getElem?
  intro i
  rw [List.getElem?_map, getElem?_setTab, getElem?_setHandleSize, List.getElem?_map]
  cases tab[i]? with
  | none => rfl
  | some x => simp only [Option.map_some]; split <;> rfl

theorem setTab_map_tag (tab : List GH) (h : Nat) (t : Option Nat) :
    (setTab tab h fun x => { x with tag := t }).map toH = tab.map toH := by
  apply List.ext_getElem?
  intro i
  rw [List.getElem?_map, getElem?_setTab, List.getElem?_map]
  cases tab[i]? with
  | none => rfl
  | some x => simp only [Option.map_some]; split <;> rfl

end AsmjitVerif.JitAlloc
