/- The search window and the cached largest free run of a block (C09, "released memory becomes reusable"):
   completeness of the free-range scan and the window invariant `BWin`. -/
import AsmjitVerif.Lemmas.JitAllocBlock
namespace AsmjitVerif.JitAlloc

/-! ### what a failed scan has established -/

/-- what the scan knows after closing the run that ends at `i` -/
structure Closed (used : List Bool) (ss k i : Nat) (r : ScanAcc) : Prop where
  run0 : r.run = 0
  first : match r.first with
    | none => ∀ j, ss ≤ j → j < i → bit used j = true
    | some f => ss ≤ f ∧ f < i ∧ bit used f = false ∧ ∀ j, ss ≤ j → j < f → bit used j = true
  last : ∀ j, ss ≤ j → j < i → bit used j = false → j < r.lastEnd
  lastLe : r.lastEnd ≤ i
  runs : ∀ a m, ss ≤ a → a + m ≤ i → (∀ j, a ≤ j → j < a + m → bit used j = false) → m ≤ r.largest
  small : r.largest < k

/-- loop invariant of `scanGo` at index `i` -/
structure IsAcc (used : List Bool) (ss k i : Nat) (acc : ScanAcc) : Prop where
  runLt : acc.run < k
  runLe : acc.run ≤ i - ss
  free : ∀ j, i - acc.run ≤ j → j < i → bit used j = false
  left : acc.run < i - ss → bit used (i - acc.run - 1) = true
  first : match acc.first with
    | none => ∀ j, ss ≤ j → j < i → bit used j = true
    | some f => ss ≤ f ∧ f < i ∧ bit used f = false ∧ ∀ j, ss ≤ j → j < f → bit used j = true
  last : ∀ j, ss ≤ j → j < i - acc.run → bit used j = false → j < acc.lastEnd
  lastLe : acc.lastEnd ≤ i - acc.run
  runs : ∀ a m, ss ≤ a → a + m ≤ i - acc.run → (∀ j, a ≤ j → j < a + m → bit used j = false) → m ≤ acc.largest
  small : acc.largest < k

theorem IsAcc.close {used : List Bool} {ss k i : Nat} {acc : ScanAcc} (hi : ss ≤ i) (h : IsAcc used ss k i acc) :
    Closed used ss k i (acc.close i) := by
  unfold ScanAcc.close
  by_cases h0 : acc.run = 0
  · simp only [h0, if_true]
    refine ⟨h0, h.first, ?_, ?_, ?_, h.small⟩
    · intro j a b c; exact h.last j a (by omega) c
    · have := h.lastLe; omega
    · intro a m x y z; exact h.runs a m x (by omega) z
  · simp only [h0, if_false]
    refine ⟨rfl, h.first, ?_, Nat.le_refl _, ?_, ?_⟩
    · intro j _ b _; exact b
    · intro a m x y z
      by_cases c : a + m ≤ i - acc.run
      · have := h.runs a m x c z; simp only; omega
      · simp only
        -- the run [a, a+m) reaches into the current run; it cannot start before it
        have hle := h.runLe
        by_cases c2 : i - acc.run ≤ a
        · omega
        · exfalso
          have hl := h.left (by omega)
          have := z (i - acc.run - 1) (by omega) (by omega)
          rw [hl] at this; simp at this
    · have := h.small; have := h.runLt; simp only; omega

theorem Closed.next {used : List Bool} {ss k i : Nat} {r : ScanAcc} (hk : 0 < k) (h : Closed used ss k i r) (hu : bit used i = true) :
    IsAcc used ss k (i + 1) r := by
  have r0 := h.run0
  refine ⟨by omega, by omega, by intro j a b; omega, ?_, ?_, ?_, ?_, ?_, h.small⟩
  · intro _; simp [r0, hu]
  · have hf := h.first
    split
    · rename_i hn
      rw [hn] at hf
      intro j a b
      by_cases c : j < i
      · exact hf j a c
      · have : j = i := by omega
        rw [this]; exact hu
    · rename_i f hs
      rw [hs] at hf
      exact ⟨hf.1, by omega, hf.2.2.1, hf.2.2.2⟩
  · intro j a b c
    rw [r0] at b
    by_cases c2 : j < i
    · exact h.last j a c2 c
    · have : j = i := by omega
      rw [this, hu] at c; simp at c
  · have := h.lastLe; omega
  · intro a m x y z
    rw [r0] at y
    by_cases c : a + m ≤ i
    · exact h.runs a m x c z
    · by_cases m0 : m = 0
      · omega
      · exfalso
        have := z i (by omega) (by omega)
        rw [hu] at this; simp at this

theorem scanGo_inr (used : List Bool) (ss k : Nat) (hk : 0 < k) :
    ∀ (l : List Bool) (i : Nat) (acc res : ScanAcc),
      (∀ j, j < l.length → bit used (i + j) = l.getD j false) → ss ≤ i → IsAcc used ss k i acc →
      scanGo k l i acc = .inr res → Closed used ss k (i + l.length) res := by
  intro l
  induction l with
  | nil =>
    intro i acc res _ hi hacc h
    simp [scanGo] at h
    subst h
    simpa using hacc.close hi
  | cons u rest ih =>
    intro i acc res hl hi hacc h
    have h0 := hl 0 (by simp)
    simp at h0
    have hl' : ∀ j, j < rest.length → bit used (i + 1 + j) = rest.getD j false := by
      intro j hj
      have := hl (j + 1) (by simp; omega)
      simp at this
      have e : i + 1 + j = i + (j + 1) := by omega
      rw [e, this]; simp [List.getD]
    have elen : i + (u :: rest).length = i + 1 + rest.length := by simp; omega
    rw [elen]
    unfold scanGo at h
    split at h
    · rename_i hu
      exact ih (i + 1) _ res hl' (by omega) ((hacc.close hi).next hk (by rw [h0, hu])) h
    · rename_i hu
      simp at hu
      simp only at h
      split at h
      · simp at h
      · rename_i hn
        refine ih (i + 1) _ res hl' (by omega) ?_ h
        have hfree : bit used i = false := by rw [h0, hu]
        refine ⟨by simp; omega, by have := hacc.runLe; simp; omega, ?_, ?_, ?_, ?_, ?_, ?_, hacc.small⟩
        · intro j a b
          simp at a
          by_cases c : j < i
          · exact hacc.free j (by omega) c
          · have : j = i := by omega
            rw [this]; exact hfree
        · intro c
          simp at c ⊢
          have := hacc.left (by omega)
          exact this
        · have hf := hacc.first
          cases hfi : acc.first with
          | none =>
            rw [hfi] at hf
            simp only [hfi, Option.isSome_none, Bool.false_eq_true, if_false]
            exact ⟨hi, by omega, hfree, fun j a b => hf j a b⟩
          | some f =>
            rw [hfi] at hf
            simp only [hfi, Option.isSome_some, if_true]
            exact ⟨hf.1, by omega, hf.2.2.1, hf.2.2.2⟩
        · intro j a b c
          simp at b
          exact hacc.last j a (by omega) c
        · have := hacc.lastLe; simp; omega
        · intro a m x y z
          simp at y
          exact hacc.runs a m x (by omega) z


theorem scan_inr (used : List Bool) (ss se k : Nat) (acc : ScanAcc) (hk : 0 < k) (h : scan used ss se k = .inr acc) :
    Closed used ss k (ss + ((used.drop ss).take (se - ss)).length) acc := by
  unfold scan at h
  refine scanGo_inr used ss k hk _ ss {} acc ?_ (Nat.le_refl _) ?_ h
  · intro j hj
    simp at hj
    have hj1 : j < se - ss := by omega
    simp [bit, List.getD, hj1]
  · refine ⟨by simpa using hk, by simp, by intro j a b; simp at a; omega, by simp, by simp; intro j a b; omega,
      by intro j a b; simp at b; omega, by simp, ?_, by simpa using hk⟩
    intro a m x y _
    simp at y ⊢
    omega

theorem window_len (used : List Bool) (ss se : Nat) (h1 : ss ≤ se) (h2 : se ≤ used.length) :
    ss + ((used.drop ss).take (se - ss)).length = se := by
  simp; omega


/-! ### the window invariant of a block -/


/-- the search window / cache part of the block invariant -/
structure BWin (b : Block) : Prop where
  /-- every free granule lies inside `[search_start, search_end)` -/
  win : ∀ i, i < b.areaSize → bit b.used i = false → b.searchStart ≤ i ∧ i < b.searchEnd
  seLe : b.searchEnd ≤ b.areaSize
  incrEnd : b.incremental = true → b.searchEnd = b.areaSize
  /-- incremental mode: everything before `search_start` is used -/
  incrFull : b.incremental = true → ∀ i, i < b.searchStart → bit b.used i = true
  /-- a clean, non-incremental block caches an upper bound of every free run -/
  cache : b.dirty = false → b.incremental = false →
    ∀ a m, a + m ≤ b.areaSize → (∀ j, a ≤ j → j < a + m → bit b.used j = false) → m ≤ b.largest

/-- `b` has `k` consecutive free granules -/
def HasRun (b : Block) (k : Nat) : Prop := ∃ a, a + k ≤ b.areaSize ∧ ∀ j, a ≤ j → j < a + k → bit b.used j = false

theorem count_free_run (l : List Bool) (a k : Nat) (h1 : a + k ≤ l.length) (h2 : ∀ j, a ≤ j → j < a + k → bit l j = false) :
    l.count true + k ≤ l.length := by
  have := count_setRange_true l a (a + k) (by omega) h1 h2
  have h3 := List.count_le_length (a := true) (l := setRange l a (a + k) true)
  rw [length_setRange] at h3
  omega

theorem all_used_of_count (l : List Bool) (h : l.count true = l.length) : ∀ i, i < l.length → bit l i = true := by
  intro i hi
  have := (List.count_eq_length (a := true) (l := l)).mp h
  rw [bit_eq_getElem l i hi]
  exact (this l[i] (List.getElem_mem hi)).symm

theorem BWin.clear (b : Block) (h0 : 0 < b.areaSize) : BWin b.clear := by
  refine ⟨?_, by simp [Block.clear], by intro _; rfl, ?_, by intro _ h; simp [Block.clear] at h⟩
  · intro i hi hf
    simp only [Block.clear, bit_replicate_set] at hi hf ⊢
    refine ⟨?_, hi⟩
    unfold Block.padN
    cases hp : b.pad
    · simp
    · simp
      simp [hp, h0] at hf
      omega
  · intro _ i hi
    simp only [Block.clear, bit_replicate_set] at hi ⊢
    unfold Block.padN at hi
    cases hp : b.pad
    · simp [hp] at hi
    · simp [hp] at hi; simp [hi, h0]





/-- a block that does not take the request keeps the window invariant (the cache refresh is sound) and really has no room -/
theorem BWin.tryAlloc_none {b b' : Block} {S} {k : Nat} (hI : BInv b S) (hC : BCnt b) (hW : BWin b) (hk : 0 < k)
    (ht : b.tryAlloc k = (b', none)) : BWin b' ∧ b'.used = b.used ∧ ¬ HasRun b k := by
  have hlen := hI.lenU
  unfold Block.tryAlloc at ht
  split at ht
  · simp at ht
  · rename_i hfast
    split at ht
    · rename_i havail
      have hninc : b.incremental = false := by
        by_cases hi : b.incremental = true
        · exfalso
          obtain ⟨h1, h2, h3, h4⟩ := hI.incr hi
          simp [hi] at hfast
          omega
        · simpa using hi
      split at ht
      · rename_i hdl
        split at ht
        · simp at ht
        · rename_i acc hscan
          have hcl := scan_inr b.used b.searchStart b.searchEnd k acc hk hscan
          split at ht
          · -- cache refreshed
            rename_i f hf
            simp at ht
            subst ht
            have hfst := hcl.first
            rw [hf] at hfst
            -- the window is not empty
            have hwin : b.searchStart < b.searchEnd := by
              have := hfst.2.1
              simp at this
              omega
            have he := window_len b.used b.searchStart b.searchEnd (Nat.le_of_lt hwin) (by rw [hlen]; exact hW.seLe)
            rw [he] at hcl hfst
            have inwin : ∀ a m, 0 < m → a + m ≤ b.areaSize → (∀ j, a ≤ j → j < a + m → bit b.used j = false) →
                b.searchStart ≤ a ∧ a + m ≤ b.searchEnd := by
              intro a m hm h1 h2
              have w1 := hW.win a (by omega) (h2 a (by omega) (by omega))
              have w2 := hW.win (a + m - 1) (by omega) (h2 (a + m - 1) (by omega) (by omega))
              omega
            refine ⟨⟨?_, ?_, ?_, ?_, ?_⟩, rfl, ?_⟩
            · intro i hi hfr
              obtain ⟨w1, w2⟩ := hW.win i hi hfr
              refine ⟨?_, hcl.last i w1 w2 hfr⟩
              by_cases c : f ≤ i
              · exact c
              · have := hfst.2.2.2 i w1 (by omega)
                rw [hfr] at this; simp at this
            · have := hcl.lastLe; have := hW.seLe; show acc.lastEnd ≤ b.areaSize; omega
            · intro hi; simp [hninc] at hi
            · intro hi; simp [hninc] at hi
            · intro _ _ a m h1 h2
              by_cases hm : m = 0
              · omega
              · obtain ⟨x, y⟩ := inwin a m (by omega) h1 h2
                exact hcl.runs a m x y h2
            · rintro ⟨a, h1, h2⟩
              obtain ⟨x, y⟩ := inwin a k hk h1 h2
              have := hcl.runs a k x y h2
              have := hcl.small
              omega
          · rename_i hf
            simp at ht
            subst ht
            refine ⟨hW, rfl, ?_⟩
            rintro ⟨a, h1, h2⟩
            have hfr := h2 a (by omega) (by omega)
            obtain ⟨w1, w2⟩ := hW.win a (by omega) hfr
            have he := window_len b.used b.searchStart b.searchEnd (by omega) (by rw [hlen]; exact hW.seLe)
            have hfst := hcl.first
            rw [hf, he] at hfst
            have := hfst a w1 w2
            rw [hfr] at this; simp at this
      · rename_i hdl
        simp at ht
        subst ht
        refine ⟨hW, rfl, ?_⟩
        rintro ⟨a, h1, h2⟩
        simp at hdl
        have := hW.cache hdl.1 hninc a k h1 h2
        omega
    · rename_i havail
      simp at ht
      subst ht
      refine ⟨hW, rfl, ?_⟩
      rintro ⟨a, h1, h2⟩
      have := count_free_run b.used a k (by rw [hlen]; exact h1) h2
      have := hC.cnt
      omega





/-- `mark_allocated_area` on a free range keeps the window invariant, given what the caller established about the mode -/
theorem BWin.markAllocated {b : Block} {idx k : Nat} (hW : BWin b) (hlen : b.used.length = b.areaSize)
    (hk : 0 < k) (hend : idx + k ≤ b.areaSize) (hcnt : b.areaUsed = b.used.count true)
    (hfree : ∀ j, idx ≤ j → j < idx + k → bit b.used j = false)
    (hmode : b.incremental = true → b.searchStart = idx ∧ (b.areaSize - (b.areaUsed + k) ≠ 0 → idx + k < b.areaSize)) :
    BWin (b.markAllocated idx (idx + k)) := by
  have e1 : idx + k - idx = k := by omega
  have hbit : ∀ i, bit (setRange b.used idx (idx + k) true) i = if idx ≤ i ∧ i < idx + k ∧ i < b.areaSize then true else bit b.used i := by
    intro i; rw [bit_setRange, hlen]
  unfold Block.markAllocated
  simp only [e1]
  by_cases hfull : b.areaSize - (b.areaUsed + k) = 0
  · simp only [hfull, if_true]
    -- the block is full: no free granule is left
    have hall : ∀ i, i < b.areaSize → bit (setRange b.used idx (idx + k) true) i = true := by
      have hc := count_setRange_true b.used idx (idx + k) (by omega) (by rw [hlen]; exact hend) hfree
      have hle := List.count_le_length (a := true) (l := setRange b.used idx (idx + k) true)
      rw [length_setRange, hlen] at hle
      have : (setRange b.used idx (idx + k) true).count true = (setRange b.used idx (idx + k) true).length := by
        rw [length_setRange, hlen]; omega
      intro i hi
      exact all_used_of_count _ this i (by rw [length_setRange, hlen]; exact hi)
    refine ⟨?_, by simp, by intro h; simp at h, by intro h; simp at h, ?_⟩
    · intro i hi hf; simp only at hi hf; rw [hall i hi] at hf; simp at hf
    · intro _ _ a m h1 h2
      by_cases hm : m = 0
      · simp [hm]
      · exfalso
        have := h2 a (by omega) (by omega)
        simp only at h1 this
        rw [hall a (by omega)] at this; simp at this
  · simp only [hfull, if_false]
    refine ⟨?_, ?_, ?_, ?_, by intro h; simp at h⟩
    · intro i hi hf
      simp only at hi hf ⊢
      rw [hbit] at hf
      by_cases c : idx ≤ i ∧ i < idx + k ∧ i < b.areaSize
      · simp [c] at hf
      · simp only [c, if_false] at hf
        obtain ⟨w1, w2⟩ := hW.win i hi hf
        constructor
        · split <;> omega
        · split <;> omega
    · simp only; have := hW.seLe; split <;> omega
    · intro hi
      simp only at hi ⊢
      obtain ⟨m1, m2⟩ := hmode hi
      have := hW.incrEnd hi
      have := m2 hfull
      split <;> omega
    · intro hi i hlt
      simp only at hi hlt ⊢
      obtain ⟨m1, m2⟩ := hmode hi
      rw [hbit]
      simp only [m1, if_true] at hlt
      by_cases c : idx ≤ i ∧ i < idx + k ∧ i < b.areaSize
      · simp [c]
      · simp only [c, if_false]
        have := m2 hfull
        exact hW.incrFull hi i (by omega)

theorem BWin.tryAlloc_some {b b' : Block} {S} {k idx : Nat} (hI : BInv b S) (hC : BCnt b) (hW : BWin b) (hk : 0 < k)
    (ht : b.tryAlloc k = (b', some idx)) : BWin (b'.commit idx k) := by
  unfold Block.tryAlloc at ht
  split at ht
  · rename_i hfast
    simp at hfast ht
    obtain ⟨hb, hidx⟩ := ht
    subst hb hidx
    obtain ⟨h1, h2, h3, h4⟩ := hI.incr hfast.1
    unfold Block.commit
    exact BWin.markAllocated (b := { b with largest := b.largest - k, empty := false })
      ⟨hW.win, hW.seLe, hW.incrEnd, hW.incrFull, by intro _ hh; simp [hfast.1] at hh⟩ hI.lenU hk (by show b.searchStart + k ≤ b.areaSize; omega)
      hC.cnt (fun j a _ => h2 j a) (by
        intro _
        refine ⟨rfl, ?_⟩
        intro hne
        show b.searchStart + k < b.areaSize
        simp only at hne
        omega)
  · rename_i hfast
    split at ht
    · rename_i havail
      split at ht
      · split at ht
        · rename_i idx' hscan
          simp at ht
          obtain ⟨hb, hidx⟩ := ht
          subst hb hidx
          have hinc : b.incremental = false := by
            by_cases hi : b.incremental = true
            · exfalso
              obtain ⟨h1, h2, h3, h4⟩ := hI.incr hi
              simp [hi] at hfast
              omega
            · simpa using hi
          obtain ⟨s1, s2, s3, s4⟩ := scan_found b.used b.searchStart b.searchEnd k idx' hk hscan
          unfold Block.commit
          exact BWin.markAllocated (b := { b with empty := false }) ⟨hW.win, hW.seLe, hW.incrEnd, hW.incrFull, hW.cache⟩ hI.lenU hk
            (by rw [← hI.lenU]; exact s3) hC.cnt s4 (by intro hi; simp [hinc] at hi)
        · split at ht <;> simp at ht
      · simp at ht
    · simp at ht





theorem BWin.newBlock_commit (b : Block) (k : Nat) (hk : 0 < k) (hfit : b.padN + k ≤ b.areaSize) :
    BWin (({ b.clear with searchStart := b.clear.searchStart + k, largest := b.clear.largest - k }).markAllocated
      b.clear.padN (b.clear.padN + k)) := by
  have h0 : 0 < b.areaSize := by omega
  have hc := BWin.clear b h0
  have hI := BInv.clear b h0
  have hCn := BCnt.clear b h0
  have hinc := hI.incr (by simp [Block.clear])
  have e1 : b.padN + k - b.padN = k := by omega
  have hpn : b.clear.padN = b.padN := rfl
  have hss : b.clear.searchStart = b.padN := rfl
  have hau : b.clear.areaUsed = b.padN := rfl
  have hse : b.clear.searchEnd = b.areaSize := rfl
  have hbit : ∀ i, bit (setRange b.clear.used b.padN (b.padN + k) true) i =
      if b.padN ≤ i ∧ i < b.padN + k ∧ i < b.areaSize then true else bit b.clear.used i := by
    intro i; rw [bit_setRange, hI.lenU]; rfl
  unfold Block.markAllocated
  simp only [hpn, e1]
  by_cases hfull : b.clear.areaSize - (b.clear.areaUsed + k) = 0
  · simp only [hfull, if_true]
    have hall : ∀ i, i < b.areaSize → bit (setRange b.clear.used b.padN (b.padN + k) true) i = true := by
      intro i hi
      rw [hbit]
      have : b.padN + k = b.areaSize := by
        have : b.clear.areaSize = b.areaSize := rfl
        omega
      by_cases c : b.padN ≤ i
      · simp [c]; omega
      · have : ¬(b.padN ≤ i ∧ i < b.padN + k ∧ i < b.areaSize) := by omega
        simp only [this, if_false]
        exact hc.incrFull (by simp [Block.clear]) i (by rw [hss]; omega)
    refine ⟨?_, by simp, by intro h; simp at h, by intro h; simp at h, ?_⟩
    · intro i hi hf; simp only at hi hf; rw [hall i hi] at hf; simp at hf
    · intro _ _ a m h1 h2
      by_cases hm : m = 0
      · simp [hm]
      · exfalso
        have := h2 a (by omega) (by omega)
        simp only at h1 this
        rw [hall a (by omega)] at this; simp at this
  · simp only [hfull, if_false]
    have hne : ¬(b.clear.searchStart + k = b.padN) := by rw [hss]; omega
    have hlt : b.padN + k < b.areaSize := by
      have : b.clear.areaSize = b.areaSize := rfl
      omega
    have hne2 : ¬(b.clear.searchEnd = b.padN + k) := by rw [hse]; omega
    simp only [hne, hne2, if_false]
    refine ⟨?_, by show b.clear.searchEnd ≤ b.areaSize; rw [hse]; exact Nat.le_refl _, by intro _; exact hse, ?_, by intro h; simp at h⟩
    · intro i hi hf
      simp only at hi hf ⊢
      rw [hbit] at hf
      by_cases c : b.padN ≤ i ∧ i < b.padN + k ∧ i < b.areaSize
      · simp [c] at hf
      · simp only [c, if_false] at hf
        obtain ⟨w1, w2⟩ := hc.win i hi hf
        rw [hss] at w1 ⊢
        rw [hse] at w2 ⊢
        exact ⟨by omega, w2⟩
    · intro _ i hlt2
      simp only at hlt2 ⊢
      rw [hss] at hlt2
      rw [hbit]
      by_cases c : b.padN ≤ i ∧ i < b.padN + k ∧ i < b.areaSize
      · simp [c]
      · simp only [c, if_false]
        exact hc.incrFull (by simp [Block.clear]) i (by rw [hss]; omega)





theorem BWin.markReleased {b : Block} {S} {s0 n0 : Nat} (hI : BInv b S) (hW : BWin b) (hS : S s0 n0) :
    BWin (b.markReleased s0 (s0 + n0)) := by
  obtain ⟨i1, i2, i3⟩ := hI.inside s0 n0 hS
  have e1 : s0 + n0 - s0 = n0 := by omega
  have hbit : ∀ i, bit (setRange b.used s0 (s0 + n0) false) i = if s0 ≤ i ∧ i < s0 + n0 ∧ i < b.areaSize then false else bit b.used i := by
    intro i; rw [bit_setRange, hI.lenU]
  unfold Block.markReleased
  simp only [e1]
  by_cases hA : (b.incremental && b.searchStart == s0 + n0) = true
  · simp only [hA, if_true]
    simp at hA
    have hse := hW.incrEnd hA.1
    have hss := hA.2
    refine ⟨?_, hW.seLe, fun _ => hse, ?_, by intro _ h; simp [hA.1] at h⟩
    · intro i hi hf
      (try simp only at hi hf ⊢)
      rw [hbit] at hf
      by_cases c : s0 ≤ i ∧ i < s0 + n0 ∧ i < b.areaSize
      · omega
      · simp only [c, if_false] at hf
        obtain ⟨w1, w2⟩ := hW.win i hi hf
        omega
    · intro _ i hlt
      (try simp only at hlt ⊢)
      rw [hbit]
      have : ¬(s0 ≤ i ∧ i < s0 + n0 ∧ i < b.areaSize) := by omega
      simp only [this, if_false]
      exact hW.incrFull hA.1 i (by omega)
  · have hA' : (b.incremental && b.searchStart == s0 + n0) = false := by simpa using hA
    simp only [hA', Bool.false_eq_true, if_false]
    by_cases hB : b.areaUsed - n0 = b.padN
    · rw [if_pos hB]
      have hpadbit : b.pad = true → bit b.used 0 = true := fun hp => (hI.used 0 hI.area).mpr (Or.inl ⟨hp, rfl⟩)
      have lowfree : ∀ i, i < b.areaSize → (if s0 ≤ i ∧ i < s0 + n0 ∧ i < b.areaSize then false else bit b.used i) = false → b.padN ≤ i := by
        intro i hi hf
        by_cases hp : b.pad = true
        · rw [padN_pos b hp] at i1 ⊢
          by_cases c0 : i = 0
          · subst c0
            have : ¬(s0 ≤ 0 ∧ 0 < s0 + n0 ∧ 0 < b.areaSize) := by omega
            simp only [this, if_false] at hf
            rw [hpadbit hp] at hf; simp at hf
          · omega
        · simp at hp; rw [padN_zero b hp]; omega
      refine ⟨?_, Nat.le_refl _, by intro h; simp at h, by intro h; simp at h, ?_⟩
      · intro i hi hf
        (try simp only at hi hf ⊢)
        rw [hbit] at hf
        exact ⟨lowfree i hi hf, hi⟩
      · intro _ _ a m h1 h2
        (try simp only at h1 h2 ⊢)
        by_cases hm : m = 0
        · omega
        · have := h2 a (by omega) (by omega)
          rw [hbit] at this
          have := lowfree a (by omega) this
          omega
    · rw [if_neg hB]
      refine ⟨?_, ?_, by intro h; simp at h, by intro h; simp at h, by intro h; simp at h⟩
      · intro i hi hf
        (try simp only at hi hf ⊢)
        rw [hbit] at hf
        by_cases c : s0 ≤ i ∧ i < s0 + n0 ∧ i < b.areaSize
        · omega
        · simp only [c, if_false] at hf
          obtain ⟨w1, w2⟩ := hW.win i hi hf
          omega
      · simp only; have := hW.seLe; omega

theorem BWin.markShrunk {b : Block} {S} {s0 n0 m : Nat} (hI : BInv b S) (hW : BWin b) (hS : S s0 n0) (hm : 0 < m) (hmn : m < n0) :
    BWin (b.markShrunk (s0 + m) (s0 + n0)) := by
  obtain ⟨i1, i2, i3⟩ := hI.inside s0 n0 hS
  have e1 : s0 + n0 - (s0 + m) = n0 - m := by omega
  have hbit : ∀ i, bit (setRange b.used (s0 + m) (s0 + n0) false) i =
      if s0 + m ≤ i ∧ i < s0 + n0 ∧ i < b.areaSize then false else bit b.used i := by
    intro i; rw [bit_setRange, hI.lenU]
  unfold Block.markShrunk
  simp only [e1]
  by_cases hA : (b.incremental && b.searchStart == s0 + n0) = true
  · simp only [hA, if_true]
    simp at hA
    have hse := hW.incrEnd hA.1
    have hss := hA.2
    refine ⟨?_, hW.seLe, fun _ => hse, ?_, by intro _ h; simp [hA.1] at h⟩
    · intro i hi hf
      (try simp only at hi hf ⊢)
      rw [hbit] at hf
      by_cases c : s0 + m ≤ i ∧ i < s0 + n0 ∧ i < b.areaSize
      · omega
      · simp only [c, if_false] at hf
        obtain ⟨w1, w2⟩ := hW.win i hi hf
        omega
    · intro _ i hlt
      (try simp only at hlt ⊢)
      rw [hbit]
      have : ¬(s0 + m ≤ i ∧ i < s0 + n0 ∧ i < b.areaSize) := by omega
      simp only [this, if_false]
      exact hW.incrFull hA.1 i (by omega)
  · have hA' : (b.incremental && b.searchStart == s0 + n0) = false := by simpa using hA
    simp only [hA', Bool.false_eq_true, if_false]
    refine ⟨?_, ?_, by intro h; simp at h, by intro h; simp at h, by intro h; simp at h⟩
    · intro i hi hf
      (try simp only at hi hf ⊢)
      rw [hbit] at hf
      by_cases c : s0 + m ≤ i ∧ i < s0 + n0 ∧ i < b.areaSize
      · omega
      · simp only [c, if_false] at hf
        obtain ⟨w1, w2⟩ := hW.win i hi hf
        omega
    · simp only; have := hW.seLe; omega

theorem BWin.withMem {b : Block} (h : BWin b) (m : List Nat) : BWin { b with mem := m } :=
  ⟨h.win, h.seLe, h.incrEnd, h.incrFull, h.cache⟩

/-- **completeness of a block**: if the block has `k` consecutive free granules, `tryAlloc` takes the request -/
theorem tryAlloc_complete {b : Block} {S} {k : Nat} (hI : BInv b S) (hC : BCnt b) (hW : BWin b) (hk : 0 < k) (hr : HasRun b k) :
    ∃ b' idx, b.tryAlloc k = (b', some idx) := by
  rcases h : b.tryAlloc k with ⟨b', _ | idx⟩
  · exact absurd hr (BWin.tryAlloc_none hI hC hW hk h).2.2
  · exact ⟨b', idx, rfl⟩



end AsmjitVerif.JitAlloc
