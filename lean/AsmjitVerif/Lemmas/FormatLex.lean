/- C20 helper lemmas: cutting a text into delimiter/token pieces (`Spec.lexPieces`) inverts gluing the pieces together. -/
import AsmjitVerif.Spec.FormatText

namespace AsmjitVerif.Lemmas.FormatLex
open AsmjitVerif.Format AsmjitVerif.FormatText

/-- `rest` is empty or begins with a character on which `p` fails -/
def StopsAt (p : Char → Bool) (rest : Str) : Prop := rest = [] ∨ ∃ d r, rest = d :: r ∧ p d = false

theorem takeWhile_append_stop (p : Char → Bool) (t rest : Str) (ht : ∀ c ∈ t, p c = true) (hr : StopsAt p rest) :
    (t ++ rest).takeWhile p = t ∧ (t ++ rest).dropWhile p = rest := by
  induction t with
  | nil =>
    rcases hr with h | ⟨d, r, h, hd⟩
    · subst h; simp
    · subst h; simp [List.takeWhile, List.dropWhile, hd]
  | cons c t ih =>
    have hc : p c = true := ht c (List.mem_cons_self ..)
    have ih' := ih (fun x hx => ht x (List.mem_cons_of_mem _ hx))
    simp [List.takeWhile, List.dropWhile, hc, ih'.1, ih'.2]

/-- gluing pieces back together -/
def flattenPieces : List Piece → Str
  | [] => []
  | (some d, t) :: r => d :: (t ++ flattenPieces r)
  | (none, t) :: r => t ++ flattenPieces r

/-- every piece starts with a delimiter and its token is delimiter free -/
def TailOK (isD : Char → Bool) : List Piece → Prop
  | [] => True
  | (some d, t) :: r => isD d = true ∧ (∀ c ∈ t, isD c = false) ∧ TailOK isD r
  | (none, _) :: _ => False

/-- … except that the first piece may be a non-empty token without a leading delimiter -/
def PiecesOK (isD : Char → Bool) : List Piece → Prop
  | (none, t) :: r => t ≠ [] ∧ (∀ c ∈ t, isD c = false) ∧ TailOK isD r
  | ps => TailOK isD ps

theorem flatten_tail_stops (isD : Char → Bool) : ∀ ps, TailOK isD ps → StopsAt (fun x => !isD x) (flattenPieces ps)
  | [], _ => Or.inl rfl
  | (some d, t) :: r, h => Or.inr ⟨d, t ++ flattenPieces r, rfl, by simp [h.1]⟩
  | (none, _) :: _, h => absurd h (by simp [TailOK])

theorem lex_tail (isD : Char → Bool) : ∀ ps, TailOK isD ps → ∀ fuel, (flattenPieces ps).length ≤ fuel →
    lexPieces isD fuel (flattenPieces ps) = ps
  | [], _, fuel, _ => by cases fuel <;> simp [flattenPieces, lexPieces]
  | (none, _) :: _, h, _, _ => absurd h (by simp [TailOK])
  | (some d, t) :: r, h, fuel, hf => by
    obtain ⟨hd, ht, hr⟩ := h
    cases fuel with
    | zero => simp [flattenPieces] at hf
    | succ f =>
      have hstop := flatten_tail_stops isD r hr
      have htw := takeWhile_append_stop (fun x => !isD x) t (flattenPieces r) (by intro c hc; simp [ht c hc]) hstop
      have hlen : (flattenPieces r).length ≤ f := by simp [flattenPieces] at hf; omega
      simp only [flattenPieces, lexPieces, hd, if_true]
      rw [htw.1, htw.2, lex_tail isD r hr f hlen]

theorem lex_pieces (isD : Char → Bool) (ps : List Piece) (h : PiecesOK isD ps) :
    lexPieces isD (flattenPieces ps).length (flattenPieces ps) = ps := by
  match ps, h with
  | [], _ => simp [flattenPieces, lexPieces]
  | (some d, t) :: r, h => exact lex_tail isD _ h _ (Nat.le_refl _)
  | (none, t) :: r, h =>
    obtain ⟨hne, ht, hr⟩ := h
    cases t with
    | nil => exact absurd rfl hne
    | cons c t' =>
      have hc : isD c = false := ht c (List.mem_cons_self ..)
      have hstop := flatten_tail_stops isD r hr
      have htw := takeWhile_append_stop (fun x => !isD x) (c :: t') (flattenPieces r) (by intro x hx; simp [ht x hx]) hstop
      have hlen : (flattenPieces r).length ≤ (t' ++ flattenPieces r).length := by simp
      simp only [flattenPieces, List.cons_append, List.length_cons, lexPieces, hc]
      rw [show c :: (t' ++ flattenPieces r) = (c :: t') ++ flattenPieces r from rfl, htw.1, htw.2,
        lex_tail isD r hr _ hlen]
      simp

/-- a character that is in no token and is no delimiter is not in the glued text -/
theorem not_mem_flatten (x : Char) : ∀ ps : List Piece, (∀ p ∈ ps, p.1 ≠ some x ∧ x ∉ p.2) → x ∉ flattenPieces ps
  | [], _ => by simp [flattenPieces]
  | (some d, t) :: r, h => by
    have h0 := h (some d, t) (List.mem_cons_self ..)
    have hr := not_mem_flatten x r (fun p hp => h p (List.mem_cons_of_mem _ hp))
    simp only [flattenPieces, List.mem_cons, List.mem_append, not_or]
    refine ⟨fun e => h0.1 (by rw [e]), h0.2, hr⟩
  | (none, t) :: r, h => by
    have h0 := h (none, t) (List.mem_cons_self ..)
    have hr := not_mem_flatten x r (fun p hp => h p (List.mem_cons_of_mem _ hp))
    simp only [flattenPieces, List.mem_append, not_or]
    exact ⟨h0.2, hr⟩

theorem stripPrefix_append (p x : Str) : stripPrefix? p (p ++ x) = some x := by
  unfold stripPrefix?
  have : p.isPrefixOf (p ++ x) = true := by
    induction p with
    | nil => simp
    | cons c p ih => simp [List.isPrefixOf, ih]
  simp [this]

/-- a prefix that contains a character the text does not contain is not a prefix of it -/
theorem stripPrefix_none_of_not_mem (p x : Str) (c : Char) (hc : c ∈ p) (hx : c ∉ x) : stripPrefix? p x = none := by
  unfold stripPrefix?
  have : p.isPrefixOf x = false := by
    cases hb : p.isPrefixOf x with
    | false => rfl
    | true =>
      have hp := List.isPrefixOf_iff_prefix.mp hb
      obtain ⟨t, rfl⟩ := hp
      exact absurd (List.mem_append_left t hc) hx
  simp [this]

theorem dropLast_concat (c : Char) (x : Str) : dropLast? c (x ++ [c]) = some x := by
  simp [dropLast?]

end AsmjitVerif.Lemmas.FormatLex
