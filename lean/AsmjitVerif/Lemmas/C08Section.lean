/- C08: refinement of BaseBuilder::section (cached `_next_section` links, update_section_links). -/
import AsmjitVerif.Lemmas.C08Refine2

namespace AsmjitVerif.Builder
open Spec

theorem idxOf_append_self (l : List Nat) (n : Nat) (h : n ∉ l) : (l ++ [n]).idxOf n = l.length := by
  induction l with
  | nil => simp [idxOf_cons_self]
  | cons x xs ih =>
    have hx : x ≠ n := fun e => h (by simp [e])
    have h' : n ∉ xs := fun e => h (List.mem_cons_of_mem _ e)
    simp [idxOf_cons_ne _ hx, ih h']

theorem idxOf_getLast (l : List Nat) (x : Nat) (hd : l.Nodup) (h : l.getLast? = some x) : l.idxOf x + 1 = l.length := by
  obtain ⟨ys, rfl⟩ := List.getLast?_eq_some_iff.mp h
  have hx : x ∉ ys := by
    intro hmem
    have := List.nodup_append.mp hd
    exact this.2.2 x hmem x (by simp) rfl
  simp [idxOf_append_self _ _ hx]

/-- successor among the filtered items = first matching item behind -/
theorem succIn_filter (p : Nat → Bool) (l : List Nat) (n : Nat) (hn : n ∈ l) (hp : p n = true) :
    succIn (l.filter p) n = (l.drop (l.idxOf n + 1)).find? p := by
  induction l with
  | nil => simp at hn
  | cons y ys ih =>
    by_cases hy : y = n
    · subst hy
      simp only [succIn, List.filter_cons, hp, if_true, idxOf_cons_self, List.getElem?_cons_succ, Nat.zero_add,
        List.drop_succ_cons, List.drop_zero]
      rw [← List.head?_eq_getElem?, List.head?_filter]
    · have hn' := mem_of_ne_head hn hy
      rw [idxOf_cons_ne _ hy]
      simp only [List.drop_succ_cons]
      rw [← ih hn']
      by_cases hpy : p y = true
      · simp only [succIn, List.filter_cons, hpy, if_true, idxOf_cons_ne _ hy, List.getElem?_cons_succ]
      · have : p y = false := by simpa using hpy
        simp only [succIn, List.filter_cons, this, Bool.false_eq_true, if_false]

/-- what `update_section_links` writes is the successor relation of the linked section nodes -/
theorem lookup_linkPairs (F : List Nat) (old : List (Nat × Option Nat)) (s : Nat) (hd : F.Nodup) (hs : s ∈ F) :
    lookupNext (linkPairs F ++ old) s = succIn F s := by
  induction F with
  | nil => simp at hs
  | cons a rest ih =>
    cases rest with
    | nil =>
      have : s = a := by simpa using hs
      subst this
      simp [linkPairs, lookupNext, succIn, idxOf_cons_self]
    | cons b rest' =>
      by_cases ha : a = s
      · subst ha
        simp [linkPairs, lookupNext, succIn, idxOf_cons_self]
      · have hs' := mem_of_ne_head hs ha
        have hd' : (b :: rest').Nodup := (List.nodup_cons.mp hd).2
        have := ih hd' hs'
        have hne : (a == s) = false := by simpa using ha
        simp only [linkPairs, List.cons_append, lookupNext, List.find?_cons, hne] at this ⊢
        rw [this]
        simp only [succIn, idxOf_cons_ne _ ha, List.getElem?_cons_succ]

theorem refine_section (m : MList) (n : Nat) (h : Inv m) :
    Inv (m.apply (.section n)) ∧ (m.apply (.section n)).abs = m.abs.apply (.section n) := by
  by_cases hsec : m.isSec n = true
  case neg =>
    have hs0 : m.isSec n = false := by simpa using hsec
    have e1 : m.apply (.section n) = m := by
      simp only [MList.apply]; rw [if_pos (by simp [hs0])]
    have e2 : m.abs.apply (.section n) = m.abs := by
      simp only [Doc.apply]; rw [if_pos (by simpa [Doc.isSec, MList.abs, MList.isSec] using hs0)]
    rw [e1, e2]; exact ⟨h, rfl⟩
  by_cases hn : n ∈ m.list
  case neg =>
    -- the section's node is not linked: it opens a new region at the end
    have e1 : m.apply (.section n) = { m with list := m.list ++ [n], cursor := some n, dirty := true } := by
      simp only [MList.apply]
      rw [if_neg (by simp [hsec]), if_pos (by simp [MList.active, hn])]
    have e2 : m.abs.apply (.section n) = { m.abs with items := m.list ++ [n], gap := m.list.length + 1 } := by
      simp only [Doc.apply]
      rw [if_neg (by simpa [Doc.isSec, MList.abs, MList.isSec] using hsec), if_pos (by simp [Doc.has, MList.abs, hn])]
      rfl
    rw [e1, e2]
    refine ⟨⟨?_, ?_, ?_⟩, ?_⟩
    · have : (m.list ++ [n]).Nodup := by
        rw [List.nodup_append]
        refine ⟨h.nodup, by simp, ?_⟩
        intro a ha b hb
        simp at hb; subst hb
        exact fun e => hn (e ▸ ha)
      exact this
    · intro c hc; simp at hc; subst hc; simp
    · intro hd; simp at hd
    · simp [MList.abs, absCursor, idxOf_append_self _ _ hn]
  -- linked: cursor to the end of the region through the (refreshed) link cache
  have hF : n ∈ m.list.filter m.isSec := List.mem_filter.mpr ⟨hn, hsec⟩
  have hFd : (m.list.filter m.isSec).Nodup := (List.filter_sublist).nodup h.nodup
  -- after update_section_links the cache is coherent
  have hu : m.updateSectionLinks.list = m.list ∧ m.updateSectionLinks.cursor = m.cursor ∧
      m.updateSectionLinks.secNodes = m.secNodes ∧ m.updateSectionLinks.dirty = false ∧
      (∀ s, s ∈ m.list → m.isSec s = true →
        lookupNext m.updateSectionLinks.nextSec s = succIn (m.list.filter m.isSec) s) := by
    by_cases hdirty : m.dirty = true
    · have e : m.updateSectionLinks = { m with nextSec := linkPairs (m.list.filter m.isSec) ++ m.nextSec, dirty := false } := by
        simp [MList.updateSectionLinks, hdirty]
      rw [e]
      refine ⟨rfl, rfl, rfl, rfl, ?_⟩
      intro s hs hss
      exact lookup_linkPairs _ _ s hFd (List.mem_filter.mpr ⟨hs, hss⟩)
    · have hdf : m.dirty = false := by simpa using hdirty
      have e : m.updateSectionLinks = m := by simp [MList.updateSectionLinks, hdf]
      rw [e]
      exact ⟨rfl, rfl, rfl, hdf, h.cache hdf⟩
  obtain ⟨hul, huc, hus, hud, hucache⟩ := hu
  have hlook := hucache n hn hsec
  rw [succIn_filter _ _ _ hn hsec] at hlook
  have e2 : m.abs.apply (.section n) =
      match (m.list.drop (m.list.idxOf n + 1)).find? m.isSec with
      | some nx => { m.abs with gap := m.list.idxOf nx }
      | none => { m.abs with gap := m.list.length } := by
    simp only [Doc.apply]
    rw [if_neg (by simpa [Doc.isSec, MList.abs, MList.isSec] using hsec), if_neg (by simp [Doc.has, MList.abs, hn])]
    rfl
  have e1 : m.apply (.section n) =
      match lookupNext m.updateSectionLinks.nextSec n with
      | some nx => { m.updateSectionLinks with cursor := prevOf m.updateSectionLinks.list nx }
      | none => { m.updateSectionLinks with cursor := m.updateSectionLinks.list.getLast? } := by
    simp only [MList.apply]
    rw [if_neg (by simp [hsec]), if_neg (by simp [MList.active, hn])]
    rfl
  rw [e1, e2, hlook]
  cases hf : (m.list.drop (m.list.idxOf n + 1)).find? m.isSec with
  | some nx =>
    dsimp only
    have hnxd : nx ∈ m.list.drop (m.list.idxOf n + 1) := List.mem_of_find?_eq_some hf
    have hnx := (mem_drop_iff _ _ _ h.nodup).mp hnxd
    have hps := prevOf_spec m.list nx h.nodup hnx.1
    refine ⟨⟨by simpa [hul] using h.nodup, ?_, ?_⟩, ?_⟩
    · intro c hc
      simp only [hul] at hc ⊢
      rw [hc] at hps
      exact hps.1
    · intro _ s hs hss
      simp only [hul] at hs
      have hss' : m.isSec s = true := by simpa [MList.isSec, hus] using hss
      have := hucache s hs hss'
      simp only [hul, hus]
      exact this
    · simp only [MList.abs, hul, hus]
      refine congrArg (fun g => ({ items := m.list, gap := g, secNodes := m.secNodes } : Doc)) ?_
      cases hp : prevOf m.list nx with
      | none => rw [hp] at hps; simp [absCursor, hps]
      | some p => rw [hp] at hps; simp [absCursor, hps.2.2]
  | none =>
    dsimp only
    have hne : m.list ≠ [] := fun e => by rw [e] at hn; simp at hn
    obtain ⟨x, hx⟩ : ∃ x, m.list.getLast? = some x := by
      cases hl : m.list.getLast? with
      | none => exact absurd (List.getLast?_eq_none_iff.mp hl) hne
      | some x => exact ⟨x, rfl⟩
    have hxm : x ∈ m.list := by
      obtain ⟨ys, hys⟩ := List.getLast?_eq_some_iff.mp hx
      rw [hys]; simp
    refine ⟨⟨by simpa [hul] using h.nodup, ?_, ?_⟩, ?_⟩
    · intro c hc
      simp only [hul, hx] at hc ⊢
      simp at hc; subst hc; exact hxm
    · intro _ s hs hss
      simp only [hul] at hs
      have hss' : m.isSec s = true := by simpa [MList.isSec, hus] using hss
      have := hucache s hs hss'
      simp only [hul, hus]
      exact this
    · simp only [MList.abs, hul, hus, hx, absCursor, idxOf_getLast _ _ h.nodup hx]

end AsmjitVerif.Builder
