/-
C18 (continued) — buffer invariant and refinement of `String` to the byte-list ADT (Spec/C18Str.lean),
for every operation, every argument and every operation sequence.  Core only.
-/
import AsmjitVerif.Lemmas.C18Str
namespace AsmjitVerif.Str
open AsmjitVerif.Arena (u64 alignUp bitLen)

/-! ## Part 2: the invariant -/

/-- capacity consistent, size in range, null terminated; SSO strings have capacity 30 -/
def WF (s : Str) : Prop :=
  s.buf.length = s.cap + 1 ∧ s.size ≤ s.cap ∧ s.buf.getD s.size 1 = 0 ∧ (s.kind = .small → s.cap = 30)

theorem wf_init : WF ({} : Str) := by
  refine ⟨by decide, by decide, by decide, fun _ => rfl⟩

theorem le_alignUp (x a : Nat) (ha : 0 < a) : x ≤ alignUp x a := by
  unfold alignUp
  have h1 := Nat.div_add_mod (x + a - 1) a
  have h2 := Nat.mod_lt (x + a - 1) ha
  rw [Nat.mul_comm] at h1
  omega

theorem wf_newTmp (n : Nat) : WF (newTmp n) := by
  have := le_alignUp (n + 1) 8 (by omega)
  unfold newTmp
  refine ⟨by simp, by simp, ?_, by simp⟩
  simp [List.getD_eq_getElem?_getD]

example : WF (newTmp 5) := wf_newTmp 5
example : (newTmp 5).cap = 7 := by decide

/-- everything we need to know about one bounds-checked write -/
theorem write_spec (s : Str) (off : Nat) (bs : List Nat) (h : off + bs.length ≤ s.buf.length) :
    ∃ s', write s off bs = some s' ∧ s'.kind = s.kind ∧ s'.size = s.size ∧ s'.cap = s.cap ∧
      s'.buf.length = s.buf.length ∧
      (∀ k, k ≤ off → s'.buf.take k = s.buf.take k) ∧
      s'.buf.take (off + bs.length) = s.buf.take off ++ bs ∧
      (∀ i, off + bs.length ≤ i → s'.buf.getD i 1 = s.buf.getD i 1) ∧
      (∀ x, bs = [x] → s'.buf.getD off 1 = x) := by
  refine ⟨_, if_pos h, rfl, rfl, rfl, ?_, ?_, ?_, ?_, ?_⟩
  · simp; omega
  · intro k hk
    simp only [List.append_assoc]
    rw [List.take_append_of_le_length (by simp; omega), List.take_take]
    congr 1; omega
  · have hl : (s.buf.take off).length = off := by simp; omega
    simp only [List.append_assoc]
    rw [List.take_append, List.take_append, hl, List.take_take]
    have e1 : min (off + bs.length) off = off := by omega
    have e2 : off + bs.length - off = bs.length := by omega
    rw [e1, e2, List.take_length, Nat.sub_self, List.take_zero, List.append_nil]
  · intro i hi
    have hl : (s.buf.take off ++ bs).length = off + bs.length := by simp; omega
    simp only [List.getD_eq_getElem?_getD]
    rw [List.getElem?_append_right (by omega), hl, List.getElem?_drop]
    congr 2; omega
  · intro x hx
    subst hx
    have hl : (s.buf.take off).length = off := by simp at h ⊢; omega
    simp only [List.getD_eq_getElem?_getD, List.append_assoc]
    rw [List.getElem?_append_right (by omega), hl]
    simp

/-- terminator first, then the payload (`prepare` followed by `memcpy`/`memset`) -/
theorem finish_spec (s0 : Str) (off : Nat) (bs : List Nat) (hl : s0.buf.length = s0.cap + 1)
    (hs : s0.size ≤ s0.cap) (hk : s0.kind = .small → s0.cap = 30) (ho : off + bs.length = s0.size) :
    ∃ s1, write s0 s0.size [0] = some s1 ∧ ∃ s2, write s1 off bs = some s2 ∧ WF s2 ∧
      content s2 = s0.buf.take off ++ bs := by
  obtain ⟨s1, h1, k1, z1, c1, l1, t1, -, -, e1⟩ := write_spec s0 s0.size [0] (by simp; omega)
  obtain ⟨s2, h2, k2, z2, c2, l2, -, t2, g2, -⟩ := write_spec s1 off bs (by omega)
  refine ⟨s1, h1, s2, h2, ⟨by omega, by omega, ?_, by rw [k2, k1, c2, c1]; exact hk⟩, ?_⟩
  · rw [z2, z1, g2 _ (by omega)]; exact e1 0 rfl
  · unfold content; rw [z2, z1, ← ho, t2, t1 off (by omega)]

/-- what an operation may answer: success with the given new content, or out of memory with the string untouched
(and then only because the request was `big`) -/
def Outcome (s : Str) (r : Option (Str × Err)) (l : List Nat) (big : Prop) : Prop :=
  ∃ s' e, r = some (s', e) ∧ WF s' ∧ ((e = .ok ∧ content s' = l) ∨ (e = .oom ∧ s' = s ∧ big))

theorem Outcome.mono {s : Str} {r : Option (Str × Err)} {l l' : List Nat} {big big' : Prop}
    (h : Outcome s r l big) (hl : l = l') (hb : big → big') : Outcome s r l' big' := by
  obtain ⟨s', e, hr, w, h | ⟨h1, h2, h3⟩⟩ := h
  · exact ⟨s', e, hr, w, Or.inl ⟨h.1, by rw [h.2, hl]⟩⟩
  · exact ⟨s', e, hr, w, Or.inr ⟨h1, h2, hb h3⟩⟩

theorem alignUp_le (x a : Nat) (_ha : 0 < a) : alignUp x a ≤ x + a - 1 := by
  unfold alignUp
  have h1 := Nat.div_add_mod (x + a - 1) a
  rw [Nat.mul_comm] at h1
  omega

theorem growCapacity_ge (a m : Nat) (hm : m ≤ kMaxAllocSize) : m ≤ growCapacity a m := by
  unfold growCapacity
  simp only []
  generalize alignUpPow2 m = p
  repeat' split
  all_goals omega

theorem growCapacity_le (a m : Nat) (_ha : a ≤ 2 ^ 39) (hm : m ≤ 2 ^ 39) : growCapacity a m ≤ 2 ^ 40 := by
  unfold growCapacity kMaxAllocSize kGrowThreshold kMinAllocSize u64
  simp only []
  generalize alignUpPow2 m = p
  repeat' split
  all_goals omega

theorem opBytes_spec (s : Str) (a : Bool) (bs : List Nat) (h : WF s) :
    Outcome s (opBytes s a bs) ((if a then [] else content s) ++ bs) (2 ^ 38 ≤ s.size + bs.length) := by
  obtain ⟨hl, hs, ht, hk⟩ := h
  have hwf : WF s := ⟨hl, hs, ht, hk⟩
  have oom : ∀ l, 2 ^ 38 ≤ s.size + bs.length → Outcome s (some (s, Err.oom)) l (2 ^ 38 ≤ s.size + bs.length) :=
    fun l hb => ⟨s, .oom, rfl, hwf, Or.inr ⟨rfl, rfl, hb⟩⟩
  unfold opBytes prepare
  cases a
  · -- append
    simp only [Bool.false_eq_true, if_false]
    by_cases c1 : bs.length ≥ kMaxAllocSize - s.size - 1
    · rw [if_pos c1]; exact oom _ (by unfold kMaxAllocSize kGrowThreshold u64 at c1; omega)
    rw [if_neg c1]
    by_cases c2 : bs.length + s.size > s.cap
    · rw [if_pos c2]
      by_cases c3 : growCapacity (bs.length + 1) (bs.length + s.size + 1) < bs.length + s.size + 1
      · rw [if_pos c3]; apply oom _
        apply Classical.byContradiction; intro hb
        have := growCapacity_ge (bs.length + 1) (bs.length + s.size + 1)
          (by unfold kMaxAllocSize kGrowThreshold u64; omega)
        omega
      rw [if_neg c3]
      by_cases c4 : growCapacity (bs.length + 1) (bs.length + s.size + 1) > mallocMax
      · rw [if_pos c4]; apply oom _
        apply Classical.byContradiction; intro hb
        have := growCapacity_le (bs.length + 1) (bs.length + s.size + 1) (by omega) (by omega)
        unfold mallocMax at c4; omega
      rw [if_neg c4]
      generalize growCapacity (bs.length + 1) (bs.length + s.size + 1) = g at c3 c4
      obtain ⟨s1, h1, s2, h2, w2, ct⟩ := finish_spec
        { kind := .large, buf := s.buf.take s.size ++ List.replicate (g - s.size) 0,
          size := bs.length + s.size, cap := g - 1 } s.size bs
        (by simp; omega) (by simp; omega) (by simp) (by simp; omega)
      simp only [] at h1
      rw [h1]; simp only [Option.map_some]; rw [h2]
      refine ⟨s2, .ok, rfl, w2, Or.inl ⟨rfl, ?_⟩⟩
      rw [ct]
      unfold content
      rw [List.take_append_of_le_length (by simp; omega), List.take_take]; simp
    · rw [if_neg c2]
      obtain ⟨s1, h1, s2, h2, w2, ct⟩ := finish_spec { s with size := bs.length + s.size } s.size bs
        hl (by simp; omega) hk (by simp; omega)
      simp only [] at h1
      rw [h1]; simp only [Option.map_some]; rw [h2]
      exact ⟨s2, .ok, rfl, w2, Or.inl ⟨rfl, by rw [ct]; rfl⟩⟩
  · -- assign
    simp only [if_true]
    by_cases c1 : bs.length > s.cap
    · rw [if_pos c1]
      by_cases c2 : bs.length ≥ kMaxAllocSize
      · rw [if_pos c2]; exact oom _ (by unfold kMaxAllocSize kGrowThreshold u64 at c2; omega)
      rw [if_neg c2]
      by_cases c3 : alignUp (bs.length + 1) kMinAllocSize > mallocMax
      · rw [if_pos c3]; apply oom _
        have := alignUp_le (bs.length + 1) 128 (by decide)
        unfold mallocMax kMinAllocSize at c3; omega
      rw [if_neg c3]
      have hal := le_alignUp (bs.length + 1) kMinAllocSize (by decide)
      generalize alignUp (bs.length + 1) kMinAllocSize = g at c3 hal
      obtain ⟨s1, h1, s2, h2, w2, ct⟩ := finish_spec
        { kind := .large, buf := List.replicate g 0, size := bs.length, cap := g - 1 } 0 bs
        (by simp; omega) (by simp; omega) (by simp) (by simp)
      simp only [] at h1
      rw [h1]; simp only [Option.map_some]; rw [h2]
      exact ⟨s2, .ok, rfl, w2, Or.inl ⟨rfl, by rw [ct]; simp⟩⟩
    · rw [if_neg c1]
      obtain ⟨s1, h1, s2, h2, w2, ct⟩ := finish_spec { s with size := bs.length } 0 bs
        hl (by simp; omega) hk (by simp)
      simp only [] at h1
      rw [h1]; simp only [Option.map_some]; rw [h2]
      exact ⟨s2, .ok, rfl, w2, Or.inl ⟨rfl, by rw [ct]; simp⟩⟩

example : ∃ s', opBytes {} false [104, 105] = some (s', .ok) ∧ content s' = [104, 105] ∧ s'.buf.getD 2 1 = 0 :=
  ⟨_, rfl, by decide, by decide⟩

/-- `clear()` -/
theorem clear_spec0 (s : Str) (hl : s.buf.length = s.cap + 1) (hk : s.kind = .small → s.cap = 30) :
    ∃ s', clear s = some s' ∧ WF s' ∧ content s' = [] := by
  unfold clear
  cases hkd : s.kind with
  | small =>
    have hc := hk hkd
    refine ⟨_, rfl, ⟨?_, by simp, ?_, fun _ => hc⟩, by simp [content]⟩
    · simp; omega
    · simp [List.getD_eq_getElem?_getD]
  | large =>
    obtain ⟨s1, h1, k1, z1, c1, l1, -, -, -, e1⟩ := write_spec { s with size := 0 } 0 [0] (by simp; omega)
    rw [hkd] at h1
    refine ⟨s1, h1, ⟨by rw [l1, c1]; exact hl, by rw [z1]; simp, by rw [z1]; exact e1 0 rfl, ?_⟩, ?_⟩
    · rw [k1]; simp [hkd]
    · unfold content; rw [z1]; simp
  | ext =>
    obtain ⟨s1, h1, k1, z1, c1, l1, -, -, -, e1⟩ := write_spec { s with size := 0 } 0 [0] (by simp; omega)
    rw [hkd] at h1
    refine ⟨s1, h1, ⟨by rw [l1, c1]; exact hl, by rw [z1]; simp, by rw [z1]; exact e1 0 rfl, ?_⟩, ?_⟩
    · rw [k1]; simp [hkd]
    · unfold content; rw [z1]; simp

theorem clear_spec (s : Str) (h : WF s) : ∃ s', clear s = some s' ∧ WF s' ∧ content s' = [] :=
  clear_spec0 s h.1 h.2.2.2

example : (clear (newTmp 3)).map content = some [] := by decide

/-- `reset()` -/
theorem reset_spec (s : Str) : WF (reset s) ∧ content (reset s) = [] := ⟨wf_init, rfl⟩

/-- `truncate(n)` -/
theorem truncate_spec (s : Str) (n : Nat) (h : WF s) :
    ∃ s', truncate s n = some s' ∧ WF s' ∧ content s' = (content s).take n := by
  obtain ⟨hl, hs, ht, hk⟩ := h
  unfold truncate
  by_cases c : n < s.size
  · rw [if_pos c]
    obtain ⟨s1, h1, k1, z1, c1, l1, t1, -, -, e1⟩ := write_spec { s with size := n } n [0] (by simp; omega)
    refine ⟨s1, h1, ⟨by rw [l1, c1]; exact hl, by rw [z1, c1]; simp; omega, by rw [z1]; exact e1 0 rfl, ?_⟩, ?_⟩
    · rw [k1, c1]; exact hk
    · unfold content; rw [z1, List.take_take, t1 n (Nat.le_refl _)]
      simp only []
      congr 1; omega
  · rw [if_neg c]
    refine ⟨s, rfl, ⟨hl, hs, ht, hk⟩, ?_⟩
    unfold content; rw [List.take_take]; congr 1; omega

/-- payload first, then the terminator (`assign`) -/
theorem finish_spec' (s0 : Str) (bs : List Nat) (hl : s0.buf.length = s0.cap + 1)
    (hs : s0.size ≤ s0.cap) (hk : s0.kind = .small → s0.cap = 30) (ho : bs.length = s0.size) :
    ∃ s3, ((write s0 0 bs).bind fun s2 => write s2 bs.length [0]) = some s3 ∧ WF s3 ∧ content s3 = bs := by
  obtain ⟨s1, h1, k1, z1, c1, l1, -, t1, -, -⟩ := write_spec s0 0 bs (by omega)
  obtain ⟨s2, h2, k2, z2, c2, l2, t2, -, -, e2⟩ := write_spec s1 bs.length [0] (by simp; omega)
  refine ⟨s2, by rw [h1]; exact h2, ⟨by omega, by omega, ?_, by rw [k2, k1, c2, c1]; exact hk⟩, ?_⟩
  · rw [z2, z1, ← ho]; exact e2 0 rfl
  · unfold content; rw [z2, z1, ← ho, t2 _ (Nat.le_refl _)]
    simpa using t1

/-- `assign(data, size)` -/
theorem assign_spec (s : Str) (bs : List Nat) (h : WF s) :
    Outcome s (assign s bs) bs (2 ^ 38 ≤ bs.length) := by
  obtain ⟨hl, hs, ht, hk⟩ := h
  have hwf : WF s := ⟨hl, hs, ht, hk⟩
  have oom : 2 ^ 38 ≤ bs.length → Outcome s (some (s, Err.oom)) bs (2 ^ 38 ≤ bs.length) :=
    fun hb => ⟨s, .oom, rfl, hwf, Or.inr ⟨rfl, rfl, hb⟩⟩
  have fin : ∀ s0 : Str, s0.buf.length = s0.cap + 1 → s0.size ≤ s0.cap → (s0.kind = .small → s0.cap = 30) →
      bs.length = s0.size →
      Outcome s (((write s0 0 bs).bind fun s2 => write s2 bs.length [0]).map fun s3 => (s3, Err.ok)) bs
        (2 ^ 38 ≤ bs.length) := by
    intro s0 a b c d
    obtain ⟨s3, h3, w3, c3⟩ := finish_spec' s0 bs a b c d
    rw [h3]; exact ⟨s3, .ok, rfl, w3, Or.inl ⟨rfl, c3⟩⟩
  unfold assign
  simp only []
  cases hkd : s.kind with
  | small =>
    have hc := hk hkd
    simp only []
    by_cases c1 : bs.length ≤ kSSOCapacity
    · rw [if_pos c1]; exact fin _ hl (by simp; unfold kSSOCapacity at c1; omega) (fun _ => hc) rfl
    · rw [if_neg c1]
      by_cases c2 : bs.length + 1 > mallocMax
      · rw [if_pos c2]; exact oom (by unfold mallocMax at c2; omega)
      · rw [if_neg c2]; exact fin _ (by simp) (by simp) (by simp) rfl
  | large =>
    simp only []
    by_cases c1 : bs.length ≤ s.cap
    · rw [if_pos c1]; exact fin _ hl c1 (by simp) rfl
    · rw [if_neg c1]
      have hal := le_alignUp (bs.length + 1) 32 (by decide)
      by_cases c2 : alignUp (bs.length + 1) 32 > mallocMax
      · rw [if_pos c2]; apply oom
        have := alignUp_le (bs.length + 1) 32 (by decide)
        unfold mallocMax at c2; omega
      · rw [if_neg c2]; exact fin _ (by simp; omega) (by simp; omega) (by simp) rfl
  | ext =>
    simp only []
    by_cases c1 : bs.length ≤ s.cap
    · rw [if_pos c1]; exact fin _ hl c1 (by simp) rfl
    · rw [if_neg c1]
      have hal := le_alignUp (bs.length + 1) 32 (by decide)
      by_cases c2 : alignUp (bs.length + 1) 32 > mallocMax
      · rw [if_pos c2]; apply oom
        have := alignUp_le (bs.length + 1) 32 (by decide)
        unfold mallocMax at c2; omega
      · rw [if_neg c2]; exact fin _ (by simp; omega) (by simp; omega) (by simp) rfl

example : (assign {} [1, 2, 3]).map (fun r => (content r.1, r.2)) = some ([1, 2, 3], .ok) := by decide

theorem content_length (s : Str) (h : WF s) : (content s).length = s.size := by
  obtain ⟨hl, hs, -, -⟩ := h
  unfold content; simp; omega

theorem clear_outcome (s : Str) (h : WF s) (big : Prop) : Outcome s ((clear s).map (·, Err.ok)) [] big := by
  obtain ⟨s', h1, w, c⟩ := clear_spec s h
  rw [h1]; exact ⟨s', .ok, rfl, w, Or.inl ⟨rfl, c⟩⟩

theorem noop_outcome (s : Str) (h : WF s) (big : Prop) : Outcome s (some (s, Err.ok)) (content s) big :=
  ⟨s, .ok, rfl, h, Or.inl ⟨rfl, rfl⟩⟩

/-- `_op_string(op, data, size)`: append or assign a byte string -/
theorem opString_spec (s : Str) (a : Bool) (bs : List Nat) (h : WF s) :
    Outcome s (opString s a bs) ((if a then [] else content s) ++ bs) (2 ^ 38 ≤ s.size + bs.length) := by
  unfold opString
  cases bs with
  | nil =>
    cases a
    · simpa using noop_outcome s h _
    · simpa using clear_outcome s h _
  | cons b bs => simpa using opBytes_spec s a (b :: bs) h

/-- `_op_char(op, c)` -/
theorem opChar_spec (s : Str) (a : Bool) (c : Nat) (h : WF s) :
    Outcome s (opChar s a c) ((if a then [] else content s) ++ [c]) (2 ^ 38 ≤ s.size + 1) := opBytes_spec s a [c] h

theorem opChars_eq (s : Str) (a : Bool) (c n : Nat) (hn : n ≠ 0) :
    opChars s a c n = opBytes s a (List.replicate n c) := by
  unfold opChars opBytes
  rw [if_neg hn, List.length_replicate]

/-- `_op_chars(op, c, n)` -/
theorem opChars_spec (s : Str) (a : Bool) (c n : Nat) (h : WF s) :
    Outcome s (opChars s a c n) ((if a then [] else content s) ++ List.replicate n c) (2 ^ 38 ≤ s.size + n) := by
  by_cases hn : n = 0
  · subst hn
    unfold opChars
    cases a
    · simpa using noop_outcome s h _
    · simpa using clear_outcome s h _
  · rw [opChars_eq s a c n hn]; simpa using opBytes_spec s a (List.replicate n c) h

/-- `pad_end(n, c)` -/
theorem padEnd_spec (s : Str) (n c : Nat) (h : WF s) :
    Outcome s (padEnd s n c) (content s ++ List.replicate (n - (content s).length) c) (2 ^ 38 ≤ s.size + n) := by
  rw [content_length s h]
  unfold padEnd
  by_cases hn : n > s.size
  · rw [if_pos hn]; exact (opChars_spec s false c (n - s.size) h).mono (by simp) (by omega)
  · rw [if_neg hn]
    have : n - s.size = 0 := by omega
    rw [this]; simpa using noop_outcome s h _

/-- `_op_number(op, i, base, width, flags)` -/
theorem opNumber_spec (s : Str) (a : Bool) (i b w f : Nat) (h : WF s) :
    match numberText i b w f with
    | some t => Outcome s (opNumber s a i b w f) ((if a then [] else content s) ++ t) (2 ^ 38 ≤ s.size + t.length)
    | none => opNumber s a i b w f = some (s, .invalidArgument) := by
  unfold opNumber
  cases numberText i b w f with
  | none => rfl
  | some t => exact opBytes_spec s a t h

theorem hexText_eq (sep : Nat) : ∀ bytes : List Nat,
    (if sep ≠ 0 then
      ((bytes.map fun b => [baseN.getD (b / 16 % 16) 0, baseN.getD (b % 16) 0]).intersperse [sep]).flatten
     else (bytes.map fun b => [baseN.getD (b / 16 % 16) 0, baseN.getD (b % 16) 0]).flatten)
      = specHexText bytes sep
  | [] => by simp [specHexText]
  | [b] => by
    have h1 := baseN_digitChar (b / 16 % 16) (by omega)
    have h2 := baseN_digitChar (b % 16) (by omega)
    simp only [List.getD_eq_getElem?_getD] at h1 h2
    by_cases hs : sep ≠ 0 <;> simp [specHexText, hs, h1, h2]
  | b :: c :: rest => by
    have ih := hexText_eq sep (c :: rest)
    have h1 := baseN_digitChar (b / 16 % 16) (by omega)
    have h2 := baseN_digitChar (b % 16) (by omega)
    simp only [List.getD_eq_getElem?_getD] at h1 h2
    rw [specHexText, ← ih]
    · by_cases hs : sep ≠ 0 <;> simp [hs, h1, h2]
    · simp

/-- `_op_hex(op, data, size, separator)` -/
theorem opHex_spec (s : Str) (a : Bool) (bs : List Nat) (sep : Nat) (h : WF s) :
    Outcome s (opHex s a bs sep) ((if a then [] else content s) ++ specHexText bs sep)
      (2 ^ 38 ≤ s.size + (specHexText bs sep).length) := by
  unfold opHex
  cases bs with
  | nil =>
    cases a
    · simpa [specHexText] using noop_outcome s h _
    · simpa [specHexText] using clear_outcome s h _
  | cons b bs =>
    simp only [List.isEmpty_cons, Bool.false_eq_true, if_false]
    rw [hexText_eq sep (b :: bs)]
    exact opBytes_spec s a _ h

example : (opHex {} false [0xAB, 0x01] 58).map (fun r => content r.1) = some [65, 66, 58, 48, 49] := by decide

example : (opString (newTmp 3) false (List.replicate 40 65)).map (fun r => (content r.1, r.1.kind, r.1.cap, r.2))
    = some (List.replicate 40 65, .large, 127, .ok) := by decide +kernel
example : (opChars {} false 42 3).map (fun r => content r.1) = some [42, 42, 42] := by decide
example : ((padEnd {} 2 32).bind fun r => opNumber r.1 false 255 16 0 0).map (fun r => content r.1)
    = some [32, 32, 70, 70] := by decide
example : ((opString {} false [1, 2, 3]).bind fun r => truncate r.1 1).map content = some [1] := by decide
example : (opString {} true (List.replicate 31 7)).map (fun r => (r.1.kind, terminated r.1)) = some (.large, true) := by
  decide +kernel

/-! ### `_op_vformat` (`vsnprintf` as an oracle producing `out`) -/

/-- the structural part of the invariant — what keeps every write inside the buffer; no terminator required -/
def WF0 (s : Str) : Prop := s.buf.length = s.cap + 1 ∧ s.size ≤ s.cap ∧ (s.kind = .small → s.cap = 30)

theorem WF.wf0 {s : Str} (h : WF s) : WF0 s := ⟨h.1, h.2.1, h.2.2.2⟩

/-- `prepare(op, n)` from a structurally sound string (terminator not needed): either nullptr (and then the request
was huge) or a well-formed string of the new size whose first `off` bytes are the kept content -/
theorem prepare_spec (s0 : Str) (a : Bool) (n : Nat) (h : WF0 s0) :
    (prepare s0 a n = some none ∧ 2 ^ 38 ≤ s0.size + n) ∨
    ∃ s' off, prepare s0 a n = some (some (s', off)) ∧ WF s' ∧ s'.size = off + n ∧
      off = (if a then 0 else s0.size) ∧ s'.buf.take off = (if a then [] else s0.buf.take s0.size) := by
  obtain ⟨hl, hs, hk⟩ := h
  have fin : ∀ (s0' : Str) (off : Nat), s0'.buf.length = s0'.cap + 1 → s0'.size ≤ s0'.cap →
      (s0'.kind = .small → s0'.cap = 30) → s0'.size = off + n →
      ∃ s', (write s0' s0'.size [0]).map (fun s' => some (s', off)) = some (some (s', off)) ∧ WF s' ∧
        s'.size = off + n ∧ s'.buf.take off = s0'.buf.take off := by
    intro s0' off a1 a2 a3 a4
    obtain ⟨s1, h1, k1, z1, c1, l1, t1, -, -, e1⟩ := write_spec s0' s0'.size [0] (by simp; omega)
    refine ⟨s1, by rw [h1]; rfl, ⟨by omega, by omega, by rw [z1]; exact e1 0 rfl, by rw [k1, c1]; exact a3⟩,
      by omega, t1 off (by omega)⟩
  unfold prepare
  cases a
  · simp only [Bool.false_eq_true, if_false]
    by_cases c1 : n ≥ kMaxAllocSize - s0.size - 1
    · rw [if_pos c1]; exact Or.inl ⟨rfl, by unfold kMaxAllocSize kGrowThreshold u64 at c1; omega⟩
    rw [if_neg c1]
    by_cases c2 : n + s0.size > s0.cap
    · rw [if_pos c2]
      by_cases c3 : growCapacity (n + 1) (n + s0.size + 1) < n + s0.size + 1
      · rw [if_pos c3]; refine Or.inl ⟨rfl, ?_⟩
        apply Classical.byContradiction; intro hb
        have := growCapacity_ge (n + 1) (n + s0.size + 1) (by unfold kMaxAllocSize kGrowThreshold u64; omega)
        omega
      rw [if_neg c3]
      by_cases c4 : growCapacity (n + 1) (n + s0.size + 1) > mallocMax
      · rw [if_pos c4]; refine Or.inl ⟨rfl, ?_⟩
        apply Classical.byContradiction; intro hb
        have := growCapacity_le (n + 1) (n + s0.size + 1) (by omega) (by omega)
        unfold mallocMax at c4; omega
      rw [if_neg c4]
      generalize growCapacity (n + 1) (n + s0.size + 1) = g at c3 c4
      obtain ⟨s', h1, w, z, t⟩ := fin
        { kind := .large, buf := s0.buf.take s0.size ++ List.replicate (g - s0.size) 0,
          size := n + s0.size, cap := g - 1 } s0.size
        (by simp; omega) (by simp; omega) (by simp) (by simp; omega)
      refine Or.inr ⟨s', s0.size, h1, w, z, rfl, ?_⟩
      rw [t]; simp only []
      rw [List.take_append_of_le_length (by simp; omega), List.take_take]; simp
    · rw [if_neg c2]
      obtain ⟨s', h1, w, z, t⟩ := fin { s0 with size := n + s0.size } s0.size hl (by simp; omega) hk
        (by simp; omega)
      exact Or.inr ⟨s', s0.size, h1, w, z, rfl, t⟩
  · simp only [if_true]
    by_cases c1 : n > s0.cap
    · rw [if_pos c1]
      by_cases c2 : n ≥ kMaxAllocSize
      · rw [if_pos c2]; exact Or.inl ⟨rfl, by unfold kMaxAllocSize kGrowThreshold u64 at c2; omega⟩
      rw [if_neg c2]
      by_cases c3 : alignUp (n + 1) kMinAllocSize > mallocMax
      · rw [if_pos c3]; refine Or.inl ⟨rfl, ?_⟩
        have := alignUp_le (n + 1) 128 (by decide)
        unfold mallocMax kMinAllocSize at c3; omega
      rw [if_neg c3]
      have hal := le_alignUp (n + 1) kMinAllocSize (by decide)
      generalize alignUp (n + 1) kMinAllocSize = g at c3 hal
      obtain ⟨s', h1, w, z, t⟩ := fin
        { kind := .large, buf := List.replicate g 0, size := n, cap := g - 1 } 0
        (by simp; omega) (by simp; omega) (by simp) (by simp)
      exact Or.inr ⟨s', 0, h1, w, z, rfl, by simp⟩
    · rw [if_neg c1]
      obtain ⟨s', h1, w, z, t⟩ := fin { s0 with size := n } 0 hl (by simp; omega) hk (by simp)
      exact Or.inr ⟨s', 0, h1, w, z, rfl, by simp⟩

theorem getD_of_take (l p q : List Nat) (m d : Nat) (h : l.take (p.length + m) = p ++ q) (hm : 0 < m) :
    l.getD p.length d = q.getD 0 d := by
  have h1 : (l.take (p.length + m))[p.length]? = l[p.length]? := by
    rw [List.getElem?_take, if_pos (by omega)]
  simp only [List.getD_eq_getElem?_getD]
  rw [← h1, h, List.getElem?_append_right (Nat.le_refl _), Nat.sub_self]

/-- what `vsnprintf(p, n + 1, …)` does to the buffer: the text, then a terminator -/
theorem writeZ_spec (s0 : Str) (off : Nat) (out : List Nat) (hl : s0.buf.length = s0.cap + 1)
    (hb : off + out.length ≤ s0.cap) :
    ∃ s1, write s0 off (out ++ [0]) = some s1 ∧ s1.kind = s0.kind ∧ s1.size = s0.size ∧ s1.cap = s0.cap ∧
      s1.buf.length = s0.buf.length ∧ (∀ k, k ≤ off → s1.buf.take k = s0.buf.take k) ∧
      s1.buf.take (off + out.length) = s0.buf.take off ++ out ∧
      s1.buf.getD (off + out.length) 1 = 0 ∧
      (∀ x, out.head? = some x → s1.buf.getD off 1 = x) := by
  obtain ⟨s1, h1, k1, z1, c1, l1, t1, t2, -, -⟩ := write_spec s0 off (out ++ [0]) (by simp; omega)
  have hlo : (s0.buf.take off).length = off := by simp; omega
  refine ⟨s1, h1, k1, z1, c1, l1, t1, ?_, ?_, ?_⟩
  · have : s1.buf.take (off + out.length) = (s1.buf.take (off + (out ++ [0]).length)).take (off + out.length) := by
      rw [List.take_take]; congr 1; simp
    rw [this, t2, ← List.append_assoc, List.take_append_of_le_length (by simp; omega)]
    rw [List.take_of_length_le (by simp; omega)]
  · have hq : s1.buf.take ((s0.buf.take off ++ out).length + 1) = (s0.buf.take off ++ out) ++ [0] := by
      rw [List.append_assoc, ← t2]; congr 1; simp; omega
    have := getD_of_take s1.buf (s0.buf.take off ++ out) [0] 1 1 hq (by omega)
    simpa [hlo] using this
  · intro x hx
    cases out with
    | nil => cases hx
    | cons y ys =>
      simp only [List.head?_cons, Option.some.injEq] at hx; subst hx
      have hq : s1.buf.take ((s0.buf.take off).length + ((y :: ys) ++ [0]).length) = s0.buf.take off ++ ((y :: ys) ++ [0]) := by
        rw [hlo]; exact t2
      have := getD_of_take s1.buf (s0.buf.take off) ((y :: ys) ++ [0]) _ 1 hq (by simp)
      simpa [hlo] using this

/-- the in-place attempt of `_op_vformat` overflowed: the output did not fit behind `start_at` -/
def FormatOverflowAt (s : Str) (a : Bool) (out : List Nat) : Prop :=
  s.cap - (if a then 0 else s.size) ≥ 128 ∧ out.length > s.cap - (if a then 0 else s.size)

/-- **`_op_vformat`** (repaired: off-by-one C18-6, out-of-memory path C18-10), for every well-formed string and every
output text (NUL bytes inside `out` are irrelevant here): never writes outside a buffer and ALWAYS returns a
well-formed string.  On `kOk` it holds the appended / assigned text.  On `kOutOfMemory` (only for huge requests):
the string is untouched if no in-place attempt had overflowed; after an overflowed in-place attempt an append has
the same size and content (bytes behind the terminator may differ), an assign is empty. -/
theorem opFormat_spec (s : Str) (a : Bool) (out : List Nat) (h : WF s) :
    ∃ s' e, opFormat s a out = some (s', e) ∧ WF s' ∧
      ((e = .ok ∧ content s' = (if a then [] else content s) ++ out) ∨
       (e = .oom ∧ 2 ^ 38 ≤ s.size + out.length ∧
         ((¬ FormatOverflowAt s a out ∧ s' = s) ∨
          (FormatOverflowAt s a out ∧ a = false ∧ s'.size = s.size ∧ content s' = content s) ∨
          (FormatOverflowAt s a out ∧ a = true ∧ s'.size = 0 ∧ content s' = [])))) := by
  obtain ⟨hl, hs, ht, hk⟩ := h
  have hwf : WF s := ⟨hl, hs, ht, hk⟩
  have hst : (if a then 0 else s.size) ≤ s.cap := by cases a <;> simp <;> omega
  have hct : s.buf.take (if a then 0 else s.size) = (if a then [] else content s) := by cases a <;> simp [content]
  unfold opFormat
  simp only []
  by_cases c1 : s.cap - (if a then 0 else s.size) ≥ 128
  · rw [if_pos c1]
    by_cases c2 : out.length ≤ s.cap - (if a then 0 else s.size)
    · -- fits in place
      rw [List.take_of_length_le c2]
      obtain ⟨s1, h1, k1, z1, c1', l1, -, t1, g1, -⟩ := writeZ_spec s (if a then 0 else s.size) out hl (by omega)
      rw [h1]; simp only []; rw [if_pos c2]
      refine ⟨_, .ok, rfl, ⟨?_, ?_, ?_, ?_⟩, Or.inl ⟨rfl, ?_⟩⟩
      · simp only []; omega
      · simp only []; omega
      · simp only []; exact g1
      · simp only []; rw [k1, c1']; exact hk
      · unfold content; simp only []; rw [t1, hct]; rfl
    · -- overflow: partial output in place, then `prepare`
      have hlen : (out.take (s.cap - (if a then 0 else s.size))).length = s.cap - (if a then 0 else s.size) := by
        simp; omega
      obtain ⟨s1, h1, k1, z1, c1', l1, t0, -, -, -⟩ :=
        writeZ_spec s (if a then 0 else s.size) (out.take (s.cap - (if a then 0 else s.size))) hl (by omega)
      rw [h1]; simp only []; rw [if_neg c2]
      have w1 : WF0 s1 := ⟨by omega, by omega, by rw [k1, c1']; exact hk⟩
      have hc1 : s1.buf.take s1.size = s.buf.take s.size ∨ a = true := by
        cases a
        · left; rw [z1]; exact t0 s.size (by simp)
        · right; rfl
      have hov : FormatOverflowAt s a out := ⟨c1, by omega⟩
      rcases prepare_spec s1 a out.length w1 with ⟨hp, hb⟩ | ⟨s', off, hp, w', z', ho, t'⟩
      · rw [hp]
        simp only [if_true]
        cases a
        · -- append: put the terminator back
          simp only [Bool.false_eq_true, if_false] at *
          obtain ⟨s2, h2, k2, z2, c2', l2, t2, -, -, e2⟩ := write_spec s1 s.size [0] (by simp; omega)
          rw [h2]
          refine ⟨s2, .oom, rfl, ⟨by omega, by omega, by rw [z2, z1]; exact e2 0 rfl, by rw [k2, k1, c2', c1']; exact hk⟩,
            Or.inr ⟨rfl, by omega, Or.inr (Or.inl ⟨hov, by simp, by omega, ?_⟩)⟩⟩
          unfold content
          rw [z2, z1, t2 s.size (Nat.le_refl _)]
          exact t0 s.size (Nat.le_refl _)
        · -- assign: clear
          simp only [if_true] at *
          obtain ⟨s2, h2, w2, ct2⟩ := clear_spec0 s1 w1.1 w1.2.2
          rw [h2]
          have hz2 : s2.size = 0 := by rw [← content_length s2 w2, ct2]; rfl
          exact ⟨s2, .oom, rfl, w2, Or.inr ⟨rfl, by omega, Or.inr (Or.inr ⟨hov, by simp, hz2, ct2⟩)⟩⟩
      · rw [hp]
        obtain ⟨s2, h2, k2, z2, c2', l2, -, t2, g2, -⟩ := writeZ_spec s' off out w'.1 (by have := w'.2.1; omega)
        simp only []
        rw [h2]
        refine ⟨s2, .ok, rfl, ⟨by rw [l2, c2']; exact w'.1, by rw [z2, c2']; exact w'.2.1,
          by rw [z2, z']; exact g2, by rw [k2, c2']; exact w'.2.2.2⟩, Or.inl ⟨rfl, ?_⟩⟩
        unfold content
        rw [z2, z', t2, t']
        rcases hc1 with hc1 | rfl
        · rw [hc1]
        · simp
  · rw [if_neg c1]
    have hno : ¬ FormatOverflowAt s a out := fun hh => c1 hh.1
    by_cases c2 : out.length < 1024
    · rw [if_pos c2]
      obtain ⟨s', e, hr, w, hh | ⟨he, hs', hb⟩⟩ := opString_spec s a out hwf
      · exact ⟨s', e, hr, w, Or.inl hh⟩
      · exact ⟨s', e, hr, w, Or.inr ⟨he, hb, Or.inl ⟨hno, hs'⟩⟩⟩
    · rw [if_neg c2]
      rcases prepare_spec s a out.length hwf.wf0 with ⟨hp, hb⟩ | ⟨s', off, hp, w', z', ho, t'⟩
      · rw [hp]
        exact ⟨s, .oom, rfl, hwf, Or.inr ⟨rfl, hb, Or.inl ⟨hno, rfl⟩⟩⟩
      · rw [hp]
        obtain ⟨s2, h2, k2, z2, c2', l2, -, t2, g2, -⟩ := writeZ_spec s' off out w'.1 (by have := w'.2.1; omega)
        simp only []
        rw [h2]
        refine ⟨s2, .ok, rfl, ⟨by rw [l2, c2']; exact w'.1, by rw [z2, c2']; exact w'.2.1,
          by rw [z2, z']; exact g2, by rw [k2, c2']; exact w'.2.2.2⟩, Or.inl ⟨rfl, ?_⟩⟩
        unfold content
        rw [z2, z', t2, t']

/-- the ORIGINAL out-of-memory path of `_op_vformat` (before fixes/C18-10.patch), append mode, in-place attempt
overflowed: `prepare` fails and the function just returns `kOutOfMemory` -/
def opFormatOrigAppendOverflow (s : Str) (out : List Nat) : Option (Str × Err) :=
  match write s s.size (out.take (s.cap - s.size) ++ [0]) with
  | none => none
  | some s1 =>
    match prepare s1 false out.length with
    | some none => some (s1, .oom)
    | _ => none   -- other paths: not of interest here

/-- FINDING about the original code (confirmed on the real library): in that situation the byte at `data()[size()]`
— the old terminator — holds the first output character, so the string is no longer null terminated although the
call reports an error and the size is unchanged.  (The allocation failure is forced here by a huge output; with a real
allocator any failing `malloc` has the same effect.) -/
theorem opFormatOrig_oom_corrupts (s : Str) (out : List Nat) (h : WF s) (hrem : s.cap - s.size ≥ 128)
    (hov : s.cap - s.size < out.length) (hbig : out.length ≥ kMaxAllocSize - s.size - 1)
    (h0 : ∀ x, out.head? = some x → x ≠ 0) :
    ∃ s', opFormatOrigAppendOverflow s out = some (s', .oom) ∧ s'.size = s.size ∧ content s' = content s ∧
      terminated s' = false := by
  obtain ⟨hl, hs, ht, hk⟩ := h
  have c2 : ¬ out.length ≤ s.cap - s.size := by omega
  have hlen : (out.take (s.cap - s.size)).length = s.cap - s.size := by simp; omega
  obtain ⟨s1, h1, k1, z1, c1', l1, t0, -, -, hd⟩ := writeZ_spec s s.size (out.take (s.cap - s.size)) hl (by omega)
  have hp : prepare s1 false out.length = some none := by
    unfold prepare
    simp only [Bool.false_eq_true, if_false]
    rw [if_pos (by omega)]
  refine ⟨s1, ?_, z1, ?_, ?_⟩
  · unfold opFormatOrigAppendOverflow
    rw [h1]; simp only []
    rw [hp]
  · unfold content; rw [z1]; exact t0 s.size (Nat.le_refl _)
  · cases out with
    | nil => simp at c2
    | cons y ys =>
      have hy : (List.take (s.cap - s.size) (y :: ys)).head? = some y := by
        have : s.cap - s.size = (s.cap - s.size - 1) + 1 := by omega
        rw [this, List.take_succ_cons]; rfl
      have hne := h0 y rfl
      unfold terminated; rw [z1, hd y hy]
      simpa using hne

/-- the off-by-one case of the original code: the output fills the remaining capacity exactly (`newTmp 135` has
capacity 135) — with the repaired call the whole text and its terminator are stored in place -/
example : (opFormat (newTmp 135) false (List.replicate 135 65)).map
      (fun r => (content r.1 == List.replicate 135 65, r.1.size, r.1.cap, r.1.kind, terminated r.1, r.2))
    = some (true, 135, 135, .ext, true, .ok) := by decide +kernel
/-- the same after 5 bytes are already there: 138 bytes remain and 138 are formatted -/
example : ((opString (newTmp 140) false [1, 2, 3, 4, 5]).bind fun r => opFormat r.1 false (List.replicate 138 66)).map
      (fun r => (content r.1 == [1, 2, 3, 4, 5] ++ List.replicate 138 66, r.1.size, r.1.cap, terminated r.1, r.2))
    = some (true, 143, 143, true, .ok) := by decide +kernel
/-- stack-buffer path (`capacity - size < 128`) and the `prepare` path after an in-place overflow -/
example : (opFormat {} false [104, 105]).map (fun r => (content r.1, r.2)) = some ([104, 105], .ok) := by decide
example : (opFormat (newTmp 135) true (List.replicate 136 67)).map
      (fun r => (content r.1 == List.replicate 136 67, r.1.kind, terminated r.1, r.2))
    = some (true, .large, true, .ok) := by decide +kernel

/-! ## Part 3 restated operation by operation (what a caller observes) -/

theorem Outcome.wf {s : Str} {r : Option (Str × Err)} {l : List Nat} {big : Prop} (h : Outcome s r l big) :
    ∃ s' e, r = some (s', e) ∧ WF s' := by
  obtain ⟨s', e, hr, w, -⟩ := h; exact ⟨s', e, hr, w⟩

theorem Outcome.ok {s s' : Str} {r : Option (Str × Err)} {l : List Nat} {big : Prop} (h : Outcome s r l big)
    (hr : r = some (s', .ok)) : content s' = l := by
  obtain ⟨s1, e, hr1, -, h | h⟩ := h
  · rw [hr1] at hr; cases hr; exact h.2
  · rw [hr1] at hr; cases hr; cases h.1

theorem Outcome.err {s s' : Str} {e : Err} {r : Option (Str × Err)} {l : List Nat} {big : Prop}
    (h : Outcome s r l big) (hr : r = some (s', e)) (he : e ≠ .ok) : s' = s ∧ e = .oom := by
  obtain ⟨s1, e1, hr1, -, h | h⟩ := h
  · rw [hr1] at hr; cases hr; exact absurd h.1 he
  · rw [hr1] at hr; cases hr; exact ⟨h.2.1, h.1⟩

theorem assign_content (s s' : Str) (bs : List Nat) (h : WF s) (hr : assign s bs = some (s', .ok)) :
    content s' = bs := (assign_spec s bs h).ok hr

theorem opString_append_content (s s' : Str) (bs : List Nat) (h : WF s)
    (hr : opString s false bs = some (s', .ok)) : content s' = content s ++ bs := by
  simpa using (opString_spec s false bs h).ok hr

theorem opString_assign_content (s s' : Str) (bs : List Nat) (h : WF s)
    (hr : opString s true bs = some (s', .ok)) : content s' = bs := by
  simpa using (opString_spec s true bs h).ok hr

theorem opChars_append_content (s s' : Str) (c n : Nat) (h : WF s)
    (hr : opChars s false c n = some (s', .ok)) : content s' = content s ++ List.replicate n c := by
  simpa using (opChars_spec s false c n h).ok hr

theorem opNumber_append_content (s s' : Str) (i b w f : Nat) (t : List Nat) (h : WF s)
    (ht : numberText i b w f = some t) (hr : opNumber s false i b w f = some (s', .ok)) :
    content s' = content s ++ t := by
  have := opNumber_spec s false i b w f h
  rw [ht] at this
  simpa using this.ok hr

/-! ## Part 4: operation sequences -/

/-- one operation of the model -/
def stepModel (op : SOp) (s : Str) : Option (Str × Err) :=
  match op with
  | .reset => some (reset s, .ok)
  | .clear => (clear s).map (·, .ok)
  | .assign bs => assign s bs
  | .string a bs => opString s a bs
  | .char a c => opChar s a c
  | .chars a c n => opChars s a c n
  | .padEnd n c => padEnd s n c
  | .number a i b w f => opNumber s a i.toNat b w f
  | .hex a bs sep => opHex s a bs sep
  | .truncate n => (truncate s n).map (·, .ok)
  | .format a out => opFormat s a out

/-- the operation is an ASSIGN-format whose in-place attempt overflows on `s`: the only situation in which an
out-of-memory answer changes the content (the old text is already overwritten, the string is cleared) -/
def AssignFormatOverflow (op : SOp) (s : Str) : Prop :=
  match op with
  | .format true out => FormatOverflowAt s true out
  | _ => False

/-- what an observer sees of one step -/
def flagOf (s s' : Str) (e : Err) : Flag :=
  if e != .oom then .ok else if s'.size = s.size then .unchanged else .cleared

/-- run a sequence; `none` = some write left its buffer; the flags record what the allocator did to each operation -/
def runModelE : List SOp → Str → Option (Str × List Flag)
  | [], s => some (s, [])
  | op :: ops, s =>
    match stepModel op s with
    | none => none
    | some (s', e) =>
      match runModelE ops s' with
      | none => none
      | some (s'', oks) => some (s'', flagOf s s' e :: oks)

def runModel (ops : List SOp) (s : Str) : Option Str := (runModelE ops s).map (·.1)

/-- on any error (`kOutOfMemory`, `kInvalidArgument`) the string is structurally unchanged — all operations except
format at once -/
theorem error_unchanged_struct (op : SOp) (s s' : Str) (e : Err) (h : WF s) (hr : stepModel op s = some (s', e))
    (he : e ≠ .ok) (hnf : ∀ a out, op ≠ .format a out) : s' = s := by
  cases op with
  | format a out => exact absurd rfl (hnf a out)
  | reset => simp only [stepModel, Option.some.injEq, Prod.mk.injEq] at hr; exact absurd hr.2.symm he
  | clear =>
    simp only [stepModel, Option.map_eq_some_iff, Prod.mk.injEq] at hr
    obtain ⟨_, _, _, h2⟩ := hr; exact absurd h2.symm he
  | truncate n =>
    simp only [stepModel, Option.map_eq_some_iff, Prod.mk.injEq] at hr
    obtain ⟨_, _, _, h2⟩ := hr; exact absurd h2.symm he
  | assign bs => exact ((assign_spec s bs h).err hr he).1
  | string a bs => exact ((opString_spec s a bs h).err hr he).1
  | char a c => exact ((opChar_spec s a c h).err hr he).1
  | chars a c n => exact ((opChars_spec s a c n h).err hr he).1
  | padEnd n c => exact ((padEnd_spec s n c h).err hr he).1
  | hex a bs sep => exact ((opHex_spec s a bs sep h).err hr he).1
  | number a i b w f =>
    have := opNumber_spec s a i.toNat b w f h
    cases hn : numberText i.toNat b w f with
    | none =>
      rw [hn] at this; simp only [stepModel] at hr; rw [this] at hr; cases hr; rfl
    | some t => rw [hn] at this; exact (this.err hr he).1

example : stepModel (.number false 7#64 3 0 0) {} = some ({}, .invalidArgument) := by decide

/-- **error_unchanged**, observational form covering every operation: on any error the result is well formed and has
the same size and content — except an assign-format that ran out of memory after its in-place attempt overflowed,
which leaves the empty string.  (For every operation other than format even `s' = s`: `error_unchanged_struct`.) -/
theorem error_unchanged (op : SOp) (s s' : Str) (e : Err) (h : WF s) (hr : stepModel op s = some (s', e))
    (he : e ≠ .ok) :
    WF s' ∧ ((s'.size = s.size ∧ content s' = content s) ∨ (AssignFormatOverflow op s ∧ content s' = [])) := by
  by_cases hf : ∃ a out, op = .format a out
  · obtain ⟨a, out, rfl⟩ := hf
    obtain ⟨s1, e1, h1, w, hh | ⟨-, -, hh | hh | hh⟩⟩ := opFormat_spec s a out h
    · simp only [stepModel] at hr; rw [h1] at hr; cases hr; exact absurd hh.1 he
    · simp only [stepModel] at hr; rw [h1] at hr; cases hr; rw [hh.2]; exact ⟨h, Or.inl ⟨rfl, rfl⟩⟩
    · simp only [stepModel] at hr; rw [h1] at hr; cases hr; exact ⟨w, Or.inl ⟨hh.2.2.1, hh.2.2.2⟩⟩
    · simp only [stepModel] at hr; rw [h1] at hr; cases hr
      obtain ⟨hov, rfl, -, hc⟩ := hh
      exact ⟨w, Or.inr ⟨hov, hc⟩⟩
  · have := error_unchanged_struct op s s' e h hr he (fun a out ho => hf ⟨a, out, ho⟩)
    rw [this]; exact ⟨h, Or.inl ⟨rfl, rfl⟩⟩

theorem put_eq (a : Bool) (l t : List Nat) : (if a then [] else l) ++ t = if a then t else l ++ t := by
  cases a <;> simp

theorem step_of_outcome {s : Str} {r : Option (Str × Err)} {l l' : List Nat} {big big' : Prop}
    (h : Outcome s r l big) (hl : l = l') (hb : big → big') :
    ∃ s' e, r = some (s', e) ∧ WF s' ∧ ((e ≠ .oom ∧ content s' = l') ∨ (e = .oom ∧ s' = s ∧ big')) := by
  obtain ⟨s', e, hr, w, h | ⟨h1, h2, h3⟩⟩ := h
  · exact ⟨s', e, hr, w, Or.inl ⟨by rw [h.1]; decide, by rw [h.2, hl]⟩⟩
  · exact ⟨s', e, hr, w, Or.inr ⟨h1, h2, hb h3⟩⟩

theorem digits_length (base : Nat) : ∀ (fuel i : Nat) (acc : List Nat),
    (digits base fuel i acc).length ≤ fuel + acc.length := by
  intro fuel
  induction fuel with
  | zero => intro i acc; simp [digits]
  | succ fuel ih =>
    intro i acc
    unfold digits
    simp only []
    split
    · simp; omega
    · have := ih (i / base) (baseN.getD (i % base) 0 :: acc)
      simp only [List.length_cons] at this; omega

/-- the text of one number is short (sign, "0x", at most 256 padded digits) -/
theorem numberText_length (n base w f : Nat) (hn : n < 2 ^ 64) (t : List Nat)
    (h : numberText n base w f = some t) : t.length ≤ 259 := by
  obtain ⟨-, pre, k, ht, -, hk, -, -, -, hp⟩ := numberText_shape n base w f hn t h
  have := digits_length (if base = 0 then 10 else base) 64
    (if f &&& kSigned ≠ 0 ∧ n ≥ 2 ^ 63 then 2 ^ 64 - n else n) []
  rw [ht]; simp only [List.length_append, List.length_replicate]
  simp only [List.length_nil] at this
  omega

theorem specHexText_length (sep : Nat) : ∀ bs : List Nat, (specHexText bs sep).length ≤ 3 * bs.length
  | [] => by simp [specHexText]
  | [b] => by simp [specHexText]
  | b :: c :: rest => by
    have ih := specHexText_length sep (c :: rest)
    rw [specHexText]
    · simp only [List.length_append, List.length_cons, List.length_nil] at ih ⊢
      split <;> simp <;> omega
    · simp

/-- every operation, started from a well-formed string, stays inside its buffer, re-establishes the invariant and
does to the content exactly what the byte-list specification says (or reports out-of-memory and changes nothing) -/
theorem step_spec_nf (op : SOp) (s : Str) (h : WF s) (hnf : ∀ a out, op ≠ .format a out) :
    ∃ s' e, stepModel op s = some (s', e) ∧ WF s' ∧
      ((e ≠ .oom ∧ content s' = stepSpec op (content s)) ∨ (e = .oom ∧ s' = s ∧ 2 ^ 38 ≤ s.size + op.cost)) := by
  cases op with
  | format a out => exact absurd rfl (hnf a out)
  | reset => exact ⟨_, .ok, rfl, wf_init, Or.inl ⟨by decide, rfl⟩⟩
  | clear => exact step_of_outcome (clear_outcome s h False) rfl False.elim
  | assign bs => exact step_of_outcome (assign_spec s bs h) rfl (by simp only [SOp.cost]; omega)
  | string a bs => exact step_of_outcome (opString_spec s a bs h) (put_eq _ _ _) id
  | char a c => exact step_of_outcome (opChar_spec s a c h) (put_eq _ _ _) id
  | chars a c n => exact step_of_outcome (opChars_spec s a c n h) (put_eq _ _ _) id
  | padEnd n c => exact step_of_outcome (padEnd_spec s n c h) rfl id
  | hex a bs sep =>
    have := specHexText_length sep bs
    exact step_of_outcome (opHex_spec s a bs sep h) (put_eq _ _ _) (by simp only [SOp.cost]; omega)
  | truncate n =>
    obtain ⟨s', h1, w, c⟩ := truncate_spec s n h
    exact ⟨s', .ok, by simp [stepModel, h1], w, Or.inl ⟨by decide, c⟩⟩
  | number a i b w f =>
    have hs := opNumber_spec s a i.toNat b w f h
    have he := numberText_eq_spec i.toNat b w f i.isLt
    simp only [stepModel, stepSpec]
    rw [← he]
    cases hn : numberText i.toNat b w f with
    | none =>
      rw [hn] at hs
      exact ⟨s, .invalidArgument, hs, h, Or.inl ⟨by decide, rfl⟩⟩
    | some t =>
      rw [hn] at hs
      have := numberText_length i.toNat b w f i.isLt t hn
      exact step_of_outcome hs (put_eq _ _ _) (by simp only [SOp.cost]; omega)

/-- every operation (including format), started from a well-formed string, stays inside its buffer and returns a
well-formed string; unless it answers out-of-memory its content is what the byte-list specification says; on
out-of-memory (possible only for huge requests) size and content are unchanged, except for an assign-format whose
in-place attempt overflowed, which leaves the empty string -/
theorem step_spec (op : SOp) (s : Str) (h : WF s) :
    ∃ s' e, stepModel op s = some (s', e) ∧ WF s' ∧
      ((e ≠ .oom ∧ content s' = stepSpec op (content s)) ∨
       (e = .oom ∧ 2 ^ 38 ≤ s.size + op.cost ∧
         ((s'.size = s.size ∧ content s' = content s) ∨ (AssignFormatOverflow op s ∧ content s' = [])))) := by
  by_cases hf : ∃ a out, op = .format a out
  · obtain ⟨a, out, rfl⟩ := hf
    obtain ⟨s1, e1, h1, w, ⟨he, hc⟩ | ⟨he, hb, hh | hh | hh⟩⟩ := opFormat_spec s a out h
    · exact ⟨s1, e1, h1, w, Or.inl ⟨by rw [he]; decide, by rw [hc]; exact put_eq _ _ _⟩⟩
    · exact ⟨s1, e1, h1, w, Or.inr ⟨he, hb, Or.inl (by rw [hh.2]; exact ⟨rfl, rfl⟩)⟩⟩
    · exact ⟨s1, e1, h1, w, Or.inr ⟨he, hb, Or.inl ⟨hh.2.2.1, hh.2.2.2⟩⟩⟩
    · obtain ⟨hov, rfl, -, hc⟩ := hh
      exact ⟨s1, e1, h1, w, Or.inr ⟨he, hb, Or.inr ⟨hov, hc⟩⟩⟩
  · obtain ⟨s1, e1, h1, w, hh | ⟨he, hs, hb⟩⟩ := step_spec_nf op s h (fun a out ho => hf ⟨a, out, ho⟩)
    · exact ⟨s1, e1, h1, w, Or.inl hh⟩
    · exact ⟨s1, e1, h1, w, Or.inr ⟨he, hb, Or.inl (by rw [hs]; exact ⟨rfl, rfl⟩)⟩⟩

/-- **string_refines_bytes** (general form, allocation failures allowed): for every sequence of operations, started
from any well-formed string, no write ever leaves the buffer (`runModelE ≠ none`), the result is well formed, and its
content is what the byte-list specification computes when told, per operation, what the allocator did (`Flag`):
succeeded, failed with the content kept, or failed inside an assign-format that had to clear the string. -/
theorem string_refines_bytes_from (ops : List SOp) : ∀ (s : Str), WF s →
    ∃ s' oks, runModelE ops s = some (s', oks) ∧ oks.length = ops.length ∧ WF s' ∧
      content s' = runSpecE ops oks (content s) := by
  induction ops with
  | nil => intro s h; exact ⟨s, [], rfl, rfl, h, rfl⟩
  | cons op ops ih =>
    intro s h
    obtain ⟨s1, e, h1, w1, hc⟩ := step_spec op s h
    obtain ⟨s2, oks, h2, hlen, w2, c2⟩ := ih s1 w1
    refine ⟨s2, flagOf s s1 e :: oks, by simp [runModelE, h1, h2], by simp [hlen], w2, ?_⟩
    rw [c2]
    rcases hc with ⟨hne, hc⟩ | ⟨he, -, hh⟩
    · have : flagOf s s1 e = .ok := by simp [flagOf, hne]
      simp [runSpecE, this, hc]
    · subst he
      by_cases hz : s1.size = s.size
      · have hf : flagOf s s1 .oom = .unchanged := by simp [flagOf, hz]
        have hcs : content s1 = content s := by
          rcases hh with hh | hh
          · exact hh.2
          · have e1 : content s = [] := by
              apply List.eq_nil_of_length_eq_zero
              rw [content_length s h, ← hz, ← content_length s1 w1, hh.2]; rfl
            rw [hh.2, e1]
        simp [runSpecE, hf, hcs]
      · have hf : flagOf s s1 .oom = .cleared := by simp [flagOf, hz]
        have hcs : content s1 = [] := by
          rcases hh with hh | hh
          · exact absurd hh.1 hz
          · exact hh.2
        simp [runSpecE, hf, hcs]

theorem string_refines_bytes_oom (ops : List SOp) :
    ∃ s' oks, runModelE ops {} = some (s', oks) ∧ oks.length = ops.length ∧ WF s' ∧
      content s' = runSpecE ops oks [] :=
  string_refines_bytes_from ops {} wf_init

/-- total number of bytes a sequence can add -/
def totalCost (ops : List SOp) : Nat := (ops.map SOp.cost).sum

theorem stepSpec_length (op : SOp) (l : List Nat) : (stepSpec op l).length ≤ l.length + op.cost := by
  cases op with
  | number a i b w f =>
    simp only [stepSpec, SOp.cost]
    rw [← numberText_eq_spec i.toNat b w f i.isLt]
    cases hn : numberText i.toNat b w f with
    | none => simp
    | some t =>
      have := numberText_length i.toNat b w f i.isLt t hn
      cases a <;> simp <;> omega
  | hex a bs sep =>
    have := specHexText_length sep bs
    cases a <;> simp [stepSpec, SOp.cost] <;> omega
  | string a bs => cases a <;> simp [stepSpec, SOp.cost]
  | char a c => cases a <;> simp [stepSpec, SOp.cost]
  | chars a c n => cases a <;> simp [stepSpec, SOp.cost]
  | truncate n => simp [stepSpec, SOp.cost]; omega
  | padEnd n c => simp [stepSpec, SOp.cost]
  | format a out => cases a <;> simp [stepSpec, SOp.cost]
  | _ => simp [stepSpec, SOp.cost]

theorem string_refines_bytes_from_small (ops : List SOp) : ∀ (s : Str), WF s → s.size + totalCost ops < 2 ^ 38 →
    ∃ s', runModel ops s = some s' ∧ WF s' ∧ content s' = runSpec ops (content s) := by
  induction ops with
  | nil => intro s h _; exact ⟨s, rfl, h, rfl⟩
  | cons op ops ih =>
    intro s h hb
    have hb' : s.size + (op.cost + totalCost ops) < 2 ^ 38 := by simpa [totalCost] using hb
    obtain ⟨s1, e, h1, w1, hc⟩ := step_spec op s h
    rcases hc with ⟨hne, hc⟩ | ⟨-, hbig, -⟩
    · have hlen := stepSpec_length op (content s)
      rw [← hc, content_length s1 w1, content_length s h] at hlen
      obtain ⟨s2, h2, w2, c2⟩ := ih s1 w1 (by omega)
      refine ⟨s2, ?_, w2, by rw [c2, hc]; rfl⟩
      unfold runModel at h2 ⊢
      cases hr : runModelE ops s1 with
      | none => rw [hr] at h2; cases h2
      | some p => rw [hr] at h2; simpa [runModelE, h1, hr] using h2
    · omega

/-- **string_refines_bytes**: for every sequence of operations that adds fewer than 2^38 bytes in total (so that
the modelled allocator, `malloc(n)` succeeding for `n ≤ 2^40`, never fails), started from the empty string: no write
ever leaves the buffer, the final string is well formed (capacity consistent, null terminated) and its content is
exactly what the byte-list specification `runSpec` computes. -/
theorem string_refines_bytes (ops : List SOp) (hsmall : totalCost ops < 2 ^ 38) :
    ∃ s', runModel ops {} = some s' ∧ WF s' ∧ content s' = runSpec ops [] := by
  have := string_refines_bytes_from_small ops {} wf_init (by simpa using hsmall)
  simpa [content] using this

/-- the string is null terminated after any sequence of operations, whatever the allocator does -/
theorem null_terminated (ops : List SOp) : ∃ s', runModel ops {} = some s' ∧ terminated s' = true := by
  obtain ⟨s', oks, h, -, w, -⟩ := string_refines_bytes_oom ops
  refine ⟨s', by unfold runModel; rw [h]; rfl, ?_⟩
  unfold terminated; rw [w.2.2.1]; rfl

/-- without any side condition when fewer than 2^38 bytes are added in total -/
theorem null_terminated_small (ops : List SOp) (hsmall : totalCost ops < 2 ^ 38) :
    ∃ s', runModel ops {} = some s' ∧ terminated s' = true := by
  obtain ⟨s', h, w, -⟩ := string_refines_bytes ops hsmall
  refine ⟨s', h, ?_⟩
  unfold terminated; rw [w.2.2.1]; rfl

example : (runModel [.chars false 65 140, .format false (List.replicate 371 66), .format true [67, 68]] {}).map
    (fun s => (s.size, s.cap, terminated s)) = some (2, 511, true) := by decide +kernel
example : runSpec [.chars false 65 2, .format false [66], .format true [67, 68], .format false [69]] [] = [67, 68, 69] := by
  decide
example : (runModel [.string false [104, 105], .number false 255#64 16 4 kAlternate, .truncate 7, .char false 33] {}).map content
    = some [104, 105, 48, 120, 48, 48, 70, 33] := by decide
example : runSpec [.string false [104, 105], .padEnd 4 46, .string true [1]] [] = [1] := by decide
example : runSpec [.string false [104, 105], .padEnd 4 46, .hex false [255] 0] [] = [104, 105, 46, 46, 70, 70] := by decide
example : totalCost [.string false [104, 105], .padEnd 4 46, .hex false [255] 0] = 9 := by decide
example : runSpecE [.string false [1, 2], .format false [3], .format true [4], .char false 5] [.ok, .unchanged, .cleared, .ok] []
    = [5] := by decide
example : flagOf {} {} .oom = .unchanged ∧ flagOf (newTmp 3) (newTmp 3) .invalidArgument = .ok := by decide
example : runSpecE [.string false [104, 105], .number false 255#64 16 4 4, .truncate 7, .char false 33] [.ok, .ok, .ok, .ok] []
    = [104, 105, 48, 120, 48, 48, 70, 33] := by
  simp [runSpecE, stepSpec, specNumberText, specDigits, digitChar, flagSet]

section AxiomCheck
/-- info: 'AsmjitVerif.Str.string_refines_bytes' depends on axioms: [propext, Classical.choice, Quot.sound] -/
#guard_msgs in #print axioms string_refines_bytes
end AxiomCheck

end AsmjitVerif.Str
