/- C06 part 2 – phase 3 of emit_args_assignment: arguments that arrive on the stack are loaded into their destination registers. -/
import AsmjitVerif.Lemmas.C06ShuffleInit
namespace AsmjitVerif.C06S
open AsmjitVerif.CallConv AsmjitVerif.Shuffle AsmjitVerif.Machine

/-- the instruction `emit_arg_move` selects for a stack source is a register load from exactly that address whose effect turns
    the token into destination form (`true` when nothing is selected) -/
def loadOkAt (cfg : Cfg) (vis : List VarInfo) (rtD tD tS : Nat) (tok : Tok) (d base : Nat) (off : Int) : Bool :=
  match argMove cfg rtD d tD (.mem base off 0) tS with
  | none => true
  | some i =>
    match i.ops with
    | [.reg rd d', .mem b o sz] =>
      d' == d && b == base && o == off && groupOf rd == groupOf rtD && !isStoreMn i.name &&
        (match effect i.name rd sz with
         | some (k, c, w) => (moveTok vis tok k c w).dv
         | none => false)
    | _ => false

/-- hypotheses of phase 3; `sa` is the register the stack arguments are addressed through -/
structure Hyp3 (p : Params) (sa : Nat) : Prop where
  load : ∀ i d off, i < p.n → d < 32 →
    loadOkAt p.cfg p.vis (p.out i).regType (p.out i).typeId (p.src i).typeId (initTok p.vis i) d sa off = true
  nsa : ∀ i, i < p.n → ¬ ((p.out i).regId = sa ∧ groupOf (p.out i).regType = 0)
  dd : ∀ i j, i < p.n → j < p.n → i ≠ j →
    ¬ (groupOf (p.out i).regType = groupOf (p.out j).regType ∧ (p.out i).regId = (p.out j).regId)
  saLoc : ∀ (s : State) (o : Int), loadLoc p.f p.cfg.arch s sa (p.f.saOffset p.cfg.arch sa + o) = some (.argStack o)

theorem loadOkAt_elim {cfg : Cfg} {vis : List VarInfo} {rtD tD tS : Nat} {tok : Tok} {d base : Nat} {off : Int} {ins : Inst}
    (h : loadOkAt cfg vis rtD tD tS tok d base off = true) (hm : argMove cfg rtD d tD (.mem base off 0) tS = some ins) :
    ∃ rd sz k c w, ins.ops = [.reg rd d, .mem base off sz] ∧ groupOf rd = groupOf rtD ∧ isStoreMn ins.name = false ∧
      effect ins.name rd sz = some (k, c, w) ∧ (moveTok vis tok k c w).dv = true := by
  unfold loadOkAt at h
  rw [hm] at h
  simp only at h
  split at h
  · rename_i rd d' b o sz hops
    simp only [Bool.and_eq_true, beq_iff_eq, Bool.not_eq_true'] at h
    obtain ⟨⟨⟨⟨⟨hd, hb⟩, ho⟩, hg⟩, hst⟩, he⟩ := h
    split at he
    · rename_i k c w heff
      exact ⟨rd, sz, k, c, w, by rw [hops, hd, hb, ho], hg, hst, heff, he⟩
    · exact absurd he (by simp)
  · exact absurd h (by simp)

def AllRegDone (p : Params) (e : Emit) : Prop :=
  ∀ j, j < p.n → (e.ctx.var j).cur.isReg = true → (e.ctx.var j).done = true

/-- one variable of phase 3: a stack-resident variable is loaded into its destination register and becomes a done register
    variable; every other variable is untouched -/
theorem stackLoad_ok (p : Params) (sa : Nat) (h3 : Hyp3 p sa) (e : Emit) (M : State) (hw : WF p e M) (hdone : AllRegDone p e)
    (i : Nat) (hi : i < p.n) (e' : Emit) (ic' : Nat) (h : stackLoadVar p.cfg p.f sa (e, 1) i = .ok (e', ic')) :
    ic' = 1 ∧ (∃ M', WF p e' M') ∧ AllRegDone p e' ∧ (e'.ctx.var i).cur.isReg = true ∧
    (∀ j, (e.ctx.var j).cur.isReg = true → (e'.ctx.var j).cur.isReg = true) := by
  unfold stackLoadVar at h
  simp only at h
  by_cases hreg : (e.ctx.var i).cur.isReg = true
  · -- already a register variable: nothing happens
    have hv := hw.var i hi hreg
    simp only [hv.notStk, Bool.not_false, Bool.or_true, if_true] at h
    cases h
    exact ⟨rfl, ⟨M, hw⟩, hdone, hreg, fun _ h => h⟩
  · have hreg' : (e.ctx.var i).cur.isReg = false := by simpa using hreg
    have hs := hw.stk i hi hreg'
    generalize hvdef : e.ctx.var i = v at hs h hreg'
    simp only [hs.notDone, hs.isStk, Bool.not_true, Bool.or_self, Bool.false_eq_true, if_false] at h
    have hnsa := h3.nsa i hi
    rw [← hs.out] at hnsa
    have hcond : (decide (v.out.regId = sa) && decide (groupOf v.out.regType = 0) && decide True) = false := by
      simp only [decide_true, Bool.and_true]
      cases h1 : decide (v.out.regId = sa) <;> cases h2 : decide (groupOf v.out.regType = 0) <;> simp_all
    simp only [hcond, Bool.false_eq_true, if_false] at h
    have hcond2 : (decide (v.out.regId = sa) && decide (groupOf v.out.regType = 0)) = false := by
      cases h1 : decide (v.out.regId = sa) <;> cases h2 : decide (groupOf v.out.regType = 0) <;> simp_all
    simp only [hcond2, Bool.false_eq_true, if_false] at h
    cases hmv : argMove p.cfg v.out.regType v.out.regId v.out.typeId
        (.mem sa (p.f.saOffset p.cfg.arch sa + (v.cur.stackOffset : Int)) 0) v.cur.typeId with
    | none => simp [hmv] at h
    | some ins =>
      simp only [hmv] at h
      have hl := h3.load i v.out.regId (p.f.saOffset p.cfg.arch sa + (v.cur.stackOffset : Int)) hi hs.outLt
      rw [← hs.out, ← hs.cur] at hl
      obtain ⟨rd, sz, k, c, w, hops, hgd, hst, heff, hdv⟩ := loadOkAt_elim hl hmv
      let g := groupOf v.out.regType
      let tok' := moveTok p.vis (initTok p.vis i) k c w
      let M' := M.set (.reg g v.out.regId) (some tok')
      have hstep : step p.vis p.f p.cfg.arch M ins = some M' := by
        unfold step
        rw [hops]
        simp only [hst, Bool.false_eq_true, if_false, h3.saLoc, heff, hgd, hs.tok, Option.map_some]
        rfl
      -- the destination register holds no variable
      have hglt : g < 4 := hs.grpLt
      have hfree : physAt e.ctx g v.out.regId = none := by
        cases hp : physAt e.ctx g v.out.regId with
        | none => rfl
        | some j =>
          exfalso
          obtain ⟨hj, a2, a3, a4⟩ := hw.inv g v.out.regId j hglt hs.outLt hp
          have hvj := hw.var j hj a4
          obtain ⟨_, _, _, _, hdj⟩ := hvj.tok
          have hji : j ≠ i := by intro hh; subst hh; rw [hvdef, hreg'] at a4; exact absurd a4 (by simp)
          have hrid := (hdj (hdone j hj a4)).1
          exact h3.dd j i hj hi hji ⟨by rw [← hvj.out, ← hs.out, ← hvj.grp, a2], by rw [← hvj.out, ← hs.out, ← hrid, a3]⟩
      have hcl : e.ctx.vars.length = p.n := hw.len
      have hwl : e.ctx.wd.length = 4 := hw.wdlen
      have hpl : (e.ctx.w g).phys.length = 32 := hw.physlen g hglt
      generalize hvar'def : ({ v with cur := FuncValue.reg v.cur.typeId v.out.regType v.out.regId, done := true } : Var) = var' at h
      generalize hc'def : ((e.push ins).ctx.setW (groupOf v.out.regType) ((e.ctx.w (groupOf v.out.regType)).assign i v.out.regId)).setVar i var' = c' at h
      simp only [Except.ok.injEq, Prod.mk.injEq] at h
      obtain ⟨he', hic⟩ := h
      subst he'
      have hvar'i : c'.var i = var' := by
        rw [← hc'def]; exact var_setVar_eq _ _ _ (by simp [Ctx.setW, Emit.push, hcl, hi])
      have hvar'j : ∀ j, j ≠ i → c'.var j = e.ctx.var j := by
        intro j hj; rw [← hc'def, var_setVar_ne _ _ _ _ (fun h => hj h.symm)]; rfl
      have hphys' : ∀ g' r, physAt c' g' r = if g' = g ∧ r = v.out.regId then some i else physAt e.ctx g' r := by
        intro g' r
        rw [← hc'def]; unfold physAt; rw [w_setVar]
        by_cases hgg : g' = g
        · subst hgg
          rw [w_setW_eq _ _ _ (by simp [Emit.push, hwl]; exact hs.grpLt)]
          show ((e.ctx.w g).assign i v.out.regId).phys.getD r none = _
          rw [assign_getD _ _ _ _ (by rw [hpl]; exact hs.outLt)]
          by_cases hr : r = v.out.regId <;> simp [hr]
        · rw [w_setW_ne _ _ _ _ (fun h => hgg h.symm)]
          simp only [hgg, false_and, if_false]; rfl
      have hother : ∀ j, j < p.n → (e.ctx.var j).cur.isReg = true →
          ¬ (groupOf (e.ctx.var j).cur.regType = g ∧ (e.ctx.var j).cur.regId = v.out.regId) := by
        intro j hj hrj ⟨h1, h2⟩
        have := (hw.var j hj hrj).phys
        rw [h1, h2, hfree] at this; exact absurd this (by simp)
      refine ⟨hic.symm, ⟨M', ⟨?_, ?_, ?_, ?_, ?_, ?_, ?_⟩⟩, ?_, ?_, ?_⟩
      · show c'.vars.length = p.n
        rw [← hc'def]; simp [Ctx.setVar, Ctx.setW, Emit.push, hcl]
      · show c'.wd.length = 4
        rw [← hc'def]; simp [Ctx.setVar, Ctx.setW, Emit.push, hwl]
      · intro g' hg'
        show (c'.w g').phys.length = 32
        rw [← hc'def, w_setVar]
        by_cases hgg : g' = g
        · subst hgg
          rw [w_setW_eq _ _ _ (by simp [Emit.push, hwl]; exact hs.grpLt)]
          show ((e.ctx.w g).assign i v.out.regId).phys.length = 32
          simp [WorkData.assign, hpl]
        · rw [w_setW_ne _ _ _ _ (fun h => hgg h.symm)]; exact hw.physlen g' hg'
      · exact run_push _ _ _ _ _ _ _ _ hw.runs hstep
      · intro j hj hrj'
        show VarOK p c' M' j (c'.var j)
        replace hrj' : (c'.var j).cur.isReg = true := hrj'
        by_cases hji : j = i
        · subst hji
          rw [hvar'i, ← hvar'def]
          refine ⟨hs.out, rfl, rfl, hs.outReg, hs.outInit, rfl, hs.grpLt, hs.outLt, hs.outLt, ?_, ?_, fun h => absurd h (by simp)⟩
          · show physAt c' (groupOf v.out.regType) v.out.regId = some j
            rw [hphys']; simp [g]
          · refine ⟨tok', get_set_self _ _ _, ?_, fun h => absurd h (by simp), fun _ => ⟨rfl, hdv⟩⟩
            show (moveTok p.vis (initTok p.vis j) k c w).var = j
            rw [moveTok_var]; simp [initTok]
        · rw [hvar'j j hji] at hrj' ⊢
          have hvj := hw.var j hj hrj'
          have hne := hother j hj hrj'
          refine ⟨hvj.out, hvj.curReg, hvj.notStk, hvj.outReg, hvj.outInit, hvj.grp, hvj.grpLt, hvj.curLt, hvj.outLt, ?_, ?_, hvj.srcReg⟩
          · rw [hphys']; simp only [hne, if_false]; exact hvj.phys
          · obtain ⟨tj, hgetj, r1, r2, r3⟩ := hvj.tok
            refine ⟨tj, ?_, r1, r2, r3⟩
            rw [← hgetj]
            apply get_set_ne
            intro heq
            simp only [vloc, Loc.reg.injEq] at heq
            exact hne heq
      · intro j hj hnr
        show StkOK p M' j (c'.var j)
        replace hnr : (c'.var j).cur.isReg = false := hnr
        have hji : j ≠ i := by
          intro hh; subst hh; rw [hvar'i, ← hvar'def] at hnr; simp [FuncValue.reg] at hnr
        rw [hvar'j j hji] at hnr ⊢
        have hsj := hw.stk j hj hnr
        exact ⟨hsj.out, hsj.cur, hsj.isStk, hsj.direct, hsj.notDone, hsj.outReg, hsj.outInit, hsj.grpLt, hsj.outLt, by
          rw [← hsj.tok]; exact get_set_ne _ _ _ _ (by intro h; cases h)⟩
      · intro g' r j' hg' hr hpj
        show j' < p.n ∧ groupOf (c'.var j').cur.regType = g' ∧ (c'.var j').cur.regId = r ∧ (c'.var j').cur.isReg = true
        replace hpj : physAt c' g' r = some j' := hpj
        rw [hphys'] at hpj
        by_cases hgr : g' = g ∧ r = v.out.regId
        · simp only [hgr, and_self, if_true] at hpj
          have : j' = i := (Option.some.inj hpj).symm
          subst this
          rw [hvar'i, ← hvar'def]
          exact ⟨hi, hgr.1.symm, hgr.2.symm, rfl⟩
        · simp only [hgr, if_false] at hpj
          obtain ⟨a1, a2, a3, a4⟩ := hw.inv g' r j' hg' hr hpj
          have hji : j' ≠ i := by intro hh; subst hh; rw [hvdef, hreg'] at a4; exact absurd a4 (by simp)
          rw [hvar'j j' hji]; exact ⟨a1, a2, a3, a4⟩
      · intro j hj hrj
        show (c'.var j).done = true
        replace hrj : (c'.var j).cur.isReg = true := hrj
        by_cases hji : j = i
        · subst hji; rw [hvar'i, ← hvar'def]
        · rw [hvar'j j hji] at hrj ⊢; exact hdone j hj hrj
      · show (c'.var i).cur.isReg = true
        rw [hvar'i, ← hvar'def]; rfl
      · intro j hrj
        show (c'.var j).cur.isReg = true
        by_cases hji : j = i
        · subst hji; rw [hvar'i, ← hvar'def]; rfl
        · rw [hvar'j j hji]; exact hrj

/-- the whole load tail: after it every visited variable is a done register variable -/
theorem phase3_ok (p : Params) (sa : Nat) (h3 : Hyp3 p sa) : ∀ (L : List Nat) (e : Emit) (M : State), WF p e M → AllRegDone p e →
    (∀ j ∈ L, j < p.n) → ∀ e' ic', L.foldlM (stackLoadVar p.cfg p.f sa) (e, 1) = .ok (e', ic') →
    ic' = 1 ∧ (∃ M', WF p e' M') ∧ AllRegDone p e' ∧ (∀ j ∈ L, (e'.ctx.var j).cur.isReg = true) ∧
    (∀ j, (e.ctx.var j).cur.isReg = true → (e'.ctx.var j).cur.isReg = true) := by
  intro L
  induction L with
  | nil =>
    intro e M hw hd _ e' ic' h
    simp only [List.foldlM_nil, pure, Except.pure] at h
    cases h
    exact ⟨rfl, ⟨M, hw⟩, hd, fun j hj => absurd hj (by simp), fun _ h => h⟩
  | cons a L ih =>
    intro e M hw hd hL e' ic' h
    rw [List.foldlM_cons] at h
    cases hs : stackLoadVar p.cfg p.f sa (e, 1) a with
    | error x => rw [hs] at h; simp [bind, Except.bind] at h
    | ok s1 =>
      obtain ⟨e1, ic1⟩ := s1
      rw [hs] at h
      simp only [bind, Except.bind] at h
      obtain ⟨hic, ⟨M1, hw1⟩, hd1, hra, hk1⟩ := stackLoad_ok p sa h3 e M hw hd a (hL a (by simp)) e1 ic1 hs
      subst hic
      obtain ⟨hic', hwf, hd', hall, hk⟩ := ih e1 M1 hw1 hd1 (fun j hj => hL j (by simp [hj])) e' ic' h
      refine ⟨hic', hwf, hd', ?_, fun j hj => hk j (hk1 j hj)⟩
      intro j hj
      rcases List.mem_cons.1 hj with rfl | hj'
      · exact hk _ hra
      · exact hall j hj'

/-- phase 3 does nothing when every variable already is a register variable -/
theorem phase3_noop (p : Params) (sa : Nat) (e : Emit) (M : State) (hw : WF p e M)
    (hall : ∀ j, j < p.n → (e.ctx.var j).cur.isReg = true) :
    ∀ (L : List Nat), (∀ j ∈ L, j < p.n) → L.foldlM (stackLoadVar p.cfg p.f sa) (e, 1) = .ok (e, 1) := by
  intro L
  induction L with
  | nil => intro _; rfl
  | cons a L ih =>
    intro hL
    rw [List.foldlM_cons]
    have hv := hw.var a (hL a (by simp)) (hall a (hL a (by simp)))
    have : stackLoadVar p.cfg p.f sa (e, 1) a = .ok (e, 1) := by
      unfold stackLoadVar; simp [hv.notStk]
    rw [this]
    simp only [bind, Except.bind]
    exact ih (fun j hj => hL j (by simp [hj]))

end AsmjitVerif.C06S
