/-
ArenaHash (Model/Hash.lean) refines a finite map: well-formedness invariant `WF`, its preservation by
insert / rehash / remove / release for every arena state, reachability of `get`, and the sequence theorems
`hash_refines_map` (map protocol: fresh node, key absent at insertion; deterministic association-list spec).
-/
import AsmjitVerif.Lemmas.C18Hash
import AsmjitVerif.Spec.C18HashList
namespace AsmjitVerif.Hash
open AsmjitVerif.Arena AsmjitVerif.Spec.C18HashList

/-! ### generic list-of-chains lemmas -/

theorem flatten_modify_cons_perm {α} (l : List (List α)) (i : Nat) (x : α) (hi : i < l.length) :
    (l.modify i (fun c => x :: c)).flatten.Perm (x :: l.flatten) := by
  induction l generalizing i with
  | nil => simp at hi
  | cons c l ih =>
    cases i with
    | zero => simp
    | succ i =>
      simp only [List.length_cons, Nat.add_lt_add_iff_right] at hi
      simp only [List.modify_succ_cons, List.flatten_cons]
      exact ((ih i hi).append_left c).trans List.perm_middle

theorem flatten_set_perm {α} (l : List (List α)) (i : Nat) (hi : i < l.length) (c' : List α) (x : α)
    (h : l[i].Perm (x :: c')) : l.flatten.Perm (x :: (l.set i c').flatten) := by
  induction l generalizing i with
  | nil => simp at hi
  | cons c l ih =>
    cases i with
    | zero =>
      simp only [List.getElem_cons_zero] at h
      simp only [List.set_cons_zero, List.flatten_cons]
      exact h.append_right _
    | succ i =>
      simp only [List.length_cons, Nat.add_lt_add_iff_right] at hi
      simp only [List.getElem_cons_succ] at h
      simp only [List.set_cons_succ, List.flatten_cons]
      exact ((ih i hi h).append_left c).trans List.perm_middle

/-- every chain holds exactly the nodes whose index is the chain's position -/
def Placed (g : Node → Nat) (l : List (List Node)) : Prop :=
  ∀ i (hi : i < l.length), ∀ n ∈ l[i], g n = i

theorem placed_replicate (g : Node → Nat) (k : Nat) : Placed g (List.replicate k []) := by
  intro i hi n hn
  simp at hn

theorem placed_modify (g : Node → Nat) (l : List (List Node)) (x : Node) (hl : Placed g l) :
    Placed g (l.modify (g x) (fun c => x :: c)) := by
  intro i hi n hn
  rw [List.length_modify] at hi
  rw [List.getElem_modify] at hn
  split at hn
  · rename_i heq
    rcases List.mem_cons.1 hn with h | h
    · rw [h]; exact heq
    · exact hl i hi n h
  · exact hl i hi n hn

theorem placed_set (g : Node → Nat) (l : List (List Node)) (i : Nat) (c' : List Node) (hl : Placed g l)
    (hsub : ∀ n ∈ c', n ∈ l.getD i []) : Placed g (l.set i c') := by
  intro j hj n hn
  rw [List.length_set] at hj
  rw [List.getElem_set] at hn
  split at hn
  · rename_i heq
    subst heq
    have := hsub n hn
    rw [List.getD_eq_getElem?_getD, List.getElem?_eq_getElem hj] at this
    exact hl i hj n this
  · exact hl j hj n hn

theorem mem_flatten_of_getElem {α} (l : List (List α)) (i : Nat) (hi : i < l.length) (x : α) (hx : x ∈ l[i]) :
    x ∈ l.flatten :=
  List.mem_flatten.2 ⟨l[i], List.getElem_mem hi, hx⟩


/-! ### the invariant -/

theorem prime_rows_ok : AsmjitVerif.Gen.hashPrimes.all rowOk = true := by decide

/-- `(count, rcp, shift)` is the embedded initial triple or a row of the prime table -/
def ParamOK (c r s : Nat) : Prop :=
  (c = 1 ∧ r = 1 ∧ s = 0) ∨ ∃ g, (c, r, s, g) ∈ AsmjitVerif.Gen.hashPrimes

def pr (n : Node) : Nat × Nat := (n.uid, n.key)

structure WF (t : Table) : Prop where
  len : t.buckets.length = t.count
  pos : 0 < t.count
  size_eq : t.size = (allNodes t).length
  placed : Placed (fun n => n.hash % t.count) t.buckets
  hash32 : ∀ n ∈ allNodes t, n.hash < 2 ^ 32
  uids : ((allNodes t).map Node.uid).Nodup
  param : ParamOK t.count t.rcp t.shift

theorem calcModRaw_param (c r s h : Nat) (hp : ParamOK c r s) (hh : h < 2 ^ 32) : calcModRaw c r s h = h % c := by
  rcases hp with ⟨h1, h2, h3⟩ | ⟨g, hg⟩
  · subst h1 h2 h3
    simp only [calcModRaw, u64, u32, Nat.mul_one, Nat.shiftRight_zero]
    have : h % 2 ^ 64 = h := Nat.mod_eq_of_lt (by omega)
    rw [this, Nat.mod_mod]
    omega
  · exact calcModRaw_eq_mod c r s g h (List.all_eq_true.1 prime_rows_ok _ hg) hh

/-- `_calc_mod` is the remainder modulo the bucket count -/
theorem calcMod_eq (t : Table) (h : Nat) (hw : WF t) (hh : h < 2 ^ 32) : calcMod t h = h % t.count :=
  calcModRaw_param _ _ _ _ hw.param hh

example : calcMod {} 12345 = 12345 % 1 := by decide

theorem wf_empty : WF {} where
  len := rfl
  pos := by decide
  size_eq := rfl
  placed := by
    intro i hi n hn
    have : i = 0 := by simpa using hi
    subst this
    simp at hn
  hash32 := by intro n hn; simp [allNodes] at hn
  uids := by simp [allNodes]
  param := Or.inl ⟨rfl, rfl, rfl⟩

/-! ### rehash -/

theorem rehashChain_spec (c r s : Nat) (nb : List (List Node)) (chain : List Node)
    (hidx : ∀ n ∈ chain, calcModRaw c r s n.hash < nb.length)
    (hpl : Placed (fun n => calcModRaw c r s n.hash) nb) :
    (rehashChain c r s nb chain).length = nb.length ∧
    Placed (fun n => calcModRaw c r s n.hash) (rehashChain c r s nb chain) ∧
    (rehashChain c r s nb chain).flatten.Perm (chain ++ nb.flatten) := by
  induction chain generalizing nb with
  | nil => exact ⟨rfl, hpl, List.Perm.refl _⟩
  | cons x chain ih =>
    have hx := hidx x (List.mem_cons_self)
    have hlen : (nb.modify (calcModRaw c r s x.hash) (fun c => x :: c)).length = nb.length := List.length_modify ..
    have := ih (nb.modify (calcModRaw c r s x.hash) (fun c => x :: c))
      (by intro n hn; rw [hlen]; exact hidx n (List.mem_cons_of_mem _ hn))
      (placed_modify (fun n => calcModRaw c r s n.hash) nb x hpl)
    obtain ⟨h1, h2, h3⟩ := this
    refine ⟨by simpa [rehashChain, hlen] using h1, by simpa [rehashChain] using h2, ?_⟩
    have h4 : (rehashChain c r s nb (x :: chain)).flatten.Perm
        (chain ++ (nb.modify (calcModRaw c r s x.hash) (fun c => x :: c)).flatten) := by
      simpa [rehashChain] using h3
    refine h4.trans ?_
    refine ((flatten_modify_cons_perm nb _ x hx).append_left chain).trans ?_
    exact List.perm_middle

theorem rehashAll_spec (c r s : Nat) (nb : List (List Node)) (bs : List (List Node))
    (hidx : ∀ n ∈ bs.flatten, calcModRaw c r s n.hash < nb.length)
    (hpl : Placed (fun n => calcModRaw c r s n.hash) nb) :
    (bs.foldl (rehashChain c r s) nb).length = nb.length ∧
    Placed (fun n => calcModRaw c r s n.hash) (bs.foldl (rehashChain c r s) nb) ∧
    (bs.foldl (rehashChain c r s) nb).flatten.Perm (bs.flatten ++ nb.flatten) := by
  induction bs generalizing nb with
  | nil => exact ⟨rfl, hpl, List.Perm.refl _⟩
  | cons b bs ih =>
    have hb := rehashChain_spec c r s nb b
      (by intro n hn; exact hidx n (by simp [hn])) hpl
    obtain ⟨b1, b2, b3⟩ := hb
    have := ih (rehashChain c r s nb b)
      (by intro n hn; rw [b1]; exact hidx n (by simp [hn])) b2
    obtain ⟨h1, h2, h3⟩ := this
    refine ⟨by simpa [b1] using h1, by simpa using h2, ?_⟩
    simp only [List.foldl_cons, List.flatten_cons]
    refine h3.trans ?_
    refine (b3.append_left bs.flatten).trans ?_
    rw [List.append_assoc]
    exact List.perm_append_comm_assoc _ _ _


theorem rowOk_pos {d m s g : Nat} (h : rowOk (d, m, s, g) = true) : 0 < d := by
  simp only [rowOk, decide_eq_true_eq] at h
  exact h.1

/-- the table built by a successful `_rehash` -/
theorem rehash_core (t : Table) (hw : WF t) (prime rcp shift grow pi : Nat) (d : Option Loc)
    (hmem : (prime, rcp, shift, grow) ∈ AsmjitVerif.Gen.hashPrimes) (t' : Table)
    (ht' : t' = { t with data := d, buckets := t.buckets.foldl (rehashChain prime rcp shift) (List.replicate prime []),
                         count := prime, grow := grow, rcp := rcp, shift := shift, primeIndex := pi }) :
    WF t' ∧ (allNodes t').Perm (allNodes t) := by
  have hok : rowOk (prime, rcp, shift, grow) = true := List.all_eq_true.1 prime_rows_ok _ hmem
  have hpos : 0 < prime := rowOk_pos hok
  have hcm : ∀ n ∈ allNodes t, calcModRaw prime rcp shift n.hash = n.hash % prime := fun n hn =>
    calcModRaw_eq_mod prime rcp shift grow n.hash hok (hw.hash32 n hn)
  have hspec := rehashAll_spec prime rcp shift (List.replicate prime []) t.buckets
    (by
      intro n hn
      rw [hcm n hn, List.length_replicate]
      exact Nat.mod_lt _ hpos)
    (placed_replicate _ _)
  obtain ⟨h1, h2, h3⟩ := hspec
  rw [List.flatten_replicate_nil, List.append_nil] at h3
  rw [List.length_replicate] at h1
  have hb : t'.buckets = t.buckets.foldl (rehashChain prime rcp shift) (List.replicate prime []) := by rw [ht']
  have hc : t'.count = prime := by rw [ht']
  have hs : t'.size = t.size := by rw [ht']
  have hr : t'.rcp = rcp := by rw [ht']
  have hsh : t'.shift = shift := by rw [ht']
  have hperm : (allNodes t').Perm (allNodes t) := by
    unfold allNodes; rw [hb]; exact h3
  refine ⟨?_, hperm⟩
  constructor
  · rw [hb, hc]; exact h1
  · rw [hc]; exact hpos
  · rw [hs, hw.size_eq]
    exact hperm.length_eq.symm
  · rw [hb, hc]
    intro i hi n hn
    have hn' : n ∈ allNodes t := h3.subset (mem_flatten_of_getElem _ i hi n hn)
    have := h2 i hi n hn
    simp only [] at this
    rw [hcm n hn'] at this
    exact this
  · intro n hn
    exact hw.hash32 n (hperm.subset hn)
  · exact ((hperm.map Node.uid).nodup_iff).2 hw.uids
  · rw [hc, hr, hsh]; exact Or.inr ⟨grow, hmem⟩

/-- `_rehash` (any arena state, allocation may fail): the invariant is kept and the nodes are the same multiset.
(Proof note: the kernel must never be asked to iota-reduce a `match allocReusable …`, it would unfold the arena model;
hence the matcher equation lemmas and `generalize`.) -/
theorem rehash_spec (a : State) (t : Table) (pi : Nat) (hw : WF t) :
    WF (rehash a t pi).2 ∧ (allNodes (rehash a t pi).2).Perm (allNodes t) := by
  unfold rehash
  generalize hrow : AsmjitVerif.Gen.hashPrimes[pi]? = o
  rcases o with _ | ⟨prime, rcp, shift, grow⟩
  · exact ⟨hw, List.Perm.refl _⟩
  · have hmem : (prime, rcp, shift, grow) ∈ AsmjitVerif.Gen.hashPrimes := List.mem_of_getElem? hrow
    simp -iota -zeta only [rehash.match_5.eq_2]
    generalize allocReusable a (prime * 8) = res
    rcases res with ⟨a1, _ | p, k⟩
    · exact ⟨hw, List.Perm.refl _⟩
    · exact rehash_core t hw prime rcp shift grow pi (some p) hmem _ rfl


example : (allNodes (rehash {} { buckets := [[⟨1, 10, 7⟩, ⟨2, 11, 8⟩]], size := 2 } 0).2).Perm [⟨1, 10, 7⟩, ⟨2, 11, 8⟩] :=
  (rehash_spec _ _ _ ⟨rfl, by decide, rfl, by
      intro i hi n hn
      have : i = 0 := by simpa using hi
      subst this; simp [Nat.mod_one],
    by intro n hn; simp [allNodes] at hn; rcases hn with h | h <;> subst h <;> decide,
    by decide, Or.inl ⟨rfl, rfl, rfl⟩⟩).2

/-! ### membership = reachability -/

theorem getD_eq_getElem {α} (l : List (List α)) (i : Nat) (hi : i < l.length) : l.getD i [] = l[i] := by
  rw [List.getD_eq_getElem?_getD, List.getElem?_eq_getElem hi]; rfl

/-- a node is in the table iff it is in the chain `get`/`remove` walk for its hash -/
theorem mem_allNodes_iff (t : Table) (hw : WF t) (n : Node) :
    n ∈ allNodes t ↔ n ∈ t.buckets.getD (n.hash % t.count) [] := by
  have hm : n.hash % t.count < t.buckets.length := by rw [hw.len]; exact Nat.mod_lt _ hw.pos
  rw [getD_eq_getElem _ _ hm]
  constructor
  · intro hn
    obtain ⟨c, hc, hnc⟩ := List.mem_flatten.1 hn
    obtain ⟨i, hi, rfl⟩ := List.getElem_of_mem hc
    have := hw.placed i hi n hnc
    simp only [] at this
    simp only [this]
    exact hnc
  · intro hn
    exact mem_flatten_of_getElem _ _ hm n hn

theorem uid_inj (l : List Node) (hnd : (l.map Node.uid).Nodup) (x y : Node) (hx : x ∈ l) (hy : y ∈ l)
    (h : x.uid = y.uid) : x = y := by
  induction l with
  | nil => simp at hx
  | cons z l ih =>
    rw [List.map_cons, List.nodup_cons] at hnd
    rcases List.mem_cons.1 hx with hx | hx <;> rcases List.mem_cons.1 hy with hy | hy
    · rw [hx, hy]
    · exfalso; apply hnd.1; rw [← hx, h]; exact List.mem_map_of_mem hy
    · exfalso; apply hnd.1; rw [← hy, ← h]; exact List.mem_map_of_mem hx
    · exact ih hnd.2 hx hy

theorem filter_uid_perm (l : List Node) (hnd : (l.map Node.uid).Nodup) (x : Node) (hx : x ∈ l) (u : Nat)
    (hu : x.uid = u) : l.Perm (x :: l.filter (fun y => y.uid != u)) := by
  induction l with
  | nil => simp at hx
  | cons z l ih =>
    rw [List.map_cons, List.nodup_cons] at hnd
    rcases List.mem_cons.1 hx with hx | hx
    · subst hx
      have hf : (x :: l).filter (fun y => y.uid != u) = l := by
        rw [List.filter_cons_of_neg (by simp [hu])]
        apply List.filter_eq_self.2
        intro y hy
        have : y.uid ≠ u := by
          intro h; apply hnd.1; rw [hu, ← h]; exact List.mem_map_of_mem hy
        simpa using this
      rw [hf]
    · have hz : z.uid ≠ u := by
        intro h; apply hnd.1; rw [h, ← hu]; exact List.mem_map_of_mem hx
      rw [List.filter_cons_of_pos (by simpa using hz)]
      exact ((ih hnd.2 hx).cons z).trans (List.Perm.swap x z _)

theorem sublist_flatten_of_mem {α} (l : List (List α)) (c : List α) (hc : c ∈ l) : c.Sublist l.flatten := by
  obtain ⟨l1, l2, rfl⟩ := List.append_of_mem hc
  rw [List.flatten_append, List.flatten_cons]
  exact ((List.sublist_append_left _ _).trans (List.sublist_append_right _ _))

theorem chain_uids_nodup (t : Table) (hw : WF t) (i : Nat) (hi : i < t.buckets.length) :
    ((t.buckets[i]).map Node.uid).Nodup :=
  ((sublist_flatten_of_mem _ _ (List.getElem_mem hi)).map Node.uid).nodup hw.uids

/-! ### insert -/

theorem insert_core (t : Table) (hw : WF t) (n : Node) (hh : n.hash < 2 ^ 32)
    (hfresh : n.uid ∉ (allNodes t).map Node.uid) (t1 : Table)
    (ht1 : t1 = { t with buckets := t.buckets.modify (n.hash % t.count) (fun c => n :: c), size := t.size + 1 }) :
    WF t1 ∧ (allNodes t1).Perm (n :: allNodes t) := by
  have hm : n.hash % t.count < t.buckets.length := by rw [hw.len]; exact Nat.mod_lt _ hw.pos
  have hb : t1.buckets = t.buckets.modify (n.hash % t.count) (fun c => n :: c) := by rw [ht1]
  have hc : t1.count = t.count := by rw [ht1]
  have hs : t1.size = t.size + 1 := by rw [ht1]
  have hr : t1.rcp = t.rcp := by rw [ht1]
  have hsh : t1.shift = t.shift := by rw [ht1]
  have hperm : (allNodes t1).Perm (n :: allNodes t) := by
    unfold allNodes; rw [hb]; exact flatten_modify_cons_perm _ _ _ hm
  refine ⟨?_, hperm⟩
  constructor
  · rw [hb, hc, List.length_modify]; exact hw.len
  · rw [hc]; exact hw.pos
  · rw [hs, hperm.length_eq, List.length_cons, hw.size_eq]
  · rw [hb, hc]
    exact placed_modify (fun n => n.hash % t.count) t.buckets n hw.placed
  · intro x hx
    rcases List.mem_cons.1 (hperm.subset hx) with h | h
    · rw [h]; exact hh
    · exact hw.hash32 x h
  · rw [(hperm.map Node.uid).nodup_iff, List.map_cons, List.nodup_cons]
    exact ⟨hfresh, hw.uids⟩
  · rw [hc, hr, hsh]; exact hw.param

theorem ite_prop {α} (P : α → Prop) (c : Prop) [Decidable c] (x y : α) (hx : P x) (hy : P y) :
    P (if c then x else y) := by
  split <;> assumption

/-- `_insert` of a fresh node with a 32-bit hash, any arena state (the growth `_rehash` may fail or not): the
invariant is kept and the node multiset gains exactly `n` -/
theorem insert_spec (a : State) (t : Table) (n : Node) (hw : WF t) (hh : n.hash < 2 ^ 32)
    (hfresh : n.uid ∉ (allNodes t).map Node.uid) :
    WF (insert a t n).2 ∧ (allNodes (insert a t n).2).Perm (n :: allNodes t) := by
  have h1 := insert_core t hw n hh hfresh _ rfl
  unfold insert
  rw [calcMod_eq t n.hash hw hh]
  refine ite_prop (fun r : State × Table => WF r.2 ∧ (allNodes r.2).Perm (n :: allNodes t)) _ _ _ ?_ h1
  refine ite_prop (fun r : State × Table => WF r.2 ∧ (allNodes r.2).Perm (n :: allNodes t)) _ _ _ ?_ h1
  have h2 := rehash_spec a _ (min ((t.primeIndex) + 2) (primeCount - 1)) h1.1
  exact ⟨h2.1, h2.2.trans h1.2⟩

example : allNodes (insert {} {} ⟨1, 10, 7⟩).2 = [⟨1, 10, 7⟩] := by decide

/-! ### remove -/

theorem remove_core (t : Table) (hw : WF t) (m : Nat) (hm : m < t.buckets.length) (x : Node) (hx : x ∈ t.buckets[m])
    (t1 : Table)
    (ht1 : t1 = { t with buckets := t.buckets.set m ((t.buckets.getD m []).filter (fun y => y.uid != x.uid)),
                         size := t.size - 1 }) :
    WF t1 ∧ (allNodes t).Perm (x :: allNodes t1) := by
  have hb : t1.buckets = t.buckets.set m ((t.buckets.getD m []).filter (fun y => y.uid != x.uid)) := by rw [ht1]
  have hc : t1.count = t.count := by rw [ht1]
  have hs : t1.size = t.size - 1 := by rw [ht1]
  have hr : t1.rcp = t.rcp := by rw [ht1]
  have hsh : t1.shift = t.shift := by rw [ht1]
  have hperm : (allNodes t).Perm (x :: allNodes t1) := by
    unfold allNodes; rw [hb, getD_eq_getElem _ _ hm]
    exact flatten_set_perm _ _ hm _ _ (filter_uid_perm _ (chain_uids_nodup t hw m hm) x hx _ rfl)
  refine ⟨?_, hperm⟩
  constructor
  · rw [hb, hc, List.length_set]; exact hw.len
  · rw [hc]; exact hw.pos
  · rw [hs, hw.size_eq, hperm.length_eq, List.length_cons]; omega
  · rw [hb, hc]
    exact placed_set (fun n => n.hash % t.count) t.buckets m _ hw.placed
      (fun y hy => (List.mem_filter.1 hy).1)
  · intro y hy
    exact hw.hash32 y (hperm.symm.subset (List.mem_cons_of_mem _ hy))
  · have := ((hperm.map Node.uid).nodup_iff).1 hw.uids
    rw [List.map_cons, List.nodup_cons] at this
    exact this.2
  · rw [hc, hr, hsh]; exact hw.param

/-- `_remove`: the invariant is always kept; a present node is removed (flag `true`, multiset loses exactly `n`);
for an absent uid nothing changes and the flag is `false` -/
theorem remove_spec (t : Table) (n : Node) (hw : WF t) (hh : n.hash < 2 ^ 32) :
    WF (remove t n).1 ∧
    (n ∈ allNodes t → (remove t n).2 = true ∧ (allNodes (remove t n).1).Perm ((allNodes t).erase n)) ∧
    (n.uid ∉ (allNodes t).map Node.uid → remove t n = (t, false)) := by
  have hm : n.hash % t.count < t.buckets.length := by rw [hw.len]; exact Nat.mod_lt _ hw.pos
  unfold remove
  rw [calcMod_eq t n.hash hw hh]
  by_cases hany : ((t.buckets.getD (n.hash % t.count) []).any fun x => x.uid == n.uid) = true
  · rw [if_pos hany]
    obtain ⟨x, hxm, hxu⟩ := List.any_eq_true.1 hany
    have hxu : x.uid = n.uid := by simpa using hxu
    rw [getD_eq_getElem _ _ hm] at hxm
    have hcore := remove_core t hw _ hm x hxm _ rfl
    rw [hxu] at hcore
    refine ⟨hcore.1, ?_, ?_⟩
    · intro hn
      have hxall : x ∈ allNodes t := mem_flatten_of_getElem _ _ hm x hxm
      have hxn : x = n := uid_inj _ hw.uids x n hxall hn hxu
      subst hxn
      refine ⟨rfl, ?_⟩
      have h1 := hcore.2
      have h2 := List.perm_cons_erase hn
      exact ((h1.symm.trans h2).cons_inv)
    · intro hnot
      exfalso; apply hnot
      rw [← hxu]
      exact List.mem_map_of_mem (mem_flatten_of_getElem _ _ hm x hxm)
  · rw [if_neg hany]
    refine ⟨hw, ?_, fun _ => rfl⟩
    intro hn
    exfalso; apply hany
    rw [List.any_eq_true]
    exact ⟨n, (mem_allNodes_iff t hw n).1 hn, by simp⟩

example : (remove (insert {} {} ⟨1, 10, 7⟩).2 ⟨1, 10, 7⟩).2 = true ∧
    allNodes (remove (insert {} {} ⟨1, 10, 7⟩).2 ⟨1, 10, 7⟩).1 = [] := by decide

/-- `release`: back to the (well-formed) empty table -/
theorem release_spec (a : State) (t : Table) : (release a t).2 = {} := by
  unfold release
  generalize t.data = d
  rcases d with _ | p <;> rfl

theorem release_wf (a : State) (t : Table) : WF (release a t).2 := by
  rw [release_spec]; exact wf_empty


/-! ### get -/

theorem get_eq (t : Table) (hw : WF t) (key h : Nat) (hh : h < 2 ^ 32) :
    get t key h = (t.buckets.getD (h % t.count) []).find? (fun n => n.key == key) := by
  unfold get; rw [calcMod_eq t h hw hh]

/-- what `get` returns is a node of the table with the requested key, in the bucket of `h` -/
theorem get_some (t : Table) (hw : WF t) (key h : Nat) (hh : h < 2 ^ 32) (n : Node) (hg : get t key h = some n) :
    n ∈ allNodes t ∧ n.key = key ∧ n.hash % t.count = h % t.count := by
  have hm : h % t.count < t.buckets.length := by rw [hw.len]; exact Nat.mod_lt _ hw.pos
  rw [get_eq t hw key h hh, getD_eq_getElem _ _ hm] at hg
  have hmem := List.mem_of_find?_eq_some hg
  have hp := List.find?_some hg
  exact ⟨mem_flatten_of_getElem _ _ hm n hmem, by simpa using hp, hw.placed _ hm n hmem⟩

/-- REACHABILITY: `get` succeeds iff the table holds a node with that key whose hash falls into the bucket of `h` -/
theorem get_isSome_iff (t : Table) (hw : WF t) (key h : Nat) (hh : h < 2 ^ 32) :
    (get t key h).isSome = true ↔ ∃ n ∈ allNodes t, n.key = key ∧ n.hash % t.count = h % t.count := by
  have hm : h % t.count < t.buckets.length := by rw [hw.len]; exact Nat.mod_lt _ hw.pos
  constructor
  · intro hs
    obtain ⟨n, hn⟩ := Option.isSome_iff_exists.1 hs
    exact ⟨n, get_some t hw key h hh n hn⟩
  · rintro ⟨n, hn, hk, hmod⟩
    rw [get_eq t hw key h hh, List.find?_isSome]
    refine ⟨n, ?_, by simpa using hk⟩
    rw [← hmod]
    exact (mem_allNodes_iff t hw n).1 hn

/-- with a consistent hash function, lookup by key finds a node iff the key is in the table -/
theorem get_hashed_isSome_iff (H : Nat → Nat) (hH : ∀ k, H k < 2 ^ 32) (t : Table) (hw : WF t)
    (hcons : ∀ n ∈ allNodes t, n.hash = H n.key) (k : Nat) :
    (get t k (H k)).isSome = true ↔ k ∈ (allNodes t).map Node.key := by
  rw [get_isSome_iff t hw k (H k) (hH k), List.mem_map]
  constructor
  · rintro ⟨n, hn, hk, _⟩; exact ⟨n, hn, hk⟩
  · rintro ⟨n, hn, hk⟩; exact ⟨n, hn, hk, by rw [hcons n hn, hk]⟩

example : get (insert {} {} ⟨1, 10, 7⟩).2 10 7 = some ⟨1, 10, 7⟩ := by decide


/-! ### sequences of operations: the table refines an association list -/

/-- one client operation on the model; `removeKey` is `get` followed by `remove` of the node found -/
def stepModel (H : Nat → Nat) (st : State × Table) : HOp → State × Table
  | .insert u k => insert st.1 st.2 ⟨u, k, H k⟩
  | .removeKey k =>
    match get st.2 k (H k) with
    | some n => (st.1, (remove st.2 n).1)
    | none => st
  | .arenaNoise s => (s, st.2)

def runModel (H : Nat → Nat) (st : State × Table) (ops : List HOp) : State × Table := ops.foldl (stepModel H) st

/-- coupling invariant between a table and an association list -/
structure Inv (H : Nat → Nat) (t : Table) (s : Assoc) : Prop where
  wf : WF t
  hashed : ∀ n ∈ allNodes t, n.hash = H n.key
  perm : ((allNodes t).map pr).Perm s
  keys : (s.map Prod.snd).Nodup

theorem map_pr_fst (l : List Node) : (l.map pr).map Prod.fst = l.map Node.uid := by
  rw [List.map_map]; rfl
theorem map_pr_snd (l : List Node) : (l.map pr).map Prod.snd = l.map Node.key := by
  rw [List.map_map]; rfl

theorem eraseP_key_eq_erase (s : Assoc) (p : Nat × Nat) (hp : p ∈ s) (hk : (s.map Prod.snd).Nodup) :
    s.eraseP (fun q => q.2 == p.2) = s.erase p := by
  induction s with
  | nil => simp at hp
  | cons q s ih =>
    rw [List.map_cons, List.nodup_cons] at hk
    by_cases hq : q = p
    · subst hq; simp
    · have hps : p ∈ s := by
        rcases List.mem_cons.1 hp with h | h
        · exact absurd h.symm hq
        · exact h
      have hq2 : q.2 ≠ p.2 := by
        intro h; apply hk.1; rw [h]; exact List.mem_map_of_mem hps
      rw [List.eraseP_cons_of_neg (by simpa using hq2), List.erase_cons_tail (by simpa using hq), ih hps hk.2]

theorem find_key_of_mem (s : Assoc) (p : Nat × Nat) (hp : p ∈ s) (hk : (s.map Prod.snd).Nodup) :
    s.find? (fun q => q.2 == p.2) = some p := by
  induction s with
  | nil => simp at hp
  | cons q s ih =>
    rw [List.map_cons, List.nodup_cons] at hk
    by_cases hq : q = p
    · subst hq; simp
    · have hps : p ∈ s := by
        rcases List.mem_cons.1 hp with h | h
        · exact absurd h.symm hq
        · exact h
      have hq2 : q.2 ≠ p.2 := by
        intro h; apply hk.1; rw [h]; exact List.mem_map_of_mem hps
      rw [List.find?_cons_of_neg (by simpa using hq2), ih hps hk.2]

theorem inv_keys_iff {H : Nat → Nat} {t : Table} {s : Assoc} (hi : Inv H t s) (k : Nat) :
    k ∈ (allNodes t).map Node.key ↔ k ∈ s.map Prod.snd := by
  rw [← map_pr_snd]; exact (hi.perm.map Prod.snd).mem_iff

/-- lookups agree under the coupling invariant -/
theorem inv_lookup (H : Nat → Nat) (hH : ∀ k, H k < 2 ^ 32) (t : Table) (s : Assoc) (hi : Inv H t s) (k : Nat) :
    (get t k (H k)).map pr = lookup s k := by
  unfold lookup
  cases hg : get t k (H k) with
  | none =>
    have hnk : k ∉ (allNodes t).map Node.key := by
      intro hk
      have := (get_hashed_isSome_iff H hH t hi.wf hi.hashed k).2 hk
      rw [hg] at this; exact absurd this (by simp)
    rw [inv_keys_iff hi] at hnk
    symm
    rw [Option.map_none, List.find?_eq_none]
    intro q hq hqk
    apply hnk
    have : q.2 = k := by simpa using hqk
    rw [← this]; exact List.mem_map_of_mem hq
  | some n =>
    obtain ⟨hn, hk, _⟩ := get_some t hi.wf k (H k) (hH k) n hg
    have hp : pr n ∈ s := hi.perm.subset (List.mem_map_of_mem hn)
    have := find_key_of_mem s (pr n) hp hi.keys
    have hk' : (pr n).2 = k := hk
    rw [hk'] at this
    rw [this]; rfl

theorem inv_step (H : Nat → Nat) (hH : ∀ k, H k < 2 ^ 32) (st : State × Table) (s : Assoc) (op : HOp)
    (hi : Inv H st.2 s) (hok : hOk s op) : Inv H (stepModel H st op).2 (hStep s op) := by
  cases op with
  | insert u k =>
    obtain ⟨hu, hk⟩ := hok
    have hfresh : (⟨u, k, H k⟩ : Node).uid ∉ (allNodes st.2).map Node.uid := by
      rw [← map_pr_fst, (hi.perm.map Prod.fst).mem_iff]; exact hu
    have hsp := insert_spec st.1 st.2 ⟨u, k, H k⟩ hi.wf (hH k) hfresh
    refine ⟨hsp.1, ?_, ?_, ?_⟩
    · intro n hn
      rcases List.mem_cons.1 (hsp.2.subset hn) with h | h
      · rw [h]
      · exact hi.hashed n h
    · exact (hsp.2.map pr).trans (hi.perm.cons _)
    · show (List.map Prod.snd ((u, k) :: s)).Nodup
      rw [List.map_cons, List.nodup_cons]; exact ⟨hk, hi.keys⟩
  | removeKey k =>
    have hkeys : ((s.eraseP fun p => p.2 == k).map Prod.snd).Nodup :=
      ((List.eraseP_sublist).map Prod.snd).nodup hi.keys
    cases hg : get st.2 k (H k) with
    | none =>
      have hnk : k ∉ (allNodes st.2).map Node.key := by
        intro hk
        have := (get_hashed_isSome_iff H hH st.2 hi.wf hi.hashed k).2 hk
        rw [hg] at this; exact absurd this (by simp)
      rw [inv_keys_iff hi] at hnk
      have he : s.eraseP (fun p => p.2 == k) = s := by
        apply List.eraseP_of_forall_not
        intro q hq hqk
        apply hnk
        have : q.2 = k := by simpa using hqk
        rw [← this]; exact List.mem_map_of_mem hq
      simp only [stepModel, hg, hStep, he]
      exact hi
    | some n =>
      obtain ⟨hn, hk, _⟩ := get_some st.2 hi.wf k (H k) (hH k) n hg
      have hh : n.hash < 2 ^ 32 := hi.wf.hash32 n hn
      obtain ⟨hwf, hpres, _⟩ := remove_spec st.2 n hi.wf hh
      obtain ⟨_, hperm⟩ := hpres hn
      simp only [stepModel, hg, hStep]
      refine ⟨hwf, ?_, ?_, hkeys⟩
      · intro x hx
        exact hi.hashed x (List.mem_of_mem_erase (hperm.subset hx))
      · have hp : pr n ∈ s := hi.perm.subset (List.mem_map_of_mem hn)
        have hk' : (pr n).2 = k := hk
        rw [← hk', eraseP_key_eq_erase s (pr n) hp hi.keys]
        have h1 : ((allNodes st.2).map pr).Perm (pr n :: (allNodes (remove st.2 n).1).map pr) :=
          ((List.perm_cons_erase hn).trans (hperm.symm.cons n)).map pr
        have h2 : s.Perm (pr n :: s.erase (pr n)) := List.perm_cons_erase hp
        exact ((h1.symm.trans hi.perm).trans h2).cons_inv
  | arenaNoise a => exact hi

theorem inv_run (H : Nat → Nat) (hH : ∀ k, H k < 2 ^ 32) (ops : List HOp) (st : State × Table) (s : Assoc)
    (hi : Inv H st.2 s) (hv : HValid s ops) : Inv H (runModel H st ops).2 (runSpec s ops) := by
  induction ops generalizing st s with
  | nil => exact hi
  | cons op ops ih =>
    obtain ⟨hok, hv'⟩ := hv
    exact ih (stepModel H st op) (hStep s op) (inv_step H hH st s op hi hok) hv'

theorem inv_empty (H : Nat → Nat) : Inv H {} [] :=
  ⟨wf_empty, by intro n hn; simp [allNodes] at hn, by simp [allNodes], by simp⟩

/-- MAIN (map protocol): for every operation sequence obeying the map protocol (fresh node, key not present at
insertion), every initial arena state and every interleaved arena activity, the table stays well-formed, holds
exactly the textbook association list (as a multiset of `(uid, key)`), and every lookup agrees with the textbook -/
theorem hash_refines_map (H : Nat → Nat) (hH : ∀ k, H k < 2 ^ 32) (ops : List HOp) (a : State)
    (hv : HValid [] ops) :
    WF (runModel H (a, {}) ops).2 ∧
    ((allNodes (runModel H (a, {}) ops).2).map pr).Perm (runSpec [] ops) ∧
    ∀ k, (get (runModel H (a, {}) ops).2 k (H k)).map pr = lookup (runSpec [] ops) k := by
  have hi := inv_run H hH ops (a, {}) [] (inv_empty H) hv
  exact ⟨hi.wf, hi.perm, inv_lookup H hH _ _ hi⟩

example : HValid [] [.insert 1 10, .insert 2 20, .removeKey 10, .insert 3 10] := by
  simp [HValid, hOk, hStep]
example : runSpec [] [.insert 1 10, .insert 2 20, .removeKey 10, .insert 3 10] = [(3, 10), (2, 20)] := by decide
example : (allNodes (runModel id ({}, {}) [.insert 1 10, .removeKey 10, .insert 2 20]).2).map pr = [(2, 20)] := by
  decide

end AsmjitVerif.Hash
