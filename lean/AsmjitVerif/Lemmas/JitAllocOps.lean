/- The allocator operations preserve the allocator-level invariant (C09). -/
import AsmjitVerif.Lemmas.JitAllocInv
namespace AsmjitVerif.JitAlloc

/-! ### arithmetic of sizes -/

theorem alignUp_ge (x a : Nat) (ha : 0 < a) : x ≤ alignUp x a := by
  unfold alignUp
  have h1 := Nat.div_add_mod (x + a - 1) a
  have h2 := Nat.mod_lt (x + a - 1) ha
  rw [Nat.mul_comm] at h1
  omega

theorem alignUp_mod (x a : Nat) : alignUp x a % a = 0 := by
  unfold alignUp; exact Nat.mul_mod_left _ _

theorem ceil_mul_of_dvd (size g : Nat) (hg : 0 < g) (h : size % g = 0) : (size + g - 1) / g * g = size := by
  obtain ⟨q, rfl⟩ := Nat.dvd_of_mod_eq_zero h
  have : (g * q + g - 1) / g = q := by
    have e : g * q + g - 1 = (g - 1) + g * q := by omega
    rw [e, Nat.add_mul_div_left _ _ hg, Nat.div_eq_of_lt (by omega)]; omega
  rw [this, Nat.mul_comm]

theorem sizeToPoolId_go_dvd (cfg : Config) (size : Nat) (h : size % cfg.gran = 0) :
    ∀ p, size % cfg.poolGran (sizeToPoolId.go cfg size p) = 0 := by
  intro p
  induction p with
  | zero => simp [sizeToPoolId.go, Config.poolGran, h]
  | succ p ih =>
    unfold sizeToPoolId.go
    split
    · assumption
    · exact ih

theorem sizeToPoolId_dvd (cfg : Config) (size : Nat) (h : size % cfg.gran = 0) :
    size % cfg.poolGran (sizeToPoolId cfg size) = 0 := by
  unfold sizeToPoolId; exact sizeToPoolId_go_dvd cfg size h _

def idealCore (bs0 sz blk : Nat) : Nat :=
  let bs := if bs0 < 1024 * 1024 * 64 then bs0 * 2 else bs0
  if sz > bs then alignUp sz blk else bs

theorem idealCore_ge (bs0 sz blk : Nat) (hb : 0 < blk) : sz ≤ idealCore bs0 sz blk := by
  unfold idealCore
  simp only
  have := alignUp_ge sz blk hb
  split <;> split <;> omega

theorem idealBlockSize_ge (a : Alloc) (p size : Nat) (hb : 0 < a.cfg.blockSize) :
    (if a.cfg.noPad then size else size + a.cfg.poolGran p) ≤ idealBlockSize a p size :=
  idealCore_ge _ _ _ hb

/-! ### allocator-level invariant against an abstract span relation -/

/-- `T id pool s n`: the caller holds a live span `[s, s+n)` (granules) in block `id` of pool `pool` -/
structure AInv (a : Alloc) (T : Nat → Nat → Nat → Nat → Prop) : Prop where
  wf : WF a.cfg
  ids : (a.blocks.map (·.id)).Pairwise (· < ·)
  fresh : ∀ b ∈ a.blocks, b.id < a.nextId
  blk : ∀ b ∈ a.blocks, BInv b (T b.id b.pool) ∧ BCnt b

@[simp] theorem setPool_blocks (a : Alloc) (p : Nat) (f) : (a.setPool p f).blocks = a.blocks := rfl
@[simp] theorem setPool_cfg (a : Alloc) (p : Nat) (f) : (a.setPool p f).cfg = a.cfg := rfl
@[simp] theorem setPool_nextId (a : Alloc) (p : Nat) (f) : (a.setPool p f).nextId = a.nextId := rfl
@[simp] theorem setPool_allocCount (a : Alloc) (p : Nat) (f) : (a.setPool p f).allocCount = a.allocCount := rfl

theorem AInv.setPool {a : Alloc} {T} (h : AInv a T) (p : Nat) (f) : AInv (a.setPool p f) T := ⟨h.wf, h.ids, h.fresh, h.blk⟩

theorem findBlock_some {a : Alloc} {id : Nat} {b : Block} (h : a.findBlock id = some b) : b ∈ a.blocks ∧ b.id = id := by
  unfold Alloc.findBlock at h
  have h1 := List.mem_of_find?_eq_some h
  have h2 := List.find?_some h
  simp at h2
  exact ⟨h1, h2⟩

theorem find_of_mem {b : Block} : ∀ (bs : List Block), (bs.map (·.id)).Pairwise (· < ·) → b ∈ bs →
    bs.find? (·.id == b.id) = some b := by
  intro bs
  induction bs with
  | nil => intro _ hb; simp at hb
  | cons x xs ih =>
    intro hids hb
    simp only [List.map_cons, List.pairwise_cons] at hids
    rcases List.mem_cons.mp hb with rfl | hb
    · simp [List.find?_cons]
    · have hne : x.id ≠ b.id := by have := hids.1 b.id (List.mem_map_of_mem hb); omega
      simp only [List.find?_cons]
      have : (x.id == b.id) = false := by simpa using hne
      rw [this]
      exact ih hids.2 hb

theorem findBlock_of_mem {a : Alloc} {b : Block} (hids : (a.blocks.map (·.id)).Pairwise (· < ·)) (hb : b ∈ a.blocks) :
    a.findBlock b.id = some b := find_of_mem a.blocks hids hb

theorem map_id_of_map_triple {l1 l2 : List Block}
    (h : l1.map (fun b => (b.id, b.pool, b.blockSize)) = l2.map (fun b => (b.id, b.pool, b.blockSize))) :
    l1.map (·.id) = l2.map (·.id) := by
  have := congrArg (List.map (·.1)) h
  simp only [List.map_map] at this
  exact this

/-- two passes of the block loop (from the cursor to the end, then from the start to the cursor) -/
theorem twoPass_spec (sel1 sel2 : Block → Bool) (k : Nat) (hk : 0 < k) (T : Nat → Nat → Nat → Nat → Prop)
    (bs : List Block) (hp : (bs.map (·.id)).Pairwise (· < ·)) (hinv : ∀ b ∈ bs, BInv b (T b.id b.pool) ∧ BCnt b)
    (r2 : List Block × Option Found)
    (hr2 : r2 = if (scanPass sel1 k bs).2.isSome then scanPass sel1 k bs else scanPass sel2 k (scanPass sel1 k bs).1) :
    r2.1.map (fun b => (b.id, b.pool, b.blockSize)) = bs.map (fun b => (b.id, b.pool, b.blockSize)) ∧
    match r2.2 with
    | none => ∀ b ∈ r2.1, BInv b (T b.id b.pool) ∧ BCnt b
    | some (id, idx, _) =>
      (∃ p, (∃ b0, (sel1 b0 = true ∨ sel2 b0 = true) ∧ b0.id = id ∧ b0.pool = p) ∧
        (∃ b ∈ r2.1, b.id = id ∧ b.pool = p ∧ b.padN ≤ idx ∧ idx + k ≤ b.areaSize) ∧
        (∀ s n, T id p s n → s + n ≤ idx ∨ idx + k ≤ s)) ∧
      (id ∈ bs.map (·.id)) ∧
      ∀ b ∈ r2.1, BInv b (fun s n => T b.id b.pool s n ∨ (b.id = id ∧ s = idx ∧ n = k)) ∧ BCnt b := by
  have s1 := scanPass_spec sel1 k hk T bs hp hinv
  rcases hr : (scanPass sel1 k bs).2 with _ | ⟨id, idx, w⟩
  · -- second pass
    simp only [hr, Option.isSome_none, Bool.false_eq_true, if_false] at hr2
    have s12 := s1.2
    rw [hr] at s12
    have hids := map_id_of_map_triple s1.1
    have s2 := scanPass_spec sel2 k hk T (scanPass sel1 k bs).1 (by rw [hids]; exact hp) s12
    subst hr2
    refine ⟨by rw [s2.1]; exact s1.1, ?_⟩
    have s22 := s2.2
    rcases hr' : (scanPass sel2 k (scanPass sel1 k bs).1).2 with _ | ⟨id, idx, w⟩
    · rw [hr'] at s22; exact s22
    · rw [hr'] at s22
      obtain ⟨⟨p, ⟨b0, x1, x2⟩, y, z⟩, hmem, u⟩ := s22
      exact ⟨⟨p, ⟨b0, Or.inr x1, x2⟩, y, z⟩, by rw [← hids]; exact hmem, u⟩
  · simp only [hr, Option.isSome_some, if_true] at hr2
    subst hr2
    refine ⟨s1.1, ?_⟩
    have s12 := s1.2
    rw [hr] at s12 ⊢
    obtain ⟨⟨p, ⟨b0, x1, x2⟩, y, z⟩, hmem, u⟩ := s12
    exact ⟨⟨p, ⟨b0, Or.inl x1, x2⟩, y, z⟩, hmem, u⟩



/-- what `alloc` guarantees -/
def AllocPost (a : Alloc) (T : Nat → Nat → Nat → Nat → Prop) (req : Nat) (a' : Alloc) (sp : SpanOut) : Prop :=
  ∃ idx k, 0 < k ∧ sp.off = idx * a.cfg.poolGran sp.pool ∧ sp.size = k * a.cfg.poolGran sp.pool ∧ req ≤ sp.size ∧
    sp.size % a.cfg.gran = 0 ∧ a'.cfg = a.cfg ∧ a.nextId ≤ a'.nextId ∧
    AInv a' (fun id p s n => T id p s n ∨ (id = sp.blk ∧ s = idx ∧ n = k)) ∧
    (∃ b ∈ a'.blocks, b.id = sp.blk ∧ b.pool = sp.pool ∧ b.blockSize = sp.blockSize ∧ b.padN ≤ idx ∧ idx + k ≤ b.areaSize) ∧
    (∀ b ∈ a.blocks, ∃ b' ∈ a'.blocks, b'.id = b.id ∧ b'.pool = b.pool) ∧
    (∀ s n, T sp.blk sp.pool s n → s + n ≤ idx ∨ idx + k ≤ s)

theorem exists_of_map_eq {α β} {f : α → β} {l1 l2 : List α} (h : l1.map f = l2.map f) : ∀ x ∈ l2, ∃ y ∈ l1, f y = f x := by
  intro x hx
  have : f x ∈ l1.map f := by rw [h]; exact List.mem_map_of_mem hx
  obtain ⟨y, hy, e⟩ := List.mem_map.mp this
  exact ⟨y, hy, e⟩

theorem allocFound_spec {a : Alloc} {T} {req p n size : Nat} {blocks : List Block} {id idx : Nat} {w : Bool}
    (h : AInv a T) (hn : 0 < n) (hsz : size = n * a.cfg.poolGran p) (hreq : req ≤ size) (hal : size % a.cfg.gran = 0)
    (hmap : blocks.map (fun b => (b.id, b.pool, b.blockSize)) = a.blocks.map (fun b => (b.id, b.pool, b.blockSize)))
    (hw : ∃ b ∈ blocks, b.id = id ∧ b.pool = p ∧ b.padN ≤ idx ∧ idx + n ≤ b.areaSize)
    (hd : ∀ s n', T id p s n' → s + n' ≤ idx ∨ idx + n ≤ s)
    (hb : ∀ b ∈ blocks, BInv b (fun s n' => T b.id b.pool s n' ∨ (b.id = id ∧ s = idx ∧ n' = n)) ∧ BCnt b) :
    AllocPost a T req (a.allocFound p n size blocks id idx w).1
      (match (a.allocFound p n size blocks id idx w).2 with | .ok sp => sp | .error _ => ⟨0, 0, 0, 0, 0⟩) := by
  have hids := map_id_of_map_triple hmap
  have hpw : (blocks.map (·.id)).Pairwise (· < ·) := by rw [hids]; exact h.ids
  obtain ⟨b, hbm, w1, w2, w3, w4⟩ := hw
  have hfind : (blocks.find? (·.id == id)) = some b := by
    have := find_of_mem blocks hpw hbm
    rwa [w1] at this
  unfold Alloc.allocFound
  simp only [Alloc.findBlock, setPool_blocks, hfind]
  refine ⟨idx, n, hn, rfl, hsz, hreq, hal, rfl, Nat.le_refl _, ⟨h.wf, hpw, ?_, hb⟩, ⟨b, hbm, w1, w2, rfl, w3, w4⟩, ?_, hd⟩
  · intro x hx
    obtain ⟨y, hy, e⟩ := exists_of_map_eq hmap.symm x hx
    simp at e
    have := h.fresh y hy
    show x.id < a.nextId
    omega
  · intro x hx
    obtain ⟨y, hy, e⟩ := exists_of_map_eq hmap x hx
    simp at e
    exact ⟨y, hy, e.1, e.2.1⟩



theorem map_modify_fresh (blocks : List Block) (id : Nat) (f : Block → Block) (h : ∀ x ∈ blocks, x.id < id) :
    blocks.map (fun x => if x.id = id then f x else x) = blocks := by
  conv => rhs; rw [← List.map_id blocks]
  apply List.map_congr_left
  intro x hx
  have := h x hx
  have : x.id ≠ id := by omega
  simp [this]

theorem newBlock_fit (cfg : Config) (hwf : WF cfg) (p n size bs : Nat) (hsz : size = n * cfg.poolGran p)
    (hbs : (if cfg.noPad then size else size + cfg.poolGran p) ≤ bs) :
    (if (!cfg.noPad) = true then 1 else 0) + n ≤ (bs + cfg.poolGran p - 1) / cfg.poolGran p := by
  have hg := poolGran_pos hwf p
  rw [Nat.le_div_iff_mul_le hg]
  cases hn : cfg.noPad
  · simp [hn] at hbs ⊢
    rw [Nat.add_mul]; omega
  · simp [hn] at hbs ⊢
    omega



theorem allocNew_spec {a : Alloc} {T} {req p n size : Nat} {blocks : List Block}
    (h : AInv a T) (hT : ∀ id p s n, T id p s n → id < a.nextId)
    (hn : 0 < n) (hsz : size = n * a.cfg.poolGran p) (hreq : req ≤ size) (hal : size % a.cfg.gran = 0)
    (hmap : blocks.map (fun b => (b.id, b.pool, b.blockSize)) = a.blocks.map (fun b => (b.id, b.pool, b.blockSize)))
    (hb : ∀ b ∈ blocks, BInv b (T b.id b.pool) ∧ BCnt b) :
    AllocPost a T req (a.allocNew p n size blocks).1
      (match (a.allocNew p n size blocks).2 with | .ok sp => sp | .error _ => ⟨0, 0, 0, 0, 0⟩) := by
  have hids := map_id_of_map_triple hmap
  have hpw : (blocks.map (·.id)).Pairwise (· < ·) := by rw [hids]; exact h.ids
  have hfresh : ∀ x ∈ blocks, x.id < a.nextId := by
    intro x hx
    obtain ⟨y, hy, e⟩ := exists_of_map_eq hmap.symm x hx
    simp at e
    have := h.fresh y hy
    omega
  -- the raw block before `clear`
  let a1 : Alloc := { a with blocks := blocks }
  let bsz := idealBlockSize a1 p size
  let nb := newBlock a1 p bsz
  have hbs := idealBlockSize_ge a1 p size h.wf.2
  have hfit : nb.padN + n ≤ nb.areaSize := newBlock_fit a.cfg h.wf p n size bsz hsz hbs
  have hnbid : nb.id = a.nextId := rfl
  have hnbpool : nb.pool = p := rfl
  let fb : Block := ({ nb with searchStart := nb.searchStart + n, largest := nb.largest - n }).markAllocated nb.padN (nb.padN + n)
  have hblocks : (a.allocNew p n size blocks).1.blocks = blocks ++ [fb] := by
    unfold Alloc.allocNew
    simp only [Alloc.insertBlock, Alloc.modifyBlock, setPool_blocks, List.map_append, List.map_cons, List.map_nil]
    rw [map_modify_fresh blocks _ _ (by intro x hx; exact hfresh x hx)]
    simp
    rfl
  have hother : (a.allocNew p n size blocks).1.cfg = a.cfg ∧ (a.allocNew p n size blocks).1.nextId = a.nextId + 1 := by
    unfold Alloc.allocNew; exact ⟨rfl, rfl⟩
  have hsp : (match (a.allocNew p n size blocks).2 with | .ok sp => sp | .error _ => ⟨0, 0, 0, 0, 0⟩) =
      { blk := a.nextId, pool := p, blockSize := bsz, off := nb.padN * a.cfg.poolGran p, size := size } := by
    unfold Alloc.allocNew; rfl
  rw [hsp]
  have hraw : ∃ raw : Block, nb = raw.clear := ⟨_, rfl⟩
  obtain ⟨raw, hrawe⟩ := hraw
  have hfit' : raw.padN + n ≤ raw.areaSize := by
    have e1 : nb.padN = raw.padN := by rw [hrawe]; rfl
    have e2 : nb.areaSize = raw.areaSize := by rw [hrawe]; rfl
    omega
  have hIfb : BInv fb (fun s n' => s = nb.padN ∧ n' = n) := by
    have := BInv.newBlock_commit raw n hn hfit'
    simp only [fb, hrawe]
    exact this
  have hCfb : BCnt fb := by
    have hc := BCnt.clear raw (by omega)
    have hi := (BInv.clear raw (by omega)).incr (by simp [Block.clear])
    simp only [fb, hrawe]
    exact BCnt.markAllocated (b := { raw.clear with searchStart := raw.clear.searchStart + n, largest := raw.clear.largest - n })
      hc.cnt (by
        show raw.clear.padN + n ≤ raw.clear.used.length
        rw [(BInv.clear raw (by omega)).lenU]; exact hfit') (fun j a _ => hi.2.1 j a)
  have hfbid : fb.id = a.nextId := by simp [fb, hnbid]
  have hfbpool : fb.pool = p := by simp [fb, hnbpool]
  refine ⟨nb.padN, n, hn, rfl, hsz, hreq, hal, hother.1, by rw [hother.2]; omega, ⟨by rw [hother.1]; exact h.wf, ?_, ?_, ?_⟩,
    ⟨fb, by rw [hblocks]; simp, hfbid, hfbpool, by simp [fb]; rfl, by simp only [fb, markAllocated_padN]; exact Nat.le_refl _, by simpa [fb] using hfit⟩, ?_, ?_⟩
  · rw [hblocks, List.map_append, List.pairwise_append]
    refine ⟨hpw, by simp, ?_⟩
    intro x hx y hy
    simp at hy
    obtain ⟨z, hz, rfl⟩ := List.mem_map.mp hx
    have := hfresh z hz
    omega
  · intro x hx
    rw [hblocks] at hx
    rw [hother.2]
    rcases List.mem_append.mp hx with hx | hx
    · have := hfresh x hx; omega
    · simp at hx; rw [hx, hfbid]; omega
  · intro x hx
    rw [hblocks] at hx
    rcases List.mem_append.mp hx with hx | hx
    · obtain ⟨hI, hC⟩ := hb x hx
      have hne : x.id ≠ a.nextId := by have := hfresh x hx; omega
      exact ⟨hI.congr (by intro s n'; simp [hne]), hC⟩
    · simp at hx
      rw [hx]
      refine ⟨hIfb.congr ?_, hCfb⟩
      intro s n'
      rw [hfbid, hfbpool]
      constructor
      · rintro ⟨rfl, rfl⟩; exact Or.inr ⟨rfl, rfl, rfl⟩
      · rintro (hT' | ⟨_, rfl, rfl⟩)
        · have := hT _ _ _ _ hT'; omega
        · exact ⟨rfl, rfl⟩
  · intro x hx
    obtain ⟨y, hy, e⟩ := exists_of_map_eq hmap x hx
    simp at e
    exact ⟨y, by rw [hblocks]; exact List.mem_append_left _ hy, e.1, e.2.1⟩
  · intro s n' hT'
    have := hT _ _ _ _ hT'
    simp at this



theorem allocFound_ok (a : Alloc) (p n size : Nat) (blocks : List Block) (id idx : Nat) (w : Bool) :
    ∃ sp, (a.allocFound p n size blocks id idx w).2 = .ok sp := ⟨_, rfl⟩
theorem allocNew_ok (a : Alloc) (p n size : Nat) (blocks : List Block) :
    ∃ sp, (a.allocNew p n size blocks).2 = .ok sp := ⟨_, rfl⟩

theorem allocIn_spec {a : Alloc} {T} {req size : Nat} (h : AInv a T) (hT : ∀ id p s n, T id p s n → id < a.nextId)
    (hs0 : size ≠ 0) (hreq : req ≤ size) (hal : size % a.cfg.gran = 0) :
    ∃ sp, (a.allocIn size).2 = .ok sp ∧ AllocPost a T req (a.allocIn size).1 sp := by
  have hg := poolGran_pos h.wf (sizeToPoolId a.cfg size)
  have hdvd := sizeToPoolId_dvd a.cfg size hal
  have hsz := (ceil_mul_of_dvd size _ hg hdvd).symm
  have hn : 0 < (size + a.cfg.poolGran (sizeToPoolId a.cfg size) - 1) / a.cfg.poolGran (sizeToPoolId a.cfg size) := by
    apply Nat.pos_of_ne_zero
    intro h0
    rw [h0] at hsz
    omega
  unfold Alloc.allocIn
  simp only
  have tp := twoPass_spec
    (fun b => b.pool == sizeToPoolId a.cfg size && decide ((a.pool (sizeToPoolId a.cfg size)).cursor.getD 0 ≤ b.id))
    (fun b => b.pool == sizeToPoolId a.cfg size && decide (b.id < (a.pool (sizeToPoolId a.cfg size)).cursor.getD 0))
    _ hn (T := T) a.blocks h.ids h.blk _ rfl
  split
  · rename_i id idx w hr
    rw [hr] at tp
    obtain ⟨hmap, ⟨p, ⟨b0, hsel, hb0, hb0p⟩, ⟨b, hbm, hb1, hb2, hb3, hb4⟩, hd⟩, hmem, hb⟩ := tp
    have hp : p = sizeToPoolId a.cfg size := by
      rcases hsel with hsel | hsel <;> (simp at hsel; omega)
    subst hp
    have := allocFound_spec (w := w) h hn hsz hreq hal hmap ⟨b, hbm, hb1, hb2, hb3, hb4⟩ hd hb
    obtain ⟨sp, hsp⟩ := allocFound_ok a (sizeToPoolId a.cfg size) _ size _ id idx w
    rw [hsp] at this
    exact ⟨sp, hsp, this⟩
  · rename_i hr
    rw [hr] at tp
    obtain ⟨hmap, hb⟩ := tp
    have := allocNew_spec h hT hn hsz hreq hal hmap hb
    obtain ⟨sp, hsp⟩ := allocNew_ok a (sizeToPoolId a.cfg size) _ size _
    rw [hsp] at this
    exact ⟨sp, hsp, this⟩

theorem alloc_spec {a : Alloc} {T} (req : Nat) (h : AInv a T) (hT : ∀ id p s n, T id p s n → id < a.nextId) :
    (∀ e, (a.alloc req).2 = .error e → (a.alloc req).1 = a) ∧
    (∀ sp, (a.alloc req).2 = .ok sp → AllocPost a T req (a.alloc req).1 sp) := by
  unfold Alloc.alloc
  simp only
  split
  · exact ⟨fun _ _ => rfl, fun sp h => by simp at h⟩
  · split
    · exact ⟨fun _ _ => rfl, fun sp h => by simp at h⟩
    · rename_i hs0 _
      obtain ⟨sp, h1, h2⟩ := allocIn_spec (req := req) h hT hs0 (alignUp_ge _ _ h.wf.1) (alignUp_mod _ _)
      constructor
      · intro e he; rw [h1] at he; simp at he
      · intro sp' he; rw [h1] at he; simp at he; subst he; exact h2



theorem BInv.withMem {b : Block} {S} (h : BInv b S) (m : List Nat) : BInv { b with mem := m } S :=
  ⟨h.toBCore.of_eq rfl rfl rfl rfl, h.incr⟩
theorem BCnt.withMem {b : Block} (h : BCnt b) (m : List Nat) : BCnt { b with mem := m } := ⟨h.cnt, h.emp⟩

theorem eq_of_id_eq {bs : List Block} (hp : (bs.map (·.id)).Pairwise (· < ·)) {x y : Block} (hx : x ∈ bs) (hy : y ∈ bs)
    (e : x.id = y.id) : x = y := by
  have h1 := find_of_mem bs hp hx
  have h2 := find_of_mem bs hp hy
  rw [e] at h1
  rw [h1] at h2
  exact Option.some.inj h2

/-- replacing the block `b` by a block with the same id and pool -/
theorem AInv.modify {a : Alloc} {T T'} {b b' : Block} (h : AInv a T) (hb : b ∈ a.blocks) (hid : b'.id = b.id) (hpool : b'.pool = b.pool)
    (hb' : BInv b' (T' b.id b.pool) ∧ BCnt b')
    (hT : ∀ id p s n, id ≠ b.id → (T id p s n ↔ T' id p s n)) :
    AInv (a.modifyBlock b.id fun _ => b') T' := by
  have hmapid : (a.modifyBlock b.id fun _ => b').blocks.map (·.id) = a.blocks.map (·.id) := by
    simp only [Alloc.modifyBlock, List.map_map]
    apply List.map_congr_left
    intro x _
    simp only [Function.comp]
    split
    · rename_i e; rw [hid, e]
    · rfl
  refine ⟨h.wf, by rw [hmapid]; exact h.ids, ?_, ?_⟩
  · intro x hx
    simp only [Alloc.modifyBlock] at hx
    obtain ⟨y, hy, rfl⟩ := List.mem_map.mp hx
    show _ < a.nextId
    split
    · rw [hid]; exact h.fresh b hb
    · exact h.fresh y hy
  · intro x hx
    simp only [Alloc.modifyBlock] at hx
    obtain ⟨y, hy, rfl⟩ := List.mem_map.mp hx
    split
    · rw [hid, hpool]; exact hb'
    · rename_i hne
      obtain ⟨hI, hC⟩ := h.blk y hy
      exact ⟨hI.congr (fun s n => hT y.id y.pool s n hne), hC⟩

theorem mem_modifyBlock {a : Alloc} {b b' : Block} (hp : (a.blocks.map (·.id)).Pairwise (· < ·)) (hb : b ∈ a.blocks) {x : Block} :
    x ∈ (a.modifyBlock b.id fun _ => b').blocks ↔ (x = b' ∨ (x ∈ a.blocks ∧ x.id ≠ b.id)) := by
  simp only [Alloc.modifyBlock, List.mem_map]
  constructor
  · rintro ⟨y, hy, rfl⟩
    split
    · exact Or.inl rfl
    · rename_i hne; exact Or.inr ⟨hy, hne⟩
  · rintro (rfl | ⟨hx, hne⟩)
    · exact ⟨b, hb, by simp⟩
    · exact ⟨x, hx, by simp [hne]⟩



theorem AInv.removeBlock {a : Alloc} {T} (h : AInv a T) (b : Block) : AInv (a.removeBlock b) T := by
  unfold Alloc.removeBlock
  simp only
  refine ⟨h.wf, ?_, ?_, ?_⟩
  · exact h.ids.sublist ((List.filter_sublist).map _)
  · intro x hx; exact h.fresh x ((List.mem_filter.mp hx).1)
  · intro x hx; exact h.blk x ((List.mem_filter.mp hx).1)

theorem mem_removeBlock {a : Alloc} {b x : Block} : x ∈ (a.removeBlock b).blocks ↔ x ∈ a.blocks ∧ x.id ≠ b.id := by
  unfold Alloc.removeBlock
  simp [List.mem_filter]

/-- what `release` of the first byte of a live span guarantees -/
def ReleasePost (a : Alloc) (T : Nat → Nat → Nat → Nat → Prop) (b : Block) (s0 n0 : Nat) (a' : Alloc) : Prop :=
  a'.cfg = a.cfg ∧ a'.nextId = a.nextId ∧
  AInv a' (fun id p s n => T id p s n ∧ ¬(id = b.id ∧ s = s0 ∧ n = n0)) ∧
  (∀ x ∈ a'.blocks, ∃ y ∈ a.blocks, y.id = x.id ∧ y.pool = x.pool) ∧
  (∀ y ∈ a.blocks, y.id ≠ b.id → ∃ x ∈ a'.blocks, x.id = y.id ∧ x.pool = y.pool) ∧
  ((∃ x ∈ a'.blocks, x.id = b.id ∧ x.pool = b.pool) ∨ (∀ s n, T b.id b.pool s n → s = s0 ∧ n = n0))

theorem release_spec {a : Alloc} {T} {s0 n0 : Nat} {b : Block} (h : AInv a T) (hb : b ∈ a.blocks) (hS : T b.id b.pool s0 n0) :
    (a.release b.id (s0 * a.cfg.poolGran b.pool)).2 = .ok () ∧
    ReleasePost a T b s0 n0 (a.release b.id (s0 * a.cfg.poolGran b.pool)).1 := by
  have hg := poolGran_pos h.wf b.pool
  obtain ⟨hI, hC⟩ := h.blk b hb
  obtain ⟨i1, i2, i3⟩ := hI.inside s0 n0 hS
  have hidx : s0 * a.cfg.poolGran b.pool / a.cfg.poolGran b.pool = s0 := Nat.mul_div_cancel _ hg
  have he : indexOfStop b.stop s0 + 1 = s0 + n0 := by rw [hI.toBCore.indexOfStop hS]; omega
  have hI' := hI.markReleased hS
  have hC' := BCnt.markReleased hI hC hS
  unfold Alloc.release
  simp only [findBlock_of_mem h.ids hb, hidx, he]
  -- the released block (with or without the fill)
  generalize hb' : (if a.cfg.fillUnused = true then
      { b.markReleased s0 (s0 + n0) with mem := setRange (b.markReleased s0 (s0 + n0)).mem s0 (s0 + n0) (patColour a.cfg) }
    else b.markReleased s0 (s0 + n0)) = b'
  have hb'I : BInv b' (fun s n => T b.id b.pool s n ∧ ¬(s = s0 ∧ n = n0)) ∧ BCnt b' := by
    rw [← hb']; split
    · exact ⟨hI'.withMem _, hC'.withMem _⟩
    · exact ⟨hI', hC'⟩
  have hb'id : b'.id = b.id ∧ b'.pool = b.pool := by rw [← hb']; split <;> simp
  -- after replacing the block
  have h2 : AInv { a with allocCount := a.allocCount - 1 } T := ⟨h.wf, h.ids, h.fresh, h.blk⟩
  have hA := AInv.modify (T' := fun id p s n => T id p s n ∧ ¬(id = b.id ∧ s = s0 ∧ n = n0)) h2 hb hb'id.1 hb'id.2
    ⟨hb'I.1.congr (by intro s n; simp), hb'I.2⟩ (by intro id p s n hne; simp [hne])
  have hmem : ∀ x, x ∈ ({ a with allocCount := a.allocCount - 1 }.modifyBlock b.id fun _ => b').blocks ↔
      (x = b' ∨ (x ∈ a.blocks ∧ x.id ≠ b.id)) := fun x => mem_modifyBlock (a := { a with allocCount := a.allocCount - 1 }) h.ids hb
  generalize hM : ({ a with allocCount := a.allocCount - 1 }.modifyBlock b.id fun _ => b') = M at hA hmem
  have hMc : M.cfg = a.cfg ∧ M.nextId = a.nextId := by rw [← hM]; exact ⟨rfl, rfl⟩
  have keep : ∀ M' : Alloc, M'.blocks = M.blocks → M'.cfg = M.cfg → M'.nextId = M.nextId → ReleasePost a T b s0 n0 M' := by
    intro M' e1 e2 e3
    refine ⟨by rw [e2, hMc.1], by rw [e3, hMc.2], ⟨by rw [e2]; exact hA.wf, by rw [e1]; exact hA.ids,
      by rw [e1, e3]; exact hA.fresh, by rw [e1]; exact hA.blk⟩, ?_, ?_, Or.inl ⟨b', by rw [e1]; exact (hmem b').mpr (Or.inl rfl), hb'id⟩⟩
    · intro x hx
      rw [e1] at hx
      rcases (hmem x).mp hx with rfl | ⟨hx, _⟩
      · exact ⟨b, hb, hb'id.1.symm, hb'id.2.symm⟩
      · exact ⟨x, hx, rfl, rfl⟩
    · intro y hy hne
      exact ⟨y, by rw [e1]; exact (hmem y).mpr (Or.inr ⟨hy, hne⟩), rfl, rfl⟩
  split
  · rename_i hempty
    split
    · -- the emptied block is unmapped
      refine ⟨rfl, ?_⟩
      refine ⟨by simp [Alloc.removeBlock, hMc.1], by simp [Alloc.removeBlock, hMc.2],
        AInv.removeBlock (AInv.setPool hA _ _) _, ?_, ?_, Or.inr ?_⟩
      · intro x hx
        obtain ⟨hx, _⟩ := mem_removeBlock.mp hx
        rcases (hmem x).mp hx with rfl | ⟨hx, _⟩
        · exact ⟨b, hb, hb'id.1.symm, hb'id.2.symm⟩
        · exact ⟨x, hx, rfl, rfl⟩
      · intro y hy hne
        exact ⟨y, mem_removeBlock.mpr ⟨(hmem y).mpr (Or.inr ⟨hy, hne⟩), by rw [hb'id.1]; exact hne⟩, rfl, rfl⟩
      · intro s n hT
        have hu := hb'I.2.emp hempty
        have := no_spans_of_unused hb'I.1.toBCore hb'I.2 hu s n
        exact Classical.byContradiction fun hc => this ⟨hT, hc⟩
    · exact ⟨rfl, keep _ rfl rfl rfl⟩
  · exact ⟨rfl, keep _ rfl rfl rfl⟩



/-- what a successful shrink to `m` granules guarantees -/
def ShrinkPost (a : Alloc) (T : Nat → Nat → Nat → Nat → Prop) (b : Block) (s0 n0 m : Nat) (a' : Alloc) : Prop :=
  a'.cfg = a.cfg ∧ a'.nextId = a.nextId ∧
  AInv a' (fun id p s n => (T id p s n ∧ ¬(id = b.id ∧ s = s0 ∧ n = n0)) ∨ (id = b.id ∧ s = s0 ∧ n = m)) ∧
  (∀ x ∈ a'.blocks, ∃ y ∈ a.blocks, y.id = x.id ∧ y.pool = x.pool) ∧
  (∀ y ∈ a.blocks, ∃ x ∈ a'.blocks, x.id = y.id ∧ x.pool = y.pool)

theorem shrink_spec {a : Alloc} {T} {s0 n0 : Nat} {b : Block} (h : AInv a T) (hb : b ∈ a.blocks) (hS : T b.id b.pool s0 n0)
    (newSize : Nat) (hns : 0 < newSize) (g m : Nat) (hgd : g = a.cfg.poolGran b.pool) (hmd : m = (newSize + g - 1) / g) :
    0 < m ∧
    (n0 < m → a.shrinkImpl b.id (s0 * g) newSize = (a, .error .InvalidArgument)) ∧
    (m = n0 → (a.shrinkImpl b.id (s0 * g) newSize).2 = .ok none ∧ ShrinkPost a T b s0 n0 n0 (a.shrinkImpl b.id (s0 * g) newSize).1) ∧
    (m < n0 → (a.shrinkImpl b.id (s0 * g) newSize).2 = .ok (some (m * g)) ∧
      ShrinkPost a T b s0 n0 m (a.shrinkImpl b.id (s0 * g) newSize).1) := by
  subst hgd
  have hm : 0 < m := by
    apply Nat.pos_of_ne_zero
    intro h0
    rw [h0] at hmd
    have := Nat.div_eq_zero_iff.mp hmd.symm
    have := poolGran_pos h.wf b.pool
    omega
  subst hmd
  have hg := poolGran_pos h.wf b.pool
  obtain ⟨hI, hC⟩ := h.blk b hb
  obtain ⟨i1, i2, i3⟩ := hI.inside s0 n0 hS
  have hidx : s0 * a.cfg.poolGran b.pool / a.cfg.poolGran b.pool = s0 := Nat.mul_div_cancel _ hg
  have he : indexOfStop b.stop s0 + 1 = s0 + n0 := by rw [hI.toBCore.indexOfStop hS]; omega
  have hused : bit b.used s0 = true := (hI.used s0 (by omega)).mpr (Or.inr ⟨s0, n0, hS, by omega, by omega⟩)
  have e1 : s0 + n0 - s0 = n0 := by omega
  refine ⟨hm, ?_, ?_, ?_⟩
  · intro hlt
    simp only [Alloc.shrinkImpl, findBlock_of_mem h.ids hb, hidx, he, hused, e1]
    simp [hlt]
  · intro heq
    have hnlt : ¬(n0 < (newSize + a.cfg.poolGran b.pool - 1) / a.cfg.poolGran b.pool) := by omega
    simp only [Alloc.shrinkImpl, findBlock_of_mem h.ids hb, hidx, he, hused, e1]
    simp only [Bool.not_true, Bool.false_eq_true, if_false, gt_iff_lt, hnlt]
    have hd : n0 - (newSize + a.cfg.poolGran b.pool - 1) / a.cfg.poolGran b.pool = 0 := by omega
    simp only [hd, ne_eq, not_true_eq_false, if_false]
    refine ⟨trivial, ?_⟩
    generalize hb' : (if (decide (newSize < n0 * a.cfg.poolGran b.pool) && a.cfg.fillUnused) = true then
        { b with mem := setRange b.mem (s0 + (newSize + a.cfg.poolGran b.pool - 1) / a.cfg.poolGran b.pool) (s0 + n0) (patColour a.cfg) }
      else b) = b'
    have hb'I : BInv b' (T b.id b.pool) ∧ BCnt b' := by
      rw [← hb']; split
      · exact ⟨hI.withMem _, hC.withMem _⟩
      · exact ⟨hI, hC⟩
    have hb'id : b'.id = b.id ∧ b'.pool = b.pool := by rw [← hb']; split <;> simp
    have hA := AInv.modify (T' := fun id p s n => (T id p s n ∧ ¬(id = b.id ∧ s = s0 ∧ n = n0)) ∨ (id = b.id ∧ s = s0 ∧ n = n0))
      h hb hb'id.1 hb'id.2 ⟨hb'I.1.congr (by
        intro s n; simp only [true_and]
        constructor
        · intro hT
          by_cases c : s = s0 ∧ n = n0
          · exact Or.inr c
          · exact Or.inl ⟨hT, c⟩
        · rintro (⟨hT, _⟩ | ⟨rfl, rfl⟩)
          · exact hT
          · exact hS), hb'I.2⟩ (by intro id p s n hne; simp [hne])
    have hmem := fun x => mem_modifyBlock (b' := b') h.ids hb (x := x)
    refine ⟨rfl, rfl, hA, ?_, ?_⟩
    · intro x hx
      rcases (hmem x).mp hx with rfl | ⟨hx, _⟩
      · exact ⟨b, hb, hb'id.1.symm, hb'id.2.symm⟩
      · exact ⟨x, hx, rfl, rfl⟩
    · intro y hy
      by_cases c : y.id = b.id
      · have := eq_of_id_eq h.ids hy hb c
        subst this
        exact ⟨b', (hmem b').mpr (Or.inl rfl), hb'id⟩
      · exact ⟨y, (hmem y).mpr (Or.inr ⟨hy, c⟩), rfl, rfl⟩
  · intro hlt
    have hnlt : ¬(n0 < (newSize + a.cfg.poolGran b.pool - 1) / a.cfg.poolGran b.pool) := by omega
    simp only [Alloc.shrinkImpl, findBlock_of_mem h.ids hb, hidx, he, hused, e1]
    simp only [Bool.not_true, Bool.false_eq_true, if_false, gt_iff_lt, hnlt]
    have hd : n0 - (newSize + a.cfg.poolGran b.pool - 1) / a.cfg.poolGran b.pool ≠ 0 := by omega
    simp only [hd, ne_eq, not_false_eq_true, if_true]
    refine ⟨trivial, ?_⟩
    have hI' := hI.markShrunk hS hm hlt
    have hC' := BCnt.markShrunk hI hC hS hlt
    generalize hb' : (if (decide (newSize < n0 * a.cfg.poolGran b.pool) && a.cfg.fillUnused) = true then
        { b.markShrunk (s0 + (newSize + a.cfg.poolGran b.pool - 1) / a.cfg.poolGran b.pool) (s0 + n0) with
          mem := setRange (b.markShrunk (s0 + (newSize + a.cfg.poolGran b.pool - 1) / a.cfg.poolGran b.pool) (s0 + n0)).mem
            (s0 + (newSize + a.cfg.poolGran b.pool - 1) / a.cfg.poolGran b.pool) (s0 + n0) (patColour a.cfg) }
      else b.markShrunk (s0 + (newSize + a.cfg.poolGran b.pool - 1) / a.cfg.poolGran b.pool) (s0 + n0)) = b'
    have hb'I : BInv b' (fun s n => (T b.id b.pool s n ∧ ¬(s = s0 ∧ n = n0)) ∨
        (s = s0 ∧ n = (newSize + a.cfg.poolGran b.pool - 1) / a.cfg.poolGran b.pool)) ∧ BCnt b' := by
      rw [← hb']; split
      · exact ⟨hI'.withMem _, hC'.withMem _⟩
      · exact ⟨hI', hC'⟩
    have hb'id : b'.id = b.id ∧ b'.pool = b.pool := by rw [← hb']; split <;> simp
    have hA := AInv.modify (T' := fun id p s n => (T id p s n ∧ ¬(id = b.id ∧ s = s0 ∧ n = n0)) ∨
        (id = b.id ∧ s = s0 ∧ n = (newSize + a.cfg.poolGran b.pool - 1) / a.cfg.poolGran b.pool))
      h hb hb'id.1 hb'id.2 ⟨hb'I.1.congr (by intro s n; simp), hb'I.2⟩ (by intro id p s n hne; simp [hne])
    have hmem := fun x => mem_modifyBlock (b' := b') h.ids hb (x := x)
    refine ⟨rfl, rfl, hA.setPool _ _, ?_, ?_⟩
    · intro x hx
      rcases (hmem x).mp hx with rfl | ⟨hx, _⟩
      · exact ⟨b, hb, hb'id.1.symm, hb'id.2.symm⟩
      · exact ⟨x, hx, rfl, rfl⟩
    · intro y hy
      by_cases c : y.id = b.id
      · have := eq_of_id_eq h.ids hy hb c
        subst this
        exact ⟨b', (hmem b').mpr (Or.inl rfl), hb'id⟩
      · exact ⟨y, (hmem y).mpr (Or.inr ⟨hy, c⟩), rfl, rfl⟩



theorem shrinkImpl_of_query_error {a : Alloc} {blk off n : Nat} {e : Err} (h : a.query blk off = .error e) :
    ∃ e', a.shrinkImpl blk off n = (a, .error e') := by
  unfold Alloc.query at h
  unfold Alloc.shrinkImpl
  split at h
  · rename_i hf; simp [hf]
  · rename_i b hf
    simp only [hf]
    simp only at h
    by_cases hu : (!bit b.used (off / a.cfg.poolGran b.pool)) = true
    · simp [hu]
    · simp [hu] at h

theorem AInv.writeMem {a : Alloc} {T} (h : AInv a T) (blk off size byte : Nat) : AInv (a.writeMem blk off size byte) T := by
  unfold Alloc.writeMem Alloc.modifyBlock
  refine ⟨h.wf, ?_, ?_, ?_⟩
  · simp only [List.map_map]
    have : (a.blocks.map ((fun x => x.id) ∘ fun b => if b.id = blk then
        { b with mem := setRange b.mem (off / a.cfg.poolGran b.pool) ((off + size) / a.cfg.poolGran b.pool) byte } else b)) =
        a.blocks.map (·.id) := by
      apply List.map_congr_left
      intro x _
      simp only [Function.comp]
      split <;> rfl
    rw [this]; exact h.ids
  · intro x hx
    obtain ⟨y, hy, rfl⟩ := List.mem_map.mp hx
    show _ < a.nextId
    split
    · exact h.fresh y hy
    · exact h.fresh y hy
  · intro x hx
    obtain ⟨y, hy, rfl⟩ := List.mem_map.mp hx
    obtain ⟨hI, hC⟩ := h.blk y hy
    split
    · exact ⟨hI.withMem _, hC.withMem _⟩
    · exact ⟨hI, hC⟩

theorem writeMem_blocks_ids {a : Alloc} (blk off size byte : Nat) :
    (∀ x ∈ (a.writeMem blk off size byte).blocks, ∃ y ∈ a.blocks, y.id = x.id ∧ y.pool = x.pool) ∧
    (∀ y ∈ a.blocks, ∃ x ∈ (a.writeMem blk off size byte).blocks, x.id = y.id ∧ x.pool = y.pool) := by
  unfold Alloc.writeMem Alloc.modifyBlock
  constructor
  · intro x hx
    obtain ⟨y, hy, rfl⟩ := List.mem_map.mp hx
    refine ⟨y, hy, ?_⟩
    split <;> exact ⟨rfl, rfl⟩
  · intro y hy
    refine ⟨_, List.mem_map_of_mem hy, ?_⟩
    split <;> exact ⟨rfl, rfl⟩

theorem wipeOut_id (cfg : Config) (b : Block) : (wipeOut cfg b).id = b.id ∧ (wipeOut cfg b).pool = b.pool := by
  unfold wipeOut
  split
  · exact ⟨rfl, rfl⟩
  · split <;> exact ⟨rfl, rfl⟩

theorem wipeOut_inv {cfg : Config} {b : Block} {S} (hI : BInv b S) (hC : BCnt b) :
    BInv (wipeOut cfg b) (fun _ _ => False) ∧ BCnt (wipeOut cfg b) := by
  unfold wipeOut
  split
  · rename_i he
    have := no_spans_of_unused hI.toBCore hC (hC.emp he)
    exact ⟨hI.congr (by intro s n; simp [this s n]), hC⟩
  · split
    · exact ⟨BInv.clear _ hI.area, BCnt.clear _ hI.area⟩
    · exact ⟨BInv.clear _ hI.area, BCnt.clear _ hI.area⟩

theorem filterMap_ids_sublist (f : Block → Option Block) (hf : ∀ b b', f b = some b' → b'.id = b.id) :
    ∀ bs : List Block, ((bs.filterMap f).map (·.id)).Sublist (bs.map (·.id)) := by
  intro bs
  induction bs with
  | nil => simp
  | cons x xs ih =>
    simp only [List.filterMap_cons]
    split
    · exact ih.cons _
    · rename_i b' hb'
      simp only [List.map_cons, hf x b' hb']
      exact ih.cons₂ _

theorem reset_spec {a : Alloc} {T} (h : AInv a T) (hard : Bool) :
    AInv (a.reset hard) (fun _ _ _ _ => False) ∧ (a.reset hard).cfg = a.cfg := by
  unfold Alloc.reset
  simp only
  refine ⟨⟨h.wf, ?_, ?_, ?_⟩, trivial⟩
  · apply List.Pairwise.sublist _ h.ids
    apply filterMap_ids_sublist
    intro b b' hb
    by_cases hk : a.keeps hard b = true
    · simp [hk] at hb; rw [← hb]; exact (wipeOut_id _ _).1
    · simp [hk] at hb
  · intro x hx
    obtain ⟨y, hy, hf⟩ := List.mem_filterMap.mp hx
    by_cases hk : a.keeps hard y = true
    · simp [hk] at hf; rw [← hf, (wipeOut_id _ _).1]; exact h.fresh y hy
    · simp [hk] at hf
  · intro x hx
    obtain ⟨y, hy, hf⟩ := List.mem_filterMap.mp hx
    by_cases hk : a.keeps hard y = true
    · simp [hk] at hf
      obtain ⟨hI, hC⟩ := h.blk y hy
      rw [← hf]
      exact wipeOut_inv hI hC
    · simp [hk] at hf

end AsmjitVerif.JitAlloc
