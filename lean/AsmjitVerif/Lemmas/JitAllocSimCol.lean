/- C09 refinement (model run ⊑ monitor): run-length coding round trip and the expected colours of a span. -/
import AsmjitVerif.Lemmas.JitAllocSimOps2
namespace AsmjitVerif.JitAlloc
open Spec

theorem unrle_rle : ∀ (l : List Nat), unrle (rle l) = l := by
  intro l
  induction l with
  | nil => rfl
  | cons x xs ih =>
    unfold rle
    cases hr : rle xs with
    | nil =>
      rw [hr] at ih
      simp [unrle] at ih ⊢
      exact ih
    | cons y r =>
      obtain ⟨c, k⟩ := y
      rw [hr] at ih
      simp only
      split
      · rename_i e
        subst e
        simp only [unrle, List.flatMap_cons] at ih ⊢
        rw [← ih, List.replicate_succ]; rfl
      · simp only [unrle, List.flatMap_cons] at ih ⊢
        rw [← ih]; rfl

/-- the colour the ghost expects in granule `k` of block `b` is the colour the model's memory has -/
theorem colour_ok {g : Ghost} {s : St} (hS : Sim g s) (hG : Good s) {b : Block} (hb : b ∈ s.a.blocks) (k : Nat) (hk : k < b.areaSize) :
    match g.expectedColour (toGB b) k with
    | some c => c = memAt b k
    | none => True := by
  have hI := hG.inv
  have hg := poolGran_pos hI.wf b.pool
  obtain ⟨hB, _⟩ := hI.blk b hb
  have hM := hG.mem b hb
  unfold Ghost.expectedColour
  simp only [toGB, hS.cfg]
  have cover_iff : ∀ st n : Nat, (st * s.a.cfg.poolGran b.pool ≤ k * s.a.cfg.poolGran b.pool ∧
      k * s.a.cfg.poolGran b.pool < st * s.a.cfg.poolGran b.pool + n * s.a.cfg.poolGran b.pool) ↔ (st ≤ k ∧ k < st + n) := by
    intro st n
    rw [← Nat.add_mul]
    constructor
    · rintro ⟨h1, h2⟩
      exact ⟨Nat.le_of_mul_le_mul_right h1 hg, Nat.lt_of_mul_lt_mul_right h2⟩
    · rintro ⟨h1, h2⟩
      exact ⟨Nat.mul_le_mul_right _ h1, Nat.mul_lt_mul_of_pos_right h2 hg⟩
  cases hf : (g.liveIn b.id).find? (fun x => decide (x.off ≤ k * s.a.cfg.poolGran b.pool) && decide (k * s.a.cfg.poolGran b.pool < x.off + x.size)) with
  | some x =>
    simp only
    have hx := List.mem_of_find?_eq_some hf
    have hp := List.find?_some hf
    simp only [Bool.and_eq_true, decide_eq_true_eq] at hp
    obtain ⟨st, n, hSp, o1, o2⟩ := liveIn_span hS hI hb hx
    rw [o1, o2] at hp
    have hc := (cover_iff st n).mp hp
    -- the model's memory in this granule
    have hx' := hx
    simp only [Ghost.liveIn, List.mem_filter] at hx'
    obtain ⟨i, hi⟩ := List.getElem?_of_mem hx'.1
    have hlive : x.live = true ∧ x.blk = b.id := by simpa using hx'.2
    have hin : inSpan (s.a.cfg.poolGran b.pool) (toH x) k := by
      unfold inSpan toH
      simp only
      rw [o1, o2, ← Nat.add_mul, Nat.mul_div_cancel _ hg, Nat.mul_div_cancel _ hg]
      exact hc
    have ht := hS.tags i x hi hlive.1 b hb hlive.2.symm k hin
    cases htag : x.tag with
    | some t => rw [htag] at ht; simp only at ht ⊢; exact ht.symm
    | none =>
      rw [htag] at ht
      simp only at ht ⊢
      cases hfl : s.a.cfg.fillUnused
      · simp
      · simp only [if_true]; exact (ht hfl).symm
  | none =>
    simp only
    cases hfl : s.a.cfg.fillUnused
    · simp
    · simp only [if_true]
      symm
      apply hM.fill hfl k hk
      -- no live span covers the granule
      have hnc : ¬ ∃ st n, Spans s.tab b.id (s.a.cfg.poolGran b.pool) st n ∧ st ≤ k ∧ k < st + n := by
        rintro ⟨st, n, hSp, h1, h2⟩
        obtain ⟨x, hx, e1, e2⟩ := (hS.spans _ _ _ _).mp hSp
        have := List.find?_eq_none.mp hf x hx
        simp only [Bool.and_eq_true, decide_eq_true_eq, e1, e2] at this
        exact this ((cover_iff st n).mpr ⟨h1, h2⟩)
      cases hu : bit b.used k
      · exact Or.inl rfl
      · rcases (hB.used k hk).mp hu with hp | hsp
        · exact Or.inr hp
        · exact absurd hsp hnc

end AsmjitVerif.JitAlloc

namespace AsmjitVerif.JitAlloc
open Spec

theorem coloursOk_slice {g : Ghost} {s : St} (hS : Sim g s) (hG : Good s) {b : Block} (hb : b ∈ s.a.blocks) (start n : Nat)
    (hfit : start + n ≤ b.areaSize) : g.coloursOk (toGB b) start ((b.mem.drop start).take n) = true := by
  unfold Ghost.coloursOk
  rw [List.all_eq_true]
  rintro ⟨c, k⟩ hm
  have hm' := List.mem_zipIdx_iff_getElem?.mp hm
  simp only at hm'
  have hlen := (hG.mem b hb).len
  have hk : k < n := by
    by_cases ck : k < n
    · exact ck
    · rw [List.getElem?_take] at hm'; simp [ck] at hm'
  rw [List.getElem?_take, if_pos hk, List.getElem?_drop] at hm'
  have hc : memAt b (start + k) = c := by
    unfold memAt
    simp [List.getD, hm']
  have := colour_ok hS hG hb (start + k) (by omega)
  simp only
  cases he : g.expectedColour (toGB b) (start + k) with
  | none => rfl
  | some x => rw [he] at this; simp only at this; simp [this, hc]

theorem length_slice (l : List Nat) (start n : Nat) (h : start + n ≤ l.length) : ((l.drop start).take n).length = n := by
  simp; omega

end AsmjitVerif.JitAlloc
