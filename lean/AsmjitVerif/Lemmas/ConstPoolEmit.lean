/- C19, part 4: pools in the section – `embedPool`, `layout`, the Compiler's local/global pools. -/
import AsmjitVerif.Model.ConstPoolEmit
import AsmjitVerif.Model.ConstPool32
import AsmjitVerif.Lemmas.ConstPoolImage
namespace AsmjitVerif.ConstPool
open Spec

/-! ### `embedPool` -/

theorem offsetOf_cons (s t : Sect) (l a L : Nat) (ht : t.bound = (a, L) :: s.bound) :
    t.offsetOf l = if a = l then some L else s.offsetOf l := by
  unfold Sect.offsetOf
  rw [ht]
  simp only [List.find?_cons]
  by_cases h : a = l
  · simp [h]
  · have : (a == l) = false := by simpa using h
    simp [this, h]

theorem embedPool_ok_iff (pad : BitVec 8) (s s' : Sect) (l : Nat) (p : Pool) :
    embedPool pad s l p = .ok s' ↔
      l < s.nlabels ∧ s.offsetOf l = none ∧
      s' = { s with buf := s.buf ++ (List.replicate (alignUp s.buf.length p.alignment - s.buf.length) pad ++ fill p),
                    bound := (l, alignUp s.buf.length p.alignment) :: s.bound } := by
  unfold embedPool
  by_cases h1 : l < s.nlabels
  · cases h2 : s.offsetOf l with
    | none => simp [h1]; exact eq_comm
    | some v => simp [h1]
  · simp [h1]

/-- `s'` extends `s`: bytes appended only, bound labels keep their offsets, no label created -/
def Ext (s s' : Sect) : Prop :=
  (∃ x, s'.buf = s.buf ++ x) ∧ (∀ l L, s.offsetOf l = some L → s'.offsetOf l = some L) ∧ s'.nlabels = s.nlabels

theorem Ext.refl (s : Sect) : Ext s s := ⟨⟨[], by simp⟩, fun _ _ h => h, rfl⟩

theorem Ext.trans {a b c : Sect} (h1 : Ext a b) (h2 : Ext b c) : Ext a c := by
  obtain ⟨⟨x, hx⟩, hl1, hn1⟩ := h1
  obtain ⟨⟨y, hy⟩, hl2, hn2⟩ := h2
  exact ⟨⟨x ++ y, by rw [hy, hx, List.append_assoc]⟩, fun l L h => hl2 l L (hl1 l L h), by rw [hn2, hn1]⟩

theorem embedPool_ext {pad : BitVec 8} {s s' : Sect} {l : Nat} {p : Pool} (h : embedPool pad s l p = .ok s') : Ext s s' := by
  obtain ⟨_, hnone, rfl⟩ := (embedPool_ok_iff pad s s' l p).1 h
  refine ⟨⟨_, rfl⟩, fun l' L hl' => ?_, rfl⟩
  rw [offsetOf_cons s _ l' _ _ rfl]
  by_cases he : l = l'
  · subst he; rw [hnone] at hl'; exact absurd hl' (by simp)
  · simp [he]; exact hl'

theorem layoutItem_ext (pad : BitVec 8) (s : Sect) (it : Item) : Ext s (layoutItem pad s it) := by
  cases it with
  | code b => exact ⟨⟨b, rfl⟩, fun _ _ h => h, rfl⟩
  | pool cp =>
    simp only [layoutItem]
    cases h : embedPool pad s cp.label cp.pool with
    | ok s' => exact embedPool_ext h
    | error e => exact Ext.refl s

theorem layoutFold_ext (pad : BitVec 8) (items : List Item) : ∀ s, Ext s (items.foldl (layoutItem pad) s) := by
  induction items with
  | nil => intro s; exact Ext.refl s
  | cons it rest ih => intro s; exact (layoutItem_ext pad s it).trans (ih _)

/-- the pool node `cp` sits in the section: label bound at a multiple of the alignment, image right behind it -/
def Placed (s : Sect) (cp : CPool) : Prop :=
  ∃ L, s.offsetOf cp.label = some L ∧ L % max cp.pool.alignment 1 = 0 ∧ L + (fill cp.pool).length ≤ s.buf.length ∧
    slice s.buf L (fill cp.pool).length = fill cp.pool

theorem slice_append_left (a x : Bytes) (L n : Nat) (h : L + n ≤ a.length) : slice (a ++ x) L n = slice a L n := by
  unfold slice
  rw [List.drop_append_of_le_length (by omega), List.take_append_of_le_length (by simp; omega)]

theorem Placed.ext {s s' : Sect} {cp : CPool} (h : Placed s cp) (he : Ext s s') : Placed s' cp := by
  obtain ⟨L, h1, h2, h3, h4⟩ := h
  obtain ⟨⟨x, hx⟩, hl, _⟩ := he
  refine ⟨L, hl _ _ h1, h2, by rw [hx]; simp; omega, ?_⟩
  rw [hx, slice_append_left _ _ _ _ h3]; exact h4

theorem embedPool_placed {pad : BitVec 8} {s s' : Sect} {cp : CPool} (h : embedPool pad s cp.label cp.pool = .ok s') :
    Placed s' cp := by
  obtain ⟨_, _, rfl⟩ := (embedPool_ok_iff pad s s' cp.label cp.pool).1 h
  have hge := alignUp_ge s.buf.length cp.pool.alignment
  refine ⟨alignUp s.buf.length cp.pool.alignment, by rw [offsetOf_cons s _ _ _ _ rfl]; simp, alignUp_mod _ _, by simp; omega, ?_⟩
  unfold slice
  simp only
  rw [← List.append_assoc, List.drop_left' (by simp; omega)]
  simp

def poolsOfItems (items : List Item) : List CPool := items.filterMap fun | .pool cp => some cp | .code _ => none

theorem mem_poolsOfItems (items : List Item) (cp : CPool) : cp ∈ poolsOfItems items ↔ Item.pool cp ∈ items := by
  unfold poolsOfItems
  rw [List.mem_filterMap]
  constructor
  · rintro ⟨it, hit, heq⟩
    cases it with
    | code b => simp at heq
    | pool c => simp at heq; subst heq; exact hit
  · intro h; exact ⟨_, h, rfl⟩

/-- serialisation places every pool node, provided the pool labels are valid, distinct and not yet bound -/
theorem layoutFold_placed (pad : BitVec 8) (items : List Item) : ∀ (s : Sect),
    (∀ cp ∈ poolsOfItems items, cp.label < s.nlabels ∧ s.offsetOf cp.label = none) →
    ((poolsOfItems items).map (·.label)).Nodup →
    ∀ cp ∈ poolsOfItems items, Placed (items.foldl (layoutItem pad) s) cp := by
  induction items with
  | nil => intro s _ _ cp h; simp [poolsOfItems] at h
  | cons it rest ih =>
    intro s hs hnd cp hcp
    simp only [List.foldl_cons]
    cases it with
    | code b =>
      have e : poolsOfItems (Item.code b :: rest) = poolsOfItems rest := by simp [poolsOfItems]
      rw [e] at hs hnd hcp
      exact ih (layoutItem pad s (Item.code b)) (fun c hc => hs c hc) hnd cp hcp
    | pool c0 =>
      have e : poolsOfItems (Item.pool c0 :: rest) = c0 :: poolsOfItems rest := by simp [poolsOfItems]
      rw [e] at hs hnd hcp
      simp only [List.map_cons, List.nodup_cons] at hnd
      obtain ⟨hlt, hnone⟩ := hs c0 List.mem_cons_self
      have hok : ∃ s1, embedPool pad s c0.label c0.pool = .ok s1 :=
        ⟨_, (embedPool_ok_iff pad s _ c0.label c0.pool).2 ⟨hlt, hnone, rfl⟩⟩
      obtain ⟨s1, hs1⟩ := hok
      have hl : layoutItem pad s (Item.pool c0) = s1 := by simp only [layoutItem, hs1]
      rw [hl]
      rcases List.mem_cons.1 hcp with rfl | hrest
      · exact (embedPool_placed hs1).ext (layoutFold_ext pad rest s1)
      · refine ih s1 (fun c hc => ?_) hnd.2 cp hrest
        obtain ⟨_, _, rfl⟩ := (embedPool_ok_iff pad s s1 c0.label c0.pool).1 hs1
        refine ⟨(hs c (List.mem_cons_of_mem _ hc)).1, ?_⟩
        rw [offsetOf_cons s _ _ _ _ rfl]
        have hne : c0.label ≠ c.label := fun heq => hnd.1 (List.mem_map.2 ⟨c, hc, heq.symm⟩)
        simp [hne]; exact (hs c (List.mem_cons_of_mem _ hc)).2

/-! ### the Compiler's pools -/

/-- all pool nodes a Compiler knows: in the node list, the pending local one, the global one -/
def poolsOf (c : Comp) : List CPool := poolsOfItems c.nodes ++ (c.loc.toList ++ c.glob.toList)

/-- pool labels are distinct and were all created by `new_const_pool_node` -/
def CInv (c : Comp) : Prop := ((poolsOf c).map (·.label)).Nodup ∧ ∀ cp ∈ poolsOf c, cp.label < c.nextLabel

theorem poolsOfItems_append (a b : List Item) : poolsOfItems (a ++ b) = poolsOfItems a ++ poolsOfItems b := by
  simp [poolsOfItems, List.filterMap_append]

theorem CInv.init : CInv Comp.init := by simp [CInv, poolsOf, Comp.init, poolsOfItems]

/-- a constant handed out earlier: its pool node is still known, and the pool still has the constant at that offset -/
def HoldsIn (c : Comp) (label off : Nat) (d : Bytes) : Prop :=
  ∃ cp ∈ poolsOf c, cp.label = label ∧ ∃ hist, Inv cp.pool hist ∧ (⟨d, off⟩ : Entry) ∈ hist

theorem holds_add {P : Pool} {e : Entry} (d : Bytes) (h : ∃ hist, Inv P hist ∧ e ∈ hist) :
    ∃ hist, Inv (add P d).1 hist ∧ e ∈ hist := by
  obtain ⟨hist, hinv, he⟩ := h
  by_cases hv : validSize d.length = true
  · obtain ⟨off, _, hinv', _, _⟩ := add_inv P hist d hinv hv
    exact ⟨_, hinv', List.mem_cons_of_mem _ he⟩
  · have hv' : validSize d.length = false := by simpa using hv
    rw [add_invalid P d hv']; exact ⟨hist, hinv, he⟩

/-- every pool the Compiler knows is a reachable-style pool (satisfies the C19 invariant) -/
def AllInv (c : Comp) : Prop := ∀ cp ∈ poolsOf c, ∃ hist, Inv cp.pool hist

theorem mem_poolsOf (c : Comp) (cp : CPool) :
    cp ∈ poolsOf c ↔ cp ∈ poolsOfItems c.nodes ∨ c.loc = some cp ∨ c.glob = some cp := by
  unfold poolsOf
  simp only [List.mem_append, Option.mem_toList]

/-- the pool `newConst` works on: the scope's current pool node, or a fresh one with the next label -/
def scopePool (c : Comp) : Scope → Option CPool
  | .loc => c.loc
  | .glob => c.glob

def curPool (c : Comp) (sc : Scope) : CPool :=
  match scopePool c sc with
  | some cp => cp
  | none => { label := c.nextLabel, pool := Pool.init }

def scopeSet (c : Comp) (sc : Scope) : Bool := match sc with | .loc => c.loc.isSome | .glob => c.glob.isSome

theorem newConst_state (c : Comp) (sc : Scope) (d : Bytes) :
    (newConst c sc d).1 =
      (match sc with
       | .loc => { c with loc := some ⟨(curPool c sc).label, (add (curPool c sc).pool d).1⟩,
                          nextLabel := if scopeSet c sc then c.nextLabel else c.nextLabel + 1 }
       | .glob => { c with glob := some ⟨(curPool c sc).label, (add (curPool c sc).pool d).1⟩,
                           nextLabel := if scopeSet c sc then c.nextLabel else c.nextLabel + 1 }) ∧
    (newConst c sc d).2 =
      (match (add (curPool c sc).pool d).2 with
       | .ok off => .mem (curPool c sc).label (int32 off)
       | .invalidArgument => .invalidArgument (curPool c sc).label) := by
  cases sc with
  | loc => cases h : c.loc <;> simp [newConst, curPool, scopePool, scopeSet, h] <;>
      (generalize (add _ d).2 = r; cases r <;> rfl)
  | glob => cases h : c.glob <;> simp [newConst, curPool, scopePool, scopeSet, h] <;>
      (generalize (add _ d).2 = r; cases r <;> rfl)

theorem curPool_inv (c : Comp) (sc : Scope) (h : AllInv c) : ∃ hist, Inv (curPool c sc).pool hist := by
  unfold curPool scopePool
  cases sc with
  | loc =>
    cases hl : c.loc with
    | none => exact ⟨[], Inv.init⟩
    | some cp => exact h cp ((mem_poolsOf c cp).2 (Or.inr (Or.inl hl)))
  | glob =>
    cases hl : c.glob with
    | none => exact ⟨[], Inv.init⟩
    | some cp => exact h cp ((mem_poolsOf c cp).2 (Or.inr (Or.inr hl)))

/-- one Compiler operation keeps: every known pool satisfies the C19 invariant; constants handed out stay where they are -/
theorem cstep_keeps (c : Comp) (op : COp) (hall : AllInv c) :
    AllInv (cstep c op) ∧ ∀ label off d, HoldsIn c label off d → HoldsIn (cstep c op) label off d := by
  cases op with
  | addFunc p =>
    have e : poolsOf (cstep c (.addFunc p)) = poolsOf c := by
      simp [cstep, addFunc, poolsOf, poolsOfItems_append, poolsOfItems]
    exact ⟨fun cp h => hall cp (e ▸ h), fun l o d ⟨cp, hm, r⟩ => ⟨cp, e ▸ hm, r⟩⟩
  | code b =>
    have e : poolsOf (cstep c (.code b)) = poolsOf c := by
      simp [cstep, emitCode, poolsOf, poolsOfItems_append, poolsOfItems]
    exact ⟨fun cp h => hall cp (e ▸ h), fun l o d ⟨cp, hm, r⟩ => ⟨cp, e ▸ hm, r⟩⟩
  | endFunc ep =>
    have e : ∀ cp, cp ∈ poolsOf (cstep c (.endFunc ep)) ↔ cp ∈ poolsOf c := by
      intro cp
      simp only [cstep, endFunc]
      by_cases hf : c.inFunc = true
      · cases hl : c.loc with
        | none => simp [hf, hl, poolsOf, poolsOfItems_append, poolsOfItems]
        | some c0 => simp [hf, hl, poolsOf, poolsOfItems_append, poolsOfItems]
      · simp [hf]
    exact ⟨fun cp h => hall cp ((e cp).1 h), fun l o d ⟨cp, hm, r⟩ => ⟨cp, (e cp).2 hm, r⟩⟩
  | newConst sc d =>
    obtain ⟨hst, _⟩ := newConst_state c sc d
    have hcur := curPool_inv c sc hall
    -- membership in the new state: the updated pool of the scope, or an old pool that is not the scope's pool
    have key : ∀ cp, cp ∈ poolsOf (cstep c (.newConst sc d)) →
        cp = ⟨(curPool c sc).label, (add (curPool c sc).pool d).1⟩ ∨ cp ∈ poolsOf c := by
      intro cp h
      simp only [cstep] at h; rw [hst] at h
      cases sc with
      | loc =>
        rcases (mem_poolsOf _ cp).1 h with h1 | h1 | h1
        · exact Or.inr ((mem_poolsOf c cp).2 (Or.inl h1))
        · left; simpa using h1.symm
        · exact Or.inr ((mem_poolsOf c cp).2 (Or.inr (Or.inr h1)))
      | glob =>
        rcases (mem_poolsOf _ cp).1 h with h1 | h1 | h1
        · exact Or.inr ((mem_poolsOf c cp).2 (Or.inl h1))
        · exact Or.inr ((mem_poolsOf c cp).2 (Or.inr (Or.inl h1)))
        · left; simpa using h1.symm
    refine ⟨fun cp h => ?_, fun l o dd ⟨cp, hm, hl, hh⟩ => ?_⟩
    · rcases key cp h with rfl | hold
      · obtain ⟨hist, hinv⟩ := hcur
        by_cases hv : validSize d.length = true
        · obtain ⟨off, _, hinv', _, _⟩ := add_inv _ hist d hinv hv
          exact ⟨_, hinv'⟩
        · have hv' : validSize d.length = false := by simpa using hv
          simp only [add_invalid _ d hv']; exact ⟨hist, hinv⟩
      · exact hall cp hold
    · -- the constant's pool: either it is the scope's current pool (then it was extended) or it is untouched
      by_cases hcp : scopePool c sc = some cp
      · have hc : curPool c sc = cp := by unfold curPool; rw [hcp]
        refine ⟨⟨cp.label, (add cp.pool d).1⟩, ?_, hl, holds_add d hh⟩
        simp only [cstep]; rw [hst, hc]
        cases sc with
        | loc => exact (mem_poolsOf _ _).2 (Or.inr (Or.inl rfl))
        | glob => exact (mem_poolsOf _ _).2 (Or.inr (Or.inr rfl))
      · refine ⟨cp, ?_, hl, hh⟩
        simp only [cstep]; rw [hst]
        rcases (mem_poolsOf c cp).1 hm with h1 | h1 | h1
        · cases sc <;> exact (mem_poolsOf _ _).2 (Or.inl h1)
        · cases sc with
          | loc => exact absurd h1 hcp
          | glob => exact (mem_poolsOf _ _).2 (Or.inr (Or.inl h1))
        · cases sc with
          | loc => exact (mem_poolsOf _ _).2 (Or.inr (Or.inr h1))
          | glob => exact absurd h1 hcp

theorem crun_keeps (ops : List COp) : ∀ c, AllInv c →
    AllInv (crun c ops) ∧ ∀ label off d, HoldsIn c label off d → HoldsIn (crun c ops) label off d := by
  induction ops with
  | nil => intro c h; exact ⟨h, fun _ _ _ hh => hh⟩
  | cons op rest ih =>
    intro c h
    obtain ⟨h1, h2⟩ := cstep_keeps c op h
    obtain ⟨h3, h4⟩ := ih (cstep c op) h1
    exact ⟨h3, fun l o d hh => h4 l o d (h2 l o d hh)⟩

theorem AllInv.init : AllInv Comp.init := by intro cp h; simp [poolsOf, Comp.init, poolsOfItems] at h

/-! ### pool labels stay distinct -/

theorem nodup_insert_mid (A G : List Nat) (n : Nat) (h : (A ++ G).Nodup) (hn : ∀ x ∈ A ++ G, x < n) :
    (A ++ (n :: G)).Nodup := by
  rw [List.nodup_append] at h ⊢
  obtain ⟨h1, h2, h3⟩ := h
  refine ⟨h1, List.nodup_cons.2 ⟨fun hm => absurd (hn n (List.mem_append_right _ hm)) (Nat.lt_irrefl _), h2⟩, fun a ha b hb => ?_⟩
  rcases List.mem_cons.1 hb with rfl | hb
  · intro e; subst e; exact absurd (hn _ (List.mem_append_left _ ha)) (Nat.lt_irrefl _)
  · exact h3 a ha b hb

theorem cstep_cinv (c : Comp) (op : COp) (h : CInv c) : CInv (cstep c op) := by
  obtain ⟨hnd, hlt⟩ := h
  cases op with
  | addFunc p =>
    have e : poolsOf (cstep c (.addFunc p)) = poolsOf c := by simp [cstep, addFunc, poolsOf, poolsOfItems_append, poolsOfItems]
    unfold CInv; rw [e]; exact ⟨hnd, hlt⟩
  | code b =>
    have e : poolsOf (cstep c (.code b)) = poolsOf c := by simp [cstep, emitCode, poolsOf, poolsOfItems_append, poolsOfItems]
    unfold CInv; rw [e]; exact ⟨hnd, hlt⟩
  | endFunc ep =>
    have e : poolsOf (cstep c (.endFunc ep)) = poolsOf c ∧ (cstep c (.endFunc ep)).nextLabel = c.nextLabel := by
      simp only [cstep, endFunc]
      by_cases hf : c.inFunc = true
      · cases hl : c.loc with
        | none => simp [hf, hl, poolsOf, poolsOfItems_append, poolsOfItems]
        | some c0 => simp [hf, hl, poolsOf, poolsOfItems_append, poolsOfItems]
      · simp [hf]
    unfold CInv; rw [e.1, e.2]; exact ⟨hnd, hlt⟩
  | newConst sc d =>
    obtain ⟨hst, _⟩ := newConst_state c sc d
    unfold CInv
    simp only [cstep]; rw [hst]
    cases sc with
    | loc =>
      cases hl : c.loc with
      | some c0 =>
        have hc : curPool c .loc = c0 := by simp [curPool, scopePool, hl]
        simp only [hc, scopeSet, hl, Option.isSome_some, if_true]
        have e1 : ((poolsOf c).map (·.label)) = (poolsOfItems c.nodes).map (·.label) ++ (c0.label :: c.glob.toList.map (·.label)) := by
          simp [poolsOf, hl]
        constructor
        · simpa [poolsOf, e1] using (e1 ▸ hnd)
        · intro cp hcp
          rcases (mem_poolsOf _ cp).1 hcp with h1 | h1 | h1
          · exact hlt cp ((mem_poolsOf c cp).2 (Or.inl h1))
          · have : cp = ⟨c0.label, (add c0.pool d).1⟩ := by simpa using h1.symm
            rw [this]; exact hlt c0 ((mem_poolsOf c c0).2 (Or.inr (Or.inl hl)))
          · exact hlt cp ((mem_poolsOf c cp).2 (Or.inr (Or.inr h1)))
      | none =>
        have hc : curPool c .loc = ⟨c.nextLabel, Pool.init⟩ := by simp [curPool, scopePool, hl]
        simp only [hc, scopeSet, hl, Option.isSome_none, Bool.false_eq_true, if_false]
        have e1 : ((poolsOf c).map (·.label)) = (poolsOfItems c.nodes).map (·.label) ++ (c.glob.toList.map (·.label)) := by
          simp [poolsOf, hl]
        have hlt' : ∀ x ∈ (poolsOfItems c.nodes).map (·.label) ++ (c.glob.toList.map (·.label)), x < c.nextLabel := by
          intro x hx; rw [← e1] at hx
          obtain ⟨cp, hcp, rfl⟩ := List.mem_map.1 hx; exact hlt cp hcp
        constructor
        · have := nodup_insert_mid _ _ c.nextLabel (e1 ▸ hnd) hlt'
          simpa [poolsOf] using this
        · intro cp hcp
          rcases (mem_poolsOf _ cp).1 hcp with h1 | h1 | h1
          · have := hlt cp ((mem_poolsOf c cp).2 (Or.inl h1)); omega
          · have : cp = ⟨c.nextLabel, (add Pool.init d).1⟩ := by simpa using h1.symm
            rw [this]; simp
          · have := hlt cp ((mem_poolsOf c cp).2 (Or.inr (Or.inr h1))); omega
    | glob =>
      cases hl : c.glob with
      | some c0 =>
        have hc : curPool c .glob = c0 := by simp [curPool, scopePool, hl]
        simp only [hc, scopeSet, hl, Option.isSome_some, if_true]
        have e1 : ((poolsOf c).map (·.label)) = (poolsOfItems c.nodes).map (·.label) ++ (c.loc.toList.map (·.label) ++ [c0.label]) := by
          simp [poolsOf, hl]
        constructor
        · simpa [poolsOf, e1] using (e1 ▸ hnd)
        · intro cp hcp
          rcases (mem_poolsOf _ cp).1 hcp with h1 | h1 | h1
          · exact hlt cp ((mem_poolsOf c cp).2 (Or.inl h1))
          · exact hlt cp ((mem_poolsOf c cp).2 (Or.inr (Or.inl h1)))
          · have : cp = ⟨c0.label, (add c0.pool d).1⟩ := by simpa using h1.symm
            rw [this]; exact hlt c0 ((mem_poolsOf c c0).2 (Or.inr (Or.inr hl)))
      | none =>
        have hc : curPool c .glob = ⟨c.nextLabel, Pool.init⟩ := by simp [curPool, scopePool, hl]
        simp only [hc, scopeSet, hl, Option.isSome_none, Bool.false_eq_true, if_false]
        have e1 : ((poolsOf c).map (·.label)) = ((poolsOfItems c.nodes).map (·.label) ++ c.loc.toList.map (·.label)) ++ [] := by
          simp [poolsOf, hl]
        have hlt' : ∀ x ∈ ((poolsOfItems c.nodes).map (·.label) ++ c.loc.toList.map (·.label)) ++ [], x < c.nextLabel := by
          intro x hx; rw [← e1] at hx
          obtain ⟨cp, hcp, rfl⟩ := List.mem_map.1 hx; exact hlt cp hcp
        constructor
        · have := nodup_insert_mid _ _ c.nextLabel (e1 ▸ hnd) hlt'
          simpa [poolsOf] using this
        · intro cp hcp
          rcases (mem_poolsOf _ cp).1 hcp with h1 | h1 | h1
          · have := hlt cp ((mem_poolsOf c cp).2 (Or.inl h1)); omega
          · have := hlt cp ((mem_poolsOf c cp).2 (Or.inr (Or.inl h1))); omega
          · have : cp = ⟨c.nextLabel, (add Pool.init d).1⟩ := by simpa using h1.symm
            rw [this]; simp

theorem crun_cinv (ops : List COp) : ∀ c, CInv c → CInv (crun c ops) := by
  induction ops with
  | nil => intro c h; exact h
  | cons op rest ih => intro c h; exact ih _ (cstep_cinv c op h)

/-! ### finalize -/

theorem finalize_pools (c : Comp) (epi : Bytes) :
    poolsOfItems (finalizeNodes c epi) = poolsOfItems c.nodes ++ c.glob.toList := by
  unfold finalizeNodes
  cases hg : c.glob <;> by_cases hf : c.inFunc = true <;> simp [hf, poolsOfItems_append, poolsOfItems]

theorem slice_slice (buf : Bytes) (L n off len : Nat) (h : off + len ≤ n) :
    slice (slice buf L n) off len = slice buf (L + off) len := by
  unfold slice
  apply List.ext_getElem?
  intro k
  by_cases hk : k < len
  · rw [List.getElem?_take_of_lt hk, List.getElem?_take_of_lt hk, List.getElem?_drop, List.getElem?_drop,
      List.getElem?_take_of_lt (by omega), List.getElem?_drop]
    congr 1; omega
  · rw [List.getElem?_take_eq_none (by omega), List.getElem?_take_eq_none (by omega)]

theorem int32_of_lt (n : Nat) (h : n < 2 ^ 31) : int32 n = Int.ofNat n := by
  unfold int32
  have : n % 2 ^ 32 = n := Nat.mod_eq_of_lt (by omega)
  simp only [this, h, if_true]

/-! ### 32-bit node offsets -/

theorem mem_getAt_of_mem {α : Type} (t : List (List α)) (l : List α) (h : l ∈ t) : ∃ i, getAt t i = l := by
  induction t with
  | nil => simp at h
  | cons x xs ih =>
    rcases List.mem_cons.1 h with rfl | h'
    · exact ⟨0, rfl⟩
    · obtain ⟨i, hi⟩ := ih h'; exact ⟨i + 1, hi⟩

theorem wrapTree_id (t : List (List Node)) (h : ∀ i n, n ∈ getAt t i → n.offset < 2 ^ 32) : wrapTree t = t := by
  unfold wrapTree
  conv => rhs; rw [← List.map_id t]
  apply List.map_congr_left
  intro l hl
  obtain ⟨i, hi⟩ := mem_getAt_of_mem t l hl
  conv => rhs; rw [id, ← List.map_id l]
  apply List.map_congr_left
  intro n hn
  have := h i n (hi ▸ hn)
  simp [wrapNode, u32, Nat.mod_eq_of_lt this]

end AsmjitVerif.ConstPool
