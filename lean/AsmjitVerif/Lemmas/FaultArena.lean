/-
C15 - the arena itself under a PER-REQUEST heap oracle, on C18's model (`Model/Arena.lean`, invariant `Inv` of
Lemmas/C18Arena2.lean).  C18's `arena_safe` quantifies over a fixed `mallocMax`; here every operation carries its own flag
"the heap refuses whatever this operation asks for" (`mallocMax := 0` for that operation only), so histories like
succeed - fail - succeed are covered, in particular: `alloc_reusable` whose current block cannot serve the slot, the leftover of
the block is handed to the size-class lists (`Arena_make_block_leftover_reusable`, `_ptr` advanced past it), the request for a new
block fails in the heap, the call answers null - and the arena is used further.
-/
import AsmjitVerif.Lemmas.C18Arena2
namespace AsmjitVerif.FaultArena
open AsmjitVerif AsmjitVerif.Arena

/-- the invariant does not look at the heap limit -/
theorem inv_mallocMax {s : State} {live : Live} (hI : Inv s live) (m : Nat) : Inv { s with mallocMax := m } live :=
  ⟨hI.slen, hI.ptr_le, hI.ptr_al, hI.ok, hI.mg, hI.pw, hI.dn, hI.dlt, hI.dlive, hI.ent⟩

/-- one client operation whose heap requests (new block, dynamic block) all fail iff `fail` -/
def stepF (sl : State × Live) (opf : AOp × Bool) : State × Live :=
  let m := sl.1.mallocMax
  let r := step ({ sl.1 with mallocMax := if opf.2 then 0 else m }, sl.2) opf.1
  ({ r.1 with mallocMax := m }, r.2)

def runF (ops : List (AOp × Bool)) (init : State × Live) : State × Live := ops.foldl stepF init

theorem stepF_inv {s : State} {live : Live} (hI : Inv s live) (opf : AOp × Bool) :
    Inv (stepF (s, live) opf).1 (stepF (s, live) opf).2 := by
  unfold stepF
  exact inv_mallocMax (step_inv (inv_mallocMax hI _) opf.1) _

theorem runF_inv : ∀ (ops : List (AOp × Bool)) (s : State) (live : Live), Inv s live →
    Inv (runF ops (s, live)).1 (runF ops (s, live)).2
  | [], _, _, h => h
  | opf :: rest, s, live, h => by
    unfold runF
    simp only [List.foldl_cons]
    have h1 := stepF_inv h opf
    generalize stepF (s, live) opf = r at h1
    obtain ⟨s1, l1⟩ := r
    exact runF_inv rest s1 l1 h1

/-- `reusable_fail_frontier`: when `alloc_reusable` answers null (in particular: leftover handed to the size-class lists, then the
heap refuses the new block), every piece of memory owned by a client or sitting in a size-class list lies strictly BELOW the bump
frontier `(current block, _ptr)`: the leftover that was just pooled cannot be handed out a second time by `alloc_oneshot` - which
is what `_ptr` being advanced by `Arena_make_block_leftover_reusable` guarantees -/
theorem reusable_fail_frontier {s : State} {live : Live} (hI : Inv s live) (size : Nat) (s' : State) (asz : Nat)
    (h : allocReusable s size = (s', none, asz)) :
    Inv s' live ∧ ∀ pos off sz, (Loc.managed pos off, sz) ∈ owned s' live →
      off + sz ≤ s'.blocks.getD pos 0 ∧ (pos < s'.cur ∨ (pos = s'.cur ∧ off + sz ≤ s'.ptr)) := by
  have hI' := hI.allocReusable_inv size 0 s' none asz h
  simp only at hI'
  refine ⟨hI', fun pos off sz hm => ?_⟩
  have := hI'.ok _ hm
  simp only [ItemOK] at this
  exact ⟨this.2.2.1, this.2.2.2⟩

/-- every history with a per-operation heap oracle keeps the arena invariant (hence C18's `safe`: live regions aligned, inside
their blocks, pairwise disjoint, dynamic blocks registered) -/
theorem arena_safe_any_heap_oracle (minBlock staticSize mallocMax : Nat) (ops : List (AOp × Bool)) :
    Inv (runF ops (init minBlock staticSize mallocMax, [])).1 (runF ops (init minBlock staticSize mallocMax, [])).2 ∧
    safe (runF ops (init minBlock staticSize mallocMax, [])).1 (runF ops (init minBlock staticSize mallocMax, [])).2 = true := by
  have h := runF_inv ops _ _ (Inv.init minBlock staticSize mallocMax)
  exact ⟨h, h.safe⟩

end AsmjitVerif.FaultArena
