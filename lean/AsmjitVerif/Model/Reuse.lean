import AsmjitVerif.Model.Arena
/-
C16 — executable model of the reset / reinit / attach / detach machinery of `CodeHolder` and of the x86 emitters
(`asmjit/core/codeholder.cpp`, `emitter.cpp`, `assembler.cpp`, `builder.cpp`, `compiler.cpp`, `x86/x86assembler.cpp`,
`x86builder.cpp`, `x86compiler.cpp`), together with just enough code generation (labels, named labels, raw data,
`jmp label` with the one-shot short/long option, `embed_label`, sections, Builder nodes and their serialisation)
to make every container that `CodeHolder_reset_containers` / `on_detach` / `on_reinit` has to clean non-empty.

One world = one `CodeHolder` + four emitters (0,1 `x86::Assembler`, 2 `x86::Builder`, 3 `x86::Compiler`): the same
objects `harness/c16.cpp` drives.  Pointers become indices, containers become lists.  Fields that the code keeps
across a reset on purpose (retained capacity, arena blocks) or that only concern logging are modelled too (so that the
theorems can say that nothing observable depends on them) and are printed in the `aux` part of a dump.

Not modelled (differential testing only, see tools/props/c16.py): instruction encoding beyond `jmp`, the register
allocator, constant pools, the address table, cross-section fixups (`CodeHolder::_fixups`), error handlers.
The model follows the code *with* fixes C16-1 (`BaseCompiler_clear` resets `_jump_annotations`) and C16-2
(`CodeHolder::new_section` zeroes the section name).
-/
deriving instance DecidableEq for AsmjitVerif.Arena.State
namespace AsmjitVerif.Reuse

inductive Kind where
  | asm | bld | cmp
  deriving DecidableEq, Repr

inductive Arch where
  | x86 | x64 | a64
  deriving DecidableEq, Repr

/-- `InstOptions::kShortForm`, `kLongForm` -/
def optShort : Nat := 16
def optLong : Nat := 32

/-- one `Fixup` of an unbound label (`CodeHolder::new_fixup`) -/
structure Fixup where
  sec : Nat
  off : Nat
  rel : Int
  size : Nat
  reloc : Option Nat
  a64b : Bool := false          -- `OffsetFormat` of an AArch64 `b`: imm26 at bit 0, two low bits discarded
  deriving DecidableEq, Repr

/-- `LabelEntry` (+ its `ExtraData` when named) -/
structure LabelE where
  ltype : Nat
  name : List Nat
  bound : Option (Nat × Nat)
  fixups : List Fixup          -- head = most recently added (the code's singly linked list)
  deriving DecidableEq, Repr

/-- `Section` -/
structure Sec where
  name : List Nat
  flags : Nat
  align : Nat
  order : Int
  hasOffset : Bool
  bytes : List Nat
  deriving DecidableEq, Repr

/-- `RelocEntry` -/
structure Reloc where
  rtype : Nat
  srcSec : Nat
  srcOff : Nat
  tgtSec : Option Nat
  payload : Nat
  size : Nat
  deriving DecidableEq, Repr

/-- a `BaseNode` of a Builder/Compiler node list -/
inductive Node where
  | section (id : Nat)
  | label (id : Nat)
  | data (bytes : List Nat)
  | jmp (label : Nat) (opts : Nat)
  | elabel (label : Nat) (size : Nat)
  deriving DecidableEq, Repr

/-- `CodeHolder`.  `arch = none` is `!is_initialized()`. -/
structure Holder where
  arch : Option Arch := none
  secs : List Sec := []
  labels : List LabelE := []
  relocs : List Reloc := []
  unres : Nat := 0
  attached : List Nat := []        -- `_attached_first … _attached_last`
  -- state that is allowed to depend on history / configuration (never part of the output)
  logger : Bool := false           -- `_logger != nullptr`
  textCap : Bool := false          -- `.text` keeps its buffer over a soft reset
  -- `_arena` (`Arena(16 KiB, static_arena_memory)`): Model/Arena.lean, the line-by-line model of arena.cpp (C18);
  -- request sizes below are nominal 64-bit object sizes - what matters here is *that* the arena is used and reset
  arena : Arena.State := Arena.init 16384 0
  -- base address: `_base_address` (what emitters see; `relocate_to_base` overwrites it) and the value given to `init()`
  -- (`_init_base_address`, fixes/C16-3.patch), which `reinit()` restores
  base : Option Nat := none
  initBase : Option Nat := none
  deriving DecidableEq, Repr

/-- `BaseEmitter` + `BaseAssembler` / `BaseBuilder` / `BaseCompiler` members of one emitter -/
structure Emitter where
  kind : Kind
  code : Bool := false             -- `_code != nullptr`
  arch : Option Arch := none       -- `_environment`
  instAlign : Nat := 0             -- `_instruction_alignment`
  invalidRex : Bool := false       -- `_forced_inst_options & kX86_InvalidRex`
  instOpts : Nat := 0              -- `_inst_options` (one-shot)
  comment : Bool := false          -- `_inline_comment != nullptr` (one-shot)
  -- BaseAssembler
  sec : Option Nat := none         -- `_section`
  off : Nat := 0                   -- `_buffer_ptr - _buffer_data`
  -- BaseBuilder
  nodes : List Node := []          -- `_node_list`
  cursor : Option Nat := none      -- `_cursor` as index into `nodes`
  labelNodes : Nat := 0            -- `_label_nodes.size()`
  sectionNodes : Nat := 0          -- `_section_nodes.size()`
  passes : Nat := 0                -- `_passes.size()`
  -- BaseCompiler
  vregs : Nat := 0                 -- `_virt_regs.size()`
  janns : Nat := 0                 -- `_jump_annotations.size()`
  -- logging / diagnostics and the recomputation flag (never part of the output)
  ownLogger : Bool := false        -- `EmitterFlags::kOwnLogger`
  logger : Bool := false           -- `_logger != nullptr`
  logComments : Bool := false      -- `EmitterFlags::kLogComments`
  diag : Bool := false             -- `_diagnostic_options` (validation on)
  reserved : Bool := true          -- `_forced_inst_options & kReserved`
  dirty : Bool := false            -- `_dirty_section_links`
  -- fixed by the constructor
  fam64 : Bool := false            -- `_arch_mask`: false = x86 family (X86|X64), true = AArch64 family
  deriving DecidableEq, Repr

structure World where
  h : Holder := {}
  es : List Emitter := [{ kind := .asm }, { kind := .asm }, { kind := .bld }, { kind := .cmp }]
  deriving DecidableEq, Repr

/-- freshly constructed objects (x86 emitters) -/
def World.fresh : World := {}

/-- freshly constructed objects with the AArch64 emitters (`a64::Assembler` x2, `a64::Builder`, `a64::Compiler`) -/
def World.freshA64 : World :=
  { es := [{ kind := .asm, fam64 := true }, { kind := .asm, fam64 := true }, { kind := .bld, fam64 := true }, { kind := .cmp, fam64 := true }] }

/-- the same objects with the holder constructed over `staticSize` bytes of caller-provided arena memory (0 = none) -/
def World.withArena (w : World) (staticSize : Nat) : World := { w with h := { w.h with arena := Arena.init 16384 staticSize } }

/-- does an emitter of this family accept a holder of this architecture (`arch_mask & (1 << arch)`) -/
def archOk (fam64 : Bool) : Option Arch → Bool
  | none => false
  | some .a64 => fam64
  | some _ => !fam64

/-! ### small helpers -/

def updAt {α : Type} (l : List α) (i : Nat) (f : α → α) : List α :=
  match l, i with
  | [], _ => []
  | a :: r, 0 => f a :: r
  | a :: r, i + 1 => a :: updAt r i f

/-- overwrite `data` at offset `off` (growing the buffer when needed) — `CodeWriter` + `writer.done()` -/
def writeAt (bytes : List Nat) (off : Nat) (data : List Nat) : List Nat :=
  bytes.take off ++ data ++ bytes.drop (off + data.length)

/-- `CodeWriterUtils::write_offset` ORs the encoded displacement into the bytes that are already there (zeros, unless
    two Assemblers were made to overwrite each other) -/
def orAt (bytes : List Nat) (off : Nat) (data : List Nat) : List Nat :=
  writeAt bytes off ((data.zip ((bytes.drop off).take data.length ++ List.replicate data.length 0)).map fun (d, o) => d ||| o)

def leBytes (v : Nat) (n : Nat) : List Nat :=
  match n with
  | 0 => []
  | n + 1 => (v % 256) :: leBytes (v / 256) n

/-- little-endian two's-complement encoding of a displacement in `size` bytes; `none` when it does not fit
    (`CodeWriterUtils::write_offset` for the simple signed formats; C17 proves that codec) -/
def encodeSigned (d : Int) (size : Nat) : Option (List Nat) :=
  let half : Int := (2 : Int) ^ (8 * size - 1)
  if -half ≤ d ∧ d < half then some (leBytes (d % (2 * half)).toNat size) else none

/-- displacement field of an AArch64 `b` (signed imm26, multiple of 4), to be ORed into the opcode word -/
def encodeA64B (d : Int) : Option (List Nat) :=
  if d % 4 = 0 ∧ -134217728 ≤ d ∧ d < 134217728 then some (leBytes ((d / 4) % 67108864).toNat 4) else none

def encodeFixup (a64b : Bool) (d : Int) (size : Nat) : Option (List Nat) :=
  if a64b then encodeA64B d else encodeSigned d size

def textSection : Sec :=
  { name := [46, 116, 101, 120, 116], flags := 16387, align := 0, order := -2147483648, hasOffset := true, bytes := [] }

/-! ### BaseEmitter -/

/-- `BaseEmitter_updateForcedOptions` -/
def Emitter.updateForced (e : Emitter) : Emitter :=
  { e with
    logComments := if e.kind = .asm then e.code && e.logger else e.code
    reserved := !e.code || e.logger || e.diag }

/-- `BaseEmitter::on_settings_updated` (error handlers are not modelled) -/
def Emitter.settingsUpdated (holderLogger : Bool) (e : Emitter) : Emitter :=
  ({ e with logger := if e.ownLogger then e.logger else holderLogger }).updateForced

/-- `BaseEmitter::on_attach` followed by the derived classes' `on_attach` -/
def Emitter.onAttach (h : Holder) (e : Emitter) : Emitter :=
  let e := ({ e with code := true, arch := h.arch }).settingsUpdated h.logger
  match e.kind with
  | .asm =>
    -- BaseAssembler::on_attach: BaseAssembler_initSection(.text); x86::Assembler::on_attach
    { e with sec := some 0, off := (h.secs.headD textSection).bytes.length, instAlign := if h.arch == some .a64 then 4 else 1,
             invalidRex := h.arch == some .x86 }
  | .bld =>
    -- BaseBuilder_init_section: section node 0 becomes the whole list; x86::Builder::on_attach
    { e with nodes := [.section 0], cursor := some 0, sectionNodes := max e.sectionNodes 1,
             instAlign := if h.arch == some .a64 then 4 else 1 }
  | .cmp =>
    -- … + BaseCompiler_initDefaultPasses (GlobalConstPoolPass) + x86::Compiler::on_attach (X86RAPass)
    { e with nodes := [.section 0], cursor := some 0, sectionNodes := max e.sectionNodes 1,
             instAlign := if h.arch == some .a64 then 4 else 1, passes := e.passes + 2 }

/-- the derived `on_detach` chains down to `BaseEmitter::on_detach`; `_code = nullptr` is done by the caller in C++ -/
def Emitter.onDetach (e : Emitter) : Emitter :=
  { e with
    code := false
    logger := if e.ownLogger then e.logger else false
    logComments := false              -- `_clear_emitter_flags(~kEmitterPreservedFlags)`
    instAlign := 0
    reserved := true, invalidRex := false   -- `_forced_inst_options = kReserved`
    arch := none
    instOpts := 0, comment := false
    -- BaseAssembler::on_detach
    sec := none, off := 0
    -- BaseBuilder::on_detach: BaseBuilder_delete_passes, BaseBuilder_clear_all (`_dirty_section_links` is not touched)
    passes := 0, sectionNodes := 0, labelNodes := 0, cursor := none, nodes := []
    -- BaseCompiler_clear (with fix C16-1)
    vregs := 0, janns := 0 }

/-- `on_reinit` chain (holder already holds the empty `.text` again) -/
def Emitter.onReinit (e : Emitter) : Emitter :=
  let e := { e with instOpts := 0, comment := false }      -- BaseEmitter::on_reinit
  match e.kind with
  | .asm => { e with sec := some 0, off := 0 }              -- BaseAssembler_initSection(.text), size 0
  | .bld => { e with passes := 0, labelNodes := 0, sectionNodes := 1, nodes := [.section 0], cursor := some 0 }
  | .cmp => { e with passes := 2, labelNodes := 0, sectionNodes := 1, nodes := [.section 0], cursor := some 0,
                     vregs := 0, janns := 0 }

/-! ### CodeHolder: init / reset / reinit / attach / detach -/

/-- one arena request (`alloc_oneshot`); the outcome never reaches the output (no out-of-memory in the model: `mallocMax` is 2^40) -/
def Holder.alloc (h : Holder) (bytes : Nat) : Holder := { h with arena := (Arena.allocOneshot h.arena bytes).1 }

/-- `CodeHolder_reset_sections_and_containers` (+ arena) -/
def Holder.resetContainers (h : Holder) (hard : Bool) : Holder :=
  { h with
    secs := [], labels := [], relocs := [], unres := 0
    textCap := !hard && h.textCap
    arena := Arena.reset h.arena hard }

/-- walk the attachment list and apply an event handler to every emitter on it
    (`CodeHolder_detach_emitters`, the loop of `CodeHolder::reinit`, `CodeHolder_on_settings_updated`) -/
def applyAll (f : Emitter → Emitter) (es : List Emitter) : List Nat → List Emitter
  | [] => es
  | i :: r => applyAll f (updAt es i f) r

def detachAll (es : List Emitter) (att : List Nat) : List Emitter := applyAll Emitter.onDetach es att
def reinitAll (es : List Emitter) (att : List Nat) : List Emitter := applyAll Emitter.onReinit es att
def settingsAll (lg : Bool) (es : List Emitter) (att : List Nat) : List Emitter := applyAll (Emitter.settingsUpdated lg) es att

/-- `CodeHolder::init` -/
def World.init (w : World) (a : Arch) (b : Option Nat := none) : World × String :=
  if w.h.arch.isSome then (w, "AlreadyInitialized")
  else ({ w with h := ({ w.h with arch := some a, secs := [textSection], base := b, initBase := b } : Holder).alloc 64 }, "ok")

/-- `CodeHolder::reset` -/
def World.reset (w : World) (hard : Bool) : World :=
  if w.h.arch.isNone then w
  else
    { h := { (w.h.resetContainers hard) with arch := none, logger := false, attached := [], base := none, initBase := none }
      es := detachAll w.es w.h.attached }

/-- `CodeHolder::reinit` -/
def World.reinit (w : World) : World × String :=
  if w.h.arch.isNone then (w, "NotInitialized")
  else
    let h := w.h.resetContainers false
    ({ h := ({ h with secs := [textSection], base := h.initBase } : Holder).alloc 64, es := reinitAll w.es w.h.attached }, "ok")

/-- `CodeHolder::attach` -/
def World.attach (w : World) (i : Nat) : World × String :=
  match w.es[i]? with
  | none => (w, "bad-emitter")
  | some e =>
    if !archOk e.fam64 w.h.arch then (w, "InvalidArch")   -- `arch_mask` has no bit for this (or the unknown) architecture
    else if e.code then (w, "ok")                          -- already attached to this holder
    else ({ h := { w.h with attached := w.h.attached ++ [i] }, es := updAt w.es i (Emitter.onAttach w.h) }, "ok")

/-- `CodeHolder::detach` -/
def World.detach (w : World) (i : Nat) : World × String :=
  match w.es[i]? with
  | none => (w, "bad-emitter")
  | some e =>
    if !e.code then (w, "InvalidState")
    else ({ h := { w.h with attached := w.h.attached.filter (· != i) }, es := updAt w.es i Emitter.onDetach }, "ok")

/-! ### code generation through an Assembler (also used when a Builder serialises) -/

/-- the part of an Assembler that generation reads and writes -/
structure Cur where
  sec : Nat
  off : Nat
  opts : Nat
  cmt : Bool
  deriving DecidableEq, Repr

def Holder.secBytes (h : Holder) (s : Nat) : List Nat := ((h.secs[s]?).map (·.bytes)).getD []

/-- write into a section buffer; `.text` (the only buffer that survives a soft reset) remembers that it owns memory -/
def Holder.write (h : Holder) (s off : Nat) (data : List Nat) : Holder :=
  { h with secs := updAt h.secs s (fun x => { x with bytes := writeAt x.bytes off data }),
           textCap := h.textCap || (s == 0 && !data.isEmpty) }

/-- patch a displacement into a section buffer (`write_offset`) -/
def Holder.patch (h : Holder) (s off : Nat) (data : List Nat) : Holder :=
  { h with secs := updAt h.secs s fun x => { x with bytes := orAt x.bytes off data } }

/-- `BaseAssembler::embed` -/
def asmRaw (h : Holder) (c : Cur) (data : List Nat) : Holder × Cur × String :=
  if data.isEmpty then (h, c, "ok")
  else (h.write c.sec c.off data, { c with off := c.off + data.length }, "ok")

/-- the fixup loop of `CodeHolder::bind_label`: returns holder, number resolved, fixups left, error -/
def resolveFixups (h : Holder) (toSec toOff : Nat) : List Fixup → Holder × Nat × List Fixup × String
  | [] => (h, 0, [], "ok")
  | f :: r =>
    match f.reloc with
    | some rid =>
      let h := { h with relocs := updAt h.relocs rid fun re => { re with payload := re.payload + toOff, tgtSec := some toSec } }
      let (h, n, left, err) := resolveFixups h toSec toOff r
      (h, n + 1, left, err)
    | none =>
      if f.sec != toSec then
        let (h, n, left, err) := resolveFixups h toSec toOff r
        (h, n, f :: left, err)
      else
        match encodeFixup f.a64b ((toOff : Int) - (f.off : Int) + f.rel) f.size with
        | some bs =>
          let (h, n, left, err) := resolveFixups (h.patch toSec f.off bs) toSec toOff r
          (h, n + 1, left, err)
        | none =>
          let (h, n, left, _) := resolveFixups h toSec toOff r
          (h, n, f :: left, "InvalidDisplacement")

/-- `CodeHolder::bind_label` -/
def Holder.bindLabel (h : Holder) (id toSec toOff : Nat) : Holder × String :=
  match h.labels[id]? with
  | none => (h, "InvalidLabel")
  | some le =>
    if toSec ≥ h.secs.length then (h, "InvalidSection")
    else if le.bound.isSome then (h, "LabelAlreadyBound")
    -- validate before anything is modified: bind_label() either succeeds or changes nothing
    else if le.fixups.any (fun f => f.reloc.isNone && f.sec == toSec &&
        (encodeFixup f.a64b ((toOff : Int) - (f.off : Int) + f.rel) f.size).isNone) then (h, "InvalidDisplacement")
    else
      let h := { h with labels := updAt h.labels id fun l => { l with bound := some (toSec, toOff), fixups := [] } }
      let (h, n, _, err) := resolveFixups h toSec toOff le.fixups
      ({ h with unres := h.unres - n }, err)

/-- `BaseAssembler::bind` -/
def asmBind (h : Holder) (c : Cur) (id : Nat) : Holder × Cur × String :=
  let (h, err) := h.bindLabel id c.sec c.off
  (h, { c with cmt := false }, err)

def Holder.addFixup (h : Holder) (id : Nat) (f : Fixup) : Holder :=
  ({ h with labels := updAt h.labels id (fun l => { l with fixups := f :: l.fixups }), unres := h.unres + 1 } : Holder).alloc 40

/-- `x86::Assembler::_emit(kIdJmp, label)` (`EmitJmpCall`, `EmitJmpCallRel`, `EmitRel`); every exit resets the
    one-shot state -/
def asmJmpCore (h : Holder) (c : Cur) (id : Nat) : Holder × Cur × String :=
  let done : Cur → Cur := fun c => { c with opts := 0, cmt := false }
  -- `writer.ensure_space(this, 16)` happens before the label is looked at
  let h := { h with textCap := h.textCap || c.sec == 0 }
  match h.labels[id]? with
  | none => (h, done c, "InvalidLabel")
  | some le =>
    if h.arch == some .a64 then
      -- `a64::Assembler::_emit(kIdB, label)`: `kEncodingBaseBranchRel` + `EmitOp_Rel` (the x86 form options mean nothing here)
      match le.bound with
      | some (s, target) =>
        if s == c.sec then
          match encodeA64B ((target : Int) - (c.off : Int)) with
          | some bs => (h.write c.sec c.off (orAt [0, 0, 0, 20] 0 bs), done { c with off := c.off + 4 }, "ok")
          | none => (h, done c, "InvalidDisplacement")
        else (h, done c, "unsupported-cross-section")
      | none =>
        let h := (h.write c.sec c.off [0, 0, 0, 20]).addFixup id { sec := c.sec, off := c.off, rel := 0, size := 4, reloc := none, a64b := true }
        (h, done { c with off := c.off + 4 }, "ok")
    else
    let short := c.opts / optShort % 2 == 1
    let long := c.opts / optLong % 2 == 1
    match le.bound with
    | some (s, target) =>
      if s == c.sec then
        let rel8 : Int := (target : Int) - (c.off : Int) - 2
        if -128 ≤ rel8 ∧ rel8 ≤ 127 ∧ !long then
          (h.write c.sec c.off (235 :: leBytes (rel8 % 256).toNat 1), done { c with off := c.off + 2 }, "ok")
        else if short then (h, done c, "InvalidDisplacement")
        else
          let rel32 : Int := (target : Int) - (c.off : Int) - 5
          (h.write c.sec c.off (233 :: leBytes (rel32 % 4294967296).toNat 4), done { c with off := c.off + 5 }, "ok")
      else
        -- bound in another section: the code creates a fixup on a bound label (defect #18, C03); generators avoid it
        (h, done c, "unsupported-cross-section")
    | none =>
      if short then
        let h := (h.write c.sec c.off [235, 0]).addFixup id { sec := c.sec, off := c.off + 1, rel := -1, size := 1, reloc := none }
        (h, done { c with off := c.off + 2 }, "ok")
      else
        let h := (h.write c.sec c.off [233, 0, 0, 0, 0]).addFixup id { sec := c.sec, off := c.off + 1, rel := -4, size := 4, reloc := none }
        (h, done { c with off := c.off + 5 }, "ok")

/-- `data_size == 0` means "register size" -/
def elabelSize (arch : Option Arch) (size : Nat) : Nat :=
  if size == 0 then (if arch == some .x86 then 4 else 8) else size

/-- overwrite one byte that already lies inside the section buffer -/
def Holder.poke (h : Holder) (s off v : Nat) : Holder :=
  { h with secs := updAt h.secs s fun x => if off < x.bytes.length then { x with bytes := writeAt x.bytes off [v] } else x }

/-- `EmitJmpCall` starts with `writer.emit8_if(rex | kX86ByteRex, rex != 0)`, and `emit8_if` is branch-free: it stores the
    byte at the cursor and advances the cursor only if the condition holds.  Without a REX prefix the value is 0x40 and
    the cursor stays: a successful emission overwrites the byte with the opcode, a REFUSED one (InvalidLabel,
    InvalidDisplacement) leaves it there.  It lies past this assembler's committed cursor, so it is not output - unless
    another emitter's data sits at this assembler's (stale) cursor, which the world of this model allows. -/
def jmpScratch (h : Holder) (c : Cur) : Holder :=
  if h.arch == some .a64 then h else h.poke c.sec c.off 64

/-- `x86::Assembler::_emit(kIdJmp, label)` / `a64::Assembler::_emit(kIdB, label)` -/
def asmJmp (h : Holder) (c : Cur) (id : Nat) : Holder × Cur × String := asmJmpCore (jmpScratch h c) c id

/-- `BaseAssembler::embed_label` once the data size is known -/
def asmElabelSz (h : Holder) (c : Cur) (id size : Nat) : Holder × Cur × String :=
  match h.labels[id]? with
  | none => (h, c, "InvalidLabel")
  | some le =>
    if !(size == 1 || size == 2 || size == 4 || size == 8) then (h, c, "InvalidOperandSize")
    else
      let rid := h.relocs.length
      let re : Reloc := { rtype := 4, srcSec := c.sec, srcOff := c.off, tgtSec := none, payload := 0, size := size }
      let h := h.alloc 48
      let h :=
        match le.bound with
        | some (s, o) => { h with relocs := h.relocs ++ [{ re with tgtSec := some s, payload := o }] }
        | none => ({ h with relocs := h.relocs ++ [re] }).addFixup id { sec := c.sec, off := c.off, rel := 0, size := size, reloc := some rid }
      (h.write c.sec c.off (List.replicate size 0), { c with off := c.off + size }, "ok")

/-- `BaseAssembler::embed_label` -/
def asmElabel (h : Holder) (c : Cur) (id size : Nat) : Holder × Cur × String :=
  asmElabelSz h c id (elabelSize h.arch size)

/-- `BaseAssembler::section` for a valid section -/
def asmSwitch (h : Holder) (c : Cur) (s : Nat) : Holder × Cur × String :=
  if s ≥ h.secs.length then (h, c, "InvalidSection")
  else (h, { c with sec := s, off := (h.secBytes s).length }, "ok")

/-- `CodeHolder::new_label_id` / `new_named_label_id` (global labels; duplicates refused) -/
def Holder.newLabel (h : Holder) (name : List Nat) : Holder × Option Nat :=
  if name.isEmpty then
    (({ h with labels := h.labels ++ [{ ltype := 0, name := [], bound := none, fixups := [] }] } : Holder).alloc 16,
     some h.labels.length)
  else if name.length > 2048 then (h, none)
  else if h.labels.any (fun l => l.name == name) then (h, none)
  else
    (({ h with labels := h.labels ++ [{ ltype := 2, name := name, bound := none, fixups := [] }] } : Holder).alloc (64 + name.length),
     some h.labels.length)

/-- `CodeHolder::new_section(name, flags none, alignment 8, order 0)` -/
def Holder.newSection (h : Holder) (name : List Nat) : Holder × Option Nat :=
  if name.length > 35 then (h, none)
  else
    (({ h with secs := h.secs ++ [{ name := name, flags := 0, align := 8, order := 0, hasOffset := false, bytes := [] }] } : Holder).alloc 104,
     some h.secs.length)

/-! ### Builder / Compiler node list -/

/-- `BaseBuilder::add_node`: insert after the cursor, the cursor moves to the new node -/
def Emitter.addNode (e : Emitter) (n : Node) : Emitter :=
  match e.cursor with
  | none => { e with nodes := n :: e.nodes, cursor := some 0 }
  | some k => { e with nodes := e.nodes.take (k + 1) ++ n :: e.nodes.drop (k + 1), cursor := some (k + 1) }

def isSectionNode : Node → Bool
  | .section _ => true
  | _ => false

/-- index of the first section node strictly after position `k` -/
def nextSectionAfter (nodes : List Node) (k : Nat) : Option Nat :=
  ((nodes.drop (k + 1)).findIdx? isSectionNode).map (· + k + 1)

/-- `BaseBuilder::section` (with `section_node_of`, `update_section_links`) -/
def Emitter.bldSwitch (e : Emitter) (s : Nat) : Emitter :=
  let e := { e with sectionNodes := max e.sectionNodes (s + 1) }
  match e.nodes.findIdx? (· == .section s) with
  | none =>
    -- not part of the code yet: `add_after(node, last_node())`
    { e with nodes := e.nodes ++ [.section s], cursor := some e.nodes.length, dirty := true }
  | some k =>
    let cur := match nextSectionAfter e.nodes k with
      | some j => j - 1
      | none => e.nodes.length - 1
    { e with cursor := some cur, dirty := false }

/-- the Assembler call a Builder node is serialised to (`BaseBuilder::serialize_to`, one loop iteration) -/
def nodeGen (n : Node) (h : Holder) (c : Cur) : Holder × Cur × String :=
  match n with
  | .section s => asmSwitch h c s
  | .label id => asmBind h c id
  | .data bs => asmRaw h c bs
  | .jmp id o => asmJmp h { c with opts := o } id
  | .elabel id sz => asmElabel h c id sz

/-- `BaseBuilder::serialize_to(&assembler)`: stops at the first error -/
def serialize (h : Holder) (c : Cur) : List Node → Holder × Cur × String
  | [] => (h, c, "ok")
  | n :: r =>
    -- `dst->set_inline_comment(node->inline_comment())` (never set here)
    let res := nodeGen n h { c with cmt := false }
    if res.2.2 == "ok" then serialize res.1 res.2.1 r else res

/-! ### operations of the protocol -/

inductive Op where
  | world (a64 : Bool) (staticSize : Nat)
  | init (a : Arch)
  | initb (a : Arch) (base : Nat)      -- `init(environment, base_address)`
  | relocate (base : Nat)             -- `relocate_to_base(base)` (also inside `JitRuntime::add`): only its effect on the holder's
                                      -- configuration is modelled (patching the section buffers is property C04's)
  | reset (hard : Bool)
  | reinit
  | attach (i : Nat)
  | detach (i : Nat)
  | hlogger (on : Bool)
  | elogger (i : Nat) (on : Bool)
  | diag (i : Nat) (on : Bool)
  | label (i : Nat)
  | nlabel (i : Nat) (name : List Nat)
  | bind (i : Nat) (id : Nat)
  | raw (i : Nat) (bytes : List Nat)
  | opt (i : Nat) (bits : Nat)
  | cmt (i : Nat)
  | jmp (i : Nat) (id : Nat)
  | elabel (i : Nat) (id size : Nat)
  | section (i : Nat) (name : List Nat)
  | switch (i : Nat) (s : Nat)
  | vreg (i : Nat)
  | jann (i : Nat)
  | finalize (i : Nat)
  | dump
  deriving DecidableEq, Repr

def Emitter.cur (e : Emitter) : Cur := { sec := e.sec.getD 0, off := e.off, opts := e.instOpts, cmt := e.comment }

def Emitter.setCur (e : Emitter) (c : Cur) : Emitter :=
  { e with sec := some c.sec, off := c.off, instOpts := c.opts, comment := c.cmt }

def World.setE (w : World) (i : Nat) (e : Emitter) : World := { w with es := updAt w.es i fun _ => e }

/-- run an Assembler-level generator on emitter `i` -/
def World.viaAsm (w : World) (i : Nat) (e : Emitter) (f : Holder → Cur → Holder × Cur × String) : World × String :=
  let (h, c, err) := f w.h e.cur
  (({ w with h := h }).setE i (e.setCur c), err)

def labelAns : Option Nat → String
  | some id => "L" ++ toString id
  | none => "L-"

/-- one protocol operation on emitter `i` that is attached -/
def World.genAttached (w : World) (i : Nat) (e : Emitter) : Op → World × String
  | .label _ =>
    let (h, r) := w.h.newLabel []
    let e := if e.kind = .asm then e else match r with
      | some id => { e with labelNodes := id + 1 }     -- Builder_new_label_internal
      | none => e
    (({ w with h := h }).setE i e, labelAns r)
  | .nlabel _ name =>
    let (h, r) := w.h.newLabel name
    let e := if e.kind = .asm then e else match r with
      | some id => { e with labelNodes := id + 1 }
      | none => e
    (({ w with h := h }).setE i e, labelAns r)
  | .bind _ id =>
    if e.kind = .asm then w.viaAsm i e (asmBind · · id)
    else if id ≥ w.h.labels.length then (w, "InvalidLabel")      -- label_node_of
    else (w.setE i ({ e with labelNodes := max e.labelNodes (id + 1) }.addNode (.label id)), "ok")
  | .raw _ bs =>
    if e.kind = .asm then w.viaAsm i e (asmRaw · · bs)
    else (w.setE i (e.addNode (.data bs)), "ok")
  | .jmp _ id =>
    if e.kind = .asm then w.viaAsm i e (asmJmp · · id)
    else
      -- BaseBuilder::_emit: the node keeps the options, the one-shot state is cleared
      (w.setE i ({ e with instOpts := 0, comment := false }.addNode (.jmp id e.instOpts)), "ok")
  | .elabel _ id sz =>
    if e.kind = .asm then w.viaAsm i e (asmElabel · · id sz)
    -- BaseBuilder::embed_label: the same tests, in the same order, as the Assembler
    else if id ≥ w.h.labels.length then (w, "InvalidLabel")
    else if !(sz == 0 || sz == 1 || sz == 2 || sz == 4 || sz == 8) then (w, "InvalidOperandSize")
    else (w.setE i (e.addNode (.elabel id sz)), "ok")
  | .section _ name =>
    match w.h.newSection name with
    | (_, none) => (w, "InvalidSectionName")
    | (h, some s) =>
      let w := { w with h := h }
      if e.kind = .asm then
        let (w, _) := w.viaAsm i e (asmSwitch · · s)
        (w, "S" ++ toString s)
      else (w.setE i (e.bldSwitch s), "S" ++ toString s)
  | .switch _ s =>
    if s ≥ w.h.secs.length then (w, "InvalidSection")
    else if e.kind = .asm then w.viaAsm i e (asmSwitch · · s)
    else (w.setE i (e.bldSwitch s), "ok")
  | .finalize _ =>
    if e.kind = .asm then (w, "ok")
    else
      -- run_passes (nothing to do without functions / constant pools), then a temporary Assembler attached at the
      -- end of `.text` serialises the nodes and is destroyed (detached) again
      let c0 : Cur := { sec := 0, off := (w.h.secBytes 0).length, opts := 0, cmt := false }
      let (h, _, err) := serialize w.h c0 e.nodes
      ({ w with h := h }, err)
  | _ => (w, "bad-op")

/-- the whole step function: answer line for every operation -/
def World.step (w : World) (op : Op) : World × String :=
  match op with
  | .world a64 st => ((if a64 then World.freshA64 else World.fresh).withArena st, "ok")
  | .init a => w.init a
  | .initb a b => w.init a (some b)
  | .relocate b =>
    if w.h.arch.isNone then (w, "unmodelled") else ({ w with h := { w.h with base := some b } }, "ok")
  | .reset hard => (w.reset hard, "ok")
  | .reinit => w.reinit
  | .attach i => w.attach i
  | .detach i => w.detach i
  | .hlogger on =>
    -- CodeHolder::set_logger + CodeHolder_on_settings_updated
    ({ h := { w.h with logger := on }, es := settingsAll on w.es w.h.attached }, "ok")
  | .dump => (w, "")
  | .elogger i on =>
    match w.es[i]? with
    | none => (w, "bad-emitter")
    | some e =>
      -- BaseEmitter::set_logger
      let e := if on then { e with logger := true, ownLogger := true }
               else { e with logger := e.code && w.h.logger, ownLogger := false }
      (w.setE i e.updateForced, "ok")
  | .diag i on =>
    match w.es[i]? with
    | none => (w, "bad-emitter")
    | some e => (w.setE i ({ e with diag := on }).updateForced, "ok")
  | .opt i bits =>
    match w.es[i]? with
    | none => (w, "bad-emitter")
    | some e => (w.setE i { e with instOpts := e.instOpts ||| bits }, "ok")
  | .cmt i =>
    match w.es[i]? with
    | none => (w, "bad-emitter")
    | some e => (w.setE i { e with comment := true }, "ok")
  | .vreg i =>
    match w.es[i]? with
    | none => (w, "bad-emitter")
    | some e =>
      if e.kind != .cmp then (w, "bad-emitter")
      else if !e.code then (w, "InvalidTypeId")           -- `arch()` unknown: type_id_to_reg_signature fails
      else (w.setE i { e with vregs := e.vregs + 1 }, "v" ++ toString e.vregs)
  | .jann i =>
    match w.es[i]? with
    | none => (w, "bad-emitter")
    | some e =>
      if e.kind != .cmp then (w, "bad-emitter")
      else (w.setE i { e with janns := e.janns + 1 }, "j" ++ toString e.janns)   -- no `_code` check in the C++
  | .label i | .nlabel i _ | .bind i _ | .raw i _ | .jmp i _ | .elabel i _ _ | .section i _ | .switch i _ | .finalize i =>
    match w.es[i]? with
    | none => (w, "bad-emitter")
    | some e =>
      if e.code then w.genAttached i e op
      else match op with
        | .label _ | .nlabel _ _ => (w, "L-")
        | .finalize _ => (w, if e.kind = .asm then "ok" else "NotInitialized")
        | _ => (w, "NotInitialized")

def World.run (w : World) : List Op → World
  | [] => w
  | op :: r => (w.step op).1.run r

end AsmjitVerif.Reuse
