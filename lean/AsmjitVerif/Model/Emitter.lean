/-
C14 - model of the *commit discipline* of the assemblers (core-only imports; the driver links it).

Transcribed from
  asmjit/core/emitter.cpp        BaseEmitter::_report_error, reset_state (emitter.h), on_attach
  asmjit/core/emitterutils.cpp   EmitterUtils::log_instruction_failed           (format, reset_state, report_error - in this order)
  asmjit/core/codewriter_p.h     CodeWriter (cursor starts at _buffer_ptr; bytes become code only in `done`)
  asmjit/core/assembler.cpp      BaseAssembler::section, new_label, new_named_label, bind, embed, embed_data_array, embed_label,
                                 embed_label_delta
  asmjit/core/codeholder.cpp     new_label_id, new_named_label_id, bind_label, new_fixup, new_reloc_entry, new_section (argument checks)
  asmjit/x86/x86assembler.cpp    Assembler::_emit (frame: EmitDone / Failed), Assembler::align
  asmjit/arm/a64assembler.cpp    Assembler::_emit (frame), Assembler::align

What is *not* modelled: which instructions the encoder accepts and the bytes it produces (C01/C02/C13).  `_emit` is modelled as the
frame around an encoder whose result is a parameter (`EncOutcome`): the encoder either leaves through `Failed` before it touched the
CodeHolder, or reaches `EmitDone` having written `bytes` behind the cursor and created at most one fixup and `relocs` relocation
entries.  Allocation failures are C15 and are absent (every allocation succeeds).
-/
import AsmjitVerif.Model.Offset
import AsmjitVerif.Gen.ErrorCodes

namespace AsmjitVerif.Emitter
open AsmjitVerif.Offset
open AsmjitVerif.Gen

/-- `Fixup` (fixup.h) attached to a label entry or kept in `CodeHolder::_fixups`. -/
structure Fixup where
  label : Nat
  sec : Nat
  off : Nat
  rel : Int
  fmt : OffsetFormat
  reloc : Option Nat
  deriving DecidableEq, Repr

/-- `LabelEntry`: bound position and (for named labels) name, type, parent. -/
structure LabelEntry where
  bound : Option (Nat × Nat) := none
  name : List (BitVec 8) := []
  ltype : Nat := 0
  parent : Option Nat := none
  deriving DecidableEq, Repr

structure Section where
  data : Bytes := []
  alignment : Nat := 1
  deriving DecidableEq, Repr

/-- one-shot instruction state (`_inst_options`, `_extra_reg`, `_inline_comment`) -/
structure OneShot where
  options : Nat := 0
  extraSig : Nat := 0
  extraId : Nat := 0
  comment : Bool := false
  deriving DecidableEq, Repr

def OneShot.empty : OneShot := {}

inductive HandlerKind | none | returning | recording | throwing
  deriving DecidableEq, Repr

inductive ArchKind | x86 | x64 | a64
  deriving DecidableEq, Repr

/-- CodeHolder + attached Assembler (the error-handler log is kept outside, see `Hist`).  `cursor = size of the current section` (set_offset is not modelled). -/
structure St where
  arch : ArchKind := .x64
  secs : List Section := [{}]
  cur : Nat := 0
  labels : List LabelEntry := []
  pending : List Fixup := []          -- fixups hanging on unbound labels (newest first, as the chains are)
  global : List Fixup := []           -- `CodeHolder::_fixups` (cross-section / failed ones)
  relocs : Nat := 0
  one : OneShot := {}
  handler : HandlerKind := .recording
  deriving DecidableEq, Repr

/-- result of one call: return code, new state, and whether the path went through `report_error` (then the attached
`ErrorHandler::handle_error` is invoked exactly once with `code`; it may throw - the state is the one shown) -/
structure Res where
  code : Nat
  st : St
  reported : Bool
  deriving DecidableEq, Repr

/-- a successful return -/
def done (s : St) : Res := ⟨Err.ok, s, false⟩
/-- `return make_error(e)` without the handler (CodeHolder calls) -/
def plain (s : St) (e : Nat) : Res := ⟨e, s, false⟩

def St.size (s : St) (i : Nat) : Nat := ((s.secs[i]?).map (·.data.length)).getD 0
def St.offset (s : St) : Nat := s.size s.cur
def St.unresolved (s : St) : Nat := s.pending.length + s.global.length
def St.boundCount (s : St) : Nat := (s.labels.filter (·.bound.isSome)).length
def St.registerSize (s : St) : Nat := if s.arch = .x86 then 4 else 8

/-- `return report_error(make_error(e))` (`BaseEmitter::_report_error`: the handler, if any, is invoked once; the error is returned) -/
def report (s : St) (e : Nat) : Res := ⟨e, s, true⟩

/-- append to the current section (CodeWriter::emit_* followed by `done`) -/
def appendBytes (s : St) (bs : Bytes) : St :=
  { s with secs := s.secs.modify s.cur (fun sec => { sec with data := sec.data ++ bs }) }

def zeros (n : Nat) : Bytes := List.replicate n 0#8

/-- little-endian bytes of `v` (`CodeWriter::emit_value_le`) -/
def leBytes (v : Nat) : Nat → Bytes
  | 0 => []
  | n + 1 => BitVec.ofNat 8 v :: leBytes (v / 256) n

/-! ### labels -/

/-- `BaseAssembler::new_label` / `CodeHolder::new_label_id` -/
def newLabel (s : St) : Res := done ({ s with labels := s.labels ++ [{}] })

def kMaxLabelNameSize : Nat := 2048
def kInvalidId : Nat := 0xFFFFFFFF

/-- `CodeHolder::new_named_label_id` (argument validation in the C++ order) behind `BaseAssembler::new_named_label`;
`parent = kInvalidId` is "no parent". label types: 0 anonymous, 1 local, 2 global, 3 external. -/
def newNamedLabel (s : St) (name : List (BitVec 8)) (ltype parent : Nat) : Res :=
  if name.length = 0 then
    if ltype ≠ 0 then report s Err.invalidLabelName
    else done ({ s with labels := s.labels ++ [{}] })
  else if name.length > kMaxLabelNameSize then report s Err.labelNameTooLong
  else if ltype = 0 then
    if parent ≠ kInvalidId then report s Err.invalidParentLabel
    else done ({ s with labels := s.labels ++ [{ name := name, ltype := 0 }] })
  else if ltype = 1 ∧ parent ≥ s.labels.length then report s Err.invalidParentLabel
  else if (ltype = 2 ∨ ltype = 3) ∧ parent ≠ kInvalidId then report s Err.invalidParentLabel
  else if ltype > 3 then report s Err.invalidArgument
  else
    let par : Option Nat := if parent = kInvalidId then none else some parent
    -- `_named_labels.get(LabelByName(...))`: same name and same parent id, any non-anonymous type
    if s.labels.any (fun l => l.ltype ≠ 0 ∧ l.name = name ∧ l.parent = par) then report s Err.labelAlreadyDefined
    else done ({ s with labels := s.labels ++ [{ name := name, ltype := ltype, parent := par }] })

/-- the displacement `bind_label` patches into a pending fixup -/
def dispOf (toOff : Nat) (f : Fixup) : BitVec 64 := BitVec.ofNat 64 toOff - BitVec.ofNat 64 f.off + BitVec.ofInt 64 f.rel

/-- `write_offset` would succeed: `encode_offset32/64` accepts the displacement for a 1/2/4/8 byte value (the C++ `write_offset` has no
other way to fail - it does not look at buffer bounds) -/
def encodable (f : OffsetFormat) (disp : BitVec 64) : Bool :=
  if f.valueSize = 8 then (encodeOffset64 f disp).isSome
  else if f.valueSize = 1 ∨ f.valueSize = 2 ∨ f.valueSize = 4 then (encodeOffset32 f disp).isSome
  else false

/-- the validation pass of `bind_label` (fix C14-13): a pending same-section fixup without relocation that cannot be encoded -/
def unpatchable (toSec toOff : Nat) (f : Fixup) : Bool :=
  f.reloc.isNone && f.sec == toSec && !encodable f.fmt (dispOf toOff f)

/-- one step of the `ResolveFixupIterator` loop of `bind_label`: `(patched section data, still unresolved?)`.  After the validation
pass `write_offset` cannot fail (same function, same arguments); `getD` only covers the model's own bounds refusal. -/
def resolveOne (data : Bytes) (toSec toOff : Nat) (f : Fixup) : Bytes × Bool :=
  if f.reloc.isSome then (data, false)                      -- relocation payload adjusted; resolved
  else if f.sec ≠ toSec then (data, true)                   -- cross-section: kept for resolve_cross_section_fixups
  else ((writeOffset data f.off (dispOf toOff f) f.fmt).getD data, false)

def resolveAll (data : Bytes) (toSec toOff : Nat) : List Fixup → Bytes × List Fixup
  | [] => (data, [])
  | f :: fs =>
    let (d1, keep) := resolveOne data toSec toOff f
    let (d2, rest) := resolveAll d1 toSec toOff fs
    (d2, if keep then f :: rest else rest)

/-- `BaseAssembler::bind` -> `CodeHolder::bind_label(label, section, offset())`; `reset_inline_comment()`; report on error.
With fix C14-13 `bind_label` first validates every pending same-section fixup of the label and returns `kInvalidDisplacement` before
anything is modified; only then it binds the label and patches. -/
def bind (s : St) (id : Nat) : Res :=
  let s := { s with one := { s.one with comment := false } }
  match s.labels[id]? with
  | none => report s Err.invalidLabel
  | some le =>
    if le.bound.isSome then report s Err.labelAlreadyBound
    else
      let toOff := s.offset
      let mine := s.pending.filter (·.label = id)
      if mine.any (unpatchable s.cur toOff) then report s Err.invalidDisplacement
      else
        let others := s.pending.filter (·.label ≠ id)
        let data := ((s.secs[s.cur]?).map (·.data)).getD []
        let (data', keep) := resolveAll data s.cur toOff mine
        done { s with
          labels := s.labels.set id { le with bound := some (s.cur, toOff) },
          pending := others,
          global := keep ++ s.global,
          secs := s.secs.modify s.cur (fun sec => { sec with data := data' }) }

/-! ### align / embed -/

def kMaxAlignment : Nat := 64
def isPow2UpTo (x n : Nat) : Bool := x ≥ 1 && x ≤ n && (x &&& (x - 1)) == 0

def x86NopTable : List Bytes := [
  [0x90], [0x66, 0x90], [0x0F, 0x1F, 0x00], [0x0F, 0x1F, 0x40, 0x00], [0x0F, 0x1F, 0x44, 0x00, 0x00],
  [0x66, 0x0F, 0x1F, 0x44, 0x00, 0x00], [0x0F, 0x1F, 0x80, 0x00, 0x00, 0x00, 0x00],
  [0x0F, 0x1F, 0x84, 0x00, 0x00, 0x00, 0x00, 0x00], [0x66, 0x0F, 0x1F, 0x84, 0x00, 0x00, 0x00, 0x00, 0x00]]

/-- fill pattern of `x86::Assembler::align` without `kOptimizedAlign` -/
def x86AlignPattern (mode : Nat) : BitVec 8 := if mode = 0 then 0x90 else if mode = 1 then 0xCC else 0x00

def a64Nop : Bytes := [0x1F, 0x20, 0x03, 0xD5]

/-- `x86::Assembler::align` / `a64::Assembler::align` (after fix C14-3 the a64 `kInvalidState` exit reports the error) -/
def align (s : St) (mode alignment : Nat) : Res :=
  if mode > 2 then report s Err.invalidArgument
  else if alignment ≤ 1 then done s
  else if !isPow2UpTo alignment kMaxAlignment then report s Err.invalidArgument
  else
    let i := (alignment - s.offset % alignment) % alignment
    if i = 0 then done s
    else if s.arch = .a64 then
      if mode = 0 then
        if s.offset % 4 ≠ 0 then report s Err.invalidState
        else done (appendBytes s ((List.replicate (i / 4) a64Nop).flatten))
      else done (appendBytes s (zeros i))
    else done (appendBytes s (List.replicate i (x86AlignPattern mode)))

/-- `BaseAssembler::embed` -/
def embed (s : St) (bs : Bytes) : Res := done (appendBytes s bs)

/-- sizes of the scalar `TypeId`s the generator uses (type.h); 0 = not a valid data type -/
def typeSize (s : St) (t : Nat) : Nat :=
  let t := if t = 32 ∨ t = 33 then (if s.registerSize = 8 then t + 8 else t + 6) else t   -- deabstract IntPtr/UIntPtr
  if t = 34 ∨ t = 35 then 1 else if t = 36 ∨ t = 37 then 2 else if t = 38 ∨ t = 39 ∨ t = 42 then 4
  else if t = 40 ∨ t = 41 ∨ t = 43 then 8 else 0

/-- `BaseAssembler::embed_data_array` for scalar types; `item` is repeated as the harness lays the data out -/
def embedArray (s : St) (t : Nat) (data : Bytes) (count repeat_ : Nat) : Res :=
  let sz := typeSize s t
  if sz = 0 then report s Err.invalidArgument
  else if count = 0 ∨ repeat_ = 0 then done s
  else done (appendBytes s ((List.replicate repeat_ (data.take (count * sz))).flatten))

def simpleFmt (t : OffsetType) (size : Nat) : OffsetFormat := simpleValue t size

/-- `BaseAssembler::embed_label` -/
def embedLabel (s : St) (id size : Nat) : Res :=
  match s.labels[id]? with
  | none => report s Err.invalidLabel
  | some le =>
    let size := if size = 0 then s.registerSize else size
    if !isPow2UpTo size 8 then report s Err.invalidOperandSize
    else
      let s1 := { s with relocs := s.relocs + 1 }
      let s2 := if le.bound.isSome then s1 else
        { s1 with pending := { label := id, sec := s.cur, off := s.offset, rel := 0, fmt := simpleFmt .unsigned size,
                               reloc := some s.relocs } :: s1.pending }
      done (appendBytes s2 (zeros size))

/-- `BaseAssembler::embed_label_delta` -/
def embedLabelDelta (s : St) (id base size : Nat) : Res :=
  match s.labels[id]?, s.labels[base]? with
  | some le, some be =>
    let size := if size = 0 then s.registerSize else size
    if !isPow2UpTo size 8 then report s Err.invalidOperandSize
    else
      match le.bound, be.bound with
      | some (ls, lo), some (bs, bo) =>
        if ls = bs then
          let delta : BitVec 64 := BitVec.ofNat 64 lo - BitVec.ofNat 64 bo
          -- /repo fix for DESIGN.md defect #5: the delta is a signed quantity that must fit into `size` bytes
          if size < 8 ∧ !isEncodableOffset64 delta (size * 8) then report s Err.invalidDisplacement
          else done (appendBytes s (leBytes delta.toNat size))
        else done (appendBytes { s with relocs := s.relocs + 1 } (zeros size))
      | _, _ => done (appendBytes { s with relocs := s.relocs + 1 } (zeros size))
  | _, _ => report s Err.invalidLabel

/-- `BaseAssembler::embed_const_pool(label, pool)` (after fix C14-12: an already bound label is refused *before* the alignment is
emitted): validity, bound test, `align(kData, pool.alignment())`, `bind(label)`, the pool bytes.  `data` = `pool.fill()`. -/
def embedConstPool (s : St) (id alignment : Nat) (data : Bytes) : Res :=
  match s.labels[id]? with
  | none => report s Err.invalidLabel
  | some le =>
    if le.bound.isSome then report s Err.labelAlreadyBound
    else
      let r1 := align s 1 alignment
      if r1.code ≠ Err.ok then r1
      else
        let r2 := bind r1.st id
        if r2.code ≠ Err.ok then r2
        else done (appendBytes r2.st data)

/-! ### sections -/

def kMaxSectionNameSize : Nat := 35
def isZeroOrPow2 (x : Nat) : Bool := (x &&& (x - 1)) == 0

/-- `CodeHolder::new_section` (a CodeHolder call: no error handler is involved) -/
def newSection (s : St) (nameLen alignment : Nat) : Res :=
  if !isZeroOrPow2 alignment then plain s Err.invalidArgument
  else if nameLen > kMaxSectionNameSize then plain s Err.invalidSectionName
  else done ({ s with secs := s.secs ++ [{ alignment := if alignment = 0 then 1 else alignment }] })

/-- `BaseAssembler::section(Section*)`: `idx = none` stands for a `Section` that does not belong to this CodeHolder -/
def switchSection (s : St) (idx : Option Nat) : Res :=
  match idx with
  | none => report s Err.invalidSection
  | some i => if i < s.secs.length then done ({ s with cur := i }) else report s Err.invalidSection

/-! ### `_emit` frame -/

structure FixupReq where
  label : Nat
  off : Nat            -- offset inside the bytes of this instruction
  rel : Int
  fmt : OffsetFormat
  withReloc : Bool
  deriving DecidableEq, Repr

/-- what the encoder did between `CodeWriter writer(this)` and `EmitDone` / `Failed` -/
inductive EncOutcome
  | reject (err : Nat)
  | accept (bytes : Bytes) (fixup : Option FixupReq) (relocs : Nat) (newSecs : Nat)   -- newSecs: `.addrtab` created by a 64-bit jmp/call imm
  deriving DecidableEq, Repr

/-- `Failed:` -> `EmitterUtils::log_instruction_failed`: format, `reset_state()`, `report_error(err)` -/
def emitFailed (s : St) (e : Nat) : Res := report { s with one := OneShot.empty } e

/-- `x86::Assembler::_emit` / `a64::Assembler::_emit`.  `labelRefs`: label ids the operands name (label operands and label-based
memory operands); every path of the encoders tests `is_label_valid` before `label_entry_of` (EmitJmpCall, EmitModSib [LABEL] in both
modes after fix C14-1, EmitOp_Rel), so an accepting run with an invalid id does not exist: it leaves through `InvalidLabel`. -/
def emit (s : St) (pre : OneShot) (labelRefs : List Nat) (o : EncOutcome) : Res :=
  let s := { s with one := pre }                 -- the one-shot setters that precede the call (`a.rep().movs(...)`)
  match o with
  | .reject e => emitFailed s (if e = Err.ok then Err.invalidInstruction else e)
  | .accept bytes fx nrel nsec =>
    if labelRefs.any (fun id => id ≥ s.labels.length) then emitFailed s Err.invalidLabel
    else
      let base := s.offset
      let s1 := { s with relocs := s.relocs + nrel, secs := s.secs ++ List.replicate nsec ({} : Section) }
      let s2 := match fx with
        | none => s1
        | some r =>
          let f : Fixup := { label := r.label, sec := s.cur, off := base + r.off, rel := r.rel, fmt := r.fmt,
                             reloc := if r.withReloc then some (s.relocs + nrel - 1) else none }
          -- `CodeHolder::new_fixup`: a label that is already bound (to another section) has no room for a chain:
          -- the fixup goes directly to `_fixups`, to be resolved by `resolve_cross_section_fixups`
          if ((s.labels[r.label]?).bind (·.bound)).isSome then { s1 with global := f :: s1.global }
          else { s1 with pending := f :: s1.pending }
      -- EmitDone: reset_state(); writer.done(this)
      done (appendBytes { s2 with one := OneShot.empty } bytes)

/-! ### histories -/

inductive Op
  | newLabel
  | newNamedLabel (name : List (BitVec 8)) (ltype parent : Nat)
  | bind (id : Nat)
  | align (mode alignment : Nat)
  | embed (bs : Bytes)
  | embedArray (t : Nat) (data : Bytes) (count repeat_ : Nat)
  | embedLabel (id size : Nat)
  | embedLabelDelta (id base size : Nat)
  | embedConstPool (id alignment : Nat) (data : Bytes)
  | newSection (nameLen alignment : Nat)
  | section (idx : Option Nat)
  | emit (pre : OneShot) (labelRefs : List Nat) (o : EncOutcome)
  deriving DecidableEq, Repr

def step (s : St) : Op → Res
  | .newLabel => newLabel s
  | .newNamedLabel n t p => newNamedLabel s n t p
  | .bind id => bind s id
  | .align m a => align s m a
  | .embed bs => embed s bs
  | .embedArray t d c r => embedArray s t d c r
  | .embedLabel id sz => embedLabel s id sz
  | .embedLabelDelta id b sz => embedLabelDelta s id b sz
  | .embedConstPool id a d => embedConstPool s id a d
  | .newSection n a => newSection s n a
  | .section i => switchSection s i
  | .emit pre refs o => emit s pre refs o

def run (s : St) : List Op → St
  | [] => s
  | op :: ops => run (step s op).st ops

/-- the ops of a history that were accepted, in order (what a "fresh" emitter is fed) -/
def accepted (s : St) : List Op → List Op
  | [] => []
  | op :: ops =>
    if (step s op).code = Err.ok then op :: accepted (step s op).st ops else accepted (step s op).st ops

/-- return codes of a history -/
def codes (s : St) : List Op → List Nat
  | [] => []
  | op :: ops => (step s op).code :: codes (step s op).st ops

/-- what the attached error handler is handed during a history, in order -/
def handled (s : St) : List Op → List Nat
  | [] => []
  | op :: ops =>
    let r := step s op
    (if r.reported ∧ r.st.handler ≠ .none then [r.code] else []) ++ handled r.st ops

/-- the class of the residual finding C14-K1: an `embed_const_pool` whose label has a pending fixup that the bind inside it cannot
reach - the alignment padding has been appended when `bind` refuses (a plain `bind` is atomic since fix C14-13) -/
def bindOverflows (s : St) : Op → Bool
  | .embedConstPool id a d => (step s (.embedConstPool id a d)).code == Err.invalidDisplacement
  | _ => false

/-- no op of the history is in the class of finding C14-K1 -/
def noBindOverflow (s : St) : List Op → Bool
  | [] => true
  | op :: ops => !bindOverflows s op && noBindOverflow (step s op).st ops

end AsmjitVerif.Emitter
