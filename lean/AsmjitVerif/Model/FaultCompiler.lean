/-
C15 - the allocating calls of `BaseCompiler` (asmjit/core/compiler.cpp) under the fault oracle, in the order of the C++:
* `new_virt_reg` (behind `new_gp32(...)`): `_virt_regs.reserve_additional`, the `VirtReg`, and - tolerated - the external
  copy of a name longer than the embedded buffer (`ArenaString::set_data`, its error is dropped: the register has no name);
* `add_func` = `new_func_node` (FuncNode, exit LabelNode + `register_label_node` [`new_label_id`, `_label_nodes.resize_grow`],
  end SentinelNode, the argument packs, `register_label_node` of the function itself) followed by linking function / exit label /
  end sentinel behind the cursor, which is then left ON the function node;
* `invoke` = `new_invoke_node` (InvokeNode, the argument packs) + `add_node`;
* `_emit` (an instruction node) and `end_func` (no request; the cursor moves to the end sentinel).
Observable (`CView`): node list, cursor, number of labels, the registers (named or not).  Bookkeeping (`CCaps`): capacities of
`_label_entries`, `_label_nodes` (+ size), `_virt_regs`.  Core-only imports.
-/
import AsmjitVerif.Model.FaultBuilder
namespace AsmjitVerif.FaultCompiler
open AsmjitVerif AsmjitVerif.Fault
open AsmjitVerif.FaultBuilder (reserveGrow8)

inductive CNode where
  | section
  | func (label : Nat)
  | label (id : Nat)
  | sentinel
  | inst (k : Nat) (extra opts : Nat)
  | invoke (nargs : Nat)
  deriving DecidableEq, Repr, Inhabited

structure CView where
  nodes : List CNode := [.section]
  /-- index of the cursor node -/
  cursor : Nat := 0
  labelCount : Nat := 0
  /-- virtual registers: has a name -/
  regs : List Bool := []
  /-- `_func != nullptr`: a function is open (tied for histories that do not call `add_func` while a function is open) -/
  isOpen : Bool := false
  /-- the emitter's one-shot state (extra register, instruction options), consumed by `_emit` and by `_grab_state()` -/
  pendExtra : Nat := 0
  pendOpts : Nat := 0
  deriving DecidableEq, Repr, Inhabited

/-- `reset_state()` / what `_emit` leaves of the one-shot state on both paths -/
def clearPending (v : CView) : CView := { v with pendExtra := 0, pendOpts := 0 }

structure CCaps where
  labCap : Nat := 0
  lnSize : Nat := 0
  lnCap : Nat := 0
  vregCap : Nat := 0
  deriving DecidableEq, Repr, Inhabited

structure CSt where
  v : CView := {}
  c : CCaps := {}
  corrupt : Bool := false
  deriving DecidableEq, Repr, Inhabited

inductive COp where
  | newReg (longName : Bool)
  | addFunc (nargs : Nat)
  | invoke (nargs : Nat)
  | emit (k : Nat)
  | endFunc
  | setExtra (r : Nat)
  | setOpts (bits : Nat)
  deriving DecidableEq, Repr, Inhabited

/-- `add_node`: link behind the cursor, the cursor moves to the new node -/
def link (v : CView) (n : CNode) : CView :=
  { v with nodes := v.nodes.insertIdx (v.cursor + 1) n, cursor := v.cursor + 1 }

/-- `BaseCompiler::new_virt_reg` -/
def newReg (o : Oracle) (s : CSt) (long : Bool) : Oracle × CSt × Err :=
  match reserveAdd o s.v.regs.length s.c.vregCap 1 8 with
  | (o1, _, false) => (o1, s, .oom)
  | (o1, c1, true) =>
    let s1 := { s with c := { s.c with vregCap := c1 } }
    match req o1 with                         -- `alloc_oneshot(sizeof(VirtReg))`
    | (true, o2) => (o2, s1, .oom)
    | (false, o2) =>
      let fin (o' : Oracle) (named : Bool) : Oracle × CSt × Err :=
        (o', { s1 with v := { s.v with regs := s.v.regs ++ [named] }, corrupt := s.corrupt || s.v.regs.length ≥ c1 }, .ok)
      if long then
        match req o2 with                     -- `ArenaString::set_data` -> `arena.dup`: the error is dropped
        | (true, o3) => fin o3 false
        | (false, o3) => fin o3 true
      else fin o2 true

/-- `register_label_node(node)`: `new_label_id`, `_label_nodes.resize_grow(id + 1)`; (oracle, state, success) -/
def registerLabel (o : Oracle) (s : CSt) : Oracle × CSt × Bool :=
  match reserveAdd o s.v.labelCount s.c.labCap 1 16 with
  | (o1, _, false) => (o1, s, false)
  | (o1, c1, true) =>
    let id := s.v.labelCount
    let s1 := { s with v := { s.v with labelCount := id + 1 }, c := { s.c with labCap := c1 },
                       corrupt := s.corrupt || id ≥ c1 }
    match reserveGrow8 o1 s.c.lnCap (id + 1) with
    | (o2, _, false) => (o2, s1, false)                       -- the label id stays allocated
    | (o2, c2, true) =>
      (o2, { s1 with c := { s1.c with lnCap := c2, lnSize := max s.c.lnSize (id + 1) },
                     corrupt := s1.corrupt || id + 1 > c2 }, true)

/-- the part of `new_func_node` after the exit label was registered (`r`): sentinel, argument packs, the function's label -/
def funcTail (v0 : CView) (nargs : Nat) (r : Oracle × CSt × Bool) : Oracle × CSt × Err :=
  if r.2.2 = false then (r.1, r.2.1, .oom) else
  let exitId := v0.labelCount
  match req r.1 with                          -- `new_node_t<SentinelNode>`
  | (true, o1) => (o1, r.2.1, .oom)
  | (false, o1) =>
    let a : Oracle × Bool := if nargs ≠ 0 then (match req o1 with | (true, o2) => (o2, false) | (false, o2) => (o2, true)) else (o1, true)
    if a.2 = false then (a.1, r.2.1, .oom) else
    let r2 := registerLabel a.1 r.2.1
    if r2.2.2 = false then (r2.1, r2.2.1, .oom) else
    -- `add_func`: function node, exit label, end sentinel behind the cursor; the cursor stays on the function node
    let s2 := r2.2.1
    let at_ := s2.v.cursor + 1
    (r2.1, { s2 with v := { s2.v with nodes := ((s2.v.nodes.insertIdx at_ (.func (exitId + 1))).insertIdx (at_ + 1) (.label exitId)).insertIdx (at_ + 2) .sentinel,
                                      cursor := at_, isOpen := true } }, .ok)

/-- `add_func(signature)` -/
def addFuncCore (o : Oracle) (s : CSt) (nargs : Nat) : Oracle × CSt × Err :=
  match req o with                            -- `new_node_t<FuncNode>`
  | (true, o1) => (o1, s, .oom)
  | (false, o1) =>
    match req o1 with                         -- exit `LabelNode`
    | (true, o2) => (o2, s, .oom)
    | (false, o2) => funcTail s.v nargs (registerLabel o2 s)

/-- `add_func(signature)`: `_grab_state()` takes (and resets) the one-shot state before anything can fail -/
def addFunc (o : Oracle) (s : CSt) (nargs : Nat) : Oracle × CSt × Err :=
  addFuncCore o { s with v := clearPending s.v } nargs

/-- `invoke(target, signature)` -/
def invokeCore (o : Oracle) (s : CSt) (nargs : Nat) : Oracle × CSt × Err :=
  match req o with                            -- `new_node_t<InvokeNode>`
  | (true, o1) => (o1, s, .oom)
  | (false, o1) =>
    if nargs ≠ 0 then
      match req o1 with                       -- the argument packs
      | (true, o2) => (o2, s, .oom)
      | (false, o2) => (o2, { s with v := link s.v (.invoke nargs) }, .ok)
    else (o1, { s with v := link s.v (.invoke nargs) }, .ok)

def invoke (o : Oracle) (s : CSt) (nargs : Nat) : Oracle × CSt × Err :=
  invokeCore o { s with v := clearPending s.v } nargs      -- `_grab_state()` first

def emit (o : Oracle) (s : CSt) (k : Nat) : Oracle × CSt × Err :=
  match req o with                            -- `BaseBuilder::_emit`: a failed call clears the one-shot state too
  | (true, o1) => (o1, { s with v := clearPending s.v }, .oom)
  | (false, o1) => (o1, { s with v := link (clearPending s.v) (.inst k s.v.pendExtra s.v.pendOpts) }, .ok)

/-- `end_func()`: the cursor goes to the end sentinel of the open function (the first sentinel behind the cursor) -/
def endFuncView (v : CView) : CView × Err :=
  if !v.isOpen then (v, .invalidState) else
  match (v.nodes.drop (v.cursor + 1)).idxOf? CNode.sentinel with
  | some i => ({ v with cursor := v.cursor + 1 + i, isOpen := false }, .ok)
  | none => (v, .invalidState)

def cstep (op : COp) (o : Oracle) (s : CSt) : Oracle × CSt × Err :=
  match op with
  | .newReg l => newReg o s l
  | .addFunc n => addFunc o s n
  | .invoke n => invoke o s n
  | .emit k => emit o s k
  | .endFunc => let r := endFuncView s.v; (o, { s with v := r.1 }, r.2)
  | .setExtra r => (o, { s with v := { s.v with pendExtra := r } }, .ok)
  | .setOpts b => (o, { s with v := { s.v with pendOpts := s.v.pendOpts ||| b } }, .ok)

/-- failure-free meaning -/
def cspec (op : COp) (v : CView) : CView × Err :=
  match op with
  | .newReg _ => ({ v with regs := v.regs ++ [true] }, .ok)
  | .addFunc _ =>
    let at_ := v.cursor + 1
    ({ v with pendExtra := 0, pendOpts := 0, nodes := ((v.nodes.insertIdx at_ (.func (v.labelCount + 1))).insertIdx (at_ + 1) (.label v.labelCount)).insertIdx (at_ + 2) .sentinel,
              cursor := at_, labelCount := v.labelCount + 2, isOpen := true }, .ok)
  | .invoke n => (link (clearPending v) (.invoke n), .ok)
  | .emit k => (link (clearPending v) (.inst k v.pendExtra v.pendOpts), .ok)
  | .endFunc => endFuncView v
  | .setExtra r => ({ v with pendExtra := r }, .ok)
  | .setOpts b => ({ v with pendOpts := v.pendOpts ||| b }, .ok)

end AsmjitVerif.FaultCompiler
