/-
C16 (3) — the register allocator's per-function data (`asmjit/core/rapass.cpp`: `BaseRAPass::run_on_function`,
`RAPass_prepare_for_function`, `RAPass_reset_virt_reg_data`, `RAPass_cleanup_after_function`, `arena.reset()`;
`x86/x86rapass.cpp` / `arm/a64rapass.cpp` `rewrite`: `node->reset_pass_data()` for instruction nodes).

Only the *lifetime* structure is modelled: everything the allocator creates for one function (RABlock, RAInst,
RAWorkReg, the pass's own vectors) lives in the pass arena, which is reset when the function is done.  A pointer is a pair
(arena generation, ordinal); it is dead once the arena has moved on to a later generation.  What the allocator decides
(liveness, assignment, spills) is NOT modelled - that is property C05's.
`fixed = true` is the code with fixes/C16-2.patch (pass data of every node of the function is reset), `false` the pinned tree.
-/
namespace AsmjitVerif.RAReuse

/-- pointer into the pass arena -/
structure Ptr where
  gen : Nat
  ord : Nat
  deriving DecidableEq, Repr

inductive NodeKind where
  | inst | label | other
  deriving DecidableEq, Repr

/-- a `BaseNode` of the Compiler: the function it belongs to and its `_pass_data` -/
structure Node where
  kind : NodeKind
  fn : Nat
  pass : Option Ptr := none
  deriving DecidableEq, Repr

/-- a `VirtReg`: `_work_reg` and the stack slot remembered across functions (`assign_stack_slot`) -/
structure VReg where
  work : Option Ptr := none
  hasStack : Bool := false
  deriving DecidableEq, Repr

/-- the per-function members of `BaseRAPass` (vectors of pointers into the arena, the function, counters) -/
structure PassData where
  func : Option Nat := none
  blocks : List Ptr := []
  workRegs : List Ptr := []
  instCount : Nat := 0
  deriving DecidableEq, Repr

structure St where
  gen : Nat := 0                 -- generation of the pass arena
  nodes : List Node := []
  vregs : List VReg := []
  pass : PassData := {}
  deriving DecidableEq, Repr

/-- steps 1-2 of `on_perform_all_steps`: blocks for label nodes, RAInst for instruction nodes, work registers for the
    virtual registers the function uses (`uses v`), the pass's own vectors -/
def build (s : St) (f : Nat) (uses : Nat → Bool) : St :=
  { s with
    nodes := s.nodes.mapIdx fun i n =>
      if n.fn = f ∧ n.kind ≠ .other then { n with pass := some ⟨s.gen, i⟩ } else n
    vregs := s.vregs.mapIdx fun i v => if uses i then { v with work := some ⟨s.gen, 1000000 + i⟩ } else v
    pass := { func := some f,
              blocks := (s.nodes.mapIdx fun i n => (i, n)).filterMap fun (i, n) => if n.fn = f ∧ n.kind = .label then some ⟨s.gen, i⟩ else none,
              workRegs := (s.vregs.mapIdx fun i v => (i, v)).filterMap fun (i, _) => if uses i then some ⟨s.gen, 1000000 + i⟩ else none,
              instCount := (s.nodes.filter fun n => n.fn = f ∧ n.kind = .inst).length } }

/-- `rewrite`: instruction nodes drop their RAInst -/
def rewrite (s : St) (f : Nat) : St :=
  { s with nodes := s.nodes.map fun n => if n.fn = f ∧ n.kind = .inst then { n with pass := none } else n }

/-- fixes/C16-2.patch: every node of the function drops its pass data -/
def resetNodePassData (s : St) (f : Nat) : St :=
  { s with nodes := s.nodes.map fun n => if n.fn = f then { n with pass := none } else n }

/-- `RAPass_reset_virt_reg_data` (work registers with a stack slot leave the offset on the VirtReg) -/
def resetVirtRegData (s : St) (spilled : Nat → Bool) : St :=
  { s with vregs := s.vregs.mapIdx fun i v =>
      if v.work.isSome then { work := none, hasStack := v.hasStack || spilled i } else v }

/-- `RAPass_cleanup_after_function` + the pointer members nulled in `run_on_function` + `arena.reset()` -/
def cleanup (s : St) : St := { s with pass := {}, gen := s.gen + 1 }

/-- `BaseRAPass::run_on_function` -/
def runOnFunction (fixed : Bool) (s : St) (f : Nat) (uses spilled : Nat → Bool) : St :=
  let s := rewrite (build s f uses) f
  let s := if fixed then resetNodePassData s f else s
  cleanup (resetVirtRegData s spilled)

/-- `BaseRAPass::run` over the functions of the Compiler, in order -/
def runAll (fixed : Bool) (s : St) (uses spilled : Nat → Nat → Bool) : List Nat → St
  | [] => s
  | f :: r => runAll fixed (runOnFunction fixed s f (uses f) (spilled f)) uses spilled r

/-- a reference into the pass arena that outlived its generation -/
def Ptr.dead (s : St) (p : Ptr) : Bool := p.gen != s.gen

/-- number of nodes with pass data / virtual registers tied to a work register: what `harness/c16.cpp` prints as pd / wr -/
def pd (s : St) : Nat := (s.nodes.filter fun n => n.pass.isSome).length
def wr (s : St) : Nat := (s.vregs.filter fun v => v.work.isSome).length

/-- nothing the Compiler still holds points into the pass arena -/
def clean (s : St) : Prop := (∀ n ∈ s.nodes, n.pass = none) ∧ (∀ v ∈ s.vregs, v.work = none) ∧ s.pass = {}

instance (s : St) : Decidable (clean s) := by unfold clean; infer_instance

end AsmjitVerif.RAReuse
