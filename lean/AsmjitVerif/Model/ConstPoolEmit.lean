/-
Executable model of how a constant pool reaches the code section (core-only; part of C19).

* `BaseAssembler::embed_const_pool` (core/assembler.cpp) and `BaseBuilder::embed_const_pool` (core/builder.cpp) – same
  order of tests in both: label valid? → label already bound? (refused before anything is emitted) → (Assembler: reserve
  `size + alignment` bytes) → `align(AlignMode::kData, alignment)` → `bind(label)` → `fill`.          → `embedPool`
* `BaseCompiler::_new_const` (core/compiler.cpp): one `ConstPoolNode` (a label + a `ConstPool`) per scope, created on
  first use; the memory operand handed out is `[pool label + int32(offset)]`.                           → `newConst`
* `BaseCompiler::add_func` / `end_func`: `end_func` puts the local pool node in front of the function's end sentinel and
  forgets it (the next function gets a fresh local pool).                                               → `addFunc`, `endFunc`
* `GlobalConstPoolPass::run` (at `finalize`): the global pool node goes after the last node.           → `finalize`
* `BaseBuilder::serialize_to`: nodes in order; a pool node becomes `embed_const_pool(node label, node pool)`.  → `layout`

Code that is not pool related (function bodies, prologs, epilogs) is an opaque byte string carried by the operations;
every theorem quantifies over it.  Labels of pool nodes are numbered 0,1,2… in creation order (the harness prints the
same ordinal).  `Node::_offset`/`int32_t(off)` truncations: see `Model/ConstPool32.lean`.
-/
import AsmjitVerif.Model.ConstPool
namespace AsmjitVerif.ConstPool

/-- the part of a section (and of the label table) that pool embedding touches -/
structure Sect where
  buf : Bytes
  /-- bound labels: (label id, offset) -/
  bound : List (Nat × Nat)
  /-- number of labels created so far (`is_label_valid`) -/
  nlabels : Nat
deriving Repr

def Sect.empty (nlabels : Nat) : Sect := { buf := [], bound := [], nlabels := nlabels }

def Sect.offsetOf (s : Sect) (label : Nat) : Option Nat := (s.bound.find? (fun p => p.1 == label)).map (·.2)

inductive EmbedError where
  | invalidLabel
  | labelAlreadyBound
deriving DecidableEq, Repr

/-- `embed_const_pool(label, pool)`; `pad` is the byte `align(kData)` uses (x86 `0xCC`, a64 `0x00`) -/
def embedPool (pad : BitVec 8) (s : Sect) (label : Nat) (pool : Pool) : Except EmbedError Sect :=
  if ¬ label < s.nlabels then .error .invalidLabel
  else if (s.offsetOf label).isSome then .error .labelAlreadyBound
  else
    let at_ := alignUp s.buf.length pool.alignment
    .ok { s with buf := s.buf ++ (List.replicate (at_ - s.buf.length) pad ++ fill pool),
                 bound := (label, at_) :: s.bound }

/-- `bind(label)` at the current end of the section -/
def bindLabel (s : Sect) (label : Nat) : Except EmbedError Sect :=
  if ¬ label < s.nlabels then .error .invalidLabel
  else if (s.offsetOf label).isSome then .error .labelAlreadyBound
  else .ok { s with bound := (label, s.buf.length) :: s.bound }

/-- `new_label()` -/
def newLabel (s : Sect) : Sect := { s with nlabels := s.nlabels + 1 }

/-- plain data / code bytes appended to the section -/
def emitBytes (s : Sect) (b : Bytes) : Sect := { s with buf := s.buf ++ b }

/-! ### the Compiler's pools -/

/-- `ConstPoolNode` -/
structure CPool where
  label : Nat
  pool : Pool

/-- a node of the Compiler's list, as far as the section layout is concerned -/
inductive Item where
  | code (b : Bytes)
  | pool (cp : CPool)

inductive Scope where
  | loc
  | glob
deriving DecidableEq, Repr

/-- `BaseCompiler` state: finished node list, `_func`, `_const_pools[2]`, number of pool labels created -/
structure Comp where
  nodes : List Item
  inFunc : Bool
  loc : Option CPool
  glob : Option CPool
  nextLabel : Nat

def Comp.init : Comp := { nodes := [], inFunc := false, loc := none, glob := none, nextLabel := 0 }

/-- `int32_t(off)` of `_new_const` -/
def int32 (n : Nat) : Int :=
  let m : Nat := n % 2 ^ 32
  if m < 2 ^ 31 then Int.ofNat m else Int.ofNat m - Int.ofNat (2 ^ 32)

inductive ConstAnswer where
  /-- `[label + disp]` -/
  | mem (label : Nat) (disp : Int)
  | invalidArgument (label : Nat)
deriving DecidableEq, Repr

/-- `_new_const(scope, data, size)`: the pool node of the scope is created on first use (even when `add` then refuses) -/
def newConst (c : Comp) (scope : Scope) (data : Bytes) : Comp × ConstAnswer :=
  let cur := match scope with | .loc => c.loc | .glob => c.glob
  let (cp, next) := match cur with
    | some cp => (cp, c.nextLabel)
    | none => ({ label := c.nextLabel, pool := Pool.init }, c.nextLabel + 1)
  let (p', r) := add cp.pool data
  let cp' : CPool := { cp with pool := p' }
  let c' : Comp := match scope with
    | .loc => { c with loc := some cp', nextLabel := next }
    | .glob => { c with glob := some cp', nextLabel := next }
  (c', match r with
    | .ok off => .mem cp.label (int32 off)
    | .invalidArgument => .invalidArgument cp.label)

/-- `add_func` (prolog bytes are whatever the backend emits in front of the body); `true` = accepted -/
def addFunc (c : Comp) (prolog : Bytes) : Comp × Bool :=
  ({ c with nodes := c.nodes ++ [.code prolog], inFunc := true }, true)

/-- `end_func`: `kInvalidState` without an open function; else epilog, then the local pool node (if any), pool forgotten -/
def endFunc (c : Comp) (epilog : Bytes) : Comp × Bool :=
  if ¬ c.inFunc then (c, false)
  else
    let tail := match c.loc with
      | some cp => [Item.code epilog, Item.pool cp]
      | none => [Item.code epilog]
    ({ c with nodes := c.nodes ++ tail, inFunc := false, loc := none }, true)

/-- any other node (instructions, embedded data) -/
def emitCode (c : Comp) (b : Bytes) : Comp := { c with nodes := c.nodes ++ [.code b] }

/-- `finalize`: a function that was never ended still gets its epilog (its pending local pool is NOT emitted: the label
of such a pool stays unbound); `GlobalConstPoolPass` appends the global pool node after the last node -/
def finalizeNodes (c : Comp) (openEpilog : Bytes) : List Item :=
  let nodes := if c.inFunc then c.nodes ++ [.code openEpilog] else c.nodes
  match c.glob with
  | some cp => nodes ++ [.pool cp]
  | none => nodes

/-- `serialize_to` for one node (an `embed_const_pool` error would abort serialisation; labels of pool nodes are fresh and
distinct, so it cannot happen – `Props/C19.lean: compile_layout_no_error`) -/
def layoutItem (pad : BitVec 8) (s : Sect) : Item → Sect
  | .code b => emitBytes s b
  | .pool cp => match embedPool pad s cp.label cp.pool with
    | .ok s' => s'
    | .error _ => s

def layout (pad : BitVec 8) (nlabels : Nat) (items : List Item) : Sect :=
  items.foldl (layoutItem pad) (Sect.empty nlabels)

inductive COp where
  | addFunc (prolog : Bytes)
  | endFunc (epilog : Bytes)
  | code (b : Bytes)
  | newConst (scope : Scope) (data : Bytes)

def cstep (c : Comp) : COp → Comp
  | .addFunc p => (addFunc c p).1
  | .endFunc e => (endFunc c e).1
  | .code b => emitCode c b
  | .newConst sc d => (newConst c sc d).1

def crun (c : Comp) (ops : List COp) : Comp := ops.foldl cstep c

/-- `finalize()`: passes, then serialisation into the section -/
def compile (pad : BitVec 8) (openEpilog : Bytes) (ops : List COp) : Sect :=
  let c := crun Comp.init ops
  layout pad c.nextLabel (finalizeNodes c openEpilog)

end AsmjitVerif.ConstPool
