/-
C11: the lock-discipline analysis that is run (by `decide`) over the event trees regenerated from the clang AST of
jitallocator.cpp / jitruntime.cpp (Gen/LockMap.lean, tools/ast_locks.py).  All recursion is structural so that the
kernel can evaluate it.
-/
namespace AsmjitVerif.LockMap

/-- one event of a function body, in source order -/
inductive Ev where
  | lock                          -- a LockGuard is constructed: held until the end of the enclosing block
  | acc (record field : String) (write : Bool)
  | call (fn : String)
  | block (body : List Ev)
  | bad                           -- call depth exceeded while inlining (poison)
  deriving Repr

def lookup (m : List (String × List Ev)) (f : String) : Option (List Ev) :=
  match m with
  | [] => none
  | (k, v) :: r => if k == f then some v else lookup r f

mutual
/-- replace every call by the (already inlined) body of the callee; calls to functions outside the map
    (library helpers that touch none of the records) disappear -/
def inlineEv (f : String → Option (List Ev)) : Ev → Ev
  | .call g => match f g with
    | some b => .block b
    | none => .block []
  | .block es => .block (inlineEvs f es)
  | .lock => .lock
  | .acc r x w => .acc r x w
  | .bad => .bad
def inlineEvs (f : String → Option (List Ev)) : List Ev → List Ev
  | [] => []
  | e :: r => inlineEv f e :: inlineEvs f r
end

/-- body of `g` with calls inlined to depth `k` (deeper calls become `.bad`) -/
def bodyAt (m : List (String × List Ev)) : Nat → String → Option (List Ev)
  | 0 => fun g => (lookup m g).map fun _ => [.bad]
  | k + 1 => fun g => (lookup m g).map (inlineEvs (bodyAt m k))

mutual
/-- `none` = discipline broken: a protected field touched while the lock is not held, or the (non-recursive) lock taken
    while already held (self-deadlock), or poison. `some held'` = lock state for the following siblings. -/
def scanEv (prot : String → String → Bool) (held : Bool) : Ev → Option Bool
  | .lock => if held then none else some true
  | .acc r f _ => if prot r f && !held then none else some held
  | .call _ => none                               -- not inlined: cannot be judged
  | .bad => none
  | .block es =>
    match scanEvs prot held es with
    | none => none
    | some _ => some held                         -- a guard declared inside a block does not outlive it
def scanEvs (prot : String → String → Bool) (held : Bool) : List Ev → Option Bool
  | [] => some held
  | e :: r =>
    match scanEv prot held e with
    | none => none
    | some h => scanEvs prot h r
end

/-- entry point `f` keeps the lock discipline (calls followed to depth `depth`) -/
def disciplined (m : List (String × List Ev)) (prot : String → String → Bool) (depth : Nat) (f : String) : Bool :=
  match bodyAt m depth f with
  | none => false
  | some b => (scanEvs prot false b).isSome

mutual
/-- fields assigned / incremented directly in a body (calls not followed) -/
def writesOfEv : Ev → List (String × String)
  | .acc r f true => [(r, f)]
  | .block es => writesOfEvs es
  | _ => []
def writesOfEvs : List Ev → List (String × String)
  | [] => []
  | e :: r => writesOfEv e ++ writesOfEvs r
end

end AsmjitVerif.LockMap
