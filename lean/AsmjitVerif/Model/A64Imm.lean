/-
Model of the AArch64 immediate helpers:
  asmjit/arm/armutils.h        : encode_logical_imm, is_add_sub_imm, is_byte_mask_imm, encode_imm64_byte_mask_to_imm8,
                                 is_fp{16,32,64}_imm8, encode_fp{16,32,64}_to_imm8
  asmjit/arm/a64assembler.cpp  : count_zero_half_words_64, encode_mov_sequence_32/64, encode_lmh
Core-only imports.  `Support::ctz` (= __builtin_ctz, undefined for 0; every call site guards it) is written as a
6-step binary search so that bit-blasting sees it.
-/
namespace AsmjitVerif.A64Imm

/-- count trailing zeros of a non-zero 64-bit value by binary search (`Support::ctz`); 63 for x = 0 (never used). -/
def ctz64 (x0 : BitVec 64) : BitVec 64 :=
  let n0 := if x0 &&& 0xFFFFFFFF#64 == 0#64 then 32#64 else 0#64
  let x1 := x0 >>> n0
  let n1 := if x1 &&& 0xFFFF#64 == 0#64 then 16#64 else 0#64
  let x2 := x1 >>> n1
  let n2 := if x2 &&& 0xFF#64 == 0#64 then 8#64 else 0#64
  let x3 := x2 >>> n2
  let n3 := if x3 &&& 0xF#64 == 0#64 then 4#64 else 0#64
  let x4 := x3 >>> n3
  let n4 := if x4 &&& 0x3#64 == 0#64 then 2#64 else 0#64
  let x5 := x4 >>> n4
  let n5 := if x5 &&& 0x1#64 == 0#64 then 1#64 else 0#64
  n0 + n1 + n2 + n3 + n4 + n5

/-- `Support::lsb_mask<uint64_t>(n)` for a run-time `n` (0..64): `n ? ~0 >> (64 - n) : 0`. -/
def lsbMask64v (n : BitVec 64) : BitVec 64 :=
  if n == 0#64 then 0#64 else (BitVec.allOnes 64) >>> (64#64 - n)

structure LogicalImm where
  n : BitVec 32
  s : BitVec 32
  r : BitVec 32
  deriving DecidableEq, Repr

/-- the halving loop of `encode_logical_imm`: element width, for operation width 64 or 32 -/
def halvesEq (imm : BitVec 64) (w : Nat) : Bool :=
  (imm &&& BitVec.ofNat 64 (2 ^ w - 1)) == ((imm >>> w) &&& BitVec.ofNat 64 (2 ^ w - 1))

def elemWidth (imm : BitVec 64) (width : Nat) : Nat :=
  if width = 64 then
    if !halvesEq imm 32 then 64 else if !halvesEq imm 16 then 32 else if !halvesEq imm 8 then 16
    else if !halvesEq imm 4 then 8 else if !halvesEq imm 2 then 4 else 2
  else
    if !halvesEq imm 16 then 32 else if !halvesEq imm 8 then 16
    else if !halvesEq imm 4 then 8 else if !halvesEq imm 2 then 4 else 2

/-- the part of `encode_logical_imm` after the element width `w` (2..64) is known -/
def encodeLogicalElem (imm0 : BitVec 64) (w : BitVec 64) : Option LogicalImm :=
  let lsbMask := lsbMask64v w
  let imm := imm0 &&& lsbMask
  if imm == 0#64 || imm == lsbMask then none else
  let zIndex := ctz64 (~~~imm)
  let zImm := imm ^^^ ((1#64 <<< zIndex) - 1#64)
  let zCount := (if zImm != 0#64 then ctz64 zImm else w) - zIndex
  let oIndex := zIndex + zCount
  let oImm := ~~~(zImm ^^^ lsbMask64v oIndex)
  let oCount := (if oImm != 0#64 then ctz64 oImm else w) - oIndex
  let mustBeZero := oImm ^^^ ~~~(lsbMask64v (oIndex + oCount))
  if mustBeZero != 0#64 || (zIndex != 0#64 && w - (oIndex + oCount) != 0#64) then none else
  some { n := if w == 64#64 then 1#32 else 0#32,
         s := ((oCount + zIndex - 1#64).truncate 32) ||| ((0#32 - (w.truncate 32) * 2#32) &&& 0x3F#32),
         r := (w - oIndex).truncate 32 }

/-- `arm::Utils::encode_logical_imm(imm, width, out)`, width = 32 or 64 -/
def encodeLogicalImm (imm : BitVec 64) (width : Nat) : Option LogicalImm :=
  encodeLogicalElem imm (BitVec.ofNat 64 (elemWidth imm width))

/-- `is_add_sub_imm` -/
def isAddSubImm (imm : BitVec 64) : Bool :=
  imm.ule 0xFFF#64 || (imm &&& ~~~ 0xFFF000#64) == 0#64

/-- `is_byte_mask_imm<uint64_t>` -/
def isByteMaskImm (imm : BitVec 64) : Bool :=
  imm == (imm &&& 0x0101010101010101#64) * 255#64

/-- `encode_imm64_byte_mask_to_imm8` -/
def encodeByteMaskToImm8 (imm : BitVec 64) : BitVec 32 :=
  (((imm >>> 7) &&& 0x03#64) ||| ((imm >>> 21) &&& 0x0C#64) ||| ((imm >>> 35) &&& 0x30#64) ||| ((imm >>> 49) &&& 0xC0#64)).truncate 32

/-- `is_fp_imm8_generic<T, kNumBBits, kNumCDEFGHBits, kNumZeroBits>` on a value zero-extended to 64 bits -/
def isFpImm8Generic (val : BitVec 64) (numB numCDEFGH numZero : Nat) : Bool :=
  let allBs : BitVec 64 := BitVec.ofNat 64 (2 ^ numB - 1)
  let b0 : BitVec 64 := BitVec.ofNat 64 (2 ^ (numB - 1))
  let b1 := allBs ^^^ b0
  let immZ := val &&& BitVec.ofNat 64 (2 ^ numZero - 1)
  let immB := (val >>> (numZero + numCDEFGH)) &&& allBs
  immZ == 0#64 && (immB == b0 || immB == b1)

def isFp16Imm8 (v : BitVec 64) : Bool := isFpImm8Generic v 3 6 6
def isFp32Imm8 (v : BitVec 64) : Bool := isFpImm8Generic v 6 6 19
def isFp64Imm8 (v : BitVec 64) : Bool := isFpImm8Generic v 9 6 48

/-- `encode_fp_to_imm8_generic` -/
def encodeFpToImm8Generic (val : BitVec 64) (numB numCDEFGH numZero : Nat) : BitVec 32 :=
  let bits : BitVec 32 := (val >>> numZero).truncate 32
  ((bits >>> (numB + numCDEFGH - 7)) &&& 0x80#32) ||| (bits &&& 0x7F#32)

def encodeFp16ToImm8 (v : BitVec 64) : BitVec 32 := encodeFpToImm8Generic v 3 6 6
def encodeFp32ToImm8 (v : BitVec 64) : BitVec 32 := encodeFpToImm8Generic v 6 6 19
def encodeFp64ToImm8 (v : BitVec 64) : BitVec 32 := encodeFpToImm8Generic v 9 6 48

/-! ### move-wide sequences -/

def countZeroHalfWords64 (imm : BitVec 64) : Nat :=
  (if imm &&& 0x000000000000FFFF#64 == 0#64 then 1 else 0) + (if imm &&& 0x00000000FFFF0000#64 == 0#64 then 1 else 0) +
  (if imm &&& 0x0000FFFF00000000#64 == 0#64 then 1 else 0) + (if imm &&& 0xFFFF000000000000#64 == 0#64 then 1 else 0)

/-- `encode_mov_sequence_32(out, imm, rd, x)` -/
def encodeMovSequence32 (imm rd x : BitVec 32) : List (BitVec 32) :=
  let kMovZ := 0x52800000#32 ||| (x <<< 31)
  let kMovN := 0x12800000#32
  let kMovK := 0x72800000#32
  if imm &&& 0xFFFF0000#32 == 0#32 then [kMovZ ||| ((imm &&& 0xFFFF#32) <<< 5) ||| rd]
  else if imm &&& 0xFFFF0000#32 == 0xFFFF0000#32 then [kMovN ||| ((~~~imm &&& 0xFFFF#32) <<< 5) ||| rd]
  else if imm &&& 0x0000FFFF#32 == 0#32 then [kMovZ ||| (1#32 <<< 21) ||| ((imm >>> 16) <<< 5) ||| rd]
  else if imm &&& 0x0000FFFF#32 == 0x0000FFFF#32 then [kMovN ||| (1#32 <<< 21) ||| ((~~~imm >>> 16) <<< 5) ||| rd]
  else [kMovZ ||| ((imm &&& 0xFFFF#32) <<< 5) ||| rd, kMovK ||| (1#32 <<< 21) ||| ((imm >>> 16) <<< 5) ||| rd]

/-- one iteration of the MOVZ/MOVK loop: state = (words so far, current opcode) -/
def movzStep (imm : BitVec 64) (rd : BitVec 32) (st : List (BitVec 32) × BitVec 32) (hw : Nat) : List (BitVec 32) × BitVec 32 :=
  let hwImm : BitVec 32 := ((imm >>> (16 * hw)) &&& 0xFFFF#64).truncate 32
  if hwImm == 0#32 then st
  else (st.1 ++ [st.2 ||| (BitVec.ofNat 32 hw <<< 21) ||| (hwImm <<< 5) ||| rd], 0xF2800000#32)

/-- one iteration of the MOVN/MOVK loop: state = (words, opcode, neg_mask) -/
def movnStep (imm : BitVec 64) (rd : BitVec 32) (st : List (BitVec 32) × BitVec 32 × BitVec 32) (hw : Nat) :
    List (BitVec 32) × BitVec 32 × BitVec 32 :=
  let hwImm : BitVec 32 := ((imm >>> (16 * hw)) &&& 0xFFFF#64).truncate 32
  if hwImm == 0xFFFF#32 then st
  else (st.1 ++ [st.2.1 ||| (BitVec.ofNat 32 hw <<< 21) ||| ((hwImm ^^^ st.2.2) <<< 5) ||| rd], 0xF2800000#32, 0#32)

/-- `encode_mov_sequence_64(out, imm, rd, x)` -/
def encodeMovSequence64 (imm : BitVec 64) (rd x : BitVec 32) : List (BitVec 32) :=
  if imm.ule 0xFFFFFFFF#64 then encodeMovSequence32 (imm.truncate 32) rd x else
  let zhw := countZeroHalfWords64 imm
  let ohw := countZeroHalfWords64 (~~~imm)
  if zhw ≥ ohw then
    ([0, 1, 2, 3].foldl (movzStep imm rd) ([], 0xD2800000#32)).1
  else
    let r := [0, 1, 2, 3].foldl (movnStep imm rd) ([], 0x92800000#32, 0xFFFF#32)
    if r.1.isEmpty then [0x92800000#32 ||| ((0xFFFF#32 ^^^ r.2.2) <<< 5) ||| rd] else r.1

/-- `encode_lmh(size_field, element_index, out)`: returns (ok, lm, h, max_rm_id) -/
def encodeLmh (sizeField elementIndex : BitVec 32) : Option (Bool × BitVec 32 × BitVec 32 × BitVec 32) :=
  if sizeField != 1#32 && sizeField != 2#32 then none else
  let hShift := 3#32 - sizeField
  let lmShift := sizeField - 1#32
  let maxElementIndex := 15#32 >>> sizeField
  some (elementIndex.ule maxElementIndex, (elementIndex <<< lmShift) &&& 3#32, elementIndex >>> hShift, (8#32 <<< sizeField) - 1#32)

/-! ### bit-field aliases: `lsb, width -> immr, imms` (a64assembler.cpp, cases BaseBfc / BaseBfi / BaseBfx / BaseBfm) -/

/-- BaseBfc / BaseBfi (BFC, BFI, SBFIZ, UBFIZ): `immr = -lsb MOD size`, `imms = width - 1`; `none` = kInvalidImmediate.
`lsb`, `width` are the 64-bit immediate operand values (`value_as<uint64_t>`). -/
def encodeBfi (x : Bool) (lsb width : BitVec 64) : Option (BitVec 32 × BitVec 32) :=
  let opSize : BitVec 64 := if x then 64#64 else 32#64
  if opSize.ule lsb || width == 0#64 || (opSize - lsb).ult width then none else
  let immr := (0#32 - lsb.truncate 32) &&& (opSize.truncate 32 - 1#32)
  let imms := width.truncate 32 - 1#32
  some (immr, imms)

/-- BaseBfx (BFXIL, SBFX, UBFX): `immr = lsb`, `imms = lsb + width - 1` -/
def encodeBfx (x : Bool) (lsb width : BitVec 64) : Option (BitVec 32 × BitVec 32) :=
  let opSize : BitVec 64 := if x then 64#64 else 32#64
  if opSize.ule lsb || width == 0#64 || opSize.ult width then none else
  let lsb32 := lsb.truncate 32
  let width32 := lsb32 + width.truncate 32 - 1#32
  if (opSize.truncate 32).ule width32 then none else
  some (lsb32, width32)

/-- BaseBfm (BFM, SBFM, UBFM): the raw fields -/
def encodeBfm (x : Bool) (immr imms : BitVec 64) : Option (BitVec 32 × BitVec 32) :=
  let opSize : BitVec 64 := if x then 64#64 else 32#64
  if opSize.ule (immr ||| imms) then none else some (immr.truncate 32, imms.truncate 32)

/-- the opcode word: `opcode | x<<31 | x<<22 | immr<<16 | imms<<10 | Rn<<5 | Rd` -/
def bfWord (opcode : BitVec 32) (x : Bool) (immr imms rn rd : BitVec 32) : BitVec 32 :=
  let xb : BitVec 32 := if x then 1#32 else 0#32
  opcode ||| (xb <<< 31) ||| (xb <<< 22) ||| (immr <<< 16) ||| (imms <<< 10) ||| ((rn &&& 31#32) <<< 5) ||| (rd &&& 31#32)

end AsmjitVerif.A64Imm
