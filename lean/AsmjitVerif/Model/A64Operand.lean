/-
Operands of `a64::Assembler::_emit` as the assembler sees them (asmjit/core/operand.h, asmjit/arm/a64operand.h):
a register is (RegType, id, element type, optional element index); an immediate is a 64-bit value plus the 4-bit
"predicate" (the ShiftOp of `lsl(12)`-style operands) and the int/double tag; a memory operand is base / index /
shift / offset-mode / 32-bit offset (an operand with a base register stores only the low 32 bits of the offset,
core/operand.h BaseMem::set_offset), an absolute address, or a label (+ offset).
Core-only imports.
-/
namespace AsmjitVerif.A64

/-- `RegType` numbers (core/operand.h) -/
def rtNone : Nat := 0
def rtLabel : Nat := 1
def rtGp32 : Nat := 5
def rtGp64 : Nat := 6
def rtVec8 : Nat := 7
def rtVec16 : Nat := 8
def rtVec32 : Nat := 9
def rtVec64 : Nat := 10
def rtVec128 : Nat := 11

def idSP : Nat := 31
def idZR : Nat := 63

/-- `VecElementType`: 0 none, 1 B, 2 H, 3 S, 4 D, 5 B4, 6 H2 -/
structure Reg where
  rt : Nat
  id : Nat
  et : Nat := 0
  hasIdx : Bool := false
  idx : Nat := 0
  deriving DecidableEq, Repr, Inhabited

namespace Reg
def isGp32 (r : Reg) : Bool := r.rt == rtGp32
def isGp64 (r : Reg) : Bool := r.rt == rtGp64
def isGp (r : Reg) : Bool := r.rt == rtGp32 || r.rt == rtGp64
def isVec (r : Reg) : Bool := r.rt ≥ rtVec8 && r.rt ≤ rtVec128
/-- operand signature equality (`o0.signature() == o1.signature()`): type, element type, element flag + index -/
def sameSig (a b : Reg) : Bool := a.rt == b.rt && a.et == b.et && a.hasIdx == b.hasIdx && a.idx == b.idx
end Reg

/-- ShiftOp numbers (core/archcommons.h) -/
def sopLSL : Nat := 0
def sopLSR : Nat := 1
def sopASR : Nat := 2
def sopROR : Nat := 3
def sopMSL : Nat := 5
def sopUXTB : Nat := 6
def sopUXTW : Nat := 8
def sopUXTX : Nat := 9
def sopSXTW : Nat := 12
def sopSXTX : Nat := 13

structure Mem where
  baseType : Nat          -- RegType of the base (6 = Gp64 for every encodable form)
  baseId : Nat
  indexType : Nat := 0    -- 0 = no index
  indexId : Nat := 0
  shiftOp : Nat := 0
  shift : Nat := 0
  mode : Nat := 0         -- 0 fixed, 1 pre-index, 2 post-index
  off : BitVec 32 := 0    -- `offset_lo32()`
  deriving DecidableEq, Repr, Inhabited

inductive Operand where
  | none
  | reg (r : Reg)
  | imm (v : BitVec 64) (pred : Nat)      -- integer immediate
  | fimm (bits : BitVec 64)               -- double immediate
  | mem (m : Mem)                         -- [base {, index | offset}]
  | abs (addr : BitVec 64)                -- absolute address memory operand
  | label                                 -- label bound at section offset 0
  | memLabel (off : BitVec 64)            -- [label + off]
  deriving DecidableEq, Repr, Inhabited

/-- `OperandType` numbers: none 0, reg 1, mem 2, reg-list 3, imm 4, label 5 -/
def Operand.opType : Operand → Nat
  | .none => 0 | .reg _ => 1 | .mem _ => 2 | .abs _ => 2 | .memLabel _ => 2 | .imm _ _ => 4 | .fimm _ => 4 | .label => 5

/-- `isign4` of `_emit` -/
def isign4 (o0 o1 o2 o3 : Operand) : Nat := o0.opType + o1.opType * 8 + o2.opType * 64 + o3.opType * 512

/-- One `emit` request: byte position in the section (label `l` is bound at 0, base address 0x10000000),
instruction id, condition code of the id, up to six operands. -/
structure Request where
  pos : Nat
  inst : Nat
  cc : Nat
  ops : List Operand
  deriving Repr, Inhabited

def Request.op (r : Request) (i : Nat) : Operand := r.ops.getD i .none

inductive Result where
  | ok (words : List (BitVec 32))
  | err (e : String)
  deriving DecidableEq, Repr, Inhabited

def baseAddress : BitVec 64 := 0x10000000#64

end AsmjitVerif.A64
