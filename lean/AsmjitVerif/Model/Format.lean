/-
  C20 — executable model of the text the formatter and the logger produce.

  Transcribed line by line from (file: function)
    core/string.cpp          : String::_op_number (append_int / append_uint), String::_op_hex (append_hex), pad_end
    core/formatter.cpp       : Formatter::format_virt_reg_name, Formatter::format_label
    x86/x86formatter.cpp     : FormatterInternal::format_register, format_operand, format_instruction
                               (everything except FormatterInternal_explain_const — the `{..|..}` immediate annotations)
    arm/armformatter.cpp     : FormatterInternal::format_cond_code, format_shift_op, format_register,
                               format_register_list, format_operand
    arm/a64formatter.cpp     : FormatterInternal::format_instruction
    core/emitterutils.cpp    : EmitterUtils::finish_formatted_line, log_instruction_emitted
    core/logger.cpp          : StringLogger::_log (content := content ++ line)

  Text is `List Char` (`Str`) so that the theorems of Props/C20.lean can reason about it; the driver converts.
  The x86 register name table `reg_format_info` is file-static data: it is dumped from the compiled
  translation unit on every run into Gen/FormatTabs.lean and read here exactly as the C++ reads it
  (offset arithmetic into the NUL-separated string pools).  Core-only imports.
-/
import AsmjitVerif.Gen.FormatTabs

namespace AsmjitVerif.Format

abbrev Str := List Char

/-! ## core/string.cpp -/

/-- `String_base_n[]` = "0123456789ABCDEF" -/
def digitChar (d : Nat) : Char := if d < 10 then Char.ofNat (48 + d) else Char.ofNat (55 + d)

/-- the `do { *--p = base_n[i % base]; i /= base; } while (i);` loop; 64 iterations are enough for a 64-bit value in base ≥ 2 -/
def digitsLoop (base : Nat) : Nat → Nat → Str → Str
  | 0, _, acc => acc
  | fuel + 1, i, acc =>
    let acc := digitChar (i % base) :: acc
    if i / base = 0 then acc else digitsLoop base fuel (i / base) acc

/-- `append_uint(i, base)` with width 0 and no flags (the only way the formatters call it) -/
def uintStr (i : Nat) (base : Nat := 10) : Str := digitsLoop base 64 i []

def two64 : Nat := 18446744073709551616
def two63 : Nat := 9223372036854775808
def two32 : Nat := 4294967296
def two31 : Nat := 2147483648

/-- `int64_t(x)` of a 64-bit pattern -/
def toS64 (x : Nat) : Int := if x % two64 < two63 then (x % two64 : Nat) else (x % two64 : Nat) - (two64 : Nat)
/-- `uint64_t(v)` of a signed value -/
def toU64 (v : Int) : Nat := (v % (two64 : Nat)).toNat

/-- `append_int(v, 10)`: kSigned → `-` and `Support::neg(i)` -/
def intStr (u : Nat) : Str :=
  if u % two64 ≥ two63 then '-' :: uintStr (two64 - u % two64) 10 else uintStr (u % two64) 10

def sfShowSign : Nat := 1
def sfShowSpace : Nat := 2
def sfAlternate : Nat := 4
def sfSigned : Nat := 0x80000000
def hasBit (f bit : Nat) : Bool := f &&& bit != 0

/-- the whole of `String::_op_number(op, i, base, width, flags)`; `none` = kInvalidArgument -/
def opNumber (i0 : Nat) (base0 width flags : Nat) : Option Str :=
  let i0 := i0 % two64
  let base := if base0 = 0 then 10 else base0
  let neg := hasBit flags sfSigned && i0 ≥ two63
  let i := if neg then two64 - i0 else i0
  let sign : Str := if neg then ['-'] else if hasBit flags sfShowSign then ['+'] else if hasBit flags sfShowSpace then [' '] else []
  if base = 2 ∨ base = 8 ∨ base = 16 ∨ base = 10 then
    let num := uintStr i base
    let alt : Str :=
      if hasBit flags sfAlternate then
        (if base = 8 ∧ i0 ≠ 0 then ['0'] else []) ++ (if base = 16 then ['0', 'x'] else [])
      else []
    let width := if width > 256 then 256 else width
    let pad := if width ≤ num.length then 0 else width - num.length
    some (sign ++ alt ++ List.replicate pad '0' ++ num)
  else none

/-- `append_hex(data, size, separator)` -/
def hexByte (b : Nat) : Str := [digitChar ((b / 16) % 16), digitChar (b % 16)]
def appendHex (bytes : List Nat) (sep : Option Char := none) : Str :=
  match sep with
  | none => bytes.flatMap hexByte
  | some c => match bytes with
    | [] => []
    | b :: rest => hexByte b ++ rest.flatMap (fun x => c :: hexByte x)

/-- `pad_end(n)` -/
def padEnd (sb : Str) (n : Nat) : Str := sb ++ List.replicate (n - sb.length) ' '

/-! ## operands and the emitter state the formatters consult -/

inductive Arch | x86 | x64 | a64
  deriving DecidableEq, Repr

/-- `RegType` values used below -/
def rtLabelTag : Nat := 1
def rtGp32 : Nat := 5
def rtGp64 : Nat := 6
def rtVec8 : Nat := 7
def rtVec64 : Nat := 10
def rtVec128 : Nat := 11
def rtMaxValue : Nat := 31

inductive MemBase
  | none
  | reg (type id : Nat)
  | label (id : Nat)
  deriving DecidableEq, Repr

structure X86Mem where
  size : Nat            -- 0..255
  seg : Nat             -- 0..7
  addrType : Nat        -- 0 default, 1 abs, 2 rel
  base : MemBase
  index : Option (Nat × Nat)   -- (type, id)
  shift : Nat           -- 0..3
  off : Int             -- as given; `effOff` is what `Mem::offset()` returns
  bcast : Nat           -- 0..7
  home : Bool
  deriving DecidableEq, Repr

structure A64Mem where
  base : MemBase
  index : Option (Nat × Nat)
  shiftOp : Nat         -- 0..15
  shift : Nat           -- 0..31
  off : Int
  mode : Nat            -- 0 fixed, 1 pre-index, 2 post-index
  home : Bool
  deriving DecidableEq, Repr

inductive Operand
  | none
  | reg (type id : Nat) (etype : Nat) (eidx : Option Nat)    -- element type / index: AArch64 vectors only
  | x86mem (m : X86Mem)
  | a64mem (m : A64Mem)
  | imm (u : Nat) (pred : Nat)        -- the 64-bit pattern of the value, predicate (AArch64 shift op)
  | label (id : Nat)
  | regList (type mask : Nat)
  deriving DecidableEq, Repr

/-- `BaseMem::offset()`: 64-bit when there is no base (`_base_id` holds the high half), else the sign-extended low 32 bits -/
def effOff (hasBase : Bool) (off : Int) : Nat :=
  if hasBase then
    let lo := (off % (two32 : Nat)).toNat
    if lo < two31 then lo else two64 - (two32 - lo)
  else toU64 off

structure LabelEntry where
  type : Nat               -- 0 anonymous, 1 local, 2 global, 3 external
  name : Str               -- [] = has no name
  parent : Option Nat
  deriving DecidableEq, Repr

structure VirtReg where
  name : Str               -- [] = unnamed
  regType : Nat
  deriving DecidableEq, Repr

/-- what the formatter reads from `emitter`: `labels = none` ⇔ no emitter / no code attached; `vregs = some _` ⇔ the emitter is a Compiler -/
structure Env where
  arch : Arch
  labels : Option (List LabelEntry)
  vregs : Option (List VirtReg)
  deriving Repr

def ffMachineCode : Nat := 0x1
def ffShowAliases : Nat := 0x8
def ffExplainImms : Nat := 0x10
def ffHexImms : Nat := 0x20
def ffHexOffsets : Nat := 0x40
def ffRegCasts : Nat := 0x100
def ffPositions : Nat := 0x200
def ffRegType : Nat := 0x400

def kVirtIdMin : Nat := 256
def kInvalidId : Nat := 0xFFFFFFFF
/-- `Operand::is_virt_id` -/
def isVirtId (id : Nat) : Bool := kVirtIdMin ≤ id && id < kInvalidId

/-! ## core/formatter.cpp -/

/-- `Formatter::format_virt_reg_name` -/
def formatVirtRegName (v : VirtReg) (index : Nat) : Str :=
  if v.name.length ≠ 0 then v.name else '%' :: uintStr index

/-- the virtual register the formatters would print for `id` (Compiler attached and `is_virt_id_valid`) -/
def virtLookup (env : Env) (id : Nat) : Option (VirtReg × Nat) :=
  if isVirtId id then
    match env.vregs with
    | some vs => (vs[id - kVirtIdMin]?).map fun v => (v, id - kVirtIdMin)
    | none => none
  else none

/-- `Formatter::format_label` -/
def formatLabel (env : Env) (id : Nat) : Str :=
  let anon : Str := 'L' :: uintStr id
  match env.labels with
  | none => anon
  | some ls =>
    match ls[id]? with
    | none => "<InvalidLabel:".toList ++ uintStr id ++ ['>']
    | some le =>
      if le.name.length ≠ 0 then
        let pre : Str :=
          match le.parent with
          | some pid =>
            (match ls[pid]? with
             | some pe => if pe.name.length ≠ 0 then pe.name else 'L' :: uintStr pid
             | none => 'L' :: uintStr pid) ++ ['.']
          | none => []
        let mid : Str := if le.type = 0 then 'L' :: uintStr id ++ ['@'] else []
        pre ++ mid ++ le.name
      else anon

/-! ## x86/x86formatter.cpp -/

open AsmjitVerif.Gen.FormatTabs in
/-- C string starting at `pool + i` -/
def cstrAt (pool : List Nat) (i : Nat) : Str :=
  ((pool.drop i).takeWhile (· ≠ 0)).map Char.ofNat

/-- `append_format(fmt, unsigned(u))` for the formats of the table: `%u` is the only conversion -/
def formatU : Str → Nat → Str
  | '%' :: 'u' :: rest, u => uintStr u ++ formatU rest u
  | c :: rest, u => c :: formatU rest u
  | [], _ => []

open AsmjitVerif.Gen.FormatTabs in
def x86TypeIndex (type : Nat) : Nat := x86TypeEntries.getD type 0
open AsmjitVerif.Gen.FormatTabs in
def x86NameEntry (type : Nat) : Nat × Nat × Nat × Nat := x86NameEntries.getD type (0, 0, 0, 0)

open AsmjitVerif.Gen.FormatTabs in
/-- the physical-register tail of `x86::FormatterInternal::format_register` -/
def x86PhysRegName (type id : Nat) : Str :=
  if type ≤ rtMaxValue then
    let (count, formatIndex, specialIndex, specialCount) := x86NameEntry type
    if id < specialCount then cstrAt x86NameStrings (specialIndex + id * 4)
    else if id < count then formatU (cstrAt x86NameStrings formatIndex) id
    else if x86TypeIndex type ≠ 0 then cstrAt x86TypeStrings (x86TypeIndex type) ++ ['@'] ++ uintStr id
    else "<Reg-".toList ++ uintStr type ++ ">?".toList ++ uintStr id
  else "<Reg-".toList ++ uintStr type ++ ">?".toList ++ uintStr id

open AsmjitVerif.Gen.FormatTabs in
/-- `x86::FormatterInternal::format_register` -/
def x86FormatRegister (flags : Nat) (env : Env) (type id : Nat) : Str :=
  match virtLookup env id with
  | some (v, index) =>
    let formatType := hasBit flags ffRegType || (hasBit flags ffRegCasts && v.regType ≠ type)
    formatVirtRegName v index ++
      (if formatType ∧ type ≤ rtMaxValue ∧ x86TypeIndex type ≠ 0 then '@' :: cstrAt x86TypeStrings (x86TypeIndex type) else [])
  | none => x86PhysRegName type id

/-- `get_address_size_string` -/
def x86SizeString (size : Nat) : Str :=
  (match size with
   | 1 => "byte ptr " | 2 => "word ptr " | 4 => "dword ptr " | 6 => "fword ptr " | 8 => "qword ptr "
   | 10 => "tbyte ptr " | 16 => "xmmword ptr " | 32 => "ymmword ptr " | 64 => "zmmword ptr " | _ => "").toList

def clearBit (f bit : Nat) : Nat := if hasBit f bit then f - bit else f

open AsmjitVerif.Gen.FormatTabs in
/-- segment override: `seg != SReg::kIdNone && seg < SReg::kIdCount` (kIdCount = 7), name read at the hard-coded pool offset 224 -/
def x86MemSegText (m : X86Mem) : Str :=
  if m.seg ≠ 0 ∧ m.seg < 7 then cstrAt x86NameStrings (224 + m.seg * 4) ++ [':'] else []

/-- `switch (m.addr_type())` -/
def x86MemAddrText (m : X86Mem) : Str := match m.addrType with | 1 => "abs ".toList | 2 => "rel ".toList | _ => []

/-- `if (m.has_base())`: label or (`&` for a register home, kRegCasts masked out) register -/
def x86MemBaseText (flags : Nat) (env : Env) (m : X86Mem) : Str :=
  match m.base with
  | .none => []
  | .label id => formatLabel env id
  | .reg t id => if m.home then '&' :: x86FormatRegister (clearBit flags ffRegCasts) env t id else x86FormatRegister flags env t id

/-- `op_sign` after the base block -/
def x86MemSignAfterBase (m : X86Mem) : Option Char := if m.base ≠ MemBase.none then some '+' else none

/-- `if (m.has_index())`: `op_sign`, register, `*%u` of `1 << shift` -/
def x86MemIndexText (flags : Nat) (env : Env) (m : X86Mem) : Str :=
  match m.index with
  | some (t, id) =>
    (match x86MemSignAfterBase m with | some c => [c] | none => []) ++ x86FormatRegister flags env t id ++
      (if m.shift ≠ 0 then '*' :: uintStr (1 <<< m.shift) else [])
  | none => []

/-- `op_sign` after the index block -/
def x86MemSignAfterIndex (m : X86Mem) : Option Char := if m.index.isSome then some '+' else x86MemSignAfterBase m

/-- `if (off || !m.has_base_or_index())`: sign (`-` and negation for negative values), `0x` + hex or decimal; `off = uint64_t(m.offset())` -/
def x86MemDispTextOf (flags : Nat) (m : X86Mem) (off : Nat) : Str :=
  if off ≠ 0 ∨ (m.base = MemBase.none ∧ m.index = none) then
    (match (if off ≥ two63 then some '-' else x86MemSignAfterIndex m) with | some c => [c] | none => []) ++
      (if hasBit flags ffHexOffsets ∧ (if off ≥ two63 then two64 - off else off) > 9
       then ['0', 'x'] ++ uintStr (if off ≥ two63 then two64 - off else off) 16
       else uintStr (if off ≥ two63 then two64 - off else off) 10)
  else []

def x86MemDispText (flags : Nat) (m : X86Mem) : Str := x86MemDispTextOf flags m (effOff (m.base ≠ MemBase.none) m.off)

/-- the memory branch of `x86::FormatterInternal::format_operand`: every block appends to `sb` in this order -/
def x86FormatMem (flags : Nat) (env : Env) (m : X86Mem) : Str :=
  x86SizeString m.size ++ x86MemSegText m ++ ['['] ++ x86MemAddrText m ++ x86MemBaseText flags env m ++
    x86MemIndexText flags env m ++ x86MemDispText flags m ++ [']']

/-- the immediate branch (x86 and, after the predicate, AArch64) -/
def formatImmValue (flags : Nat) (u : Nat) : Str :=
  if hasBit flags ffHexImms ∧ u % two64 > 9 then ['0', 'x'] ++ uintStr (u % two64) 16 else intStr u

/-- `x86::FormatterInternal::format_operand` -/
def x86FormatOperand (flags : Nat) (env : Env) : Operand → Str
  | .reg t id _ _ => x86FormatRegister flags env t id
  | .x86mem m => x86FormatMem flags env m
  | .a64mem _ => "<None>".toList      -- not constructible for this architecture; the harness never sends it
  | .imm u _ => formatImmValue flags u
  | .label id => formatLabel env id
  | .regList _ _ => "<None>".toList
  | .none => "<None>".toList

def ioShortForm : Nat := 0x10
def ioLongForm : Nat := 0x20
def ioModMR : Nat := 0x100
def ioModRM : Nat := 0x200
def ioVex3 : Nat := 0x400
def ioVex : Nat := 0x800
def ioEvex : Nat := 0x1000
def ioLock : Nat := 0x2000
def ioRep : Nat := 0x4000
def ioRepne : Nat := 0x8000
def ioXAcquire : Nat := 0x10000
def ioXRelease : Nat := 0x20000
def ioER : Nat := 0x40000
def ioSAE : Nat := 0x80000
def ioERMask : Nat := 0x600000
def ioZMask : Nat := 0x800000
def ioRex : Nat := 0x40000000

/-- `BaseInst::_extra_reg`: (signature's register type, register group, id); all zero = none -/
structure ExtraReg where
  type : Nat
  group : Nat
  id : Nat
  deriving DecidableEq, Repr

def ExtraReg.isReg (e : ExtraReg) : Bool := e.type ≠ 0    -- `RegOnly::is_reg()`: signature != 0
def rgMask : Nat := 2                                       -- `RegGroup::kMask` (= kX86_K)

open AsmjitVerif.Gen.FormatTabs in
/-- `InstInternal::inst_id_to_string(inst_id, options)` read from the dumped name tables -/
def x86InstName (flags id : Nat) : Str :=
  (if hasBit flags ffShowAliases then x86AliasNames.getD id "" else x86InstNames.getD id "").toList

open AsmjitVerif.Gen.FormatTabs in
def x86InstCount : Nat := x86InstNames.size

/-- the option words `format_instruction` prints before the mnemonic, in its order; each is followed by one blank.
    `rep`/`repnz` is followed by `{reg}` when the instruction carries an extra register -/
def x86HeadWords (flags : Nat) (env : Env) (options : Nat) (extra : ExtraReg) : List Str :=
  let o (bit : Nat) (s : String) : List Str := if hasBit options bit then [s.toList] else []
  o ioVex "{vex}" ++ o ioVex3 "{vex3}" ++ o ioEvex "{evex}" ++
  (if hasBit options ioModRM then ["{modrm}".toList] else if hasBit options ioModMR then ["{modmr}".toList] else []) ++
  o ioShortForm "short" ++ o ioLongForm "long" ++ o ioXAcquire "xacquire" ++ o ioXRelease "xrelease" ++ o ioLock "lock" ++
  (if hasBit options (ioRep ||| ioRepne) then
     [(if hasBit options ioRep then "rep" else "repnz").toList] ++
     (if extra.isReg then [['{'] ++ x86FormatOperand flags env (.reg extra.type extra.id 0 none) ++ ['}']] else [])
   else []) ++
  o ioRex "rex"

/-- options + mnemonic part of `x86::FormatterInternal::format_instruction` -/
def x86FormatHead (flags : Nat) (env : Env) (instId options : Nat) (extra : ExtraReg) : Str :=
  if instId < x86InstCount then
    (x86HeadWords flags env options extra).flatMap (fun w => w ++ [' ']) ++ x86InstName flags instId
  else "[InstId=#".toList ++ uintStr instId ++ [']']

/-- AVX-512 masking after the first operand: ` {k}` [`{z}`], or ` {z}` alone -/
def x86KZText (flags : Nat) (env : Env) (options : Nat) (extra : ExtraReg) (i : Nat) : Str :=
  if i = 0 then
    if extra.group = rgMask then
      " {".toList ++ x86FormatRegister flags env extra.type extra.id ++ ['}'] ++ (if hasBit options ioZMask then "{z}".toList else [])
    else if hasBit options ioZMask then " {z}".toList else []
  else []

/-- AVX-512 broadcast ` {1toN}` after a memory operand -/
def x86BcastText (op : Operand) : Str :=
  match op with
  | .x86mem m => if m.bcast ≠ 0 then " {1to".toList ++ uintStr (1 <<< m.bcast) ++ ['}'] else []
  | _ => []

/-- everything printed for operand `i` after its separator (the kExplainImms annotation would follow the operand text: not modelled) -/
def x86ChunkText (flags : Nat) (env : Env) (options : Nat) (extra : ExtraReg) (i : Nat) (op : Operand) : Str :=
  x86FormatOperand flags env op ++ x86KZText flags env options extra i ++ x86BcastText op

/-- the operand loop: stops at the first `none` operand -/
def x86FormatOps (flags : Nat) (env : Env) (options : Nat) (extra : ExtraReg) : Nat → List Operand → Str
  | _, [] => []
  | _, .none :: _ => []
  | i, op :: rest =>
    (if i = 0 then " " else ", ").toList ++ x86ChunkText flags env options extra i op ++
      x86FormatOps flags env options extra (i + 1) rest

def x86RoundingMode (bits : Nat) : Str :=
  (match bits with | 0 => "rn" | 1 => "rd" | 2 => "ru" | _ => "rz").toList

/-- `x86::FormatterInternal::format_instruction` -/
def x86FormatInstruction (flags : Nat) (env : Env) (instId options : Nat) (extra : ExtraReg) (ops : List Operand) : Str :=
  x86FormatHead flags env instId options extra ++ x86FormatOps flags env options extra 0 ops ++
  (if hasBit options (ioER ||| ioSAE) then
     if hasBit options ioER then ", {".toList ++ x86RoundingMode ((options &&& ioERMask) >>> 21) ++ "-sae}".toList
     else ", {sae}".toList
   else [])

/-! ## arm/armformatter.cpp, arm/a64formatter.cpp -/

/-- `format_cond_code`: 3-byte records, index `min(cc, 16)` -/
def armCondCode (cc : Nat) : Str :=
  (match cc with
   | 0 => "al" | 1 => "na" | 2 => "eq" | 3 => "ne" | 4 => "hs" | 5 => "lo" | 6 => "mi" | 7 => "pl" | 8 => "vs" | 9 => "vc"
   | 10 => "hi" | 11 => "ls" | 12 => "ge" | 13 => "lt" | 14 => "gt" | 15 => "le" | _ => "<Unknown>").toList

/-- `format_shift_op` -/
def armShiftOp (op : Nat) : Str :=
  (match op with
   | 0 => "lsl" | 1 => "lsr" | 2 => "asr" | 3 => "ror" | 4 => "rrx" | 5 => "msl" | 6 => "uxtb" | 7 => "uxth" | 8 => "uxtw" | 9 => "uxtx"
   | 10 => "sxtb" | 11 => "sxth" | 12 => "sxtw" | 13 => "sxtx" | _ => "<Unknown>").toList

/-- `format_element_data_table[9]`: (letter, element_count) -/
def armElementData (etype : Nat) : Char × Nat :=
  match etype with
  | 1 => ('b', 16) | 2 => ('h', 8) | 3 => ('s', 4) | 4 => ('d', 2) | 5 => ('b', 4) | 6 => ('h', 2) | _ => ('?', 0)

def a64IdZr : Nat := 63
def a64IdSp : Nat := 31

/-- the register-name part of `arm::FormatterInternal::format_register`; `none` = early `return` after `wzr/wsp/xzr/sp` -/
def armRegBase (env : Env) (type id etype : Nat) : Option Str :=
  match virtLookup env id with
  | some (v, index) => some (formatVirtRegName v index)
  | none =>
    let is64 := env.arch = Arch.a64 ∨ env.arch = Arch.x64
    let fallback : Str := "<Reg-".toList ++ uintStr type ++ ">?".toList ++ uintStr id
    if rtVec8 ≤ type ∧ type ≤ rtVec128 then
      let letter := if etype ≠ 0 then 'v' else "bhsdq".toList.getD (type - rtVec8) '?'
      some (letter :: uintStr id)
    else if type = rtGp32 then
      if is64 then
        if id = a64IdZr then none else if id = a64IdSp then none else some ('w' :: uintStr id)
      else some ('r' :: uintStr id)
    else if type = rtGp64 ∧ is64 then
      if id = a64IdZr then none else if id = a64IdSp then none else some ('x' :: uintStr id)
    else some fallback

/-- `arm::FormatterInternal::format_register` -/
def armFormatRegister (env : Env) (type id : Nat) (etype : Nat := 0) (eidx : Option Nat := none) : Str :=
  match armRegBase env type id etype with
  | none =>
    if type = rtGp32 then (if id = a64IdZr then "wzr" else "wsp").toList else (if id = a64IdZr then "xzr" else "sp").toList
  | some sb =>
    let sb :=
      if etype ≠ 0 then
        let (letter, count) := armElementData (min etype 7)
        let count := if type = rtVec64 then count / 2 else count
        sb ++ ['.'] ++ (if count ≠ 0 then uintStr count else []) ++ [letter]
      else sb
    match eidx with
    | some i => sb ++ ['['] ++ uintStr i ++ [']']
    | none => sb

/-- lowest set bit of a non-zero mask (`Support::ctz`) -/
def ctzFuel : Nat → Nat → Nat
  | 0, _ => 0
  | fuel + 1, m => if m % 2 = 1 then 0 else 1 + ctzFuel fuel (m / 2)

/-- `format_register_list`: runs of consecutive set bits, `{r0-r3, r8}` -/
def armRegListLoop (env : Env) (type : Nat) : Nat → Nat → Bool → Str
  | 0, _, _ => []
  | fuel + 1, mask, first =>
    if mask = 0 then [] else
    let start := ctzFuel 32 mask
    -- length of the run of ones starting at `start`
    let rec run : Nat → Nat → Nat
      | 0, _ => 0
      | f + 1, k => if (mask >>> k) % 2 = 1 then 1 + run f (k + 1) else 0
    let count := run 32 start
    let mask' := mask - (((1 <<< count) - 1) <<< start)
    (if first then [] else ", ".toList) ++ armFormatRegister env type start ++
      (if count ≥ 2 then ['-'] ++ armFormatRegister env type (start + count - 1) else []) ++
      armRegListLoop env type fuel mask' false

def armFormatRegList (env : Env) (type mask : Nat) : Str :=
  ['{'] ++ armRegListLoop env type 33 (mask % two32) true ++ ['}']

/-- `if (m.has_base()) … else if (m.has_index() || m.has_offset()) "<None>"` -/
def a64MemBaseText (env : Env) (m : A64Mem) : Str :=
  match m.base with
  | .label id => formatLabel env id
  | .reg t id => if m.home then '&' :: armFormatRegister env t id else armFormatRegister env t id
  | .none => if m.index.isSome ∨ effOff false m.off ≠ 0 then "<None>".toList else []

/-- `if (m.has_index()) ", " + register` -/
def a64MemIndexText (env : Env) (m : A64Mem) : Str :=
  match m.index with | some (t, id) => ", ".toList ++ armFormatRegister env t id | none => []

/-- the offset: a post-index operand always shows it (repaired code, fixes/C20-2.patch; the pinned code printed `[x7]` for the
    post-index form with offset 0, the same text as the plain offset form) -/
def a64MemOffTextOf (flags : Nat) (m : A64Mem) (off : Nat) : Str :=
  if off ≠ 0 ∨ (m.mode = 2 ∧ m.index.isNone) then
    ", ".toList ++ (if hasBit flags ffHexOffsets ∧ off > 9 then ['0', 'x'] ++ uintStr off 16 else intStr off)
  else []

def a64MemOffText (flags : Nat) (m : A64Mem) : Str := a64MemOffTextOf flags m (effOff (m.base ≠ MemBase.none) m.off)

/-- the extend/shift operation is printed whenever it is not the default `lsl 0` (repaired code, fixes/C20-1.patch; the pinned
    code printed it only when the shift amount was non-zero and so lost `uxtw/sxtw/sxtx` with amount 0) -/
def a64MemShiftText (m : A64Mem) : Str :=
  if m.shift ≠ 0 ∨ (m.index.isSome ∧ m.mode = 0 ∧ m.shiftOp ≠ 0) then
    [' '] ++ (if m.mode = 0 then armShiftOp m.shiftOp else []) ++ (if m.shift ≠ 0 then [' '] ++ uintStr m.shift else [])
  else []

/-- the memory branch of `arm::FormatterInternal::format_operand`: the blocks append to `sb` in this order -/
def a64FormatMem (flags : Nat) (env : Env) (m : A64Mem) : Str :=
  ['['] ++ a64MemBaseText env m ++ (if m.mode = 2 then [']'] else []) ++ a64MemIndexText env m ++ a64MemOffText flags m ++
    a64MemShiftText m ++ (if m.mode ≠ 2 then [']'] else []) ++ (if m.mode = 1 then ['!'] else [])

/-- `arm::FormatterInternal::format_operand` -/
def a64FormatOperand (flags : Nat) (env : Env) : Operand → Str
  | .reg t id etype eidx => armFormatRegister env t id etype eidx
  | .a64mem m => a64FormatMem flags env m
  | .x86mem _ => "<None>".toList
  | .imm u pred => (if pred ≠ 0 then armShiftOp pred ++ [' '] else []) ++ formatImmValue flags u
  | .label id => formatLabel env id
  | .regList t mask => armFormatRegList env t mask
  | .none => "<None>".toList

open AsmjitVerif.Gen.FormatTabs in
def a64InstCount : Nat := a64InstNames.size

def a64FormatOps (flags : Nat) (env : Env) : Nat → List Operand → Str
  | _, [] => []
  | _, .none :: _ => []
  | i, op :: rest => (if i = 0 then " " else ", ").toList ++ a64FormatOperand flags env op ++ a64FormatOps flags env (i + 1) rest

open AsmjitVerif.Gen.FormatTabs in
/-- `a64::FormatterInternal::format_instruction` -/
def a64FormatInstruction (flags : Nat) (env : Env) (instId : Nat) (ops : List Operand) : Str :=
  let realId := instId % 65536
  let cc := (instId / 134217728) % 16          -- InstIdParts::kARM_Cond = 0x78000000
  (if realId ≠ 0 ∧ realId < a64InstCount then (a64InstNames.getD realId "").toList
   else "[InstId=#".toList ++ uintStr realId ++ [']']) ++
  (if cc ≠ 0 then ['.'] ++ armCondCode cc else []) ++
  a64FormatOps flags env 0 ops

/-! ## dispatch of core/formatter.cpp -/

def formatRegister (flags : Nat) (env : Env) (type id : Nat) : Str :=
  match env.arch with
  | .a64 => armFormatRegister env type id
  | _ => x86FormatRegister flags env type id

def formatOperand (flags : Nat) (env : Env) (op : Operand) : Str :=
  match env.arch with
  | .a64 => a64FormatOperand flags env op
  | _ => x86FormatOperand flags env op

def formatInstruction (flags : Nat) (env : Env) (instId options : Nat) (extra : ExtraReg) (ops : List Operand) : Str :=
  match env.arch with
  | .a64 => a64FormatInstruction flags env instId ops
  | _ => x86FormatInstruction flags env instId options extra ops

/-! ## core/emitterutils.cpp -/

/-- `Formatter::padding_from_options` -/
def paddingOf (opt : Nat) (dflt : Nat) : Nat := if opt ≠ 0 then opt else dflt

/-- `EmitterUtils::finish_formatted_line(sb, options, bin_data, bin_size, offset_size, imm_size, comment)`;
    `bin = none` ⇔ `bin_size == SIZE_MAX` (no machine-code column); precondition `rel + imm ≤ bin.length` (an `ASMJIT_ASSERT`) -/
def finishFormattedLine (sb : Str) (pad0 pad1 : Nat) (bin : Option (List Nat)) (rel imm : Nat) (comment : Option Str) : Str :=
  let commentSize := match comment with | some c => (c.takeWhile (· ≠ '\x00')).length | none => 0   -- str_nlen (≤ kMaxCommentSize = 1024)
  let commentSize := min commentSize 1024
  let binSize := match bin with | some b => b.length | none => 0
  let sb :=
    if binSize ≠ 0 ∨ commentSize ≠ 0 then
      let padding := paddingOf pad0 44
      let sb :=
        match bin with
        | some b =>
          let sb := padEnd sb padding ++ [';', ' ']
          sb ++ appendHex (b.take (b.length - rel - imm)) ++ List.replicate (rel * 2) '.' ++ appendHex (b.drop (b.length - imm))
        | none => sb
      if commentSize ≠ 0 then
        let (sep, padding) := match bin with | some _ => ('|', padding + paddingOf pad1 26) | none => (';', padding)
        padEnd sb padding ++ [sep, ' '] ++ ((comment.getD []).take commentSize)
      else sb
    else sb
  sb ++ ['\n']

/-- `EmitterUtils::log_instruction_emitted`: the line handed to `Logger::log` for one emitted instruction -/
def logInstructionEmitted (flags : Nat) (env : Env) (indent pad0 pad1 : Nat) (instId options : Nat) (extra : ExtraReg)
    (ops : List Operand) (bytes : List Nat) (rel imm : Nat) (comment : Option Str) : Str :=
  let sb := List.replicate indent ' ' ++ formatInstruction flags env instId options extra ops
  if hasBit flags ffMachineCode then finishFormattedLine sb pad0 pad1 (some bytes) rel imm comment
  else finishFormattedLine sb pad0 pad1 none 0 0 comment

/-! ## core/logger.cpp + the code buffer: one emitted instruction -/

structure Emitted where
  instId : Nat
  options : Nat
  extra : ExtraReg
  ops : List Operand
  bytes : List Nat      -- what the assembler appended to the code buffer
  rel : Nat             -- size of the yet unresolved displacement field
  imm : Nat             -- size of the immediate that follows it
  comment : Option Str

structure LogState where
  buffer : List Nat := []     -- the section's code buffer
  content : Str := []         -- `StringLogger::_content`

/-- `Assembler::_emit` seen from outside: the bytes are appended to the buffer, the line to the logger -/
def LogState.emit (flags : Nat) (env : Env) (indent pad0 pad1 : Nat) (s : LogState) (e : Emitted) : LogState :=
  { buffer := s.buffer ++ e.bytes,
    content := s.content ++ logInstructionEmitted flags env indent pad0 pad1 e.instId e.options e.extra e.ops e.bytes e.rel e.imm e.comment }

/-! ## core/formatter.cpp: Formatter::format_node / format_node_list (Builder nodes) -/

/-- the Builder nodes whose text is modelled (`NodeType::kInst/kJump`, `kLabel`, `kAlign`, `kEmbedData`, `kComment`, `kSection`) -/
inductive Node
  | inst (id opts : Nat) (extra : ExtraReg) (ops : List Operand)
  | label (id : Nat)
  | align (mode n : Nat)
  | embedData (size count rep : Nat)
  | comment (text : Str)
  | section (name : Str)
  | embedLabel (id : Nat)
  | embedLabelDelta (id base : Nat)
  deriving Repr

/-- `format_data_type`: `word_name_table[ArchTraits::type_name_id_by_index(log2 size)]` — x86: db dw dd dq, AArch64: byte hword word xword -/
def wordName (arch : Arch) (size : Nat) : Str :=
  (match arch, size with
   | .a64, 1 => "byte" | .a64, 2 => "hword" | .a64, 4 => "word" | .a64, _ => "xword"
   | _, 1 => "db" | _, 2 => "dw" | _, 4 => "dd" | _, _ => "dq").toList

/-- the `switch (node->type())` of `format_node` -/
def formatNodeBody (flags : Nat) (env : Env) : Node → Str
  | .inst id opts extra ops => formatInstruction flags env id opts extra ops
  | .label id => formatLabel env id ++ [':']
  | .align mode n => ".align ".toList ++ uintStr n ++ " (".toList ++ (if mode = 0 then "code" else "data").toList ++ [')']
  | .embedData size count rep =>
    ['.'] ++ wordName env.arch size ++ " {Count=".toList ++ uintStr count ++ " Repeat=".toList ++ uintStr rep ++
      " TotalSize=".toList ++ uintStr (size * count) ++ ['}']
  | .comment t => "; ".toList ++ t
  | .section name => ".section ".toList ++ name
  | .embedLabel id => ".label ".toList ++ formatLabel env id
  | .embedLabelDelta id base => ".label (".toList ++ formatLabel env id ++ " - ".toList ++ formatLabel env base ++ [')']

/-- `<%05u> `: the node position, printed when `kPositions` is set and the node has one (`position != 0`) -/
def positionPrefix (flags pos : Nat) : Str :=
  if hasBit flags ffPositions ∧ pos ≠ 0 then
    ['<'] ++ List.replicate (5 - (uintStr pos).length) '0' ++ uintStr pos ++ ['>', ' ']
  else []

/-- `Formatter::format_node`: position prefix; a comment node returns at once; otherwise an inline comment is padded to the
    regular-line column (counted from after the prefix) and appended after `; ` -/
def formatNode (flags : Nat) (env : Env) (pad0 : Nat) (n : Node) (inl : Option Str) (pos : Nat := 0) : Str :=
  positionPrefix flags pos ++
  match n, inl with
  | .comment t, _ => formatNodeBody flags env (.comment t)
  | n, some c => padEnd (formatNodeBody flags env n) (paddingOf pad0 44) ++ [';', ' '] ++ c
  | n, none => formatNodeBody flags env n

/-- `Formatter::format_node_list`: every node's text followed by a newline -/
def formatNodeList (flags : Nat) (env : Env) (pad0 : Nat) (nodes : List (Node × Option Str × Nat)) : Str :=
  nodes.flatMap fun p => formatNode flags env pad0 p.1 p.2.1 p.2.2 ++ ['\n']

end AsmjitVerif.Format
