/-
Model of asmjit/core/string.cpp/.h (`String_grow_capacity`, `String::reset/clear/prepare/assign/_op_string/
_op_char/_op_chars/pad_end/_op_number/_op_hex/truncate/equals`, `StringTmp<N>`), 64-bit target.
The character buffer is raw memory: `buf : List Nat` (bytes) of `capacity + 1` cells; writes are bounds-checked
(`none` from `write` = the C++ would write outside the buffer).  `malloc(n)` succeeds iff `n ≤ mallocMax`.
`_op_string/_op_chars/_op_hex` with `kAssign` and an empty input follow the REPAIRED code (fixes/C18-5.patch:
the string becomes empty).  `_op_format/_op_vformat` (vsnprintf) are not modelled.  Core-only imports.
-/
import AsmjitVerif.Model.Arena
namespace AsmjitVerif.Str
open AsmjitVerif.Arena (u64 alignUp bitLen)

inductive Kind where | small | large | ext
  deriving DecidableEq, Repr, Inhabited

structure Str where
  kind : Kind := .small
  /-- `_small.data` (31 bytes) or the heap/external buffer (`capacity + 1` bytes) -/
  buf : List Nat := List.replicate 31 0
  size : Nat := 0
  cap : Nat := 30
  deriving DecidableEq, Repr, Inhabited

inductive Err where | ok | oom | invalidArgument
  deriving DecidableEq, Repr, Inhabited

def kSSOCapacity : Nat := 30
def kMinAllocSize : Nat := 128
def kGrowThreshold : Nat := 16 * 1024 * 1024
def kMaxAllocSize : Nat := u64 - 1 - kGrowThreshold
def mallocMax : Nat := 2 ^ 40

/-- `StringTmp<N>()` -/
def newTmp (n : Nat) : Str :=
  let c := alignUp (n + 1) 8 - 1
  { kind := .ext, buf := List.replicate (c + 1) 0, size := 0, cap := c }

def alignUpPow2 (x : Nat) : Nat := if x ≤ 1 then 1 else (1 <<< bitLen (x - 1)) % u64

/-- `String_grow_capacity(byte_size, min_byte_size)` -/
def growCapacity (byteSize minByteSize : Nat) : Nat :=
  let b := if byteSize < kMinAllocSize then kMinAllocSize else if byteSize < 512 then 512 else byteSize
  if b < minByteSize then
    let b1 := alignUpPow2 minByteSize
    if b1 < minByteSize then minByteSize
    else if b1 > kGrowThreshold then
      let b2 := (minByteSize + minByteSize % kGrowThreshold) % u64
      if b2 < minByteSize then minByteSize else min b2 kMaxAllocSize
    else min b1 kMaxAllocSize
  else min b kMaxAllocSize

def write (s : Str) (off : Nat) (bytes : List Nat) : Option Str :=
  if off + bytes.length ≤ s.buf.length then
    some { s with buf := s.buf.take off ++ bytes ++ s.buf.drop (off + bytes.length) }
  else none

/-- `reset()` -/
def reset (_ : Str) : Str := {}

/-- `clear()` -/
def clear (s : Str) : Option Str :=
  match s.kind with
  | .small => some { s with size := 0, buf := List.replicate 7 0 ++ s.buf.drop 7 }   -- `_raw.uptr[0] = 0`
  | _ => write { s with size := 0 } 0 [0]

/-- `prepare(op, size)`: the string after the call and the offset of the returned pointer; `some none` = nullptr,
outer `none` = out-of-bounds write of the terminator -/
def prepare (s : Str) (assign : Bool) (size : Nat) : Option (Option (Str × Nat)) :=
  if assign then
    if size > s.cap then
      if size ≥ kMaxAllocSize then some none else
      let newCap := alignUp (size + 1) kMinAllocSize
      if newCap > mallocMax then some none else
      (write { kind := .large, buf := List.replicate newCap 0, size := size, cap := newCap - 1 } size [0]).map fun s' => some (s', 0)
    else (write { s with size := size } size [0]).map fun s' => some (s', 0)
  else
    if size ≥ kMaxAllocSize - s.size - 1 then some none else
    let newSize := size + s.size
    if newSize > s.cap then
      let ncp1 := growCapacity (size + 1) (newSize + 1)
      if ncp1 < newSize + 1 then some none else
      if ncp1 > mallocMax then some none else
      let nb := s.buf.take s.size ++ List.replicate (ncp1 - s.size) 0
      (write { kind := .large, buf := nb, size := newSize, cap := ncp1 - 1 } newSize [0]).map fun s' => some (s', s.size)
    else (write { s with size := newSize } newSize [0]).map fun s' => some (s', s.size)

/-- `assign(data, size)` (explicit size) -/
def assign (s : Str) (bytes : List Nat) : Option (Str × Err) :=
  let size := bytes.length
  let r : Option Str :=
    match s.kind with
    | .small =>
      if size ≤ kSSOCapacity then some { s with size := size }
      else if size + 1 > mallocMax then none
      else some { kind := .large, buf := List.replicate (size + 1) 0, size := size, cap := size }
    | _ =>
      if size ≤ s.cap then some { s with size := size }
      else
        let cp1 := alignUp (size + 1) 32
        if cp1 > mallocMax then none
        else some { kind := .large, buf := List.replicate cp1 0, size := size, cap := cp1 - 1 }
  match r with
  | none => some (s, .oom)
  | some s1 => ((write s1 0 bytes).bind fun s2 => write s2 size [0]).map fun s3 => (s3, .ok)

/-- common tail of `_op_string/_op_char/_op_chars`: prepare, then write the bytes -/
def opBytes (s : Str) (assign : Bool) (bytes : List Nat) : Option (Str × Err) :=
  match prepare s assign bytes.length with
  | none => none
  | some none => some (s, .oom)
  | some (some (s', off)) => (write s' off bytes).map fun s'' => (s'', .ok)

/-- `_op_string(op, str, size)` (repaired: empty assign clears) -/
def opString (s : Str) (assign : Bool) (bytes : List Nat) : Option (Str × Err) :=
  if bytes.isEmpty then (if assign then (clear s).map (·, .ok) else some (s, .ok)) else opBytes s assign bytes

def opChar (s : Str) (assign : Bool) (c : Nat) : Option (Str × Err) := opBytes s assign [c]

/-- `_op_chars(op, c, n)`; the byte list is only materialised when `prepare` succeeded -/
def opChars (s : Str) (assign : Bool) (c n : Nat) : Option (Str × Err) :=
  if n = 0 then (if assign then (clear s).map (·, .ok) else some (s, .ok)) else
  match prepare s assign n with
  | none => none
  | some none => some (s, .oom)
  | some (some (s', off)) => (write s' off (List.replicate n c)).map fun s'' => (s'', .ok)

def padEnd (s : Str) (n c : Nat) : Option (Str × Err) :=
  if n > s.size then opChars s false c (n - s.size) else some (s, .ok)

def baseN : List Nat := "0123456789ABCDEF".toList.map Char.toNat

/-- the digit loop `do { *--p = digit(i % base); i /= base; } while (i)` (most significant digit first) -/
def digits (base : Nat) (fuel : Nat) (i : Nat) (acc : List Nat) : List Nat :=
  match fuel with
  | 0 => acc
  | fuel + 1 =>
    let acc' := baseN.getD (i % base) 0 :: acc
    if i / base = 0 then acc' else digits base fuel (i / base) acc'

def kShowSign : Nat := 1
def kShowSpace : Nat := 2
def kAlternate : Nat := 4
def kSigned : Nat := 0x80000000

/-- the text `_op_number` produces (prefix, zero padding, digits); `none` = `kInvalidArgument` -/
def numberText (i base0 width flags : Nat) : Option (List Nat) :=
  let base := if base0 = 0 then 10 else base0
  let neg := flags &&& kSigned ≠ 0 ∧ i ≥ 2 ^ 63
  let v := if neg then (u64 - i) % u64 else i
  let sign : Option Nat := if neg then some 45 else if flags &&& kShowSign ≠ 0 then some 43
                           else if flags &&& kShowSpace ≠ 0 then some 32 else none
  if base ≠ 2 ∧ base ≠ 8 ∧ base ≠ 10 ∧ base ≠ 16 then none else
  let ds := digits base 64 v []
  let alt : List Nat :=
    if flags &&& kAlternate ≠ 0 then
      (if base = 8 ∧ i ≠ 0 then [48] else []) ++ (if base = 16 then [48, 120] else [])
    else []
  -- buffer order: sign, then "0x"/"0", then the digits; `alt` for base 16 is pushed 'x' then '0'
  let prefix_ := (match sign with | some c => [c] | none => []) ++ alt
  let w := min width 256
  let pad := if w ≤ ds.length then 0 else w - ds.length
  some (prefix_ ++ List.replicate pad 48 ++ ds)

/-- `_op_number(op, i, base, width, flags)` -/
def opNumber (s : Str) (assign : Bool) (i base width flags : Nat) : Option (Str × Err) :=
  match numberText i base width flags with
  | none => some (s, .invalidArgument)
  | some t => opBytes s assign t

/-- `_op_hex(op, data, size, separator)` (`sep = 0`: none) -/
def opHex (s : Str) (assign : Bool) (bytes : List Nat) (sep : Nat) : Option (Str × Err) :=
  if bytes.isEmpty then (if assign then (clear s).map (·, .ok) else some (s, .ok)) else
  let hx (b : Nat) : List Nat := [baseN.getD (b / 16 % 16) 0, baseN.getD (b % 16) 0]
  let t := if sep ≠ 0 then (bytes.map hx).intersperse [sep] |>.flatten else (bytes.map hx).flatten
  opBytes s assign t

/-- `_op_vformat(op, fmt, ap)` WITHOUT the formatting itself: `vsnprintf` is an oracle that produces the byte string `out`
(no NUL inside, length = its return value) and, given a buffer of `n` bytes, stores `out.take (n - 1)` and a terminator.
Modelled: which buffer is handed to it, how the size is updated, the fallback through the 1024-byte stack buffer and
`prepare`.  REPAIRED code (fixes/C18-6.patch): the in-place call passes `remaining_capacity + 1` bytes; fixes/C18-10.patch: a failing
`prepare` after an in-place overflow leaves a well-formed string. -/
def opFormat (s : Str) (assign : Bool) (out : List Nat) : Option (Str × Err) :=
  let startAt := if assign then 0 else s.size
  let remaining := s.cap - startAt
  -- `inPlace`: the in-place attempt has already overwritten the buffer from `start_at` on; REPAIRED code
  -- (fixes/C18-10.patch): when `prepare` then fails, an append restores the terminator at `start_at`, an assign clears
  let viaPrepare (s0 : Str) (inPlace : Bool) : Option (Str × Err) :=
    match prepare s0 assign out.length with
    | none => none
    | some none =>
      if inPlace then
        (if assign then (clear s0).map (·, .oom) else (write s0 startAt [0]).map (·, .oom))
      else some (s0, .oom)
    | some (some (s', off)) => (write s' off (out ++ [0])).map fun s'' => (s'', .ok)
  if remaining ≥ 128 then
    -- vsnprintf(data() + start_at, remaining_capacity + 1, …)
    match write s startAt (out.take remaining ++ [0]) with
    | none => none
    | some s1 =>
      if out.length ≤ remaining then some ({ s1 with size := startAt + out.length }, .ok)
      else viaPrepare s1 true
  else
    if out.length < 1024 then opString s assign out else viaPrepare s false

/-- `truncate(new_size)` -/
def truncate (s : Str) (n : Nat) : Option Str :=
  if n < s.size then write { s with size := n } n [0] else some s

def content (s : Str) : List Nat := s.buf.take s.size
def terminated (s : Str) : Bool := s.buf.getD s.size 1 == 0

/-- `equals(other, size)` with explicit size -/
def equals (s : Str) (bytes : List Nat) : Bool := content s == bytes

end AsmjitVerif.Str
