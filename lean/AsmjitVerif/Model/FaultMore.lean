/-
C15 - more allocating operations under the fault oracle (`Fault.Oracle`: one flag per allocation request):

* `hashInsertF`  : `ArenaHashBase::_insert` + `_rehash` (support/arenahash.cpp) on C18's `Hash.Table` - the node is linked first,
                   the bucket array of the next prime is requested afterwards; a failed request is TOLERATED (the table keeps
                   working with the old array).
* `bitsResizeF`  : `ArenaBitSet::_resize` (support/arenabitset.cpp) on C18's `Bits.BitSet` - one request iff the new size exceeds
                   the capacity; a failed request answers kOutOfMemory before anything is written.
* `newBlockF`    : `JitAllocator_new_block` (core/jitallocator.cpp) with `VirtMem::alloc` / `alloc_dual_mapping_using_file`
                   (core/virtmem.cpp) as a RESOURCE model: live mappings, open descriptors, heap records.  Requests in the order
                   of the C++: dual mapping = memfd_create, ftruncate, mmap(rx), mmap(rw) [descriptor closed when
                   `AnonymousMemory` goes out of scope], then malloc of the block record; plain = mmap, malloc.  Every failure
                   path performs the roll-back the C++ performs.
* `jitAddF`      : `JitRuntime::_add` as far as resources go: the span is allocated (possibly `newBlockF`), `relocate_to_base`
                   may fail (its `reserve_buffer` is one heap request), then the span is released again.
Core-only imports.
-/
import AsmjitVerif.Model.Hash
import AsmjitVerif.Model.Bits
import AsmjitVerif.Model.Fault
namespace AsmjitVerif.FaultMore
open AsmjitVerif AsmjitVerif.Fault

/-! ## ArenaHash -/

/-- the table after `node->_hash_next = _data[m]; _data[m] = node; ++_size` -/
def hashLink (t : Hash.Table) (n : Hash.Node) : Hash.Table :=
  { t with buckets := t.buckets.modify (Hash.calcMod t n.hash) (fun c => n :: c), size := t.size + 1 }

/-- `_insert(arena, node)` under the oracle; `Bool` = a rehash was requested and refused -/
def hashInsertF (o : Oracle) (a : Arena.State) (t : Hash.Table) (n : Hash.Node) : Oracle × Arena.State × Hash.Table × Bool :=
  let t1 := hashLink t n
  if t1.size > t1.grow then
    let pi := min (t1.primeIndex + 2) (Hash.primeCount - 1)
    if pi > t1.primeIndex then
      match req o with
      | (true, o1) => (o1, a, t1, true)
      | (false, o1) => let r := Hash.rehash a t1 pi; (o1, r.1, r.2, false)
    else (o, a, t1, false)
  else (o, a, t1, false)

/-! ## ArenaBitSet -/

/-- does `_resize(new_size, ideal)` call the arena? (the checks the C++ makes before `alloc_reusable`) -/
def bitsNeedsAlloc (b : Bits.BitSet) (newSize ideal : Nat) : Bool :=
  decide (b.size < newSize) && decide (newSize ≤ 0xFFFFFFC0) && decide (newSize > b.cap) &&
  decide (newSize ≤ Arena.alignUp ideal 64 % Arena.u64)

/-- `_resize` under the oracle -/
def bitsResizeF (o : Oracle) (a : Arena.State) (b : Bits.BitSet) (newSize ideal : Nat) (value : Bool) :
    Oracle × Option (Arena.State × Bits.BitSet × Bits.Err) :=
  if bitsNeedsAlloc b newSize ideal then
    match req o with
    | (true, o1) => (o1, some (a, b, .oom))
    | (false, o1) => (o1, Bits.resizeI a b newSize ideal value)
  else (o, Bits.resizeI a b newSize ideal value)

/-! ## JitAllocator_new_block / JitRuntime::_add: resources -/

structure Res where
  maps : Nat := 0      -- live mappings
  fds : Nat := 0       -- open descriptors
  heap : Nat := 0      -- live block records
  deriving DecidableEq, Repr, Inhabited

/-- `alloc_dual_mapping_using_file`: (oracle, resources, success) -/
def dualMapF (o : Oracle) (r : Res) : Oracle × Res × Bool :=
  match req o with                                   -- memfd_create / shm_open
  | (true, o1) => (o1, r, false)
  | (false, o1) =>
    let r1 := { r with fds := r.fds + 1 }
    match req o1 with                                -- ftruncate
    | (true, o2) => (o2, { r1 with fds := r1.fds - 1 }, false)            -- ~AnonymousMemory closes
    | (false, o2) =>
      match req o2 with                              -- mmap rx
      | (true, o3) => (o3, { r1 with fds := r1.fds - 1 }, false)
      | (false, o3) =>
        let r2 := { r1 with maps := r1.maps + 1 }
        match req o3 with                            -- mmap rw
        | (true, o4) => (o4, { r2 with maps := r2.maps - 1, fds := r2.fds - 1 }, false)   -- unmap_memory(ptr[0]); close
        | (false, o4) => (o4, { r2 with maps := r2.maps + 1, fds := r2.fds - 1 }, true)

/-- `JitAllocator_new_block(pool, block_size)` -/
def newBlockF (dual : Bool) (o : Oracle) (r : Res) : Oracle × Res × Bool :=
  let m : Oracle × Res × Bool :=
    if dual then dualMapF o r
    else match req o with                            -- VirtMem::alloc = mmap
      | (true, o1) => (o1, r, false)
      | (false, o1) => (o1, { r with maps := r.maps + 1 }, true)
  if m.2.2 = false then m
  else match req m.1 with                            -- malloc(sizeof(JitAllocatorBlock) + bit vectors)
    | (true, o2) => (o2, { m.2.1 with maps := m.2.1.maps - (if dual then 2 else 1) }, false)   -- release(_dual_mapping)
    | (false, o2) => (o2, { m.2.1 with heap := m.2.1.heap + 1 }, true)

/-- `JitRuntime::_add` (resources): `needBlock` = the allocator has no block with room; `relocAllocs` = `relocate_to_base`
has to grow the address table buffer.  Returns the live spans too. -/
def jitAddF (dual needBlock relocAllocs : Bool) (o : Oracle) (r : Res) (spans : Nat) : Oracle × Res × Nat × Bool :=
  let b : Oracle × Res × Bool := if needBlock then newBlockF dual o r else (o, r, true)
  if b.2.2 = false then (b.1, b.2.1, spans, false)
  else
    let spans1 := spans + 1                          -- `_allocator.alloc(span)`
    if relocAllocs then
      match req b.1 with                             -- `reserve_buffer` of the address table section
      | (true, o2) => (o2, b.2.1, spans1 - 1, false)      -- `_allocator.release(span.rx())`
      | (false, o2) => (o2, b.2.1, spans1, true)
    else (b.1, b.2.1, spans1, true)

end AsmjitVerif.FaultMore
