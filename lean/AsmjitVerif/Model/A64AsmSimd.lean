/-
Third wave of the hand model of `a64::Assembler::_emit`: the SIMD classes that end in the shared
`EmitOp_Rd0_Rn5[_Rm16[_Ra10]]` tails and select their size bits through `element_type_to_size_op` (ISimdVV, ISimdVVV,
ISimdVVVV, ISimdVVx, ISimdVVVx) or `pick_fp_opcode` (FSimdVV, FSimdVVV, FSimdVVVV).
Follows the repaired code (fixes/C02-1..11: bounds in element_type_to_size_op, element-index mask at the tails,
long/narrow signature matching).  Core-only imports.
-/
import AsmjitVerif.Model.A64AsmMem
namespace AsmjitVerif.A64Asm
open AsmjitVerif.A64
open AsmjitVerif.Gen.A64Tables

def flagPair : Nat := 2
def flagLong : Nat := 4
def flagNarrow : Nat := 8

/-- operand signature bits of a register (core/operand.h + a64operand.h): type signature | element type << 12 | flag << 15 | index << 16 -/
def regSignatureOf (r : Reg) : Nat :=
  (match regSignature[r.rt]? with | some s => s.value | none => 0) ||| (r.et <<< 12) ||| ((if r.hasIdx then 1 else 0) <<< 15) ||| (r.idx <<< 16)

/-- `match_wide_narrow` of fixes/C02-9.patch (a plain D register stands for `.1D`) -/
def matchWideNarrow (w n : Reg) (pairwise : Bool) : Bool :=
  if !w.isVec || !n.isVec then false else
  if n.et == 0 then w.et == 0 && w.rt == n.rt + 1 else
  if n.et > 4 then false else
  let wideElem := if n.et < 4 then n.et + 1 else 0
  let plainD := w.rt == rtVec64 && w.et == 0 && wideElem == 4
  if w.et != wideElem && !plainD then false else
  if pairwise then w.rt == n.rt && wideElem != 0 else w.rt == rtVec128

/-- `match_signature(o0, o1, inst_flags)`: in the original source long / narrow instructions are not validated ("TODO");
the repaired source (fixes/C02-9.patch, detected by the translator) matches wide against narrow operand -/
def matchSignature2 (o0 o1 : Reg) (flags : Nat) : Bool :=
  if flags &&& (flagLong ||| flagNarrow) == 0 then o0.sameSig o1 else
  if srcMatchWideNarrow == 0 then true else
  let pw := flags &&& flagPair != 0
  if flags &&& flagLong != 0 then matchWideNarrow o0 o1 pw else matchWideNarrow o1 o0 pw

/-- `element_type_to_size_op`: `none` = invalid -/
def sizeOpOf (voType : Nat) (r : Reg) : Option Nat :=
  match sizeOpMap[voType]? with
  | none => none
  | some m =>
    let regIndex := (r.rt + 2 ^ 32 - rtVec8) % 2 ^ 32
    if regIndex > 4 then none else
    match sizeOpTable[m.table_id * 40 + (regIndex * 8 + r.et % 8)]? with
    | none => none
    | some e =>
      if e.value == 0xFF || (m.accept_mask >>> e.value) % 2 == 0 then none else some (e.value &&& m.size_op_mask)

def soQ (v : Nat) : Nat := v % 2
def soScalar (v : Nat) : Nat := (v >>> 1) % 2
def soQS (v : Nat) : Nat := (v ||| (v >>> 1)) % 2
def soSize (v : Nat) : Nat := (v >>> 2) % 4

/-- `check_valid_regs` for one operand -/
def validReg (r : Reg) : Bool :=
  r.id < 31 || r.id == (match commonHiRegId[r.rt]? with | some h => h.value | none => 0)

def idxBit (r : Reg) (k : Nat) : Nat := if r.hasIdx then 2 ^ k else 0

/-- `EmitOp_Rd0_Rn5` (element index refused unless consumed: `indexed_ops`) -/
def tailRd0Rn5 (opcode : BitVec 32) (o0 o1 : Reg) (indexed : Nat) : Result :=
  if (idxBit o0 0 ||| idxBit o1 1) &&& (15 - indexed % 16) != 0 then invalidInstruction else
  if !(validReg o0 && validReg o1) then invalidPhysId else
  ok1 (opcode ||| addReg o0.id 0 ||| addReg o1.id 5)

def tailRd0Rn5Rm16 (opcode : BitVec 32) (o0 o1 o2 : Reg) (indexed : Nat) : Result :=
  if (idxBit o0 0 ||| idxBit o1 1 ||| idxBit o2 2) &&& (15 - indexed % 16) != 0 then invalidInstruction else
  if !(validReg o0 && validReg o1 && validReg o2) then invalidPhysId else
  ok1 (opcode ||| addReg o0.id 0 ||| addReg o1.id 5 ||| addReg o2.id 16)

def tailRd0Rn5Rm16Ra10 (opcode : BitVec 32) (o0 o1 o2 o3 : Reg) : Result :=
  if (idxBit o0 0 ||| idxBit o1 1 ||| idxBit o2 2 ||| idxBit o3 3) != 0 then invalidInstruction else
  if !(validReg o0 && validReg o1 && validReg o2 && validReg o3) then invalidPhysId else
  ok1 (opcode ||| addReg o0.id 0 ||| addReg o1.id 5 ||| addReg o2.id 16 ||| addReg o3.id 10)

def sizeBits (so : Nat) : BitVec 32 := addImm (soQS so) 30 ||| addImm (soScalar so) 28 ||| addImm (soSize so) 22

def emitISimdVV (opcode voType flags : Nat) (o0 o1 : Reg) : Result :=
  let sop := if flags &&& flagLong == 0 then o0 else o1
  if !matchSignature2 o0 o1 flags then invalidInstruction else
  match sizeOpOf voType sop with
  | none => invalidInstruction
  | some so => tailRd0Rn5 (w32 opcode ||| sizeBits so) o0 o1 0

def emitISimdVVV (opcode voType flags : Nat) (o0 o1 o2 : Reg) : Result :=
  let sop := if flags &&& flagLong == 0 then o0 else o1
  if !(matchSignature2 o0 o1 flags && o1.sameSig o2) then invalidInstruction else
  match sizeOpOf voType sop with
  | none => invalidInstruction
  | some so => tailRd0Rn5Rm16 (w32 opcode ||| sizeBits so) o0 o1 o2 0

def emitISimdVVVV (opcode voType flags : Nat) (o0 o1 o2 o3 : Reg) : Result :=
  let sop := if flags &&& flagLong == 0 then o0 else o1
  if !(matchSignature2 o0 o1 flags && o1.sameSig o2 && o2.sameSig o3) then invalidInstruction else
  match sizeOpOf voType sop with
  | none => invalidInstruction
  | some so => tailRd0Rn5Rm16Ra10 ((w32 opcode <<< 10) ||| sizeBits so) o0 o1 o2 o3

def emitISimdVVx (d : ISimdVVxRow) (o0 o1 : Reg) : Result :=
  if regSignatureOf o0 != d.op0_signature || regSignatureOf o1 != d.op1_signature then invalidInstruction else
  tailRd0Rn5 (w32 d.opcode) o0 o1 0

def emitISimdVVVx (d : ISimdVVVxRow) (o0 o1 o2 : Reg) : Result :=
  if regSignatureOf o0 != d.op0_signature || regSignatureOf o1 != d.op1_signature || regSignatureOf o2 != d.op2_signature then invalidInstruction else
  tailRd0Rn5Rm16 (w32 d.opcode) o0 o1 o2 0

/-- `sz_bits_table` of `pick_fp_opcode`: (size_mask, mask[0..2]) per kHF_N, kHF_0, kHF_A, kHF_B, kHF_C, kHF_D -/
def fpSzBits (hf : Nat) : Nat × Nat × Nat × Nat :=
  match hf with
  | 0 => (6, 0, 0, 2 ^ 22)
  | 1 => (7, 0, 0, 0)
  | 2 => (7, 2 ^ 23 + 2 ^ 22, 0, 2 ^ 22)
  | 3 => (7, 2 ^ 22 + 2 ^ 20 + 2 ^ 19, 0, 2 ^ 22)
  | 4 => (7, 2 ^ 22 + 2 ^ 21 + 2 ^ 15 + 2 ^ 14, 0, 2 ^ 22)
  | _ => (7, 2 ^ 23, 0, 2 ^ 22)

def fpMask (t : Nat × Nat × Nat × Nat) (sz : Nat) : Nat := if sz == 0 then t.2.1 else if sz == 1 then t.2.2.1 else t.2.2.2

/-- `pick_fp_opcode` -/
def pickFpOpcode (r : Reg) (sOp sHf vOp vHf : Nat) : Option (BitVec 32) :=
  if r.et == 0 then
    let sz := (r.rt + 2 ^ 32 - rtVec16) % 2 ^ 32
    let t := fpSzBits sHf
    if sz > 2 || (t.1 >>> sz) % 2 == 0 then none else
    if sOp == 0 then none else some (w32 (fpMask t sz) ^^^ w32 sOp)
  else
    let q := (r.rt + 2 ^ 32 - rtVec64) % 2 ^ 32
    let sz := (r.et + 2 ^ 32 - 2) % 2 ^ 32
    let t := fpSzBits vHf
    if q > 1 || sz > 2 || (t.1 >>> sz) % 2 == 0 then none else
    if vOp == 0 then none else some (w32 (fpMask t sz) ^^^ (w32 vOp ||| addImm q 30))

def emitFSimdVV (d : FSimdVVRow) (flags : Nat) (o0 o1 : Reg) : Result :=
  if !matchSignature2 o0 o1 flags then invalidInstruction else
  match pickFpOpcode o0 d.scalar_op d.scalar_hf d.vector_op d.vector_hf with
  | none => invalidInstruction
  | some op => tailRd0Rn5 op o0 o1 0

def emitFSimdVVV (d : FSimdVVVRow) (flags : Nat) (o0 o1 o2 : Reg) : Result :=
  if !(matchSignature2 o0 o1 flags && o1.sameSig o2) then invalidInstruction else
  match pickFpOpcode o0 d.scalar_op d.scalar_hf d.vector_op d.vector_hf with
  | none => invalidInstruction
  | some op => tailRd0Rn5Rm16 op o0 o1 o2 0

def emitFSimdVVVV (d : FSimdVVVVRow) (flags : Nat) (o0 o1 o2 o3 : Reg) : Result :=
  if !(matchSignature2 o0 o1 flags && o1.sameSig o2 && o2.sameSig o3) then invalidInstruction else
  match pickFpOpcode o0 d.scalar_op d.scalar_hf d.vector_op d.vector_hf with
  | none => invalidInstruction
  | some op => tailRd0Rn5Rm16Ra10 op o0 o1 o2 o3

def emitInst3 (r : InstRow) (rq : Request) : Result :=
  let o := rq.ops
  let enc := r.enc
  if rq.cc != 0 then notModelled
  else if enc == encISimdVV then
    match iSimdVV[r.idx]?, o with
    | some d, [.reg a, .reg b] => emitISimdVV d.opcode d.vec_op_type r.flags a b
    | _, _ => notModelled
  else if enc == encISimdVVV then
    match iSimdVVV[r.idx]?, o with
    | some d, [.reg a, .reg b, .reg c] => emitISimdVVV d.opcode d.vec_op_type r.flags a b c
    | _, _ => notModelled
  else if enc == encISimdVVVV then
    match iSimdVVVV[r.idx]?, o with
    | some d, [.reg a, .reg b, .reg c, .reg e] => emitISimdVVVV d.opcode d.vec_op_type r.flags a b c e
    | _, _ => notModelled
  else if enc == encISimdVVx then
    match iSimdVVx[r.idx]?, o with
    | some d, [.reg a, .reg b] => emitISimdVVx d a b
    | _, _ => notModelled
  else if enc == encISimdVVVx then
    match iSimdVVVx[r.idx]?, o with
    | some d, [.reg a, .reg b, .reg c] => emitISimdVVVx d a b c
    | _, _ => notModelled
  else if enc == encFSimdVV then
    match fSimdVV[r.idx]?, o with
    | some d, [.reg a, .reg b] => emitFSimdVV d r.flags a b
    | _, _ => notModelled
  else if enc == encFSimdVVV then
    match fSimdVVV[r.idx]?, o with
    | some d, [.reg a, .reg b, .reg c] => emitFSimdVVV d r.flags a b c
    | _, _ => notModelled
  else if enc == encFSimdVVVV then
    match fSimdVVVV[r.idx]?, o with
    | some d, [.reg a, .reg b, .reg c, .reg e] => emitFSimdVVVV d r.flags a b c e
    | _, _ => notModelled
  else notModelled

/-- all three waves: `a64::Assembler::_emit` on a fresh code holder -/
def emitFull (rq : Request) : Result :=
  match emitAll rq with
  | .err "NotModelled" =>
    (match instTable[rq.inst]? with
     | some r => if rq.inst == 0 then notModelled else emitInst3 r { rq with ops := (rq.ops.reverse.dropWhile (· == .none)).reverse }
     | none => notModelled)
  | res => res

end AsmjitVerif.A64Asm
