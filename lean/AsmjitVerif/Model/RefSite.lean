/-
Model of the reference sites of the two assemblers: the label / absolute-target branches of
  x86::Assembler::_emit  (asmjit/x86/x86assembler.cpp): EmitJmpCall, EmitJmpCallRel, EmitRel,
                          EmitModSib `[LABEL|RIP + DISP32]` (64-bit) and EmitModSib_LabelRip_X86 (32-bit),
  a64::Assembler::_emit  (asmjit/arm/a64assembler.cpp): EmitOp_Rel, EmitOp_DispImm,
over a menu of instruction *shapes*: the bytes that are not the displacement field are opaque parameters
(they are C01/C02's business); the correspondence compares them byte for byte with the real encoder.
Core-only imports.
-/
import AsmjitVerif.Model.CodeHolder
namespace AsmjitVerif.CodeHolder
open AsmjitVerif.Offset

/-- shape of a jmp/jcc/call/jecxz/loop instruction -/
structure JShape where
  pre  : Bytes                 -- bytes emitted before `ip` is taken (e.g. 67h of jecxz in 64-bit mode)
  op8  : Option (BitVec 8)     -- `alt_opcode_of(inst_info)`: opcode of the rel8 form (none = 0)
  op32 : Bytes                 -- [0F] opcode of the rel32 form; [] = `opcode.v == 0` (no rel32 form)
  jmpOrCall : Bool             -- `is_jmp_or_call(inst_id)`
  deriving Repr, Inhabited

inductive FormOpt where
  | dflt | short | long
  deriving DecidableEq, Repr, Inhabited

def isInt8of32 (x : BitVec 32) : Bool := (x.truncate 8).signExtend 32 == x

def fmtS (n : Nat) : OffsetFormat := simpleValue .signed n

/-- `EmitJmpCallRel`: displacement known at assembly time, choose rel8 / rel32 -/
def emitJmpCallRel (s : State) (sh : JShape) (opt : FormOpt) (rel32 : BitVec 32) : State × Err :=
  let inst8 := 2
  let inst32 := sh.op32.length + 4
  let r8 : BitVec 32 := rel32 + BitVec.ofNat 32 inst32 - BitVec.ofNat 32 inst8
  match sh.op8 with
  | some o8 =>
    if isInt8of32 r8 ∧ opt ≠ .long then (s.emit (sh.pre ++ [o8, r8.truncate 8]), .ok)
    else if sh.op32 = [] ∨ opt = .short then (s, .invalidDisplacement)
    else (s.emit (sh.pre ++ sh.op32 ++ leBytes rel32.toNat 4), .ok)
  | none =>
    if sh.op32 = [] ∨ opt = .short then (s, .invalidDisplacement)
    else (s.emit (sh.pre ++ sh.op32 ++ leBytes rel32.toNat 4), .ok)

/-- `EmitJmpCall`, `rm_rel->is_label()` branch -/
def x86JmpLabel (s : State) (sh : JShape) (opt : FormOpt) (l : Nat) : State × Err :=
  match s.labels[l]? with
  | none => (s, .invalidLabel)
  | some le =>
    let ip := s.curOff + sh.pre.length
    let inst32 := sh.op32.length + 4
    let here : Option (BitVec 64) := match le with
      | .bound sec off => if sec = s.cur then some off else none
      | .unbound _ => none
    match here with
    | some off =>
      -- "Label bound to the current section." (repaired, fixes/C03-3.patch: range test in 64-bit mode; the pinned code
      -- truncated `& 0xFFFFFFFF` unchecked, wrong for sections larger than 2 GiB)
      let rel64 : BitVec 64 := off - BitVec.ofNat 64 ip - BitVec.ofNat 64 inst32
      if !s.arch.is32 && !isInt32 rel64 then (s, .invalidDisplacement) else
      emitJmpCallRel s sh opt (rel64.truncate 32)
    | none =>
      -- "Non-bound label or label bound to a different section."
      match sh.op8 with
      | some o8 =>
        if sh.op32 = [] ∨ opt = .short then
          let s1 := s.emit (sh.pre ++ [o8])
          let s2 := newFixup s1 l { sec := s.cur, lr := none, offset := ip + 1, rel := BitVec.ofInt 64 (-1), fmt := fmtS 1 }
          (s2.emit (zeros 1), .ok)
        else
          let s1 := s.emit (sh.pre ++ sh.op32)
          let s2 := newFixup s1 l { sec := s.cur, lr := none, offset := ip + sh.op32.length, rel := BitVec.ofInt 64 (-4), fmt := fmtS 4 }
          (s2.emit (zeros 4), .ok)
      | none =>
        if sh.op32 = [] ∨ opt = .short then (s, .invalidDisplacement)
        else
          let s1 := s.emit (sh.pre ++ sh.op32)
          let s2 := newFixup s1 l { sec := s.cur, lr := none, offset := ip + sh.op32.length, rel := BitVec.ofInt 64 (-4), fmt := fmtS 4 }
          (s2.emit (zeros 4), .ok)

/-- `EmitterUtils::is_absolute_location(base, section_offset)` for the current section -/
def absLocation (s : State) : Option (BitVec 64 × BitVec 64) :=
  let so := secOffset s.secs s.cur
  if s.base ≠ noBase ∧ so ≠ BitVec.allOnes 64 then some (s.base, so) else none

/-- `EmitJmpCall`, `rm_rel->is_imm()` branch (jump / call to an absolute address) -/
def x86JmpAbs (s : State) (sh : JShape) (opt : FormOpt) (target : BitVec 64) : State × Err :=
  let ip := s.curOff + sh.pre.length
  let inst32 := sh.op32.length + 4
  let direct : Option (BitVec 32) ⊕ Unit :=
    match absLocation s with
    | some (base, so) =>
      let rel64 := target - (BitVec.ofNat 64 ip + base + so) - BitVec.ofNat 64 inst32
      if s.arch.is32 ∨ isInt32 rel64 then .inl (some (rel64.truncate 32))
      else if !sh.jmpOrCall then .inr () else .inl none
    | none => .inl none
  match direct with
  | .inr () => (s, .invalidDisplacement)
  | .inl (some rel32) => emitJmpCallRel s sh opt rel32
  | .inl none =>
    let re : Reloc := { type := .absToRel, fmt := fmtS 4, regionSize := 0, srcSec := s.cur, tgtSec := none,
                        srcOff := s.curOff, payload := target }
    if sh.op32 ≠ [] then
      if s.arch = .x64 ∧ sh.jmpOrCall then
        -- 64-bit jmp/call: bare REX so that the relocator can rewrite to FF /2|/4, target registered in the address table
        let lead := sh.pre ++ [0x40#8] ++ sh.op32
        let re1 := { re with type := .x64AddressEntry, fmt := { fmtS 4 with valueOffset := lead.length }, regionSize := lead.length + 4 }
        let (s1, _) := newReloc (addAddress s target) re1
        (s1.emit (lead ++ zeros 4), .ok)
      else
        let lead := sh.pre ++ sh.op32
        let re1 := { re with fmt := { fmtS 4 with valueOffset := lead.length }, regionSize := lead.length + 4 }
        let (s1, _) := newReloc s re1
        (s1.emit (lead ++ zeros 4), .ok)
    else
      match sh.op8 with
      | some o8 =>
        let lead := sh.pre ++ [o8]
        let re1 := { re with fmt := { fmtS 1 with valueOffset := lead.length }, regionSize := lead.length + 1 }
        let (s1, _) := newReloc s re1
        (s1.emit (lead ++ zeros 1), .ok)
      | none => (s, .invalidInstruction)

/-- shape of an instruction with a `[label + disp]` memory operand -/
structure MShape where
  lead : Bytes     -- prefixes, opcode, ModRM (mod = 00, rm = 101)
  imm  : Bytes     -- trailing immediate
  deriving Repr, Inhabited

/-- `EmitModSib`, `[LABEL + DISP32]`: RIP-relative in 64-bit mode, `[LABEL->ABS]` with a RelToAbs relocation in 32-bit mode -/
def x86MemLabel (s : State) (sh : MShape) (l : Nat) (disp : BitVec 32) : State × Err :=
  match s.labels[l]? with
  | none => (s, .invalidLabel)
  | some le =>
    let fieldPos := s.curOff + sh.lead.length
    if s.arch.is32 then
      let fmt : OffsetFormat := { simpleValue .unsigned 4 with valueOffset := sh.lead.length }
      let re : Reloc := { type := .relToAbs, fmt := fmt, regionSize := sh.lead.length + 4 + sh.imm.length, srcSec := s.cur,
                          tgtSec := none, srcOff := s.curOff, payload := disp.signExtend 64, gl := some (l, disp.signExtend 64) }
      match le with
      | .bound lsec loff =>
        let (s1, _) := newReloc s { re with payload := re.payload + loff, tgtSec := some lsec }
        (s1.emit (sh.lead ++ zeros 4 ++ sh.imm), .ok)
      | .unbound _ =>
        let (s1, rid) := newReloc s re
        let s2 := s1.emit sh.lead
        let s3 := newFixup s2 l { sec := s.cur, lr := some rid, offset := fieldPos,
                                  rel := BitVec.ofInt 64 (-4 - (sh.imm.length : Int)), fmt := fmtS 4 }
        (s3.emit (zeros 4 ++ sh.imm), .ok)
    else
      -- (as repaired upstream: the arithmetic is done in 64 bits and range-tested instead of wrapping in int32)
      let rel64 : BitVec 64 := disp.signExtend 64 - BitVec.ofNat 64 (4 + sh.imm.length)
      let here : Option (BitVec 64) := match le with
        | .bound sec off => if sec = s.cur then some off else none
        | .unbound _ => none
      match here with
      | some off =>
        let rel := rel64 + (off - BitVec.ofNat 64 fieldPos)
        if !isInt32 rel then (s, .invalidDisplacement) else
        (s.emit (sh.lead ++ leBytes (rel.truncate 32).toNat 4 ++ sh.imm), .ok)
      | none =>
        if !isInt32 rel64 then (s, .invalidDisplacement) else
        let s1 := s.emit sh.lead
        let s2 := newFixup s1 l { sec := s.cur, lr := none, offset := fieldPos, rel := rel64, fmt := fmtS 4 }
        (s2.emit (zeros 4 ++ sh.imm), .ok)

/-! ### `[ABSOLUTE | DISP32]` memory operands (no base, no index, no label) -/

/-- `Mem::AddrType` -/
inductive AddrT where
  | dflt | abs | rel
  deriving DecidableEq, Repr, Inhabited

/-- shape of an instruction with an absolute memory operand: mandatory prefix (66h), REX, opcode bytes, ModRM.reg, immediate -/
structure AShape where
  pp    : Bytes
  rex   : Option (BitVec 8)
  opc   : Bytes
  opReg : BitVec 8
  imm   : Bytes
  isLea : Bool
  moffs : Option (BitVec 8 × Nat) := none   -- `mov al|ax|eax|rax <-> [moffs]`: opcode A0..A3 of the ModRM-less form, register size
  seg   : Option (BitVec 8) := none         -- FS / GS segment override prefix (64h / 65h), emitted first (`emit_segment_override`)
  deriving Repr, Inhabited

def modrm (mod reg rm : BitVec 8) : BitVec 8 := (mod <<< 6) ||| (reg <<< 3) ||| rm
def rexBytes : Option (BitVec 8) → Bytes
  | some r => [r] | none => []

/-- `x86_should_use_movabs` (no ModMR/ModRM option in the menu); `hasSeg` = `rm_rel.has_segment()` -/
def shouldUseMovabs (s : State) (regSize : Nat) (at_ : AddrT) (addr : BitVec 64) (hasSeg : Bool := false) : Bool :=
  if s.arch.is32 then true else
  if at_ = .rel then false else
  let addrI32 : Bool := (addr.truncate 32 : BitVec 32).signExtend 64 == addr
  let direct : Bool :=
    match (if at_ = .dflt ∧ hasSeg = false then absLocation s else none) with
    | some (base, so) =>
      let instSize := (if regSize = 2 then 1 else 0) + (if regSize = 8 then 1 else 0) + 1 + 8
      isInt32 (addr - (base + so + BitVec.ofNat 64 s.curOff + BitVec.ofNat 64 instSize))
    | none => addrI32
  if direct then false else decide (addr.toNat > 0xFFFFFFFF)

/-- `EmitModSib`, `[ABSOLUTE | DISP32]` branch (x86assembler.cpp): 32-bit mode `[disp32]`; 64-bit mode the choice between
`[rip + rel32]` (direct when the base is known and the target is in range, else a kAbsToRel relocation whose region ends
after the trailing immediate) and the absolute `[disp32]` SIB form with the 67h / REX.W fix-up for addresses that are only
representable zero-extended -/
def x86MemAbsM (s : State) (sh : AShape) (at_ : AddrT) (addr : BitVec 64) : State × Err :=
  let lo : BitVec 32 := addr.truncate 32
  if s.arch.is32 then
    if at_ = .rel then (s, .invalidAddress) else
    (s.emit (rexBytes sh.seg ++ sh.pp ++ sh.opc ++ [modrm 0 sh.opReg 5] ++ leBytes lo.toNat 4 ++ sh.imm), .ok)
  else
    let isI32 : Bool := lo.signExtend 64 == addr
    let isU32 : Bool := lo.zeroExtend 64 == addr
    let at1 : AddrT :=
      if at_ = .dflt then
        match absLocation s with
        | some _ => if isI32 || isU32 then .abs else .rel
        | none => if sh.seg.isSome || (sh.isLea && (isI32 || isU32)) then .abs else .rel      -- "Prefer absolute addressing mode if FS|GS segment override is present."
      else at_
    let leadRel := rexBytes sh.seg ++ sh.pp ++ rexBytes sh.rex ++ sh.opc ++ [modrm 0 sh.opReg 5]
    let absForm : State × Err :=
      if !isI32 && !isU32 then (s, .invalidAddress64Bit) else
      let pre : Bytes :=
        if isI32 then sh.pp ++ rexBytes sh.rex
        else if sh.isLea then
          -- "LEA: Remove REX.W, if present" (and the whole prefix when nothing else is left in it)
          match sh.rex with
          | some r => let r' := r &&& 0xF7#8; if r' = 0x40#8 then sh.pp else sh.pp ++ [r']
          | none => sh.pp
        else [0x67#8] ++ sh.pp ++ rexBytes sh.rex             -- "Insert address-size override prefix."
      (s.emit (rexBytes sh.seg ++ pre ++ sh.opc ++ [modrm 0 sh.opReg 4, 0x25#8] ++ leBytes lo.toNat 4 ++ sh.imm), .ok)
    if at1 = .rel then
      match absLocation s with
      | none =>
        let re : Reloc := { type := .absToRel, fmt := { fmtS 4 with valueOffset := leadRel.length },
                            regionSize := leadRel.length + 4 + sh.imm.length, srcSec := s.cur, tgtSec := none,
                            srcOff := s.curOff, payload := addr }
        let (s1, _) := newReloc s re
        (s1.emit (leadRel ++ zeros 4 ++ sh.imm), .ok)
      | some (base, so) =>
        let virtualOffset := s.curOff + (rexBytes sh.seg ++ sh.pp ++ rexBytes sh.rex ++ sh.opc).length + sh.imm.length + 5
        let rel64 := addr - (base + so + BitVec.ofNat 64 virtualOffset)
        if isInt32 rel64 then (s.emit (leadRel ++ leBytes (rel64.truncate 32).toNat 4 ++ sh.imm), .ok)
        else if at_ = .rel then (s, .invalidAddress)
        else absForm
    else absForm

/-- `mov` with the accumulator and an absolute operand: the ModRM-less `A0..A3 moffs` form when `x86_should_use_movabs` says so
(`EmitX86OpMovAbs`: the address is emitted with `register_size()` bytes), else the ordinary ModRM path -/
def x86MemAbs (s : State) (sh : AShape) (at_ : AddrT) (addr : BitVec 64) : State × Err :=
  match sh.moffs with
  | some mo =>
    if shouldUseMovabs s mo.2 at_ addr sh.seg.isSome then
      (s.emit (rexBytes sh.seg ++ sh.pp ++ rexBytes sh.rex ++ [mo.1] ++ leBytes addr.toNat s.arch.regSize), .ok)
    else x86MemAbsM s sh at_ addr
  | none => x86MemAbsM s sh at_ addr

/-! ### AArch64 -/

inductive A64Kind where
  | imm26 | imm19 | imm14 | adr | adrp
  deriving DecidableEq, Repr, Inhabited

/-- the `offset_format.reset_to_imm_value(...)` of the callers of EmitOp_Rel -/
def A64Kind.fmt : A64Kind → OffsetFormat
  | .imm26 => immValue .signed 4 0 26 2
  | .imm19 => immValue .signed 4 5 19 2
  | .imm14 => immValue .signed 4 5 14 2
  | .adr   => immValue .a64Adr 4 5 21 0
  | .adrp  => immValue .a64Adrp 4 5 21 12

/-- `EmitOp_DispImm` (a second implementation of the field encoder inside the assembler) -/
def dispImm (f : OffsetFormat) (v : BitVec 64) (opcode : BitVec 32) : Option (BitVec 32) :=
  if (v &&& (lsbMask32 f.discard).zeroExtend 64) != 0#64 then none else
  let d := v.sshiftRight f.discard
  if !isEncodableOffset64 d f.bitCount then none else
  let d32 : BitVec 32 := (d &&& (lsbMask32 f.bitCount).zeroExtend 64).truncate 32
  match f.type with
  | .signed => some (opcode ||| (d32 <<< f.bitShift))
  | .a64Adr | .a64Adrp => some (opcode ||| ((d32 &&& 3#32) <<< 29) ||| ((d32 >>> 2) <<< 5))
  | _ => none

/-- `EmitOp_Rel`, label / label+offset operand -/
def a64RelLabel (s : State) (opcode : BitVec 32) (k : A64Kind) (l : Nat) (addend : BitVec 64) : State × Err :=
  match s.labels[l]? with
  | none => (s, .invalidLabel)
  | some le =>
    let here : Option (BitVec 64) := match le with
      | .bound sec off => if sec = s.cur then some off else none
      | .unbound _ => none
    match here with
    | some off =>
      let v := off - BitVec.ofNat 64 s.curOff + addend
      match dispImm k.fmt v opcode with
      | some w => (s.emit (leBytes w.toNat 4), .ok)
      | none => (s, .invalidDisplacement)
    | none =>
      let s1 := newFixup s l { sec := s.cur, lr := none, offset := s.curOff, rel := addend, fmt := k.fmt }
      (s1.emit (leBytes opcode.toNat 4), .ok)

/-- `EmitOp_Rel`, immediate operand (absolute target) -/
def a64RelAbs (s : State) (opcode : BitVec 32) (k : A64Kind) (target : BitVec 64) : State × Err :=
  match absLocation s with
  | none =>
    let re : Reloc := { type := .absToRel, fmt := k.fmt, regionSize := 4, srcSec := s.cur, tgtSec := none,
                        srcOff := s.curOff, payload := target + 4#64 }
    let (s1, _) := newReloc s re
    (s1.emit (leBytes opcode.toNat 4), .ok)
  | some (base, so) =>
    let pc0 := base + so + BitVec.ofNat 64 s.curOff
    let pc := if k = .adrp then pc0 &&& ~~~ 0xFFF#64 else pc0
    match dispImm k.fmt (target - pc) opcode with
    | some w => (s.emit (leBytes w.toNat 4), .ok)
    | none => (s, .invalidDisplacement)

end AsmjitVerif.CodeHolder
