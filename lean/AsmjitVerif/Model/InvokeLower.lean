/-
  Model of the x86 Compiler's call lowering (C06, "arguments of an `invoke` end up where the callee's convention expects them"),
  written after asmjit/x86/x86rapass.cpp

    RACFGBuilder::on_before_invoke        the argument loop, the callee-pops adjustment, `update_call_stack_size`
    RACFGBuilder::move_vec_to_ptr         by-reference vector: stack temporary + pointer
    RACFGBuilder::move_imm_to_reg_arg     immediate -> new virtual register
    RACFGBuilder::move_reg_to_reg_arg     8/16-bit register -> wider integer register parameter (fix C06-17)
    RACFGBuilder::move_imm_to_stack_arg   immediate -> stack slot (64-bit split / sign-extending shortcut)
    RACFGBuilder::move_reg_to_stack_arg   register -> stack slot with extension

  The argument locations are the `FuncValue`s of `Model/CallConv.lean` (`initFuncDetail`).  Registers of the emitted instructions are
  virtual (`id >= 1000` for the ones the lowering creates).  Core-only imports: the driver links this file.
-/
import AsmjitVerif.Model.CallConv
namespace AsmjitVerif.Invoke
open AsmjitVerif.CallConv

inductive Mnm
  | mov | movsx | movzx | movsxd | lea | movaps | movups | movd | movq | movss | movlps | and_ | sub | call | other | str | ldr | strb | strh | sxtb | sxth | sxtw | uxtb | uxth
  deriving DecidableEq, Repr

inductive XOp
  | reg (rt id : Nat)
  | mem (base : Nat) (off : Int) (size : Nat)
  | imm (v : BitVec 64)
  | unk
  deriving DecidableEq, Repr

/-- one instruction; `vex`: the AVX spelling (`vmovaps` …); `tag`: emitted by the harness before the invoke (initialisation) -/
structure XI where
  name : Mnm
  vex : Bool := false
  ops : List XOp
  tag : Bool := false
  deriving DecidableEq, Repr

/-- what the user passed for one value of an argument pack -/
inductive ArgOp
  | none
  | imm (v : BitVec 64)
  | gp (vid : Nat) (typeId : Nat)      -- a GP virtual register created with this TypeId
  | vec (vid : Nat) (typeId : Nat)     -- a vector virtual register created with this TypeId
  deriving DecidableEq, Repr

/-! ### Imm helpers (operand.h) -/
def sext8 (v : BitVec 64) : BitVec 64 := (v.truncate 8).signExtend 64
def zext8 (v : BitVec 64) : BitVec 64 := (v.truncate 8).zeroExtend 64
def sext16 (v : BitVec 64) : BitVec 64 := (v.truncate 16).signExtend 64
def zext16 (v : BitVec 64) : BitVec 64 := (v.truncate 16).zeroExtend 64
def zext32 (v : BitVec 64) : BitVec 64 := (v.truncate 32).zeroExtend 64
def sext32 (v : BitVec 64) : BitVec 64 := (v.truncate 32).signExtend 64
def hi32 (v : BitVec 64) : BitVec 64 := v >>> 32
/-- `Imm::is_uint32`: the int64 value lies in [0, 2^32) -/
def isUInt32 (v : BitVec 64) : Bool := zext32 v == v
/-- `Imm::is_int32` -/
def isInt32 (v : BitVec 64) : Bool := sext32 v == v

/-- RegType of a GP virtual register created with a TypeId (`ArchTraits::type_id_to_reg_signature`): Gp8Lo / Gp16 / Gp32 / Gp64 -/
def gpRtOfType (t : Nat) : Nat := if t = 34 || t = 35 then 2 else if t = 36 || t = 37 then 4 else if t = 38 || t = 39 then 5 else 6
/-- RegType of a vector virtual register created with a TypeId (x86: everything up to 16 bytes lives in an xmm) -/
def vecRtOfType (t : Nat) : Nat := if tySize t ≤ 16 then 11 else if tySize t ≤ 32 then 12 else 13
def isGp8 (t : Nat) : Bool := t = 34 || t = 35
def isGp16 (t : Nat) : Bool := t = 36 || t = 37
def isGp32 (t : Nat) : Bool := t = 38 || t = 39
def isGp64 (t : Nat) : Bool := t = 40 || t = 41

structure LSt where
  is64 : Bool
  avx : Bool
  argStack : Nat              -- `invoke_node->detail()._arg_stack_size` (grows with the temporaries of `move_vec_to_ptr`)
  csAlign : Nat               -- `frame.call_stack_alignment()`
  out : List XI := []
  nextV : Nat := 1000
  /-- ghost: the temporaries `move_vec_to_ptr` created so far, (offset from sp, size), in creation order -/
  temps : List (Nat × Nat) := []
  deriving Repr

def LSt.emit (s : LSt) (i : XI) : LSt := { s with out := s.out ++ [i] }
def spId : Nat := 4
def LSt.nativeRt (s : LSt) : Nat := if s.is64 then 6 else 5

def LSt.emitAll (s : LSt) (l : List XI) : LSt := { s with out := s.out ++ l }

/-- `move_imm_to_reg_arg`: the immediate as it is moved and the register type of the new virtual register -/
def immRegValue (t : Nat) (imm : BitVec 64) : Option (BitVec 64 × Nat) :=
  if t = 34 then some (zext32 (sext8 imm), 5) else if t = 35 then some (zext32 (zext8 imm), 5)
  else if t = 36 then some (zext32 (sext16 imm), 5) else if t = 37 then some (zext32 (zext16 imm), 5)
  else if t = 38 || t = 39 then some (zext32 imm, 5)
  else if t = 40 || t = 41 then (if isUInt32 imm then some (zext32 imm, 5) else some (imm, 6))
  else none

/-- `move_imm_to_reg_arg`; answers the state and the new register (rt, id) -/
def moveImmToRegArg (s : LSt) (arg : FuncValue) (imm : BitVec 64) : Except String (LSt × Nat × Nat) :=
  match immRegValue arg.typeId imm with
  | none => .error "InvalidAssignment"
  | some (v, rt) =>
    let id := s.nextV
    .ok ({ s with nextV := id + 1 }.emit ⟨.mov, false, [.reg rt id, .imm v], false⟩, rt, id)

/-- `move_imm_to_stack_arg`: the stores, in order -/
def immStackInsts (is64 : Bool) (t : Nat) (off : Int) (imm : BitVec 64) : Except String (List XI) :=
  let st (o : Int) (sz : Nat) (v : BitVec 64) : XI := ⟨.mov, false, [.mem spId o sz, .imm v], false⟩
  let one (v : BitVec 64) : Except String (List XI) := .ok [st off 4 (zext32 v)]
  if t = 34 then one (sext8 imm) else if t = 35 then one (zext8 imm)
  else if t = 36 then one (sext16 imm) else if t = 37 then one (zext16 imm)
  else if t = 38 || t = 39 || t = 42 then one imm
  else if t = 40 || t = 41 || t = 43 || t = 49 || t = 50 then
    if is64 && isInt32 imm then .ok [st off 8 imm]
    else .ok [st off 4 (zext32 imm), st (off + 4) 4 (hi32 imm)]
  else .error "InvalidAssignment"

def moveImmToStackArg (s : LSt) (arg : FuncValue) (imm : BitVec 64) : Except String LSt :=
  (immStackInsts s.is64 arg.typeId arg.stackOffset imm).map s.emitAll

/-- `move_reg_to_stack_arg`: `rid` the source virtual register, `st` the TypeId it was created with, `isVecReg`: `reg.is_vec()`;
    the instructions, in order -/
def regStackInsts (is64 avx : Bool) (dt : Nat) (off : Int) (rid : Nat) (st : Nat) (isVecReg : Bool) : Except String (List XI) :=
  let v (n : Mnm) : Mnm × Bool := (n, avx)
  let i2 (n : Mnm × Bool) (a b : XOp) : XI := ⟨n.1, n.2, [a, b], false⟩
  let p (n : Mnm) : Mnm × Bool := (n, false)
  -- the labels
  let extendMovGpD (n : Mnm) (srcRt : Nat) : Except String (List XI) :=
    .ok [i2 (p n) (.reg 5 rid) (.reg srcRt rid), i2 (p .mov) (.mem spId off 4) (.reg 5 rid)]
  let extendMovGpDQ (pre : List XI) (r0 : Option Nat) : Except String (List XI) :=
    match r0 with
    -- `goto ExtendMovGpDQ` with `r0` never set (mmx destination, 32-bit GP source): `mov [mem], <no register>` is what the
    -- assembler refuses at `finalize` (the error it names depends on the mode)
    | none => .error (if is64 then "AmbiguousOperandSize" else "InvalidRexPrefix")
    | some rt => .ok (pre ++ [i2 (p .mov) (.mem spId off 4) (.reg rt rid), i2 (p .and_) (.mem spId (off + 4) 4) (.imm 0)])
  let extendMovGpXQ (n : Mnm) (srcRt : Nat) : Except String (List XI) :=
    if is64 then .ok [i2 (p n) (.reg 6 rid) (.reg srcRt rid), i2 (p .mov) (.mem spId off 8) (.reg 6 rid)]
    else extendMovGpDQ [i2 (p n) (.reg 5 rid) (.reg srcRt rid)] (some 5)
  let movGpD : Except String (List XI) := .ok [i2 (p .mov) (.mem spId off 4) (.reg 5 rid)]
  let movGpQ : Except String (List XI) := .ok [i2 (p .mov) (.mem spId off 8) (.reg 6 rid)]
  let movMmD : Except String (List XI) := .ok [i2 (v .movd) (.mem spId off 4) (.reg 28 rid)]
  let movMmQ : Except String (List XI) := .ok [i2 (v .movq) (.mem spId off 8) (.reg 28 rid)]
  let movXmmD : Except String (List XI) := .ok [i2 (v .movss) (.mem spId off 4) (.reg 11 rid)]
  let movXmmQ : Except String (List XI) := .ok [i2 (v .movlps) (.mem spId off 8) (.reg 11 rid)]
  let bad : Except String (List XI) := .error "InvalidAssignment"
  let small : Except String (List XI) :=      -- `case kInt8 / kUInt8` (and the fall-through of the 16/32-bit destinations)
    if isInt st then movGpD else if isMmx st then movMmD else if isVec st then movXmmD else bad
  if dt = 40 || dt = 41 then
    if isGp8 st then extendMovGpXQ (if dt = 40 && st = 34 then .movsx else .movzx) 2
    else if isGp16 st then extendMovGpXQ (if dt = 40 && st = 36 then .movsx else .movzx) 4
    else if isGp32 st then (if dt = 40 && st = 38 then extendMovGpXQ .movsxd 5 else extendMovGpDQ [] (some 5))
    else if isGp64 st then movGpQ else if isMmx st then movMmQ else if isVec st then movXmmQ else bad
  else if dt = 38 || dt = 39 || dt = 36 || dt = 37 then
    let dstSigned := dt = 36 || dt = 38
    let srcSigned := st = 34 || st = 36
    if isGp16 st then extendMovGpD (if dstSigned && srcSigned then .movsx else .movzx) 4
    else if isGp8 st then extendMovGpD (if dstSigned && srcSigned then .movsx else .movzx) 2
    else small
  else if dt = 34 || dt = 35 then small
  else if dt = 49 || dt = 50 then
    if isGp8 st then extendMovGpXQ .movzx 2 else if isGp16 st then extendMovGpXQ .movzx 4
    else if isGp32 st then extendMovGpDQ [] none
    else if isGp64 st then movGpQ else if isMmx st then movMmQ else if isVec st then movXmmQ else bad
  else if dt = 42 || dt = 59 then (if isVec st then movXmmD else bad)
  else if dt = 43 || dt = 69 then (if isVec st then movXmmQ else bad)
  else if isVec dt && isVecReg then
    let rt := if isVec128 dt then 11 else if isVec256 dt then 12 else if isVec512 dt then 13 else 0
    if rt = 0 then bad else .ok [i2 (v .movaps) (.mem spId off (tySize dt)) (.reg rt rid)]
  else bad

def moveRegToStackArg (s : LSt) (arg : FuncValue) (rid : Nat) (st : Nat) (isVecReg : Bool) : Except String LSt :=
  (regStackInsts s.is64 s.avx arg.typeId arg.stackOffset rid st isVecReg).map s.emitAll

/-- `move_reg_to_reg_arg` (fixes C06-17, C06-20): an 8/16-bit GP register for a wider integer register parameter, and a signed
    32-bit register for a signed 64-bit one, is extended into a new
    virtual register of the parameter's width (32 bits for parameters up to 32 bits); answers the state and the new (rt, id) -/
def moveRegToRegArg (s : LSt) (arg : FuncValue) (vid : Nat) (st : Nat) : Except String (LSt × Nat × Nat) :=
  let signExt := arg.typeId % 2 = 0 && st % 2 = 0
  let rt := if tySize arg.typeId > 4 then 6 else 5
  let id := s.nextV
  let s := { s with nextV := id + 1 }
  let n : Mnm := if signExt then .movsx else .movzx
  if isGp8 st then .ok (s.emit ⟨n, false, [.reg rt id, .reg 2 vid], false⟩, rt, id)
  else if isGp16 st then .ok (s.emit ⟨n, false, [.reg rt id, .reg 4 vid], false⟩, rt, id)
  else if st = 38 && arg.typeId = 40 then .ok (s.emit ⟨.movsxd, false, [.reg rt id, .reg 5 vid], false⟩, rt, id)   -- fix C06-20
  else .error "InvalidState"

/-- `move_vec_to_ptr`: the temporary, the pointer register (answered), the store; for a stack argument the pointer is stored too -/
def moveVecToPtr (s : LSt) (arg : FuncValue) (vid : Nat) : Except String (LSt × Nat) :=
  let sz0 := tySize arg.typeId
  if sz0 = 0 then .error "InvalidState" else
  let sz := if sz0 < 16 then 16 else sz0
  let off := alignUp s.argStack sz
  let s := { s with csAlign := max s.csAlign sz, argStack := off + sz, temps := s.temps ++ [(off, sz)] }
  let vrt := if sz ≥ 64 then 13 else if sz ≥ 32 then 12 else 11
  let pid := s.nextV
  let s := { s with nextV := pid + 1 }
  let s := s.emit ⟨.lea, false, [.reg s.nativeRt pid, .mem spId off 0], false⟩
  let s := s.emit ⟨.movaps, sz > 16 || s.avx, [.mem pid 0 0, .reg vrt vid], false⟩
  let s := if arg.isStack then s.emit ⟨.mov, false, [.mem spId arg.stackOffset 0, .reg s.nativeRt pid], false⟩ else s
  .ok (s, pid)

/-- one value of one argument pack; answers the operand the invoke node holds afterwards (register arguments only matter) -/
def lowerValue (s : LSt) (arg : FuncValue) (op : ArgOp) : Except String (LSt × ArgOp) :=
  match op with
  | .none => .ok (s, op)
  | .imm v =>
    if arg.isReg then
      match moveImmToRegArg s arg v with
      | .error e => .error e
      | .ok (s, rt, id) => .ok (s, .gp id (if rt = 6 then 41 else 39))
    else (moveImmToStackArg s arg v).map fun s => (s, op)
  | .gp vid t =>
    if arg.isReg then
      if arg.isIndirect then (if gpRtOfType t ≠ s.nativeRt then .error "InvalidAssignment" else .ok (s, op))
      else if groupOfRt arg.regType ≠ 0 then .error "InvalidAssignment"
      else if isInt arg.typeId && (((isGp8 t || isGp16 t) && decide (tySize arg.typeId > tySize t)) || (t = 38 && arg.typeId = 40)) then
        match moveRegToRegArg s arg vid t with
        | .error e => .error e
        | .ok (s, rt, id) => .ok (s, .gp id (if rt = 6 then 41 else 39))
      else .ok (s, op)      -- unsigned 32-bit registers (and everything that is not narrower) are passed as they are
    else
      if arg.isIndirect then
        if gpRtOfType t ≠ s.nativeRt then .error "InvalidAssignment" else (moveRegToStackArg s arg vid t false).map fun s => (s, op)
      else (moveRegToStackArg s arg vid t false).map fun s => (s, op)
  | .vec vid t =>
    if arg.isReg then
      if arg.isIndirect then
        match moveVecToPtr s arg vid with
        | .error e => .error e
        | .ok (s, pid) => .ok (s, .gp pid (if s.is64 then 41 else 39))
      else if groupOfRt arg.regType ≠ 1 then .error "InvalidAssignment" else .ok (s, op)
    else
      if arg.isIndirect then
        match moveVecToPtr s arg vid with
        | .error e => .error e
        | .ok (s, pid) => (moveRegToStackArg s arg pid (if s.is64 then 41 else 39) false).map fun s => (s, op)
      else (moveRegToStackArg s arg vid t true).map fun s => (s, op)
where
  /-- `RegUtils::group_of` for the register types an argument can have -/
  groupOfRt (rt : Nat) : Nat := if 2 ≤ rt && rt ≤ 6 then 0 else if 7 ≤ rt && rt ≤ 15 then 1 else if rt = 16 then 2 else if rt = 28 then 3 else 15

def lowerPack (s : LSt) : List FuncValue → List ArgOp → Except String (LSt × List ArgOp)
  | a :: as, o :: os =>
    match lowerValue s a o with
    | .error e => .error e
    | .ok (s, o') =>
      match lowerPack s as os with
      | .error e => .error e
      | .ok (s, os') => .ok (s, o' :: os')
  | _, _ => .ok (s, [])

def lowerArgs (s : LSt) : List (List FuncValue) → List (List ArgOp) → Except String (LSt × List (List ArgOp))
  | p :: ps, o :: os =>
    match lowerPack s p o with
    | .error e => .error e
    | .ok (s, o') =>
      match lowerArgs s ps os with
      | .error e => .error e
      | .ok (s, os') => .ok (s, o' :: os')
  | _, _ => .ok (s, [])

/-- what `on_before_invoke` leaves: the instructions in front of the call, the instruction after it (callee-pops), the invoke's
    arguments, and the frame's `call_stack_size` / `call_stack_alignment` updated from `(css0, csa0)` -/
structure Lowered where
  pre : List XI
  post : List XI
  args : List (List ArgOp)
  argStack : Nat
  callStackSize : Nat
  callStackAlign : Nat
  temps : List (Nat × Nat)
  deriving Repr

def onBeforeInvoke (is64 avx : Bool) (calleePops : Bool) (d : Detail) (ops : List (List ArgOp)) (css0 csa0 : Nat) :
    Except String Lowered :=
  match lowerArgs { is64 := is64, avx := avx, argStack := d.argStackSize, csAlign := csa0 } d.args ops with
  | .error e => .error e
  | .ok (s, args) =>
    let post : List XI :=
      if calleePops && s.argStack ≠ 0 then [⟨.sub, false, [.reg s.nativeRt spId, .imm (BitVec.ofNat 64 s.argStack)], false⟩] else []
    .ok { pre := s.out, post := post, args := args, argStack := s.argStack, callStackSize := max css0 s.argStack,
          callStackAlign := s.csAlign, temps := s.temps }

/-! ### AArch64 (a64rapass.cpp): no temporaries, no immediate stores – an immediate goes through a new 64-bit register, a GP stack
    argument is stored in the argument's size (fix C06-21), a vector one in the register's; a narrower GP register is extended into
    a new register first (fix C06-22), other register arguments are passed as they are -/

/-- a64 `move_imm_to_reg_arg`: the immediate as it is moved (always into a new x register) -/
def a64ImmValue (t : Nat) (imm : BitVec 64) : Option (BitVec 64) :=
  if t = 34 then some (sext8 imm) else if t = 35 then some (zext8 imm) else if t = 36 then some (sext16 imm)
  else if t = 37 then some (zext16 imm) else if t = 38 then some (sext32 imm) else if t = 39 then some (zext32 imm)
  else if t = 40 || t = 41 then some imm else none

def a64SpId : Nat := 31
/-- register type of an AArch64 virtual register created with a TypeId -/
def a64RtOfType (t : Nat) : Nat :=
  if isInt t then (if tySize t ≤ 4 then 5 else 6)
  else if tySize t ≤ 4 then 9 else if tySize t ≤ 8 then 10 else 11

/-- fix C06-22 `needs_int_extension`: an 8/16-bit register for a wider integer parameter, a signed 32-bit register for a signed
    64-bit one -/
def a64NeedsExt (dt st : Nat) : Bool :=
  isInt dt && isInt st && (((isGp8 st || isGp16 st) && decide (tySize dt > tySize st)) || (st = 38 && dt = 40))

/-- a64 `move_reg_to_reg_arg` (fix C06-22): the extension instruction `id <- ext vid` and the register type of the new register -/
def a64ExtInst (dt st id vid : Nat) : XI × Nat :=
  let signExt := dt % 2 = 0 && st % 2 = 0
  let rt := if tySize dt > 4 then 6 else 5
  if !signExt then (⟨if isGp8 st then .uxtb else .uxth, false, [.reg 5 id, .reg 5 vid], false⟩, rt)
  else (⟨if isGp8 st then .sxtb else if isGp16 st then .sxth else .sxtw, false, [.reg rt id, .reg 5 vid], false⟩, rt)

/-- … into a new virtual register; answers the state and the new (rt, id) -/
def a64MoveRegToRegArg (s : LSt) (arg : FuncValue) (vid : Nat) (st : Nat) : LSt × Nat × Nat :=
  let r := a64ExtInst arg.typeId st s.nextV vid
  ({ s with nextV := s.nextV + 1 }.emit r.1, r.2, s.nextV)

def a64LowerValue (s : LSt) (arg : FuncValue) (op : ArgOp) : Except String (LSt × ArgOp) :=
  -- fix C06-21: a GP stack argument is stored in the ARGUMENT's size
  let str (s : LSt) (rt id : Nat) : LSt :=
    let n := tySize arg.typeId
    if rt = 5 || rt = 6 then
      (if n = 1 then s.emit ⟨.strb, false, [.reg 5 id, .mem a64SpId arg.stackOffset 0], false⟩
       else if n = 2 then s.emit ⟨.strh, false, [.reg 5 id, .mem a64SpId arg.stackOffset 0], false⟩
       else if n = 4 then s.emit ⟨.str, false, [.reg 5 id, .mem a64SpId arg.stackOffset 0], false⟩
       else if n = 8 && isInt arg.typeId then s.emit ⟨.str, false, [.reg 6 id, .mem a64SpId arg.stackOffset 0], false⟩   -- the x view
       else s.emit ⟨.str, false, [.reg rt id, .mem a64SpId arg.stackOffset 0], false⟩)
    else s.emit ⟨.str, false, [.reg rt id, .mem a64SpId arg.stackOffset 0], false⟩
  match op with
  | .none => .ok (s, op)
  | .imm v =>
    match a64ImmValue arg.typeId v with
    | none => .error "InvalidAssignment"
    | some w =>
      let id := s.nextV
      let s := { s with nextV := id + 1 }.emit ⟨.mov, false, [.reg 6 id, .imm w], false⟩
      if arg.isReg then .ok (s, .gp id 41) else .ok (str s 6 id, op)
  | .gp vid t =>
    if arg.isReg then
      if lowerValue.groupOfRt arg.regType ≠ 0 then .error "InvalidAssignment"
      else if a64NeedsExt arg.typeId t then
        let (s, rt, id) := a64MoveRegToRegArg s arg vid t
        .ok (s, .gp id (if rt = 6 then 41 else 39))
      else .ok (s, op)
    else if a64NeedsExt arg.typeId t then
      let (s, rt, id) := a64MoveRegToRegArg s arg vid t
      .ok (str s rt id, op)
    else .ok (str s (a64RtOfType t) vid, op)
  | .vec vid t =>
    if arg.isReg then (if lowerValue.groupOfRt arg.regType ≠ 1 then .error "InvalidAssignment" else .ok (s, op))
    else .ok (str s (a64RtOfType t) vid, op)

def a64LowerPack (s : LSt) : List FuncValue → List ArgOp → Except String (LSt × List ArgOp)
  | a :: as, o :: os =>
    match a64LowerValue s a o with
    | .error e => .error e
    | .ok (s, o') =>
      match a64LowerPack s as os with
      | .error e => .error e
      | .ok (s, os') => .ok (s, o' :: os')
  | _, _ => .ok (s, [])

/-- a64 `on_before_invoke` for one-value packs: instructions and the frame's call_stack_size -/
def a64OnBeforeInvoke (d : Detail) (ops : List ArgOp) (css0 : Nat) : Except String (List XI × Nat) :=
  match a64LowerPack { is64 := true, avx := false, argStack := d.argStackSize, csAlign := 16 } (d.args.map fun p => p.headD (.ofType 0)) ops with
  | .error e => .error e
  | .ok (s, _) => .ok (s.out, max css0 d.argStackSize)

/-! ### text -/
def Mnm.text : Mnm → String
  | .mov => "mov" | .movsx => "movsx" | .movzx => "movzx" | .movsxd => "movsxd" | .lea => "lea" | .movaps => "movaps"
  | .movups => "movups" | .movd => "movd" | .movq => "movq" | .movss => "movss" | .movlps => "movlps" | .and_ => "and"
  | .sub => "sub" | .call => "call" | .other => "?" | .str => "str" | .ldr => "ldr" | .strb => "strb" | .strh => "strh"
  | .sxtb => "sxtb" | .sxth => "sxth" | .sxtw => "sxtw" | .uxtb => "uxtb" | .uxth => "uxth"

def hexOf (v : BitVec 64) : String := String.ofList (Nat.toDigits 16 v.toNat)

def XOp.text : XOp → String
  | .reg rt id => s!"r{rt}.{id}"
  | .mem b o sz => s!"m{b}.{o}.{sz}"
  | .imm v => "i" ++ hexOf v
  | .unk => "?"

def XI.text (i : XI) : String :=
  (if i.vex then "v" else "") ++ i.name.text ++ String.join (i.ops.map fun o => " " ++ o.text)

end AsmjitVerif.Invoke
