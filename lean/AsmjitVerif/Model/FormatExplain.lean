/-
  C20 model, second file — `x86::FormatterInternal_explain_const` (x86/x86formatter.cpp): the explanatory `{a|b|c}` text that
  `FormatFlags::kExplainImms` glues to an immediate operand, and the instruction / log-line text with it.

  Kept apart from Model/Format.lean: the line theorems are about `x86FormatInstruction` (no annotation); `x86FormatOpsX_plain`
  (Props/C20Explain.lean) shows that the two texts are the same whenever no annotation is printed.
-/
import AsmjitVerif.Model.Format
import AsmjitVerif.Gen.FormatExplainTabs

namespace AsmjitVerif.Format

/-- `{a|b|c}` (kImmCharStart `{`, kImmCharOr `|`, kImmCharEnd `}`) -/
def immBraces : List Str → Str
  | [] => ['{', '}']
  | f :: fs => ['{'] ++ f ++ (fs.flatMap fun g => '|' :: g) ++ ['}']

/-- `FormatterInternal_format_imm_shuf`: `count` fields of `bits` bits, the highest field first
    (`imm8` is a 32-bit variable: `imm8 <<= bits` loses nothing) -/
def explainShuf (u8 bits count : Nat) : Str :=
  immBraces ((List.range count).map fun i => uintStr ((((u8 <<< (bits * i)) % two32) >>> (bits * (count - 1))) &&& (2 ^ bits - 1)))

/-- `FormatterInternal_format_imm_text`: `count` fields, the lowest first; field `i` indexes the table at `value + advance * i` -/
def explainText (u8 bits advance : Nat) (table : List String) (count : Nat := 1) : Str :=
  immBraces ((List.range count).map fun i => (table.getD (((u8 >>> (bits * i)) &&& (2 ^ bits - 1)) + advance * i) "").toList)

/-- one `ImmBits` record: mask, shift, lookup table (or `none`: `LEN=%d`) -/
structure ImmBits where
  mask : Nat
  shift : Nat
  table : Option (List String)

/-- `FormatterInternal_format_imm_bits`: empty strings are skipped; nothing at all when every field is empty -/
def explainBits (u8 : Nat) (specs : List ImmBits) : Str :=
  let fields := specs.filterMap fun s =>
    let value := (u8 &&& s.mask) >>> s.shift
    let str : Str := match s.table with
      | some t => (t.getD value "").toList
      | none => "LEN=".toList ++ uintStr value
    if str = [] then none else some str
  if fields = [] then [] else immBraces fields

/-! the static tables are regenerated from x86formatter.cpp by tools/gen_formattabs.py (Gen/FormatExplainTabs.lean) -/

def textTable (name : String) : List String := (AsmjitVerif.Gen.FormatExplainTabs.textTables.lookup name).getD []
def bitsTable (name : String) : List ImmBits :=
  ((AsmjitVerif.Gen.FormatExplainTabs.bitsTables.lookup name).getD []).map fun (m, sh, t) => ⟨m, sh, t⟩

def tabVcmpx : List String := textTable "vcmpx"
def tabVpcmpx : List String := textTable "vpcmpx"
def tabVpcomx : List String := textTable "vpcomx"
def tabVshufpd : List String := textTable "vshufpd"
def tabVshufps : List String := textTable "vshufps"
def bitsVfpclass : List ImmBits := bitsTable "vfpclassxx"
def bitsVfixupimm : List ImmBits := bitsTable "vfixupimmxx"
def bitsVgetmant : List ImmBits := bitsTable "vgetmantxx"
def bitsVmpsadbw : List ImmBits := bitsTable "vmpsadbw"
def bitsVpclmulqdq : List ImmBits := bitsTable "vpclmulqdq"
def bitsVperm2x128 : List ImmBits := bitsTable "vperm2x128"
def bitsVrange : List ImmBits := bitsTable "vrangexx"
def bitsVreduce : List ImmBits := bitsTable "vreducexx_vrndscalexx"
def bitsVround : List ImmBits := bitsTable "vroundxx"

/-- the `switch (inst_id)` of `FormatterInternal_explain_const`, by instruction name (`x86InstNames`, generated from the code) -/
def explainConst (name : String) (vecSize u8 : Nat) : Str :=
  if name ∈ ["vblendpd", "blendpd"] then explainShuf u8 1 (vecSize / 8)
  else if name ∈ ["vblendps", "blendps"] then explainShuf u8 1 (vecSize / 4)
  else if name ∈ ["vcmppd", "vcmpps", "vcmpsd", "vcmpss"] then explainText u8 5 0 tabVcmpx
  else if name ∈ ["cmppd", "cmpps", "cmpsd", "cmpss"] then explainText u8 3 0 tabVcmpx
  else if name = "vdbpsadbw" then explainShuf u8 2 4
  else if name ∈ ["vdppd", "vdpps", "dppd", "dpps"] then explainShuf u8 1 8
  else if name ∈ ["vmpsadbw", "mpsadbw"] then explainBits u8 (bitsVmpsadbw.take (min (vecSize / 8) 4))
  else if name ∈ ["vpblendw", "pblendw"] then explainShuf u8 1 8
  else if name = "vpblendd" then explainShuf u8 1 (min (vecSize / 4) 8)
  else if name ∈ ["vpclmulqdq", "pclmulqdq"] then explainBits u8 bitsVpclmulqdq
  else if name ∈ ["vroundpd", "vroundps", "vroundsd", "vroundss", "roundpd", "roundps", "roundsd", "roundss"] then explainBits u8 bitsVround
  else if name ∈ ["vshufpd", "shufpd"] then explainText u8 1 2 tabVshufpd (min (vecSize / 8) 8)
  else if name ∈ ["vshufps", "shufps"] then explainText u8 2 4 tabVshufps 4
  else if name = "vcvtps2ph" then explainBits u8 (bitsVround.take 1)
  else if name ∈ ["vperm2f128", "vperm2i128"] then explainBits u8 bitsVperm2x128
  else if name = "vpermilpd" then explainShuf u8 1 (vecSize / 8)
  else if name = "vpermilps" then explainShuf u8 2 4
  else if name ∈ ["vpshufd", "pshufd"] then explainShuf u8 2 4
  else if name ∈ ["vpshufhw", "vpshuflw", "pshufhw", "pshuflw", "pshufw"] then explainShuf u8 2 4
  else if name ∈ ["vfixupimmpd", "vfixupimmps", "vfixupimmsd", "vfixupimmss"] then explainBits u8 bitsVfixupimm
  else if name ∈ ["vfpclasspd", "vfpclassps", "vfpclasssd", "vfpclassss"] then explainBits u8 bitsVfpclass
  else if name ∈ ["vgetmantpd", "vgetmantps", "vgetmantsd", "vgetmantss"] then explainBits u8 bitsVgetmant
  else if name ∈ ["vpcmpb", "vpcmpd", "vpcmpq", "vpcmpw", "vpcmpub", "vpcmpud", "vpcmpuq", "vpcmpuw"] then explainText u8 3 0 tabVpcmpx
  else if name ∈ ["vpcomb", "vpcomd", "vpcomq", "vpcomw", "vpcomub", "vpcomud", "vpcomuq", "vpcomuw"] then explainText u8 3 0 tabVpcomx
  else if name ∈ ["vpermq", "vpermpd"] then explainShuf u8 2 4
  else if name ∈ ["vpternlogd", "vpternlogq"] then explainShuf u8 1 8
  else if name ∈ ["vrangepd", "vrangeps", "vrangesd", "vrangess"] then explainBits u8 bitsVrange
  else if name ∈ ["vreducepd", "vreduceps", "vreducesd", "vreducess", "vrndscalepd", "vrndscaleps", "vrndscalesd", "vrndscaless"] then
    explainBits u8 bitsVreduce
  else if name ∈ ["vshuff32x4", "vshuff64x2", "vshufi32x4", "vshufi64x2"] then
    let count := max (vecSize / 16) 2
    explainShuf u8 (if count ≤ 2 then 1 else 2) count
  else []

/-- `Reg::size()` as far as it matters here (only sizes above 16 change `vec_size`): ymm 32, zmm 64 -/
def x86RegSizeAbove16 (type : Nat) : Nat := if type = 13 then 64 else if type = 12 then 32 else 16

/-- `vec_size`: 16, raised to the size of the widest register operand -/
def x86VecSize (ops : List Operand) : Nat :=
  ops.foldl (fun acc op => match op with | .reg t _ _ _ => max acc (x86RegSizeAbove16 t) | _ => acc) 16

/-- the annotation printed after operand `op` -/
def x86ExplainText (flags instId : Nat) (ops : List Operand) : Operand → Str
  | .imm u _ => if hasBit flags ffExplainImms then explainConst (AsmjitVerif.Gen.FormatTabs.x86InstNames.getD instId "") (x86VecSize ops) (u % 256) else []
  | _ => []

/-- the operand loop with the annotation (between the operand text and `{k}{z}`) -/
def x86FormatOpsX (flags : Nat) (env : Env) (instId options : Nat) (extra : ExtraReg) (all : List Operand) : Nat → List Operand → Str
  | _, [] => []
  | _, .none :: _ => []
  | i, op :: rest =>
    (if i = 0 then " " else ", ").toList ++ x86FormatOperand flags env op ++ x86ExplainText flags instId all op ++
      x86KZText flags env options extra i ++ x86BcastText op ++ x86FormatOpsX flags env instId options extra all (i + 1) rest

/-- `x86::FormatterInternal::format_instruction` with the kExplainImms annotations -/
def x86FormatInstructionX (flags : Nat) (env : Env) (instId options : Nat) (extra : ExtraReg) (ops : List Operand) : Str :=
  x86FormatHead flags env instId options extra ++ x86FormatOpsX flags env instId options extra ops 0 ops ++
  (if hasBit options (ioER ||| ioSAE) then
     if hasBit options ioER then ", {".toList ++ x86RoundingMode ((options &&& ioERMask) >>> 21) ++ "-sae}".toList
     else ", {sae}".toList
   else [])

def formatInstructionX (flags : Nat) (env : Env) (instId options : Nat) (extra : ExtraReg) (ops : List Operand) : Str :=
  match env.arch with
  | .a64 => a64FormatInstruction flags env instId ops
  | _ => x86FormatInstructionX flags env instId options extra ops

/-- `EmitterUtils::log_instruction_emitted` with the annotations -/
def logInstructionEmittedX (flags : Nat) (env : Env) (indent pad0 pad1 : Nat) (instId options : Nat) (extra : ExtraReg)
    (ops : List Operand) (bytes : List Nat) (rel imm : Nat) (comment : Option Str) : Str :=
  let sb := List.replicate indent ' ' ++ formatInstructionX flags env instId options extra ops
  if hasBit flags ffMachineCode then finishFormattedLine sb pad0 pad1 (some bytes) rel imm comment
  else finishFormattedLine sb pad0 pad1 none 0 0 comment

end AsmjitVerif.Format
