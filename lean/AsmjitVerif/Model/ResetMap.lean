/-
C16 T(a): the "no field forgotten" analysis that is run (by `decide +kernel`) over the record layouts and event trees
regenerated from the clang AST of the current holder / emitter / register-allocator / arena sources
(Gen/ResetMap.lean, tools/ast_fields.py).  All recursion is structural so that the kernel can evaluate it.

Vocabulary
  * a *recycle path* is a list of `(function, object)` entries executed in sequence on the same object
    (`[("CodeHolder::reset", "this"), ("CodeHolder::init/3", "this")]`); calls are inlined to a fixed depth;
  * a *leaf* is a data member of a record reached through members that are themselves mapped records
    (`_text_section._buffer._size`) or through base classes; it remembers the record that declares every step;
  * a leaf is *definitely re-initialised* on a path when some prefix of it is overwritten as a whole by a statement that
    executes on every complete run of the path (not under an `if` arm unless both arms do it, not in a loop body), or -
    for a member of constant array type - when every element is;
  * everything else must be on a reviewed keep-list (Props/C16Fields.lean).
-/
namespace AsmjitVerif.ResetMap

/-- one data member: name, the mapped record it is an object of (or ""), array length (or 0) -/
structure Field where
  name : String
  sub : String
  arr : Nat
  deriving Repr, DecidableEq

/-- one event of a function body, in source order (see tools/ast_fields.py) -/
inductive Ev where
  | w (obj : String) (path : List String) (full : Bool)            -- member `path` of `obj` overwritten (full) / updated
  | call (fn : String) (binds : List (String × String × List String))  -- (callee object, caller object, prefix)
  | block (body : List Ev)                                        -- executes exactly when the parent does
  | ite (t e : List Ev)                                           -- exactly one arm executes
  | loop (body : List Ev)                                         -- may execute zero times
  | bad                                                           -- call depth exceeded / callee missing (poison)
  deriving Repr

def lookup {α : Type} (m : List (String × α)) (f : String) : Option α :=
  match m with
  | [] => none
  | (k, v) :: r => if k == f then some v else lookup r f

/-- the object a callee's object denotes in the caller's frame; objects that are not bound are foreign ("~") -/
def rebind (binds : List (String × String × List String)) (o : String) : String × List String :=
  match binds with
  | [] => ("~", [])
  | (a, b, p) :: r => if a == o then (b, p) else rebind r o

mutual
/-- a callee's (already inlined) body seen from the caller -/
def renameEv (binds : List (String × String × List String)) : Ev → Ev
  | .w o p full => .w (rebind binds o).1 ((rebind binds o).2 ++ p) full
  | .call g b => .call g b
  | .block es => .block (renameEvs binds es)
  | .ite t e => .ite (renameEvs binds t) (renameEvs binds e)
  | .loop es => .loop (renameEvs binds es)
  | .bad => .bad
def renameEvs (binds : List (String × String × List String)) : List Ev → List Ev
  | [] => []
  | e :: r => renameEv binds e :: renameEvs binds r
end

mutual
/-- replace every call by the (already inlined) body of the callee; a callee that is not in the map is poison
    (the translator only emits calls of functions it also emits) -/
def inlineEv (f : String → Option (List Ev)) : Ev → Ev
  | .call g binds => match f g with
    | some b => .block (renameEvs binds b)
    | none => .bad
  | .block es => .block (inlineEvs f es)
  | .ite t e => .ite (inlineEvs f t) (inlineEvs f e)
  | .loop es => .loop (inlineEvs f es)
  | .w o p full => .w o p full
  | .bad => .bad
def inlineEvs (f : String → Option (List Ev)) : List Ev → List Ev
  | [] => []
  | e :: r => inlineEv f e :: inlineEvs f r
end

/-- body of `g` with calls inlined to depth `k` (deeper calls become `.bad`) -/
def bodyAt (m : List (String × List Ev)) : Nat → String → Option (List Ev)
  | 0 => fun g => (lookup m g).map fun _ => [.bad]
  | k + 1 => fun g => (lookup m g).map (inlineEvs (bodyAt m k))

mutual
/-- no poison and no call left: the tree can be judged -/
def cleanEv : Ev → Bool
  | .w _ _ _ => true
  | .call _ _ => false
  | .block es => cleanEvs es
  | .ite t e => cleanEvs t && cleanEvs e
  | .loop es => cleanEvs es
  | .bad => false
def cleanEvs : List Ev → Bool
  | [] => true
  | e :: r => cleanEv e && cleanEvs r
end

/-- `w` is a prefix of `p` (writing a member writes everything inside it) -/
def isPrefix : List String → List String → Bool
  | [], _ => true
  | _ :: _, [] => false
  | a :: w, b :: p => a == b && isPrefix w p

def coveredBy (ws : List (List String)) (p : List String) : Bool := ws.any fun w => isPrefix w p

mutual
/-- paths of `obj` that are overwritten as a whole on every complete execution of the events.
    `loops = true` additionally assumes that every loop body runs (used only for the object a loop iterates over). -/
def definiteEv (loops : Bool) (obj : String) : Ev → List (List String)
  | .w o p full => if full && o == obj then [p] else []
  | .block es => definiteEvs loops obj es
  | .ite t e =>
    (definiteEvs loops obj t).filter (coveredBy (definiteEvs loops obj e)) ++
    (definiteEvs loops obj e).filter (coveredBy (definiteEvs loops obj t))
  | .loop es => if loops then definiteEvs loops obj es else []
  | .call _ _ => []
  | .bad => []
def definiteEvs (loops : Bool) (obj : String) : List Ev → List (List String)
  | [] => []
  | e :: r => definiteEv loops obj e ++ definiteEvs loops obj r
end

mutual
/-- every path of `obj` touched at all (overwritten or updated, conditionally or not) -/
def touchedEv (obj : String) : Ev → List (List String)
  | .w o p _ => if o == obj then [p] else []
  | .block es => touchedEvs obj es
  | .ite t e => touchedEvs obj t ++ touchedEvs obj e
  | .loop es => touchedEvs obj es
  | .call _ _ => []
  | .bad => []
def touchedEvs (obj : String) : List Ev → List (List String)
  | [] => []
  | e :: r => touchedEv obj e ++ touchedEvs obj r
end

/-- one entry of a recycle path: the function, the object (in that function's frame) that is being recycled, and whether
    loop bodies are assumed to run (`true` only when the object is the one a loop of that function iterates over) -/
structure Entry where
  fn : String
  obj : String
  loops : Bool := false
  deriving Repr, DecidableEq

/-- a recycle path: entry functions executed in sequence on the same object -/
abbrev RPath := List Entry

/-- definite whole-member writes of a recycle path; `none` when an entry is missing from the map or its tree is not clean -/
def definiteWrites (m : List (String × List Ev)) (depth : Nat) : RPath → Option (List (List String))
  | [] => some []
  | e :: r =>
    match bodyAt m depth e.fn, definiteWrites m depth r with
    | some b, some ws => if cleanEvs b then some (definiteEvs e.loops e.obj b ++ ws) else none
    | _, _ => none

def touchedPaths (m : List (String × List Ev)) (depth : Nat) : RPath → List (List String)
  | [] => []
  | e :: r => (match bodyAt m depth e.fn with | some b => touchedEvs e.obj b | none => []) ++ touchedPaths m depth r

/-! ### records and leaves -/

/-- a leaf: the chain of (declaring record, member) steps from the object, and the array length of the last member (or 0) -/
structure Leaf where
  chain : List (String × String)
  arr : Nat
  deriving Repr, DecidableEq

def Leaf.path (l : Leaf) : List String := l.chain.map Prod.snd

abbrev RecordMap := List (String × String × List Field)

/-- marker produced when a record is missing or the nesting fuel runs out: it is never written and cannot be kept,
    so a theorem over such leaves fails instead of being vacuous -/
def poison (r : String) : String × Field := ("<missing record " ++ r ++ ">", ⟨"<missing>", "", 0⟩)

/-- own and inherited members of a record (base class first), each with the record that declares it -/
def allFields (m : RecordMap) : Nat → String → List (String × Field)
  | 0, r => [poison r]
  | k + 1, r =>
    match lookup m r with
    | none => [poison r]
    | some (base, fs) => (if base == "" then [] else allFields m k base) ++ fs.map fun f => (r, f)

/-- leaves of a record: members of mapped record type are expanded (`fuel` nesting levels, 8 inheritance levels) -/
def leaves (m : RecordMap) : Nat → String → List Leaf
  | 0, r => [⟨[(poison r).1, "<depth>"].map fun s => (s, s), 0⟩]
  | k + 1, r =>
    (allFields m 8 r).flatMap fun (decl, f) =>
      if f.sub == "" then [⟨[(decl, f.name)], f.arr⟩]
      else (leaves m k f.sub).map fun l => ⟨(decl, f.name) :: l.chain, l.arr⟩

/-- number of distinct, literally indexed elements of the array member `p` that are overwritten -/
def elementsWritten (ws : List (List String)) (p : List String) : Nat :=
  ((ws.filter fun w => w.length == p.length + 1 && isPrefix p w && w.getLast? != some "[?]").eraseDups).length

/-- the leaf is definitely re-initialised by the writes `ws` -/
def covered (ws : List (List String)) (l : Leaf) : Bool :=
  coveredBy ws l.path || (l.arr != 0 && elementsWritten ws l.path == l.arr)

/-- keep-list entries are `(record R, path p)`: they match a leaf that ends with the members `p`, the first of which is
    declared by `R` - so `("Arena", ["_first_block"])` covers every embedded arena and
    `("CodeHolder", ["_text_section", "_buffer", "_data"])` exactly one leaf. -/
def matchesKeep (chain : List (String × String)) (e : String × List String) : Bool :=
  match chain with
  | [] => false
  | (r, f) :: rest => (r == e.1 && ((r, f) :: rest).map Prod.snd == e.2) || matchesKeep rest e

def kept (keep : List (String × List String)) (l : Leaf) : Bool := keep.any (matchesKeep l.chain)

/-- leaves that are neither definitely re-initialised on the path nor kept (all of them when the path cannot be judged) -/
def uncovered (m : List (String × List Ev)) (depth : Nat) (path : RPath) (ls : List Leaf)
    (keep : List (String × List String)) : List Leaf :=
  match definiteWrites m depth path with
  | none => ls
  | some ws => ls.filter fun l => !(covered ws l || kept keep l)

/-- the leaf is definitely re-initialised on the recycle path -/
def definitelyWritten (m : List (String × List Ev)) (depth : Nat) (path : RPath) (l : Leaf) : Bool :=
  match definiteWrites m depth path with
  | none => false
  | some ws => covered ws l

/-- keep-list entries that are not needed: for none of the (recycle path, leaves) users of the list there is a leaf the entry
    matches that is not definitely re-initialised (an entry that matches nothing, or a keep-list that has rotted) -/
def slack (m : List (String × List Ev)) (depth : Nat) (users : List (RPath × List Leaf))
    (keep : List (String × List String)) : List (String × List String) :=
  keep.filter fun e =>
    !(users.any fun u => u.2.any fun l => matchesKeep l.chain e && !definitelyWritten m depth u.1 l)

/-- `uncovered = []` is the ∀-statement of the property theorems -/
theorem covers_of_uncovered_nil {m : List (String × List Ev)} {depth : Nat} {path : RPath} {ls : List Leaf}
    {keep : List (String × List String)} (h : uncovered m depth path ls keep = []) :
    ∀ l ∈ ls, definitelyWritten m depth path l = true ∨ kept keep l = true := by
  intro l hl
  unfold uncovered at h
  unfold definitelyWritten
  cases hw : definiteWrites m depth path with
  | none =>
    rw [hw] at h
    subst h
    cases hl
  | some ws =>
    rw [hw] at h
    have h' := List.filter_eq_nil_iff.mp h l hl
    cases hc : covered ws l <;> cases hk : kept keep l <;> simp_all

end AsmjitVerif.ResetMap
