/-
C15 - `ConstPool::add` (asmjit/core/constpool.cpp, REPAIRED order of fixes C15-2 / C15-6) under the fault oracle.

This is C19's `Model/ConstPool.lean` re-written with every arena request made explicit, in the order of the C++:
  1. the node of the constant (`Tree::new_node_t`, first: nothing has been changed when it fails -> kOutOfMemory),
  2. `ConstPool_allocGap` inside `ConstPool_addGap` (a recycled `Gap` of `_gap_pool` needs no request; when the request fails
     `addGap` returns and the rest of the gap is lost - tolerated, space is wasted),
  3. the nodes of the shared sub-constants (a failed request stops sharing - tolerated).
`_gap_pool` (the free list of `Gap` records, C19 does not model it) is the counter `gapPool`.
`ConstPool.add` (C19) is the specialisation to the oracle that never fails: `addF_nofault` in Props/C15Pool.lean.
Core-only imports.
-/
import AsmjitVerif.Model.ConstPool
import AsmjitVerif.Model.Fault
namespace AsmjitVerif.FaultPool
open AsmjitVerif AsmjitVerif.ConstPool AsmjitVerif.Fault

structure FPool where
  p : Pool := Pool.init
  /-- number of `Gap` records in `_gap_pool` -/
  gapPool : Nat := 0

inductive Res where
  | ok (offset : Nat)
  | invalidArgument
  | oom
  deriving DecidableEq, Repr

/-- `ConstPool_allocGap`: (oracle, pool count, success) -/
def allocGap (o : Oracle) (gp : Nat) : Oracle × Nat × Bool :=
  if gp > 0 then (o, gp - 1, true)
  else match req o with
    | (true, o1) => (o1, gp, false)
    | (false, o1) => (o1, gp, true)

/-- `ConstPool_addGap` with its allocation: stops at the first `Gap` that cannot be allocated -/
def addGapAuxF : Nat → Oracle → Nat → List (List Gap) → Nat → Nat → Oracle × Nat × List (List Gap)
  | 0, o, gp, gaps, _, _ => (o, gp, gaps)
  | fuel + 1, o, gp, gaps, offset, size =>
    if size = 0 then (o, gp, gaps)
    else
      let gi := gapIndexFor offset size
      let gs := gapSizeFor offset size
      match allocGap o gp with
      | (o1, gp1, false) => (o1, gp1, gaps)
      | (o1, gp1, true) =>
        addGapAuxF fuel o1 gp1 (setAt gaps gi ({ offset := offset, size := gs } :: getAt gaps gi)) (offset + gs) (size - gs)

def addGapF (o : Oracle) (gp : Nat) (gaps : List (List Gap)) (offset size : Nat) : Oracle × Nat × List (List Gap) :=
  addGapAuxF size o gp gaps offset size

/-- the gap loop of `add` (see C19's `gapLoop` for the `_gaps[tree_index]` quirk); a popped gap goes to `_gap_pool` -/
def gapLoopF (size treeIndex : Nat) : Nat → Oracle → Nat → List (List Gap) → Option Nat → Oracle × Nat × List (List Gap) × Option Nat
  | 0, o, gp, gaps, offset => (o, gp, gaps, offset)
  | iters + 1, o, gp, gaps, offset =>
    match getAt gaps treeIndex with
    | [] => gapLoopF size treeIndex iters o gp gaps offset
    | gap :: next =>
      let gaps := setAt gaps treeIndex next
      let gp := gp + 1                                   -- `ConstPool_freeGap`
      let rest := gap.size - size
      if rest > 0 then
        match addGapF o gp gaps gap.offset rest with
        | (o1, gp1, gaps1) => gapLoopF size treeIndex iters o1 gp1 gaps1 (some gap.offset)
      else gapLoopF size treeIndex iters o gp gaps (some gap.offset)

/-- where the constant goes: (oracle, gap pool, `_gaps`, offset, `_size`) -/
def allocOffsetF (o : Oracle) (s : FPool) (size treeIndex : Nat) : Oracle × Nat × List (List Gap) × Nat × Nat :=
  match gapLoopF size treeIndex (6 - treeIndex) o s.gapPool s.p.gaps none with
  | (o1, gp1, gaps1, some off) => (o1, gp1, gaps1, off, s.p.size)
  | (o1, gp1, gaps1, none) =>
    let diff := alignUpDiff s.p.size size
    if diff ≠ 0 then
      match addGapF o1 gp1 gaps1 s.p.size diff with
      | (o2, gp2, gaps2) => (o2, gp2, gaps2, s.p.size + diff, s.p.size + diff + size)
    else (o1, gp1, gaps1, s.p.size + diff, s.p.size + diff + size)

/-- the pieces of one size; `(oracle, tree, go on)`: a failed node request stops all sharing -/
def shareLevelF (data : Bytes) (offset smaller treeIndex : Nat) : List Nat → Oracle → List (List Node) → Oracle × List (List Node) × Bool
  | [], o, tr => (o, tr, true)
  | i :: rest, o, tr =>
    let piece := (data.drop (i * smaller)).take smaller
    match treeGet (getAt tr treeIndex) piece with
    | some _ => shareLevelF data offset smaller treeIndex rest o tr
    | none =>
      match req o with
      | (true, o1) => (o1, tr, false)
      | (false, o1) =>
        shareLevelF data offset smaller treeIndex rest o1
          (setAt tr treeIndex (treeInsert { data := piece, offset := offset + i * smaller, shared := true } (getAt tr treeIndex)))

def shareLoopF (data : Bytes) (offset : Nat) : (treeIndex smaller pCount : Nat) → Oracle → List (List Node) → Oracle × List (List Node)
  | 0, _, _, o, tree => (o, tree)
  | ti + 1, smaller, pCount, o, tree =>
    if smaller > 4 then
      let pCount := pCount * 2
      let smaller := smaller / 2
      match shareLevelF data offset smaller ti (List.range pCount) o tree with
      | (o1, tree1, true) => shareLoopF data offset ti smaller pCount o1 tree1
      | (o1, tree1, false) => (o1, tree1)
    else (o, tree)

/-- `ConstPool::add(data, size, offset_out)` (repaired request order) under the oracle -/
def addF (o : Oracle) (s : FPool) (data : Bytes) : Oracle × FPool × Res :=
  let size := data.length
  if size = 0 ∨ size > kMaxSize then (o, s, .invalidArgument)
  else
    let treeIndex := ctz size
    if 2 ^ treeIndex ≠ size then (o, s, .invalidArgument)
    else
      match treeGet (getAt s.p.tree treeIndex) data with
      | some node => (o, s, .ok node.offset)
      | none =>
        match req o with                       -- the node of the constant, first
        | (true, o1) => (o1, s, .oom)
        | (false, o1) =>
          match allocOffsetF o1 s size treeIndex with
          | (o2, gp2, gaps2, offset, newSize) =>
            let tree := setAt s.p.tree treeIndex (treeInsert { data := data, offset := offset, shared := false } (getAt s.p.tree treeIndex))
            match shareLoopF data offset treeIndex size 1 o2 tree with
            | (o3, tree3) =>
              (o3, { p := { tree := tree3, gaps := gaps2, size := newSize,
                            alignment := max s.p.alignment size,
                            minItemSize := if s.p.minItemSize = 0 then size else min s.p.minItemSize size },
                     gapPool := gp2 }, .ok offset)

end AsmjitVerif.FaultPool
