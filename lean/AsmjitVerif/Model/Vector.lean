/-
Model of asmjit/support/arenavector.cpp/.h (`ArenaVector_grow_rule`, `ArenaVector_expand_byte_size`,
`ArenaVector_reserve_with_byte_size`, `reserve_fit/grow`, `ArenaVector_grow`, `resize_fit/grow` and the inline
`ArenaVector<T>` operations `append/prepend/insert/concat/remove_at/pop/clear/truncate/release/swap/
index_of/last_index_of/contains`).  The buffer is modelled as raw memory: a `List Nat` of exactly `capacity`
items; `memcpy/memmove/memset` are bounds-checked (`none` = the C++ would write outside the buffer).
`last_index_of` follows the REPAIRED code (fixes/C18-4.patch); the capacity clamp and the 64-bit product in `_release` follow
fixes/C18-7.patch and C18-9.patch.  Core-only imports.
-/
import AsmjitVerif.Model.Arena
namespace AsmjitVerif.Vector
open AsmjitVerif.Arena

inductive Err where | ok | oom
  deriving DecidableEq, Repr, Inhabited

structure Vec where
  data : Option Loc := none
  /-- raw contents of the allocation, `buf.length = cap` -/
  buf : List Nat := []
  size : Nat := 0
  cap : Nat := 0
  deriving Repr, Inhabited, DecidableEq

def kGrowThreshold : Nat := 16 * 1024 * 1024

/-- `ArenaVector_grow_rule(log2_size)` -/
def growRule (l : Nat) : Nat :=
  if l < 1 then 0 else if l < 2 then 2 else if l < 4 then 4 else if l < 6 then 6 else if l < 8 then 8 else l

/-- `ArenaVector_expand_byte_size(byte_size)` (`byte_size > 0`) -/
def expandByteSize (b : Nat) : Nat :=
  if b ≤ kGrowThreshold then 1 <<< growRule (bitLen ((b - 1) ||| 1))
  else alignUp (b + 1) kGrowThreshold

/-- write `src` into `buf` at item index `dst` (memcpy/memmove/memset); `none` = out of bounds -/
def blit (buf : List Nat) (dst : Nat) (src : List Nat) : Option (List Nat) :=
  if dst + src.length ≤ buf.length then some (buf.take dst ++ src ++ buf.drop (dst + src.length)) else none

/-- `ArenaVector_reserve_with_byte_size(self, arena, byte_size, item_size)` -/
def reserveWithByteSize (a : State) (v : Vec) (byteSize itemSize : Nat) : State × Vec × Err :=
  match allocReusable a byteSize with
  | (a1, none, _) => (a1, v, .oom)
  | (a1, some p, allocated) =>
    -- repaired (fixes/C18-7.patch): `_capacity = uint32_t(min(allocated_capacity, 0xFFFFFFFF))`
    let newCap := min (allocated / itemSize) 0xFFFFFFFF
    let a2 := match v.data with
      | some old => freeReusable a1 old (v.cap * itemSize)
      | none => a1
    -- memcpy(new_data, old_data, size * item_size); the rest of the new block is uninitialised (modelled as 0)
    let nb := v.buf.take v.size ++ List.replicate (newCap - v.size) 0
    (a2, { v with data := some p, buf := nb, cap := newCap }, .ok)

def isValidSize (n : Nat) : Bool := n < 0xFFFFFFFF

/-- `ArenaVector_reserve_fit` -/
def reserveFit (a : State) (v : Vec) (n itemSize : Nat) : State × Vec × Err :=
  if v.cap ≥ n ∨ !isValidSize n then (a, v, if v.cap ≥ n then .ok else .oom)
  else reserveWithByteSize a v (n * itemSize) itemSize

/-- `ArenaVector_reserve_grow` -/
def reserveGrow (a : State) (v : Vec) (n itemSize : Nat) : State × Vec × Err :=
  if v.cap ≥ n ∨ !isValidSize n then (a, v, if v.cap ≥ n then .ok else .oom)
  else reserveWithByteSize a v (expandByteSize (n * itemSize)) itemSize

/-- `ArenaVector_grow` (`_reserve_additional(n)`) -/
def grow (a : State) (v : Vec) (n itemSize : Nat) : State × Vec × Err :=
  if v.size + n ≥ u64 then (a, v, .oom) else reserveGrow a v (v.size + n) itemSize

/-- inline `reserve_fit(n)` / `reserve_grow(n)` / `reserve_additional()` / `reserve_additional(n)` -/
def reserveFitP (a : State) (v : Vec) (n itemSize : Nat) : State × Vec × Err :=
  if n > v.cap then reserveFit a v n itemSize else (a, v, .ok)
def reserveGrowP (a : State) (v : Vec) (n itemSize : Nat) : State × Vec × Err :=
  if n > v.cap then reserveGrow a v n itemSize else (a, v, .ok)
def reserveAdd1 (a : State) (v : Vec) (itemSize : Nat) : State × Vec × Err :=
  if v.size = v.cap then grow a v 1 itemSize else (a, v, .ok)
def reserveAddN (a : State) (v : Vec) (n itemSize : Nat) : State × Vec × Err :=
  if v.cap - v.size < n then grow a v n itemSize else (a, v, .ok)

/-- result of an operation that writes memory: `none` = the model detected an out-of-bounds write -/
abbrev Res := Option (State × Vec × Err)

/-- `ArenaVector_resize_fit / _grow` -/
def resize (growing : Bool) (a : State) (v : Vec) (n itemSize : Nat) : Res :=
  let r := if v.cap < n then (if growing then reserveGrow a v n itemSize else reserveFit a v n itemSize) else (a, v, .ok)
  match r with
  | (a1, v1, .oom) => some (a1, v1, .oom)
  | (a1, v1, .ok) =>
    if v1.size < n then
      match blit v1.buf v1.size (List.replicate (n - v1.size) 0) with
      | some b => some (a1, { v1 with buf := b, size := n % u32 }, .ok)
      | none => none
    else some (a1, { v1 with size := n % u32 }, .ok)

/-- `insert(arena, index, item)`; `append` = insert at `size`, `prepend` = insert at 0 (same memmove/memcpy) -/
def insert (a : State) (v : Vec) (index item itemSize : Nat) : Res :=
  match reserveAdd1 a v itemSize with
  | (a1, v1, .oom) => some (a1, v1, .oom)
  | (a1, v1, .ok) =>
    -- memmove(dst + 1, dst, (size - index) * sizeof(T)); memcpy(dst, &item, sizeof(T))
    match blit v1.buf (index + 1) ((v1.buf.drop index).take (v1.size - index)) with
    | none => none
    | some b1 => match blit b1 index [item] with
      | none => none
      | some b2 => some (a1, { v1 with buf := b2, size := v1.size + 1 }, .ok)

/-- `concat(arena, other)` -/
def concat (a : State) (v : Vec) (other : Vec) (itemSize : Nat) : Res :=
  let r := if v.cap - v.size < other.size then reserveAddN a v other.size itemSize else (a, v, .ok)
  match r with
  | (a1, v1, .oom) => some (a1, v1, .oom)
  | (a1, v1, .ok) =>
    if other.size = 0 then some (a1, v1, .ok) else
    match blit v1.buf v1.size (other.buf.take other.size) with
    | none => none
    | some b => some (a1, { v1 with buf := b, size := v1.size + other.size }, .ok)

/-- `remove_at(i)` (precondition `i < size`) -/
def removeAt (v : Vec) (i : Nat) : Option Vec :=
  let newSize := v.size - 1
  let n := newSize - i
  if n = 0 then some { v with size := newSize } else
  match blit v.buf i ((v.buf.drop (i + 1)).take n) with
  | some b => some { v with buf := b, size := newSize }
  | none => none

def pop (v : Vec) : Vec × Nat := ({ v with size := v.size - 1 }, v.buf.getD (v.size - 1) 0)
def clear (v : Vec) : Vec := { v with size := 0 }
def truncate (v : Vec) (n : Nat) : Vec := { v with size := min v.size n }

/-- `release(arena)` -/
def release (a : State) (v : Vec) (itemSize : Nat) : State × Vec :=
  match v.data with
  | some p => (freeReusable a p (v.cap * itemSize), {})     -- repaired (fixes/C18-9.patch): 64-bit product
  | none => (a, v)

def items (v : Vec) : List Nat := v.buf.take v.size

/-- `Span::index_of` / `Span::last_index_of` (`SIZE_MAX` = none) / `contains` -/
def indexOf (v : Vec) (x : Nat) : Option Nat :=
  let i := (items v).findIdx (· == x)
  if i < v.size then some i else none
def lastIndexOf (v : Vec) (x : Nat) : Option Nat :=
  let r := (items v).reverse
  let i := r.findIdx (· == x)
  if i < v.size then some (v.size - 1 - i) else none
def contains (v : Vec) (x : Nat) : Bool := (items v).contains x

end AsmjitVerif.Vector
