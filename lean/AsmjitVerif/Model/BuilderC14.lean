/-
C14 on the Builder: what Model/Builder.lean (C08) leaves out because it never fails there - the strict-validation exit of
`BaseBuilder::_emit` (asmjit/core/builder.cpp: `kValidateIntermediate` -> `_funcs.validate(...)` -> `EmitterUtils::log_instruction_failed`:
`reset_state()`, `report_error(err)`, no node is allocated) - and public-API calls as C14's sessions issue them (the one-shot setters
travel with the instruction call).  Core-only.
-/
import AsmjitVerif.Model.Builder

namespace AsmjitVerif.BuilderC14
open AsmjitVerif.Builder

/-- the one-shot part of the front end -/
def oneShotEmpty (f : Front) : Prop := f.opts = 0 ∧ f.extra = "-" ∧ f.cmt = "-"

def clearOneShot (s : St) : St := { s with f := { s.f with opts := 0, extra := "-", cmt := "-" } }

/-- `BaseBuilder::_emit` under `kValidateIntermediate`; `verdict` = what `_funcs.validate` answered (its decision is C13's) -/
def emitChecked (s : St) (verdict : Option String) (id : Nat) (ops : List Operand) : St × Res :=
  match verdict with
  | some e => (clearOneShot s, .err e)          -- log_instruction_failed: reset_state(); report_error(e); nothing is created
  | none => step s (.inst id ops)

/-- a public-API call of a C14 session -/
inductive CallX where
  | plain (op : Op)                                                        -- any non-instruction call
  | emit (o : Nat) (x c : String) (verdict : Option String) (id : Nat) (ops : List Operand)   -- `b.k(k1).lock().add(...)`
  deriving Repr

def isSetter : Op → Bool
  | .opts _ | .extra _ | .icomment _ => true
  | _ => false

def stepX (s : St) : CallX → St × Res
  | .plain op => step s op
  | .emit o x c verdict id ops =>
    let s1 : St := { s with f := { s.f with opts := s.f.opts ||| o, extra := x, cmt := c } }
    emitChecked s1 verdict id ops

def isErr : Res → Bool
  | .err _ => true
  | _ => false

def runX (s : St) : List CallX → St
  | [] => s
  | c :: cs => runX (stepX s c).1 cs

/-- the calls of a history that were not refused -/
def acceptedX (s : St) : List CallX → List CallX
  | [] => []
  | c :: cs => if isErr (stepX s c).2 then acceptedX (stepX s c).1 cs else c :: acceptedX (stepX s c).1 cs

/-- the one-shot setters are not issued on their own in a session (they are part of `.emit`) -/
def nonSetter : CallX → Bool
  | .plain op => !isSetter op
  | _ => true

def noSetters (cs : List CallX) : Bool := cs.all nonSetter

end AsmjitVerif.BuilderC14
