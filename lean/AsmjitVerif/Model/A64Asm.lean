import AsmjitVerif.Model.A64Operand
import AsmjitVerif.Model.A64Imm
import AsmjitVerif.Gen.A64Tables
namespace AsmjitVerif.A64Asm
open AsmjitVerif.A64
def emit (_rq : Request) : Result := .err "NotModelled"
end AsmjitVerif.A64Asm
