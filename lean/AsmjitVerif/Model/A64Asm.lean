/-
Hand model of `a64::Assembler::_emit` (asmjit/arm/a64assembler.cpp), class by class, following the code line by line
(same order of checks, same error kinds).  The model follows the REPAIRED code (fixes/C02-1..6.patch).
Modelled classes (first wave): BaseRR, BaseRRR, BaseRRRR, BaseAddSub, BaseLogical, BaseCmpCmn, BaseMvnNeg, BaseTst,
BaseBfc, BaseBfi, BaseBfm, BaseBfx, BaseExtract, BaseShift, BaseCCmp, BaseCInc, BaseCSel, BaseCSet, BaseMinMax,
BaseMovKNZ, BaseLdpStp.  Everything else answers `NotModelled` (covered by the monitor sweep only).
Tables come from `Gen/A64Tables.lean` (dumped from the compiled a64instdb.cpp on every run).  Core-only imports.
-/
import AsmjitVerif.Model.A64Operand
import AsmjitVerif.Model.A64Imm
import AsmjitVerif.Gen.A64Tables
namespace AsmjitVerif.A64Asm
open AsmjitVerif.A64
open AsmjitVerif.Gen.A64Tables

def kWX : Nat := 3

/-- `Support::bit_test(allowed << RegType::kGp32, type)` -/
def checkGpType (r : Reg) (allowed : Nat) : Bool := ((allowed <<< 5) >>> r.rt) % 2 == 1

/-- the `x` out-parameter of `check_gp_type`: `diff(type, kGp32) & allowed` (uint32 arithmetic) -/
def xOf (r : Reg) (allowed : Nat) : Nat := ((r.rt + 2 ^ 32 - 5) % 2 ^ 32) &&& allowed

def checkGpId (r : Reg) (hi : Nat) : Bool := r.id < 31 || r.id == hi

/-- `Opcode::add_reg`: `(id & 31) << bit` -/
def addReg (id bit : Nat) : BitVec 32 := BitVec.ofNat 32 (id % 32) <<< bit
def addImm (v bit : Nat) : BitVec 32 := BitVec.ofNat 32 v <<< bit
def w32 (n : Nat) : BitVec 32 := BitVec.ofNat 32 n

def ok1 (w : BitVec 32) : Result := .ok [w]
def invalidInstruction : Result := .err "InvalidInstruction"
def invalidPhysId : Result := .err "InvalidPhysId"
def invalidImmediate : Result := .err "InvalidImmediate"
def invalidAddress : Result := .err "InvalidAddress"
def invalidDisplacement : Result := .err "InvalidDisplacement"
def notModelled : Result := .err "NotModelled"

def condCodeToOpcodeField (cond : Nat) : Nat := ((cond + 2 ^ 32 - 2) % 2 ^ 32) % 16

/-- `extend_option_to_reg_type` -/
def extendOptionToRegType (option : Nat) : Nat := if option == 3 || option == 7 then rtGp64 else rtGp32

/-! ### kEncodingBaseRR / RRR / RRRR -/

def emitBaseRR (d : BaseRRRow) (o0 o1 : Reg) : Result :=
  if !checkGpType o0 d.a_type then invalidInstruction else
  if !checkGpType o1 d.b_type then invalidInstruction else
  if d.uniform != 0 && !o0.sameSig o1 then invalidInstruction else
  if !checkGpId o0 d.a_hi_id then invalidPhysId else
  if !checkGpId o1 d.b_hi_id then invalidPhysId else
  ok1 (w32 d.opcode ||| addImm (xOf o0 d.a_type) 31 ||| addReg o1.id d.b_shift ||| addReg o0.id d.a_shift)

def emitBaseRRR (d : BaseRRRRow) (o0 o1 o2 : Reg) : Result :=
  if !checkGpType o0 d.a_type then invalidInstruction else
  if !checkGpType o1 d.b_type then invalidInstruction else
  if !checkGpType o2 d.c_type then invalidInstruction else
  if d.uniform != 0 && !(o0.sameSig o1 && o1.sameSig o2) then invalidInstruction else
  if !checkGpId o0 d.a_hi_id then invalidPhysId else
  if !checkGpId o1 d.b_hi_id then invalidPhysId else
  if !checkGpId o2 d.c_hi_id then invalidPhysId else
  ok1 (w32 d.opcode ||| addImm (xOf o0 d.a_type) 31 ||| addReg o2.id 16 ||| addReg o1.id 5 ||| addReg o0.id 0)

def emitBaseRRRR (d : BaseRRRRRow) (o0 o1 o2 o3 : Reg) : Result :=
  if !checkGpType o0 d.a_type then invalidInstruction else
  if !checkGpType o1 d.b_type then invalidInstruction else
  if !checkGpType o2 d.c_type then invalidInstruction else
  if !checkGpType o3 d.d_type then invalidInstruction else
  if d.uniform != 0 && !(o0.sameSig o1 && o1.sameSig o2 && o2.sameSig o3) then invalidInstruction else
  if !checkGpId o0 d.a_hi_id then invalidPhysId else
  if !checkGpId o1 d.b_hi_id then invalidPhysId else
  if !checkGpId o2 d.c_hi_id then invalidPhysId else
  if !checkGpId o3 d.d_hi_id then invalidPhysId else
  ok1 (w32 d.opcode ||| addImm (xOf o0 d.a_type) 31 ||| addReg o2.id 16 ||| addReg o3.id 10 ||| addReg o1.id 5 ||| addReg o0.id 0)

/-! ### kEncodingBaseAddSub -/

/-- the optional `lsl #0|12` operand of ADD/SUB (immediate): `shift` (0 or 1), or refused -/
def addSubShiftOf (sh : Option (BitVec 64 × Nat)) : Option Nat :=
  match sh with
  | none => some 0
  | some (v, p) => if p != sopLSL then none else if v != 0 && v != 12 then none else some (if v != 0 then 1 else 0)

/-- (imm12, sh) fields for an immediate and the explicit shift: values above 0xFFF are accepted as `0x00XXX000` when no shift was given -/
def addSubImmFields (imm : BitVec 64) (shift : Nat) : Option (Nat × Nat) :=
  if imm.toNat > 0xFFF then
    if shift != 0 || (imm &&& ~~~ 0xFFF000#64) != 0 then none else some (imm.toNat >>> 12, 1)
  else some (imm.toNat, shift)

def emitAddSubImm (d : BaseAddSubRow) (o0 o1 : Reg) (imm : BitVec 64) (sh : Option (BitVec 64 × Nat)) : Result :=
  if !(checkGpType o0 kWX && o0.sameSig o1) then invalidInstruction else
  let x := xOf o0 kWX
  let op : BitVec 32 := w32 d.immediate_op <<< 24
  let aHi := if op.getLsbD 29 then idZR else idSP
  if !checkGpId o0 aHi || !checkGpId o1 idSP then invalidPhysId else
  match addSubShiftOf sh with
  | none => invalidImmediate
  | some shift =>
    match addSubImmFields imm shift with
    | none => invalidImmediate
    | some (field, shf) => ok1 (op ||| addImm x 31 ||| addImm shf 22 ||| addImm field 10 ||| addReg o1.id 5 ||| addReg o0.id 0)

def emitAddSubReg (d : BaseAddSubRow) (o0 o1 o2 : Reg) (sh : Option (BitVec 64 × Nat)) : Result :=
  if !(checkGpType o0 kWX && o0.sameSig o1) then invalidInstruction else
  let x := xOf o0 kWX
  let opSize := if x != 0 then 64 else 32
  let shiftType0 := match sh with | some (_, p) => p | none => sopLSL
  let shift := match sh with | some (v, _) => v.toNat | none => 0
  if !checkGpId o2 idZR then invalidPhysId else
  let hasSp := o0.id == idSP || o1.id == idSP
  let extendPath (shiftType : Nat) : Result :=
    let op : BitVec 32 := w32 d.extended_op <<< 21
    -- shift_type -= kUXTB (uint32)
    let st := (shiftType + 2 ^ 32 - sopUXTB) % 2 ^ 32
    if st > 7 || shift > 4 then invalidImmediate else
    if (if !op.getLsbD 29 then !(checkGpId o0 idSP && checkGpId o1 idSP) else (!checkGpId o0 idZR || !checkGpId o1 idSP)) then invalidPhysId else
    if o2.rt != extendOptionToRegType st || o1.rt < o2.rt then invalidInstruction else
    ok1 (op ||| addImm x 31 ||| addReg o2.id 16 ||| addImm st 13 ||| addImm shift 10 ||| addReg o1.id 5 ||| addReg o0.id 0)
  if shiftType0 ≤ sopASR then
    if !hasSp then
      if !o1.sameSig o2 then invalidInstruction else
      if !(checkGpId o0 idZR && checkGpId o1 idZR) then invalidPhysId else
      if shift ≥ opSize then invalidImmediate else
      ok1 ((w32 d.shifted_op <<< 21) ||| addImm x 31 ||| addImm shiftType0 22 ||| addReg o2.id 16 ||| addImm shift 10 ||| addReg o1.id 5 ||| addReg o0.id 0)
    else if shiftType0 != sopLSL then invalidImmediate
    else extendPath (if x != 0 then sopUXTX else sopUXTW)
  else extendPath shiftType0

/-! ### kEncodingBaseLogical (register forms; the immediate form uses `encode_logical_imm`, modelled and proved in C17) -/

def emitLogicalImm (d : BaseLogicalRow) (o0 o1 : Reg) (imm : BitVec 64) : Result :=
  if !(checkGpType o0 kWX && o0.sameSig o1) then invalidInstruction else
  let x := xOf o0 kWX
  let opSize := if x != 0 then 64 else 32
  let op : BitVec 32 := w32 d.immediate_op <<< 23
  let immMask : BitVec 64 := if x != 0 then BitVec.allOnes 64 else 0xFFFFFFFF#64
  let v := if d.negate_imm != 0 then imm ^^^ immMask else imm
  match A64Imm.encodeLogicalImm (v &&& immMask) opSize with
  | none => invalidImmediate
  | some li =>
    let isANDS := (op &&& 0x60000000#32) == 0x60000000#32
    if !checkGpId o0 (if isANDS then idZR else idSP) || !checkGpId o1 idZR then invalidPhysId else
    ok1 (op ||| addImm x 31 ||| (li.n <<< 22) ||| (li.r <<< 16) ||| (li.s <<< 10) ||| addReg o1.id 5 ||| addReg o0.id 0)

def emitLogicalReg (d : BaseLogicalRow) (o0 o1 o2 : Reg) (sh : Option (BitVec 64 × Nat)) : Result :=
  if !(checkGpType o0 kWX && o0.sameSig o1) then invalidInstruction else
  let x := xOf o0 kWX
  let opSize := if x != 0 then 64 else 32
  if !o1.sameSig o2 then invalidInstruction else
  if !(checkGpId o0 idZR && checkGpId o1 idZR && checkGpId o2 idZR) then invalidPhysId else
  match sh with
  | none => ok1 ((w32 d.shifted_op <<< 21) ||| addImm x 31 ||| addReg o2.id 16 ||| addReg o1.id 5 ||| addReg o0.id 0)
  | some (v, p) =>
    if p > 3 || v.toNat ≥ opSize then invalidImmediate else
    ok1 ((w32 d.shifted_op <<< 21) ||| addImm x 31 ||| addImm p 22 ||| addReg o2.id 16 ||| addImm v.toNat 10 ||| addReg o1.id 5 ||| addReg o0.id 0)

/-! ### conditional select family -/

def emitCSel (opcode : Nat) (o0 o1 o2 : Reg) (cond : BitVec 64) : Result :=
  if !(checkGpType o0 kWX && o0.sameSig o1 && o1.sameSig o2) then invalidInstruction else
  if !(checkGpId o0 idZR && checkGpId o1 idZR && checkGpId o2 idZR) then invalidPhysId else
  if cond.toNat > 0xF then invalidImmediate else
  ok1 (w32 opcode ||| addImm (xOf o0 kWX) 31 ||| addReg o2.id 16 ||| addImm (condCodeToOpcodeField cond.toNat) 12 ||| addReg o1.id 5 ||| addReg o0.id 0)

def emitCInc (opcode : Nat) (o0 o1 : Reg) (cond : BitVec 64) : Result :=
  if !(checkGpType o0 kWX && o0.sameSig o1) then invalidInstruction else
  if !(checkGpId o0 idZR && checkGpId o1 idZR) then invalidPhysId else
  -- `cond - 2u >= 0xEu` on uint64
  if (cond - 2#64).toNat ≥ 0xE then invalidImmediate else
  ok1 (w32 opcode ||| addImm (xOf o0 kWX) 31 ||| addReg o1.id 16 ||| addImm ((condCodeToOpcodeField cond.toNat) ^^^ 1) 12 ||| addReg o1.id 5 ||| addReg o0.id 0)

def emitCSet (opcode : Nat) (o0 : Reg) (cond : BitVec 64) : Result :=
  if !checkGpType o0 kWX then invalidInstruction else
  if !checkGpId o0 idZR then invalidPhysId else
  if (cond - 2#64).toNat ≥ 0xE then invalidImmediate else
  ok1 (w32 opcode ||| addImm (xOf o0 kWX) 31 ||| addImm ((condCodeToOpcodeField cond.toNat) ^^^ 1) 12 ||| addReg o0.id 0)

def emitCCmp (opcode : Nat) (o0 : Reg) (o1 : Operand) (nzcv cond : BitVec 64) : Result :=
  if !checkGpType o0 kWX then invalidInstruction else
  if !checkGpId o0 idZR then invalidPhysId else
  if (nzcv ||| cond).toNat > 0xF then invalidImmediate else
  let base := w32 opcode ||| addImm (xOf o0 kWX) 31 ||| addImm (condCodeToOpcodeField cond.toNat) 12 ||| addImm nzcv.toNat 0
  match o1 with
  | .reg r1 =>
    if !o0.sameSig r1 then invalidInstruction else
    if !checkGpId r1 idZR then invalidPhysId else
    ok1 (base ||| addReg r1.id 16 ||| addReg o0.id 5)
  | .imm imm5 _ =>
    if imm5.toNat > 0x1F then invalidImmediate else
    ok1 (base ||| addImm 1 11 ||| addImm imm5.toNat 16 ||| addReg o0.id 5)
  | _ => notModelled

/-! ### bit-field family -/

def emitBfc (opcode : Nat) (o0 : Reg) (lsb width : BitVec 64) : Result :=
  if !checkGpType o0 kWX then invalidInstruction else
  if !checkGpId o0 idZR then invalidPhysId else
  let x := xOf o0 kWX
  let opSize := if x != 0 then 64 else 32
  if lsb.toNat ≥ opSize || width == 0 || width.toNat > opSize - lsb.toNat then invalidImmediate else
  let lsb32 := (2 ^ 32 - lsb.toNat % 2 ^ 32) % 2 ^ 32 % opSize
  ok1 (w32 opcode ||| addImm x 31 ||| addImm x 22 ||| addImm lsb32 16 ||| addImm (width.toNat - 1) 10 ||| addReg o0.id 0)

def emitBfi (opcode : Nat) (o0 o1 : Reg) (lsb width : BitVec 64) : Result :=
  if !checkGpType o0 kWX then invalidInstruction else
  if !o0.sameSig o1 then invalidInstruction else
  if !(checkGpId o0 idZR && checkGpId o1 idZR) then invalidPhysId else
  let x := xOf o0 kWX
  let opSize := if x != 0 then 64 else 32
  if lsb.toNat ≥ opSize || width == 0 || width.toNat > opSize - lsb.toNat then invalidImmediate else
  let immL := (2 ^ 32 - lsb.toNat % 2 ^ 32) % 2 ^ 32 % opSize
  ok1 (w32 opcode ||| addImm x 31 ||| addImm x 22 ||| addImm immL 16 ||| addImm (width.toNat - 1) 10 ||| addReg o1.id 5 ||| addReg o0.id 0)

def emitBfm (opcode : Nat) (o0 o1 : Reg) (immr imms : BitVec 64) : Result :=
  if !checkGpType o0 kWX then invalidInstruction else
  if !o0.sameSig o1 then invalidInstruction else
  if !(checkGpId o0 idZR && checkGpId o1 idZR) then invalidPhysId else
  let x := xOf o0 kWX
  let opSize := if x != 0 then 64 else 32
  if (immr ||| imms).toNat ≥ opSize then invalidImmediate else
  ok1 (w32 opcode ||| addImm x 31 ||| addImm x 22 ||| addImm immr.toNat 16 ||| addImm imms.toNat 10 ||| addReg o1.id 5 ||| addReg o0.id 0)

def emitBfx (opcode : Nat) (o0 o1 : Reg) (lsb width : BitVec 64) : Result :=
  if !checkGpType o0 kWX then invalidInstruction else
  if !o0.sameSig o1 then invalidInstruction else
  if !(checkGpId o0 idZR && checkGpId o1 idZR) then invalidPhysId else
  let x := xOf o0 kWX
  let opSize := if x != 0 then 64 else 32
  if lsb.toNat ≥ opSize || width == 0 || width.toNat > opSize then invalidImmediate else
  let width32 := (lsb.toNat + width.toNat - 1) % 2 ^ 32
  if width32 ≥ opSize then invalidImmediate else
  ok1 (w32 opcode ||| addImm x 31 ||| addImm x 22 ||| addImm lsb.toNat 16 ||| addImm width32 10 ||| addReg o1.id 5 ||| addReg o0.id 0)

def emitExtract (opcode : Nat) (o0 o1 o2 : Reg) (lsb : BitVec 64) : Result :=
  if !checkGpType o0 kWX then invalidInstruction else
  if !(o0.sameSig o1 && o1.sameSig o2) then invalidInstruction else
  if !(checkGpId o0 idZR && checkGpId o1 idZR && checkGpId o2 idZR) then invalidPhysId else
  let x := xOf o0 kWX
  let opSize := if x != 0 then 64 else 32
  if lsb.toNat ≥ opSize then invalidImmediate else
  ok1 (w32 opcode ||| addImm x 31 ||| addImm x 22 ||| addReg o2.id 16 ||| addImm lsb.toNat 10 ||| addReg o1.id 5 ||| addReg o0.id 0)

/-! ### kEncodingBaseMovKNZ -/

def emitMovKNZ (opcode : Nat) (o0 : Reg) (imm16 : BitVec 64) (sh : Option (BitVec 64 × Nat)) : Result :=
  let x := (o0.rt + 2 ^ 32 - 5) % 2 ^ 32
  if x > 1 then invalidInstruction else
  if !checkGpId o0 idZR then invalidPhysId else
  let op := w32 opcode ||| addImm x 31
  match sh with
  | none =>
    if imm16.toNat > 0xFFFF then invalidImmediate else ok1 (op ||| addImm imm16.toNat 5 ||| addReg o0.id 0)
  | some (sv, p) =>
    if imm16.toNat > 0xFFFF || sv.toNat > 48 || p != sopLSL then invalidImmediate else
    let hw := sv.toNat >>> 4
    if hw <<< 4 != sv.toNat then invalidImmediate else
    if x == 0 && hw > 1 then invalidImmediate else
    ok1 (op ||| addImm hw 21 ||| addImm imm16.toNat 5 ||| addReg o0.id 0)

/-! ### kEncodingBaseMinMax -/

def emitMinMaxReg (d : BaseMinMaxRow) (o0 o1 o2 : Reg) : Result :=
  if !checkGpType o0 kWX then invalidInstruction else
  if !(o0.sameSig o1 && o1.sameSig o2) then invalidInstruction else
  if !(checkGpId o0 idZR && checkGpId o1 idZR && checkGpId o2 idZR) then invalidPhysId else
  ok1 (w32 d.register_op ||| addImm (xOf o0 kWX) 31 ||| addReg o2.id 16 ||| addReg o1.id 5 ||| addReg o0.id 0)

def emitMinMaxImm (d : BaseMinMaxRow) (o0 o1 : Reg) (imm : BitVec 64) : Result :=
  if !checkGpType o0 kWX then invalidInstruction else
  if !o0.sameSig o1 then invalidInstruction else
  if !(checkGpId o0 idZR && checkGpId o1 idZR) then invalidPhysId else
  let fits := if (d.immediate_op >>> 18) % 2 == 1 then imm.toNat ≤ 0xFF else (imm.toInt ≥ -128 && imm.toInt ≤ 127)
  if !fits then invalidImmediate else
  ok1 (w32 d.immediate_op ||| addImm (xOf o0 kWX) 31 ||| addImm (imm.toNat % 256) 10 ||| addReg o1.id 5 ||| addReg o0.id 0)

/-! ### kEncodingBaseLdpStp -/

def emitLdpStp (d : BaseLdpStpRow) (o0 o1 : Reg) (m : Mem) : Result :=
  if !(checkGpType o0 d.reg_type && o0.sameSig o1) then invalidInstruction else
  let x := xOf o0 d.reg_type
  if !(checkGpId o0 idZR && checkGpId o1 idZR) then invalidPhysId else
  if m.baseType != rtGp64 || m.indexType != 0 then invalidAddress else
  let offsetShift := d.offset_shift + x
  let off32 : BitVec 32 := m.off.sshiftRight offsetShift
  if (off32 <<< offsetShift) != m.off then invalidDisplacement else
  if !(off32.toInt ≥ -64 && off32.toInt ≤ 63) then invalidDisplacement else
  let pre := m.mode != 0 && off32 != 0
  if pre && d.pre_post_op == 0 then invalidAddress else
  let op : BitVec 32 := if pre then (w32 d.pre_post_op <<< 22) ||| addImm (if m.mode == 1 then 1 else 0) 24 else (w32 d.offset_op <<< 22)
  -- EmitOp_MemBase_Rn5: check_mem_base
  if !(m.baseType == rtGp64 && m.baseId ≤ 31) then invalidAddress else
  ok1 (op ||| addImm x d.x_offset ||| ((off32 &&& 0x7F#32) <<< 15) ||| addReg o1.id 10 ||| addReg o0.id 0 ||| addReg m.baseId 5)

/-! ### dispatch -/

def optShift (o : Operand) : Option (Option (BitVec 64 × Nat)) :=
  match o with
  | .none => some none
  | .imm v p => some (some (v, p))
  | _ => none

def emitInst (r : InstRow) (rq : Request) : Result :=
  let o := rq.ops
  let enc := r.enc
  if rq.cc != 0 then notModelled else
  if enc == encBaseRR then
    match baseRR[r.idx]?, o with
    | some d, [.reg a, .reg b] => emitBaseRR d a b
    | _, _ => notModelled
  else if enc == encBaseRRR then
    match baseRRR[r.idx]?, o with
    | some d, [.reg a, .reg b, .reg c] => emitBaseRRR d a b c
    | _, _ => notModelled
  else if enc == encBaseRRRR then
    match baseRRRR[r.idx]?, o with
    | some d, [.reg a, .reg b, .reg c, .reg e] => emitBaseRRRR d a b c e
    | _, _ => notModelled
  else if enc == encBaseAddSub then
    match baseAddSub[r.idx]?, o with
    | some d, [.reg a, .reg b, .imm v _] => emitAddSubImm d a b v none
    | some d, [.reg a, .reg b, .imm v _, .imm s p] => emitAddSubImm d a b v (some (s, p))
    | some d, [.reg a, .reg b, .reg c] => emitAddSubReg d a b c none
    | some d, [.reg a, .reg b, .reg c, .imm s p] => emitAddSubReg d a b c (some (s, p))
    | _, _ => notModelled
  else if enc == encBaseLogical then
    match baseLogical[r.idx]?, o with
    | some d, [.reg a, .reg b, .imm v _] => if d.immediate_op != 0 then emitLogicalImm d a b v else notModelled
    | some d, [.reg a, .reg b, .reg c] => emitLogicalReg d a b c none
    | some d, [.reg a, .reg b, .reg c, .imm s p] => emitLogicalReg d a b c (some (s, p))
    | _, _ => notModelled
  else if enc == encBaseCSel then
    match baseCSel[r.idx]?, o with
    | some d, [.reg a, .reg b, .reg c, .imm v _] => emitCSel d.opcode a b c v
    | _, _ => notModelled
  else if enc == encBaseCInc then
    match baseCInc[r.idx]?, o with
    | some d, [.reg a, .reg b, .imm v _] => emitCInc d.opcode a b v
    | _, _ => notModelled
  else if enc == encBaseCSet then
    match baseCSet[r.idx]?, o with
    | some d, [.reg a, .imm v _] => emitCSet d.opcode a v
    | _, _ => notModelled
  else if enc == encBaseCCmp then
    match baseCCmp[r.idx]?, o with
    | some d, [.reg a, b, .imm n _, .imm c _] => emitCCmp d.opcode a b n c
    | _, _ => notModelled
  else if enc == encBaseBfc then
    match baseBfc[r.idx]?, o with
    | some d, [.reg a, .imm l _, .imm w _] => emitBfc d.opcode a l w
    | _, _ => notModelled
  else if enc == encBaseBfi then
    match baseBfi[r.idx]?, o with
    | some d, [.reg a, .reg b, .imm l _, .imm w _] => emitBfi d.opcode a b l w
    | _, _ => notModelled
  else if enc == encBaseBfm then
    match baseBfm[r.idx]?, o with
    | some d, [.reg a, .reg b, .imm l _, .imm w _] => emitBfm d.opcode a b l w
    | _, _ => notModelled
  else if enc == encBaseBfx then
    match baseBfx[r.idx]?, o with
    | some d, [.reg a, .reg b, .imm l _, .imm w _] => emitBfx d.opcode a b l w
    | _, _ => notModelled
  else if enc == encBaseExtract then
    match baseExtract[r.idx]?, o with
    | some d, [.reg a, .reg b, .reg c, .imm l _] => emitExtract d.opcode a b c l
    | _, _ => notModelled
  else if enc == encBaseMovKNZ then
    match baseMovKNZ[r.idx]?, o with
    | some d, [.reg a, .imm v _] => emitMovKNZ d.opcode a v none
    | some d, [.reg a, .imm v _, .imm s p] => emitMovKNZ d.opcode a v (some (s, p))
    | _, _ => notModelled
  else if enc == encBaseMinMax then
    match baseMinMax[r.idx]?, o with
    | some d, [.reg a, .reg b, .reg c] => emitMinMaxReg d a b c
    | some d, [.reg a, .reg b, .imm v _] => emitMinMaxImm d a b v
    | _, _ => notModelled
  else if enc == encBaseLdpStp then
    match baseLdpStp[r.idx]?, o with
    | some d, [.reg a, .reg b, .mem m] => emitLdpStp d a b m
    | _, _ => notModelled
  else notModelled

/-- `a64::Assembler::_emit` on a fresh code holder (no validation option, buffer grown on demand) -/
def emit (rq : Request) : Result :=
  match instTable[rq.inst]? with
  | some r => if rq.inst == 0 then notModelled else emitInst r { rq with ops := (rq.ops.reverse.dropWhile (· == .none)).reverse }
  | none => notModelled

end AsmjitVerif.A64Asm
