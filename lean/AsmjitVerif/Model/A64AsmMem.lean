/-
Second wave of the hand model of `a64::Assembler::_emit` (asmjit/arm/a64assembler.cpp): compare / move / shift
classes, PC-relative emission (`EmitOp_Rel` + `EmitOp_DispImm`), branches, ADR/ADRP and every load/store class with
its addressing modes (`EmitOp_MemBase_Rn5`, `EmitOp_MemBaseNoImm_Rn5`, `EmitOp_MemBaseIndex_Rn5_Rm16`).
Follows the repaired code (fixes/C02-1..11).  Core-only imports.
-/
import AsmjitVerif.Model.A64Asm
namespace AsmjitVerif.A64Asm
open AsmjitVerif.A64
open AsmjitVerif.Gen.A64Tables

def invalidAddressScale : Result := .err "InvalidAddressScale"
def invalidLabel : Result := .err "InvalidLabel"

/-! ### kEncodingBaseCmpCmn -/

def emitCmpCmnImm (d : BaseCmpCmnRow) (o0 : Reg) (imm : BitVec 64) : Result :=
  if !checkGpType o0 kWX then invalidInstruction else
  let x := xOf o0 kWX
  if !checkGpId o0 idSP then invalidPhysId else
  let base := (w32 d.immediate_op <<< 24) ||| addImm x 31
  if imm.toNat > 0xFFF then
    if (imm &&& ~~~ 0xFFF000#64) != 0 then invalidImmediate
    else ok1 (base ||| addImm 1 22 ||| addImm (imm.toNat >>> 12) 10 ||| addReg o0.id 5 ||| addReg idZR 0)
  else ok1 (base ||| addImm 0 22 ||| addImm imm.toNat 10 ||| addReg o0.id 5 ||| addReg idZR 0)

def emitCmpCmnReg (d : BaseCmpCmnRow) (o0 o1 : Reg) (sh : Option (BitVec 64 × Nat)) : Result :=
  if !checkGpType o0 kWX then invalidInstruction else
  let x := xOf o0 kWX
  let opSize := if x != 0 then 64 else 32
  let shiftType0 := match sh with | some (_, p) => p | none => 0
  let shift := match sh with | some (v, _) => v.toNat | none => 0
  let hasSp := o0.id == idSP || o1.id == idSP
  let extendPath (shiftType : Nat) : Result :=
    let st := (shiftType + 2 ^ 32 - sopUXTB) % 2 ^ 32
    if st > 7 || shift > 4 then invalidImmediate else
    if !checkGpId o0 idSP || !checkGpId o1 idZR then invalidPhysId else
    if o1.rt != extendOptionToRegType st || o0.rt < o1.rt then invalidInstruction else
    ok1 ((w32 d.extended_op <<< 21) ||| addImm x 31 ||| addReg o1.id 16 ||| addImm st 13 ||| addImm shift 10 ||| addReg o0.id 5 ||| addReg idZR 0)
  if shiftType0 ≤ sopASR then
    if !hasSp then
      if !o0.sameSig o1 then invalidInstruction else
      if !(checkGpId o0 idZR && checkGpId o1 idZR) then invalidPhysId else
      if shift ≥ opSize then invalidImmediate else
      ok1 ((w32 d.shifted_op <<< 21) ||| addImm x 31 ||| addImm shiftType0 22 ||| addReg o1.id 16 ||| addImm shift 10 ||| addReg o0.id 5 ||| addReg idZR 0)
    else if shiftType0 != sopLSL then invalidImmediate
    else extendPath (if x != 0 then sopUXTX else sopUXTW)
  else extendPath shiftType0

/-! ### kEncodingBaseMvnNeg -/

def emitMvnNeg (d : BaseMvnNegRow) (o0 o1 : Reg) (sh : Option (BitVec 64 × Nat)) : Result :=
  if !(checkGpType o0 kWX && o0.sameSig o1) then invalidInstruction else
  let x := xOf o0 kWX
  let base := w32 d.opcode ||| addImm x 31 ||| addReg o1.id 16 ||| addReg o0.id 0
  if !(checkGpId o0 idZR && checkGpId o1 idZR) then invalidPhysId else
  match sh with
  | none => ok1 base
  | some (v, p) =>
    let opSize := if x != 0 then 64 else 32
    if p > sopROR || v.toNat ≥ opSize then invalidImmediate else
    if p == sopROR && (d.opcode >>> 24) % 2 == 1 then invalidImmediate else
    ok1 (base ||| addImm p 22 ||| addImm v.toNat 10)

/-! ### kEncodingBaseTst -/

def emitTstImm (d : BaseTstRow) (o0 : Reg) (imm : BitVec 64) : Result :=
  if !checkGpType o0 kWX then invalidInstruction else
  let x := xOf o0 kWX
  let opSize := if x != 0 then 64 else 32
  if !checkGpId o0 idZR then invalidPhysId else
  let immMask : BitVec 64 := if x != 0 then BitVec.allOnes 64 else 0xFFFFFFFF#64
  match A64Imm.encodeLogicalImm (imm &&& immMask) opSize with
  | none => invalidImmediate
  | some li =>
    ok1 ((w32 d.immediate_op <<< 22) ||| (li.n <<< 22) ||| (li.r <<< 16) ||| (li.s <<< 10) ||| addImm x 31 ||| addReg o0.id 5 ||| addReg idZR 0)

def emitTstReg (d : BaseTstRow) (o0 o1 : Reg) (sh : Option (BitVec 64 × Nat)) : Result :=
  if !checkGpType o0 kWX then invalidInstruction else
  let x := xOf o0 kWX
  let opSize := if x != 0 then 64 else 32
  let base := (w32 d.shifted_op <<< 21) ||| addImm x 31 ||| addReg o1.id 16 ||| addReg o0.id 5 ||| addReg idZR 0
  if !o0.sameSig o1 then invalidInstruction else
  if !(checkGpId o0 idZR && checkGpId o1 idZR) then invalidPhysId else
  match sh with
  | none => ok1 base
  | some (v, p) =>
    if p > 3 || v.toNat ≥ opSize then invalidImmediate else ok1 (base ||| addImm p 22 ||| addImm v.toNat 10)

/-! ### kEncodingBaseShift -/

def emitShiftReg (d : BaseShiftRow) (o0 o1 o2 : Reg) : Result :=
  if !checkGpType o0 kWX then invalidInstruction else
  if !(o0.sameSig o1 && o1.sameSig o2) then invalidInstruction else
  if !(checkGpId o0 idZR && checkGpId o1 idZR && checkGpId o2 idZR) then invalidPhysId else
  ok1 (w32 d.register_op ||| addImm (xOf o0 kWX) 31 ||| addReg o2.id 16 ||| addReg o1.id 5 ||| addReg o0.id 0)

def emitShiftImm (d : BaseShiftRow) (o0 o1 : Reg) (immr : BitVec 64) : Result :=
  if !checkGpType o0 kWX then invalidInstruction else
  if d.immediate_op == 0 then invalidInstruction else
  if !o0.sameSig o1 then invalidInstruction else
  if !(checkGpId o0 idZR && checkGpId o1 idZR) then invalidPhysId else
  let x := xOf o0 kWX
  let opSize := if x != 0 then 64 else 32
  if immr.toNat ≥ opSize then invalidImmediate else
  let op := w32 d.immediate_op ||| addImm x 31 ||| addImm x 22 ||| addReg o1.id 5 ||| addReg o0.id 0
  if op.getLsbD 10 then ok1 (op ||| addImm x 15 ||| addImm immr.toNat 16)
  else if d.ror == 0 then
    ok1 (op ||| addImm ((2 ^ 32 - immr.toNat) % 2 ^ 32 % opSize) 16 ||| addImm (opSize - 1 - immr.toNat) 10)
  else ok1 (op ||| addImm immr.toNat 10 ||| addReg o1.id 16)

/-! ### kEncodingBaseMov -/

def emitMovReg (o0 o1 : Reg) : Result :=
  let x := (o0.rt + 2 ^ 32 - 5) % 2 ^ 32
  if x > 1 then invalidInstruction else
  if !o0.sameSig o1 then invalidInstruction else
  if o0.id == idSP || o1.id == idSP then
    if !(checkGpId o0 idSP && checkGpId o1 idSP) then invalidPhysId else
    ok1 (0x11000000#32 ||| addImm x 31 ||| addReg o1.id 5 ||| addReg o0.id 0)
  else
    if !(checkGpId o0 idZR && checkGpId o1 idZR) then invalidPhysId else
    ok1 (0x2A0003E0#32 ||| addImm x 31 ||| addReg o1.id 16 ||| addReg o0.id 0)

def emitMovImm (o0 : Reg) (imm : BitVec 64) : Result :=
  let x := (o0.rt + 2 ^ 32 - 5) % 2 ^ 32
  if x > 1 then invalidInstruction else
  let v := if x == 0 then imm &&& 0xFFFFFFFF#64 else imm
  let seq := A64Imm.encodeMovSequence64 v (w32 (o0.id % 32)) (w32 x)
  if seq.length == 1 && o0.id != idSP then
    if !checkGpId o0 idZR then invalidPhysId else .ok seq
  else
    match (if o0.id != idZR then A64Imm.encodeLogicalImm v (if x != 0 then 64 else 32) else none) with
    | some li =>
      if !checkGpId o0 idSP then invalidPhysId else
      ok1 (0x320003E0#32 ||| addImm x 31 ||| (li.n <<< 22) ||| (li.r <<< 16) ||| (li.s <<< 10) ||| addReg o0.id 0)
    | none =>
      if !checkGpId o0 idZR then invalidPhysId else .ok seq

/-! ### PC-relative emission: `EmitOp_Rel` + `EmitOp_DispImm` -/

structure RelFormat where
  adr : Bool          -- OffsetType::kAArch64_ADR / ADRP: immlo at 29, immhi at 5
  page : Bool         -- ADRP
  bitCount : Nat
  bitShift : Nat
  discard : Nat

/-- `offset_value` of `EmitOp_Rel` for a target operand at section offset `pos` (label 0 bound at 0, base address
0x10000000, section offset 0).  An absolute-address memory operand is a target like an immediate (fixes/C02-12.patch). -/
def relOffset (f : RelFormat) (pos : Nat) (target : Operand) : Except Result (BitVec 64) :=
  match target with
  | .label => .ok (0#64 - BitVec.ofNat 64 pos)
  | .memLabel off => .ok (0#64 - BitVec.ofNat 64 pos + (off.truncate 32 : BitVec 32).signExtend 64)
  | .abs a =>
    let pc := baseAddress + BitVec.ofNat 64 pos
    let pc := if f.page then pc &&& ~~~ 0xFFF#64 else pc
    .ok (a - pc)
  | .imm t _ =>
    let pc := baseAddress + BitVec.ofNat 64 pos
    let pc := if f.page then pc &&& ~~~ 0xFFF#64 else pc
    .ok (t - pc)
  | .fimm t =>
    let pc := baseAddress + BitVec.ofNat 64 pos
    let pc := if f.page then pc &&& ~~~ 0xFFF#64 else pc
    .ok (t - pc)
  | _ => .error invalidInstruction

def emitDispImm (f : RelFormat) (opcode : BitVec 32) (ov : BitVec 64) : Result :=
  if ov &&& (BitVec.ofNat 64 (2 ^ f.discard - 1)) != 0 then invalidDisplacement else
  let disp : BitVec 64 := ov.sshiftRight f.discard
  let nrev := 64 - f.bitCount
  if ((disp <<< nrev).sshiftRight nrev) != disp then invalidDisplacement else
  let d32 : BitVec 32 := (disp &&& BitVec.ofNat 64 (2 ^ f.bitCount - 1)).truncate 32
  if f.adr then ok1 (opcode ||| ((d32 &&& 3#32) <<< 29) ||| ((d32 >>> 2) <<< 5))
  else ok1 (opcode ||| (d32 <<< f.bitShift))

def emitRel (f : RelFormat) (opcode : BitVec 32) (pos : Nat) (target : Operand) : Result :=
  match relOffset f pos target with
  | .ok ov => emitDispImm f opcode ov
  | .error e => e

def fmtBranch19 : RelFormat := { adr := false, page := false, bitCount := 19, bitShift := 5, discard := 2 }
def fmtBranch26 : RelFormat := { adr := false, page := false, bitCount := 26, bitShift := 0, discard := 2 }
def fmtBranch14 : RelFormat := { adr := false, page := false, bitCount := 14, bitShift := 5, discard := 2 }

def isRelTarget : Operand → Bool
  | .label | .imm _ _ | .fimm _ => true
  | _ => false

/-! ### ADR / ADRP and branches -/

def emitAdr (d : BaseAdrRow) (isAdrp : Bool) (o0 : Reg) (pos : Nat) (target : Operand) : Result :=
  if !o0.isGp64 then invalidInstruction else
  if !checkGpId o0 idZR then invalidPhysId else
  emitRel { adr := true, page := isAdrp, bitCount := 21, bitShift := 5, discard := if isAdrp then 12 else 0 }
    (w32 d.opcode ||| addReg o0.id 0) pos target

def emitBranchReg (opcode : Nat) (o0 : Reg) : Result :=
  if !o0.isGp64 then invalidInstruction else
  if !checkGpId o0 idZR then invalidPhysId else
  ok1 (w32 opcode ||| addReg o0.id 5)

def emitBranchRel (opcode : Nat) (cc : Nat) (pos : Nat) (target : Operand) : Result :=
  let op := w32 opcode
  if cc != 0 || op.getLsbD 30 then
    if op.getLsbD 31 then invalidInstruction else
    emitRel fmtBranch19 (op ||| 0x40000000#32 ||| addImm (condCodeToOpcodeField cc) 0) pos target
  else emitRel fmtBranch26 op pos target

def emitBranchCmp (opcode : Nat) (o0 : Reg) (pos : Nat) (target : Operand) : Result :=
  if !checkGpType o0 kWX then invalidInstruction else
  if !checkGpId o0 idZR then invalidPhysId else
  emitRel fmtBranch19 (w32 opcode ||| addImm (xOf o0 kWX) 31 ||| addReg o0.id 0) pos target

def emitBranchTst (opcode : Nat) (o0 : Reg) (bit : BitVec 64) (pos : Nat) (target : Operand) : Result :=
  if !checkGpType o0 kWX then invalidInstruction else
  if !checkGpId o0 idZR then invalidPhysId else
  let x := xOf o0 kWX
  if bit.toNat ≥ 64 then invalidImmediate else
  if bit.toNat ≥ 32 && x == 0 then invalidImmediate else
  let op := if bit.toNat ≥ 32 then w32 opcode ||| addImm x 31 else w32 opcode
  emitRel fmtBranch14 (op ||| addReg o0.id 0 ||| addImm (bit.toNat % 32) 19) pos target

/-! ### memory operand helpers -/

/-- the operand as the assembler's `Mem`: (base type, base id, index type, index id, shift op, shift, mode, has_offset) -/
structure MemView where
  baseType : Nat
  baseId : Nat
  indexType : Nat
  indexId : Nat
  shiftOp : Nat
  shift : Nat
  mode : Nat
  off32 : BitVec 32
  hasOffset : Bool

def memView : Operand → Option MemView
  | .mem m => some { baseType := m.baseType, baseId := m.baseId, indexType := m.indexType, indexId := m.indexId, shiftOp := m.shiftOp,
                     shift := m.shift, mode := m.mode, off32 := m.off, hasOffset := m.off != 0 }
  | .abs a => some { baseType := 0, baseId := a.toNat >>> 32, indexType := 0, indexId := 0, shiftOp := 0, shift := 0, mode := 0,
                     off32 := a.truncate 32, hasOffset := a != 0 }
  | .memLabel off => some { baseType := rtLabel, baseId := 0, indexType := 0, indexId := 0, shiftOp := 0, shift := 0, mode := 0,
                            off32 := off.truncate 32, hasOffset := off.truncate 32 != (0 : BitVec 32) }
  | _ => none

def MemView.hasBaseReg (m : MemView) : Bool := m.baseType > rtLabel
def MemView.hasIndex (m : MemView) : Bool := m.indexType != 0

/-- `check_mem_base_index_rel` -/
def checkMemBaseIndexRel (m : MemView) : Bool :=
  if !(m.baseType == 0 || m.baseType == rtLabel || m.baseType == rtGp64) then false else
  if m.baseType > rtLabel then
    if !(m.indexType == 0 || m.indexType == rtGp32 || m.indexType == rtGp64) then false
    else if m.indexType == 0 then true else !m.hasOffset
  else m.indexType == 0

/-- `check_mem_base` -/
def checkMemBase (m : MemView) : Bool := m.baseType == rtGp64 && m.baseId ≤ 31

/-- `EmitOp_MemBase_Rn5` -/
def tailMemBase (opcode : BitVec 32) (m : MemView) : Result :=
  if !checkMemBase m then invalidAddress else ok1 (opcode ||| addReg m.baseId 5)

/-- `EmitOp_MemBaseNoImm_Rn5` -/
def tailMemBaseNoImm (opcode : BitVec 32) (m : MemView) : Result :=
  if !checkMemBase m || m.hasIndex then invalidAddress else
  if m.hasOffset then invalidDisplacement else ok1 (opcode ||| addReg m.baseId 5)

/-- `EmitOp_MemBaseIndex_Rn5_Rm16`.  Two variants are transcribed; `Gen/A64Tables` says which one the current source has
(tools/gen_a64.py `source_features`): the original tail checks only "has a base register" and the index id; the repaired
tail (fixes/C02-7.patch) also checks the base (`check_mem_base`), refuses write-back modes and a W index register with
LSL / SXTX (option<0> = 1, opcode bit 13). -/
def tailMemBaseIndex (opcode : BitVec 32) (m : MemView) : Result :=
  if (if srcIndexTailChecksBase == 1 then (!checkMemBase m || m.mode != 0) else !m.hasBaseReg) then invalidAddress else
  if srcIndexTailChecksWIndex == 1 && m.indexType == rtGp32 && opcode.getLsbD 13 then invalidAddress else
  if m.indexId > 30 && m.indexId != idZR then invalidPhysId else
  ok1 (opcode ||| addReg m.indexId 16 ||| addReg m.baseId 5)

def shiftOpToLdStOpt (sop : Nat) : Nat :=
  match shiftOpToLdStOptMap[sop]? with
  | some r => r.value
  | none => 0xFF

def isInt9 (v : BitVec 32) : Bool := v.toInt ≥ -256 && v.toInt ≤ 255

/-! ### kEncodingBaseRM_SImm9 (also the LDUR/STUR fallback of BaseLdSt), SImm10, NoImm -/

def emitRMSImm9 (d : BaseRM_SImm9Row) (o0 : Reg) (m : MemView) : Result :=
  if !checkGpType o0 d.reg_type then invalidInstruction else
  let x := xOf o0 d.reg_type
  if !checkGpId o0 d.reg_hi_id then invalidPhysId else
  if m.hasBaseReg && !m.hasIndex then
    let off32 := m.off32.sshiftRight d.imm_shift
    if (off32 <<< d.imm_shift) != m.off32 then invalidDisplacement else
    if !isInt9 off32 then invalidDisplacement else
    if m.mode != 0 && d.pre_post_op == 0 then invalidInstruction else
    let op : BitVec 32 := if m.mode == 0 then w32 d.offset_op else (w32 d.pre_post_op ^^^ addImm (if m.mode == 1 then 1 else 0) 11)
    tailMemBase ((op ^^^ addImm x d.x_offset) ||| ((off32 &&& 0x1FF#32) <<< 12) ||| addReg o0.id 0) m
  else invalidAddress

def emitRMSImm10 (d : BaseRM_SImm10Row) (o0 : Reg) (m : MemView) : Result :=
  if !checkGpType o0 d.reg_type then invalidInstruction else
  let x := xOf o0 d.reg_type
  if !checkGpId o0 d.reg_hi_id then invalidPhysId else
  if m.hasBaseReg && !m.hasIndex then
    let off32 := m.off32.sshiftRight d.imm_shift
    if (off32 <<< d.imm_shift) != m.off32 then invalidDisplacement else
    if !(off32.toInt ≥ -512 && off32.toInt ≤ 511) then invalidDisplacement else
    if m.mode == 2 then invalidAddress else
    let o := off32 &&& 0x3FF#32
    tailMemBase (((w32 d.opcode ^^^ addImm (if m.mode == 1 then 1 else 0) 11) ^^^ addImm x d.x_offset) ||| ((o >>> 9) <<< 22) ||| (o <<< 12) ||| addReg o0.id 0) m
  else invalidAddress

def emitRMNoImm (d : BaseRM_NoImmRow) (o0 : Reg) (m : MemView) : Result :=
  if !checkGpType o0 d.reg_type then invalidInstruction else
  if !checkGpId o0 d.reg_hi_id then invalidPhysId else
  tailMemBaseNoImm (w32 d.opcode ||| addImm (xOf o0 d.reg_type) d.x_offset ||| addReg o0.id 0) m

/-! ### kEncodingBaseLdSt -/

def emitLdSt (d : BaseLdStRow) (o0 : Reg) (mo : Operand) (m : MemView) (pos : Nat) : Result :=
  if !checkGpType o0 d.reg_type then invalidInstruction else
  let x := xOf o0 d.reg_type
  if !checkGpId o0 idZR then invalidPhysId else
  let immShift := d.u_offset_shift + (x &&& (if d.u_offset_shift == 2 then 1 else 0))
  if !checkMemBaseIndexRel m then invalidAddress else
  if m.hasBaseReg then
    if m.hasIndex then
      let opt := shiftOpToLdStOpt m.shiftOp
      if opt == 0xFF then invalidAddress else
      let s := if m.shift != 0 then 1 else 0
      if s == 1 && m.shift != immShift then invalidAddressScale else
      tailMemBaseIndex (((w32 d.register_op <<< 21) ^^^ addImm x d.x_offset) ||| addImm opt 13 ||| addImm s 12 ||| 0x800#32 ||| addReg o0.id 0) m
    else if m.mode != 0 then
      if !isInt9 m.off32 then invalidDisplacement else
      tailMemBase (((w32 d.pre_post_op <<< 21) ^^^ addImm x d.x_offset) ||| ((m.off32 &&& 0x1FF#32) <<< 12) |||
                   addImm (if m.mode == 1 then 1 else 0) 11 ||| 0x400#32 ||| addReg o0.id 0) m
    else
      let imm12 := m.off32 >>> immShift
      if !(imm12.toNat < 4096) || (imm12 <<< immShift) != m.off32 then
        -- LDUR/STUR fallback: `goto Case_BaseLdurStur` with the row of `u_alt_inst_id`
        match instTable[d.u_alt_inst_id]? with
        | some r => match baseRM_SImm9[r.idx]? with
                    | some d9 => emitRMSImm9 d9 o0 m
                    | none => notModelled
        | none => notModelled
      else tailMemBase (((w32 d.u_offset_op <<< 22) ^^^ addImm x d.x_offset) ||| (imm12 <<< 10) ||| addReg o0.id 0) m
  else
    if d.literal_op == 0 then invalidAddress else
    emitRel fmtBranch19 (((w32 d.literal_op <<< 24) ^^^ addImm x d.x_offset) ||| addReg o0.id 0) pos mo

/-! ### exclusive / atomic classes ending in `EmitOp_MemBaseNoImm_Rn5` -/

def emitStx (d : BaseStxRow) (o0 o1 : Reg) (m : MemView) : Result :=
  if !o0.isGp32 || !checkGpType o1 d.reg_type then invalidInstruction else
  if !(checkGpId o0 idZR && checkGpId o1 idZR) then invalidPhysId else
  tailMemBaseNoImm (w32 d.opcode ||| addImm (xOf o1 d.reg_type) d.x_offset ||| addReg o0.id 16 ||| addReg o1.id 0) m

def emitLdxp (d : BaseLdxpRow) (o0 o1 : Reg) (m : MemView) : Result :=
  if !checkGpType o0 d.reg_type || !o0.sameSig o1 then invalidInstruction else
  if !(checkGpId o0 idZR && checkGpId o1 idZR) then invalidPhysId else
  tailMemBaseNoImm (w32 d.opcode ||| addImm (xOf o0 d.reg_type) d.x_offset ||| addReg o1.id 10 ||| addReg o0.id 0) m

def emitStxp (d : BaseStxpRow) (o0 o1 o2 : Reg) (m : MemView) : Result :=
  if !o0.isGp32 || !checkGpType o1 d.reg_type || !o1.sameSig o2 then invalidInstruction else
  if !(checkGpId o0 idZR && checkGpId o1 idZR && checkGpId o2 idZR) then invalidPhysId else
  tailMemBaseNoImm (w32 d.opcode ||| addImm (xOf o1 d.reg_type) d.x_offset ||| addReg o0.id 16 ||| addReg o2.id 10 ||| addReg o1.id 0) m

def emitAtomicOp (d : BaseAtomicOpRow) (o0 o1 : Reg) (m : MemView) : Result :=
  if !checkGpType o0 d.reg_type || !o0.sameSig o1 then invalidInstruction else
  if !(checkGpId o0 idZR && checkGpId o1 idZR) then invalidInstruction else      -- sic: InvalidInstruction in the C++
  tailMemBaseNoImm (w32 d.opcode ||| addImm (xOf o0 d.reg_type) d.x_offset ||| addReg o0.id 16 ||| addReg o1.id 0) m

def emitAtomicSt (d : BaseAtomicStRow) (o0 : Reg) (m : MemView) : Result :=
  if !checkGpType o0 d.reg_type then invalidInstruction else
  if !checkGpId o0 idZR then invalidPhysId else
  tailMemBaseNoImm (w32 d.opcode ||| addImm (xOf o0 d.reg_type) d.x_offset ||| addReg o0.id 16 ||| addReg idZR 0) m

/-! ### dispatch of the second wave -/

def emitInst2 (r : InstRow) (rq : Request) : Result :=
  let o := rq.ops
  let enc := r.enc
  if enc == encBaseBranchRel then
    if rq.cc != 0 && r.name != "b" && !(srcBcAcceptsCond == 1 && r.name == "bc") then invalidInstruction else
    match baseBranchRel[r.idx]?, o with
    | some d, [t] => if isRelTarget t then emitBranchRel d.opcode rq.cc rq.pos t else notModelled
    | _, _ => notModelled
  else if rq.cc != 0 then notModelled
  else if enc == encBaseCmpCmn then
    match baseCmpCmn[r.idx]?, o with
    | some d, [.reg a, .imm v _] => emitCmpCmnImm d a v
    | some d, [.reg a, .reg b] => emitCmpCmnReg d a b none
    | some d, [.reg a, .reg b, .imm s p] => emitCmpCmnReg d a b (some (s, p))
    | _, _ => notModelled
  else if enc == encBaseMvnNeg then
    match baseMvnNeg[r.idx]?, o with
    | some d, [.reg a, .reg b] => emitMvnNeg d a b none
    | some d, [.reg a, .reg b, .imm s p] => emitMvnNeg d a b (some (s, p))
    | _, _ => notModelled
  else if enc == encBaseTst then
    match baseTst[r.idx]?, o with
    | some d, [.reg a, .imm v _] => if d.immediate_op != 0 then emitTstImm d a v else notModelled
    | some d, [.reg a, .reg b] => emitTstReg d a b none
    | some d, [.reg a, .reg b, .imm s p] => emitTstReg d a b (some (s, p))
    | _, _ => notModelled
  else if enc == encBaseShift then
    match baseShift[r.idx]?, o with
    | some d, [.reg a, .reg b, .reg c] => emitShiftReg d a b c
    | some d, [.reg a, .reg b, .imm v _] => emitShiftImm d a b v
    | _, _ => notModelled
  else if enc == encBaseMov then
    match o with
    | [.reg a, .reg b] => emitMovReg a b
    | [.reg a, .imm v _] => emitMovImm a v
    | _ => notModelled
  else if enc == encBaseAdr then
    match baseAdr[r.idx]?, o with
    | some d, [.reg a, t] => if isRelTarget t then emitAdr d (r.name == "adrp") a rq.pos t else notModelled
    | _, _ => notModelled
  else if enc == encBaseBranchReg then
    match baseBranchReg[r.idx]?, o with
    | some d, [.reg a] => emitBranchReg d.opcode a
    | _, _ => notModelled
  else if enc == encBaseBranchCmp then
    match baseBranchCmp[r.idx]?, o with
    | some d, [.reg a, t] => if isRelTarget t then emitBranchCmp d.opcode a rq.pos t else notModelled
    | _, _ => notModelled
  else if enc == encBaseBranchTst then
    match baseBranchTst[r.idx]?, o with
    | some d, [.reg a, .imm b _, t] => if isRelTarget t then emitBranchTst d.opcode a b rq.pos t else notModelled
    | _, _ => notModelled
  else if enc == encBaseLdSt then
    match baseLdSt[r.idx]?, o with
    | some d, [.reg a, mo] => match memView mo with
                              | some m => emitLdSt d a mo m rq.pos
                              | none => notModelled
    | _, _ => notModelled
  else if enc == encBaseRM_SImm9 then
    match baseRM_SImm9[r.idx]?, o with
    | some d, [.reg a, mo] => match memView mo with
                              | some m => emitRMSImm9 d a m
                              | none => notModelled
    | _, _ => notModelled
  else if enc == encBaseRM_SImm10 then
    match baseRM_SImm10[r.idx]?, o with
    | some d, [.reg a, mo] => match memView mo with
                              | some m => emitRMSImm10 d a m
                              | none => notModelled
    | _, _ => notModelled
  else if enc == encBaseRM_NoImm then
    match baseRM_NoImm[r.idx]?, o with
    | some d, [.reg a, mo] => match memView mo with
                              | some m => emitRMNoImm d a m
                              | none => notModelled
    | _, _ => notModelled
  else if enc == encBaseStx then
    match baseStx[r.idx]?, o with
    | some d, [.reg a, .reg b, mo] => match memView mo with
                                      | some m => emitStx d a b m
                                      | none => notModelled
    | _, _ => notModelled
  else if enc == encBaseLdxp then
    match baseLdxp[r.idx]?, o with
    | some d, [.reg a, .reg b, mo] => match memView mo with
                                      | some m => emitLdxp d a b m
                                      | none => notModelled
    | _, _ => notModelled
  else if enc == encBaseStxp then
    match baseStxp[r.idx]?, o with
    | some d, [.reg a, .reg b, .reg c, mo] => match memView mo with
                                              | some m => emitStxp d a b c m
                                              | none => notModelled
    | _, _ => notModelled
  else if enc == encBaseAtomicOp then
    match baseAtomicOp[r.idx]?, o with
    | some d, [.reg a, .reg b, mo] => match memView mo with
                                      | some m => emitAtomicOp d a b m
                                      | none => notModelled
    | _, _ => notModelled
  else if enc == encBaseAtomicSt then
    match baseAtomicSt[r.idx]?, o with
    | some d, [.reg a, mo] => match memView mo with
                              | some m => emitAtomicSt d a m
                              | none => notModelled
    | _, _ => notModelled
  else notModelled

/-- both waves -/
def emitAll (rq : Request) : Result :=
  match instTable[rq.inst]? with
  | some r =>
    if rq.inst == 0 then notModelled else
    let rq' := { rq with ops := (rq.ops.reverse.dropWhile (· == .none)).reverse }
    match emitInst r rq' with
    | .err "NotModelled" => emitInst2 r rq'
    | res => res
  | none => notModelled

end AsmjitVerif.A64Asm
