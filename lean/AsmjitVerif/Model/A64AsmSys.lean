/-
Fifth wave of the hand model of `a64::Assembler::_emit`: the simple and system classes - BaseOp, BaseOpX16, BaseOpImm,
BaseR, BaseRRII, BaseExtend, BaseRev, BaseAtDcIcTlbi, BaseMrs, BaseMsr, BaseSys.  Follows /repo HEAD.  Core-only imports.
-/
import AsmjitVerif.Model.A64AsmMore
namespace AsmjitVerif.A64Asm
open AsmjitVerif.A64
open AsmjitVerif.Gen.A64Tables

def emitBaseR (d : BaseRRow) (o0 : Reg) : Result :=
  if !checkGpType o0 d.reg_type then invalidInstruction else
  if !checkGpId o0 d.reg_hi_id then invalidPhysId else
  ok1 (w32 d.opcode ||| addReg o0.id d.r_shift)

def emitBaseOpImm (d : BaseOpImmRow) (imm : BitVec 64) : Result :=
  if imm.toNat ≥ 2 ^ d.imm_bits then invalidImmediate else ok1 (w32 d.opcode ||| addImm imm.toNat d.imm_offset)

def emitBaseRRII (d : BaseRRIIRow) (o0 o1 : Reg) (a b : BitVec 64) : Result :=
  if !checkGpType o0 d.a_type then invalidInstruction else
  if !checkGpType o1 d.b_type then invalidInstruction else
  if !checkGpId o0 d.a_hi_id then invalidPhysId else
  if !checkGpId o1 d.b_hi_id then invalidPhysId else
  -- `Support::bit_mask<uint32_t>(n)` = 1 << n
  if a.toNat ≥ 2 ^ (d.a_imm_size + d.a_imm_discard_lsb) || b.toNat ≥ 2 ^ (d.b_imm_size + d.b_imm_discard_lsb) then invalidImmediate else
  let ai := (a.toNat % 2 ^ 32) >>> d.a_imm_discard_lsb
  let bi := (b.toNat % 2 ^ 32) >>> d.b_imm_discard_lsb
  if (ai <<< d.a_imm_discard_lsb) % 2 ^ 32 != a.toNat % 2 ^ 32 || (bi <<< d.b_imm_discard_lsb) % 2 ^ 32 != b.toNat % 2 ^ 32 then invalidImmediate else
  ok1 (w32 d.opcode ||| addImm ai d.a_imm_offset ||| addImm bi d.b_imm_offset ||| addReg o1.id 5 ||| addReg o0.id 0)

def emitExtend (d : BaseExtendRow) (o0 o1 : Reg) : Result :=
  if !checkGpType o0 d.reg_type then invalidInstruction else
  if !o1.isGp32 then invalidInstruction else
  if !(checkGpId o0 idZR && checkGpId o1 idZR) then invalidPhysId else
  let x := xOf o0 d.reg_type
  ok1 (w32 d.opcode ||| addImm x 31 ||| addImm x 22 ||| addReg o1.id 5 ||| addReg o0.id 0)

def emitRev (o0 o1 : Reg) : Result :=
  if !checkGpType o0 kWX then invalidInstruction else
  if !o0.sameSig o1 then invalidInstruction else
  if !(checkGpId o0 idZR && checkGpId o1 idZR) then invalidPhysId else
  let x := xOf o0 kWX
  ok1 (0x5AC00800#32 ||| addImm x 31 ||| addImm x 10 ||| addReg o1.id 5 ||| addReg o0.id 0)

/-- AT / DC / IC / TLBI: `#op {, Xt}` -/
def emitAtDcIcTlbi (d : BaseAtDcIcTlbiRow) (imm : BitVec 64) (o1 : Operand) : Result :=
  match o1 with
  | .none | .reg _ =>
    if d.mandatory_reg != 0 && o1 == .none then invalidInstruction else
    if imm.toNat > 0x7FFF then invalidImmediate else
    if imm.toNat &&& d.imm_verify_mask != d.imm_verify_data then invalidImmediate else
    (match o1 with
     | .reg r =>
       if !r.isGp64 then invalidInstruction else
       if !checkGpId r idZR then invalidPhysId else
       ok1 (0xD5080000#32 ||| addImm imm.toNat 5 ||| addReg r.id 0)
     | _ => ok1 (0xD5080000#32 ||| addImm imm.toNat 5 ||| addReg 31 0))
  | _ => notModelled

def emitMrs (o0 : Reg) (imm : BitVec 64) : Result :=
  if !o0.isGp64 then invalidInstruction else
  if !checkGpId o0 idZR then invalidPhysId else
  if imm.toNat > 0xFFFF then invalidImmediate else
  if (imm.toNat >>> 15) % 2 == 0 then invalidImmediate else
  ok1 (0xD5300000#32 ||| addImm imm.toNat 5 ||| addReg o0.id 0)

def emitMsrReg (imm : BitVec 64) (o1 : Reg) : Result :=
  if !o1.isGp64 then invalidInstruction else
  if imm.toNat > 0xFFFF then invalidImmediate else
  if (imm.toNat >>> 15) % 2 == 0 then invalidImmediate else
  if !checkGpId o1 idZR then invalidPhysId else
  ok1 (0xD5100000#32 ||| addImm imm.toNat 5 ||| addReg o1.id 0)

def emitMsrImm (op crm : BitVec 64) : Result :=
  if op.toNat > 0x1F then invalidImmediate else
  if crm.toNat > 0xF then invalidImmediate else
  ok1 (0xD500401F#32 ||| addImm (op.toNat >>> 3) 16 ||| addImm crm.toNat 8 ||| addImm (op.toNat % 8) 5)

def emitSys (op1 crn crm op2 : BitVec 64) (o4 : Operand) : Result :=
  if op1.toNat > 7 || crn.toNat > 15 || crm.toNat > 15 || op2.toNat > 7 then invalidImmediate else
  let base := 0xD5080000#32 ||| addImm op1.toNat 16 ||| addImm crn.toNat 12 ||| addImm crm.toNat 8 ||| addImm op2.toNat 5
  match o4 with
  | .reg r =>
    if !r.isGp64 then invalidInstruction else
    if !checkGpId r idZR then invalidPhysId else ok1 (base ||| addImm (r.id % 32) 0)
  | .none => ok1 (base ||| addImm 31 0)
  | _ => invalidInstruction

def emitInst5 (r : InstRow) (rq : Request) : Result :=
  let o := rq.ops
  let enc := r.enc
  if rq.cc != 0 then notModelled
  else if enc == encBaseOp then
    match baseOp[r.idx]?, o with
    | some d, [] => ok1 (w32 d.opcode)
    | _, _ => notModelled
  else if enc == encBaseOpX16 then
    match baseOpX16[r.idx]?, o with
    | some d, [.reg a] => if a.rt == rtGp64 && a.id == 16 then ok1 (w32 d.opcode) else invalidInstruction
    | _, _ => notModelled
  else if enc == encBaseOpImm then
    match baseOpImm[r.idx]?, o with
    | some d, [.imm v _] => emitBaseOpImm d v
    | _, _ => notModelled
  else if enc == encBaseR then
    match baseR[r.idx]?, o with
    | some d, [.reg a] => emitBaseR d a
    | _, _ => notModelled
  else if enc == encBaseRRII then
    match baseRRII[r.idx]?, o with
    | some d, [.reg a, .reg b, .imm u _, .imm v _] => emitBaseRRII d a b u v
    | _, _ => notModelled
  else if enc == encBaseExtend then
    match baseExtend[r.idx]?, o with
    | some d, [.reg a, .reg b] => emitExtend d a b
    | _, _ => notModelled
  else if enc == encBaseRev then
    match o with
    | [.reg a, .reg b] => emitRev a b
    | _ => notModelled
  else if enc == encBaseAtDcIcTlbi then
    match baseAtDcIcTlbi[r.idx]?, o with
    | some d, [.imm v _] => emitAtDcIcTlbi d v .none
    | some d, [.imm v _, .reg b] => emitAtDcIcTlbi d v (.reg b)
    | _, _ => notModelled
  else if enc == encBaseMrs then
    match o with
    | [.reg a, .imm v _] => emitMrs a v
    | _ => notModelled
  else if enc == encBaseMsr then
    match o with
    | [.imm v _, .reg b] => emitMsrReg v b
    | [.imm u _, .imm v _] => emitMsrImm u v
    | _ => notModelled
  else if enc == encBaseSys then
    match o with
    | [.imm a _, .imm b _, .imm c _, .imm e _] => emitSys a b c e .none
    | [.imm a _, .imm b _, .imm c _, .imm e _, .reg t] => emitSys a b c e (.reg t)
    | _ => notModelled
  else notModelled

/-- all five waves -/
def emitModel (rq : Request) : Result :=
  match emitEverything rq with
  | .err "NotModelled" =>
    (match instTable[rq.inst]? with
     | some r => if rq.inst == 0 then notModelled else emitInst5 r { rq with ops := (rq.ops.reverse.dropWhile (· == .none)).reverse }
     | none => notModelled)
  | res => res

end AsmjitVerif.A64Asm
