/-
Named (global) labels of CodeHolder: `new_named_label_id(name, LabelType::kGlobal)` and `label_id_by_name(name)`
(asmjit/core/codeholder.cpp). The real table is a hash map of arena nodes; the model is an association list in
creation order. A named label is an ordinary label (`newLabel`) plus its entry; references go through the id.
The lookup follows the documented contract ("if the named label doesn't exist kInvalidId is returned") - the pinned
code answers 0 for the empty name (fixes/C03-4.patch). Core-only imports.
-/
import AsmjitVerif.Model.CodeHolder
namespace AsmjitVerif.CodeHolder

inductive NErr where
  | ok | invalidLabelName | labelNameTooLong | labelAlreadyDefined
  deriving DecidableEq, Repr, Inhabited

def NErr.name : NErr → String
  | .ok => "Ok" | .invalidLabelName => "InvalidLabelName" | .labelNameTooLong => "LabelNameTooLong"
  | .labelAlreadyDefined => "LabelAlreadyDefined"

/-- `Globals::kMaxLabelNameSize` -/
def maxLabelNameSize : Nat := 2048

structure NState where
  st    : State
  names : List (String × Nat) := []     -- (name, label id), newest first
  deriving Inhabited

/-- `label_id_by_name(name)` for global labels: `none` = `Globals::kInvalidId` -/
def labelByName (names : List (String × Nat)) (name : String) : Option Nat :=
  if name.utf8ByteSize = 0 then none else (names.find? (fun p => p.1 == name)).map (·.2)

/-- `new_named_label_id(out, name, size, LabelType::kGlobal, kInvalidId)` -/
def newNamed (n : NState) (name : String) : NState × NErr :=
  if name.utf8ByteSize = 0 then (n, .invalidLabelName)
  else if name.utf8ByteSize > maxLabelNameSize then (n, .labelNameTooLong)
  else if (labelByName n.names name).isSome then (n, .labelAlreadyDefined)
  else
    let (s1, id) := newLabel n.st
    ({ st := s1, names := (name, id) :: n.names }, .ok)

end AsmjitVerif.CodeHolder
