/-
C15 - `JitAllocator::alloc` (asmjit/core/jitallocator.cpp) under the fault oracle, on C09's allocator model (`JitAlloc.Alloc`):
the block scan is C09's; when no block has room `JitAllocator_new_block` runs as the resource model of `FaultMore.newBlockF`
(mmap / dual mapping / block record, every request decided by the oracle); when that fails the call answers kOutOfMemory and
nothing is inserted - only the search caches the scan refreshed stay refreshed.  C09's `Alloc.alloc` is the specialisation to the
oracle that never fails (`allocF_nofault`).  Core-only imports.
-/
import AsmjitVerif.Model.JitAlloc
import AsmjitVerif.Model.FaultMore
namespace AsmjitVerif.FaultJit
open AsmjitVerif AsmjitVerif.Fault AsmjitVerif.JitAlloc AsmjitVerif.FaultMore

/-- the two scan passes of `alloc` (C09's `Alloc.allocIn`): blocks with refreshed caches and the block found -/
def scan2 (a : Alloc) (size : Nat) : List Block × Option Found :=
  let p := sizeToPoolId a.cfg size
  let g := a.cfg.poolGran p
  let n := (size + g - 1) / g
  let cur := (a.pool p).cursor.getD 0
  let r1 := scanPass (fun b => b.pool == p && cur ≤ b.id) n a.blocks
  if r1.2.isSome then r1 else scanPass (fun b => b.pool == p && b.id < cur) n r1.1

/-- `alloc` after the size checks -/
def allocInF (o : Oracle) (a : Alloc) (res : Res) (size : Nat) : Oracle × Alloc × Res × Except JitAlloc.Err SpanOut :=
  let p := sizeToPoolId a.cfg size
  let g := a.cfg.poolGran p
  let n := (size + g - 1) / g
  match scan2 a size with
  | (blocks, some (id, idx, wasEmpty)) =>
    let r := a.allocFound p n size blocks id idx wasEmpty
    (o, r.1, res, r.2)
  | (blocks, none) =>
    let nb := newBlockF a.cfg.dual o res            -- `JitAllocator_new_block`
    if nb.2.2 = false then (nb.1, { a with blocks := blocks }, nb.2.1, .error JitAlloc.Err.OutOfMemory)
    else
      let r := a.allocNew p n size blocks
      (nb.1, r.1, nb.2.1, r.2)

/-- `JitAllocator::alloc(size)` under the oracle -/
def allocF (o : Oracle) (a : Alloc) (res : Res) (reqSize : Nat) : Oracle × Alloc × Res × Except JitAlloc.Err SpanOut :=
  let size := alignUp reqSize a.cfg.gran
  if size = 0 then (o, a, res, .error JitAlloc.Err.InvalidArgument)
  else if size - 1 ≥ 2147483647 then (o, a, res, .error JitAlloc.Err.TooLarge)
  else allocInF o a res size

/-- what a block is, apart from the search caches the scan may refresh (`_search_start/_search_end/_largest_unused_area`, dirty) -/
def core (b : Block) : Nat × Nat × Nat × Nat × Bool × List Bool × List Bool × List Nat × Nat × Bool × Bool :=
  (b.id, b.pool, b.blockSize, b.areaSize, b.pad, b.used, b.stop, b.mem, b.areaUsed, b.empty, b.incremental)

end AsmjitVerif.FaultJit
