/-
  Model of asmjit/core/builder.cpp (BaseBuilder) – node storage, node list with cursor, cached section links,
  instruction capture and `serialize_to`.  Core-only imports (the driver links this file).

  Layout
  * `Operand`, `Call`, `Node`   – what an emitter call carries, what a node stores (`InstNode`, `LabelNode`, …)
  * `opCountFromArgs`, `storeOps`, `replayOps` – `EmitterUtils::op_count_from_emit_args`, the operand part of
    `BaseBuilder::_emit` (`set_op` / `reset_op_range`) and the operand-array reconstruction of `serialize_to`
  * `MList` + `MList.apply`      – `_node_list/_cursor/_dirty_section_links/SectionNode::_next_section`:
    `add_node`, `add_after`, `add_before`, `remove_node`, `remove_nodes`, `set_cursor`, `section`, `update_section_links`
  * `Front` + `front`            – everything in the emitter calls that is not list surgery (node creation, label and
    section node tables, one-shot options / extra register / inline comment, call-time errors)
  * `St`, `step`, `serialize`    – the two glued together; `serialize` = the calls `serialize_to` issues.

  The pointer structure (prev/next links) is abstracted to a `List Nat` of node ordinals; the tie is the node-list dump of the
  real Builder (forward and backward traversal) after every operation (harness/c08.cpp).
  The model follows the code *with fixes/C08-1..4 applied* (see fixes/README.md) and with /repo fix C14-12 (embed_const_pool refuses an
  already bound label before the alignment node is added).
-/
namespace AsmjitVerif.Builder

/-! ## Operands, calls, nodes -/

/-- an operand is opaque to the Builder; `"-"` is `Operand_()` (none) -/
abbrev Operand := String
def noneOp : Operand := "-"
def Operand.isNone (o : Operand) : Bool := o == "-"

/-- one call on the `BaseEmitter` interface as `serialize_to` issues it / as a user issues it to an Assembler.
    `inst` carries the one-shot state consumed by `_emit`; `ops` always has the six `_emit` operand slots. -/
inductive Call where
  | inst (id opts : Nat) (extra cmt : String) (ops : List Operand)
  | bind (l : Nat)
  | align (mode n : Nat)
  | data (ty items rep : Nat) (bytes : String)
  | elabel (l size : Nat)
  | edelta (l b size : Nat)
  | comment (t : String)
  | section (s : Nat)
  | cpoolnode (l align : Nat) (bytes : String)     -- embed_const_pool(label, pool) as issued for a ConstPoolNode
  deriving DecidableEq, Repr, Inhabited

/-- node payloads (`InstNode`, `LabelNode`, `AlignNode`, `EmbedDataNode`, `EmbedLabelNode`, `EmbedLabelDeltaNode`,
    `CommentNode`, `SectionNode`) -/
inductive Node where
  | inst (id opts : Nat) (extra cmt : String) (opCount : Nat) (ops : List Operand)
  | label (l : Nat)
  | align (mode n : Nat)
  | data (ty items rep : Nat) (bytes : String)
  | elabel (l size : Nat)
  | edelta (l b size : Nat)
  | comment (t : String)
  | section (s : Nat)
  | cpool (l isz : Nat) (items : List String)      -- ConstPoolNode (a LabelNode with a ConstPool): label, item size, distinct items
  deriving DecidableEq, Repr, Inhabited

def Node.isCpool : Node → Bool
  | .cpool _ _ _ => true
  | _ => false

def Node.isSection : Node → Bool
  | .section _ => true
  | _ => false

/-! ## Operand capture and replay -/

def getOp (ops : List Operand) (i : Nat) : Operand := ops.getD i noneOp

/-- `EmitterUtils::op_count_from_emit_args(o0, o1, o2, op_ext)` -/
def opCountFromArgs (ops : List Operand) : Nat :=
  if (getOp ops 3).isNone then
    let c := 0
    let c := if !(getOp ops 0).isNone then 1 else c
    let c := if !(getOp ops 1).isNone then 2 else c
    let c := if !(getOp ops 2).isNone then 3 else c
    c
  else if !(getOp ops 4).isNone then
    5 + (if !(getOp ops 5).isNone then 1 else 0)
  else 4

/-- `InstNode::capacity_of_op_count` -/
def capacityOf (opCount : Nat) : Nat := if opCount ≤ 3 then 3 else 6

/-- operand storage of `BaseBuilder::_emit`: `set_op(0..2)`, `set_op(i)` for `3 ≤ i < op_count`,
    `reset_op_range(op_count, op_capacity)` -/
def storeOps (ops : List Operand) : List Operand :=
  let n := opCountFromArgs ops
  (List.range (capacityOf n)).map fun i => if i < n then getOp ops i else noneOp

/-- operand reconstruction of `serialize_to`: `op[0], op[1], op[2]` and `no_ext` when `op_count ≤ 3`, otherwise
    `op_array[3] = op[3]`, copies up to `op_count`, resets up to `kMaxOpCount` -/
def replayOps (opCount : Nat) (stored : List Operand) : List Operand :=
  if opCount ≤ 3 then
    [getOp stored 0, getOp stored 1, getOp stored 2, noneOp, noneOp, noneOp]
  else
    [getOp stored 0, getOp stored 1, getOp stored 2, getOp stored 3,
     if 4 < opCount then getOp stored 4 else noneOp,
     if 5 < opCount then getOp stored 5 else noneOp]

/-- the call a node is replayed as by `serialize_to` (a `LabelNode` → `bind`, an `EmbedDataNode` → `embed_data_array`, …) -/
def Node.toCall : Node → Call
  | .inst id opts extra cmt n ops => .inst id opts extra cmt (replayOps n ops)
  | .label l => .bind l
  | .align m n => .align m n
  | .data t i r b => .data t i r b
  | .elabel l s => .elabel l s
  | .edelta l b s => .edelta l b s
  | .comment t => .comment t
  | .section s => .section s
  | .cpool l isz items => .cpoolnode l isz (String.join items)

/-! ## The node list -/

/-- primitive node-list actions the emitter calls and the editing API reduce to -/
inductive Act where
  | add (n : Nat)               -- add_node
  | addAfter (n r : Nat)        -- add_after(node, ref)
  | addBefore (n r : Nat)       -- add_before(node, ref)
  | remove (n : Nat)            -- remove_node
  | removeRange (a b : Nat)     -- remove_nodes(first, last)
  | setCursor (c : Option Nat)  -- set_cursor
  | regSection (n : Nat)        -- a SectionNode has been created (node n), not yet linked
  | section (n : Nat)           -- BaseBuilder::section(), given the section's node
  deriving DecidableEq, Repr

structure MList where
  list : List Nat := []                       -- _node_list, first → last
  cursor : Option Nat := none                 -- _cursor
  dirty : Bool := false                       -- _dirty_section_links
  nextSec : List (Nat × Option Nat) := []     -- SectionNode::_next_section (most recent assignment first; absent = nullptr)
  secNodes : List Nat := []                   -- which node ordinals are SectionNodes
  deriving Repr

def insertAfter : List Nat → Nat → Nat → List Nat
  | [], _, _ => []
  | x :: xs, r, n => if x = r then x :: n :: xs else x :: insertAfter xs r n

def insertBefore : List Nat → Nat → Nat → List Nat
  | [], _, _ => []
  | x :: xs, r, n => if x = r then n :: x :: xs else x :: insertBefore xs r n

/-- `node->prev()` -/
def prevOf : List Nat → Nat → Option Nat
  | [], _ => none
  | [_], _ => none
  | x :: y :: rest, n => if y = n then some x else prevOf (y :: rest) n

/-- drop everything up to and including `b` -/
def dropThrough : List Nat → Nat → List Nat
  | [], _ => []
  | x :: xs, b => if x = b then xs else dropThrough xs b

/-- the nodes from the head up to and including `b` -/
def takeThrough : List Nat → Nat → List Nat
  | [], _ => []
  | x :: xs, b => if x = b then [x] else x :: takeThrough xs b

/-- the list suffix starting at `a` -/
def suffixFrom : List Nat → Nat → List Nat
  | [], _ => []
  | x :: xs, a => if x = a then x :: xs else suffixFrom xs a

def removeRangeL : List Nat → Nat → Nat → List Nat
  | [], _, _ => []
  | x :: xs, a, b => if x = a then dropThrough (x :: xs) b else x :: removeRangeL xs a b

def lookupNext (c : List (Nat × Option Nat)) (n : Nat) : Option Nat :=
  match c.find? (fun e => e.1 == n) with
  | some e => e.2
  | none => none

/-- the assignments `update_section_links` makes: every section node in the list gets its successor among the
    section nodes in the list, the last one `nullptr` -/
def linkPairs : List Nat → List (Nat × Option Nat)
  | [] => []
  | [a] => [(a, none)]
  | a :: b :: rest => (a, some b) :: linkPairs (b :: rest)

namespace MList

def isSec (m : MList) (n : Nat) : Bool := m.secNodes.contains n
def active (m : MList) (n : Nat) : Bool := m.list.contains n

/-- `BaseBuilder::update_section_links` -/
def updateSectionLinks (m : MList) : MList :=
  if !m.dirty then m else
  { m with nextSec := linkPairs (m.list.filter m.isSec) ++ m.nextSec, dirty := false }

/-- `BaseBuilder::add_node` (node not active) -/
def addNode (m : MList) (n : Nat) : MList :=
  let list' := match m.cursor with
    | none => n :: m.list
    | some c => insertAfter m.list c n
  { m with list := list', cursor := some n, dirty := m.dirty || m.isSec n }

/-- `BaseBuilder::remove_node` (node active) -/
def removeNode (m : MList) (n : Nat) : MList :=
  { m with list := m.list.erase n,
           cursor := if m.cursor = some n then prevOf m.list n else m.cursor,
           dirty := m.dirty || m.isSec n }

def apply (m : MList) : Act → MList
  | .add n => if m.active n then m else m.addNode n
  | .addAfter n r =>
      if m.active n || !m.active r then m else
      { m with list := insertAfter m.list r n, dirty := m.dirty || m.isSec n }
  | .addBefore n r =>
      if m.active n || !m.active r then m else
      { m with list := insertBefore m.list r n, dirty := m.dirty || m.isSec n }
  | .remove n => if !m.active n then m else m.removeNode n
  | .removeRange a b =>
      if a = b then (if !m.active a then m else m.removeNode a)
      else if !m.active a then m
      else if !(suffixFrom m.list a).contains b then m     -- precondition of remove_nodes: `last` reachable from `first`
      else
        let seg := takeThrough (suffixFrom m.list a) b
        { m with list := removeRangeL m.list a b,
                 cursor := match m.cursor with
                   | some c => if seg.contains c then prevOf m.list a else some c
                   | none => none,
                 dirty := m.dirty || seg.any m.isSec }
  | .setCursor none => { m with cursor := none }
  | .setCursor (some c) => if m.active c then { m with cursor := some c } else m
  | .regSection n => if m.active n then m else { m with secNodes := n :: m.secNodes }   -- the node is new: never linked yet
  | .section n =>
      if !m.isSec n then m else           -- BaseBuilder::section only ever passes a SectionNode
      if !m.active n then
        -- add_after(node, last_node()); _cursor = node      (fixes/C08-4: an empty list gets the node as its only element)
        { m with list := m.list ++ [n], cursor := some n, dirty := true }
      else
        let m := m.updateSectionLinks
        match lookupNext m.nextSec n with
        | some nx => { m with cursor := prevOf m.list nx }
        | none => { m with cursor := m.list.getLast? }

end MList

/-! ## The emitter front end -/

inductive Res where
  | ok
  | err (name : String)
  | pre                 -- the line is outside the API's precondition / the modelled domain: nothing happens
  deriving DecidableEq, Repr

inductive Op where
  | newlabel | newsection
  | opts (v : Nat) | extra (s : String) | icomment (s : String)
  | inst (id : Nat) (ops : List Operand)
  | bind (l : Nat) | align (mode n : Nat) | embed (bytes : String) | data (ty items rep : Nat) (bytes : String)
  | elabel (l size : Nat) | edelta (l b size : Nat) | comment (t : String) | section (s : Nat)
  | cpool (l isz : Nat) (bytes : String)
  | gconst (isz : Nat) (item : String)     -- BaseCompiler::_new_const(ConstPoolScope::kGlobal, …)
  | cursor (n : Option Nat) | remove (n : Nat) | removerange (a b : Nat)
  | addnode (n : Nat) | addafter (n r : Nat) | addbefore (n r : Nat)
  deriving DecidableEq, Repr

structure Front where
  regSize : Nat := 8                          -- register_size(): 4 on x86-32, else 8
  nodes : List Node := []                     -- every node ever created, by creation ordinal
  labelNodes : List (Option Nat) := []        -- _label_nodes (length = CodeHolder::label_count())
  sectionNodes : List (Nat × Nat) := []       -- _section_nodes (section id ↦ node)
  nSections : Nat := 1                        -- CodeHolder::section_count()
  opts : Nat := 0                             -- _inst_options
  extra : String := "-"                       -- _extra_reg
  cmt : String := "-"                         -- _inline_comment
  isCompiler : Bool := false                  -- emitter is a BaseCompiler
  gpool : Option Nat := none                  -- BaseCompiler::_const_pools[kGlobal]: the pending global ConstPoolNode
  deriving Repr

/-- `TypeUtils::deabstract` + `is_valid` + `size_of` on the ids the generator uses (32..43); `none` = invalid type.
    Ids 44..199 (float80, masks, vectors) are outside the modelled domain. -/
def typeSize (regSize ty : Nat) : Option Nat :=
  let t := if ty = 32 ∨ ty = 33 then (if regSize = 4 then ty + 6 else ty + 8) else ty
  match t with
  | 34 | 35 => some 1
  | 36 | 37 => some 2
  | 38 | 39 | 42 => some 4
  | 40 | 41 | 43 => some 8
  | _ => none

def typeModelled (ty : Nat) : Bool := ty ≤ 43 || ty ≥ 200

def hexLen (s : String) : Nat := if s == "-" then 0 else s.length / 2

/-- `Support::is_zero_or_power_of_2_up_to(size, 8)` -/
def sizeOk (n : Nat) : Bool := n = 0 || n = 1 || n = 2 || n = 4 || n = 8

def clearReserved (o : Nat) : Nat := o / 2 * 2

/-- the `cpool` line is well formed: item size 1/2/4/8/16 and a whole number of items (otherwise the harness answers `pre`) -/
def cpoolPre (isz : Nat) (bytes : String) : Bool :=
  (isz = 1 || isz = 2 || isz = 4 || isz = 8 || isz = 16) && hexLen bytes % isz == 0

/-- creating a node: returns its ordinal -/
def Front.newNode (f : Front) (n : Node) : Front × Nat := ({ f with nodes := f.nodes ++ [n] }, f.nodes.length)

def Front.labelValid (f : Front) (l : Nat) : Bool := l < f.labelNodes.length

/-- The non-list part of every operation: returns the new front state, the call's answer and the list actions it performs.
    `active` = `BaseNode::is_active()` of the current list. -/
def front (f : Front) (active : Nat → Bool) : Op → Front × Res × List Act
  | .newlabel =>
      -- BaseBuilder::new_label → Builder_new_label_internal: a LabelNode is created and registered, not linked
      let (f, n) := f.newNode (.label f.labelNodes.length)
      ({ f with labelNodes := f.labelNodes ++ [some n] }, .ok, [])
  | .newsection => ({ f with nSections := f.nSections + 1 }, .ok, [])
  | .opts v => ({ f with opts := f.opts ||| v }, .ok, [])
  | .extra s => ({ f with extra := s }, .ok, [])
  | .icomment s => ({ f with cmt := s }, .ok, [])
  | .inst id ops =>
      -- BaseBuilder::_emit
      let node := Node.inst id (clearReserved f.opts) f.extra f.cmt (opCountFromArgs ops) (storeOps ops)
      let (f, n) := f.newNode node
      ({ f with opts := 0, extra := "-", cmt := "-" }, .ok, [.add n])
  | .bind l =>
      -- label_node_of + add_node            (fixes/C08-1: an already linked LabelNode is refused)
      if !f.labelValid l then (f, .err "InvalidLabel", []) else
      match f.labelNodes.getD l none with
      | some n =>
        if (f.nodes.getD n (.comment "?")).isCpool then (f, .pre, []) else   -- a ConstPoolNode is linked by GlobalConstPoolPass, not by bind
        if active n then (f, .err "LabelAlreadyBound", []) else (f, .ok, [.add n])
      | none => let (f', n) := f.newNode (.label l)
                ({ f' with labelNodes := f'.labelNodes.set l (some n) }, .ok, [.add n])
  | .align m a => let (f, n) := f.newNode (.align m a); (f, .ok, [.add n])
  | .embed bytes => let (f, n) := f.newNode (.data 35 (hexLen bytes) 1 bytes); (f, .ok, [.add n])
  | .data ty items rep bytes =>
      if !typeModelled ty then (f, .pre, []) else
      match typeSize f.regSize ty with
      | none => (f, .err "InvalidArgument", [])
      | some sz =>
        let (f, n) := f.newNode (.data ty items rep (if items * sz = 0 then "-" else bytes)); (f, .ok, [.add n])
  | .elabel l size =>
      -- fixes/C08-2: same tests in the same order as BaseAssembler::embed_label
      if !f.labelValid l then (f, .err "InvalidLabel", []) else
      if !sizeOk size then (f, .err "InvalidOperandSize", []) else
      let (f, n) := f.newNode (.elabel l size); (f, .ok, [.add n])
  | .edelta l b size =>
      if !(f.labelValid l && f.labelValid b) then (f, .err "InvalidLabel", []) else
      if !sizeOk size then (f, .err "InvalidOperandSize", []) else
      let (f, n) := f.newNode (.edelta l b size); (f, .ok, [.add n])
  | .comment t => let (f, n) := f.newNode (.comment t); (f, .ok, [.add n])
  | .section s =>
      -- section_node_of + section
      if s ≥ f.nSections then (f, .pre, []) else
      match f.sectionNodes.find? (fun e => e.1 == s) with
      | some e => (f, .ok, [.section e.2])
      | none => let (f, n) := f.newNode (.section s)
                ({ f with sectionNodes := (s, n) :: f.sectionNodes }, .ok, [.regSection n, .section n])
  | .cpool l isz bytes =>
      -- BaseBuilder::embed_const_pool: label valid; label node not linked yet (tested BEFORE anything is added - /repo fix C14-12);
      -- align(kData, pool.alignment()); bind(label); EmbedDataNode(pool bytes)
      if !cpoolPre isz bytes then (f, .pre, []) else
      if !f.labelValid l then (f, .err "InvalidLabel", []) else
      match f.labelNodes.getD l none with
      | some n =>
          if active n then (f, .err "LabelAlreadyBound", []) else
          let (f, na) := f.newNode (.align 1 (if hexLen bytes = 0 then 0 else isz))
          let (f, nd) := f.newNode (.data 35 (hexLen bytes) 1 bytes)
          (f, .ok, [.add na, .add n, .add nd])
      | none => (f, .pre, [])
  | .gconst isz item =>
      -- BaseCompiler::_new_const(kGlobal): the first constant creates the ConstPoolNode (new_const_pool_node: a new label registered to
      -- the node, nothing linked); ConstPool::add appends a new item / finds an equal one (items of one size only - ConstPool layout is C19)
      if !f.isCompiler || !cpoolPre isz item || hexLen item != isz then (f, .pre, []) else
      match f.gpool with
      | none =>
        let (f', n) := f.newNode (.cpool f.labelNodes.length isz [item])
        ({ f' with labelNodes := f'.labelNodes ++ [some n], gpool := some n }, .ok, [])
      | some n =>
        match f.nodes.getD n (.comment "?") with
        | .cpool l z items =>
          if z != isz then (f, .pre, []) else
          if items.contains item then (f, .ok, []) else
          ({ f with nodes := f.nodes.set n (.cpool l z (items ++ [item])) }, .ok, [])
        | _ => (f, .pre, [])
  | .cursor none => (f, .ok, [.setCursor none])
  | .cursor (some n) => if n < f.nodes.length && active n then (f, .ok, [.setCursor (some n)]) else (f, .pre, [])
  | .remove n => if n < f.nodes.length then (f, .ok, [.remove n]) else (f, .pre, [])
  | .removerange a b => if a < f.nodes.length && b < f.nodes.length then (f, .ok, [.removeRange a b]) else (f, .pre, [])
  | .addnode n => if n < f.nodes.length && !active n && f.gpool != some n then (f, .ok, [.add n]) else (f, .pre, [])
  | .addafter n r =>
      if n < f.nodes.length && r < f.nodes.length && !active n && active r && f.gpool != some n then (f, .ok, [.addAfter n r])
      else (f, .pre, [])
  | .addbefore n r =>
      if n < f.nodes.length && r < f.nodes.length && !active n && active r && f.gpool != some n then (f, .ok, [.addBefore n r])
      else (f, .pre, [])

/-! ## Builder state -/

structure St where
  f : Front := {}
  l : MList := {}
  deriving Repr

/-- `BaseBuilder::on_attach` → `BaseBuilder_init_section`: node 0 is the SectionNode of `.text`, linked, cursor on it -/
def St.init (regSize : Nat) (isCompiler : Bool := false) : St :=
  { f := { regSize := regSize, nodes := [.section 0], sectionNodes := [(0, 0)], isCompiler := isCompiler },
    l := { list := [0], cursor := some 0, secNodes := [0] } }

/-- `remove_nodes` has a precondition the front end cannot see without the list: report `pre` when it is violated -/
def rangePre (m : MList) : Op → Bool
  | .removerange a b => a = b || !m.active a || (suffixFrom m.list a).contains b
  | _ => true

def step (s : St) (op : Op) : St × Res :=
  if !rangePre s.l op then (s, .pre) else
  let (f, r, acts) := front s.f s.l.active op
  ({ f := f, l := acts.foldl MList.apply s.l }, r)

def run (s : St) (ops : List Op) : St := ops.foldl (fun s op => (step s op).1) s

def nodeAt (f : Front) (n : Nat) : Node := f.nodes.getD n (.comment "?")

/-- the calls `BaseBuilder::serialize_to` issues to an emitter that accepts everything (fixes/C08-3: none for an empty list) -/
def serialize (s : St) : List Call := s.l.list.map fun n => (nodeAt s.f n).toCall

/-- `BaseBuilder::run_passes` as far as the node list is concerned: a Compiler's `GlobalConstPoolPass` links the pending global constant
    pool BEHIND THE LAST NODE (`add_after(pool, last_node())`) - wherever the cursor is - and forgets it; the register allocator has
    nothing to do without function nodes; a Builder has no passes. (An empty node list is outside the modelled domain.) -/
def runPasses (s : St) : St :=
  match s.f.gpool, s.l.list.getLast? with
  | some n, some r => { f := { s.f with gpool := none }, l := s.l.apply (.addAfter n r) }
  | _, _ => s

/-- the calls `finalize()` issues: passes, then `serialize_to` -/
def finalizeCalls (s : St) : List Call := serialize (runPasses s)

/-- `serialize_to(dst)` against an arbitrary destination: stops at the first node `dst` rejects.
    `dst` is a state machine `σ → Call → σ × Option error`. Returns the final destination state and the error. -/
def serializeTo {σ : Type} (dst : σ → Call → σ × Option String) : σ → List Call → σ × Option String
  | st, [] => (st, none)
  | st, c :: cs =>
    match dst st c with
    | (st', some e) => (st', some e)
    | (st', none) => serializeTo dst st' cs

end AsmjitVerif.Builder
