/-
Model of asmjit/core/codewriter.cpp (`CodeWriterUtils::encode_offset32`, `encode_offset64`,
`write_offset`), asmjit/core/emitterutils_p.h (`is_encodable_offset_32/64`), asmjit/arm/armutils.h
(`encode_aarch32_imm`), the direct displacement path `EmitOp_DispImm` of asmjit/arm/a64assembler.cpp and the
`OffsetFormat` record of asmjit/core/fixup.h.  The Thumb branch formats follow the code as repaired by
fixes/C17-1.patch (J1/J2 bits).  Written line by line after the C++; the order of the
range tests and the 32/64-bit truncations are the C++ ones.  Core-only imports (the driver links it).

Types are spelled `BitVec 64` / `BitVec 32` literally (bv_decide does not see through abbrevs).
-/
namespace AsmjitVerif.Offset

/-- `OffsetType` of fixup.h, by enum value. -/
inductive OffsetType where
  | signed | unsigned | a64Adr | a64Adrp
  | thumb32Adr | thumb32Blx | thumb32B | thumb32BCond
  | a32Adr | a32U23Signed | a32U23Split | a32_1To24
  deriving DecidableEq, Repr, Inhabited

def OffsetType.ofCode : Nat → Option OffsetType
  | 0 => some .signed | 1 => some .unsigned | 2 => some .a64Adr | 3 => some .a64Adrp
  | 4 => some .thumb32Adr | 5 => some .thumb32Blx | 6 => some .thumb32B | 7 => some .thumb32BCond
  | 8 => some .a32Adr | 9 => some .a32U23Signed | 10 => some .a32U23Split | 11 => some .a32_1To24
  | _ => none

def OffsetType.code : OffsetType → Nat
  | .signed => 0 | .unsigned => 1 | .a64Adr => 2 | .a64Adrp => 3
  | .thumb32Adr => 4 | .thumb32Blx => 5 | .thumb32B => 6 | .thumb32BCond => 7
  | .a32Adr => 8 | .a32U23Signed => 9 | .a32U23Split => 10 | .a32_1To24 => 11

/-- `OffsetFormat` (fixup.h). `flags` and `regionSize` do not take part in encoding. -/
structure OffsetFormat where
  type        : OffsetType
  valueSize   : Nat
  valueOffset : Nat
  bitCount    : Nat
  bitShift    : Nat
  discard     : Nat
  deriving DecidableEq, Repr, Inhabited

def OffsetFormat.hasSignBit (f : OffsetFormat) : Bool :=
  match f.type with
  | .thumb32Adr | .a32Adr | .a32U23Signed | .a32U23Split => true
  | _ => false

/-- `Support::lsb_mask<uint32_t>(n)` on a 64-bit host: `uint32_t((uintptr_t(1) << n) - 1)` (n < 64). -/
def lsbMask32 (n : Nat) : BitVec 32 := BitVec.ofNat 32 (2 ^ n - 1)
/-- `Support::lsb_mask<uint64_t>(n)`: `n ? ~0 >> (64 - n) : 0`. -/
def lsbMask64 (n : Nat) : BitVec 64 := if n = 0 then 0#64 else (BitVec.allOnes 64) >>> (64 - n)

/-- `EmitterUtils::is_encodable_offset_32(int32_t offset, num_bits)`. -/
def isEncodableOffset32 (x : BitVec 32) (numBits : Nat) : Bool :=
  ((x <<< (32 - numBits)).sshiftRight (32 - numBits)) == x
/-- `EmitterUtils::is_encodable_offset_64(int64_t offset, num_bits)`. -/
def isEncodableOffset64 (x : BitVec 64) (numBits : Nat) : Bool :=
  ((x <<< (64 - numBits)).sshiftRight (64 - numBits)) == x

/-- `Support::is_int_n<32>(int64_t)`. -/
def isInt32 (x : BitVec 64) : Bool := (x.truncate 32).signExtend 64 == x

/-- `Support::ctz(uint32_t)` (= `__builtin_ctz`, undefined for 0; the only call site guards it) as a 5-step binary
search so that bit-blasting sees it; 31 for x = 0 (never used). -/
def ctz32 (x0 : BitVec 32) : BitVec 32 :=
  let n0 := if x0 &&& 0xFFFF#32 == 0#32 then 16#32 else 0#32
  let x1 := x0 >>> n0
  let n1 := if x1 &&& 0xFF#32 == 0#32 then 8#32 else 0#32
  let x2 := x1 >>> n1
  let n2 := if x2 &&& 0xF#32 == 0#32 then 4#32 else 0#32
  let x3 := x2 >>> n2
  let n3 := if x3 &&& 0x3#32 == 0#32 then 2#32 else 0#32
  let x4 := x3 >>> n3
  let n4 := if x4 &&& 0x1#32 == 0#32 then 1#32 else 0#32
  n0 + n1 + n2 + n3 + n4

/-- `Support::ror(uint32_t v, n)`, n < 32.  The C++ computes `(v >> n) | (v << (32 - n))`, which for n = 0 shifts by
the type width (undefined; fixes/C17-2.patch masks the count).  The model is the rotation. -/
def ror32 (v n : BitVec 32) : BitVec 32 := (v >>> n) ||| (v <<< ((32#32 - n) &&& 31#32))

/-- `arm::Utils::encode_aarch32_imm(imm, out)` (armutils.h) on a 32-bit value: the A32 "modified immediate"
`rot4:imm8` with `value = ROR(imm8, 2*rot4)`. -/
def encodeAArch32Imm (v0 : BitVec 32) : Option (BitVec 32) :=
  if v0.ule 0xFF#32 then some v0 else
  let rotated := (v0 &&& 0xFF0000FF#32) != 0#32
  let v1 := if rotated then ror32 v0 16#32 else v0
  let r0 : BitVec 32 := if rotated then 16#32 else 0#32
  let n := ctz32 v1 &&& ~~~1#32
  let r := (r0 - n) &&& 0x1E#32
  let v := ror32 v1 n
  if !(v.ule 0xFF#32) then none else some (v ||| (r <<< 7))

/-- First half of `encode_offset32`: the range tests.  Returns `(value, u)` or `none`. -/
def encode32Value (f : OffsetFormat) (off0 : BitVec 64) : Option (BitVec 32 × BitVec 32) :=
  if f.bitCount = 0 ∨ f.bitCount > f.valueSize * 8 then none else
  -- has_sign_bit formats: u = (offset >= 0), offset = |offset| (INT64_MIN is UB in C++: refused here)
  if f.hasSignBit ∧ off0 == 0x8000000000000000#64 then none else
  let u : BitVec 32 := if f.hasSignBit then (if off0.msb then 0#32 else 1#32) else 0#32
  let off1 : BitVec 64 := if f.hasSignBit ∧ off0.msb then -off0 else off0
  let unsignedLogic := f.type == .unsigned || f.hasSignBit
  if unsignedLogic then
    if f.discard ≠ 0 ∧ (off1 &&& (lsbMask32 f.discard).zeroExtend 64) != 0#64 then none else
    let off2 := if f.discard ≠ 0 then off1 >>> f.discard else off1
    let value : BitVec 32 := (off2 &&& (lsbMask32 f.bitCount).zeroExtend 64).truncate 32
    if value.zeroExtend 64 != off2 then none else some (value, u)
  else
    if f.discard ≠ 0 ∧ (off1 &&& (lsbMask32 f.discard).zeroExtend 64) != 0#64 then none else
    let off2 := if f.discard ≠ 0 then off1.sshiftRight f.discard else off1
    if !isInt32 off2 then none else
    let value : BitVec 32 := off2.truncate 32
    if !isEncodableOffset32 value f.bitCount then none else some (value, u)

/-- `CodeWriterUtils::encode_offset32`. -/
def encodeOffset32 (f : OffsetFormat) (off : BitVec 64) : Option (BitVec 32) :=
  match encode32Value f off with
  | none => none
  | some (value, u) =>
    match f.type with
    | .signed | .unsigned => some ((value &&& lsbMask32 f.bitCount) <<< f.bitShift)
    | .thumb32Adr =>
      if f.valueSize ≠ 4 ∨ f.bitCount ≠ 12 ∨ f.bitShift ≠ 0 then none else
      let imm8 := value &&& 0x00FF#32
      let imm3 := (value &&& 0x0700#32) <<< (12 - 8)
      let imm1 := (value &&& 0x0800#32) <<< (26 - 11)
      let n := u ^^^ 1#32
      some (imm8 ||| imm3 ||| imm1 ||| (n <<< 21) ||| (n <<< 23))
    | .thumb32Blx | .thumb32B =>
      let value := if f.type == .thumb32Blx then value <<< 1 else value
      if f.valueSize ≠ 4 then none else
      let ia := value &&& 0x0007FF#32
      let ib := (value &&& 0x1FF800#32) <<< (16 - 11)
      let ic := (value &&& 0x800000#32) <<< (26 - 23)
      let ja := ((~~~value >>> 23) ^^^ (value >>> 22)) &&& 1#32
      let jb := ((~~~value >>> 23) ^^^ (value >>> 21)) &&& 1#32
      some (ia ||| ib ||| ic ||| (ja <<< 13) ||| (jb <<< 11))   -- J1 = bit 13 (fixes/C17-1.patch; the pinned tree says 14)
    | .thumb32BCond =>
      if f.valueSize ≠ 4 ∨ f.bitCount ≠ 20 ∨ f.bitShift ≠ 0 then none else
      let ia := value &&& 0x0007FF#32
      let ib := (value &&& 0x01F800#32) <<< (16 - 11)
      let ic := (value &&& 0x080000#32) <<< (26 - 19)
      -- fixes/C17-1.patch: B<cond> T3 carries J1 = imm<17>, J2 = imm<18> directly (the pinned tree computes
      -- `(~value >> 19) ^ (value >> 22|21)`, which is constantly 1, and stores J1 at bit 14)
      let ja := (value >>> 17) &&& 1#32
      let jb := (value >>> 18) &&& 1#32
      some (ia ||| ib ||| ic ||| (ja <<< 13) ||| (jb <<< 11))
    | .a32Adr =>
      match encodeAArch32Imm value with
      | none => none
      | some enc => some ((0x400000#32 <<< u) ||| (enc <<< f.bitShift))   -- `bit_mask(22) << u`: U=1 -> ADD (bit 23), U=0 -> SUB (bit 22)
    | .a32U23Signed => some ((value <<< f.bitShift) ||| (u <<< 23))
    | .a32U23Split =>
      if f.valueSize ≠ 4 ∨ f.bitCount ≠ 8 ∨ f.bitShift ≠ 0 then none else
      let immLo := value &&& 0x0F#32
      let immHi := (value &&& 0xF0#32) <<< (8 - 4)
      some (immLo ||| immHi ||| (u <<< 23))
    | .a32_1To24 =>
      if f.valueSize ≠ 4 ∨ f.bitCount ≠ 25 ∨ f.bitShift ≠ 0 then none else
      let immLo := (value &&& 0x0000001#32) <<< 24
      let immHi := (value &&& 0x1FFFFFE#32) >>> 1
      some (immLo ||| immHi)
    | .a64Adr | .a64Adrp =>
      if f.valueSize ≠ 4 ∨ f.bitCount ≠ 21 ∨ f.bitShift ≠ 5 then none else
      let immLo := value &&& 0x3#32
      let immHi := (value >>> 2) &&& lsbMask32 19
      some ((immLo <<< 29) ||| (immHi <<< 5))

/-- `CodeWriterUtils::encode_offset64`. -/
def encodeOffset64 (f : OffsetFormat) (off1 : BitVec 64) : Option (BitVec 64) :=
  if f.bitCount = 0 ∨ f.bitCount > f.valueSize * 8 then none else
  if f.type == .unsigned then
    if f.discard ≠ 0 ∧ (off1 &&& (lsbMask32 f.discard).zeroExtend 64) != 0#64 then none else
    let off2 := if f.discard ≠ 0 then off1 >>> f.discard else off1
    let value := off2 &&& lsbMask64 f.bitCount
    if value != off2 then none else
    some ((value &&& lsbMask64 f.bitCount) <<< f.bitShift)
  else
    if f.discard ≠ 0 ∧ (off1 &&& (lsbMask32 f.discard).zeroExtend 64) != 0#64 then none else
    let off2 := if f.discard ≠ 0 then off1.sshiftRight f.discard else off1
    if !isEncodableOffset64 off2 f.bitCount then none else
    match f.type with
    | .signed => some ((off2 &&& lsbMask64 f.bitCount) <<< f.bitShift)
    | _ => none

/-- `EmitOp_DispImm` of asmjit/arm/a64assembler.cpp: the DIRECT path of the AArch64 assembler (label bound in the
current section, or an absolute target with a known base address) packs the displacement into the opcode without
going through `write_offset`.  Returns the bits OR-ed into the opcode, `none` = `kInvalidDisplacement`. -/
def dispImmDirect (f : OffsetFormat) (off : BitVec 64) : Option (BitVec 32) :=
  if (off &&& (lsbMask32 f.discard).zeroExtend 64) != 0#64 then none else
  let disp64 := off.sshiftRight f.discard
  if !isEncodableOffset64 disp64 f.bitCount then none else
  let disp32 : BitVec 32 := (disp64 &&& (lsbMask32 f.bitCount).zeroExtend 64).truncate 32
  match f.type with
  | .signed => some (disp32 <<< f.bitShift)
  | .a64Adr | .a64Adrp => some (((disp32 &&& 3#32) <<< 29) ||| ((disp32 >>> 2) <<< 5))
  | _ => none

/-! ### Buffers: little-endian unaligned loads and stores (`Support::loadu_*_le/storeu_*_le`). -/

abbrev Bytes := List (BitVec 8)

/-- little-endian load of `n` bytes at `at` as a number (`none` if out of range). -/
def loadLE (buf : Bytes) (pos : Nat) : Nat → Option Nat
  | 0 => some 0
  | n + 1 =>
    match buf[pos]?, loadLE buf (pos + 1) n with
    | some b, some r => some (b.toNat + 256 * r)
    | _, _ => none

/-- little-endian store of the `n` low bytes of `v` at `pos` (`none` if out of range). -/
def storeLE (buf : Bytes) (pos : Nat) (v : Nat) : Nat → Option Bytes
  | 0 => some buf
  | n + 1 =>
    if pos < buf.length then storeLE (buf.set pos (BitVec.ofNat 8 v)) (pos + 1) (v / 256) n
    else none

/-- `CodeWriterUtils::write_offset(dst, offset64, format)` on a byte buffer, `dst = buf + pos`.
The C++ has no bounds check (callers guarantee the region); the model refuses out-of-range. -/
def writeOffset (buf : Bytes) (pos : Nat) (off : BitVec 64) (f : OffsetFormat) : Option Bytes :=
  let p := pos + f.valueOffset
  if f.valueSize = 1 ∨ f.valueSize = 2 ∨ f.valueSize = 4 then
    match encodeOffset32 f off, loadLE buf p f.valueSize with
    | some m, some old => storeLE buf p (old ||| (m.toNat % 2 ^ (8 * f.valueSize))) f.valueSize
    | _, _ => none
  else if f.valueSize = 8 then
    match encodeOffset64 f off, loadLE buf p f.valueSize with
    | some m, some old => storeLE buf p (old ||| m.toNat) f.valueSize
    | _, _ => none
  else none

/-- the `OffsetFormat`s as the sources construct them -/
def simpleValue (t : OffsetType) (size : Nat) : OffsetFormat :=
  { type := t, valueSize := size, valueOffset := 0, bitCount := size * 8, bitShift := 0, discard := 0 }
def immValue (t : OffsetType) (size shift bits discard : Nat) : OffsetFormat :=
  { type := t, valueSize := size, valueOffset := 0, bitCount := bits, bitShift := shift, discard := discard }

end AsmjitVerif.Offset
