/-
Executable model of `asmjit/core/constpool.cpp` / `constpool.h` (core-only imports: the driver links it).

Transcribed line by line:
* `ConstPool::reset`                      → `Pool.init`
* `ConstPool_addGap`                      → `gapSizeFor`, `gapIndexFor`, `addGap`
* `ConstPool::add`                        → `add` (= size checks, `treeGet`, `gapLoop`, aligned append, `treeInsert`,
                                             `shareLoop`/`shareLevel`, `_alignment`, `_min_item_size`)
* `ConstPool::fill` / `ConstPoolFill`     → `fill`, `fillTree`, `writeAt` (memset 0 + memcpy of every non-shared node)
* `BaseAssembler::embed_const_pool` / `BaseBuilder::embed_const_pool` (data part: `align(kData, alignment)`, `bind`,
  `fill`)                                 → `embed`

Abstractions (named in notes/C19.md):
* `ConstPool::Tree` (red-black tree keyed by `memcmp` of the bytes) is an association list kept in `memcmp` order
  (`treeInsert`), `Tree::get` = first node with equal bytes, `Tree::for_each` = list order.  Balance is C18's business.
* the `Gap` free list (`_gap_pool`) only recycles memory and is not modelled; arena allocation never fails (C15).
* `Node::_offset` is `uint32_t` in C++; the model uses `Nat` (pools ≥ 4 GiB are out of scope).
* a constant is a byte list; its `size` argument is the length of the list.
-/
namespace AsmjitVerif.ConstPool

abbrev Bytes := List (BitVec 8)

/-- `ConstPool::Node` (+ the bytes stored behind it) -/
structure Node where
  data : Bytes
  offset : Nat
  shared : Bool
deriving DecidableEq, Repr

/-- `ConstPool::Gap` -/
structure Gap where
  offset : Nat
  size : Nat
deriving DecidableEq, Repr

/-- `ConstPool` members: `_tree[7]`, `_gaps[7]`, `_size`, `_alignment`, `_min_item_size` -/
structure Pool where
  tree : List (List Node)
  gaps : List (List Gap)
  size : Nat
  alignment : Nat
  minItemSize : Nat

/-- `ConstPool::reset()` -/
def Pool.init : Pool := { tree := [], gaps := [], size := 0, alignment := 0, minItemSize := 0 }

/-- `a[i]` on an array of lists represented as a list (missing entries are empty lists, as after `reset()`) -/
def getAt {α : Type} : List (List α) → Nat → List α
  | [], _ => []
  | x :: _, 0 => x
  | _ :: xs, i + 1 => getAt xs i

/-- `a[i] = v` -/
def setAt {α : Type} : List (List α) → Nat → List α → List (List α)
  | [], 0, v => [v]
  | [], i + 1, v => [] :: setAt [] i v
  | _ :: xs, 0, v => v :: xs
  | x :: xs, i + 1, v => x :: setAt xs i v

theorem getAt_setAt {α : Type} (a : List (List α)) (i j : Nat) (v : List α) :
    getAt (setAt a i v) j = if j = i then v else getAt a j := by
  induction a generalizing i j with
  | nil =>
    induction i generalizing j with
    | zero => cases j <;> simp [setAt, getAt]
    | succ i ih => cases j with
      | zero => simp [setAt, getAt]
      | succ j => simp [setAt, getAt, ih]
  | cons x xs ih =>
    cases i with
    | zero => cases j <;> simp [setAt, getAt]
    | succ i => cases j with
      | zero => simp [setAt, getAt]
      | succ j => simp [setAt, getAt, ih]

/-- result of `add`: `Error::kOk` with `offset_out`, or `Error::kInvalidArgument` -/
inductive Result where
  | ok (offset : Nat)
  | invalidArgument
deriving DecidableEq, Repr

/-! ### `ConstPool::Tree` as an ordered association list -/

/-- `memcmp(a, b, n) < 0` for equally long byte strings -/
def bytesLt : Bytes → Bytes → Bool
  | a :: as, b :: bs => if a.toNat < b.toNat then true else if b.toNat < a.toNat then false else bytesLt as bs
  | _, _ => false

/-- `Tree::insert` (position by `memcmp`; keys are never equal when it is called) -/
def treeInsert (n : Node) : List Node → List Node
  | [] => [n]
  | h :: t => if bytesLt n.data h.data then n :: h :: t else h :: treeInsert n t

/-- `Tree::get(data)` -/
def treeGet (l : List Node) (key : Bytes) : Option Node := l.find? (fun n => n.data == key)

/-! ### `ConstPool_addGap` -/

/-- the `if / else if` chain of `ConstPool_addGap`: size of the next gap piece -/
def gapSizeFor (offset size : Nat) : Nat :=
  if size ≥ 32 ∧ offset % 32 = 0 then 32
  else if size ≥ 16 ∧ offset % 16 = 0 then 16
  else if size ≥ 8 ∧ offset % 8 = 0 then 8
  else if size ≥ 4 ∧ offset % 4 = 0 then 4
  else if size ≥ 2 ∧ offset % 2 = 0 then 2
  else 1

/-- … and its index (`kIndex32` … `kIndex1`) -/
def gapIndexFor (offset size : Nat) : Nat :=
  if size ≥ 32 ∧ offset % 32 = 0 then 5
  else if size ≥ 16 ∧ offset % 16 = 0 then 4
  else if size ≥ 8 ∧ offset % 8 = 0 then 3
  else if size ≥ 4 ∧ offset % 4 = 0 then 2
  else if size ≥ 2 ∧ offset % 2 = 0 then 1
  else 0

theorem gapSizeFor_pos (offset size : Nat) : 0 < gapSizeFor offset size := by
  unfold gapSizeFor; repeat' split
  all_goals omega

/-- `ConstPool_addGap(self, offset, size)`: `while (size > 0) { … push a gap …; offset += gap_size; size -= gap_size; }`.
`fuel` bounds the number of iterations (every iteration takes at least one byte off `size`, so `size` iterations suffice);
structural recursion keeps the function evaluable inside Lean's kernel. -/
def addGapAux : Nat → List (List Gap) → Nat → Nat → List (List Gap)
  | 0, gaps, _, _ => gaps
  | fuel + 1, gaps, offset, size =>
    if size = 0 then gaps
    else
      let gi := gapIndexFor offset size
      let gs := gapSizeFor offset size
      addGapAux fuel (setAt gaps gi ({ offset := offset, size := gs } :: getAt gaps gi)) (offset + gs) (size - gs)

def addGap (gaps : List (List Gap)) (offset size : Nat) : List (List Gap) := addGapAux size gaps offset size

/-! ### `ConstPool::add` -/

/-- `Support::ctz(size)` for `size > 0` (fuel 64 = width of `size_t`) -/
def ctzAux : Nat → Nat → Nat
  | 0, _ => 0
  | fuel + 1, n => if n % 2 = 1 then 0 else 1 + ctzAux fuel (n / 2)
def ctz (n : Nat) : Nat := ctzAux 64 n

/-- `Support::align_up_diff(base, alignment)` = `align_up(base, alignment) - base` (alignment a power of two) -/
def alignUpDiff (base alignment : Nat) : Nat := (alignment - base % alignment) % alignment

/-- The `while (gap_index != kIndexCount - 1)` loop of `add`.  `iters` = number of remaining iterations
(`kIndexCount - 1 - gap_index`).  The C++ reads `_gaps[tree_index]` – not `_gaps[gap_index]` – in every iteration, so it
pops up to `iters` gaps of exactly the requested size and keeps only the last one popped. -/
def gapLoop (size treeIndex : Nat) : Nat → List (List Gap) → Option Nat → List (List Gap) × Option Nat
  | 0, gaps, offset => (gaps, offset)
  | iters + 1, gaps, offset =>
    match getAt gaps treeIndex with
    | [] => gapLoop size treeIndex iters gaps offset
    | gap :: next =>
      let gapOffset := gap.offset
      let gapSize := gap.size
      let gaps := setAt gaps treeIndex next              -- `_gaps[tree_index] = gap->_next`
      let gapSize := gapSize - size
      let gaps := if gapSize > 0 then addGap gaps gapOffset gapSize else gaps
      gapLoop size treeIndex iters gaps (some gapOffset)

/-- inner `for (i = 0; i < p_count; i++, data_ptr += smaller_size)` loop: register the pieces of one size -/
def shareLevel (data : Bytes) (offset smaller treeIndex pCount : Nat) (tree : List (List Node)) : List (List Node) :=
  (List.range pCount).foldl (fun tr i =>
    let piece := (data.drop (i * smaller)).take smaller
    match treeGet (getAt tr treeIndex) piece with
    | some _ => tr
    | none => setAt tr treeIndex (treeInsert { data := piece, offset := offset + i * smaller, shared := true } (getAt tr treeIndex)))
    tree

/-- `while (smaller_size > 4) { p_count <<= 1; smaller_size >>= 1; tree_index--; … }`; recursion on `tree_index`
(the C++ asserts `tree_index != 0` before decrementing it). -/
def shareLoop (data : Bytes) (offset : Nat) : (treeIndex smaller pCount : Nat) → List (List Node) → List (List Node)
  | 0, _, _, tree => tree
  | ti + 1, smaller, pCount, tree =>
    if smaller > 4 then
      let pCount := pCount * 2
      let smaller := smaller / 2
      shareLoop data offset ti smaller pCount (shareLevel data offset smaller ti pCount tree)
    else tree

def kMaxSize : Nat := 64

/-- The part of `add` that decides where the new constant goes: the gap loop, then
`if (offset == ~size_t(0)) { diff = align_up_diff(_size, size); if (diff) { addGap(_size, diff); _size += diff; } offset = _size; _size += size; }`.
Returns (`_gaps`, `offset`, `_size`). -/
def allocOffset (s : Pool) (size treeIndex : Nat) : List (List Gap) × Nat × Nat :=
  let r := gapLoop size treeIndex (6 - treeIndex) s.gaps none
  match r.2 with
  | some o => (r.1, o, s.size)
  | none =>
    let diff := alignUpDiff s.size size
    (if diff ≠ 0 then addGap r.1 s.size diff else r.1, s.size + diff, s.size + diff + size)

/-- `ConstPool::add(data, size, offset_out)` with `size = data.length` -/
def add (s : Pool) (data : Bytes) : Pool × Result :=
  let size := data.length
  if size = 0 ∨ size > kMaxSize then (s, .invalidArgument)
  else
    let treeIndex := ctz size
    if 2 ^ treeIndex ≠ size then (s, .invalidArgument)
    else
      match treeGet (getAt s.tree treeIndex) data with
      | some node => (s, .ok node.offset)
      | none =>
        let a := allocOffset s size treeIndex
        let offset := a.2.1
        let tree := setAt s.tree treeIndex (treeInsert { data := data, offset := offset, shared := false } (getAt s.tree treeIndex))
        let tree := shareLoop data offset treeIndex size 1 tree
        ({ tree := tree, gaps := a.1, size := a.2.2,
           alignment := max s.alignment size,
           minItemSize := if s.minItemSize = 0 then size else min s.minItemSize size }, .ok offset)

/-! ### `ConstPool::fill` -/

/-- `memcpy(dst + off, d, d.length)` on a byte list -/
def writeAt (buf : Bytes) (off : Nat) (d : Bytes) : Bytes := buf.take off ++ (d ++ buf.drop (off + d.length))

/-- `_tree[i].for_each(filler)`: every non-shared node is copied to its offset -/
def fillTree (buf : Bytes) (nodes : List Node) : Bytes :=
  nodes.foldl (fun b n => if n.shared then b else writeAt b n.offset n.data) buf

/-- `ConstPool::fill(dst)`: `memset(dst, 0, _size)` then the seven trees in index order -/
def fill (s : Pool) : Bytes :=
  (List.range 7).foldl (fun b i => fillTree b (getAt s.tree i)) (List.replicate s.size 0#8)

/-! ### `embed_const_pool` (data part) -/

/-- `Support::align_up(x, a)`; `align()` returns early for `alignment <= 1` -/
def alignUp (x a : Nat) : Nat := if a ≤ 1 then x else x + alignUpDiff x a

/-- `BaseAssembler::embed_const_pool` on a section that already holds `pre`: `align(AlignMode::kData, alignment)` pads
(`pad` = `0xCC` in x86::Assembler::align, `0x00` in a64::Assembler::align), the label is bound at the aligned position, then the pool image follows.
Returns (label offset, section). -/
def embed (pad : BitVec 8) (pre : Bytes) (s : Pool) : Nat × Bytes :=
  let at_ := alignUp pre.length s.alignment
  (at_, pre ++ (List.replicate (at_ - pre.length) pad ++ fill s))

/-! ### operations and runs -/

/-- operations of a history: the two state-changing ones and the two observations (`fill`, `embed_const_pool`) -/
inductive Op where
  | add (data : Bytes)
  | reset
  | fill
  | embed (pad : BitVec 8) (pre : Bytes)
deriving DecidableEq, Repr

def step (s : Pool) : Op → Pool
  | .add d => (add s d).1
  | .reset => Pool.init
  | .fill => s
  | .embed _ _ => s

def runFrom (s : Pool) (ops : List Op) : Pool := ops.foldl step s
def run (ops : List Op) : Pool := runFrom Pool.init ops

end AsmjitVerif.ConstPool
