/-
C05 - the validator's own width-aware rules (used by Driver/C05.lean when it translates a dumped instruction into the IR):
same-register / identity idioms, register-to-memory substitution, move whitelist with byte widths.
They are decisions of the *translator* (trusted side of C05); `Props/C05Idioms.lean` proves each of them against a BitVec
semantics of the instructions (`Spec/X86Regs.lean`), so a wrong rule breaks a proof.   Core-only: the driver links this file.
-/
namespace AsmjitVerif.RAIdioms

/-- one bit per byte, like OpRWInfo's byte masks -/
def byteMask (size : Nat) : Nat := 2 ^ (min size 64) - 1

def allBytes : Nat := 2 ^ 64 - 1

/-- the write (written bytes `wm`, zero-extended bytes `em`) defines every byte of a `vs`-byte virtual register -/
def covers (vs wm em : Nat) : Bool := (byteMask vs &&& ((wm ||| em) ^^^ allBytes)) == 0

/-- the write zero-extends into bytes of the `vs`-byte virtual register -/
def extendsLive (vs em : Nat) : Bool := (byteMask vs &&& em) != 0

/-- instructions whose result does not depend on the operands when both sources are the same register -/
def sameRegZeroNames : List String :=
  ["xor", "sub", "pxor", "xorps", "xorpd", "psubb", "psubw", "psubd", "psubq", "vpxor", "vxorps", "vxorpd", "vpxord", "vpxorq", "vpsubb", "vpsubw",
   "vpsubd", "vpsubq", "pcmpeqb", "pcmpeqw", "pcmpeqd", "pcmpeqq", "vpcmpeqb", "vpcmpeqw", "vpcmpeqd", "vpcmpeqq", "kxorw", "kxorb", "kxord", "kxorq",
   "eor"]

/-- instructions that leave the register as it is when all operands are that register -/
def sameRegKeepNames : List String :=
  ["or", "and", "por", "pand", "orps", "orpd", "andps", "andpd", "vpor", "vpand", "vorps", "vorpd", "vandps", "vandpd", "vpord", "vporq", "vpandd",
   "vpandq", "korw", "kandw", "korb", "kandb", "kord", "kandd", "korq", "kandq"]

/-- `op reg, 0` leaves the register as it is (NOT `and`: `and reg, 0` clears it) -/
def immZeroKeepNames : List String := ["add", "or", "xor", "sub", "rol", "ror", "sar", "shl", "shr"]

def sameRegZero (n : String) : Bool := sameRegZeroNames.contains n
def sameRegKeep (n : String) : Bool := sameRegKeepNames.contains n
def immZeroKeep (n : String) : Bool := immZeroKeepNames.contains n

inductive Rule where
  /-- the written bytes do not depend on the register; `readsRest` = the write does not cover the virtual register, which is therefore still read -/
  | zero (readsRest : Bool)
  /-- the register keeps its value: it is not written (flags still are) -/
  | keep
  /-- the register becomes all ones whatever it held: it is not read -/
  | ones
  | none
  deriving DecidableEq, Repr, Inhabited

/-- the idiom rule for an instruction: `sameRegs` = all register operands are the same register, `srcSame` = the two sources are,
    `imm1` = the immediate second operand of a two-operand instruction -/
def classify (name : String) (nOps : Nat) (sameRegs srcSame : Bool) (imm1 : Option String) (cov ext : Bool) : Rule :=
  if srcSame && sameRegZero name then .zero (!cov)
  else if sameRegs && nOps == 2 && sameRegKeep name && !ext then .keep
  else if name == "or" && imm1 == some "-1" && cov then .ones
  else if imm1 == some "0" && immZeroKeep name && !ext then .keep
  else .none

/-- register-to-memory substitution of a written operand: the memory form of `rsize` bytes leaves the bytes the register form
    zero-extends into untouched - refused when those bytes belong to the virtual register -/
def regToMemLost (memW : Bool) (vs rwmask remask : Nat) : Bool :=
  memW && (byteMask vs &&& remask &&& (rwmask ^^^ allBytes)) != 0

/-! ### move whitelist -/

def x86MoveNames : List String :=
  ["mov", "movaps", "movapd", "movups", "movupd", "movdqa", "movdqu", "vmovaps", "vmovapd", "vmovups", "vmovupd", "vmovdqa", "vmovdqu",
   "vmovdqa32", "vmovdqa64", "vmovdqu8", "vmovdqu16", "vmovdqu32", "vmovdqu64", "kmovb", "kmovw", "kmovd", "kmovq", "movq", "vmovq", "movd", "vmovd"]
def a64MoveNames : List String := ["mov", "fmov"]
/-- exact copies only with a memory operand -/
def x86MemMoveNames : List String := ["movss", "movsd", "vmovss", "vmovsd", "movzx"]
def a64MemMoveNames : List String := ["ldr", "str", "ldur", "stur"]

def isMoveName (x86 : Bool) (n : String) : Bool := if x86 then x86MoveNames.contains n else a64MoveNames.contains n
def isMemMoveName (x86 : Bool) (n : String) : Bool := if x86 then x86MemMoveNames.contains n else a64MemMoveNames.contains n

/-- the most bytes the mnemonic copies, whatever the register size -/
def moveCap (n : String) : Nat :=
  if n == "kmovb" then 1 else if n == "kmovw" then 2
  else if ["kmovd", "movd", "vmovd", "movss", "vmovss"].contains n then 4
  else if ["kmovq", "movq", "vmovq", "movsd", "vmovsd"].contains n then 8 else 64

/-- bytes a whitelisted move copies: the mnemonic's cap, the register size(s), the memory operand size when it has one -/
def moveBytes (name : String) (regSize : Nat) (memSize : Option Nat) : Nat :=
  match memSize with
  | some m => min (moveCap name) (if m == 0 then regSize else m)
  | none => min (moveCap name) regSize

end AsmjitVerif.RAIdioms
