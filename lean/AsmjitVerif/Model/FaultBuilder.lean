/-
C15 - the allocating calls of `BaseBuilder` (asmjit/core/builder.cpp) under the fault oracle, in the order of the C++:
`_emit` (node, then the duplicated inline comment), `new_label` (`CodeHolder::new_label_id`, `Builder_new_label_internal`:
`_label_nodes.reserve_additional(grow_by)`, `LabelNode`, unchecked appends), `bind` (`label_node_of`: `_label_nodes.resize_grow`,
`LabelNode` on demand, `add_node`), `align`, `embed` (node carries the data), `embed_label`, `comment` (string dup, node) and
`CodeHolder::new_label_id` called directly (a label without node).  Nodes are appended at the cursor, which stays at the end.

Observable (`BView`): the node list and the number of labels of the CodeHolder.  Bookkeeping (`BCaps`): capacity of
`_label_entries`, size / capacity / filled entries of `_label_nodes`.  Core-only imports.
-/
import AsmjitVerif.Model.Fault
namespace AsmjitVerif.FaultBuilder
open AsmjitVerif AsmjitVerif.Fault

inductive Node where
  | section (id : Nat)
  /-- instruction `k` with its extra register (0 = none), its options and whether it carries an inline comment -/
  | inst (k : Nat) (extra opts : Nat) (hasComment : Bool)
  | label (id : Nat)
  | align (n : Nat)
  | data (size : Nat)
  | elabel (id : Nat)
  | comment (len : Nat)
  deriving DecidableEq, Repr, Inhabited

structure BView where
  nodes : List Node := [.section 0]
  labelCount : Nat := 0
  /-- the emitter's one-shot state, consumed by the next `_emit`: extra register (`k(k1)` write mask / `rep(ecx)` count; 0 =
  none), instruction options (`lock()`, `rep()`, ...), inline comment -/
  pendExtra : Nat := 0
  pendOpts : Nat := 0
  pendCmt : Bool := false
  deriving DecidableEq, Repr, Inhabited

/-- what `_emit` leaves of the one-shot state - after a successful call AND after a failed one (`reset_inst_options()`,
`reset_inline_comment()` before the null check, `reset_extra_reg()` on both paths) -/
def clearOneShot (v : BView) : BView := { v with pendExtra := 0, pendOpts := 0, pendCmt := false }

structure BCaps where
  /-- capacity of `CodeHolder::_label_entries` -/
  labCap : Nat := 0
  /-- `_label_nodes`: entry `i` is non-null -/
  lnodes : List Bool := []
  lnCap : Nat := 0
  deriving DecidableEq, Repr, Inhabited

structure BSt where
  v : BView := {}
  c : BCaps := {}
  corrupt : Bool := false
  deriving DecidableEq, Repr, Inhabited

inductive BOp where
  | emit (k : Nat)
  | setExtra (r : Nat)
  | setOpts (bits : Nat)
  | setComment
  | newLabel
  | codeLabel
  | bind (l : Nat)
  | align (n : Nat)
  | embed (size : Nat)
  | embedLabel (l : Nat)
  | comment (len : Nat)
  deriving DecidableEq, Repr, Inhabited

/-- `reserve_grow(n)` of an 8-byte vector with capacity `cap`: (oracle, capacity, success) -/
def reserveGrow8 (o : Oracle) (cap n : Nat) : Oracle × Nat × Bool :=
  if cap < n then
    match req o with
    | (true, o1) => (o1, cap, false)
    | (false, o1) => (o1, allocSize (Vector.expandByteSize (n * 8)) / 8, true)
  else (o, cap, true)

/-- one node allocation followed by `add_node` -/
def addNode (o : Oracle) (s : BSt) (n : Node) : Oracle × BSt × Err :=
  match req o with
  | (true, o1) => (o1, s, .oom)
  | (false, o1) => (o1, { s with v := { s.v with nodes := s.v.nodes ++ [n] } }, .ok)

/-- `BaseBuilder::_emit`: the one-shot state is read, the node is requested, options and comment are reset BEFORE the null
check and the extra register on both paths: a failed `_emit` leaves no pending state behind -/
def emit (o : Oracle) (s : BSt) (k : Nat) : Oracle × BSt × Err :=
  let cl := clearOneShot s.v
  match req o with                        -- `_builder_arena.alloc_oneshot(node size)`
  | (true, o1) => (o1, { s with v := cl }, .oom)
  | (false, o1) =>
    if s.v.pendCmt then
      match req o1 with                   -- `_builder_arena.dup(comment)`: a null result is stored as "no comment"
      | (true, o2) => (o2, { s with v := { cl with nodes := cl.nodes ++ [.inst k s.v.pendExtra s.v.pendOpts false] } }, .ok)
      | (false, o2) => (o2, { s with v := { cl with nodes := cl.nodes ++ [.inst k s.v.pendExtra s.v.pendOpts true] } }, .ok)
    else (o1, { s with v := { cl with nodes := cl.nodes ++ [.inst k s.v.pendExtra s.v.pendOpts false] } }, .ok)

/-- `CodeHolder::new_label_id` -/
def codeLabel (o : Oracle) (s : BSt) : Oracle × BSt × Err :=
  match reserveAdd o s.v.labelCount s.c.labCap 1 16 with
  | (o1, _, false) => (o1, s, .oom)
  | (o1, c1, true) =>
    (o1, { s with v := { s.v with labelCount := s.v.labelCount + 1 }, c := { s.c with labCap := c1 },
                  corrupt := s.corrupt || s.v.labelCount ≥ c1 }, .ok)

/-- `Builder_new_label_internal(label_id)` after `new_label_id` answered `r` (`id` = the id it handed out) -/
def newLabelTail (id : Nat) (r : Oracle × BSt × Err) : Oracle × BSt × Err :=
  if r.2.2 ≠ .ok then r else
  let s1 := r.2.1
  let growBy := id - s1.c.lnodes.length + 1
  match reserveAdd r.1 s1.c.lnodes.length s1.c.lnCap growBy 8 with
  | (o2, _, false) => (o2, s1, .oom)                          -- the label id stays allocated
  | (o2, c2, true) =>
    match req o2 with                                          -- `new_node_t<LabelNode>`
    | (true, o3) => (o3, { s1 with c := { s1.c with lnCap := c2 } }, .oom)
    | (false, o3) =>
      (o3, { s1 with c := { s1.c with lnCap := c2, lnodes := s1.c.lnodes ++ List.replicate (growBy - 1) false ++ [true] },
                     corrupt := s1.corrupt || s1.c.lnodes.length + growBy > c2 }, .ok)

/-- `BaseBuilder::new_label()` (the label is NOT bound; its node exists) -/
def newLabel (o : Oracle) (s : BSt) : Oracle × BSt × Err := newLabelTail s.v.labelCount (codeLabel o s)

/-- `label_node_of`: the `_label_nodes.resize_grow(label_id + 1)` part: (oracle, state, success) -/
def lnResize (o : Oracle) (s : BSt) (l : Nat) : Oracle × BSt × Bool :=
  if l ≥ s.c.lnodes.length then
    match reserveGrow8 o s.c.lnCap (l + 1) with
    | (o1, _, false) => (o1, s, false)
    | (o1, c1, true) =>
      (o1, { s with c := { s.c with lnCap := c1, lnodes := s.c.lnodes ++ List.replicate (l + 1 - s.c.lnodes.length) false },
                    corrupt := s.corrupt || l + 1 > c1 }, true)
  else (o, s, true)

/-- `label_node_of`: the node on demand -/
def lnNode (l : Nat) (r : Oracle × BSt × Bool) : Oracle × BSt × Err :=
  if r.2.2 = false then (r.1, r.2.1, .oom)
  else if r.2.1.c.lnodes.getD l false then (r.1, r.2.1, .ok)
  else match req r.1 with                                      -- `new_node_t<LabelNode>(label_id)`
    | (true, o2) => (o2, r.2.1, .oom)
    | (false, o2) => (o2, { r.2.1 with c := { r.2.1.c with lnodes := r.2.1.c.lnodes.set l true } }, .ok)

/-- `label_node_of(label_id)` -/
def labelNodeOf (o : Oracle) (s : BSt) (l : Nat) : Oracle × BSt × Err :=
  if l ≥ s.v.labelCount then (o, s, .invalidArgument)          -- kInvalidLabel
  else lnNode l (lnResize o s l)

/-- `bind` after `label_node_of` answered `r` -/
def bindTail (l : Nat) (r : Oracle × BSt × Err) : Oracle × BSt × Err :=
  if r.2.2 ≠ .ok then r
  else if r.2.1.v.nodes.contains (.label l) then (r.1, r.2.1, .invalidState)          -- kLabelAlreadyBound
  else (r.1, { r.2.1 with v := { r.2.1.v with nodes := r.2.1.v.nodes ++ [.label l] } }, .ok)

/-- `BaseBuilder::bind(label)` -/
def bind (o : Oracle) (s : BSt) (l : Nat) : Oracle × BSt × Err := bindTail l (labelNodeOf o s l)

/-- `BaseBuilder::comment(data, size)` -/
def comment (o : Oracle) (s : BSt) (len : Nat) : Oracle × BSt × Err :=
  if len = 0 then addNode o s (.comment 0)
  else match req o with                     -- `_builder_arena.dup(data, size, true)`
    | (true, o1) => (o1, s, .oom)
    | (false, o1) => addNode o1 s (.comment len)

def bstep (op : BOp) (o : Oracle) (s : BSt) : Oracle × BSt × Err :=
  match op with
  | .emit k => emit o s k
  | .setExtra r => (o, { s with v := { s.v with pendExtra := r } }, .ok)
  | .setOpts b => (o, { s with v := { s.v with pendOpts := s.v.pendOpts ||| b } }, .ok)
  | .setComment => (o, { s with v := { s.v with pendCmt := true } }, .ok)
  | .newLabel => newLabel o s
  | .codeLabel => codeLabel o s
  | .bind l => bind o s l
  | .align n => addNode o s (.align n)
  | .embed n => addNode o s (.data n)
  | .embedLabel l => if l ≥ s.v.labelCount then (o, s, .invalidArgument) else addNode o s (.elabel l)
  | .comment n => comment o s n

/-- failure-free meaning on the observable state; the answer, and for `emit` whether the comment survives, are those of the
run without failures -/
def bspec (op : BOp) (v : BView) : BView × Err :=
  match op with
  | .emit k => ({ clearOneShot v with nodes := v.nodes ++ [.inst k v.pendExtra v.pendOpts v.pendCmt] }, .ok)
  | .setExtra r => ({ v with pendExtra := r }, .ok)
  | .setOpts b => ({ v with pendOpts := v.pendOpts ||| b }, .ok)
  | .setComment => ({ v with pendCmt := true }, .ok)
  | .newLabel => ({ v with labelCount := v.labelCount + 1 }, .ok)
  | .codeLabel => ({ v with labelCount := v.labelCount + 1 }, .ok)
  | .bind l =>
    if l ≥ v.labelCount then (v, .invalidArgument)
    else if v.nodes.contains (.label l) then (v, .invalidState)
    else ({ v with nodes := v.nodes ++ [.label l] }, .ok)
  | .align n => ({ v with nodes := v.nodes ++ [.align n] }, .ok)
  | .embed n => ({ v with nodes := v.nodes ++ [.data n] }, .ok)
  | .embedLabel l => if l ≥ v.labelCount then (v, .invalidArgument) else ({ v with nodes := v.nodes ++ [.elabel l] }, .ok)
  | .comment n => ({ v with nodes := v.nodes ++ [.comment n] }, .ok)

def brun : List BOp → Oracle → BSt → BSt × List Err
  | [], _, s => (s, [])
  | op :: rest, o, s =>
    match bstep op o s with
    | (o1, s1, e) => let (s2, es) := brun rest o1 s1; (s2, e :: es)

end AsmjitVerif.FaultBuilder
