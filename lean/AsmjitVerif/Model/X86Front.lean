/-
C01 model, front-end layer: the prologue of `x86::Assembler::_emit` (option block: LOCK / XACQUIRE / XRELEASE / REP
prefixes, opcode fetch) and the per-encoding-class operand dispatch (`switch (inst_info->_encoding)`) for the most
populated classes, each case transcribed after x86assembler.cpp; everything else answers `unmodelled`.
The instruction row (encoding id, main / alt opcode word, InstFlags, Avx512Flags) is read from the real tables by the
harness (`row <name>`), so no table is re-typed here.

Modelled classes: X86Rm, X86Rm_NoSize, X86Mr, X86Mr_NoSize, ExtRm, ExtRm_P, ExtRmi, ExtRmi_P, VexRm, VexRm_Lx, VexRmi,
VexRmi_Lx, VexRvm, VexRvm_Lx, VexRvm_Lx_KEvex, VexRvmi, VexRvmi_Lx, VexMr_Lx, VexMri, VexMri_Lx, VexRm_VM, VexMr_VM, VexRmv_VM.
Strict validation is NOT modelled (C13): the correspondence compares only calls the real validator accepted, plus
the encoder's own refusals.
-/
import AsmjitVerif.Model.X86Backend
namespace Model.X86

inductive Op
  | none
  | reg (rtype : Nat) (id : Nat)
  | mem (m : Mem)
  | imm (v : BitVec 64)
  | label (pos : Nat)
  deriving Repr, Inhabited

/-- `Operand::x86_rm_size()`: register size by type (RegTraits), memory size from the signature -/
def Op.rmSize : Op → Nat
  | .reg t _ => if t == 2 || t == 3 then 1 else if t == 4 then 2 else if t == 5 then 4 else if t == 6 then 8
                else if t == 11 then 16 else if t == 12 then 32 else if t == 13 then 64 else if t == 28 then 8
                else if t == 29 then 10 else if t == 30 then 16 else if t == 25 then 2 else if t == 26 || t == 27 then 0 else 0
  | .mem m => m.size
  | _ => 0

def Op.kind : Op → Nat   -- OperandType: 0 none 1 reg 2 mem 3 reg-list 4 imm 5 label
  | .none => 0 | .reg _ _ => 1 | .mem _ => 2 | .imm _ => 4 | .label _ => 5

def Op.id : Op → Nat
  | .reg _ id => id | .mem m => m.baseId | _ => 0
def Op.isVec128 : Op → Bool | .reg 11 _ => true | _ => false
def Op.isMask : Op → Bool | .reg 16 _ => true | _ => false
def Op.immVal : Op → BitVec 64 | .imm v => v | _ => 0

/-- `ll_by_size_div_16_table[size / 16]` -/
def opcodeLBySize (size : Nat) : BitVec 32 :=
  let x := size / 16
  if x % 16 / 4 % 2 == 1 then 0x40000000#32 else if x % 16 / 2 % 2 == 1 then 0x20000000#32 else 0#32

/-- `ll_by_reg_type_table[index type]` -/
def opcodeLByVMem (m : Mem) : BitVec 32 :=
  if m.indexType == 13 then 0x40000000#32 else if m.indexType == 12 then 0x20000000#32 else 0#32

/-- `Opcode::add_prefix_by_size` -/
def addPrefixBySize (opcode : BitVec 32) (size : Nat) : BitVec 32 :=
  if size % 16 == 2 then opcode ||| 0x200000#32 else if size % 16 == 8 then opcode ||| kW else opcode


def isInt8of64 (v : BitVec 64) : Bool := (0xFFFFFFFFFFFFFF80#64).sle v && v.sle 0x7F#64
def signExtendInt32 (v : BitVec 64) : BitVec 64 := (v.truncate 32 : BitVec 32).signExtend 64
def isUInt32of64 (v : BitVec 64) : Bool := v ≤ 0xFFFFFFFF#64

/-- `Opcode::add_arith_by_size` -/
def addArithBySize (opcode : BitVec 32) (size : Nat) : BitVec 32 :=
  if size % 16 == 2 then opcode ||| (1#32 ||| kPP_66) else if size % 16 == 4 then opcode ||| 1#32
  else if size % 16 == 8 then opcode ||| (1#32 ||| kW) else opcode

def Op.isGp8Hi : Op → Bool | .reg 3 _ => true | _ => false
def Op.isSReg : Op → Bool | .reg 25 _ => true | _ => false
/-- `Reg::is_gp()`: GPB-lo, GPB-hi, GPW, GPD, GPQ -/
def Op.isGp : Op → Bool | .reg t _ => t ≥ 2 && t ≤ 6 | _ => false

/-- `FIXUP_GPB(REG_OP, REG_ID)`: returns (options, id) -/
def fixupGpb (options : BitVec 32) (o : Op) (id : BitVec 32) : BitVec 32 × BitVec 32 :=
  if !o.isGp8Hi then ((if id ≥ 4#32 then options ||| oRex else options), id)
  else (options ||| oInvalidRex, id + 4#32)

/-- `opcode_push_sreg_table` / `opcode_pop_sreg_table` -/
def pushSReg (s : Nat) : BitVec 32 :=
  match s with | 1 => 0x06#32 | 2 => 0x0E#32 | 3 => 0x16#32 | 4 => 0x1E#32 | 5 => 0x1A0#32 | 6 => 0x1A8#32 | _ => 0#32
def popSReg (s : Nat) : BitVec 32 :=
  match s with | 1 => 0x07#32 | 3 => 0x17#32 | 4 => 0x1F#32 | 5 => 0x1A1#32 | 6 => 0x1A9#32 | _ => 0#32

/-- `EmitJmpCall` + `EmitJmpCallRel` for a label bound at `pos` of the current section or an absolute target with a known base address;
relocation / unbound-label paths answer `unmodelled`. -/
def emitJmpCall (c : Ctx) (opcode options opReg altOp : BitVec 32) (target : Op) (isJmpOrCall : Bool) : Except Err (List Byte) := do
  let rexB ← emitRex (extractRex opcode options)
  let ip : Nat := c.off + rexB.length
  let inst32 : Nat := 5 + (if opReg != 0#32 then 1 else 0) + (if (opcode &&& kMM_Mask) == kMM_0F then 1 else 0)
  let rel32 : BitVec 32 ←
    (match target with
     | .label pos => Except.ok (BitVec.ofNat 32 pos - BitVec.ofNat 32 ip - BitVec.ofNat 32 inst32)
     | .imm addr =>
       match c.base with
       | none => Except.error Err.unmodelled
       | some base =>
         let rel64 : BitVec 64 := addr - (BitVec.ofNat 64 ip + base) - BitVec.ofNat 64 inst32
         if !c.mode64 || isInt32of64 rel64 then Except.ok (rel64.truncate 32)
         else if !isJmpOrCall then Except.error Err.invalidDisplacement else Except.error Err.unmodelled
     | _ => Except.error Err.invalidInstruction)
  let d8 : BitVec 32 := rel32 + BitVec.ofNat 32 inst32 - 2#32
  if isInt8 d8 && altOp != 0#32 && (options &&& oLongForm) == 0#32 then
    pure (rexB ++ [altOp.truncate 8, d8.truncate 8])
  else if opcode == 0#32 || (options &&& oShortForm) != 0#32 then .error .invalidDisplacement
  else
    pure (rexB ++ (if (opcode &&& kMM_Mask) != 0#32 then [0x0F#8] else []) ++ [opcode.truncate 8] ++
          (if opReg != 0#32 then [(encodeMod 3#32 opReg 0#32).truncate 8] else []) ++ le32 rel32)

structure Row where
  id : Nat
  encoding : Nat
  mainOp : BitVec 32
  altOp : BitVec 32
  iflags : BitVec 32
  aflags : BitVec 32

def Row.ctx (r : Row) (mode64 : Bool) (base : Option (BitVec 64)) (off : Nat) (k : Nat) : Ctx :=
  { mode64 := mode64, base := base, off := off, isLea := r.id == 0x177,
    tsib := (r.iflags &&& 0x200000#32) != 0#32, vsib := (r.iflags &&& 0x100000#32) != 0#32,
    vexFlag := (r.iflags &&& 0x400000#32) != 0#32, preferEvex := (r.iflags &&& 0x1000000#32) != 0#32,
    hasER := (r.aflags &&& 4#32) != 0#32, hasSAE := (r.aflags &&& 8#32) != 0#32,
    bcstSize := ((r.aflags &&& 0x70#32) >>> 3).toNat, extraId := BitVec.ofNat 32 k }

def sig2 (a b : Op) : Nat := a.kind + b.kind * 8
def sig3 (a b c : Op) : Nat := a.kind + b.kind * 8 + c.kind * 64
def sig4 (a b c d : Op) : Nat := a.kind + b.kind * 8 + c.kind * 64 + d.kind * 512

def packRegVvvvv (reg vvvvv : Nat) : BitVec 32 := BitVec.ofNat 32 (reg + vvvvv * 128)
def r32 (n : Nat) : BitVec 32 := BitVec.ofNat 32 n
def b2w (b : Bool) : BitVec 32 := if b then 1#32 else 0#32

/-- `EmitX86OpMovAbs`: segment override, then `EmitX86Op` with the address as an immediate of the native register size -/
def emitMovAbs (c : Ctx) (opcode options : BitVec 32) (m : Mem) : Except Err (List Byte) := do
  let body ← emitX86Op opcode options m.offset (if c.mode64 then 8 else 4)
  pure (segmentPrefix m.seg ++ body)

/-- `x86_should_use_movabs` (`size` = register size; the writer is at `c.off`) -/
def shouldUseMovabs (c : Ctx) (size : Nat) (options : BitVec 32) (m : Mem) : Bool :=
  let modOpt := (options &&& (oModMR ||| oModRM)) != 0#32
  if !c.mode64 then !modOpt
  else if m.addrType == 2 || modOpt then false
  else
    let relOrSmall : Bool :=
      match (if m.addrType == 0 && m.seg == 0 then c.base else none) with
      | some base =>
        let isz : Nat := (if m.seg != 0 then 1 else 0) + (if size == 2 then 1 else 0) + (if size == 8 || (options &&& oRex) != 0#32 then 1 else 0) + 1 + 8
        isInt32of64 (m.offset - (base + BitVec.ofNat 64 (c.off + isz)))
      | none => isInt32of64 m.offset
    if relOrSmall then false else m.offset.toNat > 0xFFFFFFFF

/-- the encoding switch; `pfx` are the LOCK/REP bytes already written, `options` already contains the forced options -/
def dispatch (c : Ctx) (r : Row) (options : BitVec 32) (o0 o1 o2 o3 : Op) : Except Err (List Byte) :=
  let opcode := r.mainOp
  let opReg0 := (opcode >>> 18) &&& 7#32
  let isign3 := sig3 o0 o1 o2
  let isign4 := sig4 o0 o1 o2 o3
  let RR := 1 + 8
  let RM := 1 + 16
  let MR := 2 + 8
  let memOf (o : Op) : Mem := match o with | .mem m => m | _ => default
  let x86RM (opcode : BitVec 32) (imm : BitVec 64) (isz : Nat) : Except Err (List Byte) :=
    if isign3 == (if isz == 0 then RR else RR + 4 * 64) then emitX86R opcode options (r32 o0.id) (r32 o1.id) imm isz
    else if isign3 == (if isz == 0 then RM else RM + 4 * 64) then emitX86M c opcode options (r32 o0.id) (memOf o1) imm isz
    else .error .invalidInstruction
  let vexRM (opcode : BitVec 32) (imm : BitVec 64) (isz : Nat) : Except Err (List Byte) :=
    if isign3 == (if isz == 0 then RR else RR + 4 * 64) then emitVexEvexR c opcode options (r32 o0.id) (r32 o1.id) imm isz
    else if isign3 == (if isz == 0 then RM else RM + 4 * 64) then emitVexEvexM c opcode options (r32 o0.id) (memOf o1) imm isz
    else .error .invalidInstruction
  let vexRvm (opcode : BitVec 32) : Except Err (List Byte) :=
    if isign3 == 1 + 8 + 64 then emitVexEvexR c opcode options (packRegVvvvv o0.id o1.id) (r32 o2.id) 0 0
    else if isign3 == 1 + 8 + 128 then emitVexEvexM c opcode options (packRegVvvvv o0.id o1.id) (memOf o2) 0 0
    else .error .invalidInstruction
  let vexRvmi (opcode : BitVec 32) : Except Err (List Byte) :=
    if isign4 == 1 + 8 + 64 + 4 * 512 then emitVexEvexR c opcode options (packRegVvvvv o0.id o1.id) (r32 o2.id) o3.immVal 1
    else if isign4 == 1 + 8 + 128 + 4 * 512 then emitVexEvexM c opcode options (packRegVvvvv o0.id o1.id) (memOf o2) o3.immVal 1
    else .error .invalidInstruction
  let vexMri (opcode : BitVec 32) : Except Err (List Byte) :=
    if isign3 == RR + 4 * 64 then emitVexEvexR c opcode options (r32 o1.id) (r32 o0.id) o2.immVal 1
    else if isign3 == MR + 4 * 64 then emitVexEvexM c opcode options (r32 o1.id) (memOf o0) o2.immVal 1
    else .error .invalidInstruction
  let lx01 := opcodeLBySize (o0.rmSize ||| o1.rmSize)
  -- VexRvmRmv: [reg, rm, vvvv] (W0); with `mod_mr()` or a memory third operand the equivalent [reg, vvvv, rm] form (W1)
  let vexRvmRmv : Except Err (List Byte) :=
    if isign3 == 1 + 8 + 64 then
      if (options &&& oModMR) == 0#32 then emitVexEvexR c opcode options (packRegVvvvv o0.id o2.id) (r32 o1.id) 0 0
      else emitVexEvexR c (opcode ||| kW) options (packRegVvvvv o0.id o1.id) (r32 o2.id) 0 0
    else if isign3 == 1 + 16 + 64 then emitVexEvexM c opcode options (packRegVvvvv o0.id o2.id) (memOf o1) 0 0
    else if isign3 == 1 + 8 + 128 then emitVexEvexM c (opcode ||| kW) options (packRegVvvvv o0.id o1.id) (memOf o2) 0 0
    else .error .invalidInstruction
  -- VexRmMr: load = main opcode, store = alternative opcode (keeping LL)
  let vexRmMr (opc : BitVec 32) : Except Err (List Byte) :=
    if isign3 == RR then emitVexEvexR c opc options (r32 o0.id) (r32 o1.id) 0 0
    else if isign3 == RM then emitVexEvexM c opc options (r32 o0.id) (memOf o1) 0 0
    else if isign3 == MR then emitVexEvexM c ((opc &&& kLL_Mask) ||| r.altOp) options (r32 o1.id) (memOf o0) 0 0
    else .error .invalidInstruction
  match r.encoding with
  | 0x14 => x86RM (addPrefixBySize opcode o0.rmSize) 0 0                       -- X86Rm
  | 0x15 =>                                                                       -- X86Rm_Raw66H (66 + [F2|F3]: the 66 byte is written first)
    let raw : List Byte := if o0.rmSize == 2 then [0x66#8] else []
    let opcode := if o0.rmSize == 2 then opcode else if o0.rmSize == 8 then opcode ||| kW else opcode
    let c' := { c with off := c.off + raw.length }
    if isign3 == RR then (emitX86R opcode options (r32 o0.id) (r32 o1.id) 0 0).map (raw ++ ·)
    else if isign3 == RM then (emitX86M c' opcode options (r32 o0.id) (memOf o1) 0 0).map (raw ++ ·)
    else .error .invalidInstruction
  | 0x16 => x86RM opcode 0 0                                                     -- X86Rm_NoSize
  | 0x17 =>                                                                       -- X86Mr
    let opcode := addPrefixBySize opcode o1.rmSize
    if isign3 == RR then emitX86R opcode options (r32 o1.id) (r32 o0.id) 0 0
    else if isign3 == MR then emitX86M c opcode options (r32 o1.id) (memOf o0) 0 0
    else .error .invalidInstruction
  | 0x18 =>                                                                       -- X86Mr_NoSize
    if isign3 == RR then emitX86R opcode options (r32 o1.id) (r32 o0.id) 0 0
    else if isign3 == MR then emitX86M c opcode options (r32 o1.id) (memOf o0) 0 0
    else .error .invalidInstruction
  | 0x4a => if isign3 == RR || isign3 == RM then x86RM opcode 0 0 else .error .invalidInstruction   -- ExtRm
  | 0x4d =>                                                                       -- ExtRm_P
    if isign3 == RR then x86RM (opcode ||| (b2w (o0.isVec128 || o1.isVec128) <<< 21)) 0 0
    else if isign3 == RM then x86RM (opcode ||| (b2w o0.isVec128 <<< 21)) 0 0
    else .error .invalidInstruction
  | 0x52 => x86RM opcode o2.immVal 1                                             -- ExtRmi
  | 0x53 =>                                                                       -- ExtRmi_P
    if isign3 == RR + 4 * 64 then x86RM (opcode ||| (b2w (o0.isVec128 || o1.isVec128) <<< 21)) o2.immVal 1
    else if isign3 == RM + 4 * 64 then x86RM (opcode ||| (b2w o0.isVec128 <<< 21)) o2.immVal 1
    else .error .invalidInstruction
  | 0x68 => if isign3 == RR || isign3 == RM then vexRM opcode 0 0 else .error .invalidInstruction              -- VexRm
  | 0x6b => if isign3 == RR || isign3 == RM then vexRM (opcode ||| lx01) 0 0 else .error .invalidInstruction   -- VexRm_Lx
  | 0x6f => vexRM opcode o2.immVal 1                                              -- VexRmi
  | 0x71 => vexRM (opcode ||| lx01) o2.immVal 1                                   -- VexRmi_Lx
  | 0x72 => vexRvm opcode                                                          -- VexRvm
  | 0x75 => vexRvm (opcode ||| lx01)                                               -- VexRvm_Lx
  | 0x76 => vexRvm ((opcode ||| (b2w o0.isMask <<< 12)) ||| lx01)                  -- VexRvm_Lx_KEvex
  | 0x73 => vexRvm (opcode ||| (if o0.rmSize == 8 && o0.isGp || o2.rmSize == 8 then kW else 0#32))   -- VexRvm_Wx (`o0.is_gp64() | o2.x86_rm_size() == 8`)
  | 0x7b => vexRvmi (opcode ||| (b2w o0.isMask <<< 12))                            -- VexRvmi_KEvex
  | 0x7d => vexRvmi ((opcode ||| (b2w o0.isMask <<< 12)) ||| lx01)                 -- VexRvmi_Lx_KEvex
  | 0x7a => vexRvmi opcode                                                         -- VexRvmi
  | 0x7c => vexRvmi (opcode ||| lx01)                                              -- VexRvmi_Lx
  | 0x85 => vexRvmRmv                                                              -- VexRvmRmv (XOP vpsha* / vpshl*)
  | 0x88 =>                                                                        -- VexRvmRmvRmi (XOP vprot*): + immediate form, alternative opcode
    if isign3 == RR + 4 * 64 then emitVexEvexR c r.altOp options (r32 o0.id) (r32 o1.id) o2.immVal 1
    else if isign3 == RM + 4 * 64 then emitVexEvexM c r.altOp options (r32 o0.id) (memOf o1) o2.immVal 1
    else vexRvmRmv
  | 0x83 => vexRmMr opcode                                                         -- VexRmMr
  | 0x84 => vexRmMr (opcode ||| lx01)                                               -- VexRmMr_Lx
  | 0x62 =>                                                                        -- VexMr_Lx
    let opcode := opcode ||| lx01
    if isign3 == RR then emitVexEvexR c opcode options (r32 o1.id) (r32 o0.id) 0 0
    else if isign3 == MR then emitVexEvexM c opcode options (r32 o1.id) (memOf o0) 0 0
    else .error .invalidInstruction
  | 0x64 => vexMri opcode                                                          -- VexMri
  | 0x65 => vexMri (opcode ||| lx01)                                               -- VexMri_Lx
  | 0x6e =>                                                                        -- VexRm_VM
    if isign3 == RM then
      let l := let a := opcodeLByVMem (memOf o1); let b := opcodeLBySize o0.rmSize; if a ≥ b then a else b
      emitVexEvexM c (opcode ||| l) options (r32 o0.id) (memOf o1) 0 0
    else .error .invalidInstruction
  | 0x63 =>                                                                        -- VexMr_VM
    if isign3 == MR then
      let l := let a := opcodeLByVMem (memOf o0); let b := opcodeLBySize o1.rmSize; if a ≥ b then a else b
      emitVexEvexM c (opcode ||| l) options (r32 o1.id) (memOf o0) 0 0
    else .error .invalidInstruction
  | 0x80 =>                                                                        -- VexRmv_VM
    if isign3 == 1 + 16 + 64 then
      let l := let a := opcodeLByVMem (memOf o1); let b := opcodeLBySize (o0.rmSize ||| o2.rmSize); if a ≥ b then a else b
      emitVexEvexM c (opcode ||| l) options (packRegVvvvv o0.id o2.id) (memOf o1) 0 0
    else .error .invalidInstruction
  | 0x19 =>                                                                       -- X86Arith
    if isign3 == RR then
      let opc := addArithBySize opcode o0.rmSize
      if o0.rmSize != o1.rmSize then .error .operandSizeMismatch else
      let (opt1, rb) := if o0.rmSize == 1 then fixupGpb options o0 (r32 o0.id) else (options, r32 o0.id)
      let (opt2, rg) := if o0.rmSize == 1 then fixupGpb opt1 o1 (r32 o1.id) else (opt1, r32 o1.id)
      if (options &&& oModRM) == 0#32 then emitX86R opc opt2 rg rb 0 0
      else emitX86R (opc + 2#32) opt2 rb rg 0 0
    else if isign3 == RM then
      let opc := addArithBySize (opcode + 2#32) o0.rmSize
      let (opt1, rg) := if o0.rmSize == 1 then fixupGpb options o0 (r32 o0.id) else (options, r32 o0.id)
      emitX86M c opc opt1 rg (memOf o1) 0 0
    else if isign3 == MR then
      let opc := addArithBySize opcode o1.rmSize
      let (opt1, rg) := if o1.rmSize == 1 then fixupGpb options o1 (r32 o1.id) else (options, r32 o1.id)
      emitX86M c opc opt1 rg (memOf o0) 0 0
    else if isign3 == 1 + 4 * 8 then                                              -- Reg, Imm
      let size := o0.rmSize
      let rb0 := r32 o0.id
      let imm0 := o1.immVal
      if size == 1 then
        let (opt1, rb) := fixupGpb options o0 rb0
        if rb == 0#32 && (options &&& oLongForm) == 0#32 then
          emitX86Op (((0x80#32 &&& (kPP_66 ||| kW)) ||| ((opReg0 <<< 3) ||| 0x04#32))) opt1 imm0 1
        else emitX86R 0x80#32 opt1 opReg0 rb imm0 1
      else
        let opc0 : BitVec 32 := if size == 2 then 0x80#32 ||| kPP_66 else 0x80#32
        let imm1 := if size == 4 then signExtendInt32 imm0 else imm0
        let canT := r.id == 23 && isUInt32of64 imm1   -- Inst::kIdAnd
        let r8 : Except Err (Nat × BitVec 32) :=
          if size == 8 then
            if !isInt32of64 imm1 then (if canT then .ok (4, opc0) else .error .invalidImmediate)
            else .ok (8, opc0 ||| kW)
          else .ok (size, opc0)
        match r8 with
        | .error e => .error e
        | .ok (size, opc) =>
          let isz0 := min size 4
          let isz := if isInt8of64 imm1 && (options &&& oLongForm) == 0#32 then 1 else isz0
          if rb0 == 0#32 && isz != 1 && (options &&& oLongForm) == 0#32 then
            emitX86Op ((opc &&& (kPP_66 ||| kW)) ||| ((opReg0 <<< 3) ||| 0x05#32)) options imm1 (min size 4)
          else emitX86R (opc + (if isz != 1 then 1#32 else 3#32)) options opReg0 rb0 imm1 isz
    else if isign3 == 2 + 4 * 8 then                                              -- Mem, Imm
      let msz := o0.rmSize
      if msz == 0 then .error .ambiguousOperandSize else
      let imm1 := if msz == 4 then signExtendInt32 o1.immVal else o1.immVal
      let isz := if isInt8of64 imm1 && (options &&& oLongForm) == 0#32 then 1 else min msz 4
      let opc := addPrefixBySize (0x80#32 + (if msz != 1 then (if isz != 1 then 1#32 else 3#32) else 0#32)) msz
      emitX86M c opc options opReg0 (memOf o0) imm1 isz
    else .error .invalidInstruction
  | 0x37 =>                                                                       -- X86Rot
    match o0 with
    | .reg _ _ =>
      let opc := addArithBySize opcode o0.rmSize
      let (opt1, rb) := if o0.rmSize == 1 then fixupGpb options o0 (r32 o0.id) else (options, r32 o0.id)
      if isign3 == RR then
        if o1.id != 1 then .error .invalidInstruction else emitX86R (opc + 2#32) opt1 opReg0 rb 0 0
      else if isign3 == 1 + 4 * 8 then
        let iv := o1.immVal &&& 0xFF#64
        if iv == 1#64 && (options &&& oLongForm) == 0#32 then emitX86R opc opt1 opReg0 rb iv 0
        else emitX86R (opc - 0x10#32) opt1 opReg0 rb iv 1
      else .error .invalidInstruction
    | _ =>
      if o0.rmSize == 0 then .error .ambiguousOperandSize else
      let opc := addArithBySize opcode o0.rmSize
      if isign3 == MR then
        if o1.id != 1 then .error .invalidInstruction else emitX86M c (opc + 2#32) options opReg0 (memOf o0) 0 0
      else if isign3 == 2 + 4 * 8 then
        let iv := o1.immVal &&& 0xFF#64
        if iv == 1#64 && (options &&& oLongForm) == 0#32 then emitX86M c opc options opReg0 (memOf o0) iv 0
        else emitX86M c (opc - 0x10#32) options opReg0 (memOf o0) iv 1
      else .error .invalidInstruction
  | 0x3d =>                                                                       -- X86Test
    if isign3 == RR then
      if o0.rmSize != o1.rmSize then .error .operandSizeMismatch else
      let opc := addArithBySize opcode o0.rmSize
      let (opt1, rb) := if o0.rmSize == 1 then fixupGpb options o0 (r32 o0.id) else (options, r32 o0.id)
      let (opt2, rg) := if o0.rmSize == 1 then fixupGpb opt1 o1 (r32 o1.id) else (opt1, r32 o1.id)
      emitX86R opc opt2 rg rb 0 0
    else if isign3 == MR then
      let opc := addArithBySize opcode o1.rmSize
      let (opt1, rg) := if o1.rmSize == 1 then fixupGpb options o1 (r32 o1.id) else (options, r32 o1.id)
      emitX86M c opc opt1 rg (memOf o0) 0 0
    else
      let alt := r.altOp
      let oreg := (alt >>> 18) &&& 7#32
      if isign3 == 1 + 4 * 8 then
        let opc := addArithBySize alt o0.rmSize
        let (opt1, rb) := if o0.rmSize == 1 then fixupGpb options o0 (r32 o0.id) else (options, r32 o0.id)
        let (iv, isz) : BitVec 64 × Nat := if o0.rmSize == 1 then (o1.immVal &&& 0xFF#64, 1) else (o1.immVal, min o0.rmSize 4)
        if rb == 0#32 && (options &&& oLongForm) == 0#32 then
          emitX86Op ((opc &&& (kPP_66 ||| kW)) ||| (0xA8#32 + (if o0.rmSize != 1 then 1#32 else 0#32))) opt1 iv isz
        else emitX86R opc opt1 oreg rb iv isz
      else if isign3 == 2 + 4 * 8 then
        if o0.rmSize == 0 then .error .ambiguousOperandSize else
        emitX86M c (addArithBySize alt o0.rmSize) options oreg (memOf o0) o1.immVal (min o0.rmSize 4)
      else .error .invalidInstruction
  | 0x21 =>                                                                       -- X86Imul (forms other than the one-operand MulDiv ones)
    let shortOrLong (imm : BitVec 64) : BitVec 32 × Nat :=
      let opc := addPrefixBySize 0x6B#32 o0.rmSize
      if !isInt8of64 imm || (options &&& oLongForm) != 0#32 then (opc - 2#32, if o0.rmSize == 2 then 2 else 4) else (opc, 1)
    if isign3 == RR + 4 * 64 then
      let (opc, isz) := shortOrLong o2.immVal
      emitX86R opc options (r32 o0.id) (r32 o1.id) o2.immVal isz
    else if isign3 == RM + 4 * 64 then
      let imm := if o0.rmSize == 4 then signExtendInt32 o2.immVal else o2.immVal
      let (opc, isz) := shortOrLong imm
      emitX86M c opc options (r32 o0.id) (memOf o1) imm isz
    else if isign3 == RR then
      if o1.rmSize == 1 then .error .unmodelled else
      if o0.rmSize != o1.rmSize then .error .operandSizeMismatch else
      emitX86R (addPrefixBySize 0x1AF#32 o0.rmSize) options (r32 o0.id) (r32 o1.id) 0 0
    else if isign3 == RM then
      if o1.rmSize == 1 then .error .unmodelled else
      emitX86M c (addPrefixBySize 0x1AF#32 o0.rmSize) options (r32 o0.id) (memOf o1) 0 0
    else if isign3 == 1 + 4 * 8 then
      let imm := if o0.rmSize == 4 then signExtendInt32 o1.immVal else o1.immVal
      let (opc, isz) := shortOrLong imm
      emitX86R opc options (r32 o0.id) (r32 o0.id) imm isz
    else .error .unmodelled
  | 0x33 =>                                                                       -- X86Push
    if isign3 == 1 then
      if o0.isSReg then (if o0.id ≥ 7 then .error .invalidSegment else emitX86Op (pushSReg o0.id) options 0 0)
      else if o0.rmSize < 2 then .error .invalidInstruction
      else emitX86OpReg (r.altOp ||| (if o0.rmSize == 2 then kPP_66 else 0#32)) options (r32 o0.id) 0 0
    else if isign3 == 4 then
      let isz := if isInt8of64 o0.immVal && (options &&& oLongForm) == 0#32 then 1 else 4
      emitX86Op (if isz == 1 then 0x6A#32 else 0x68#32) options o0.immVal isz
    else if isign3 == 2 then
      if o0.rmSize == 0 then .error .ambiguousOperandSize
      else if o0.rmSize != 2 && o0.rmSize != (if c.mode64 then 8 else 4) then .error .invalidInstruction
      else emitX86M c (opcode ||| (if o0.rmSize == 2 then kPP_66 else 0#32)) options opReg0 (memOf o0) 0 0
    else .error .invalidInstruction
  | 0x35 =>                                                                       -- X86Pop
    if isign3 == 1 then
      if o0.isSReg then (if o0.id == 2 || o0.id ≥ 7 then .error .invalidSegment else emitX86Op (popSReg o0.id) options 0 0)
      else if o0.rmSize < 2 then .error .invalidInstruction
      else emitX86OpReg (r.altOp ||| (if o0.rmSize == 2 then kPP_66 else 0#32)) options (r32 o0.id) 0 0
    else if isign3 == 2 then
      if o0.rmSize == 0 then .error .ambiguousOperandSize
      else if o0.rmSize != 2 && o0.rmSize != (if c.mode64 then 8 else 4) then .error .invalidInstruction
      else emitX86M c (opcode ||| (if o0.rmSize == 2 then kPP_66 else 0#32)) options opReg0 (memOf o0) 0 0
    else .error .invalidInstruction
  | 0x2b =>                                                                       -- X86Lea
    if isign3 == RM then emitX86M c (addPrefixBySize opcode o0.rmSize) options (r32 o0.id) (memOf o1) 0 0
    else .error .invalidInstruction
  | 0x2c =>                                                                       -- X86Mov: general-purpose register / memory / immediate forms
    -- (the moffs `movabs` forms and segment registers with memory answer `unmodelled`)
    if isign3 == RR then
      if o0.isGp && o1.isGp then
        if o0.rmSize != o1.rmSize then .error .invalidInstruction else
        if o0.rmSize == 1 then
          let (opt1, rb) := fixupGpb options o0 (r32 o0.id)
          let (opt2, rg) := fixupGpb opt1 o1 (r32 o1.id)
          if (options &&& oModRM) == 0#32 then emitX86R 0x88#32 opt2 rg rb 0 0
          else emitX86R 0x8A#32 opt2 rb rg 0 0
        else
          let opc := addPrefixBySize 0x89#32 o0.rmSize
          if (options &&& oModRM) == 0#32 then emitX86R opc options (r32 o1.id) (r32 o0.id) 0 0
          else emitX86R (opc + 2#32) options (r32 o0.id) (r32 o1.id) 0 0
      else
        let regT (o : Op) : Nat := match o with | .reg t _ => t | _ => 0
        -- CR8+ in 32-bit mode takes the `LOCK MOV` path (AMD extension): not modelled
        let lockPath (o : Op) : Bool := !c.mode64 && o.id ≥ 8
        if o0.isGp then
          if regT o1 == 25 then emitX86R (addPrefixBySize 0x8C#32 o0.rmSize) options (r32 o1.id - 1#32) (r32 o0.id) 0 0
          else if regT o1 == 26 then (if lockPath o1 then .error .unmodelled else emitX86R 0x120#32 options (r32 o1.id) (r32 o0.id) 0 0)
          else if regT o1 == 27 then emitX86R 0x121#32 options (r32 o1.id) (r32 o0.id) 0 0
          else .error .invalidInstruction
        else if !o1.isGp then .error .invalidInstruction
        else if regT o0 == 25 then emitX86R (addPrefixBySize 0x8E#32 o1.rmSize) options (r32 o0.id - 1#32) (r32 o1.id) 0 0
        else if regT o0 == 26 then (if lockPath o0 then .error .unmodelled else emitX86R 0x122#32 options (r32 o0.id) (r32 o1.id) 0 0)
        else if regT o0 == 27 then emitX86R 0x123#32 options (r32 o0.id) (r32 o1.id) 0 0
        else .error .invalidInstruction
    else if isign3 == RM then
      if !o0.isGp then .error .unmodelled else
      let m := memOf o1
      -- AH has the id of AL but no moffs form (repaired code, fixes/C01-15.patch)
      if o0.id == 0 && m.baseType == 0 && m.indexType == 0 && !o0.isGp8Hi && shouldUseMovabs c o0.rmSize options m then
        emitMovAbs c (addArithBySize 0#32 o0.rmSize + 0xA0#32) options m else
      let (opt1, rg) := if o0.rmSize == 1 then fixupGpb options o0 (r32 o0.id) else (options, r32 o0.id)
      emitX86M c (addArithBySize 0#32 o0.rmSize + 0x8A#32) opt1 rg m 0 0
    else if isign3 == MR then
      if !o1.isGp then .error .unmodelled else
      let m := memOf o0
      if o1.id == 0 && m.baseType == 0 && m.indexType == 0 && !o1.isGp8Hi && shouldUseMovabs c o1.rmSize options m then
        emitMovAbs c (addArithBySize 0#32 o1.rmSize + 0xA2#32) options m else
      let (opt1, rg) := if o1.rmSize == 1 then fixupGpb options o1 (r32 o1.id) else (options, r32 o1.id)
      emitX86M c (addArithBySize 0#32 o1.rmSize + 0x88#32) opt1 rg m 0 0
    else if isign3 == 1 + 4 * 8 then                                              -- Reg, Imm
      if !o0.isGp then .error .unmodelled else
      let size := o0.rmSize
      if size == 1 then
        let (opt1, rb) := fixupGpb options o0 (r32 o0.id)
        emitX86OpReg 0xB0#32 opt1 rb (o1.immVal &&& 0xFF#64) 1
      else if size == 8 && (options &&& oLongForm) == 0#32 && isInt32of64 o1.immVal then
        emitX86R (kW ||| 0xC7#32) options 0#32 (r32 o0.id) o1.immVal 4                 -- sign-extended `C7 /0 id` (kOptimizeForSize is not set)
      else emitX86OpReg (addPrefixBySize 0xB8#32 size) options (r32 o0.id) o1.immVal size
    else if isign3 == 2 + 4 * 8 then                                              -- Mem, Imm
      let msz := o0.rmSize
      if msz == 0 then .error .ambiguousOperandSize else
      emitX86M c (addPrefixBySize (if msz != 1 then 0xC7#32 else 0xC6#32) msz) options 0#32 (memOf o0) o1.immVal (min msz 4)
    else .error .unmodelled
  | 0x2d =>                                                                       -- X86Movabs (moffs forms; `movabs r64, imm64` not modelled)
    if isign3 == RM then
      let m := memOf o1
      if !o0.isGp || o0.id != 0 || o0.isGp8Hi then .error .invalidInstruction
      else if m.baseType != 0 || m.indexType != 0 then .error .invalidAddress
      else if m.addrType == 2 then .error .invalidAddress
      else emitMovAbs c (addArithBySize 0xA0#32 o0.rmSize) options m
    else if isign3 == MR then
      let m := memOf o0
      if !o1.isGp || o1.id != 0 || o1.isGp8Hi then .error .invalidInstruction
      else if m.baseType != 0 || m.indexType != 0 then .error .invalidAddress
      else emitMovAbs c (addArithBySize 0xA2#32 o1.rmSize) options m
    else .error .unmodelled
  | 0x0e =>                                                                       -- X86M_Only
    if isign3 == 2 then emitX86M c opcode options opReg0 (memOf o0) 0 0 else .error .invalidInstruction
  | 0x38 =>                                                                       -- X86Set
    if isign3 == 1 then
      let (opt1, rb) := fixupGpb options o0 (r32 o0.id)
      emitX86R opcode opt1 opReg0 rb 0 0
    else if isign3 == 2 then emitX86M c opcode options opReg0 (memOf o0) 0 0
    else .error .invalidInstruction
  | 0x56 =>                                                                       -- ExtMov
    if isign3 == RR then
      if (options &&& oModMR) == 0#32 || r.altOp == 0#32 then emitX86R opcode options (r32 o0.id) (r32 o1.id) 0 0
      else emitX86R r.altOp options (r32 o1.id) (r32 o0.id) 0 0
    else if isign3 == RM then emitX86M c opcode options (r32 o0.id) (memOf o1) 0 0
    else if isign3 == MR then emitX86M c r.altOp options (r32 o1.id) (memOf o0) 0 0
    else .error .invalidInstruction
  | 0x26 => emitJmpCall c opcode options 0#32 r.altOp o0 false                   -- X86Jcc
  | 0x28 =>                                                                       -- X86Jmp
    if isign3 == 1 then emitX86R (opcode ||| (if o0.rmSize == 2 then kPP_66 else 0#32)) options opReg0 (r32 o0.id) 0 0
    else if isign3 == 2 then emitX86M c (opcode ||| (if o0.rmSize == 2 then kPP_66 else 0#32)) options opReg0 (memOf o0) 0 0
    else emitJmpCall c 0xE9#32 options 0#32 r.altOp o0 true
  | 0x1c =>                                                                       -- X86Call
    if isign3 == 1 then emitX86R (opcode ||| (if o0.rmSize == 2 then kPP_66 else 0#32)) options opReg0 (r32 o0.id) 0 0
    else if isign3 == 2 then emitX86M c (opcode ||| (if o0.rmSize == 2 then kPP_66 else 0#32)) options opReg0 (memOf o0) 0 0
    else emitJmpCall c 0xE8#32 options 0#32 r.altOp o0 true
  | _ => .error .unmodelled

/-- `_emit` up to the encoding switch: forced options (InvalidRex in 32-bit mode), LOCK / XACQUIRE / XRELEASE / REP bytes -/
def emitInst (mode64 : Bool) (base : Option (BitVec 64)) (off : Nat) (r : Row) (userOpts : BitVec 32) (k : Nat) (ops : List Op) :
    Except Err (List Byte) := do
  let options := if mode64 then userOpts else userOpts ||| oInvalidRex
  let o (i : Nat) : Op := ops.getD i .none
  let lock : List Byte ←
    (if (options &&& oLock) != 0#32 then
      let xx := (options &&& (oXAcquire ||| oXRelease)) != 0#32
      if (r.iflags &&& 0x10000#32) == 0#32 && !xx then Except.error Err.invalidLock
      else if xx then
        if (options &&& oXAcquire) != 0#32 && (r.iflags &&& 0x20000#32) == 0#32 then Except.error Err.invalidXAcquire
        else if (options &&& oXRelease) != 0#32 && (r.iflags &&& 0x40000#32) == 0#32 then Except.error Err.invalidXRelease
        else Except.ok [(if (options &&& oXAcquire) != 0#32 then 0xF2#8 else 0xF3#8), 0xF0#8]
      else Except.ok [0xF0#8]
    else Except.ok [])
  let rep : List Byte ←
    (if (options &&& (oRep ||| oRepne)) != 0#32 then
      if (r.iflags &&& 0x4000#32) == 0#32 then Except.error Err.invalidRep
      else Except.ok [(if (options &&& oRepne) != 0#32 then 0xF2#8 else 0xF3#8)]
    else Except.ok [])
  let pfx := lock ++ rep
  let c := r.ctx mode64 base (off + pfx.length) k
  -- `EmitVexEvexR` refuses {er}/{sae} on vcvtsi2sd / vcvtusi2sd with a 32-bit integer source and on vcmpsd / vcmpss whose destination is
  -- not a mask register (InvalidEROrSAE): the same answer as an instruction without the capability
  let isGp32 (x : Op) : Bool := match x with | .reg 5 _ => true | _ => false
  let erSaeBan := ((r.id == 882 || r.id == 915) && isGp32 (o 2)) || ((r.id == 832 || r.id == 834) && !(o 0).isMask)
  let c := if erSaeBan then { c with hasER := false, hasSAE := false } else c
  let body ← dispatch c r options (o 0) (o 1) (o 2) (o 3)
  pure (pfx ++ body)

/-! ### line interface for the driver -/

def hexDigit? (ch : Char) : Option Nat :=
  if '0' ≤ ch ∧ ch ≤ '9' then some (ch.toNat - '0'.toNat)
  else if 'a' ≤ ch ∧ ch ≤ 'f' then some (ch.toNat - 'a'.toNat + 10)
  else if 'A' ≤ ch ∧ ch ≤ 'F' then some (ch.toNat - 'A'.toNat + 10) else none
def parseHex? (s : String) : Option Nat :=
  if s.isEmpty then none else
  s.foldl (fun acc ch => match acc, hexDigit? ch with | some a, some d => some (a * 16 + d) | _, _ => none) (some 0)

def regTypeOfName : String → Option Nat
  | "none" => some 0 | "label" => some 1 | "gpb" => some 2 | "gpbhi" => some 3 | "gpw" => some 4 | "gpd" => some 5 | "gpq" => some 6
  | "xmm" => some 11 | "ymm" => some 12 | "zmm" => some 13 | "k" => some 16 | "tmm" => some 17 | "sreg" => some 25 | "creg" => some 26
  | "dreg" => some 27 | "mm" => some 28 | "st" => some 29 | "bnd" => some 30 | "rip" => some 31 | _ => none

def optBit : String → Option (BitVec 32)
  | "lock" => some oLock | "rep" => some oRep | "repne" => some oRepne | "xacquire" => some oXAcquire | "xrelease" => some oXRelease
  | "short" => some oShortForm | "long" => some oLongForm | "rex" => some oRex | "vex" => some oVex | "vex3" => some oVex3
  | "evex" => some oEvex | "modmr" => some oModMR | "modrm" => some oModRM | "z" => some oZMask | "er" => some oER | "sae" => some oSAE
  | "rn" => some 0#32 | "rd" => some 0x200000#32 | "ru" => some 0x400000#32 | "rz" => some 0x600000#32 | _ => none

def parseOp (s : String) : Option Op :=
  match s.splitOn ":" with
  | ["R", k, id] => do some (.reg (← regTypeOfName k) (← id.toNat?))
  | ["I", v] => do some (.imm (BitVec.ofNat 64 (← parseHex? v)))
  | ["L", p] => do some (.label (← p.toNat?))
  | ["M", size, bt, bid, it, iid, shift, off, seg, bcst, aty] => do
    some (.mem { size := ← size.toNat?, baseType := ← regTypeOfName bt, baseId := ← bid.toNat?, indexType := ← regTypeOfName it,
                 indexId := ← iid.toNat?, shift := ← shift.toNat?, offset := BitVec.ofNat 64 (← parseHex? off), seg := ← seg.toNat?,
                 bcst := ← bcst.toNat?, addrType := ← aty.toNat? })
  | _ => none

def hexByte (b : Byte) : String :=
  let d (n : Nat) : Char := if n < 10 then Char.ofNat (48 + n) else Char.ofNat (87 + n)
  String.ofList [d (b.toNat / 16), d (b.toNat % 16)]

def encLine (ws : List String) : String :=
  match ws with
  | mode :: base :: off :: id :: enc :: mainOp :: altOp :: ifl :: afl :: opts :: k :: opsS =>
    let r : Option String := do
      let row : Row := { id := ← id.toNat?, encoding := ← enc.toNat?, mainOp := BitVec.ofNat 32 (← parseHex? mainOp),
                         altOp := BitVec.ofNat 32 (← parseHex? altOp), iflags := BitVec.ofNat 32 (← parseHex? ifl),
                         aflags := BitVec.ofNat 32 (← parseHex? afl) }
      let base ← if base == "-" then some none else (parseHex? base).map (fun b => some (BitVec.ofNat 64 b))
      let off ← off.toNat?
      let os ← if opts == "-" then some [] else (opts.splitOn ",").mapM optBit
      let options := os.foldl (· ||| ·) 0#32
      let kk ← if k == "-" then some 0 else k.toNat?
      let ops ← opsS.mapM parseOp
      match emitInst (mode == "64") base off row options kk ops with
      | .ok bs => some ("ok " ++ (if bs.isEmpty then "-" else String.join (bs.map hexByte)))
      | .error .unmodelled => some "unmodelled"
      | .error e => some s!"err {e.code}"
    r.getD "bad-op"
  | _ => "bad-op"

end Model.X86
