/- placeholder, replaced by the front-end model -/
namespace Model.X86
def encLine (_ws : List String) : String := "unmodelled"
end Model.X86
