/-
Model of asmjit/support/arena.cpp + arena.h (`Arena::_init`, `reset`, `alloc_oneshot`, `_alloc_oneshot`,
`Arena_make_block_leftover_reusable`, `_get_reusable_slot_index`, `_alloc_reusable`, `free_reusable`,
`_release_dynamic`, `statistics`), written line by line after the C++ (64-bit target:
`sizeof(ManagedBlock) = 16`, `Globals::kAllocOverhead = 32`, `kAllocAlignment = kAlignment = 8`, hence
`kArenaAlignmentOverhead = 0`, `kBlockSizeOverhead = 48`).

Pointers become canonical locations: a managed block is named by its *position in the `_first_block` chain*
and a pointer into it by the offset from `block->data()`; a dynamic block by a creation counter.
`malloc(n)` is an oracle: it succeeds iff `n ≤ mallocMax` (parameter of the state).

The reuse loop of `_alloc_oneshot` follows the REPAIRED code (fixes/C18-1.patch, DESIGN.md defect #19):
a spare block that is too small is unlinked from the chain and freed.  `reset(kHard)` follows the repaired
code of fixes/C18-2.patch (dynamic blocks are released even when no managed block exists).
Core-only imports.
-/
namespace AsmjitVerif.Arena

def u64 : Nat := 2 ^ 64
def u32 : Nat := 2 ^ 32

/-- bit length of `n` (`64 - clz(n)` for `n < 2^64`) -/
def bitLen (n : Nat) : Nat := if n = 0 then 0 else Nat.log2 n + 1

def alignUp (x a : Nat) : Nat := (x + a - 1) / a * a

inductive Loc where
  | managed (pos off : Nat)
  | dyn (id : Nat)
  deriving DecidableEq, Repr, Inhabited

structure State where
  /-- usable size (`block->size`) of every block of the `_first_block` chain; `[]` = only the zero block -/
  blocks : List Nat := []
  /-- position of `_current_block` in the chain -/
  cur : Nat := 0
  /-- `_ptr - _current_block->data()` -/
  ptr : Nat := 0
  shift : Nat := 10
  minShift : Nat := 10
  maxShift : Nat := 26
  hasStatic : Bool := false
  unused : Nat := 0
  /-- `_reusable_slots[8]`, each a LIFO stack (head = first to be reused) -/
  slots : List (List Loc) := List.replicate 8 []
  /-- live dynamic blocks (`_dynamic_blocks`, most recent first) -/
  dyns : List Nat := []
  dynCounter : Nat := 0
  mallocMax : Nat := 2 ^ 40
  deriving Repr, Inhabited

def kMinSlot : Nat := 16
def kMaxSlot : Nat := 2048
def kSlotCount : Nat := 8

/-- `Arena::_init(min_block_size, static_arena_memory)`; `staticSize = 0` means no static block. -/
def init (minBlockSize staticSize : Nat) (mallocMax : Nat := 2 ^ 40) : State :=
  let sh := bitLen minBlockSize
  { blocks := if staticSize ≠ 0 then [staticSize - 16] else [], cur := 0, ptr := 0,
    shift := sh, minShift := sh, maxShift := 26, hasStatic := staticSize ≠ 0, unused := 0,
    slots := List.replicate 8 [], dyns := [], dynCounter := 0, mallocMax := mallocMax }

def State.curSize (s : State) : Nat := s.blocks.getD s.cur 0
def State.remaining (s : State) : Nat := s.curSize - s.ptr

/-- `_get_reusable_slot_index(size, slot, allocated_size)`; `size` is taken mod 2^64 like `size - 1u`. -/
def slotIndex (size : Nat) : Nat := bitLen (((size + u64 - 1) % u64) ||| 15) - 4
def slotSize (idx : Nat) : Nat := (16 <<< idx) % u64

/-- `Arena::reset(policy)` (repaired, see header) -/
def reset (s : State) (hard : Bool) : State :=
  let s1 :=
    if hard then
      if s.blocks.isEmpty then s
      else if s.hasStatic then { s with blocks := s.blocks.take 1, shift := s.minShift }
      else { s with blocks := [], shift := s.minShift }
    else s
  { s1 with dyns := [], slots := List.replicate 8 [], cur := 0, ptr := 0, unused := 0 }

/-- The loop of `_alloc_oneshot` over the spare blocks that follow the current one (after a soft reset):
returns the list of spare blocks that remain and whether the first remaining one fits. -/
def dropSmall (size : Nat) : List Nat → List Nat
  | [] => []
  | b :: rest => if size ≤ b then b :: rest else dropSmall size rest

/-- `Arena::_alloc_oneshot(size)`: returns the new state and the location (`none` = nullptr). -/
def allocOneshotSlow (s : State) (size : Nat) : State × Option Loc :=
  let unusedBytes := s.remaining % u32
  let before := s.blocks.take (s.cur + 1)
  let spare := dropSmall size (s.blocks.drop (s.cur + 1))
  match spare with
  | _ :: _ =>
    -- a spare block fits: it becomes the current block
    let s' := { s with blocks := before ++ spare, cur := before.length, ptr := size, unused := (s.unused + unusedBytes) % u32 }
    (s', some (.managed before.length 0))
  | [] =>
    let s0 := { s with blocks := before }
    let blockSize0 := 1 <<< s.shift
    if size > blockSize0 - 48 ∧ size > u64 - 1 - 48 then (s0, none) else
    let blockSize := if size > blockSize0 - 48 then size + 16 else blockSize0 - 32
    if blockSize > s.mallocMax then (s0, none) else
    let real := blockSize - 16
    let s' := { s0 with blocks := before ++ [real], cur := before.length, ptr := size,
                        shift := min (s.shift + 1) s.maxShift, unused := (s.unused + unusedBytes) % u32 }
    (s', some (.managed before.length 0))

/-- inline `Arena::alloc_oneshot(size)` (size must be a multiple of 8) -/
def allocOneshot (s : State) (size : Nat) : State × Option Loc :=
  if size > s.remaining then allocOneshotSlow s size
  else ({ s with ptr := s.ptr + size }, some (.managed s.cur s.ptr))

def pushSlot (slots : List (List Loc)) (idx : Nat) (l : Loc) : List (List Loc) :=
  slots.modify idx (fun st => l :: st)

/-- `Arena_make_block_leftover_reusable(arena, ptr, size)` -/
def leftover (fuel : Nat) (s : State) (size : Nat) : State :=
  match fuel with
  | 0 => s
  | fuel + 1 =>
    if size < kMinSlot then s else
    let k0 := slotIndex (size / 2)
    let k := if k0 < kSlotCount then k0 else kSlotCount - 1
    let sz := slotSize k
    leftover fuel { s with slots := pushSlot s.slots k (.managed s.cur s.ptr), ptr := s.ptr + sz } (size - sz)

/-- `Arena::_alloc_reusable(size, allocated_size)`: (state, location, allocated size) -/
def allocReusable (s : State) (size : Nat) : State × Option Loc × Nat :=
  let idx := slotIndex size
  if idx < kSlotCount then
    let asz := slotSize idx
    match s.slots.getD idx [] with
    | p :: rest => ({ s with slots := s.slots.set idx rest }, some p, asz)
    | [] =>
      if s.remaining ≥ asz then ({ s with ptr := s.ptr + asz }, some (.managed s.cur s.ptr), asz)
      else
        let s1 := leftover 64 s s.remaining
        match allocOneshotSlow s1 asz with
        | (s2, some p) => (s2, some p, asz)
        | (s2, none) => (s2, none, 0)
  else
    if size ≥ u64 - 1 - 24 then (s, none, 0)
    else if size + 24 > s.mallocMax then (s, none, 0)
    else ({ s with dyns := s.dynCounter :: s.dyns, dynCounter := s.dynCounter + 1 }, some (.dyn s.dynCounter), size)

/-- `Arena::free_reusable(p, size)` -/
def freeReusable (s : State) (p : Loc) (size : Nat) : State :=
  let idx := slotIndex size
  if idx < kSlotCount then { s with slots := pushSlot s.slots idx p }
  else match p with
    | .dyn id => { s with dyns := s.dyns.erase id }
    | _ => s

/-- `Arena::statistics()`: (block_count, used_size, reserved_size, overhead_size) -/
def statistics (s : State) : Nat × Nat × Nat × Nat :=
  if s.blocks.isEmpty then (1, 0, 0, s.unused) else
  let before := (s.blocks.take s.cur).foldl (· + ·) 0
  (s.blocks.length, before + s.ptr, s.blocks.foldl (· + ·) 0, s.unused)

end AsmjitVerif.Arena
