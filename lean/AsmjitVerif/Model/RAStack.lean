/-
C07 model, hand-over part: `RAStackAllocator` (asmjit/core/rastack.cpp: `new_slot`, `calculate_stack_frame`,
`adjust_slot_offsets`) and the frame side of `BaseRAPass::update_stack_frame` (asmjit/core/rapass.cpp).

The sort of step 2 is not transcribed: `calculate` takes the slots in the order the sort produced (the driver checks
that the implementation's order is a weight-descending permutation); the theorems hold for every order.
The gap lists of step 3 are transcribed as they are, including the fact that a gap is registered *at the aligned
offset* (so the registration loop always bails out and the lists stay empty - proved, see `placeOne_simple`).
Core-only imports.
-/
import AsmjitVerif.Model.Frame
namespace AsmjitVerif.Frame

structure RASlot where
  size : Nat
  /-- `_alignment` = `uint8_t(max(alignment, 1))` -/
  align : Nat
  flags : Nat
  useCount : Nat
  weight : Nat := 0
  offset : Nat := 0
  deriving Repr, Inhabited

def RASlot.isRegHome (s : RASlot) : Bool := s.flags.testBit 0
def RASlot.isStackArg (s : RASlot) : Bool := s.flags.testBit 1

/-- `RAStackAllocator::new_slot`: the slot and the allocator's new `_alignment` -/
def newSlot (allocAlign size alignment flags : Nat) : RASlot × Nat :=
  ({ size := u32 size, align := u8 (max (u32 alignment) 1), flags := u16 flags, useCount := 0 }, max allocAlign (u32 alignment))

/-- `Support::ctz` of a non-zero 32-bit word (`__builtin_ctz`; undefined for 0, here 32) -/
def ctzGo : Nat → Nat → Nat
  | 0, _ => 0
  | f + 1, x => if x % 2 = 1 then 0 else 1 + ctzGo f (x / 2)
def ctz (x : Nat) : Nat := ctzGo 32 x

/-- step 1 of `calculate_stack_frame` -/
def RASlot.calcWeight (s : RASlot) : Nat :=
  let power := min (ctz s.align) 6
  if s.isRegHome then min (16 + s.useCount * (7 - power)) 0xFFFFFFFF else power

structure Gap where
  offset : Nat
  size : Nat
  deriving Repr, Inhabited

/-- `gaps[kSizeCount - 1]`: six vectors, used as stacks -/
abbrev Gaps := List (List Gap)
def noGaps : Gaps := [[], [], [], [], [], []]

/-- the `do … while (++index < 6)` search: pops the last gap of the first non-empty vector at or above `index` -/
def popGap (gaps : Gaps) : Nat → Nat → Option (Gap × Gaps)
  | 0, _ => none
  | fuel + 1, index =>
    if index < 6 then
      match (gaps.getD index []).getLast? with
      | some g => some (g, gaps.set index ((gaps.getD index []).dropLast))
      | none => popGap gaps fuel (index + 1)
    else none

/-- the gap registration loop -/
def regGaps : Nat → Gaps → Nat → Nat → Gaps
  | 0, gaps, _, _ => gaps
  | fuel + 1, gaps, gapOffset, gapEnd =>
    if gapOffset < gapEnd then
      let index := ctz gapOffset
      let slotSize := u32 (1 <<< index)
      if u32 (gapEnd + 2 ^ 32 - gapOffset) < slotSize then gaps
      else regGaps fuel (gaps.set index ((gaps.getD index []) ++ [⟨gapOffset, slotSize⟩])) (u32 (gapOffset + slotSize)) gapEnd
    else gaps

structure PS where
  offset : Nat
  gaps : Gaps

/-- body of the step-3 loop for one slot -/
def placeOne (ps : PS) (s : RASlot) : PS × RASlot :=
  if s.isStackArg then (ps, s) else
  let offset := ps.offset
  let aligned := alignUp offset s.align
  let found := if s.size < 64 then popGap ps.gaps 6 (ctz s.size) else none
  match found with
  | some (gap, gaps') =>
    let gapSize := u32 (gap.size + 2 ^ 32 - s.size)
    let gapOffset := u32 (gap.offset + 2 ^ 32 - s.size)
    let gaps'' := if gapSize ≠ 0 then regGaps 64 gaps' gapOffset (u32 (gapSize + gapOffset)) else gaps'
    ({ offset := offset, gaps := gaps'' }, { s with offset := gap.offset })
  | none =>
    let (gapSize, gapOffset, offset) :=
      if offset ≠ aligned then (u32 (aligned + 2 ^ 32 - offset), aligned, aligned) else (0, 0, offset)
    let gaps' := if gapSize ≠ 0 then regGaps 64 ps.gaps gapOffset (u32 (gapSize + gapOffset)) else ps.gaps
    ({ offset := u32 (offset + s.size), gaps := gaps' }, { s with offset := offset })

def placeAll : PS → List RASlot → PS × List RASlot
  | ps, [] => (ps, [])
  | ps, s :: rest =>
    let (ps1, s1) := placeOne ps s
    let (ps2, rest1) := placeAll ps1 rest
    (ps2, s1 :: rest1)

/-- steps 1 and 3 of `calculate_stack_frame` on the slots in sorted order: the placed slots and `_stack_size` -/
def calculate (allocAlign : Nat) (sorted : List RASlot) : List RASlot × Nat :=
  let ws := sorted.map fun s => { s with weight := s.calcWeight }
  let (ps, out) := placeAll { offset := 0, gaps := noGaps } ws
  (out, alignUp ps.offset allocAlign)

/-- `adjust_slot_offsets` -/
def adjustSlots (out : List RASlot) (delta : Nat) : List RASlot :=
  out.map fun s => if s.isStackArg then s else { s with offset := u32 (s.offset + delta) }

/-- the frame side of `BaseRAPass::update_stack_frame`: clobbered registers become dirty, the allocator's alignment and
stack size become the local stack alignment / size, `update_func_frame`, `finalize` -/
def updateStackFrame (f : Frame) (clobbered : Nat → Nat) (allocAlign stackSize : Nat) (uff : FrameOp) : Frame :=
  let f := (((f.addDirtyG 0 (clobbered 0)).addDirtyG 1 (clobbered 1)).addDirtyG 2 (clobbered 2)).addDirtyG 3 (clobbered 3)
  (((f.setLocalAlign allocAlign).setLocalSize stackSize).apply uff).finalize

end AsmjitVerif.Frame
